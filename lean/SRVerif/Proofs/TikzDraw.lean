/-
  The drawing-call model (`Model/TikzDraw.lean`) against the statement-kind model of
  `Model/Layout.lean` (`Layout.drawBranch`, `Layout.drawAll`): projecting every drawing call to
  its `Layout.Stmt` gives exactly what the statement-kind model emits, errors included.
-/
import SRVerif.Model.TikzDraw
import SRVerif.Proofs.LabelDPPaths
import SRVerif.Proofs.RTree

namespace SR.TikzDraw

open SR SR.Layout SR.Tikz

/-- `Except.map` spelled out (no dependence on library simp lemmas). -/
def mapE {α β : Type} (f : α → β) : Except LErr α → Except LErr β
  | .ok a => .ok (f a)
  | .error e => .error e

@[simp] theorem mapE_ok {α β : Type} (f : α → β) (a : α) : mapE f (.ok a) = .ok (f a) := rfl
@[simp] theorem mapE_error {α β : Type} (f : α → β) (e : LErr) :
    mapE f (.error e : Except LErr α) = .error e := rfl

theorem stmtOf_anchorCall (deco : Deco) (lay : SubLayout) (b : FBranch) :
    (anchorCall deco lay b).filterMap stmtOf =
      if hasKey lay.anchors b.key then [Stmt.path] else [] := by
  unfold anchorCall hasKey
  cases lookupKey lay.anchors b.key <;> simp [stmtOf]

theorem anchorIn_eq (l : Option SubLayout) (k : Option Key) :
    anchorIn l k = mapE (fun _ => ()) (anchorPos l k) := by
  unfold anchorIn anchorPos hasKey
  cases l <;> cases k <;> simp
  rename_i l k
  cases lookupKey l.anchors k <;> simp

theorem branchIn_eq (l : SubLayout) (k : Option Key) :
    branchIn l k = mapE (fun _ => ()) (branchParentAnchor l k) := by
  unfold branchIn branchParentAnchor
  cases k <;> simp
  rename_i k
  cases fbLookup l.branches k <;> simp


/-- One loop iteration: the statement kinds of the drawing calls are those of `Layout.drawBranch`
    (same statements in the same order; the same exception otherwise). -/
theorem drawBranch_stmts (o : Orientation) (dp : DParams) (deco : Deco) (all : List SubLayout)
    (spOf : Path → Option Path) (lay : SubLayout) (ll rl : Option SubLayout) (b : FBranch) :
    mapE (List.filterMap stmtOf) (drawBranch o dp deco all spOf lay ll rl b) =
      Layout.drawBranch all spOf lay ll rl b := by
  have hpre := stmtOf_anchorCall deco lay b
  unfold drawBranch Layout.drawBranch
  cases hk : b.kind with
  | leaf =>
    simp only [mapE_ok, List.filterMap_append, hpre]
    simp [stmtOf]
  | loss =>
    simp only [anchorIn_eq]
    cases hr : b.right.isNone with
    | true =>
      simp only [if_true]
      cases anchorPos ll b.left with
      | error e => simp
      | ok k => simp [List.filterMap_append, hpre, stmtOf]
    | false =>
      simp only [Bool.false_eq_true, if_false]
      cases anchorPos rl b.right with
      | error e => simp
      | ok k => simp [List.filterMap_append, hpre, stmtOf]
  | spec =>
    simp only [anchorIn_eq]
    cases anchorPos ll b.left with
    | error e => simp
    | ok la =>
      cases anchorPos rl b.right with
      | error e => simp
      | ok ra => simp [List.filterMap_append, hpre, stmtOf]
  | dup =>
    simp only [branchIn_eq]
    cases branchParentAnchor lay b.left with
    | error e => simp
    | ok la =>
      cases branchParentAnchor lay b.right with
      | error e => simp
      | ok ra => simp [List.filterMap_append, hpre, stmtOf]
  | hgt =>
    simp only [branchIn_eq]
    cases hr : b.right with
    | none => simp
    | some k =>
      cases k with
      | loss g s => simp
      | gene g =>
        simp only
        cases spOf g with
        | none => simp
        | some s =>
          simp only
          cases slLookup all s with
          | none => simp
          | some fl =>
            simp only [hasKey]
            obtain hf | ⟨foreign, hf⟩ : lookupKey fl.anchors (Key.gene g) = none ∨
                ∃ p, lookupKey fl.anchors (Key.gene g) = some p := by
              cases lookupKey fl.anchors (Key.gene g) <;> simp
            · simp [hf]
            · simp only [hf, Option.isSome_some, if_true]
              cases branchParentAnchor lay b.left with
              | error e => simp
              | ok la => simp [List.filterMap_append, hpre, stmtOf, hasKey]


/-- The loop over the branches of one species. -/
theorem drawBranches_stmts (o : Orientation) (dp : DParams) (deco : Deco) (all : List SubLayout)
    (spOf : Path → Option Path) (lay : SubLayout) (ll rl : Option SubLayout) (bs : List FBranch) :
    mapE (List.filterMap stmtOf) (drawBranches o dp deco all spOf lay ll rl bs) =
      Layout.drawBranches all spOf lay ll rl bs := by
  induction bs with
  | nil => rfl
  | cons b rest ih =>
    unfold drawBranches Layout.drawBranches
    rw [← ih, ← drawBranch_stmts o dp deco all spOf lay ll rl b]
    cases drawBranch o dp deco all spOf lay ll rl b with
    | error e => simp
    | ok a =>
      cases drawBranches o dp deco all spOf lay ll rl rest with
      | error e => simp
      | ok r => simp [List.filterMap_append]

theorem slLookup_sp {all : List SubLayout} {s : Path} {lay : SubLayout}
    (h : slLookup all s = some lay) : lay.sp = s := by
  induction all with
  | nil => cases h
  | cons l rest ih =>
    simp only [slLookup] at h
    split at h
    · cases h; assumption
    · exact ih h

theorem slLookup_mem {all : List SubLayout} {s : Path} {lay : SubLayout}
    (h : slLookup all s = some lay) : lay ∈ all := by
  induction all with
  | nil => cases h
  | cons l rest ih =>
    simp only [slLookup] at h
    split at h
    · cases h; simp
    · exact List.mem_cons_of_mem _ (ih h)

theorem slLookup_isSome {all : List SubLayout} {s : Path} (h : s ∈ all.map (·.sp)) :
    ∃ lay, slLookup all s = some lay := by
  induction all with
  | nil => cases h
  | cons l rest ih =>
    simp only [slLookup]
    split
    · exact ⟨l, rfl⟩
    · simp only [List.map_cons, List.mem_cons] at h
      rcases h with h | h
      · exact absurd h.symm ‹_›
      · exact ih h

theorem slLookup_of_nodup {all : List SubLayout} (hn : (all.map (·.sp)).Nodup) {lay : SubLayout}
    (h : lay ∈ all) : slLookup all lay.sp = some lay := by
  induction all with
  | nil => cases h
  | cons l rest ih =>
    simp only [List.map_cons, List.nodup_cons] at hn
    simp only [slLookup]
    rcases List.mem_cons.1 h with rfl | h
    · simp
    · split
      · rename_i heq
        exact absurd (List.mem_map.2 ⟨lay, h, heq.symm⟩) hn.1
      · exact ih hn.2 h

theorem stmtOf_of_owner_none (c : DrawCall) (h : c.owner = none) : stmtOf c = none := by
  simp [stmtOf, h]

theorem forkInner_owner (o : Orientation) (dp : DParams) (lay l r : SubLayout) :
    (forkInner o dp lay l r).owner = none := rfl

theorem forkInner_stmt (o : Orientation) (dp : DParams) (lay l r : SubLayout) :
    (forkInner o dp lay l r).stmt = 0 := rfl

theorem forkLeaf_ok (o : Orientation) (dp : DParams) (deco : Deco) (lay : SubLayout)
    (h : (speciesLabel dp.labelWidth (deco.spName lay.sp)).isSome = true) :
    ∃ f, forkLeaf o dp deco lay = .ok f ∧ f.owner = none := by
  obtain ⟨label, hlabel⟩ := Option.isSome_iff_exists.1 h
  unfold forkLeaf
  simp only [hlabel]
  exact ⟨_, rfl, rfl⟩

/-- What `render` needs of the species at path `s`: its layout; a leaf species has a printable
    label (`balanced_wrap` does not raise), an internal one has exactly two children, both with a
    layout. -/
def SpeciesOK (dp : DParams) (deco : Deco) (S : RTree) (all : List SubLayout) (s : Path) : Prop :=
  ((S.sub s).map RTree.children = some [] ∧
      (speciesLabel dp.labelWidth (deco.spName s)).isSome = true) ∨
  (∃ a b, (S.sub s).map RTree.children = some [a, b] ∧
      (slLookup all (s ++ [0])).isSome = true ∧ (slLookup all (s ++ [1])).isSome = true)

/-- One species: the statement kinds of the drawing calls are those `Layout.drawAll` emits for
    the species (the fork statement has no kind). -/
theorem drawSpecies_stmts (o : Orientation) (dp : DParams) (deco : Deco) (S : RTree)
    (spOf : Path → Option Path) (all : List SubLayout) (s : Path) (lay : SubLayout)
    (hl : slLookup all s = some lay) (hs : SpeciesOK dp deco S all s) :
    mapE (List.filterMap stmtOf) (drawSpecies o dp deco S spOf all s) =
      Layout.drawBranches all spOf lay
        (if (S.sub lay.sp).any RTree.isLeaf then none else slLookup all (lay.sp ++ [0]))
        (if (S.sub lay.sp).any RTree.isLeaf then none else slLookup all (lay.sp ++ [1]))
        lay.branches := by
  have hsp := slLookup_sp hl
  subst hsp
  unfold drawSpecies
  simp only [hl]
  rcases hs with ⟨hc, hlab⟩ | ⟨a, b, hc, h0, h1⟩
  · have hleaf : (S.sub lay.sp).any RTree.isLeaf = true := by
      cases hsub : S.sub lay.sp with
      | none => simp [hsub] at hc
      | some t =>
        simp only [hsub, Option.map_some, Option.some.injEq] at hc
        simp [RTree.isLeaf, hc]
    simp only [hc, hleaf, if_true]
    rw [← drawBranches_stmts o dp deco all spOf lay none none lay.branches]
    obtain ⟨f, hf, hfo⟩ := forkLeaf_ok o dp deco lay hlab
    simp only [hf]
    cases drawBranches o dp deco all spOf lay none none lay.branches with
    | error e => simp
    | ok bs => simp [stmtOf_of_owner_none f hfo]
  · have hleaf : (S.sub lay.sp).any RTree.isLeaf = false := by
      cases hsub : S.sub lay.sp with
      | none => simp [hsub] at hc
      | some t =>
        simp only [hsub, Option.map_some, Option.some.injEq] at hc
        simp [RTree.isLeaf, hc]
    obtain ⟨l, hl0⟩ := Option.isSome_iff_exists.1 h0
    obtain ⟨r, hr1⟩ := Option.isSome_iff_exists.1 h1
    simp only [hc, hleaf, hl0, hr1, Bool.false_eq_true, if_false]
    rw [← drawBranches_stmts o dp deco all spOf lay (some l) (some r) lay.branches]
    cases drawBranches o dp deco all spOf lay (some l) (some r) lay.branches with
    | error e => simp
    | ok bs => simp [stmtOf_of_owner_none _ (forkInner_owner o dp lay l r)]

/-- The loop over the species. -/
theorem drawSpeciesList_stmts (o : Orientation) (dp : DParams) (deco : Deco) (S : RTree)
    (sol : Sol) (all : List SubLayout) :
    ∀ (ls : List SubLayout), (∀ lay ∈ ls, slLookup all lay.sp = some lay) →
      (∀ lay ∈ ls, SpeciesOK dp deco S all lay.sp) →
      mapE (List.filterMap stmtOf)
          (drawSpeciesList o dp deco S (spOfSol sol) all (ls.map (·.sp))) =
        Layout.drawAll S sol all ls := by
  intro ls
  induction ls with
  | nil => intro _ _; rfl
  | cons lay rest ih =>
    intro h1 h2
    simp only [List.map_cons]
    unfold drawSpeciesList Layout.drawAll
    simp only
    rw [← ih (fun l hl => h1 l (List.mem_cons_of_mem _ hl))
        (fun l hl => h2 l (List.mem_cons_of_mem _ hl)),
      ← drawSpecies_stmts o dp deco S (spOfSol sol) all lay.sp lay (h1 lay (by simp))
        (h2 lay (by simp))]
    cases drawSpecies o dp deco S (spOfSol sol) all lay.sp with
    | error e => simp
    | ok a =>
      cases drawSpeciesList o dp deco S (spOfSol sol) all (rest.map (·.sp)) with
      | error e => simp
      | ok r => simp [List.filterMap_append]


/-- In a binary species tree whose node paths are exactly the species of the layout, every
    species meets `SpeciesOK` as soon as the species labels can be wrapped. -/
theorem speciesOK_of_binary (dp : DParams) (deco : Deco) (S : RTree) (all : List SubLayout)
    (hb : S.isBinary = true) (hsp : all.map (·.sp) = S.preorder)
    (hlab : ∀ s, (speciesLabel dp.labelWidth (deco.spName s)).isSome = true)
    (s : Path) (hs : s ∈ S.preorder) : SpeciesOK dp deco S all s := by
  have hnode := (RTree.mem_preorder_iff s S).1 hs
  simp only [RTree.isNode] at hnode
  obtain ⟨t, ht⟩ := Option.isSome_iff_exists.1 hnode
  have htb := RTree.isBinary_sub hb ht
  cases t with
  | node cs =>
    rcases RTree.isBinary_children htb with rfl | ⟨a, b, rfl, _, _⟩
    · exact Or.inl ⟨by simp [ht, RTree.children], hlab s⟩
    · refine Or.inr ⟨a, b, by simp [ht, RTree.children], ?_, ?_⟩
      · have : (s ++ [0]) ∈ all.map (·.sp) := by
          rw [hsp, RTree.mem_preorder_iff]
          simp [RTree.isNode, RTree.sub_append, ht, RTree.sub]
        obtain ⟨l, hl⟩ := slLookup_isSome this
        simp [hl]
      · have : (s ++ [1]) ∈ all.map (·.sp) := by
          rw [hsp, RTree.mem_preorder_iff]
          simp [RTree.isNode, RTree.sub_append, ht, RTree.sub]
        obtain ⟨l, hl⟩ := slLookup_isSome this
        simp [hl]

/-- **Bridge.**  On a layout that has exactly one entry per species of a binary species tree, in
    pre-order (what `layout.compute` returns: `C14_species`), the statement kinds of the drawing
    calls are exactly the statements of `Layout.drawAll` — same statements, same order, and the
    same exception when a dictionary look-up fails. -/
theorem drawCalls_stmts (o : Orientation) (dp : DParams) (deco : Deco) (S : RTree) (sol : Sol)
    (all : List SubLayout) (hb : S.isBinary = true) (hsp : all.map (·.sp) = S.preorder)
    (hlab : ∀ s, (speciesLabel dp.labelWidth (deco.spName s)).isSome = true) :
    mapE (List.filterMap stmtOf) (drawCalls o dp deco S (spOfSol sol) all) =
      Layout.drawAll S sol all all := by
  unfold drawCalls
  rw [← hsp]
  apply drawSpeciesList_stmts
  · intro lay hl
    exact slLookup_of_nodup (by rw [hsp]; exact RTree.nodup_preorder S) hl
  · intro lay hl
    exact speciesOK_of_binary dp deco S all hb hsp hlab lay.sp
      (by rw [← hsp]; exact List.mem_map_of_mem hl)


/-! ## Where a drawing call comes from -/

/-- A call made by `_tikz_draw_fork`, or by one iteration of the branch loop. -/
inductive Origin (o : Orientation) (dp : DParams) (deco : Deco) (S : RTree)
    (spOf : Path → Option Path) (all : List SubLayout) (c : DrawCall) : Prop where
  | leafFork (lay : SubLayout) (hs : lay.sp ∈ S.preorder) (hl : slLookup all lay.sp = some lay)
      (hf : forkLeaf o dp deco lay = .ok c)
  | innerFork (lay l r : SubLayout) (hs : lay.sp ∈ S.preorder)
      (hl : slLookup all lay.sp = some lay) (h0 : slLookup all (lay.sp ++ [0]) = some l)
      (h1 : slLookup all (lay.sp ++ [1]) = some r) (hc : c = forkInner o dp lay l r)
  | branch (lay : SubLayout) (ll rl : Option SubLayout) (b : FBranch) (cs : List DrawCall)
      (hs : lay.sp ∈ S.preorder) (hl : slLookup all lay.sp = some lay) (hb : b ∈ lay.branches)
      (hd : drawBranch o dp deco all spOf lay ll rl b = .ok cs) (hc : c ∈ cs)

theorem mem_drawBranches {o : Orientation} {dp : DParams} {deco : Deco} {all : List SubLayout}
    {spOf : Path → Option Path} {lay : SubLayout} {ll rl : Option SubLayout} :
    ∀ {bs : List FBranch} {out : List DrawCall},
      drawBranches o dp deco all spOf lay ll rl bs = .ok out → ∀ c ∈ out,
      ∃ b cs, b ∈ bs ∧ drawBranch o dp deco all spOf lay ll rl b = .ok cs ∧ c ∈ cs := by
  intro bs
  induction bs with
  | nil =>
    intro out h c hc
    simp only [drawBranches, Except.ok.injEq] at h
    subst h; cases hc
  | cons b rest ih =>
    intro out h c hc
    unfold drawBranches at h
    cases hb : drawBranch o dp deco all spOf lay ll rl b with
    | error e => simp [hb] at h
    | ok a =>
      cases hr : drawBranches o dp deco all spOf lay ll rl rest with
      | error e => simp [hb, hr] at h
      | ok r =>
        simp only [hb, hr, Except.ok.injEq] at h
        subst h
        rcases List.mem_append.1 hc with hc | hc
        · exact ⟨b, a, by simp, hb, hc⟩
        · obtain ⟨b', cs, hb', hd, hc'⟩ := ih hr c hc
          exact ⟨b', cs, List.mem_cons_of_mem _ hb', hd, hc'⟩

theorem mem_drawSpeciesList {o : Orientation} {dp : DParams} {deco : Deco} {S : RTree}
    {spOf : Path → Option Path} {all : List SubLayout} :
    ∀ {ps : List Path} {out : List DrawCall},
      drawSpeciesList o dp deco S spOf all ps = .ok out → ∀ c ∈ out,
      ∃ s cs, s ∈ ps ∧ drawSpecies o dp deco S spOf all s = .ok cs ∧ c ∈ cs := by
  intro ps
  induction ps with
  | nil =>
    intro out h c hc
    simp only [drawSpeciesList, Except.ok.injEq] at h
    subst h; cases hc
  | cons s rest ih =>
    intro out h c hc
    unfold drawSpeciesList at h
    cases hb : drawSpecies o dp deco S spOf all s with
    | error e => simp [hb] at h
    | ok a =>
      cases hr : drawSpeciesList o dp deco S spOf all rest with
      | error e => simp [hb, hr] at h
      | ok r =>
        simp only [hb, hr, Except.ok.injEq] at h
        subst h
        rcases List.mem_append.1 hc with hc | hc
        · exact ⟨s, a, by simp, hb, hc⟩
        · obtain ⟨s', cs, hs', hd, hc'⟩ := ih hr c hc
          exact ⟨s', cs, List.mem_cons_of_mem _ hs', hd, hc'⟩

/-- Every drawing call of a successful `drawCalls` has an origin. -/
theorem origin_of_mem {o : Orientation} {dp : DParams} {deco : Deco} {S : RTree}
    {spOf : Path → Option Path} {all : List SubLayout} {calls : List DrawCall}
    (h : drawCalls o dp deco S spOf all = .ok calls) (c : DrawCall) (hc : c ∈ calls) :
    Origin o dp deco S spOf all c := by
  obtain ⟨s, cs, hs, hd, hc'⟩ := mem_drawSpeciesList h c hc
  unfold drawSpecies at hd
  cases hl : slLookup all s with
  | none => simp [hl] at hd
  | some lay =>
    have hsp := slLookup_sp hl
    subst hsp
    simp only [hl] at hd
    split at hd
    · -- leaf species
      cases hf : forkLeaf o dp deco lay with
      | error e => simp [hf] at hd
      | ok f =>
        cases hbs : drawBranches o dp deco all spOf lay none none lay.branches with
        | error e => simp [hf, hbs] at hd
        | ok bs =>
          simp only [hf, hbs, Except.ok.injEq] at hd
          subst hd
          rcases List.mem_cons.1 hc' with rfl | hc'
          · exact .leafFork lay hs hl hf
          · obtain ⟨b, cs', hb, hdb, hcb⟩ := mem_drawBranches hbs c hc'
            exact .branch lay none none b cs' hs hl hb hdb hcb
    · -- internal species
      cases h0 : slLookup all (lay.sp ++ [0]) with
      | none => simp [h0] at hd
      | some l =>
        cases h1 : slLookup all (lay.sp ++ [1]) with
        | none => simp [h0, h1] at hd
        | some r =>
          cases hbs : drawBranches o dp deco all spOf lay (some l) (some r) lay.branches with
          | error e => simp [h0, h1, hbs] at hd
          | ok bs =>
            simp only [h0, h1, hbs, Except.ok.injEq] at hd
            subst hd
            rcases List.mem_cons.1 hc' with rfl | hc'
            · exact .innerFork lay l r hs hl h0 h1 rfl
            · obtain ⟨b, cs', hb, hdb, hcb⟩ := mem_drawBranches hbs c hc'
              exact .branch lay (some l) (some r) b cs' hs hl hb hdb hcb
    · cases hd

end SR.TikzDraw
