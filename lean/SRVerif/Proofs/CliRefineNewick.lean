/-
  C12 ∘ C08, part 4: what `ReconciliationInput.binarize` does to a refined tree when
  it re-serialises it through Newick (`tree.write(format=8, …)` then `from_dict`), on
  the MODEL of the codec (`Model/Newick.lean`).

  The new nodes of a refinement have the empty name.  The writer prints an empty name
  as `NoName`, so the tree that is read back is NOT the tree that was written: it is
  `fixEmpty t`, the same tree with every empty name replaced by `NoName`
  (`reparse`).  Both are "unnamed" for `label_internal`, which is why
  `label_internal` tests `node.name == "NoName"`: `relab_fixEmpty`.

  Also: generated names `prefix ++ k` are never unnamed (any prefix), and are
  Newick-safe when the prefix is a word.
-/
import SRVerif.Proofs.CliRefineCompose
import SRVerif.Proofs.NewickCompat

namespace SR.Cli

open SR.Ser SR.Newick

/-! ### Generated names -/

/-- With a prefix made of letters, digits and underscores (possibly empty), a generated
    name is a word, hence Newick-safe. -/
theorem safeName_mkName {pfx : String} (hp : pfx.toList.all NT.safeChar = true) (k : Nat) :
    safeName (mkName pfx k) = true := by
  apply safeName_of_safeStr
  have hne : Nat.toDigits 10 k ≠ [] := Nat.toDigits_ne_nil
  simp only [NT.safeStr, toList_mkName, Bool.and_eq_true, Bool.not_eq_true', List.all_append,
    List.isEmpty_eq_false_iff, ne_eq, List.append_eq_nil_iff, not_and]
  refine ⟨fun _ => hne, hp, ?_⟩
  rw [List.all_eq_true]
  intro c hc
  have := Nat.isDigit_of_mem_toDigits (by decide) (by decide) hc
  simp [NT.safeChar, Char.isAlphanum, this]

/-! ### Writing an empty name -/

/-- What is read back for a name. -/
def fixName (n : String) : String := if n = "" then "NoName" else n

mutual
  /-- The tree with every empty name replaced by `NoName`. -/
  def fixEmpty : NT → NT
    | .node n c ks => .node (fixName n) c (fixEmptyL ks)
  def fixEmptyL : List NT → List NT
    | [] => []
    | k :: ks => fixEmpty k :: fixEmptyL ks
end

theorem nameOut_fixName (n : String) : nameOut (fixName n) = nameOut n := by
  unfold fixName
  split
  · rename_i h; subst h; decide
  · rfl

mutual
  theorem writeNode_fixEmpty : ∀ t : NT, Newick.writeNode (fixEmpty t) = Newick.writeNode t
    | .node n c [] => by simp only [fixEmpty, fixEmptyL, Newick.writeNode, atom, nameOut_fixName]
    | .node n c (k :: ks) => by
      have := writeKids_fixEmptyL (k :: ks)
      simp only [fixEmptyL] at this
      simp only [fixEmpty, fixEmptyL, Newick.writeNode, atom, nameOut_fixName, this]
  theorem writeKids_fixEmptyL : ∀ ks : List NT, Newick.writeKids (fixEmptyL ks) = Newick.writeKids ks
    | [] => rfl
    | [k] => by simp only [fixEmptyL, Newick.writeKids, writeNode_fixEmpty k]
    | k :: k' :: ks => by
      have := writeKids_fixEmptyL (k' :: ks)
      simp only [fixEmptyL] at this
      simp only [fixEmptyL, Newick.writeKids, writeNode_fixEmpty k, this]
end

theorem write_fixEmpty (t : NT) : Newick.write (fixEmpty t) = Newick.write t := by
  simp only [Newick.write, writeChars, writeNode_fixEmpty]

mutual
  /-- Safe names, except that a name may be empty. -/
  def safeTreeE : NT → Bool
    | .node n c ks =>
      (n == "" || safeName n) && (match c with | some v => safeValue v | none => true) && safeTreesE ks
  def safeTreesE : List NT → Bool
    | [] => true
    | k :: ks => safeTreeE k && safeTreesE ks
end

theorem safeName_fixName {n : String} (h : (n == "" || safeName n) = true) :
    safeName (fixName n) = true := by
  unfold fixName
  split
  · decide
  · rename_i hne
    simpa [hne] using h

mutual
  theorem safeTree_fixEmpty : ∀ t : NT, safeTreeE t = true → safeTree (fixEmpty t) = true
    | .node n c ks, h => by
      simp only [safeTreeE, Bool.and_eq_true] at h
      simp only [fixEmpty, safeTree, Bool.and_eq_true]
      exact ⟨⟨safeName_fixName h.1.1, h.1.2⟩, safeTrees_fixEmptyL ks h.2⟩
  theorem safeTrees_fixEmptyL : ∀ ks : List NT, safeTreesE ks = true →
      safeTrees (fixEmptyL ks) = true
    | [], _ => rfl
    | k :: ks, h => by
      simp only [safeTreesE, Bool.and_eq_true] at h
      simp only [fixEmptyL, safeTrees, Bool.and_eq_true]
      exact ⟨safeTree_fixEmpty k h.1, safeTrees_fixEmptyL ks h.2⟩
end

/-- Re-parsing a tree whose names are safe or empty: empty names come back as `NoName`,
    everything else (names, child order, colours) is unchanged. -/
theorem reparse (t : NT) (h : safeTreeE t = true) :
    Newick.readNT (Newick.write t) = .ok (fixEmpty t) := by
  rw [← write_fixEmpty]
  exact Newick.readNT_write _ (safeTree_fixEmpty t h)

theorem same_fixName (n : String) : Same n (fixName n) := by
  unfold fixName
  split
  · rename_i h; subst h; exact ⟨fun h => by simp [isUnnamed] at h, fun _ => by decide⟩
  · exact Same.refl n

mutual
  /-- For `label_internal` the re-parsed tree is the written tree. -/
  theorem relab_fixEmpty : ∀ t : NT, Relab Same t (fixEmpty t)
    | .node n c ks => by
      simp only [fixEmpty, Relab]
      exact ⟨same_fixName n, trivial, relabL_fixEmptyL ks⟩
  theorem relabL_fixEmptyL : ∀ ks : List NT, RelabL Same ks (fixEmptyL ks)
    | [] => by simp [fixEmptyL, RelabL]
    | k :: ks => by
      simp only [fixEmptyL, RelabL]
      exact ⟨relab_fixEmpty k, relabL_fixEmptyL ks⟩
end

/-! ### Safety through a relabelling and through a code -/

mutual
  theorem Relab.safeTree_of {R : String → String → Prop}
      (hR : ∀ n n', R n n' → (n == "" || safeName n) = true → safeName n' = true) :
      ∀ (t t' : NT), Relab R t t' → safeTreeE t = true → safeTree t' = true
    | .node n c ks, .node n' c' ks', h, hs => by
      simp only [Relab] at h
      simp only [safeTreeE, Bool.and_eq_true] at hs
      simp only [safeTree, Bool.and_eq_true]
      obtain ⟨h1, h2, h3⟩ := h
      subst h2
      exact ⟨⟨hR n n' h1 hs.1.1, hs.1.2⟩, RelabL.safeTrees_of hR ks ks' h3 hs.2⟩
  theorem RelabL.safeTrees_of {R : String → String → Prop}
      (hR : ∀ n n', R n n' → (n == "" || safeName n) = true → safeName n' = true) :
      ∀ (ks ks' : List NT), RelabL R ks ks' → safeTreesE ks = true → safeTrees ks' = true
    | [], [], _, _ => rfl
    | [], _ :: _, h, _ => by simp [RelabL] at h
    | _ :: _, [], h, _ => by simp [RelabL] at h
    | k :: ks, k' :: ks', h, hs => by
      simp only [RelabL] at h
      simp only [safeTreesE, Bool.and_eq_true] at hs
      simp only [safeTrees, Bool.and_eq_true]
      exact ⟨Relab.safeTree_of hR k k' h.1 hs.1, RelabL.safeTrees_of hR ks ks' h.2 hs.2⟩
end

/-- The labelled input tree is Newick-safe when the input's names are safe or empty and
    the prefix is a word. -/
theorem safeTree_labelTree {pfx : String} (hp : pfx.toList.all NT.safeChar = true) (t : NT)
    (h : safeTreeE t = true) : safeTree (labelTree pfx t) = true := by
  refine Relab.safeTree_of ?_ t _ (labelTree_relab pfx t) h
  intro n n' hr hs
  cases hu : isUnnamed n with
  | true =>
    obtain ⟨k, hk, _⟩ := hr.2 hu
    rw [hk]; exact safeName_mkName hp k
  | false =>
    rw [hr.1 hu]
    have hne : n ≠ "" := by
      intro he; subst he; simp [isUnnamed] at hu
    simpa [hne] using hs

/-- Names and colours of a code are safe or empty. -/
def okPair (x : String × Option String) : Bool :=
  (x.1 == "" || safeName x.1) && (match x.2 with | some v => safeValue v | none => true)

def Dec.Safe (d : Dec) : Prop := ∀ i, okPair (d.leaf i) = true ∧ okPair (d.ann i) = true

theorem safeTreeE_decB {d : Dec} (hd : d.Safe) : ∀ b : Bin.BinT, safeTreeE (decB d b) = true
  | .leaf i => by
    have := (hd i).1
    simp only [okPair, Bool.and_eq_true] at this
    simp only [decB, safeTreeE, safeTreesE, Bool.and_eq_true, and_true]
    exact this
  | .node a l r => by
    have ha : okPair (d.annOf a) = true := by
      cases a with
      | none => rfl
      | some k => exact (hd k).2
    simp only [okPair, Bool.and_eq_true] at ha
    simp only [decB, safeTreeE, safeTreesE, Bool.and_eq_true, and_true]
    exact ⟨ha, safeTreeE_decB hd l, safeTreeE_decB hd r⟩

end SR.Cli
