/-
  Exchanging the two children of object nodes (C09, object-child swap).

  `OTree.flip F` / `Sol.flip F` exchange the two children of every internal node
  whose position (path of child indices 0/1 from the root, in the ORIGINAL tree)
  satisfies `F`.  Instances: `mirror` (every node) and `swapAt p` (the single
  node at position `p`), defined directly by recursion and proved equal to the
  corresponding `flip`.

  The evaluator is symmetric in the two children:
  * `internalEvent s a b = internalEvent s b a`, `localRecCost` likewise (for a
    transfer exactly one child is below `s`, so the `if` picks the same one);
  * `localOrdLosses` / `localUnordLosses`: speciation is a symmetric sum, the
    duplication `min` is symmetric, and for a transfer `keepLeft =
    comparable s left` is recomputed after the swap and flips, because exactly
    one child is comparable with `s`.
  Hence `recCost`, `ordLosses`, `unordLosses`, `totalCost` (all modes) and
  `validRec`, `plainLabels`, `validOrdLabels` and the root-permutation test of
  the ordered model are invariant.
-/
import SRVerif.Proofs.Paths
import SRVerif.Proofs.Enum
import SRVerif.Proofs.Cost
import SRVerif.Proofs.SwapSp
import SRVerif.Spec.Opt
import Mathlib.Data.List.Perm.Basic

namespace SR

open Path

/-! ### Definitions -/

/-- Exchange the children of every internal node whose position satisfies `F`. -/
def OTree.flip : (Path → Bool) → OTree → OTree
  | _, .leaf sp f => .leaf sp f
  | F, .node l r =>
    let l' := flip (fun q => F (0 :: q)) l
    let r' := flip (fun q => F (1 :: q)) r
    if F [] then .node r' l' else .node l' r'

/-- The induced map on solutions. -/
def Sol.flip : (Path → Bool) → Sol → Sol
  | _, .leaf sp f => .leaf sp f
  | F, .node s g l r =>
    let l' := flip (fun q => F (0 :: q)) l
    let r' := flip (fun q => F (1 :: q)) r
    if F [] then .node s g r' l' else .node s g l' r'

/-- Full mirror image. -/
def OTree.mirror : OTree → OTree
  | .leaf sp f => .leaf sp f
  | .node l r => .node (mirror r) (mirror l)

def Sol.mirror : Sol → Sol
  | .leaf sp f => .leaf sp f
  | .node s g l r => .node s g (mirror r) (mirror l)

/-- Exchange the two children of the node at position `p` (nothing if `p` is not
    an internal node). -/
def OTree.swapAt : Path → OTree → OTree
  | _, .leaf sp f => .leaf sp f
  | [], .node l r => .node r l
  | 0 :: p, .node l r => .node (swapAt p l) r
  | 1 :: p, .node l r => .node l (swapAt p r)
  | (_ + 2) :: _, .node l r => .node l r

def Sol.swapAt : Path → Sol → Sol
  | _, .leaf sp f => .leaf sp f
  | [], .node s g l r => .node s g r l
  | 0 :: p, .node s g l r => .node s g (swapAt p l) r
  | 1 :: p, .node s g l r => .node s g l (swapAt p r)
  | (_ + 2) :: _, .node s g l r => .node s g l r

/-! ### Involutions -/

theorem OTree.mirror_mirror (o : OTree) : o.mirror.mirror = o := by
  induction o with
  | leaf sp f => rfl
  | node l r ihl ihr => simp [OTree.mirror, ihl, ihr]

theorem Sol.mirror_mirror (s : Sol) : s.mirror.mirror = s := by
  induction s with
  | leaf sp f => rfl
  | node s g l r ihl ihr => simp [Sol.mirror, ihl, ihr]

theorem OTree.swapAt_swapAt : ∀ (p : Path) (o : OTree), (o.swapAt p).swapAt p = o := by
  intro p
  induction p with
  | nil => intro o; cases o <;> rfl
  | cons k p ih =>
    intro o
    cases o with
    | leaf sp f => rfl
    | node l r =>
      match k with
      | 0 => simp [OTree.swapAt, ih]
      | 1 => simp [OTree.swapAt, ih]
      | _ + 2 => rfl

theorem Sol.swapAt_swapAt : ∀ (p : Path) (s : Sol), (s.swapAt p).swapAt p = s := by
  intro p
  induction p with
  | nil => intro o; cases o <;> rfl
  | cons k p ih =>
    intro o
    cases o with
    | leaf sp f => rfl
    | node s g l r =>
      match k with
      | 0 => simp [Sol.swapAt, ih]
      | 1 => simp [Sol.swapAt, ih]
      | _ + 2 => rfl

/-! ### `mirror` and `swapAt` are flips -/

theorem OTree.flip_congr : ∀ (o : OTree) (F G : Path → Bool), (∀ q, F q = G q) →
    o.flip F = o.flip G := by
  intro o
  induction o with
  | leaf sp f => intro F G _; rfl
  | node l r ihl ihr =>
    intro F G h
    simp only [OTree.flip, h [], ihl _ _ (fun q => h (0 :: q)), ihr _ _ (fun q => h (1 :: q))]

theorem Sol.flip_congr : ∀ (o : Sol) (F G : Path → Bool), (∀ q, F q = G q) →
    o.flip F = o.flip G := by
  intro o
  induction o with
  | leaf sp f => intro F G _; rfl
  | node s g l r ihl ihr =>
    intro F G h
    simp only [Sol.flip, h [], ihl _ _ (fun q => h (0 :: q)), ihr _ _ (fun q => h (1 :: q))]

theorem OTree.flip_false : ∀ (o : OTree) (F : Path → Bool), (∀ q, F q = false) → o.flip F = o := by
  intro o
  induction o with
  | leaf sp f => intro F _; rfl
  | node l r ihl ihr =>
    intro F h
    simp [OTree.flip, h [], ihl _ (fun q => h (0 :: q)), ihr _ (fun q => h (1 :: q))]

theorem Sol.flip_false : ∀ (o : Sol) (F : Path → Bool), (∀ q, F q = false) → o.flip F = o := by
  intro o
  induction o with
  | leaf sp f => intro F _; rfl
  | node s g l r ihl ihr =>
    intro F h
    simp [Sol.flip, h [], ihl _ (fun q => h (0 :: q)), ihr _ (fun q => h (1 :: q))]

theorem OTree.mirror_eq_flip (o : OTree) : o.mirror = o.flip (fun _ => true) := by
  induction o with
  | leaf sp f => rfl
  | node l r ihl ihr => simp [OTree.mirror, OTree.flip, ihl, ihr]

theorem Sol.mirror_eq_flip (o : Sol) : o.mirror = o.flip (fun _ => true) := by
  induction o with
  | leaf sp f => rfl
  | node s g l r ihl ihr => simp [Sol.mirror, Sol.flip, ihl, ihr]

theorem OTree.swapAt_eq_flip : ∀ (p : Path) (o : OTree), o.swapAt p = o.flip (fun q => q == p) := by
  intro p
  induction p with
  | nil =>
    intro o
    cases o with
    | leaf sp f => rfl
    | node l r =>
      simp only [OTree.swapAt, OTree.flip, beq_self_eq_true, if_true]
      rw [OTree.flip_false l _ (fun q => by simp), OTree.flip_false r _ (fun q => by simp)]
  | cons k p ih =>
    intro o
    cases o with
    | leaf sp f => rfl
    | node l r =>
      have hnil : (([] : Path) == k :: p) = false := by simp
      match k with
      | 0 =>
        simp only [OTree.swapAt, OTree.flip, hnil, Bool.false_eq_true, if_false]
        rw [OTree.flip_false r _ (fun q => by simp), ih l,
          OTree.flip_congr l (fun q => 0 :: q == 0 :: p) (fun q => q == p) (fun q => by simp)]
      | 1 =>
        simp only [OTree.swapAt, OTree.flip, hnil, Bool.false_eq_true, if_false]
        rw [OTree.flip_false l _ (fun q => by simp), ih r,
          OTree.flip_congr r (fun q => 1 :: q == 1 :: p) (fun q => q == p) (fun q => by simp)]
      | j + 2 =>
        simp only [OTree.swapAt, OTree.flip, hnil, Bool.false_eq_true, if_false]
        rw [OTree.flip_false l _ (fun q => by simp), OTree.flip_false r _ (fun q => by simp)]

theorem Sol.swapAt_eq_flip : ∀ (p : Path) (o : Sol), o.swapAt p = o.flip (fun q => q == p) := by
  intro p
  induction p with
  | nil =>
    intro o
    cases o with
    | leaf sp f => rfl
    | node s g l r =>
      simp only [Sol.swapAt, Sol.flip, beq_self_eq_true, if_true]
      rw [Sol.flip_false l _ (fun q => by simp), Sol.flip_false r _ (fun q => by simp)]
  | cons k p ih =>
    intro o
    cases o with
    | leaf sp f => rfl
    | node s g l r =>
      have hnil : (([] : Path) == k :: p) = false := by simp
      match k with
      | 0 =>
        simp only [Sol.swapAt, Sol.flip, hnil, Bool.false_eq_true, if_false]
        rw [Sol.flip_false r _ (fun q => by simp), ih l,
          Sol.flip_congr l (fun q => 0 :: q == 0 :: p) (fun q => q == p) (fun q => by simp)]
      | 1 =>
        simp only [Sol.swapAt, Sol.flip, hnil, Bool.false_eq_true, if_false]
        rw [Sol.flip_false l _ (fun q => by simp), ih r,
          Sol.flip_congr r (fun q => 1 :: q == 1 :: p) (fun q => q == p) (fun q => by simp)]
      | j + 2 =>
        simp only [Sol.swapAt, Sol.flip, hnil, Bool.false_eq_true, if_false]
        rw [Sol.flip_false l _ (fun q => by simp), Sol.flip_false r _ (fun q => by simp)]

/-! ### The evaluator is symmetric in the two children -/

theorem Path.comparable_comm (a b : Path) : comparable a b = comparable b a := by
  simp [comparable, Bool.or_comm]

theorem internalEvent_symm (s a b : Path) : internalEvent s a b = internalEvent s b a := by
  simp only [internalEvent, lcp_comm b a, Path.comparable_comm b a,
    Bool.or_comm (isStrictAnc b s), Bool.and_comm (isAnc s b), Bool.or_comm (isAnc s b)]

/-- At a transfer exactly one child is below-or-equal the node, and that child is
    the only one comparable with it. -/
theorem internalEvent_hgt_iff {s a b : Path} (h : internalEvent s a b = .hgt) :
    isAnc s a = !isAnc s b ∧ comparable s a = isAnc s a ∧ comparable s b = isAnc s b := by
  have hv : internalEvent s a b ≠ .invalid := by rw [h]; simp
  obtain ⟨h1, h2, _⟩ := (internalEvent_ne_invalid_iff _ _ _).mp hv
  have ca : comparable s a = isAnc s a := by
    simp only [comparable]
    cases hsa : isAnc s a
    · cases has : isAnc a s
      · rfl
      · have : isStrictAnc a s = true := by
          rw [isStrictAnc_iff]; exact ⟨has, fun e => by subst e; rw [isAnc_refl] at hsa; cases hsa⟩
        rw [h1] at this; cases this
    · rfl
  have cb : comparable s b = isAnc s b := by
    simp only [comparable]
    cases hsb : isAnc s b
    · cases hbs : isAnc b s
      · rfl
      · have : isStrictAnc b s = true := by
          rw [isStrictAnc_iff]; exact ⟨hbs, fun e => by subst e; rw [isAnc_refl] at hsb; cases hsb⟩
        rw [h2] at this; cases this
    · rfl
  refine ⟨?_, ca, cb⟩
  simp only [internalEvent, h1, h2, Bool.or_self, Bool.false_eq_true, if_false] at h
  cases hsa : isAnc s a <;> cases hsb : isAnc s b <;> simp [hsa, hsb] at h ⊢
  split at h <;> cases h

theorem localRecCost_symm (c : Costs) (s a b : Path) :
    localRecCost c s a b = localRecCost c s b a := by
  unfold localRecCost
  rw [← internalEvent_symm s a b]
  cases h : internalEvent s a b with
  | hgt =>
    obtain ⟨hx, _, _⟩ := internalEvent_hgt_iff h
    cases hb : isAnc s b <;> simp [hx, hb]
  | spec => simp [Nat.add_comm]
  | dup => simp [Nat.add_comm]
  | leaf => rfl
  | invalid => rfl

theorem addDist_comm (x y : Int) : addDist x y = addDist y x := by
  simp [addDist, Bool.or_comm, Nat.add_comm]

/-- The ordered local count, with `keepLeft` recomputed for the swapped children. -/
theorem localOrdLosses_symm (s a b : Path) (m ml mr : Nat) :
    localOrdLosses (internalEvent s b a) (comparable s b) m mr ml =
      localOrdLosses (internalEvent s a b) (comparable s a) m ml mr := by
  rw [← internalEvent_symm s a b]
  cases h : internalEvent s a b with
  | hgt =>
    obtain ⟨hx, ca, cb⟩ := internalEvent_hgt_iff h
    simp only [localOrdLosses, ca, cb, hx]
    rw [addDist_comm]
    simp
  | spec => simp only [localOrdLosses]; rw [addDist_comm]
  | dup =>
    simp only [localOrdLosses]
    rw [addDist_comm (subseqSegmentDist mr m true), addDist_comm (subseqSegmentDist mr m false)]
    cases addDist (subseqSegmentDist ml m true) (subseqSegmentDist mr m false) <;>
      cases addDist (subseqSegmentDist ml m false) (subseqSegmentDist mr m true) <;>
      simp [Nat.min_comm]
  | leaf => rfl
  | invalid => rfl

theorem localUnordLosses_symm (s a b : Path) (f fl fr : List Nat) :
    localUnordLosses (internalEvent s b a) (comparable s b) f fr fl =
      localUnordLosses (internalEvent s a b) (comparable s a) f fl fr := by
  rw [← internalEvent_symm s a b]
  cases h : internalEvent s a b with
  | hgt =>
    obtain ⟨hx, ca, cb⟩ := internalEvent_hgt_iff h
    simp only [localUnordLosses, ca, cb, hx]
    cases isAnc s b <;> simp
  | spec => simp [localUnordLosses, Nat.add_comm]
  | dup => simp [localUnordLosses, Nat.min_comm]
  | leaf => rfl
  | invalid => rfl

/-! ### Invariance under `flip` -/

@[simp] theorem Sol.flip_sp (F : Path → Bool) (s : Sol) : (s.flip F).sp = s.sp := by
  cases s with
  | leaf sp f => rfl
  | node s g l r => simp only [Sol.flip]; split <;> rfl

@[simp] theorem Sol.flip_fam (F : Path → Bool) (s : Sol) : (s.flip F).fam = s.fam := by
  cases s with
  | leaf sp f => rfl
  | node s g l r => simp only [Sol.flip]; split <;> rfl

theorem recCost_flip (c : Costs) : ∀ (o : OTree) (sol : Sol) (F : Path → Bool),
    recCost c (o.flip F) (sol.flip F) = recCost c o sol := by
  intro o
  induction o with
  | leaf sp f => intro sol F; cases sol <;> simp [OTree.flip, Sol.flip, recCost] <;> split <;> rfl
  | node ol or ihl ihr =>
    intro sol F
    cases sol with
    | leaf s g => simp only [OTree.flip, Sol.flip]; split <;> rfl
    | node s g l r =>
      simp only [OTree.flip, Sol.flip]
      cases hF : F []
      · simp only [Bool.false_eq_true, if_false, recCost, Sol.flip_sp, ihl, ihr]
      · simp only [if_true, recCost, Sol.flip_sp, ihl, ihr]
        rw [← internalEvent_symm s l.sp r.sp, ← localRecCost_symm c s l.sp r.sp,
          Cost.add_comm (recCost c or r)]

theorem validRec_flip : ∀ (o : OTree) (sol : Sol) (F : Path → Bool),
    Spec.validRec (o.flip F) (sol.flip F) = Spec.validRec o sol := by
  intro o
  induction o with
  | leaf sp f =>
    intro sol F
    cases sol <;> simp [OTree.flip, Sol.flip, Spec.validRec] <;> split <;> rfl
  | node ol or ihl ihr =>
    intro sol F
    cases sol with
    | leaf s g => simp only [OTree.flip, Sol.flip]; split <;> rfl
    | node s g l r =>
      simp only [OTree.flip, Sol.flip]
      cases hF : F []
      · simp only [Bool.false_eq_true, if_false, Spec.validRec, Sol.flip_sp, ihl, ihr]
      · simp only [if_true, Spec.validRec, Sol.flip_sp, ihl, ihr]
        rw [← internalEvent_symm s l.sp r.sp, Bool.and_assoc, Bool.and_assoc,
          Bool.and_comm (Spec.validRec or r)]

theorem plainLabels_flip : ∀ (o : OTree) (sol : Sol) (F : Path → Bool),
    plainLabels (o.flip F) (sol.flip F) = plainLabels o sol := by
  intro o
  induction o with
  | leaf sp f =>
    intro sol F
    cases sol <;> simp [OTree.flip, Sol.flip, plainLabels] <;> split <;> rfl
  | node ol or ihl ihr =>
    intro sol F
    cases sol with
    | leaf s g => simp only [OTree.flip, Sol.flip]; split <;> rfl
    | node s g l r =>
      simp only [OTree.flip, Sol.flip]
      cases hF : F []
      · simp only [Bool.false_eq_true, if_false, plainLabels, ihl, ihr]
      · simp only [if_true, plainLabels, ihl, ihr]
        rw [Bool.and_assoc, Bool.and_assoc, Bool.and_comm (plainLabels or r)]

theorem validOrdLabels_flip : ∀ (o : OTree) (sol : Sol) (F : Path → Bool),
    Spec.validOrdLabels (o.flip F) (sol.flip F) = Spec.validOrdLabels o sol := by
  intro o
  induction o with
  | leaf sp f =>
    intro sol F
    cases sol <;> simp [OTree.flip, Sol.flip, Spec.validOrdLabels] <;> split <;> rfl
  | node ol or ihl ihr =>
    intro sol F
    cases sol with
    | leaf s g => simp only [OTree.flip, Sol.flip]; split <;> rfl
    | node s g l r =>
      simp only [OTree.flip, Sol.flip]
      cases hF : F []
      · simp only [Bool.false_eq_true, if_false, Spec.validOrdLabels, Sol.flip_fam, ihl, ihr]
      · simp only [if_true, Spec.validOrdLabels, Sol.flip_fam, ihl, ihr]
        cases isSublist l.fam g <;> cases isSublist r.fam g <;>
          cases Spec.validOrdLabels ol l <;> cases Spec.validOrdLabels or r <;> rfl

theorem match3_swap (a b d : Option Nat) :
    (match a, d, b with
      | some a, some b, some d => some (a + b + d)
      | _, _, _ => none) =
    (match a, b, d with
      | some a, some b, some d => some (a + b + d)
      | _, _, _ => (none : Option Nat)) := by
  cases a <;> cases b <;> cases d <;> simp <;> omega

theorem ordLosses_flip (rootSyn : List Nat) : ∀ (sol : Sol) (F : Path → Bool) (m : Nat),
    ordLosses rootSyn m (sol.flip F) = ordLosses rootSyn m sol := by
  intro sol
  induction sol with
  | leaf s g => intro F m; rfl
  | node s g l r ihl ihr =>
    intro F m
    simp only [Sol.flip]
    cases hF : F []
    · simp only [Bool.false_eq_true, if_false, ordLosses, Sol.flip_sp, Sol.flip_fam, ihl, ihr]
    · simp only [if_true, ordLosses, Sol.flip_sp, Sol.flip_fam, ihl, ihr]
      rw [localOrdLosses_symm s l.sp r.sp]
      exact match3_swap _ _ _

theorem unordLosses_flip : ∀ (sol : Sol) (F : Path → Bool),
    unordLosses (sol.flip F) = unordLosses sol := by
  intro sol
  induction sol with
  | leaf s g => intro F; rfl
  | node s g l r ihl ihr =>
    intro F
    simp only [Sol.flip]
    cases hF : F []
    · simp only [Bool.false_eq_true, if_false, unordLosses, Sol.flip_sp, Sol.flip_fam, ihl, ihr]
    · simp only [if_true, unordLosses, Sol.flip_sp, Sol.flip_fam, ihl, ihr]
      rw [localUnordLosses_symm s l.sp r.sp]
      exact match3_swap _ _ _

/-- **The evaluated cost is invariant under exchanging children of object nodes**
    (every mode, every cost vector, valid or not). -/
theorem totalCost_flip (c : Costs) (mode : LabelMode) (o : OTree) (sol : Sol) (F : Path → Bool) :
    totalCost c mode (o.flip F) (sol.flip F) = totalCost c mode o sol := by
  cases mode <;>
    simp only [totalCost, labelingCost, Sol.flip_fam, ordLosses_flip, unordLosses_flip, recCost_flip]

/-! ### The family list of the input is permuted -/

theorem leafSyntenies_flip_perm : ∀ (o : OTree) (F : Path → Bool),
    (leafSyntenies (o.flip F)).Perm (leafSyntenies o) := by
  intro o
  induction o with
  | leaf sp f => intro F; exact List.Perm.refl _
  | node l r ihl ihr =>
    intro F
    simp only [OTree.flip]
    cases F []
    · simp only [Bool.false_eq_true, if_false, leafSyntenies]
      exact List.Perm.append (ihl _) (ihr _)
    · simp only [if_true, leafSyntenies]
      exact List.perm_append_comm.trans (List.Perm.append (ihl _) (ihr _))

theorem mem_families_flip (o : OTree) (F : Path → Bool) (x : Nat) :
    x ∈ families (o.flip F) ↔ x ∈ families o := by
  simp only [families, mem_dedup]
  exact (List.Perm.flatten (leafSyntenies_flip_perm o F)).mem_iff

theorem families_flip_perm (o : OTree) (F : Path → Bool) :
    (families (o.flip F)).Perm (families o) :=
  (List.perm_ext_iff_of_nodup (nodup_dedup _) (nodup_dedup _)).mpr (mem_families_flip o F)

theorem isPermOf_congr (a b b' : List Nat) (h : b'.Perm b) :
    Spec.isPermOf a b' = Spec.isPermOf a b := by
  have hm : ∀ x, x ∈ b' ↔ x ∈ b := fun x => h.mem_iff
  rw [Bool.eq_iff_iff]
  simp only [Spec.isPermOf, Bool.and_eq_true, beq_iff_eq, List.all_eq_true, List.contains_iff_mem,
    h.length_eq, hm]

/-- Validity in the plain and ordered modes is invariant. -/
theorem validSol_flip_plain (o : OTree) (sol : Sol) (F : Path → Bool) :
    Spec.validSol .plain (o.flip F) (sol.flip F) = Spec.validSol .plain o sol := by
  simp only [Spec.validSol, validRec_flip]

theorem validSol_flip_ordered (o : OTree) (sol : Sol) (F : Path → Bool) :
    Spec.validSol .ordered (o.flip F) (sol.flip F) = Spec.validSol .ordered o sol := by
  simp only [Spec.validSol, validRec_flip, validOrdLabels_flip, Sol.flip_fam,
    isPermOf_congr _ _ _ (families_flip_perm o F)]

theorem leafSpecies_flip_perm : ∀ (o : OTree) (F : Path → Bool),
    (leafSpecies (o.flip F)).Perm (leafSpecies o) := by
  intro o
  induction o with
  | leaf sp f => intro F; exact List.Perm.refl _
  | node l r ihl ihr =>
    intro F
    simp only [OTree.flip]
    cases F []
    · simp only [Bool.false_eq_true, if_false, leafSpecies]
      exact List.Perm.append (ihl _) (ihr _)
    · simp only [if_true, leafSpecies]
      exact List.perm_append_comm.trans (List.Perm.append (ihl _) (ihr _))

theorem mem_allMappings_flip (S : RTree) : ∀ (o : OTree) (sol : Sol) (F : Path → Bool),
    sol ∈ Spec.allMappings S o → sol.flip F ∈ Spec.allMappings S (o.flip F) := by
  intro o
  induction o with
  | leaf sp f =>
    intro sol F h
    simp only [Spec.allMappings, List.mem_singleton] at h
    subst h
    simp [OTree.flip, Sol.flip, Spec.allMappings]
  | node l r ihl ihr =>
    intro sol F h
    simp only [Spec.allMappings, List.mem_flatMap, List.mem_map] at h
    obtain ⟨ml, hml, mr, hmr, s, hs, rfl⟩ := h
    simp only [OTree.flip, Sol.flip]
    cases F []
    · simp only [Bool.false_eq_true, if_false, Spec.allMappings, List.mem_flatMap, List.mem_map]
      exact ⟨_, ihl ml _ hml, _, ihr mr _ hmr, s, hs, rfl⟩
    · simp only [if_true, Spec.allMappings, List.mem_flatMap, List.mem_map]
      exact ⟨_, ihr mr _ hmr, _, ihl ml _ hml, s, hs, rfl⟩

/-! ### Unordered labellings: object positions are relabelled by the flip

  `Spec.validUnLabels` refers to the gain node of each family through object
  POSITIONS (`leafPaths`, `allowedContent`, `gainsAt`).  A flip moves the subtree at
  position `q` to position `Path.flipPos F q`; this map is a `PathEmb`, the gain
  nodes move with it, and so the test is invariant. -/

/-- Where the node at position `q` of a tree ends up after `flip F`. -/
def Path.flipPos : (Path → Bool) → Path → Path
  | _, [] => []
  | F, k :: q => (if F [] then Path.swapNat 0 1 k else k) :: flipPos (fun r => F (k :: r)) q

theorem Path.flipPos_len : ∀ (q : Path) (F : Path → Bool), (Path.flipPos F q).length = q.length := by
  intro q
  induction q with
  | nil => intro F; rfl
  | cons k q ih => intro F; simp [Path.flipPos, ih]

theorem Path.flipPos_inj : ∀ (q r : Path) (F : Path → Bool),
    Path.flipPos F q = Path.flipPos F r → q = r := by
  intro q
  induction q with
  | nil =>
    intro r F e
    cases r with
    | nil => rfl
    | cons k r => simp [Path.flipPos] at e
  | cons a q ih =>
    intro r F e
    cases r with
    | nil => simp [Path.flipPos] at e
    | cons b r =>
      simp only [Path.flipPos, List.cons.injEq] at e
      have hab : a = b := by
        cases hF : F []
        · simpa [hF] using e.1
        · exact Path.swapNat_inj 0 1 a b (by simpa [hF] using e.1)
      subst hab
      rw [ih r _ e.2]

theorem Path.flipPos_lcp : ∀ (q r : Path) (F : Path → Bool),
    lcp (Path.flipPos F q) (Path.flipPos F r) = Path.flipPos F (lcp q r) := by
  intro q
  induction q with
  | nil => intro r F; cases r <;> simp [Path.flipPos, lcp]
  | cons a q ih =>
    intro r F
    cases r with
    | nil => simp [Path.flipPos, lcp]
    | cons b r =>
      by_cases hab : a = b
      · subst hab
        simp [Path.flipPos, lcp, ih]
      · have h1 : Path.swapNat 0 1 a ≠ Path.swapNat 0 1 b := fun e => hab (Path.swapNat_inj 0 1 a b e)
        cases hF : F [] <;> simp [Path.flipPos, lcp, hab, hF, h1]

theorem Path.flipPos_emb (F : Path → Bool) : PathEmb (Path.flipPos F) :=
  ⟨⟨0, fun p => Path.flipPos_len p F⟩, fun p q => Path.flipPos_lcp p q F,
    fun p q => Path.flipPos_inj p q F⟩

theorem Path.flipPos_append : ∀ (p : Path) (F : Path → Bool) (k : Nat),
    Path.flipPos F (p ++ [k]) =
      Path.flipPos F p ++ [if F p then Path.swapNat 0 1 k else k] := by
  intro p
  induction p with
  | nil => intro F k; simp [Path.flipPos]
  | cons a p ih => intro F k; simp [Path.flipPos, ih]

/-- The leaves of the flipped tree: same syntenies, relabelled positions. -/
theorem mem_leafPaths_flip : ∀ (o : OTree) (F : Path → Bool) (q' : Path) (fam : List Nat),
    (q', fam) ∈ leafPaths (o.flip F) ↔ ∃ q, (q, fam) ∈ leafPaths o ∧ q' = Path.flipPos F q := by
  intro o
  induction o with
  | leaf sp f =>
    intro F q' fam
    simp only [OTree.flip, leafPaths, List.mem_singleton, Prod.mk.injEq]
    constructor
    · rintro ⟨rfl, rfl⟩; exact ⟨[], ⟨rfl, rfl⟩, rfl⟩
    · rintro ⟨q, ⟨rfl, rfl⟩, rfl⟩; exact ⟨rfl, rfl⟩
  | node l r ihl ihr =>
    intro F q' fam
    simp only [OTree.flip]
    cases hF : F []
    · simp only [Bool.false_eq_true, if_false, leafPaths, List.mem_append, List.mem_map,
        Prod.mk.injEq, Prod.exists]
      constructor
      · rintro (⟨a, b, hab, rfl, rfl⟩ | ⟨a, b, hab, rfl, rfl⟩)
        · obtain ⟨q, hq, rfl⟩ := (ihl _ a b).mp hab
          exact ⟨0 :: q, Or.inl ⟨q, b, hq, rfl, rfl⟩, by simp [Path.flipPos, hF]⟩
        · obtain ⟨q, hq, rfl⟩ := (ihr _ a b).mp hab
          exact ⟨1 :: q, Or.inr ⟨q, b, hq, rfl, rfl⟩, by simp [Path.flipPos, hF]⟩
      · rintro ⟨q, (⟨a, b, hab, rfl, rfl⟩ | ⟨a, b, hab, rfl, rfl⟩), rfl⟩
        · exact Or.inl ⟨_, b, (ihl _ _ b).mpr ⟨a, hab, rfl⟩, by simp [Path.flipPos, hF], rfl⟩
        · exact Or.inr ⟨_, b, (ihr _ _ b).mpr ⟨a, hab, rfl⟩, by simp [Path.flipPos, hF], rfl⟩
    · simp only [if_true, leafPaths, List.mem_append, List.mem_map, Prod.mk.injEq, Prod.exists]
      constructor
      · rintro (⟨a, b, hab, rfl, rfl⟩ | ⟨a, b, hab, rfl, rfl⟩)
        · obtain ⟨q, hq, rfl⟩ := (ihr _ a b).mp hab
          exact ⟨1 :: q, Or.inr ⟨q, b, hq, rfl, rfl⟩, by simp [Path.flipPos, hF, Path.swapNat]⟩
        · obtain ⟨q, hq, rfl⟩ := (ihl _ a b).mp hab
          exact ⟨0 :: q, Or.inl ⟨q, b, hq, rfl, rfl⟩, by simp [Path.flipPos, hF, Path.swapNat]⟩
      · rintro ⟨q, (⟨a, b, hab, rfl, rfl⟩ | ⟨a, b, hab, rfl, rfl⟩), rfl⟩
        · exact Or.inr ⟨_, b, (ihl _ _ b).mpr ⟨a, hab, rfl⟩,
            by simp [Path.flipPos, hF, Path.swapNat], rfl⟩
        · exact Or.inl ⟨_, b, (ihr _ _ b).mpr ⟨a, hab, rfl⟩,
            by simp [Path.flipPos, hF, Path.swapNat], rfl⟩

/-- `lcpAll` is the greatest common ancestor of a non-empty list. -/
theorem isAnc_foldl_lcp' (r : Path) : ∀ (rest : List Path) (p : Path),
    isAnc r (rest.foldl lcp p) = true ↔ isAnc r p = true ∧ ∀ q ∈ rest, isAnc r q = true := by
  intro rest
  induction rest with
  | nil => intro p; simp
  | cons a rest ih =>
    intro p
    simp only [List.foldl_cons, ih, List.mem_cons, forall_eq_or_imp]
    constructor
    · rintro ⟨h1, h2⟩
      exact ⟨isAnc_trans h1 (lcp_isAnc_left p a), isAnc_trans h1 (lcp_isAnc_right p a), h2⟩
    · rintro ⟨h1, h2, h3⟩
      exact ⟨isAnc_lcp h1 h2, h3⟩

theorem isAnc_lcpAll' (r : Path) (L : List Path) (hL : L ≠ []) :
    isAnc r (lcpAll L) = true ↔ ∀ q ∈ L, isAnc r q = true := by
  cases L with
  | nil => exact absurd rfl hL
  | cons p rest => simp [lcpAll, isAnc_foldl_lcp']

/-- `lcpAll` only depends on the set of paths. -/
theorem lcpAll_congr {L L' : List Path} (hL : L ≠ []) (h : ∀ q, q ∈ L ↔ q ∈ L') :
    lcpAll L = lcpAll L' := by
  have hL' : L' ≠ [] := by
    obtain ⟨x, hx⟩ := List.exists_mem_of_ne_nil L hL
    intro e; rw [e] at h; exact absurd ((h x).mp hx) (by simp)
  apply isAnc_antisymm
  · rw [isAnc_lcpAll' _ _ hL']
    intro q hq
    exact (isAnc_lcpAll' _ _ hL).mp (isAnc_refl _) q ((h q).mpr hq)
  · rw [isAnc_lcpAll' _ _ hL]
    intro q hq
    exact (isAnc_lcpAll' _ _ hL').mp (isAnc_refl _) q ((h q).mp hq)

theorem lcpAll_map {φ : Path → Path} (hφ : PathEmb φ) (L : List Path) (hL : L ≠ []) :
    lcpAll (L.map φ) = φ (lcpAll L) := by
  cases L with
  | nil => exact absurd rfl hL
  | cons p rest =>
    simp only [lcpAll, List.map_cons]
    clear hL
    induction rest generalizing p with
    | nil => rfl
    | cons a rest ih => simp only [List.map_cons, List.foldl_cons, hφ.lcp, ih]

/-- The positions of the leaves carrying the family `x`. -/
def famPaths (o : OTree) (x : Nat) : List Path :=
  ((leafPaths o).filter (fun p => p.2.contains x)).map (·.1)

theorem mem_famPaths (o : OTree) (x : Nat) (q : Path) :
    q ∈ famPaths o x ↔ ∃ fam, (q, fam) ∈ leafPaths o ∧ x ∈ fam := by
  simp only [famPaths, List.mem_map, List.mem_filter, List.contains_iff_mem, Prod.exists,
    exists_and_right, exists_eq_right]

theorem leafPaths_snd (o : OTree) : (leafPaths o).map (·.2) = leafSyntenies o := by
  induction o with
  | leaf sp f => rfl
  | node l r ihl ihr => simp [leafPaths, leafSyntenies, ← ihl, ← ihr, Function.comp_def]

theorem famPaths_ne_nil {o : OTree} {x : Nat} (hx : x ∈ families o) : famPaths o x ≠ [] := by
  simp only [families, mem_dedup, List.mem_flatten, ← leafPaths_snd, List.mem_map] at hx
  obtain ⟨fam, ⟨⟨q, fam'⟩, hq, rfl⟩, hxf⟩ := hx
  intro e
  have : q ∈ famPaths o x := (mem_famPaths o x q).mpr ⟨fam', hq, hxf⟩
  rw [e] at this; cases this

/-- **Gain nodes move with the flip.** -/
theorem lcpAll_famPaths_flip (o : OTree) (F : Path → Bool) (x : Nat) (hx : x ∈ families o) :
    lcpAll (famPaths (o.flip F) x) = Path.flipPos F (lcpAll (famPaths o x)) := by
  have hne := famPaths_ne_nil hx
  rw [← lcpAll_map (Path.flipPos_emb F) _ hne]
  have hne' : famPaths (o.flip F) x ≠ [] := famPaths_ne_nil ((mem_families_flip o F x).mpr hx)
  apply lcpAll_congr hne'
  intro q
  simp only [mem_famPaths, List.mem_map, mem_leafPaths_flip]
  constructor
  · rintro ⟨fam, ⟨q0, hq0, rfl⟩, hxf⟩
    exact ⟨q0, ⟨fam, hq0, hxf⟩, rfl⟩
  · rintro ⟨q0, ⟨fam, hq0, hxf⟩, rfl⟩
    exact ⟨fam, ⟨q0, hq0, rfl⟩, hxf⟩

theorem mem_allowedContent_flip (o : OTree) (F : Path → Bool) (p : Path) (x : Nat) :
    x ∈ Spec.allowedContent (o.flip F) (Path.flipPos F p) ↔ x ∈ Spec.allowedContent o p := by
  simp only [Spec.allowedContent, List.mem_filter, mem_families_flip]
  constructor
  · rintro ⟨hx, h⟩
    refine ⟨hx, ?_⟩
    have := lcpAll_famPaths_flip o F x hx
    simp only [famPaths] at this
    rwa [this, (Path.flipPos_emb F).isAnc] at h
  · rintro ⟨hx, h⟩
    refine ⟨hx, ?_⟩
    have := lcpAll_famPaths_flip o F x hx
    simp only [famPaths] at this
    rwa [this, (Path.flipPos_emb F).isAnc]

theorem mem_gainsAt_flip (o : OTree) (F : Path → Bool) (p : Path) (x : Nat) :
    x ∈ gainsAt (o.flip F) (Path.flipPos F p) ↔ x ∈ gainsAt o p := by
  simp only [gainsAt, List.mem_filter, mem_families_flip]
  constructor
  · rintro ⟨hx, h⟩
    refine ⟨hx, ?_⟩
    have := lcpAll_famPaths_flip o F x hx
    simp only [famPaths] at this
    rwa [this, (Path.flipPos_emb F).beq] at h
  · rintro ⟨hx, h⟩
    refine ⟨hx, ?_⟩
    have := lcpAll_famPaths_flip o F x hx
    simp only [famPaths] at this
    rwa [this, (Path.flipPos_emb F).beq]

theorem all_allowed_flip (o : OTree) (F : Path → Bool) (p : Path) (f : List Nat) :
    f.all (fun x => (Spec.allowedContent (o.flip F) (Path.flipPos F p)).contains x) =
      f.all (fun x => (Spec.allowedContent o p).contains x) := by
  rw [Bool.eq_iff_iff]
  simp only [List.all_eq_true, List.contains_iff_mem, mem_allowedContent_flip]

theorem edgeOk_un_flip (o : OTree) (F : Path → Bool) (p : Path) (f fc : List Nat) :
    Spec.edgeOk .unordered (o.flip F) (Path.flipPos F p) f fc = Spec.edgeOk .unordered o p f fc := by
  rw [Bool.eq_iff_iff]
  simp only [Spec.edgeOk, List.all_eq_true, Bool.or_eq_true, List.contains_iff_mem,
    mem_gainsAt_flip]

/-- **`validUnLabels` is invariant under a flip of the whole input**: the subtree at
    position `p` is compared at its new position. -/
theorem validUnLabels_flip (whole : OTree) (G : Path → Bool) : ∀ (o : OTree) (sol : Sol) (p : Path),
    Spec.validUnLabels (whole.flip G) (Path.flipPos G p) (o.flip (fun q => G (p ++ q)))
        (sol.flip (fun q => G (p ++ q))) =
      Spec.validUnLabels whole p o sol := by
  intro o
  induction o with
  | leaf sp f =>
    intro sol p
    cases sol with
    | leaf s g => rfl
    | node s g l r => simp only [OTree.flip, Sol.flip]; split <;> rfl
  | node ol or ihl ihr =>
    intro sol p
    cases sol with
    | leaf s g => simp only [OTree.flip, Sol.flip]; split <;> rfl
    | node s g l r =>
      have e0 : ∀ t : OTree, t.flip (fun q => G (p ++ 0 :: q)) = t.flip (fun q => G ((p ++ [0]) ++ q)) :=
        fun t => OTree.flip_congr t _ _ (fun q => by simp)
      have e1 : ∀ t : OTree, t.flip (fun q => G (p ++ 1 :: q)) = t.flip (fun q => G ((p ++ [1]) ++ q)) :=
        fun t => OTree.flip_congr t _ _ (fun q => by simp)
      have e0' : ∀ t : Sol, t.flip (fun q => G (p ++ 0 :: q)) = t.flip (fun q => G ((p ++ [0]) ++ q)) :=
        fun t => Sol.flip_congr t _ _ (fun q => by simp)
      have e1' : ∀ t : Sol, t.flip (fun q => G (p ++ 1 :: q)) = t.flip (fun q => G ((p ++ [1]) ++ q)) :=
        fun t => Sol.flip_congr t _ _ (fun q => by simp)
      have il := ihl l (p ++ [0])
      have ir := ihr r (p ++ [1])
      rw [Path.flipPos_append] at il ir
      simp only [OTree.flip, Sol.flip, List.append_nil, e0, e1, e0', e1']
      cases hG : G p
      · simp only [hG, Bool.false_eq_true, if_false] at il ir ⊢
        simp only [Spec.validUnLabels, Sol.flip_fam, all_allowed_flip, il, ir]
        have a0 := edgeOk_un_flip whole G (p ++ [0]) g l.fam
        have a1 := edgeOk_un_flip whole G (p ++ [1]) g r.fam
        rw [Path.flipPos_append] at a0 a1
        simp only [hG, Bool.false_eq_true, if_false] at a0 a1
        rw [a0, a1]
      · simp only [hG, if_true] at il ir ⊢
        have s0 : Path.swapNat 0 1 0 = 1 := rfl
        have s1 : Path.swapNat 0 1 1 = 0 := rfl
        rw [s0] at il
        rw [s1] at ir
        simp only [Spec.validUnLabels, Sol.flip_fam, all_allowed_flip, il, ir]
        have a0 := edgeOk_un_flip whole G (p ++ [0]) g l.fam
        have a1 := edgeOk_un_flip whole G (p ++ [1]) g r.fam
        rw [Path.flipPos_append] at a0 a1
        simp only [hG, if_true, s0, s1] at a0 a1
        rw [a0, a1]
        cases (g.all fun x => (Spec.allowedContent whole p).contains x) <;>
          cases Spec.edgeOk .unordered whole (p ++ [0]) g l.fam <;>
          cases Spec.edgeOk .unordered whole (p ++ [1]) g r.fam <;>
          cases Spec.validUnLabels whole (p ++ [0]) ol l <;>
          cases Spec.validUnLabels whole (p ++ [1]) or r <;> rfl

/-- Validity in the unordered mode is invariant. -/
theorem validSol_flip_unordered (o : OTree) (sol : Sol) (F : Path → Bool) :
    Spec.validSol .unordered (o.flip F) (sol.flip F) = Spec.validSol .unordered o sol := by
  have := validUnLabels_flip o F o sol []
  simp only [List.nil_append, Path.flipPos] at this
  simp only [Spec.validSol, validRec_flip, this]

/-- Validity is invariant in every mode. -/
theorem validSol_flip (mode : LabelMode) (o : OTree) (sol : Sol) (F : Path → Bool) :
    Spec.validSol mode (o.flip F) (sol.flip F) = Spec.validSol mode o sol := by
  cases mode
  · exact validSol_flip_plain o sol F
  · exact validSol_flip_ordered o sol F
  · exact validSol_flip_unordered o sol F

end SR
