/-
  `find_cycle`: the `while` loop (fuel suffices), what `None` means, the
  shape of the returned list.
-/
import SRVerif.Proofs.FindCycleInv

namespace SR.Toposort

/-! ### The `while stack and cycle_start is None` loop -/

theorem dfsLoop_spec {g : Graph} (hwf : WF g) {i : Nat} (hi : i ∈ keys g) :
    ∀ (fuel : Nat) (P : Parents) (S : List Nat), CInv g i P S →
      g.length + S.length < fuel + P.length →
      ∃ P' r, dfsLoop g fuel P S = .ok (P', r) ∧
        (r = none → CInv g i P' []) ∧ (∀ c, r = some c → Det g i P' c) := by
  intro fuel
  induction fuel with
  | zero =>
    intro P S h hf
    have := h.tree.length_le hi hwf.succ_keys
    omega
  | succ fuel ih =>
    intro P S h hf
    cases S with
    | nil => exact ⟨P, none, rfl, fun _ => h, fun c hc => by simp at hc⟩
    | cons cur rest =>
      have hcurk : cur ∈ keys g := h.tree.sub_keys hi hwf.succ_keys cur (h.sk cur (by simp))
      obtain ⟨succs, hs⟩ := lookup_graph_of_mem_keys g cur hcurk
      have hnd : succs.Nodup := (hwf.2 _ (mem_of_lookup_graph g cur succs hs)).1
      have hS := h.pop hwf.1 hs hnd
      obtain ⟨h1, h2⟩ := scan_spec succs P rest hS _ rfl
      simp only [dfsLoop, hs]
      cases hf' : (scan cur succs P rest).found with
      | some c =>
        refine ⟨(scan cur succs P rest).parents, some c, ?_, fun hn => by simp at hn, ?_⟩
        · generalize scan cur succs P rest = o at hf'
          obtain ⟨a, b, f⟩ := o
          simp only at hf'
          subst hf'
          rfl
        · intro c' hc'
          simp only [Option.some.injEq] at hc'
          subst hc'
          exact h2 c hf'
      | none =>
        obtain ⟨hinv, hlen⟩ := h1 hf'
        have hf2 : g.length + (scan cur succs P rest).stack.length
            < fuel + (scan cur succs P rest).parents.length := by
          simp only [List.length_cons] at hf
          omega
        obtain ⟨P', r, hr, hr1, hr2⟩ := ih _ _ hinv hf2
        refine ⟨P', r, ?_, hr1, hr2⟩
        generalize scan cur succs P rest = o at hf' hr
        obtain ⟨a, b, f⟩ := o
        simp only at hf'
        subst hf'
        exact hr

/-! ### Meaning of `None` -/

theorem CInv.closed {g : Graph} {i : Nat} {P : Parents} (h : CInv g i P []) {v : Nat} {w : List Nat}
    (hw : WalkTo g i v w) : v ∈ pkeys P := by
  induction hw with
  | nil => exact h.tree.root_mem
  | snoc _ ha ih => exact plookup_mem (h.done _ ih (by simp) _ ha).1

/-- When the loop ends with an empty stack, the reachable part is an
    out-tree: walks from `i` are unique. -/
theorem CInv.unique {g : Graph} {i : Nat} {P : Parents} (h : CInv g i P []) : UniqueWalks g i := by
  intro v w₁ w₂ h₁
  induction h₁ generalizing w₂ with
  | nil =>
    intro h₂
    cases h₂ with
    | nil => rfl
    | snoc hw ha => exact absurd rfl (h.done _ (h.closed hw) (by simp) _ ha).2
  | snoc hw ha ih =>
    intro h₂
    cases h₂ with
    | nil => exact absurd rfl (h.done _ (h.closed hw) (by simp) _ ha).2
    | snoc hw' ha' =>
      have e1 := (h.done _ (h.closed hw) (by simp) _ ha).1
      have e2 := (h.done _ (h.closed hw') (by simp) _ ha').1
      rw [e1] at e2
      simp only [Option.some.injEq] at e2
      subst e2
      rw [ih _ hw']

/-! ### The parent-chasing loop -/

/-- What `climb` appends, started at `x`. -/
structure Climbed (g : Graph) (P0 : Parents) (c x : Nat) (l : List Nat) : Prop where
  mem : ∀ y ∈ l, y ≠ c ∧ y ∈ pkeys P0 ∧ rank P0 y ≤ rank P0 x
  nodup : l.Nodup
  chain : Chain (fun a b => Arc g b a) l
  head : ∀ y t, l = y :: t → y = x

theorem climb_spec {g : Graph} {i : Nat} {P0 : Parents} (hto : TO g i P0) (c cur0 : Nat) :
    ∀ (fuel x : Nat) (acc : List Nat), x ∈ pkeys P0 → rank P0 x < fuel →
      ∃ l, climb ((c, cur0) :: P0) c fuel x acc = .ok (acc ++ l) ∧ Climbed g P0 c x l := by
  intro fuel
  induction fuel with
  | zero => intro x acc _ hf; omega
  | succ fuel ih =>
    intro x acc hx hf
    by_cases hxc : x = c
    · subst hxc
      refine ⟨[], ?_, ⟨by simp, by simp, trivial, by simp⟩⟩
      simp [climb]
    · obtain ⟨p, hp⟩ := Option.isSome_iff_exists.1 ((plookup_isSome P0 x).2 hx)
      have hl : List.lookup x ((c, cur0) :: P0) = some p := by rw [plookup_ne _ _ hxc]; exact hp
      by_cases hxp : x = p
      · refine ⟨[], ?_, ⟨by simp, by simp, trivial, by simp⟩⟩
        subst hxp
        simp only [climb, hl, or_true, if_true, List.append_nil]
      · have hxi : x ≠ i := by
          intro e
          rw [e, hto.root_lookup] at hp
          simp only [Option.some.injEq] at hp
          exact hxp (e.trans hp)
        obtain ⟨hpk, harc⟩ := hto.lookup x p hp
        have hrk := hto.rank_lt x p hp hxi
        obtain ⟨l, hcl, hgood⟩ := ih p (acc ++ [x]) hpk (by omega)
        refine ⟨x :: l, ?_, ?_, ?_, ?_, ?_⟩
        · simp only [climb, hl, hxc, hxp, or_self, if_false]
          rw [hcl]; simp
        · intro y hy
          rcases List.mem_cons.1 hy with e | e
          · subst e; exact ⟨hxc, hx, Nat.le_refl _⟩
          · obtain ⟨a, b, d⟩ := hgood.mem y e
            exact ⟨a, b, by omega⟩
        · refine List.nodup_cons.2 ⟨fun hm => ?_, hgood.nodup⟩
          have := (hgood.mem x hm).2.2
          omega
        · cases l with
          | nil => trivial
          | cons y t =>
            have := hgood.head y t rfl
            subst this
            exact ⟨harc hxi, hgood.chain⟩
        · intro y t e
          simp only [List.cons.injEq] at e
          exact e.1.symm

/-! ### `find_cycle` -/

/-- The list returned by `find_cycle`: distinct vertices, each reachable
    from the first key, each consecutive pair `(a, b)` an edge `b → a` of the
    graph (the list is in REVERSE edge order). -/
structure CycleShape (g : Graph) (i : Nat) (cyc : List Nat) : Prop where
  ne : cyc ≠ []
  nodup : cyc.Nodup
  chain : Chain (fun a b => Arc g b a) cyc
  reach : ∀ v ∈ cyc, ∃ w, WalkTo g i v w
  keys : ∀ v ∈ cyc, v ∈ keys g

theorem findCycle_spec {g : Graph} (hwf : WF g) {i : Nat} {ss : List Nat} {rest : Graph}
    (hg : g = (i, ss) :: rest) :
    ∃ r, findCycle g = .ok r ∧ (r = none ↔ UniqueWalks g i) ∧
      ∀ cyc, r = some cyc → CycleShape g i cyc := by
  have hi : i ∈ SR.Toposort.keys g := by rw [hg]; simp [SR.Toposort.keys]
  have hinit : CInv g i [(i, i)] [i] := by
    refine ⟨.root, by simp, by simp [pkeys], ?_, ?_⟩
    · intro v p hl hvi
      rw [plookup_ne _ _ hvi] at hl; simp at hl
    · intro u hu hus
      simp [pkeys] at hu hus
      exact absurd hu hus
  obtain ⟨P', r, hr, hr1, hr2⟩ := dfsLoop_spec hwf hi (g.length + 1) _ _ hinit (by simp)
  have hfc : findCycle g = match (Except.ok (P', r) : Except CErr (Parents × Option Nat)) with
      | .error e => .error e
      | .ok (_, none) => .ok none
      | .ok (P, some c) =>
        match P.lookup c with
        | none => .error .keyError
        | some p =>
          match climb P c (g.length + 1) p [c] with
          | .error e => .error e
          | .ok cyc => .ok (some cyc) := by
    rw [← hr]; subst hg; rfl
  cases r with
  | none =>
    refine ⟨none, by rw [hfc], ⟨fun _ => (hr1 rfl).unique, fun _ => rfl⟩, fun cyc h => by simp at h⟩
  | some c =>
    obtain ⟨P0, cur, rfl, hto, hc, hcur, harc, hnu⟩ := hr2 c rfl
    have hlen := hto.length_le hi hwf.succ_keys
    have hrk := rank_le P0 cur
    obtain ⟨l, hcl, hgood⟩ := climb_spec hto c cur (g.length + 1) cur [c] hcur (by omega)
    refine ⟨some (c :: l), ?_, ⟨fun h => by simp at h, fun h => absurd h hnu⟩, ?_⟩
    · rw [hfc]; simp only [plookup_self, hcl]; rfl
    · intro cyc hcyc
      simp only [Option.some.injEq] at hcyc
      subst hcyc
      have hk : ∀ v ∈ c :: l, v ∈ pkeys P0 := by
        intro v hv
        rcases List.mem_cons.1 hv with e | e
        · exact e ▸ hc
        · exact (hgood.mem v e).2.1
      refine ⟨by simp, List.nodup_cons.2 ⟨fun hm => (hgood.mem c hm).1 rfl, hgood.nodup⟩, ?_,
        fun v hv => ?_, fun v hv => hto.sub_keys hi hwf.succ_keys v (hk v hv)⟩
      · cases l with
        | nil => trivial
        | cons y t =>
          have := hgood.head y t rfl
          subst this
          exact ⟨harc, hgood.chain⟩
      · obtain ⟨w, hw, _⟩ := hto.walk v (hk v hv)
        exact ⟨w, hw⟩

/-- `find_cycle` raises `StopIteration` on the empty graph. -/
theorem findCycle_nil : findCycle [] = .error .stopIteration := rfl

/-! ### When the returned list is a genuine cycle -/

/-- A reverse-order edge chain whose first vertex has an edge to its last
    vertex is, read backwards, a closed walk. -/
theorem isCycle_reverse_of_closed {g : Graph} {a : Nat} {l : List Nat}
    (hch : Chain (fun x y => Arc g y x) (a :: l))
    (hclose : Arc g a ((a :: l).getLast (by simp))) : IsCycle g (a :: l).reverse := by
  have hrev : Chain (Arc g) (a :: l).reverse := chain_reverse (a :: l) hch
  cases hl : l.reverse with
  | nil =>
    have : l = [] := by simpa using hl
    subst this
    exact ⟨by simpa using hclose, trivial⟩
  | cons z m =>
    have hlast : (a :: l).getLast (by simp) = z := by
      have : l = (z :: m).reverse := by rw [← hl]; simp
      subst this; simp
    rw [hlast] at hclose
    have e : (a :: l).reverse = z :: (m ++ [a]) := by simp [hl]
    rw [e] at hrev ⊢
    show Chain (Arc g) (z :: (m ++ [a]) ++ [z])
    have := chain_snoc (z :: m) a z (by simpa using hrev) hclose
    simpa using this

/-- Conversely a closed walk, read backwards, closes. -/
theorem closed_of_isCycle_reverse {g : Graph} {a : Nat} {l : List Nat}
    (h : IsCycle g (a :: l).reverse) : Arc g a ((a :: l).getLast (by simp)) := by
  cases hl : l.reverse with
  | nil =>
    have : l = [] := by simpa using hl
    subst this
    exact h.1
  | cons z m =>
    have hlast : (a :: l).getLast (by simp) = z := by
      have : l = (z :: m).reverse := by rw [← hl]; simp
      subst this; simp
    rw [hlast]
    have e : (a :: l).reverse = z :: (m ++ [a]) := by simp [hl]
    rw [e] at h
    have h' : Chain (Arc g) ((z :: m) ++ [a, z]) := by
      have : (z :: (m ++ [a]) ++ [z]) = (z :: m) ++ [a, z] := by simp
      rw [← this]; exact h
    exact (chain_append_right (z :: m) [a, z] h').1

end SR.Toposort
