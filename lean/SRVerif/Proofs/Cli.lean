/-
  C12: `label_internal`.  The `while` loop never exhausts its fuel; a trace of
  the pass (`labelGoI`: final name and, for a new name, its index) carries the
  invariants from which `C12_label` is read off.
-/
import SRVerif.Model.Cli
import SRVerif.Proofs.SerializeMap
import Std.Data.String.ToNat

namespace SR.Cli

open SR.Ser

theorem mkName_inj {pfx : String} {a b : Nat} (h : mkName pfx a = mkName pfx b) : a = b := by
  unfold mkName at h
  have h' : Nat.repr a = Nat.repr b := (String.append_right_inj pfx).1 h
  exact Nat.repr_inj.1 h'

theorem mkName_ne_empty (pfx : String) (k : Nat) : mkName pfx k ≠ "" := by
  unfold mkName
  intro h
  have := (String.append_eq_empty_iff.1 h).2
  exact Nat.repr_ne_empty this

/-- `"O3"`, `"S0"`, … are never ete3's legacy default name. -/
theorem mkName_ne_noName {pfx : String} {c : Char} {cs : List Char} (hp : pfx.toList = c :: cs)
    (hc : c ≠ 'N') (k : Nat) : mkName pfx k ≠ "NoName" := by
  unfold mkName
  intro h
  have := congrArg String.toList h
  rw [String.toList_append, hp] at this
  have h2 : "NoName".toList = ['N', 'o', 'N', 'a', 'm', 'e'] := by decide
  rw [h2] at this
  simp only [List.cons_append, List.cons.injEq] at this
  exact hc this.1

theorem isUnnamed_mkName {pfx : String} {c : Char} {cs : List Char} (hp : pfx.toList = c :: cs)
    (hc : c ≠ 'N') (k : Nat) : isUnnamed (mkName pfx k) = false := by
  simp [isUnnamed, mkName_ne_empty, mkName_ne_noName hp hc]

/-! ### The `while` loop -/

section
variable {pfx : String} {names : List String}

theorem findFree_ge : ∀ fuel next, next ≤ findFree pfx names fuel next
  | 0, _ => Nat.le_refl _
  | f + 1, next => by
    simp only [findFree]
    split
    · exact Nat.le_trans (Nat.le_succ _) (findFree_ge f (next + 1))
    · exact Nat.le_refl _

/-- Every index passed over is the name of a node. -/
theorem findFree_skipped : ∀ fuel next j, next ≤ j → j < findFree pfx names fuel next →
    mkName pfx j ∈ names
  | 0, next, j, h1, h2 => by simp only [findFree] at h2; omega
  | f + 1, next, j, h1, h2 => by
    simp only [findFree] at h2
    split at h2
    · rename_i hc
      by_cases hj : j = next
      · subst hj; simpa using hc
      · exact findFree_skipped f (next + 1) j (by omega) h2
    · omega

theorem findFree_cases : ∀ fuel next,
    mkName pfx (findFree pfx names fuel next) ∉ names ∨ findFree pfx names fuel next = next + fuel
  | 0, _ => Or.inr rfl
  | f + 1, next => by
    simp only [findFree]
    split
    · rcases findFree_cases f (next + 1) with h | h
      · exact Or.inl h
      · right; omega
    · rename_i hc; left; simpa using hc

/-- With more fuel than there are names the loop stops on a free name (pigeonhole:
    the candidate names are pairwise distinct). -/
theorem findFree_free {fuel : Nat} (h : names.length < fuel) (next : Nat) :
    mkName pfx (findFree pfx names fuel next) ∉ names := by
  rcases findFree_cases (pfx := pfx) (names := names) fuel next with h1 | h1
  · exact h1
  · exfalso
    have hsub : (List.range' next fuel).map (mkName pfx) ⊆ names := by
      intro x hx
      obtain ⟨j, hj, rfl⟩ := List.mem_map.1 hx
      rw [List.mem_range'_1] at hj
      exact findFree_skipped fuel next j hj.1 (by omega)
    have hnd : ((List.range' next fuel).map (mkName pfx)).Nodup :=
      nodup_map_of_inj_on _ (List.nodup_range' 1) (fun a _ b _ h => mkName_inj h)
    have := List.Nodup.length_le_of_subset hnd hsub
    simp at this
    omega

end

/-! ### Trace of the pass -/

/-- The pass, recording for every visited node its final name and the index it received. -/
def labelGoI (pfx : String) : List String → List String → Nat → List (String × Option Nat)
  | _, [], _ => []
  | done, nm :: todo, next =>
    if isUnnamed nm then
      let all := done ++ nm :: todo
      let k := findFree pfx all (all.length + 1) next
      (mkName pfx k, some k) :: labelGoI pfx (done ++ [mkName pfx k]) todo k
    else
      (nm, none) :: labelGoI pfx (done ++ [nm]) todo next

def idxs (out : List (String × Option Nat)) : List Nat := out.filterMap (·.2)

@[simp] theorem idxs_nil : idxs [] = [] := rfl
@[simp] theorem idxs_cons_some (a : String) (k : Nat) (r : List (String × Option Nat)) :
    idxs ((a, some k) :: r) = k :: idxs r := rfl
@[simp] theorem idxs_cons_none (a : String) (r : List (String × Option Nat)) :
    idxs ((a, none) :: r) = idxs r := rfl

/-- Element-wise relation between two lists of the same length. -/
inductive Aligned {α β : Type} (R : α → β → Prop) : List α → List β → Prop where
  | nil : Aligned R [] []
  | cons {a b l₁ l₂} : R a b → Aligned R l₁ l₂ → Aligned R (a :: l₁) (b :: l₂)

theorem labelGo_eq (pfx : String) : ∀ todo done next,
    labelGo pfx done todo next = done ++ (labelGoI pfx done todo next).map (·.1)
  | [], done, next => by simp [labelGo, labelGoI]
  | nm :: todo, done, next => by
    simp only [labelGo, labelGoI]
    split
    · rw [labelGo_eq pfx todo]; simp
    · rw [labelGo_eq pfx todo]; simp

/-- A given name is kept; an unnamed node receives `prefix ++ index`. -/
def Rel (pfx : String) (nm : String) (y : String × Option Nat) : Prop :=
  if isUnnamed nm then ∃ k, y = (mkName pfx k, some k) else y = (nm, none)

theorem labelGoI_rel (pfx : String) : ∀ todo done next,
    Aligned (Rel pfx) todo (labelGoI pfx done todo next)
  | [], _, _ => by simp only [labelGoI]; exact Aligned.nil
  | nm :: todo, done, next => by
    simp only [labelGoI]
    split
    · rename_i h
      exact Aligned.cons (by simp [Rel, h]) (labelGoI_rel pfx todo _ _)
    · rename_i h
      exact Aligned.cons (by simp [Rel, h]) (labelGoI_rel pfx todo _ _)

theorem labelGoI_idx (pfx : String) : ∀ todo done next k, k ∈ idxs (labelGoI pfx done todo next) →
    next ≤ k ∧ mkName pfx k ∉ done
    ∧ (∀ nm ∈ todo, isUnnamed nm = false → nm ≠ mkName pfx k)
    ∧ ∀ j, next ≤ j → j < k →
        mkName pfx j ∈ done ++ todo ∨ j ∈ idxs (labelGoI pfx done todo next)
  | [], _, _, k, hk => by simp [labelGoI] at hk
  | nm :: todo, done, next, k, hk => by
    simp only [labelGoI] at hk ⊢
    split at hk
    · rename_i hu
      simp only [hu, if_true]
      generalize hk0 : findFree pfx (done ++ nm :: todo) ((done ++ nm :: todo).length + 1) next = k0
        at hk ⊢
      have hge : next ≤ k0 := hk0 ▸ findFree_ge _ _
      have hfree : mkName pfx k0 ∉ done ++ nm :: todo :=
        hk0 ▸ findFree_free (Nat.lt_succ_self _) next
      have hskip : ∀ j, next ≤ j → j < k0 → mkName pfx j ∈ done ++ nm :: todo :=
        fun j h1 h2 => findFree_skipped _ next j h1 (hk0 ▸ h2)
      simp only [idxs_cons_some, List.mem_cons] at hk
      rcases hk with rfl | hk
      · refine ⟨hge, fun h => hfree (List.mem_append_left _ h), ?_, ?_⟩
        · intro nm' hm _ he
          exact hfree (he ▸ List.mem_append_right _ hm)
        · intro j h1 h2
          exact Or.inl (hskip j h1 h2)
      · obtain ⟨h1, h2, h3, h4⟩ := labelGoI_idx pfx todo (done ++ [mkName pfx k0]) k0 k hk
        refine ⟨Nat.le_trans hge h1, fun h => h2 (List.mem_append_left _ h), ?_, ?_⟩
        · intro nm' hm hn
          rcases List.mem_cons.1 hm with rfl | hm'
          · rw [hu] at hn; cases hn
          · exact h3 nm' hm' hn
        · intro j hj1 hj2
          by_cases hjk : j < k0
          · exact Or.inl (hskip j hj1 hjk)
          · rcases h4 j (by omega) hj2 with h | h
            · simp only [List.append_assoc, List.mem_append, List.mem_cons, List.not_mem_nil,
                or_false, List.cons_append, List.nil_append] at h
              rcases h with h | h | h
              · exact Or.inl (by simp [h])
              · right
                have := mkName_inj h
                subst this
                simp
              · exact Or.inl (by simp [h])
            · right
              simp only [idxs_cons_some, List.mem_cons]
              exact Or.inr h
    · rename_i hu
      simp only [hu] at ⊢
      simp only [idxs_cons_none] at hk
      obtain ⟨h1, h2, h3, h4⟩ := labelGoI_idx pfx todo (done ++ [nm]) next k hk
      refine ⟨h1, fun h => h2 (List.mem_append_left _ h), ?_, ?_⟩
      · intro nm' hm hn
        rcases List.mem_cons.1 hm with rfl | hm'
        · intro he; exact h2 (by simp [he])
        · exact h3 nm' hm' hn
      · intro j hj1 hj2
        rcases h4 j hj1 hj2 with h | h
        · exact Or.inl (by simpa using h)
        · right
          simpa using h

theorem labelGoI_pairwise (pfx : String) : ∀ todo done next,
    (idxs (labelGoI pfx done todo next)).Pairwise (· < ·)
  | [], _, _ => by simp [labelGoI]
  | nm :: todo, done, next => by
    simp only [labelGoI]
    split
    · simp only [idxs_cons_some, List.pairwise_cons]
      refine ⟨fun k hk => ?_, labelGoI_pairwise pfx todo _ _⟩
      obtain ⟨h1, h2, _, _⟩ := labelGoI_idx pfx todo _ _ k hk
      have : k ≠ findFree pfx (done ++ nm :: todo) ((done ++ nm :: todo).length + 1) next := by
        intro he
        apply h2
        simp [he]
      omega
    · simp only [idxs_cons_none]
      exact labelGoI_pairwise pfx todo _ _

/-! ### Reading the trace -/

theorem mem_of_rel {pfx : String} {l : List String} {out : List (String × Option Nat)}
    (hR : Aligned (Rel pfx) l out) {x : String} (hx : x ∈ out.map (·.1)) :
    (x ∈ l ∧ isUnnamed x = false) ∨ ∃ k ∈ idxs out, x = mkName pfx k := by
  induction hR with
  | nil => simp at hx
  | @cons nm y l' out' h _ ih =>
    simp only [List.map_cons, List.mem_cons] at hx
    rcases hx with rfl | hx
    · unfold Rel at h
      split at h
      · obtain ⟨k, rfl⟩ := h
        exact Or.inr ⟨k, by simp, rfl⟩
      · rename_i hu
        subst h
        exact Or.inl ⟨List.mem_cons_self, by simpa using hu⟩
    · rcases ih hx with ⟨h1, h2⟩ | ⟨k, hk, rfl⟩
      · exact Or.inl ⟨List.mem_cons_of_mem _ h1, h2⟩
      · refine Or.inr ⟨k, ?_, rfl⟩
        obtain ⟨a, o⟩ := y
        cases o with
        | none => simpa using hk
        | some k' => simp [hk]

theorem nodup_of_rel {pfx : String} {l : List String} {out : List (String × Option Nat)}
    (hR : Aligned (Rel pfx) l out)
    (hg : (l.filter (fun nm => !isUnnamed nm)).Nodup)
    (hi : (idxs out).Nodup)
    (hn : ∀ k ∈ idxs out, ∀ nm ∈ l, isUnnamed nm = false → nm ≠ mkName pfx k) :
    (out.map (·.1)).Nodup := by
  induction hR with
  | nil => simp
  | @cons nm y l' out' h hrest ih =>
    simp only [List.map_cons, List.nodup_cons]
    unfold Rel at h
    split at h
    · rename_i hu
      obtain ⟨k, rfl⟩ := h
      simp only [idxs_cons_some, List.nodup_cons] at hi
      have hg' : (l'.filter (fun nm => !isUnnamed nm)).Nodup := by
        simpa [List.filter_cons, hu] using hg
      refine ⟨fun hx => ?_, ih hg' hi.2 (fun k' hk' nm' hm' => hn k' (by
        simp only [idxs_cons_some, List.mem_cons]; exact Or.inr hk') nm'
        (List.mem_cons_of_mem _ hm'))⟩
      rcases mem_of_rel hrest hx with ⟨h1, h2⟩ | ⟨k', hk', he⟩
      · exact hn k (by simp) _ (List.mem_cons_of_mem _ h1) h2 rfl
      · have := mkName_inj he
        subst this
        exact hi.1 hk'
    · rename_i hu
      subst h
      have hu' : isUnnamed nm = false := by simpa using hu
      simp only [idxs_cons_none] at hi hn
      have hg2 : nm ∉ l'.filter (fun nm => !isUnnamed nm) ∧
          (l'.filter (fun nm => !isUnnamed nm)).Nodup := by
        simpa [List.filter_cons, hu'] using hg
      refine ⟨fun hx => ?_, ih hg2.2 hi (fun k' hk' nm' hm' =>
        hn k' hk' nm' (List.mem_cons_of_mem _ hm'))⟩
      rcases mem_of_rel hrest hx with ⟨h1, h2⟩ | ⟨k', hk', he⟩
      · exact hg2.1 (by simp [List.mem_filter, h1, h2])
      · exact hn k' hk' nm List.mem_cons_self hu' he

/-- The trace of `label_internal` on a sequence of names. -/
def labelTrace (pfx : String) (l : List String) : List (String × Option Nat) :=
  labelGoI pfx [] l 0

theorem labelNames_eq (pfx : String) (l : List String) :
    labelNames pfx l = (labelTrace pfx l).map (·.1) := by
  simp [labelNames, labelTrace, labelGo_eq]

theorem length_of_rel {pfx : String} {l : List String} {out : List (String × Option Nat)}
    (hR : Aligned (Rel pfx) l out) : out.length = l.length := by
  induction hR with
  | nil => rfl
  | cons _ _ ih => simp [ih]

theorem labelNames_length (pfx : String) (l : List String) :
    (labelNames pfx l).length = l.length := by
  rw [labelNames_eq, List.length_map]
  exact length_of_rel (labelGoI_rel pfx l [] 0)

end SR.Cli
