/-
  Reading a cell after a history; the vocabulary of the table theorems of C16
  (`Properties/C16Table.lean`).
-/
import SRVerif.Proofs.TableRun
import SRVerif.Proofs.TableEntry
import SRVerif.Properties.C16

set_option linter.unusedSectionVars false

namespace SR.DP

open SR.Entry (sentinel better)

variable {τ : Type} [DecidableEq τ]

/-- The batches a history offers to the cell of normalised address `a` of a table of shape `ds`. -/
def offered (ds : List Dim) (a : List Key) (ops : List (Op τ)) : List (List (Cand τ)) :=
  ops.filterMap (writesTo ds a)

/-- Everything the read-only entry methods return through the chain of keys `ks`:
    `value()`, `infos()`, `info()`, `is_infinite()`, `len()`, `list(iter())`. -/
def readAll [Min τ] (T : Table τ) (ks : List Key) : List (Out τ) :=
  [(T.step (.value ks)).2, (T.step (.infos ks)).2, (T.step (.info ks)).2,
   (T.step (.isInf ks)).2, (T.step (.len ks)).2, (T.step (.iter ks)).2]

/-- What these methods return on an entry. -/
def entryOuts [Min τ] (e : Entry τ) : List (Out τ) :=
  [.value e.value, .infos e.infos, .info (info e), .bool (isInfinite e), .nat e.infos.length, .cands (iter e)]

/-- What they return on a cell that does not exist: infinitely bad, no tag. -/
def missingOuts (m : Merge) : List (Out τ) :=
  [.value (sentinel m), .infos [], .info none, .bool true, .nat 0, .cands []]

def cellIter : Cell τ → Out τ
  | some e => .cands (iter e)
  | none => .cands []

def cellOuts [Min τ] (m : Merge) : Cell τ → List (Out τ)
  | some e => entryOuts e
  | none => missingOuts m

theorem offered_append (ds : List Dim) (a : List Key) (ops ops' : List (Op τ)) :
    offered ds a (ops ++ ops') = offered ds a ops ++ offered ds a ops' := by
  simp [offered]

namespace Table

theorem withCell_valid_snd (T : Table τ) (ks a : List Key) (hne : ks ≠ []) (hlen : ks.length = T.dims.length)
    (ha : addr T.dims ks = .ok a) (e : PyErr) (k : Table τ → Cell τ → Out τ) :
    (T.withCell ks e k).2 = k (T.withCell ks e k).1 (getCell T.cells a) := by
  obtain ⟨t2, h, _⟩ := withCell_valid T ks a hne hlen ha e k
  rw [h]

theorem withCell_valid_merge (T : Table τ) (ks a : List Key) (hne : ks ≠ []) (hlen : ks.length = T.dims.length)
    (ha : addr T.dims ks = .ok a) (e : PyErr) (k : Table τ → Cell τ → Out τ) :
    (T.withCell ks e k).1.merge = T.merge := by
  obtain ⟨t2, h, hm⟩ := withCell_valid T ks a hne hlen ha e k
  rw [h]; exact hm

/-- Through a complete valid chain of keys the read-only methods observe the cell, and nothing else. -/
theorem readAll_valid [Min τ] (T : Table τ) (ks a : List Key) (hne : ks ≠ []) (hlen : ks.length = T.dims.length)
    (ha : addr T.dims ks = .ok a) : readAll T ks = cellOuts T.merge (getCell T.cells a) := by
  unfold readAll
  have h6 : (T.step (.iter ks)).2 = cellIter (getCell T.cells a) := by
    simp only [step, index_valid T ks a hne hlen ha]
    have g2 := getReal_snd (T.walk ks.dropLast).1 ks
    rw [walk_dims, ha, walk_cells] at g2
    cases hr : (T.walk ks.dropLast).1.getReal ks with
    | mk t6 c =>
      rw [hr] at g2
      simp only [Except.map] at g2
      subst g2
      cases getCell T.cells a <;> rfl
  rw [h6]
  simp only [step]
  rw [withCell_valid_snd T ks a hne hlen ha, withCell_valid_snd T ks a hne hlen ha,
    withCell_valid_snd T ks a hne hlen ha, withCell_valid_snd T ks a hne hlen ha,
    withCell_valid_snd T ks a hne hlen ha, withCell_valid_merge T ks a hne hlen ha]
  cases getCell T.cells a with
  | none => simp [cellOuts, missingOuts, cellIter, Cell.value, Cell.infos, sentinel]
  | some e => simp [cellOuts, entryOuts, cellIter, Cell.value, Cell.infos]

/-- Through a complete chain of keys that is not a valid address every one of them raises. -/
theorem readAll_invalid [Min τ] (T : Table τ) (ks : List Key) (hne : ks ≠ []) (hlen : ks.length = T.dims.length)
    (e : PyErr) (ha : addr T.dims ks = .error e) : readAll T ks = List.replicate 6 (.err e) := by
  unfold readAll
  have hv := withCell_invalid T ks hne hlen e ha
  have h6 : (T.step (.iter ks)).2 = .err e := by
    simp only [step]
    rcases index_invalid T ks hne hlen with ⟨a', _, hi⟩ | ⟨e'', he, hi⟩
    · rw [hi]
      simp only
      have g2 := getReal_snd (T.walk ks.dropLast).1 ks
      rw [walk_dims, ha] at g2
      cases hr : (T.walk ks.dropLast).1.getReal ks with
      | mk t6 c =>
        rw [hr] at g2
        simp only [Except.map] at g2
        subst g2
        rfl
    · rw [hi]
      rw [ha] at he
      injection he with he
      subst he
      rfl
  rw [h6]
  simp only [step, hv]
  rfl

/-- A write that is offered to some cell succeeds. -/
theorem step_write_ok [Min τ] (T : Table τ) (op : Op τ) (a : List Key) (b : List (Cand τ))
    (hw : writesTo T.dims a op = some b) : (T.step op).2 = .unit := by
  have hupd : ∀ (t : Table τ) (key : List Key) (bb : List (Cand τ)), t.dims = T.dims →
      addr T.dims key = .ok a → (t.updateAt key bb).2 = .ok () := by
    intro t key bb hd ha
    unfold updateAt
    split
    · have h2 := walk_snd t key
      rw [hd, ha] at h2
      cases hwk : t.walk key with
      | mk t' r => rw [hwk] at h2; simp only at h2; subst h2; rfl
    · rfl
  cases op with
  | set pre k c =>
    simp only [writesTo] at hw
    split at hw
    · rename_i hc
      obtain ⟨hl, ha⟩ := hc
      have hs : pre.length < T.dims.length := by simp at hl; omega
      simp only [step, index_short T pre hs, setitem]
      rw [if_pos (by simpa using hl)]
      have := hupd T (pre ++ [k]) [c] rfl ((isAddr_iff _ _ _).mp ha)
      cases hu : T.updateAt (pre ++ [k]) [c] with
      | mk t2 r => rw [hu] at this; simp only at this; subst this; rfl
    · simp at hw
  | update ks bb =>
    simp only [writesTo] at hw
    split at hw
    · rename_i hc
      obtain ⟨hne, hl, ha⟩ := hc
      simp only [step, index_valid T ks a hne hl ((isAddr_iff _ _ _).mp ha)]
      have := hupd (T.walk ks.dropLast).1 ks bb rfl ((isAddr_iff _ _ _).mp ha)
      cases hu : (T.walk ks.dropLast).1.updateAt ks bb with
      | mk t2 r => rw [hu] at this; simp only at this; subst this; rfl
    · simp at hw
  | _ => simp [writesTo] at hw

end Table

end SR.DP
