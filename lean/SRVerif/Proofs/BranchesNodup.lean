/-
  Uniqueness of branch keys: the keys of `fullPlan` are pairwise distinct
  (each object node is processed in exactly one species pass, each step owns
  its keys, a chain of `_add_losses` visits each species once), hence no
  object node and no pseudo-gene has a second branch, in any species.
  No validity hypothesis is needed.
-/
import SRVerif.Proofs.BranchesPlan
import Mathlib.Data.List.Nodup

namespace SR.Layout

open SR

def pkeys (pl : List (Path × Branch)) : List Key := pl.map (·.2.key)

@[simp] theorem pkeys_append (a b : List (Path × Branch)) : pkeys (a ++ b) = pkeys a ++ pkeys b := by
  simp [pkeys]

@[simp] theorem pkeys_nil : pkeys [] = [] := rfl

theorem mem_pkeys {k : Key} {pl : List (Path × Branch)} :
    k ∈ pkeys pl ↔ ∃ e ∈ pl, e.2.key = k := by
  simp [pkeys]

/-! ### One chain -/

/-- Hypothesis-free facts about a chain: loss branches keyed by (lineage,
    species), species strictly shorter than the start and of strictly
    decreasing length. -/
theorem chainPlan_keys (g : Path) (end_ : Option Path) :
    ∀ (rp : List Nat) (prev : Key) (pl : List (Path × Branch)) (k : Key),
      chainPlan g end_ rp prev = some (pl, k) →
      (∀ e ∈ pl, e.2.key = .loss g e.1 ∧ e.2.kind = .loss ∧ e.1.length < rp.length) ∧
      (pl.map (·.1)).Pairwise (fun a b => b.length < a.length) := by
  intro rp
  induction rp with
  | nil =>
    intro prev pl k h
    simp only [chainPlan] at h
    split at h
    · simp only [Option.some.injEq, Prod.mk.injEq] at h
      obtain ⟨rfl, rfl⟩ := h
      simp
    · cases h
  | cons i rest ih =>
    intro prev pl k h
    simp only [chainPlan] at h
    by_cases he : some rest.reverse = end_
    · simp only [he, if_true, Option.some.injEq, Prod.mk.injEq] at h
      obtain ⟨rfl, rfl⟩ := h
      simp
    · simp only [he, if_false] at h
      cases hc : chainPlan g end_ rest (.loss g rest.reverse) with
      | none => simp [hc] at h
      | some x =>
        obtain ⟨l, k'⟩ := x
        simp only [hc, Option.some.injEq, Prod.mk.injEq] at h
        obtain ⟨rfl, rfl⟩ := h
        obtain ⟨f1, f2⟩ := ih _ _ _ hc
        refine ⟨?_, ?_⟩
        · intro e he'
          simp only [List.mem_cons] at he'
          rcases he' with rfl | he'
          · exact ⟨rfl, rfl, by simp⟩
          · obtain ⟨a, b, c⟩ := f1 e he'
            exact ⟨a, b, by simp only [List.length_cons]; omega⟩
        · simp only [List.map_cons, List.pairwise_cons]
          refine ⟨?_, f2⟩
          intro a ha
          simp only [List.mem_map] at ha
          obtain ⟨e, he', rfl⟩ := ha
          have := (f1 e he').2.2
          simpa using this

theorem chain_pkeys_nodup {g : Path} {end_ : Option Path} {rp : List Nat} {prev : Key}
    {pl : List (Path × Branch)} {k : Key} (h : chainPlan g end_ rp prev = some (pl, k)) :
    (pkeys pl).Nodup := by
  obtain ⟨f1, f2⟩ := chainPlan_keys g end_ rp prev pl k h
  have hk : pkeys pl = (pl.map (·.1)).map (Key.loss g) := by
    simp only [pkeys, List.map_map]
    apply List.map_congr_left
    intro e he
    exact (f1 e he).1
  rw [hk]
  apply List.Nodup.map
  · intro a b hab; cases hab; rfl
  · refine List.Pairwise.imp ?_ f2
    intro a b hlt hab
    subst hab
    omega

theorem chain_pkeys_form {g : Path} {end_ : Option Path} {rp : List Nat} {prev : Key}
    {pl : List (Path × Branch)} {k : Key} (h : chainPlan g end_ rp prev = some (pl, k)) :
    ∀ e ∈ pl, e.2.key = .loss g e.1 ∧ e.2.kind = .loss :=
  fun e he => ⟨((chainPlan_keys g end_ rp prev pl k h).1 e he).1,
    ((chainPlan_keys g end_ rp prev pl k h).1 e he).2.1⟩

/-! ### One step -/

/-- Shape of a branch inserted by the step of object node `p` in species `s`. -/
def StepKey (s p : Path) (e : Path × Branch) : Prop :=
  (e.2.key = .gene p ∧ e.2.kind ≠ .loss ∧ e.1 = s) ∨
  (∃ i, e.2.key = .loss (p ++ [i]) e.1 ∧ e.2.kind = .loss)

theorem two_chains_nodup {eA eB : Option Path} {rA rB : List Nat} {pA pB : Key}
    {plA plB : List (Path × Branch)} {kA kB : Key} {s p : Path} {b : Branch} {i j : Nat}
    (hA : chainPlan (p ++ [i]) eA rA pA = some (plA, kA))
    (hB : chainPlan (p ++ [j]) eB rB pB = some (plB, kB)) (hij : i ≠ j)
    (hb : b.key = .gene p) (hbk : b.kind ≠ .loss) :
    (pkeys (plA ++ (plB ++ [(s, b)]))).Nodup ∧ ∀ e ∈ plA ++ (plB ++ [(s, b)]), StepKey s p e := by
  have fA := chain_pkeys_form hA
  have fB := chain_pkeys_form hB
  refine ⟨?_, ?_⟩
  · simp only [pkeys_append]
    rw [List.nodup_append, List.nodup_append]
    refine ⟨chain_pkeys_nodup hA, ⟨chain_pkeys_nodup hB, by simp [pkeys], ?_⟩, ?_⟩
    · intro a ha c hc
      obtain ⟨e, he, rfl⟩ := mem_pkeys.1 ha
      simp only [pkeys, List.map_cons, List.map_nil, List.mem_singleton] at hc
      subst hc
      rw [(fB e he).1, hb]; simp
    · intro a ha c hc
      obtain ⟨e, he, rfl⟩ := mem_pkeys.1 ha
      rw [(fA e he).1]
      rcases List.mem_append.1 hc with hc | hc
      · obtain ⟨e', he', rfl⟩ := mem_pkeys.1 hc
        rw [(fB e' he').1]
        intro h
        simp only [Key.loss.injEq] at h
        have := List.append_inj' h.1 rfl
        simp at this
        exact hij this
      · simp only [pkeys, List.map_cons, List.map_nil, List.mem_singleton] at hc
        subst hc
        rw [hb]; simp
  · intro e he
    simp only [List.mem_append, List.mem_singleton] at he
    rcases he with he | he | rfl
    · exact Or.inr ⟨i, fA e he⟩
    · exact Or.inr ⟨j, fB e he⟩
    · exact Or.inl ⟨hb, hbk, rfl⟩

theorem one_chain_nodup {eA : Option Path} {rA : List Nat} {pA : Key}
    {plA : List (Path × Branch)} {kA : Key} {s p : Path} {b : Branch} {i : Nat}
    (hA : chainPlan (p ++ [i]) eA rA pA = some (plA, kA))
    (hb : b.key = .gene p) (hbk : b.kind ≠ .loss) :
    (pkeys (plA ++ [(s, b)])).Nodup ∧ ∀ e ∈ plA ++ [(s, b)], StepKey s p e := by
  have hB : chainPlan (p ++ [i + 1]) none [] (.gene p) = some ([], .gene p) := by simp [chainPlan]
  have := two_chains_nodup (s := s) hA hB (by omega) hb hbk
  simpa using this

theorem nodePlan_keys {s p : Path} {sub : Sol} {pl : List (Path × Branch)} {cons : List Key}
    (h : nodePlan s p sub = some (pl, cons)) :
    (pkeys pl).Nodup ∧ ∀ e ∈ pl, StepKey s p e := by
  cases sub with
  | leaf sp f =>
    simp only [nodePlan, Option.some.injEq, Prod.mk.injEq] at h
    obtain ⟨rfl, rfl⟩ := h
    refine ⟨by simp [pkeys], ?_⟩
    intro e he
    simp only [List.mem_singleton] at he
    subst he
    exact Or.inl ⟨rfl, by simp, rfl⟩
  | node sp f l r =>
    simp only [nodePlan] at h
    cases hev : internalEvent s l.sp r.sp with
    | leaf => simp [hev] at h
    | invalid => simp [hev] at h
    | spec =>
      simp only [hev] at h
      by_cases hsw : Path.isAnc (s ++ [0]) r.sp = true
      · simp only [hsw, if_true] at h
        cases h1 : chainPlan (p ++ [1]) (some s) r.sp.reverse (.gene (p ++ [1])) with
        | none => simp [h1] at h
        | some x1 =>
          obtain ⟨pl1, k1⟩ := x1
          cases h2 : chainPlan (p ++ [0]) (some s) l.sp.reverse (.gene (p ++ [0])) with
          | none => simp [h1, h2] at h
          | some x2 =>
            obtain ⟨pl2, k2⟩ := x2
            simp only [h1, h2, Option.some.injEq, Prod.mk.injEq] at h
            obtain ⟨rfl, rfl⟩ := h
            exact two_chains_nodup h1 h2 (by omega) rfl (by simp)
      · have hsw' : Path.isAnc (s ++ [0]) r.sp = false := by simpa using hsw
        simp only [hsw', Bool.false_eq_true, if_false] at h
        cases h1 : chainPlan (p ++ [0]) (some s) l.sp.reverse (.gene (p ++ [0])) with
        | none => simp [h1] at h
        | some x1 =>
          obtain ⟨pl1, k1⟩ := x1
          cases h2 : chainPlan (p ++ [1]) (some s) r.sp.reverse (.gene (p ++ [1])) with
          | none => simp [h1, h2] at h
          | some x2 =>
            obtain ⟨pl2, k2⟩ := x2
            simp only [h1, h2, Option.some.injEq, Prod.mk.injEq] at h
            obtain ⟨rfl, rfl⟩ := h
            exact two_chains_nodup h1 h2 (by omega) rfl (by simp)
    | dup =>
      simp only [hev] at h
      cases h1 : chainPlan (p ++ [0]) (Path.up s) l.sp.reverse (.gene (p ++ [0])) with
      | none => simp [h1] at h
      | some x1 =>
        obtain ⟨pl1, k1⟩ := x1
        cases h2 : chainPlan (p ++ [1]) (Path.up s) r.sp.reverse (.gene (p ++ [1])) with
        | none => simp [h1, h2] at h
        | some x2 =>
          obtain ⟨pl2, k2⟩ := x2
          simp only [h1, h2, Option.some.injEq, Prod.mk.injEq] at h
          obtain ⟨rfl, rfl⟩ := h
          exact two_chains_nodup h1 h2 (by omega) rfl (by simp)
    | hgt =>
      simp only [hev] at h
      by_cases hk : Path.isAnc s l.sp = true
      · simp only [hk, if_true] at h
        cases h1 : chainPlan (p ++ [0]) (Path.up s) l.sp.reverse (.gene (p ++ [0])) with
        | none => simp [h1] at h
        | some x1 =>
          obtain ⟨pl1, k1⟩ := x1
          simp only [h1, Option.some.injEq, Prod.mk.injEq] at h
          obtain ⟨rfl, rfl⟩ := h
          exact one_chain_nodup h1 rfl (by simp)
      · have hk' : Path.isAnc s l.sp = false := by simpa using hk
        simp only [hk', Bool.false_eq_true, if_false] at h
        cases h1 : chainPlan (p ++ [1]) (Path.up s) r.sp.reverse (.gene (p ++ [1])) with
        | none => simp [h1] at h
        | some x1 =>
          obtain ⟨pl1, k1⟩ := x1
          simp only [h1, Option.some.injEq, Prod.mk.injEq] at h
          obtain ⟨rfl, rfl⟩ := h
          exact one_chain_nodup h1 rfl (by simp)

theorem nodePlanL_keys (s p : Path) (sub : Sol) :
    (pkeys (nodePlanL s p sub)).Nodup ∧ ∀ e ∈ nodePlanL s p sub, StepKey s p e := by
  unfold nodePlanL
  cases h : nodePlan s p sub with
  | none => simp
  | some x => obtain ⟨pl, cons⟩ := x; exact nodePlan_keys h

theorem StepKey.owner {s p : Path} {e : Path × Branch} (h : StepKey s p e) : e.2.key.owner = p := by
  rcases h with ⟨h, _⟩ | ⟨i, h, _⟩
  · rw [h]; rfl
  · rw [h]; exact owner_loss_child p i _

/-! ### The object nodes have pairwise distinct paths -/

theorem genesPost_paths_nodup : ∀ (sol : Sol) (p0 : Path), ((genesPost sol p0).map (·.1)).Nodup := by
  intro sol
  induction sol with
  | leaf s f => intro p0; simp [genesPost]
  | node s f l r ihl ihr =>
    intro p0
    simp only [genesPost, List.map_append, List.map_cons, List.map_nil]
    rw [List.nodup_append, List.nodup_append]
    refine ⟨⟨ihl _, ihr _, ?_⟩, by simp, ?_⟩
    · intro a ha b hb hab
      subst hab
      simp only [List.mem_map] at ha hb
      obtain ⟨⟨pa, sa⟩, ha, rfl⟩ := ha
      obtain ⟨⟨pb, sb⟩, hb, hpb⟩ := hb
      obtain ⟨qa, rfl, _⟩ := (mem_genesPost l _ _ _).1 ha
      obtain ⟨qb, rfl, _⟩ := (mem_genesPost r _ _ _).1 hb
      simp only [List.append_assoc] at hpb
      have := List.append_cancel_left hpb
      simp at this
    · intro a ha b hb hab
      subst hab
      simp only [List.mem_singleton] at hb
      simp only [List.mem_append, List.mem_map] at ha
      rcases ha with ⟨⟨pa, sa⟩, ha, rfl⟩ | ⟨⟨pa, sa⟩, ha, rfl⟩
      · obtain ⟨qa, rfl, _⟩ := (mem_genesPost l _ _ _).1 ha
        have := congrArg List.length hb
        simp at this
      · obtain ⟨qa, rfl, _⟩ := (mem_genesPost r _ _ _).1 ha
        have := congrArg List.length hb
        simp at this

/-! ### The passes -/

theorem mem_passPlan {s : Path} {G : List (Path × Sol)} {e : Path × Branch} :
    e ∈ passPlan s G ↔ ∃ g ∈ G, g.2.sp = s ∧ e ∈ nodePlanL s g.1 g.2 := by
  simp only [passPlan, List.mem_flatMap, List.mem_filter, decide_eq_true_eq]
  constructor
  · rintro ⟨g, ⟨h1, h2⟩, h3⟩; exact ⟨g, h1, h2, h3⟩
  · rintro ⟨g, h1, h2, h3⟩; exact ⟨g, ⟨h1, h2⟩, h3⟩

theorem passPlan_nodup (s : Path) (G : List (Path × Sol)) (hG : (G.map (·.1)).Nodup) :
    (pkeys (passPlan s G)).Nodup := by
  unfold passPlan pkeys
  rw [List.map_flatMap, List.nodup_flatMap]
  refine ⟨fun g _ => (nodePlanL_keys s g.1 g.2).1, ?_⟩
  apply List.Pairwise.filter
  rw [List.Nodup, List.pairwise_map] at hG
  refine List.Pairwise.imp ?_ hG
  intro g g' hne
  simp only [Function.onFun]
  intro k hk hk'
  simp only [List.mem_map] at hk hk'
  obtain ⟨e, he, rfl⟩ := hk
  obtain ⟨e', he', hkk⟩ := hk'
  have h1 := ((nodePlanL_keys s g.1 g.2).2 e he).owner
  have h2 := ((nodePlanL_keys s g'.1 g'.2).2 e' he').owner
  rw [hkk, h1] at h2
  exact hne h2

theorem fullPlan_nodup (sol : Sol) (L : List Path) (hL : L.Nodup) : (pkeys (fullPlan sol L)).Nodup := by
  unfold fullPlan pkeys
  rw [List.map_flatMap, List.nodup_flatMap]
  refine ⟨fun s _ => passPlan_nodup s _ (genesPost_paths_nodup sol []), ?_⟩
  refine List.Pairwise.imp ?_ hL
  intro s s' hne
  simp only [Function.onFun]
  intro k hk hk'
  simp only [List.mem_map] at hk hk'
  obtain ⟨e, he, rfl⟩ := hk
  obtain ⟨e', he', hkk⟩ := hk'
  obtain ⟨g, hg, hsp, hin⟩ := mem_passPlan.1 he
  obtain ⟨g', hg', hsp', hin'⟩ := mem_passPlan.1 he'
  have h1 := ((nodePlanL_keys s g.1 g.2).2 e hin).owner
  have h2 := ((nodePlanL_keys s' g'.1 g'.2).2 e' hin').owner
  rw [hkk, h1] at h2
  have := List.inj_on_of_nodup_map (genesPost_paths_nodup sol []) hg hg' h2
  subst this
  exact hne (hsp.symm.trans hsp')

/-! ### Projection on the species -/

theorem nodup_flatMap_planAt {pl : List (Path × Branch)} {L : List Path} (hpl : (pkeys pl).Nodup)
    (hL : L.Nodup) : (L.flatMap fun t => keysOf (planAt t pl)).Nodup := by
  rw [List.nodup_flatMap]
  refine ⟨?_, ?_⟩
  · intro t _
    have : keysOf (planAt t pl) = pkeys (pl.filter fun e => e.1 = t) := by
      simp [keysOf, planAt, pkeys, List.map_map]
    rw [this]
    exact hpl.sublist ((List.filter_sublist).map _)
  · refine List.Pairwise.imp ?_ hL
    intro t t' hne
    simp only [Function.onFun]
    intro k hk hk'
    simp only [keysOf, List.mem_map] at hk hk'
    obtain ⟨b, hb, rfl⟩ := hk
    obtain ⟨b', hb', hkk⟩ := hk'
    have := List.inj_on_of_nodup_map hpl (mem_planAt.1 hb') (mem_planAt.1 hb) hkk
    simp only [Prod.mk.injEq] at this
    exact hne this.1.symm

/-- **Uniqueness**: after a successful `_compute_branches`, all the branch
    keys, over all species, are pairwise distinct. -/
theorem computeBranches_keys_nodup {S : RTree} {sol : Sol} {st : LState}
    (h : computeBranches S sol = .ok st) :
    (S.postorder.flatMap fun t => keysOf (brs st t)).Nodup := by
  obtain ⟨_, _, hb⟩ := computeBranches_plan h
  have : (fun t => keysOf (brs st t)) = fun t => keysOf (planAt t (fullPlan sol S.postorder)) := by
    funext t; rw [hb t]
  rw [this]
  exact nodup_flatMap_planAt (fullPlan_nodup sol _ (postorder_nodup S)) (postorder_nodup S)

end SR.Layout
