/-
  C08, part 7: equality up to child order versus clades.

  * trees equal up to child order have the same clades
    (`BinT.Equiv.inner`), hence refine the same trees (`Ref.of_equiv`): "the
    binary refinements of `t` modulo child order" is well defined;
  * `binarize` of a binary tree is that tree (`binarize_toN`);
  * hence, for distinct leaves, a binary tree carrying the leaves and the
    clades of a binary tree `b` is `b` up to child order
    (`equiv_of_ref_toN`): `BinT.Equiv` is equality of the clade sets, the
    canonical form `Spec.canon` the harness compares.
-/
import SRVerif.Proofs.BinarizeCompleteTree

namespace SR.Bin

open BTree

/-- Leaf sets of the internal nodes of an arrangement of leaves. -/
def BTree.clades : BTree Nat → List (List Nat)
  | .item _ => []
  | .node l r => (l.items ++ r.items) :: (l.clades ++ r.clades)

theorem BinT.clades_skel (b : BinT) : b.skel.clades = b.inner.map Prod.fst := by
  induction b with
  | leaf i => rfl
  | node a l r ihl ihr =>
    simp [BinT.skel, BTree.clades, BinT.inner, BinT.items_skel, ihl, ihr]

theorem BTree.Equiv.clades {s t : BTree Nat} (h : BTree.Equiv s t) :
    ∀ c ∈ s.clades, ∃ c' ∈ t.clades, c'.Perm c := by
  induction h with
  | item a => intro c hc; simp [BTree.clades] at hc
  | congr h1 h2 ih1 ih2 =>
    intro c hc
    simp only [BTree.clades, List.mem_cons, List.mem_append] at hc
    rcases hc with rfl | hc | hc
    · exact ⟨_, by simp [BTree.clades], (h1.items_perm.append h2.items_perm).symm⟩
    · obtain ⟨c', hc', hp⟩ := ih1 c hc
      exact ⟨c', by simp [BTree.clades, hc'], hp⟩
    · obtain ⟨c', hc', hp⟩ := ih2 c hc
      exact ⟨c', by simp [BTree.clades, hc'], hp⟩
  | swap h1 h2 ih1 ih2 =>
    intro c hc
    simp only [BTree.clades, List.mem_cons, List.mem_append] at hc
    rcases hc with rfl | hc | hc
    · exact ⟨_, by simp [BTree.clades],
        ((h1.items_perm.append h2.items_perm).trans List.perm_append_comm).symm⟩
    · obtain ⟨c', hc', hp⟩ := ih1 c hc
      exact ⟨c', by simp [BTree.clades, hc'], hp⟩
    · obtain ⟨c', hc', hp⟩ := ih2 c hc
      exact ⟨c', by simp [BTree.clades, hc'], hp⟩

/-- Trees equal up to child order have the same clades. -/
theorem BinT.Equiv.inner {a b : BinT} (h : BinT.Equiv a b) :
    ∀ c ∈ a.inner, ∃ c' ∈ b.inner, c'.1.Perm c.1 := by
  intro c hc
  have hm : c.1 ∈ a.skel.clades := by
    rw [BinT.clades_skel]; exact List.mem_map.mpr ⟨c, hc, rfl⟩
  obtain ⟨L, hL, hp⟩ := BTree.Equiv.clades h c.1 hm
  rw [BinT.clades_skel] at hL
  obtain ⟨c', hc', rfl⟩ := List.mem_map.mp hL
  exact ⟨c', hc', hp⟩

theorem BinT.Equiv.symm {a b : BinT} (h : BinT.Equiv a b) : BinT.Equiv b a := BTree.Equiv.symm h

theorem BinT.Equiv.trans {a b c : BinT} (h1 : BinT.Equiv a b) (h2 : BinT.Equiv b c) :
    BinT.Equiv a c := BTree.Equiv.trans h1 h2

/-- Being a refinement of `t` does not depend on the order of children. -/
theorem Ref.of_equiv {b b' : BinT} {t : NTree} (h : Ref b t) (he : BinT.Equiv b b') : Ref b' t := by
  refine ⟨he.symm.leaves_perm.trans h.1, fun x hx => ?_⟩
  obtain ⟨x1, hx1, hp1⟩ := h.2 x hx
  obtain ⟨x2, hx2, hp2⟩ := he.inner x1 hx1
  exact ⟨x2, hx2, hp2.trans hp1⟩

/-! ### Binary input -/

theorem BinT.WF_toN (b : BinT) : b.toN.WF = true := by
  induction b with
  | leaf i => rfl
  | node a l r ihl ihr => simp [BinT.toN, NTree.WF, NTree.WFList, ihl, ihr]

/-- A binary tree is its own only refinement produced. -/
theorem binarize_toN (b : BinT) : binarize b.toN = [b] := by
  induction b with
  | leaf i => rfl
  | node a l r ihl ihr =>
    simp [BinT.toN, binarize, binarizeChildren, ihl, ihr, arrange, graft, subst, BinT.setAnn]

/-- For distinct leaves, a binary tree carrying the leaves and every clade of
    the binary tree `b` is `b` up to child order. -/
theorem equiv_of_ref_toN {b b' : BinT} (hnd : b.leaves.Nodup) (h : Ref b' b.toN) :
    BinT.Equiv b b' := by
  obtain ⟨u, hu, he⟩ := binarize_complete b.toN (BinT.WF_toN b)
    (by rw [BinT.leaves_toN]; exact hnd) b' h
  rw [binarize_toN, List.mem_singleton] at hu
  subst hu; exact he

theorem ref_toN_iff_equiv {b b' : BinT} (hnd : b.leaves.Nodup) :
    Ref b' b.toN ↔ BinT.Equiv b b' := by
  refine ⟨equiv_of_ref_toN hnd, fun he => ?_⟩
  refine Ref.of_equiv ⟨by rw [BinT.leaves_toN], fun x hx => ?_⟩ he
  rw [BinT.inner_toN] at hx
  exact ⟨x, hx, .refl _⟩

/-! ### `Ref` is `Spec.IsRefinement` -/

theorem ref_of_isRefinement {b : BinT} {t : NTree} (h : Spec.IsRefinement b.toN t) : Ref b t := by
  obtain ⟨_, h1, h2⟩ := h
  rw [BinT.leaves_toN] at h1
  rw [BinT.inner_toN] at h2
  exact ⟨h1, h2⟩

theorem isRefinement_of_ref {b : BinT} {t : NTree} (h : Ref b t) : Spec.IsRefinement b.toN t :=
  ⟨BinT.isBinary_toN b, by rw [BinT.leaves_toN]; exact h.1, by rw [BinT.inner_toN]; exact h.2⟩

end SR.Bin
