/-
  The generic oracle adequacy (`Proofs/OptAdequacy.lean`) specialised to the UNORDERED
  mode (C03): `Spec.optimum … .unordered` against ALL solutions that are valid in the
  sense of `Spec.validSol .unordered` (valid events + `Spec.validUnLabels`).

  Two gaps between `Spec.validUnLabels` and the oracle's solution space `Spec.Feasible`:

  1. `validUnLabels` does not force the family list of an internal node to be sorted or
     duplicate-free, whereas `Spec.labelSpace .unordered` lists `sortNat (req ++ extra)`.
     `normSol` replaces every internal label `f` by `sortNat (dedup f)`: validity
     (`validRec_normSol`, `validUnLabels_normSol`) and the evaluated cost
     (`totalCost_normSol`: the evaluator only tests memberships, `subsetB`) are invariant,
     and a normalised valid solution is feasible.  `Normal σ` (every internal label
     strictly increasing) ⟺ `normSol σ = σ`.
  2. `validUnLabels` does not state `requiredContent ⊆ label`; it follows
     (`valid_required`): a family carried by a leaf below `p` and gained at or above `p`
     climbs from that leaf to `p` through `edgeOk .unordered` (child's families ⊆ parent's
     ∪ gains AT the child), since it is gained at none of the nodes strictly below `p`.

  Results:
  * `feasible_un_of_valid`   valid events + valid labels + allowed species ⟹
                             `Feasible … (normSol σ)`;
  * `valid_of_feasible_un`   feasible of finite oracle cost ⟹ valid events, valid labels,
                             allowed species, `Normal`;
  * `optimum_un_le_gen`, `optimum_un_attained`, `mem_optimum_un_sols`;
  * `speciesOk_iff_spAllowed`  the oracle-side and solver-side "allowed species" predicates
                             coincide;
  * `holdsRequired_of_valid`   `valid_required` at every node (`HoldsRequired`).
-/
import SRVerif.Proofs.OptAdequacyOrd
import SRVerif.Proofs.UnContentFeasible

namespace SR.Spec

open SR Cost Path

/-! ### Normalisation of the labels -/

/-- Sort and deduplicate the family list of every internal node (leaves are untouched:
    in a valid solution they already are `sortNat (dedup f)`). -/
def normSol : Sol → Sol
  | .leaf s g => .leaf s g
  | .node s f l r => .node s (sortNat (dedup f)) (normSol l) (normSol r)

/-- Every internal label is strictly increasing. -/
def Normal : Sol → Prop
  | .leaf _ _ => True
  | .node _ f l r => f.Pairwise (· < ·) ∧ Normal l ∧ Normal r

theorem normSol_sp (σ : Sol) : (normSol σ).sp = σ.sp := by cases σ <;> rfl

theorem mem_normSol_fam (σ : Sol) (x : Nat) : x ∈ (normSol σ).fam ↔ x ∈ σ.fam := by
  cases σ with
  | leaf s g => rfl
  | node s f l r => simp [normSol, Sol.fam, mem_sortNat, mem_dedup]

theorem sortNat_dedup_of_sorted {f : List Nat} (h : f.Pairwise (· < ·)) : sortNat (dedup f) = f :=
  eq_of_sorted (sortNat_sorted (nodup_dedup f)) h (fun x => by rw [mem_sortNat, mem_dedup])

theorem normal_normSol : ∀ σ : Sol, Normal (normSol σ)
  | .leaf _ _ => trivial
  | .node _ f l r => ⟨sortNat_sorted (nodup_dedup f), normal_normSol l, normal_normSol r⟩

theorem normSol_eq_of_normal : ∀ σ : Sol, Normal σ → normSol σ = σ
  | .leaf _ _, _ => rfl
  | .node s f l r, h => by
    simp only [normSol, sortNat_dedup_of_sorted h.1, normSol_eq_of_normal l h.2.1,
      normSol_eq_of_normal r h.2.2]

theorem normSol_eq_iff (σ : Sol) : normSol σ = σ ↔ Normal σ :=
  ⟨fun h => by rw [← h]; exact normal_normSol σ, normSol_eq_of_normal σ⟩

theorem normSol_idem (σ : Sol) : normSol (normSol σ) = normSol σ :=
  normSol_eq_of_normal _ (normal_normSol σ)

theorem validRec_normSol : ∀ (t : OTree) (σ : Sol), validRec t (normSol σ) = validRec t σ := by
  intro t
  induction t with
  | leaf sp f => intro σ; cases σ <;> rfl
  | node l r ihl ihr =>
    intro σ
    cases σ with
    | leaf s g => rfl
    | node s g sl sr => simp only [normSol, validRec, normSol_sp, ihl, ihr]

theorem recCost_normSol (c : Costs) : ∀ (t : OTree) (σ : Sol),
    recCost c t (normSol σ) = recCost c t σ := by
  intro t
  induction t with
  | leaf sp f => intro σ; cases σ <;> rfl
  | node l r ihl ihr =>
    intro σ
    cases σ with
    | leaf s g => rfl
    | node s g sl sr => simp only [normSol, SR.recCost_node, normSol_sp, ihl, ihr]

theorem subsetB_congr {a a' b b' : List Nat} (ha : ∀ x, x ∈ a ↔ x ∈ a') (hb : ∀ x, x ∈ b ↔ x ∈ b') :
    subsetB a b = subsetB a' b' := by
  rw [Bool.eq_iff_iff, subsetB_iff, subsetB_iff]
  exact ⟨fun h x hx => (hb x).mp (h x ((ha x).mpr hx)), fun h x hx => (hb x).mpr (h x ((ha x).mp hx))⟩

theorem localUnordLosses_congr (ev : Event) (k : Bool) {f f' fl fl' fr fr' : List Nat}
    (hf : ∀ x, x ∈ f ↔ x ∈ f') (hl : ∀ x, x ∈ fl ↔ x ∈ fl') (hr : ∀ x, x ∈ fr ↔ x ∈ fr') :
    localUnordLosses ev k f fl fr = localUnordLosses ev k f' fl' fr' := by
  simp only [localUnordLosses, subsetB_congr hf hl, subsetB_congr hf hr]

theorem unordLosses_normSol : ∀ σ : Sol, unordLosses (normSol σ) = unordLosses σ
  | .leaf _ _ => rfl
  | .node s f l r => by
    simp only [normSol, unordLosses, normSol_sp, unordLosses_normSol l, unordLosses_normSol r]
    rw [localUnordLosses_congr _ _ (f := sortNat (dedup f)) (f' := f)
      (fun x => by rw [mem_sortNat, mem_dedup]) (mem_normSol_fam l) (mem_normSol_fam r)]

/-- **The evaluated cost does not see the normalisation.** -/
theorem totalCost_normSol (c : Costs) (o : OTree) (σ : Sol) :
    totalCost c .unordered o (normSol σ) = totalCost c .unordered o σ := by
  simp only [totalCost, labelingCost, unordLosses_normSol, recCost_normSol]

/-! ### Validity of the labels, in terms of memberships -/

theorem edgeOk_un_iff {whole : OTree} {pc : Path} {f fc : List Nat} :
    edgeOk .unordered whole pc f fc = true ↔ ∀ x ∈ fc, x ∈ f ∨ x ∈ gainsAt whole pc := by
  simp [edgeOk, List.all_eq_true]

theorem validUnLabels_node_iff {whole : OTree} {p : Path} {ol or : OTree} {s : Path} {f : List Nat}
    {l r : Sol} :
    validUnLabels whole p (.node ol or) (.node s f l r) = true ↔
      (∀ x ∈ f, x ∈ allowedContent whole p) ∧
      (∀ x ∈ l.fam, x ∈ f ∨ x ∈ gainsAt whole (p ++ [0])) ∧
      (∀ x ∈ r.fam, x ∈ f ∨ x ∈ gainsAt whole (p ++ [1])) ∧
      validUnLabels whole (p ++ [0]) ol l = true ∧ validUnLabels whole (p ++ [1]) or r = true := by
  simp only [validUnLabels, Bool.and_eq_true, edgeOk_un_iff, List.all_eq_true, List.contains_iff_mem,
    and_assoc]

/-- **Valid labels stay valid under normalisation.** -/
theorem validUnLabels_normSol (whole : OTree) : ∀ (t : OTree) (p : Path) (σ : Sol),
    validUnLabels whole p t σ = true → validUnLabels whole p t (normSol σ) = true := by
  intro t
  induction t with
  | leaf sp f => intro p σ h; cases σ <;> exact h
  | node ol or ihl ihr =>
    intro p σ h
    cases σ with
    | leaf s g => simp [validUnLabels] at h
    | node s f l r =>
      rw [validUnLabels_node_iff] at h
      obtain ⟨h1, h2, h3, h4, h5⟩ := h
      simp only [normSol]
      rw [validUnLabels_node_iff]
      refine ⟨?_, ?_, ?_, ihl _ l h4, ihr _ r h5⟩
      · intro x hx; rw [mem_sortNat, mem_dedup] at hx; exact h1 x hx
      · intro x hx
        rw [mem_normSol_fam] at hx
        rw [mem_sortNat, mem_dedup]; exact h2 x hx
      · intro x hx
        rw [mem_normSol_fam] at hx
        rw [mem_sortNat, mem_dedup]; exact h3 x hx

theorem validSol_un_normSol (o : OTree) (σ : Sol) (h : validSol .unordered o σ = true) :
    validSol .unordered o (normSol σ) = true := by
  simp only [validSol, Bool.and_eq_true] at h ⊢
  exact ⟨by rw [validRec_normSol]; exact h.1, validUnLabels_normSol o o [] σ h.2⟩

/-! ### The required content is held: derived from validity -/

/-- **Every node of a validly labelled solution holds its required content**: a family
    carried by a leaf below `p` whose gain node is `p` or above is in the label at `p`. -/
theorem valid_required (whole : OTree) : ∀ (sub : OTree) (p : Path) (σ : Sol), IsSub whole p sub →
    validUnLabels whole p sub σ = true → ∀ x ∈ requiredContent whole p, x ∈ σ.fam := by
  intro sub
  induction sub with
  | leaf sp f0 =>
    intro p σ hsub hv x hx
    cases σ with
    | node => simp [validUnLabels] at hv
    | leaf s g =>
      simp only [validUnLabels, beq_iff_eq] at hv
      have := (mem_lcaSet (.node []) false whole (.leaf sp f0) p hsub x).mpr hx
      rw [annUn_leaf_lcaSet] at this
      simp only [Sol.fam, hv]
      exact this
  | node l r ihl ihr =>
    intro p σ hsub hv x hx
    cases σ with
    | leaf => simp [validUnLabels] at hv
    | node s f y z =>
      rw [validUnLabels_node_iff] at hv
      obtain ⟨_, h2, h3, h4, h5⟩ := hv
      obtain ⟨hl, hr⟩ := isSub_child hsub
      obtain ⟨hf, hanc, q, g, hm, ha, hxg⟩ := mem_requiredContent.mp hx
      simp only [Sol.fam]
      rcases below_child hsub hm ha with h0 | h1
      · have hreq : x ∈ requiredContent whole (p ++ [0]) :=
          mem_requiredContent.mpr ⟨hf, isAnc_trans hanc (isAnc_append p [0]), q, g, hm, h0, hxg⟩
        rcases h2 x (ihl _ y hl h4 x hreq) with h | h
        · exact h
        · exact absurd (mem_gainsAt.mp h).2 (ne_snoc_of_isAnc hanc)
      · have hreq : x ∈ requiredContent whole (p ++ [1]) :=
          mem_requiredContent.mpr ⟨hf, isAnc_trans hanc (isAnc_append p [1]), q, g, hm, h1, hxg⟩
        rcases h3 x (ihr _ z hr h5 x hreq) with h | h
        · exact h
        · exact absurd (mem_gainsAt.mp h).2 (ne_snoc_of_isAnc hanc)

/-! ### Valid ⟹ feasible (after normalisation) -/

theorem feasible_un_of_valid (S : RTree) (base : Bool) (whole : OTree) :
    ∀ (sub : OTree) (p : Path) (σ : Sol), IsSub whole p sub → validRec sub σ = true →
      validUnLabels whole p sub σ = true → SpeciesOk S base sub σ →
      Feasible S .unordered base whole p sub (normSol σ) := by
  intro sub
  induction sub with
  | leaf sp f0 =>
    intro p σ _ hv hl _
    cases σ with
    | node => simp [validRec] at hv
    | leaf s g =>
      simp only [validRec, validUnLabels, beq_iff_eq] at hv hl
      simp [normSol, Feasible, leafLabel, hv, hl]
  | node l r ihl ihr =>
    intro p σ hsub hv hl hs
    cases σ with
    | leaf => simp [validRec] at hv
    | node s f y z =>
      have hreq := valid_required whole _ p _ hsub hl
      simp only [validRec, Bool.and_eq_true] at hv
      rw [validUnLabels_node_iff] at hl
      obtain ⟨h1, _, _, h4, h5⟩ := hl
      obtain ⟨hs0, hsl, hsr⟩ := hs
      obtain ⟨hsubl, hsubr⟩ := isSub_child hsub
      simp only [normSol, Feasible]
      refine ⟨hs0, ?_, ihl _ y hsubl hv.1.2 h4 hsl, ihr _ z hsubr hv.2 h5 hsr⟩
      refine mem_labelSpace_of_between (sortNat_sorted (nodup_dedup f)) ?_ ?_
      · intro x hx; rw [mem_sortNat, mem_dedup]; exact hreq x hx
      · intro x hx; rw [mem_sortNat, mem_dedup] at hx; exact h1 x hx

/-! ### Feasible of finite cost ⟹ valid -/

theorem mem_labelSpace_un {whole : OTree} {p : Path} {f : List Nat}
    (h : f ∈ labelSpace .unordered whole p) :
    f.Pairwise (· < ·) ∧ ∀ x ∈ f, x ∈ allowedContent whole p := by
  simp only [labelSpace, List.mem_map] at h
  obtain ⟨extra, hex, rfl⟩ := h
  have hsub := (mem_sublists extra _).mp hex
  constructor
  · apply sortNat_sorted
    rw [List.nodup_append]
    refine ⟨nodup_requiredContent whole p,
      hsub.nodup ((nodup_allowedContent whole p).filter _), ?_⟩
    intro a ha b hb e
    subst e
    have := hsub.subset hb
    simp only [List.mem_filter, Bool.not_eq_true', List.contains_eq_mem,
      decide_eq_false_iff_not] at this
    exact this.2 ha
  · intro x hx
    rw [mem_sortNat, List.mem_append] at hx
    rcases hx with hx | hx
    · exact required_sub_allowed hx
    · exact (List.mem_filter.mp (hsub.subset hx)).1

theorem localCost_unordered_ne_inf {c : Costs} {whole : OTree} {p s : Path}
    {f : List Nat} {a : Path} {fa : List Nat} {b : Path} {fb : List Nat}
    (h : localCost c .unordered whole p s f a fa b fb ≠ .inf) :
    edgeOk .unordered whole (p ++ [0]) f fa = true ∧ edgeOk .unordered whole (p ++ [1]) f fb = true ∧
      internalEvent s a b ≠ .invalid := by
  unfold localCost at h
  split at h
  · exact absurd rfl h
  · rename_i hedge
    simp only [Bool.not_eq_true', Bool.and_eq_false_iff, not_or, Bool.not_eq_false] at hedge
    refine ⟨hedge.1, hedge.2, ?_⟩
    intro hev
    simp only [hev, localUnordLosses] at h
    exact h rfl

theorem valid_of_feasible_un (c : Costs) (S : RTree) (base : Bool) (whole : OTree) :
    ∀ (t : OTree) (p : Path) (σ : Sol), Feasible S .unordered base whole p t σ →
      specCost c .unordered whole p σ ≠ .inf →
      validRec t σ = true ∧ validUnLabels whole p t σ = true ∧ SpeciesOk S base t σ ∧ Normal σ := by
  intro t
  induction t with
  | leaf sp f =>
    intro p σ hf _
    cases σ with
    | node s g sl sr => simp [Feasible] at hf
    | leaf s g =>
      simp only [Feasible, leafLabel] at hf
      obtain ⟨rfl, rfl⟩ := hf
      simp [validRec, validUnLabels, SpeciesOk, Normal]
  | node l r ihl ihr =>
    intro p σ hf hfin
    cases σ with
    | leaf s g => simp [Feasible] at hf
    | node s g sl sr =>
      simp only [Feasible] at hf
      obtain ⟨hs, hg, hfl, hfr⟩ := hf
      simp only [specCost] at hfin
      obtain ⟨hloc, hfin'⟩ := add_ne_inf hfin
      obtain ⟨hfinl, hfinr⟩ := add_ne_inf hfin'
      obtain ⟨hel, her, hev⟩ := localCost_unordered_ne_inf hloc
      obtain ⟨vl, ll, sl', nl⟩ := ihl (p ++ [0]) sl hfl hfinl
      obtain ⟨vr, lr, sr', nr⟩ := ihr (p ++ [1]) sr hfr hfinr
      obtain ⟨hsorted, hall⟩ := mem_labelSpace_un hg
      refine ⟨?_, ?_, ⟨hs, sl', sr'⟩, ⟨hsorted, nl, nr⟩⟩
      · simp only [validRec, Bool.and_eq_true, bne_iff_ne, ne_eq]
        exact ⟨⟨hev, vl⟩, vr⟩
      · rw [validUnLabels_node_iff]
        exact ⟨hall, edgeOk_un_iff.mp hel, edgeOk_un_iff.mp her, ll, lr⟩

/-! ### The oracle against all valid solutions -/

theorem totalCost_unordered_eq_specCost (c : Costs) (o : OTree) (σ : Sol)
    (hv : validRec o σ = true) (hl : validUnLabels o [] o σ = true) :
    specCost c .unordered o [] σ = totalCost c .unordered o σ := by
  rw [specCost_eq_totalCostU c o o [] σ hl hv, totalCostU_eq]

variable (c : Costs) (S : RTree) (o : OTree)

/-- **Unordered oracle, lower bound**: the optimum is at most the evaluated cost of every
    solution with valid events, valid family placement and allowed species — whatever its
    labels look like as lists. -/
theorem optimum_un_le_gen (base keep : Bool) (pre : Option (List Nat)) (σ : Sol)
    (hv : validRec o σ = true) (hl : validUnLabels o [] o σ = true) (hs : SpeciesOk S base o σ) :
    (optimum c S .unordered base keep o pre).1 ≼ totalCost c .unordered o σ := by
  have hf := feasible_un_of_valid S base o o [] σ (isSub_root o) hv hl hs
  rw [← totalCost_normSol, ← totalCost_unordered_eq_specCost c o (normSol σ)
    (by rw [validRec_normSol]; exact hv) (validUnLabels_normSol o o [] σ hl)]
  exact optimum_le c S base .unordered keep o pre .unordered (by simp [modeDatas]) _ hf

/-- **Unordered oracle, attained**: a finite optimum is the evaluated cost of a valid
    (normal) solution with allowed species. -/
theorem optimum_un_attained (base keep : Bool) (pre : Option (List Nat))
    (h : (optimum c S .unordered base keep o pre).1 ≠ .inf) :
    ∃ σ, validSol .unordered o σ = true ∧ SpeciesOk S base o σ ∧ Normal σ ∧
      totalCost c .unordered o σ = (optimum c S .unordered base keep o pre).1 := by
  obtain ⟨md, hmd, σ, hf, hc⟩ := optimum_attained c S base .unordered keep o pre h
  simp only [modeDatas, List.mem_singleton] at hmd
  subst hmd
  obtain ⟨hv, hl, hs, hn⟩ := valid_of_feasible_un c S base o o [] σ hf (by rw [hc]; exact h)
  refine ⟨σ, ?_, hs, hn, ?_⟩
  · simp only [validSol, Bool.and_eq_true]; exact ⟨hv, hl⟩
  · rw [← totalCost_unordered_eq_specCost c o σ hv hl, hc]

/-- **Unordered oracle, optimal set**: exactly the NORMAL valid solutions with allowed
    species whose evaluated cost is the finite optimum. -/
theorem mem_optimum_un_sols (base : Bool) (pre : Option (List Nat)) (σ : Sol) :
    σ ∈ (optimum c S .unordered base true o pre).2 ↔
      validSol .unordered o σ = true ∧ SpeciesOk S base o σ ∧ Normal σ ∧
      totalCost c .unordered o σ = (optimum c S .unordered base true o pre).1 ∧
      (optimum c S .unordered base true o pre).1 ≠ .inf := by
  rw [mem_optimum_sols]
  constructor
  · rintro ⟨md, hmd, hf, hc, hfin⟩
    simp only [modeDatas, List.mem_singleton] at hmd
    subst hmd
    obtain ⟨hv, hl, hs, hn⟩ := valid_of_feasible_un c S base o o [] σ hf (by rw [hc]; exact hfin)
    refine ⟨?_, hs, hn, ?_, hfin⟩
    · simp only [validSol, Bool.and_eq_true]; exact ⟨hv, hl⟩
    · rw [← totalCost_unordered_eq_specCost c o σ hv hl, hc]
  · rintro ⟨hvs, hs, hn, hc, hfin⟩
    simp only [validSol, Bool.and_eq_true] at hvs
    obtain ⟨hv, hl⟩ := hvs
    have hf := feasible_un_of_valid S base o o [] σ (isSub_root o) hv hl hs
    rw [normSol_eq_of_normal σ hn] at hf
    exact ⟨.unordered, by simp [modeDatas], hf,
      by rw [totalCost_unordered_eq_specCost c o σ hv hl, hc], hfin⟩

/-! ### Allowed species: the two formulations -/

/-- `SpeciesOk` (oracle side) and `spAllowed` (solver side) are the same predicate. -/
theorem speciesOk_iff_spAllowed (S : RTree) (base : Bool) : ∀ (t : OTree) (σ : Sol),
    SpeciesOk S base t σ ↔ spAllowed S base t σ := by
  intro t
  induction t with
  | leaf sp f => intro σ; cases σ <;> simp [SpeciesOk, spAllowed]
  | node l r ihl ihr =>
    intro σ
    cases σ with
    | leaf s g => simp [SpeciesOk, spAllowed]
    | node s g sl sr =>
      simp only [SpeciesOk, spAllowed, ihl, ihr]
      cases base with
      | true => simp [speciesSpace]
      | false =>
        simp only [speciesSpace, Bool.false_eq_true, if_false, allSpecies]
        rw [RTree.mem_preorder_iff]

/-- Every node of a validly labelled solution holds its required content (all nodes). -/
def HoldsRequired (whole : OTree) : Path → Sol → Prop
  | p, .leaf _ f => ∀ x ∈ requiredContent whole p, x ∈ f
  | p, .node _ f l r =>
    (∀ x ∈ requiredContent whole p, x ∈ f) ∧
      HoldsRequired whole (p ++ [0]) l ∧ HoldsRequired whole (p ++ [1]) r

theorem holdsRequired_of_valid (whole : OTree) : ∀ (sub : OTree) (p : Path) (σ : Sol),
    IsSub whole p sub → validUnLabels whole p sub σ = true → HoldsRequired whole p σ := by
  intro sub
  induction sub with
  | leaf sp f0 =>
    intro p σ hsub hv
    cases σ with
    | node => simp [validUnLabels] at hv
    | leaf s g => exact valid_required whole _ p _ hsub hv
  | node l r ihl ihr =>
    intro p σ hsub hv
    cases σ with
    | leaf => simp [validUnLabels] at hv
    | node s f y z =>
      have h0 := valid_required whole _ p _ hsub hv
      rw [validUnLabels_node_iff] at hv
      obtain ⟨hl, hr⟩ := isSub_child hsub
      exact ⟨h0, ihl _ y hl hv.2.2.2.1, ihr _ z hr hv.2.2.2.2⟩

end SR.Spec
