/-
  The `FULL_LOSS` pseudo-genes of `_compute_branches` against the evaluator's
  event log: on a valid reconciliation the multiset of (lineage, species) of
  the loss branches is the multiset of full-loss records of the specification
  (`Spec/EventLog.lean`: every species crossed by a vertical branch, the
  speciation's own species excepted), lineage by lineage.
-/
import SRVerif.Proofs.BranchesNodup
import SRVerif.Proofs.EventLogCost
import Mathlib.Data.List.Perm.Basic
import Mathlib.Data.List.Induction

namespace SR.Layout

open SR SR.EventLog

/-! ### Specification: full-loss records with their lineage -/

/-- Full-loss records at one internal node `p` mapped to `s`, children mapped
    to `a`, `b`: `(lineage, species crossed)`, read off `EventLog.vertical`
    exactly as `EventLog.nodeRecLog` does. -/
def nodeLossRecs (p s a b : Path) : List (Path × Path) :=
  match classify s a b with
  | .spec => ((vertical s a).drop 1).map (fun t => (p ++ [0], t)) ++
             ((vertical s b).drop 1).map (fun t => (p ++ [1], t))
  | .invalid => []
  | _ => (vertical s a).map (fun t => (p ++ [0], t)) ++ (vertical s b).map (fun t => (p ++ [1], t))

/-- All full-loss records of a solution whose root has object path `p`
    (pre-order, like `EventLog.eventLog`). -/
def lossRecs : Sol → Path → List (Path × Path)
  | .leaf _ _, _ => []
  | .node s _ l r, p => nodeLossRecs p s l.sp r.sp ++ (lossRecs l (p ++ [0]) ++ lossRecs r (p ++ [1]))

theorem lossSpecies_append (a b : List Ev) : lossSpecies (a ++ b) = lossSpecies a ++ lossSpecies b := by
  simp [lossSpecies, List.filterMap_append]

theorem lossSpecies_map_floss (l : List Path) : lossSpecies (l.map .floss) = l := by
  induction l with
  | nil => rfl
  | cons a l ih => simp only [lossSpecies] at ih; simp [lossSpecies, ih]

theorem lossSpecies_cons_node (e : Ev) (he : ∀ p, e ≠ .floss p) (l : List Ev) :
    lossSpecies (e :: l) = lossSpecies l := by
  cases e <;> simp [lossSpecies] at he ⊢

theorem lossSpecies_nodeRecLog (p s a b : Path) :
    lossSpecies (nodeRecLog s a b) = (nodeLossRecs p s a b).map (·.2) := by
  unfold nodeRecLog nodeLossRecs
  cases classify s a b with
  | invalid => rfl
  | spec =>
    rw [lossSpecies_cons_node _ (by intro p; simp), lossSpecies_map_floss]
    simp [List.map_map, Function.comp_def]
  | dup =>
    rw [lossSpecies_cons_node _ (by intro p; simp), lossSpecies_map_floss]
    simp [List.map_map, Function.comp_def]
  | hgt =>
    rw [lossSpecies_cons_node _ (by intro p; simp), lossSpecies_map_floss]
    simp [List.map_map, Function.comp_def]

/-- The species of the records are exactly the `floss` records of C06's log,
    in the same order. -/
theorem lossRecs_species : ∀ (sol : Sol) (p : Path),
    (lossRecs sol p).map (·.2) = lossSpecies (recLog sol) := by
  intro sol
  induction sol with
  | leaf s f => intro p; rfl
  | node s f l r ihl ihr =>
    intro p
    rw [recLog_node, lossSpecies_append, lossSpecies_append, ← ihl (p ++ [0]), ← ihr (p ++ [1]),
      lossSpecies_nodeRecLog p]
    simp [lossRecs]

theorem nFloss_eq_length (log : List Ev) : nFloss log = (lossSpecies log).length := by
  induction log with
  | nil => rfl
  | cons e es ih =>
    simp only [nFloss, lossSpecies] at ih ⊢
    cases e <;> simp [ih]

theorem length_nodeLossRecs {p s a b : Path} (h : classify s a b ≠ .invalid) :
    (nodeLossRecs p s a b).length = localLosses s a b := by
  unfold nodeLossRecs localLosses
  rw [internalEvent_eq_classify]
  cases hk : classify s a b with
  | invalid => exact absurd hk h
  | spec =>
    obtain ⟨ha, hb, hda, hdb⟩ := classify_spec_dist hk
    simp only [Kind.toEvent, List.length_append, List.length_map, List.length_drop,
      length_vertical_of_isAnc ha, length_vertical_of_isAnc hb]
    omega
  | dup =>
    obtain ⟨ha, hb⟩ := classify_dup_isAnc hk
    simp only [Kind.toEvent, List.length_append, List.length_map,
      length_vertical_of_isAnc ha, length_vertical_of_isAnc hb]
  | hgt =>
    obtain ⟨hc, _⟩ := classify_hgt hk
    simp only [Kind.toEvent, List.length_append, List.length_map]
    rcases hc with ⟨ha, hb⟩ | ⟨ha, hb⟩
    · simp [ha, vertical_of_not_isAnc hb, length_vertical_of_isAnc ha]
    · simp [ha, vertical_of_not_isAnc ha, length_vertical_of_isAnc hb]

/-- The number of records is the evaluator's full-loss count. -/
theorem length_lossRecs : ∀ (sol : Sol) (p : Path), AllEvents sol →
    (lossRecs sol p).length = evalLossCount sol := by
  intro sol
  induction sol with
  | leaf s f => intro p _; rfl
  | node s f l r ihl ihr =>
    intro p h
    obtain ⟨h0, hl, hr⟩ := h
    simp only [lossRecs, List.length_append, evalLossCount, ihl _ hl, ihr _ hr,
      length_nodeLossRecs h0]
    omega

/-! ### One chain, exactly -/

theorem visited_snoc (b : Path) (w : List Nat) (i : Nat) :
    visited b (w ++ [i]) = visited b w ++ [b ++ w] := by
  induction w generalizing b with
  | nil => simp [visited]
  | cons j w ih => simp [visited, ih]

/-- The loop of `_add_losses` started at `b ++ w` stops exactly when it
    reaches `b` … -/
def StopsAt (end_ : Option Path) (b : Path) : Prop :=
  (b = [] ∧ end_ = none) ∨ (∃ b' x, b = b' ++ [x] ∧ end_ = some b')

theorem stopsAt_up (s : Path) : StopsAt (Path.up s) s := by
  rcases List.eq_nil_or_concat s with rfl | ⟨b', x, rfl⟩
  · left; exact ⟨rfl, rfl⟩
  · right
    refine ⟨b', x, by simp, ?_⟩
    cases hb : b'.concat x with
    | nil => simp at hb
    | cons y ys =>
      simp only [Path.up]
      rw [← hb]; simp

theorem stopsAt_child (s : Path) (i : Nat) : StopsAt (some s) (s ++ [i]) :=
  Or.inr ⟨s, i, rfl, rfl⟩

/-- … and then it has inserted one loss branch in each of the species
    `b, b ++ w₀, b ++ w₀w₁, …` (the start `b ++ w` excluded), bottom-up. -/
theorem chain_exact (g : Path) (end_ : Option Path) (b : Path) (hstop : StopsAt end_ b) :
    ∀ (w : List Nat) (prev : Key), ∃ pl k, chainPlan g end_ (b ++ w).reverse prev = some (pl, k) ∧
      pl.map (·.1) = (visited b w).reverse := by
  intro w
  induction w using List.reverseRecOn with
  | nil =>
    intro prev
    rcases hstop with ⟨rfl, rfl⟩ | ⟨b', x, rfl, rfl⟩
    · exact ⟨[], prev, by simp [chainPlan], by simp [visited]⟩
    · exact ⟨[], prev, by simp [chainPlan], by simp [visited]⟩
  | append_singleton w i ih =>
    intro prev
    have hrev : (b ++ (w ++ [i])).reverse = i :: (b ++ w).reverse := by simp
    have hne : ¬ some (b ++ w) = end_ := by
      rcases hstop with ⟨_, rfl⟩ | ⟨b', x, rfl, rfl⟩
      · simp
      · intro h
        simp only [Option.some.injEq] at h
        have := congrArg List.length h
        simp at this
    obtain ⟨l, k', hc, hl⟩ := ih (.loss g (b ++ w))
    refine ⟨((b ++ w), lossBranch g (b ++ w) prev i) :: l, k', ?_, ?_⟩
    · rw [hrev]
      simp only [chainPlan, List.reverse_reverse, hne, if_false, hc]
    · rw [visited_snoc]
      simp [hl]

theorem filter_loss_chain {pl : List (Path × Branch)} {g : Path}
    (h : ∀ e ∈ pl, e.2.key = .loss g e.1 ∧ e.2.kind = .loss) :
    ((pl.filter fun e => e.2.kind == .loss).map (·.2.key)) = (pl.map (·.1)).map (Key.loss g) := by
  rw [List.filter_eq_self.2 (fun e he => by simp [(h e he).2]), List.map_map]
  exact List.map_congr_left fun e he => (h e he).1

/-! ### One node -/

def toKey (x : Path × Path) : Key := .loss x.1 x.2

/-- Keys of the loss branches of a plan. -/
def lossKeys (pl : List (Path × Branch)) : List Key :=
  (pl.filter fun e => e.2.kind == .loss).map (·.2.key)

@[simp] theorem lossKeys_append (a b : List (Path × Branch)) : lossKeys (a ++ b) = lossKeys a ++ lossKeys b := by
  simp [lossKeys]

theorem lossKeys_chain {g : Path} {end_ : Option Path} {rp : List Nat} {prev : Key}
    {pl : List (Path × Branch)} {k : Key} (h : chainPlan g end_ rp prev = some (pl, k)) :
    lossKeys pl = (pl.map (·.1)).map (Key.loss g) :=
  filter_loss_chain (chain_pkeys_form h)

theorem classify_spec_split {s a b : Path} (h : classify s a b = .spec) :
    ∃ i wa j wb, a = s ++ i :: wa ∧ b = s ++ j :: wb := by
  unfold classify at h
  cases ha : descend s a with
  | none =>
    rw [ha] at h
    cases hb : descend s b <;> rw [hb] at h <;> simp at h
    split at h <;> cases h
  | some wa =>
    rw [ha] at h
    cases hb : descend s b with
    | none =>
      rw [hb] at h; simp at h
      split at h <;> cases h
    | some wb =>
      rw [hb] at h
      rw [descend_eq_some_iff] at ha hb
      subst ha hb
      cases wa with
      | nil => simp at h
      | cons i wa =>
        cases wb with
        | nil => simp at h
        | cons j wb => exact ⟨i, wa, j, wb, rfl, rfl⟩

theorem vertical_append (s w : Path) : vertical s (s ++ w) = visited s w := by
  simp [vertical, descend_append]

theorem snoc_append (s : Path) (i : Nat) (w : List Nat) : s ++ i :: w = (s ++ [i]) ++ w := by simp

/-- The node's step on a node with a valid event: the plan exists and its
    loss branches are, up to order, the specification's records. -/
theorem nodePlan_loss (s p : Path) (sp : Path) (f : List Nat) (l r : Sol)
    (h : classify s l.sp r.sp ≠ .invalid) :
    ∃ pl cons, nodePlan s p (.node sp f l r) = some (pl, cons) ∧
      (lossKeys pl).Perm ((nodeLossRecs p s l.sp r.sp).map toKey) := by
  have hev := internalEvent_eq_classify s l.sp r.sp
  simp only [nodePlan, nodeLossRecs]
  have tk : ∀ (g : Path) (L : List Path), (L.map fun t => (g, t)).map toKey = L.map (Key.loss g) := by
    intro g L; simp [toKey, List.map_map, Function.comp_def]
  cases hk : classify s l.sp r.sp with
  | invalid => exact absurd hk h
  | spec =>
    rw [hk] at hev
    simp only [Kind.toEvent] at hev
    simp only [hev]
    obtain ⟨i, wa, j, wb, ha, hb⟩ := classify_spec_split hk
    obtain ⟨pl0, k0, c0, e0⟩ := chain_exact (p ++ [0]) (some s) (s ++ [i]) (stopsAt_child s i) wa
      (.gene (p ++ [0]))
    obtain ⟨pl1, k1, c1, e1⟩ := chain_exact (p ++ [1]) (some s) (s ++ [j]) (stopsAt_child s j) wb
      (.gene (p ++ [1]))
    rw [← snoc_append, ← ha] at c0
    rw [← snoc_append, ← hb] at c1
    have v0 : (vertical s l.sp).drop 1 = visited (s ++ [i]) wa := by
      rw [ha, vertical_append]; simp [visited]
    have v1 : (vertical s r.sp).drop 1 = visited (s ++ [j]) wb := by
      rw [hb, vertical_append]; simp [visited]
    have L0 := lossKeys_chain c0
    have L1 := lossKeys_chain c1
    rw [e0] at L0
    rw [e1] at L1
    simp only [List.map_append, tk, v0, v1]
    by_cases hsw : Path.isAnc (s ++ [0]) r.sp = true
    · refine ⟨_, _, by simp only [hsw, if_true, c0, c1]; rfl, ?_⟩
      simp only [lossKeys_append, L0, L1]
      have : lossKeys [(s, (⟨.gene p, .spec, some k1, some k0⟩ : Branch))] = [] := by
        simp [lossKeys]
      rw [this, List.append_nil]
      refine List.perm_append_comm.trans ?_
      exact ((List.reverse_perm _).map _).append ((List.reverse_perm _).map _)
    · have hsw' : Path.isAnc (s ++ [0]) r.sp = false := by simpa using hsw
      refine ⟨_, _, by simp only [hsw', Bool.false_eq_true, if_false, c0, c1]; rfl, ?_⟩
      simp only [lossKeys_append, L0, L1]
      have : lossKeys [(s, (⟨.gene p, .spec, some k0, some k1⟩ : Branch))] = [] := by
        simp [lossKeys]
      rw [this, List.append_nil]
      exact ((List.reverse_perm _).map _).append ((List.reverse_perm _).map _)
  | dup =>
    rw [hk] at hev
    simp only [Kind.toEvent] at hev
    simp only [hev]
    obtain ⟨ha, hb⟩ := classify_dup_isAnc hk
    rw [Path.isAnc_iff_prefix] at ha hb
    obtain ⟨wa, ha⟩ := ha
    obtain ⟨wb, hb⟩ := hb
    obtain ⟨pl0, k0, c0, e0⟩ := chain_exact (p ++ [0]) (Path.up s) s (stopsAt_up s) wa
      (.gene (p ++ [0]))
    obtain ⟨pl1, k1, c1, e1⟩ := chain_exact (p ++ [1]) (Path.up s) s (stopsAt_up s) wb
      (.gene (p ++ [1]))
    rw [ha] at c0
    rw [hb] at c1
    have L0 := lossKeys_chain c0
    have L1 := lossKeys_chain c1
    rw [e0] at L0
    rw [e1] at L1
    refine ⟨_, _, by simp only [c0, c1]; rfl, ?_⟩
    simp only [List.map_append, tk, ← ha, ← hb, vertical_append, lossKeys_append, L0, L1]
    have : lossKeys [(s, (⟨.gene p, .dup, some k0, some k1⟩ : Branch))] = [] := by
      simp [lossKeys]
    rw [this, List.append_nil]
    exact ((List.reverse_perm _).map _).append ((List.reverse_perm _).map _)
  | hgt =>
    rw [hk] at hev
    simp only [Kind.toEvent] at hev
    simp only [hev]
    obtain ⟨hc, _⟩ := classify_hgt hk
    rcases hc with ⟨ha, hb⟩ | ⟨ha, hb⟩
    · have ha' := ha
      rw [Path.isAnc_iff_prefix] at ha'
      obtain ⟨wa, hwa⟩ := ha'
      obtain ⟨pl0, k0, c0, e0⟩ := chain_exact (p ++ [0]) (Path.up s) s (stopsAt_up s) wa
        (.gene (p ++ [0]))
      rw [hwa] at c0
      have L0 := lossKeys_chain c0
      rw [e0] at L0
      refine ⟨_, _, by simp only [ha, if_true, c0]; rfl, ?_⟩
      simp only [List.map_append, tk, vertical_of_not_isAnc hb, lossKeys_append, L0]
      rw [← hwa, vertical_append]
      have : lossKeys [(s, (⟨.gene p, .hgt, some k0, some (.gene (p ++ [1]))⟩ : Branch))] = [] := by
        simp [lossKeys]
      rw [this]
      simp
    · have hb' := hb
      rw [Path.isAnc_iff_prefix] at hb'
      obtain ⟨wb, hwb⟩ := hb'
      obtain ⟨pl1, k1, c1, e1⟩ := chain_exact (p ++ [1]) (Path.up s) s (stopsAt_up s) wb
        (.gene (p ++ [1]))
      rw [hwb] at c1
      have L1 := lossKeys_chain c1
      rw [e1] at L1
      refine ⟨_, _, by simp only [ha, Bool.false_eq_true, if_false, c1]; rfl, ?_⟩
      simp only [List.map_append, tk, vertical_of_not_isAnc ha, lossKeys_append, L1]
      rw [← hwb, vertical_append]
      have : lossKeys [(s, (⟨.gene p, .hgt, some k1, some (.gene (p ++ [0]))⟩ : Branch))] = [] := by
        simp [lossKeys]
      rw [this]
      simp

/-- Records of the object node `(p, sub)`. -/
def nodeRecs (p : Path) : Sol → List (Path × Path)
  | .leaf _ _ => []
  | .node s _ l r => nodeLossRecs p s l.sp r.sp

theorem nodePlanL_loss (p : Path) (sub : Sol)
    (h : ∀ sp f l r, sub = .node sp f l r → classify sp l.sp r.sp ≠ .invalid) :
    (lossKeys (nodePlanL sub.sp p sub)).Perm ((nodeRecs p sub).map toKey) := by
  cases sub with
  | leaf s f => simp [nodePlanL, nodePlan, lossKeys, nodeRecs]
  | node s f l r =>
    obtain ⟨pl, cons, hpl, hperm⟩ := nodePlan_loss s p s f l r (h s f l r rfl)
    simp only [nodePlanL, Sol.sp, hpl, nodeRecs]
    exact hperm

/-! ### Regrouping -/

theorem perm_flatMap_filter {α : Type} (c : α → Path) : ∀ (L : List Path), L.Nodup →
    ∀ G : List α, (∀ g ∈ G, c g ∈ L) → (L.flatMap fun t => G.filter fun g => c g = t).Perm G := by
  intro L
  induction L with
  | nil =>
    intro _ G hG
    cases G with
    | nil => simp
    | cons g G => exact absurd (hG g (List.mem_cons_self ..)) (by simp)
  | cons t0 L ih =>
    intro hnd G hG
    rw [List.nodup_cons] at hnd
    simp only [List.flatMap_cons]
    have h1 : (L.flatMap fun t => G.filter fun g => c g = t) =
        L.flatMap fun t => (G.filter fun g => !decide (c g = t0)).filter fun g => c g = t := by
      apply List.flatMap_congr
      intro t ht
      rw [List.filter_filter]
      apply List.filter_congr
      intro g _
      by_cases hgt : c g = t
      · have : ¬ t = t0 := fun e => hnd.1 (e ▸ ht)
        simp [hgt, this]
      · simp [hgt]
    rw [h1]
    have h2 := ih hnd.2 (G.filter fun g => !decide (c g = t0)) (by
      intro g hg
      simp only [List.mem_filter, Bool.not_eq_true', decide_eq_false_iff_not] at hg
      have := hG g hg.1
      simp only [List.mem_cons] at this
      rcases this with h | h
      · exact absurd h hg.2
      · exact h)
    exact (List.Perm.append_left _ h2).trans (List.filter_append_perm _ G)

/-- The loss keys of the whole plan, up to order: node by node. -/
theorem fullPlan_lossKeys (sol : Sol) (L : List Path) (hL : L.Nodup)
    (hin : ∀ g ∈ genesPost sol [], g.2.sp ∈ L) :
    (lossKeys (fullPlan sol L)).Perm
      ((genesPost sol []).flatMap fun g => lossKeys (nodePlanL g.2.sp g.1 g.2)) := by
  have e1 : lossKeys (fullPlan sol L) =
      (L.flatMap fun s => (genesPost sol []).filter fun g => g.2.sp = s).flatMap
        fun g => lossKeys (nodePlanL g.2.sp g.1 g.2) := by
    simp only [lossKeys, fullPlan, passPlan, List.filter_flatMap, List.map_flatMap, List.flatMap_assoc]
    apply List.flatMap_congr
    intro s _
    apply List.flatMap_congr
    intro g hg
    simp only [List.mem_filter, decide_eq_true_eq] at hg
    rw [hg.2]
  rw [e1]
  exact List.Perm.flatMap_right _ (perm_flatMap_filter (fun g : Path × Sol => g.2.sp) L hL _ hin)

theorem nodeRecs_perm_lossRecs : ∀ (sol : Sol) (p : Path),
    ((genesPost sol p).flatMap fun g => nodeRecs g.1 g.2).Perm (lossRecs sol p) := by
  intro sol
  induction sol with
  | leaf s f => intro p; simp [genesPost, nodeRecs, lossRecs]
  | node s f l r ihl ihr =>
    intro p
    simp only [genesPost, List.flatMap_append, List.flatMap_cons, List.flatMap_nil, List.append_nil,
      nodeRecs, lossRecs]
    exact List.perm_append_comm.trans (List.Perm.append_left _ ((ihl _).append (ihr _)))

/-- **The loss branches are the evaluator's full losses** (as multisets of
    keys `(lineage, species)`). -/
theorem computeBranches_lossKeys {S : RTree} {sol : Sol} {st : LState} (hgood : Good S sol)
    (h : computeBranches S sol = .ok st) :
    (S.postorder.flatMap fun t => ((brs st t).filter fun b => b.kind == .loss).map (·.key)).Perm
      ((lossRecs sol []).map toKey) := by
  obtain ⟨_, hex, hb⟩ := computeBranches_plan h
  have hL := postorder_nodup S
  -- regroup the state by species
  have e1 : (S.postorder.flatMap fun t => ((brs st t).filter fun b => b.kind == .loss).map (·.key)) =
      lossKeys (S.postorder.flatMap fun t => (fullPlan sol S.postorder).filter fun e => e.1 = t) := by
    simp only [lossKeys, List.filter_flatMap, List.map_flatMap]
    apply List.flatMap_congr
    intro t _
    rw [hb t]
    simp [planAt, List.filter_map, List.map_map, Function.comp_def]
  rw [e1]
  have p1 := perm_flatMap_filter (fun e : Path × Branch => e.1) S.postorder hL _ hex
  have p2 : (lossKeys (S.postorder.flatMap fun t => (fullPlan sol S.postorder).filter fun e => e.1 = t)).Perm
      (lossKeys (fullPlan sol S.postorder)) := (p1.filter _).map _
  refine p2.trans ?_
  have hin : ∀ g ∈ genesPost sol [], g.2.sp ∈ S.postorder := by
    rintro ⟨q, sub⟩ hg
    obtain ⟨q', rfl, hq⟩ := (mem_genesPost sol [] _ _).1 hg
    exact mem_postorder_of_isNode _ S (hgood _ _ hq).1
  refine (fullPlan_lossKeys sol _ hL hin).trans ?_
  have p3 : ((genesPost sol []).flatMap fun g => lossKeys (nodePlanL g.2.sp g.1 g.2)).Perm
      ((genesPost sol []).flatMap fun g => (nodeRecs g.1 g.2).map toKey) := by
    apply List.Perm.flatMap_left
    rintro ⟨q, sub⟩ hg
    obtain ⟨q', rfl, hq⟩ := (mem_genesPost sol [] _ _).1 hg
    apply nodePlanL_loss
    rintro sp f l r rfl
    exact classify_ne_invalid ((hgood _ _ hq).2 sp f l r rfl)
  refine p3.trans ?_
  rw [← List.map_flatMap]
  exact (nodeRecs_perm_lossRecs sol []).map _

end SR.Layout
