/-
  C07 — the LCA reconciliation is one of the specification's candidate
  mappings: when the leaf species are nodes of the species tree `S`, every
  image of `lcaSol` is a node of `S` (nodes are prefix-closed), hence
  `lcaSol o ∈ Spec.allMappings S o`.
-/
import SRVerif.Proofs.LcaMapOpt

namespace SR

open Path

namespace RTree

theorem mem_preorderList_of_getElem {c : RTree} {q : Path} :
    ∀ (cs : List RTree) (k j : Nat), cs[j]? = some c → q ∈ preorder c →
      (k + j) :: q ∈ preorderList cs k := by
  intro cs
  induction cs with
  | nil => intro k j h; simp at h
  | cons d ds ih =>
    intro k j h hq
    cases j with
    | zero =>
      simp only [List.getElem?_cons_zero, Option.some.injEq] at h
      subst h
      simp only [preorderList, List.mem_append, List.mem_map]
      exact Or.inl ⟨q, hq, rfl⟩
    | succ j =>
      simp only [List.getElem?_cons_succ] at h
      simp only [preorderList, List.mem_append]
      right
      have := ih (k + 1) j h hq
      have e : k + 1 + j = k + (j + 1) := by omega
      rwa [e] at this

/-- Every node of the tree is listed by the pre-order traversal. -/
theorem isNode_mem_preorder : ∀ (p : Path) (t : RTree), t.isNode p = true → p ∈ t.preorder := by
  intro p
  induction p with
  | nil => intro t _; cases t; simp [preorder]
  | cons i p ih =>
    intro t h
    cases t with
    | node cs =>
      simp only [isNode, sub] at h
      cases hc : cs[i]? with
      | none => simp [hc] at h
      | some c =>
        simp only [hc] at h
        have hp := ih c h
        simp only [preorder, List.mem_cons]
        right
        have := mem_preorderList_of_getElem cs 0 i hc hp
        simpa using this

/-- The nodes of a tree are closed under taking ancestors. -/
theorem isNode_prefix_closed : ∀ (p q : Path) (t : RTree), isAnc p q = true → t.isNode q = true →
    t.isNode p = true := by
  intro p
  induction p with
  | nil => intro q t _ _; simp [isNode, sub]
  | cons i p ih =>
    intro q t ha hq
    cases q with
    | nil => simp [isAnc] at ha
    | cons j q =>
      simp only [isAnc, Bool.and_eq_true, beq_iff_eq] at ha
      obtain ⟨rfl, ha⟩ := ha
      cases t with
      | node cs =>
        simp only [isNode, sub] at hq ⊢
        cases hc : cs[i]? with
        | none => simp [hc] at hq
        | some c =>
          simp only [hc] at hq ⊢
          exact ih q c ha hq

end RTree

/-- The image of the root under `lcaSol` is a node of `S` when the leaf species are. -/
theorem lcaSol_sp_isNode (S : RTree) (o : OTree) (h : ∀ q ∈ o.leafSpecies, S.isNode q = true) :
    S.isNode (lcaSol o).sp = true := by
  obtain ⟨q, hq⟩ : ∃ q, q ∈ o.leafSpecies := List.exists_mem_of_ne_nil _ (leafSpecies_ne_nil o)
  exact RTree.isNode_prefix_closed _ q S ((isAnc_lcaSol_sp _ o).mp (isAnc_refl _) q hq) (h q hq)

theorem lcaSol_mem_allMappings (S : RTree) :
    ∀ (o : OTree), (∀ q ∈ o.leafSpecies, S.isNode q = true) → lcaSol o ∈ Spec.allMappings S o := by
  intro o
  induction o with
  | leaf sp f => intro _; simp [lcaSol, Spec.allMappings]
  | node l r ihl ihr =>
    intro h
    have hl : ∀ q ∈ l.leafSpecies, S.isNode q = true :=
      fun q hq => h q (by simp [OTree.leafSpecies, hq])
    have hr : ∀ q ∈ r.leafSpecies, S.isNode q = true :=
      fun q hq => h q (by simp [OTree.leafSpecies, hq])
    have hs := RTree.isNode_mem_preorder _ S (lcaSol_sp_isNode S (.node l r) h)
    simp only [Spec.allMappings, List.mem_flatMap, List.mem_map]
    exact ⟨lcaSol l, ihl hl, lcaSol r, ihr hr, (lcaSol (.node l r)).sp, hs, rfl⟩

theorem lcaSol_mem_allValid (S : RTree) (o : OTree) (h : ∀ q ∈ o.leafSpecies, S.isNode q = true) :
    lcaSol o ∈ Spec.allValid S o := by
  simp only [Spec.allValid, List.mem_filter]
  exact ⟨lcaSol_mem_allMappings S o h, lcaSol_validRec o⟩

end SR
