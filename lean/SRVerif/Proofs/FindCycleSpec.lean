/-
  Spec-level facts about directed cycles: a well-formed graph has a
  topological ordering iff it has no closed walk.  (The "if" direction uses
  the maximal removal sequence that Kahn's loop is proved to produce.)
-/
import SRVerif.Spec.FindCycle
import SRVerif.Proofs.ToposortAlg

namespace SR.Toposort

/-! ### `Chain` -/

theorem chain_cons {R : Nat → Nat → Prop} {a b : Nat} {l : List Nat} :
    Chain R (a :: b :: l) ↔ R a b ∧ Chain R (b :: l) := Iff.rfl

theorem chain_tail {R : Nat → Nat → Prop} {a : Nat} {l : List Nat} (h : Chain R (a :: l)) :
    Chain R l := by
  cases l with
  | nil => trivial
  | cons b l => exact h.2

theorem chain_append_right {R : Nat → Nat → Prop} : ∀ (l₁ l₂ : List Nat), Chain R (l₁ ++ l₂) → Chain R l₂
  | [], _, h => h
  | _ :: l₁, l₂, h => chain_append_right l₁ l₂ (chain_tail h)

theorem chain_append_left {R : Nat → Nat → Prop} : ∀ (l₁ l₂ : List Nat), Chain R (l₁ ++ l₂) → Chain R l₁
  | [], _, _ => trivial
  | [_], _, _ => trivial
  | _ :: b :: l₁, l₂, h => ⟨h.1, chain_append_left (b :: l₁) l₂ h.2⟩

theorem chain_snoc {R : Nat → Nat → Prop} : ∀ (l : List Nat) (a b : Nat),
    Chain R (l ++ [a]) → R a b → Chain R (l ++ [a, b])
  | [], _, _, _, hr => ⟨hr, trivial⟩
  | [_], _, _, h, hr => ⟨h.1, hr, trivial⟩
  | _ :: y :: l, a, b, h, hr => ⟨h.1, chain_snoc (y :: l) a b h.2 hr⟩

theorem chain_mono {R S : Nat → Nat → Prop} (hrs : ∀ a b, R a b → S a b) :
    ∀ l : List Nat, Chain R l → Chain S l
  | [], _ => trivial
  | [_], _ => trivial
  | a :: b :: l, h => ⟨hrs a b h.1, chain_mono hrs (b :: l) h.2⟩

/-- Reversal of a chain. -/
theorem chain_reverse {R : Nat → Nat → Prop} : ∀ l : List Nat,
    Chain R l → Chain (fun a b => R b a) l.reverse
  | [], _ => trivial
  | [_], _ => trivial
  | a :: b :: l, h => by
    have ih := chain_reverse (b :: l) h.2
    have : (a :: b :: l).reverse = l.reverse ++ [b, a] := by simp
    rw [this]
    apply chain_snoc
    · simpa using ih
    · exact h.1

/-- Along a chain for `f · < f ·` the value at the end exceeds the value at
    the start. -/
theorem chain_lt (f : Nat → Nat) : ∀ (l : List Nat) (a z : Nat),
    Chain (fun x y => f x < f y) (a :: l ++ [z]) → f a < f z
  | [], _, _, h => h.1
  | b :: l, _, z, h => Nat.lt_trans h.1 (chain_lt f l b z h.2)

/-- A topological ordering excludes every closed walk. -/
theorem isTopo_acyclic {g : Graph} {o : List Nat} (ht : IsTopo g o) : Acyclic g := by
  intro c hc
  cases c with
  | nil => exact hc
  | cons a l =>
    have h : Chain (fun x y => o.idxOf x < o.idxOf y) (a :: l ++ [a]) := by
      refine chain_mono ?_ _ hc
      rintro x y ⟨p, hp, rfl, hy⟩
      exact ht.2.2.2 p hp y hy
    exact Nat.lt_irrefl _ (chain_lt _ l a a h)

/-- A list that is not duplicate-free contains `x :: m ++ [x]` as a block. -/
theorem exists_block_of_not_nodup : ∀ l : List Nat, ¬ l.Nodup →
    ∃ x l₁ m l₃, l = l₁ ++ (x :: m ++ [x]) ++ l₃
  | [], h => absurd List.nodup_nil h
  | a :: l, h => by
    by_cases ha : a ∈ l
    · obtain ⟨m, l₃, rfl⟩ := List.append_of_mem ha
      exact ⟨a, [], m, l₃, by simp⟩
    · have : ¬ l.Nodup := fun hn => h (List.nodup_cons.2 ⟨ha, hn⟩)
      obtain ⟨x, l₁, m, l₃, rfl⟩ := exists_block_of_not_nodup l this
      exact ⟨x, a :: l₁, m, l₃, by simp⟩

/-- If every vertex of a non-empty set `R ⊆ keys g` (given as the complement
    of `s`) has a predecessor in it, backward walks of every length exist. -/
theorem backward_walk {g : Graph} {s : List Nat} {v₀ : Nat} (hv₀ : v₀ ∈ keys g ∧ v₀ ∉ s)
    (hpred : ∀ v, v ∈ keys g → v ∉ s → ∃ u, u ∈ keys g ∧ u ∉ s ∧ Arc g u v) :
    ∀ k : Nat, ∃ w : List Nat, w.length = k + 1 ∧ Chain (Arc g) w ∧ ∀ x ∈ w, x ∈ keys g ∧ x ∉ s
  | 0 => ⟨[v₀], rfl, trivial, by simpa using hv₀⟩
  | k + 1 => by
    obtain ⟨w, hl, hc, hm⟩ := backward_walk hv₀ hpred k
    cases w with
    | nil => simp at hl
    | cons a l =>
      obtain ⟨u, hu1, hu2, hua⟩ := hpred a (hm a (by simp)).1 (hm a (by simp)).2
      refine ⟨u :: a :: l, by simp at hl ⊢; omega, ⟨hua, hc⟩, ?_⟩
      intro x hx
      rcases List.mem_cons.1 hx with e | e
      · subst e; exact ⟨hu1, hu2⟩
      · exact hm x e

/-- A well-formed graph without topological ordering has a closed walk. -/
theorem exists_cycle_of_no_topo {g : Graph} (hwf : WF g) (hno : ¬ ∃ o, IsTopo g o) :
    ∃ c, IsCycle g c := by
  obtain ⟨starts, I, _, hinv⟩ := kahnInit_spec hwf
  obtain ⟨s, _, hg⟩ := kahnLoop_spec hwf (g.length + 1) [] starts I [] hinv (by simp)
  have hg' := (greedy_iff g s []).1 hg
  obtain ⟨hp, hstuck⟩ := hg'
  obtain ⟨h1, h2, _⟩ := path_sound g s [] [] hp (by simp) (by simp)
  simp only [List.nil_append] at h1
  -- some vertex is left
  have hleft : ∃ v, v ∈ keys g ∧ v ∉ s := by
    by_contra hall
    have hsub : keys g ⊆ s := by
      intro v hv
      by_contra hvs
      exact hall ⟨v, hv, hvs⟩
    have l1 := h1.length_le_of_subset (l₂ := keys g) h2
    have l2 := hwf.1.length_le_of_subset hsub
    simp [keys] at l1 l2
    exact hno ⟨s, greedy_full_isTopo hwf.succ_keys hg (by omega)⟩
  obtain ⟨v₀, hv₀⟩ := hleft
  have hpred : ∀ v, v ∈ keys g → v ∉ s → ∃ u, u ∈ keys g ∧ u ∉ s ∧ Arc g u v := by
    intro v hv hvs
    have hnr := hstuck v
    simp only [Ready, List.append_nil, List.mem_reverse, not_and, not_forall] at hnr
    obtain ⟨p, hp, hvp, hps⟩ := hnr hv hvs
    exact ⟨p.1, List.mem_map_of_mem (f := (·.1)) hp, hps, p, hp, rfl, hvp⟩
  obtain ⟨w, hl, hc, hm⟩ := backward_walk hv₀ hpred g.length
  have hnd : ¬ w.Nodup := by
    intro hn
    have := hn.length_le_of_subset (l₂ := keys g) (fun x hx => (hm x hx).1)
    simp [keys] at this
    omega
  obtain ⟨x, l₁, m, l₃, rfl⟩ := exists_block_of_not_nodup w hnd
  refine ⟨x :: m, ?_⟩
  have := chain_append_left _ _ hc
  have := chain_append_right _ _ this
  simpa [IsCycle] using this

/-- **Acyclic ↔ a topological ordering exists** (well-formed graphs). -/
theorem acyclic_iff_topo {g : Graph} (hwf : WF g) : Acyclic g ↔ ∃ o, IsTopo g o := by
  constructor
  · intro ha
    by_contra hno
    obtain ⟨c, hc⟩ := exists_cycle_of_no_topo hwf hno
    exact ha c hc
  · rintro ⟨o, ht⟩
    exact isTopo_acyclic ht

end SR.Toposort
