/-
  C08, part 6: `binarize` produces every binary refinement, for trees of
  arbitrary arity and arbitrary nesting of polytomies (`binarize_complete`),
  and a counting lemma for systems of representatives
  (`length_le_of_representatives`).

  Node case: `decomp` (Proofs/BinarizeComplete.lean) cuts the refinement `b`
  at the clades of the children of the root into an arrangement `σ` of
  subtrees `ds` of `b`; `inner_of_subst` shows that each subtree refines the
  corresponding child; by induction each is equivalent to a member of the
  child's `binarize`, the tuple `us` of those members is in the product, and
  `arrange_complete` finds the arrangement of `us` equivalent to `σ` with the
  items replaced.
-/
import SRVerif.Proofs.BinarizeComplete

namespace SR.Bin

open BTree

/-! ### Lists of children -/

theorem NTree.leavesList_eq (cs : List NTree) : NTree.leavesList cs = cs.flatMap NTree.leaves := by
  induction cs with
  | nil => rfl
  | cons c cs ih => rw [NTree.leavesList, ih, List.flatMap_cons]

theorem NTree.innerList_eq (cs : List NTree) : NTree.innerList cs = cs.flatMap NTree.inner := by
  induction cs with
  | nil => rfl
  | cons c cs ih => rw [NTree.innerList, ih, List.flatMap_cons]

theorem NTree.WFList_iff (cs : List NTree) : NTree.WFList cs = true ↔ ∀ c ∈ cs, c.WF = true := by
  induction cs with
  | nil => simp [NTree.WFList]
  | cons c cs ih => rw [NTree.WFList, Bool.and_eq_true, ih]; simp

mutual
  theorem NTree.inner_sub_leaves : ∀ (t : NTree) (x : List Nat × Option Nat), x ∈ t.inner →
      ∀ y ∈ x.1, y ∈ t.leaves
    | .leaf _, x, hx => by simp [NTree.inner] at hx
    | .node a cs, x, hx => by
      rw [NTree.inner, List.mem_cons] at hx
      rw [NTree.leaves]
      rcases hx with rfl | hx
      · intro y hy; exact hy
      · exact NTree.innerList_sub_leaves cs x hx
  theorem NTree.innerList_sub_leaves : ∀ (cs : List NTree) (x : List Nat × Option Nat),
      x ∈ NTree.innerList cs → ∀ y ∈ x.1, y ∈ NTree.leavesList cs
    | [], x, hx => by simp [NTree.innerList] at hx
    | c :: cs, x, hx => by
      rw [NTree.innerList, List.mem_append] at hx
      intro y hy
      rw [NTree.leavesList, List.mem_append]
      rcases hx with hx | hx
      · exact Or.inl (NTree.inner_sub_leaves c x hx y hy)
      · exact Or.inr (NTree.innerList_sub_leaves cs x hx y hy)
end

mutual
  theorem NTree.leaves_ne_nil_of_WF : ∀ (t : NTree), t.WF = true → t.leaves ≠ []
    | .leaf _, _ => by simp [NTree.leaves]
    | .node a cs, h => by
      rw [NTree.WF, Bool.and_eq_true, decide_eq_true_eq] at h
      rw [NTree.leaves]
      exact NTree.leavesList_ne_nil_of_WF cs h.2 (by intro h0; rw [h0] at h; simp at h)
  theorem NTree.leavesList_ne_nil_of_WF : ∀ (cs : List NTree), NTree.WFList cs = true → cs ≠ [] →
      NTree.leavesList cs ≠ []
    | [], _, h => absurd rfl h
    | c :: cs, h, _ => by
      rw [NTree.WFList, Bool.and_eq_true] at h
      rw [NTree.leavesList]
      intro h0
      exact NTree.leaves_ne_nil_of_WF c h.1 (List.append_eq_nil_iff.mp h0).1
end

/-! ### Replacing the items of an arrangement -/

theorem All2.exists_fun {β : Type} [DecidableEq β] {R : β → β → Prop} {us ds : List β}
    (h : All2 R us ds) (hnd : ds.Nodup) : ∃ g : β → β, ds.map g = us ∧ ∀ d ∈ ds, R (g d) d := by
  induction h with
  | nil => exact ⟨id, rfl, by simp⟩
  | @cons u d us ds hh _ ih =>
    rw [List.nodup_cons] at hnd
    obtain ⟨g, hg, hR⟩ := ih hnd.2
    refine ⟨fun x => if x = d then u else g x, ?_, ?_⟩
    · rw [List.map_cons, ← hg]
      simp only
      congr 1
      apply List.map_congr_left
      intro x hx
      have hne : x ≠ d := fun h => hnd.1 (h ▸ hx)
      simp only [if_neg hne]
    · intro x hx
      by_cases hxd : x = d
      · subst hxd; simp only; exact hh
      · simp only [if_neg hxd]
        rcases List.mem_cons.mp hx with h | h
        · exact absurd h hxd
        · exact hR x h

theorem join_map_equiv (σ : BTree BinT) (g : BinT → BinT)
    (h : ∀ d ∈ σ.items, BinT.Equiv (g d) d) :
    BTree.Equiv (join ((σ.map g).map BinT.skel)) (join (σ.map BinT.skel)) := by
  induction σ with
  | item d => exact h d (by simp [BTree.items])
  | node l r ihl ihr =>
    exact .congr (ihl fun d hd => h d (by simp [BTree.items, hd]))
      (ihr fun d hd => h d (by simp [BTree.items, hd]))

/-! ### Refinement, on the model's types -/

/-- `b` carries the leaves of `t` and every clade of `t` (`Spec.IsRefinement`
    for a `BinT`, which is binary by type). -/
def Ref (b : BinT) (t : NTree) : Prop :=
  b.leaves.Perm t.leaves ∧ ∀ x ∈ t.inner, ∃ x' ∈ b.inner, x'.1.Perm x.1

theorem mem_binarizeChildren_of_all2 : ∀ {cs : List NTree} {ds : List BinT},
    All2 (fun d c => d ∈ binarize c) ds cs → ds ∈ binarizeChildren cs
  | _, _, .nil => mem_binarizeChildren_nil.mpr rfl
  | _, _, .cons hh ht =>
    mem_binarizeChildren_cons.mpr ⟨_, _, rfl, hh, mem_binarizeChildren_of_all2 ht⟩

/-- The node case, given completeness for the tuple of children. -/
theorem complete_node {a : Option Nat} {cs : List NTree} (hwf : NTree.WFList cs = true)
    (hnd : (NTree.leavesList cs).Nodup)
    (hch : ∀ ds, All2 Ref ds cs → ∃ us ∈ binarizeChildren cs, All2 BinT.Equiv us ds)
    (b : BinT) (hb : Ref b (.node a cs)) : ∃ u ∈ binarize (.node a cs), BinT.Equiv u b := by
  obtain ⟨hbl, hbc⟩ := hb
  rw [NTree.leaves] at hbl
  have hbnd : b.leaves.Nodup := hbl.nodup_iff.mpr hnd
  have hwf' := (NTree.WFList_iff cs).mp hwf
  -- cut `b` at the clades of the children
  obtain ⟨σ, hσ, ds, hds, hal⟩ := decomp NTree.leaves b cs hbnd
    (by rw [← NTree.leavesList_eq]; exact hbl)
    (fun c hc => NTree.leaves_ne_nil_of_WF c (hwf' c hc))
    (by
      intro c hc
      cases c with
      | leaf i => exact Or.inl rfl
      | node a' cs' =>
        right
        have hm : (NTree.leavesList cs', a') ∈ (NTree.node a cs).inner := by
          rw [NTree.inner, NTree.innerList_eq]
          refine List.mem_cons_of_mem _ (List.mem_flatMap.mpr ⟨_, hc, ?_⟩)
          rw [NTree.inner]; exact List.mem_cons_self
        obtain ⟨c', hc', hp⟩ := hbc _ hm
        exact ⟨c', hc', by rw [NTree.leaves]; exact hp⟩)
  have hσnd : (σ.items.flatMap BinT.leaves).Nodup := by
    rw [← leaves_subst, BinT.leaves_eq_of_skel hσ]; exact hbnd
  have hdsnd : (ds.flatMap BinT.leaves).Nodup := (hds.flatMap_right _).nodup_iff.mp hσnd
  -- each piece refines its child
  have href : All2 Ref ds cs := by
    refine hal.imp_of_mem fun d hd c hc hp => ⟨hp, fun x hx => ?_⟩
    have hm : x ∈ (NTree.node a cs).inner := by
      rw [NTree.inner, NTree.innerList_eq]
      exact List.mem_cons_of_mem _ (List.mem_flatMap.mpr ⟨c, hc, hx⟩)
    obtain ⟨x', hx', hpx⟩ := hbc x hm
    have hx1 : x'.1 ∈ (subst σ).inner.map Prod.fst := by
      rw [BinT.clades_eq_of_skel hσ]; exact List.mem_map.mpr ⟨x', hx', rfl⟩
    obtain ⟨x'', hx'', he⟩ := List.mem_map.mp hx1
    refine ⟨x'', inner_of_subst σ hσnd hx'' (hds.mem_iff.mpr hd) ?_, by rw [he]; exact hpx⟩
    intro y hy
    rw [he] at hy
    exact hp.mem_iff.mpr (NTree.inner_sub_leaves c x hx y (hpx.mem_iff.mp hy))
  -- replace each piece by the equivalent member of the child's `binarize`
  obtain ⟨us, hus, heq⟩ := hch ds href
  obtain ⟨g, hg, hgR⟩ := All2.exists_fun heq (nodup_of_leaves_nodup hdsnd)
  have hitems : (σ.map g).items.Perm us := by
    rw [BTree.items_map, ← hg]; exact hds.map g
  obtain ⟨s, hs, hes⟩ := arrange_complete us (σ.map g) hitems
  refine ⟨(subst s).setAnn a, mem_binarize_node.mpr ⟨us, hus, s, hs, rfl⟩, ?_⟩
  unfold BinT.Equiv
  rw [skel_F, ← hσ, skel_subst]
  exact (equiv_join_map BinT.skel hes).trans
    (join_map_equiv σ g fun d hd => hgR d (hds.mem_iff.mp hd))

mutual
  /-- Every binary tree that carries the leaves and all clades of `t` is, up
      to child order, a member of `binarize t`. -/
  theorem binarize_complete : ∀ (t : NTree), t.WF = true → t.leaves.Nodup →
      ∀ b : BinT, Ref b t → ∃ u ∈ binarize t, BinT.Equiv u b
    | .leaf i, _, _, b, hb => by
      have hl : b.leaves.Perm [i] := hb.1
      obtain ⟨j, rfl⟩ := BinT.eq_leaf_of_length (b := b) (by rw [hl.length_eq]; rfl)
      have : j = i := by simpa [BinT.leaves] using hl.mem_iff (a := j)
      subst this
      exact ⟨.leaf j, by simp [binarize], BTree.Equiv.refl _⟩
    | .node a cs, hwf, hnd, b, hb => by
      rw [NTree.WF, Bool.and_eq_true, decide_eq_true_eq] at hwf
      rw [NTree.leaves] at hnd
      exact complete_node hwf.2 hnd (fun ds h => binarizeChildren_complete cs hwf.2 hnd ds h) b hb
  theorem binarizeChildren_complete : ∀ (cs : List NTree), NTree.WFList cs = true →
      (NTree.leavesList cs).Nodup → ∀ ds : List BinT, All2 Ref ds cs →
      ∃ us ∈ binarizeChildren cs, All2 BinT.Equiv us ds
    | [], _, _, ds, h => by
      cases h
      exact ⟨[], mem_binarizeChildren_nil.mpr rfl, All2.nil⟩
    | c :: cs, hwf, hnd, ds, h => by
      rw [NTree.WFList, Bool.and_eq_true] at hwf
      rw [NTree.leavesList, List.nodup_append] at hnd
      cases h with
      | @cons d _ ds' _ hh ht =>
        obtain ⟨u, hu, he⟩ := binarize_complete c hwf.1 hnd.1 d hh
        obtain ⟨us, hus, hes⟩ := binarizeChildren_complete cs hwf.2 hnd.2.1 ds' ht
        exact ⟨u :: us, mem_binarizeChildren_cons.mpr ⟨u, us, rfl, hu, hus⟩, All2.cons he hes⟩
end

/-! ### Systems of representatives -/

/-- If the members of `l₁` are pairwise inequivalent and each is equivalent to
    a member of `l₂`, then `l₁` is not longer than `l₂`. -/
theorem length_le_of_representatives {β : Type} [DecidableEq β] {R : β → β → Prop}
    (hsymm : ∀ x y, R x y → R y x) (htrans : ∀ x y z, R x y → R y z → R x z) :
    ∀ (l₁ l₂ : List β), l₁.Pairwise (fun x y => ¬ R x y) →
      (∀ x ∈ l₁, ∃ y ∈ l₂, R x y) → l₁.length ≤ l₂.length
  | [], _, _, _ => Nat.zero_le _
  | x :: l₁, l₂, hp, hm => by
    rw [List.pairwise_cons] at hp
    obtain ⟨y, hy, hxy⟩ := hm x (by simp)
    have ih := length_le_of_representatives hsymm htrans l₁ (l₂.erase y) hp.2 (by
      intro x' hx'
      obtain ⟨y', hy', hxy'⟩ := hm x' (by simp [hx'])
      refine ⟨y', (List.mem_erase_of_ne ?_).mpr hy', hxy'⟩
      rintro rfl
      exact hp.1 x' hx' (htrans _ _ _ hxy (hsymm _ _ hxy')))
    rw [List.length_erase_of_mem hy] at ih
    have := List.length_pos_of_mem hy
    simp only [List.length_cons]
    omega

end SR.Bin
