/-
  C08, optimum over ALL binary refinements — part 2.

  * the guards of the binary solver theorems (C02 / C03) hold for the binary input built
    from any pair of binary trees over the right leaves: `isBinary_shape`,
    `isNode_pathOf`, `leafSpecies_toOTree_isNode`, `leafSyntenies_toOTree`;
  * `exists_binarize_transfers`   every pair of binary refinements in the SPEC sense
    (`Spec.IsRefinement`, any child order) has a representative pair in
    `binarize tO × binarize tS` (completeness, `Proofs/BinarizeCompleteTree.lean`) whose
    binary input carries the same valid solutions at the same costs
    (`Proofs/BinarizeOptAll.lean`);
  * `multi_opt_all`   the generic statement: if, on every pair of `binarize × binarize`,
    the per-pair solver (`rankByCost` of the candidates) returns only optimal valid
    solutions (A) and returns something whenever a valid solution of finite cost exists
    (B), then every member of the multi-solver result is an optimal valid solution of its
    own pair, and its cost is at most the cost of every valid solution of every pair of
    spec-level refinements.
-/
import SRVerif.Proofs.BinarizeOptAll
import SRVerif.Proofs.RTree

namespace SR.Bin

open SR

/-! ### Guards of the refined inputs -/

theorem isBinary_shape (b : BinT) : (shape b.toN).isBinary = true := by
  induction b with
  | leaf i => simp [BinT.toN, shape, RTree.isBinary]
  | node a l r ihl ihr => simp [BinT.toN, shape, shapeList, RTree.isBinary, ihl, ihr]

/-- The path of a leaf is a node of the shape of the tree. -/
theorem isNode_pathOf (id : Nat) : ∀ (b : BinT) (p : Path), b.pathOf id = some p →
    (shape b.toN).isNode p = true := by
  intro b
  induction b with
  | leaf i =>
    intro p h
    simp only [BinT.pathOf] at h
    split at h
    · cases h; exact RTree.isNode_nil _
    · cases h
  | node a l r ihl ihr =>
    intro p h
    simp only [BinT.pathOf] at h
    simp only [BinT.toN, shape, shapeList]
    cases hl : l.pathOf id with
    | some q =>
      rw [hl] at h
      cases h
      exact (RTree.isNode_cons _ 0 q).mpr ⟨_, rfl, ihl q hl⟩
    | none =>
      rw [hl] at h
      cases hr : r.pathOf id with
      | some q =>
        rw [hr] at h
        cases h
        exact (RTree.isNode_cons _ 1 q).mpr ⟨_, rfl, ihr q hr⟩
      | none => rw [hr] at h; cases h

theorem leafSpecies_toOTree (data : LeafData) (bS : BinT) : ∀ bO : BinT,
    leafSpecies (toOTree data bS bO) = bO.leaves.map (fun i => (bS.pathOf (data i).1).getD []) := by
  intro bO
  induction bO with
  | leaf i => rfl
  | node a l r ihl ihr => simp [toOTree, leafSpecies, BinT.leaves, ihl, ihr]

/-- **Original leaf data**: the leaves of the binary input carry, in the order of the
    leaves of the object refinement, the synteny given for that leaf. -/
theorem leafSyntenies_toOTree (data : LeafData) (bS : BinT) : ∀ bO : BinT,
    leafSyntenies (toOTree data bS bO) = bO.leaves.map (fun i => (data i).2) := by
  intro bO
  induction bO with
  | leaf i => rfl
  | node a l r ihl ihr => simp [toOTree, leafSyntenies, BinT.leaves, ihl, ihr]

theorem leafSpecies_toOTree_isNode (data : LeafData) (bS bO : BinT)
    (h : ∀ i ∈ bO.leaves, (data i).1 ∈ bS.leaves) :
    ∀ p ∈ leafSpecies (toOTree data bS bO), (shape bS.toN).isNode p = true := by
  intro p hp
  rw [leafSpecies_toOTree, List.mem_map] at hp
  obtain ⟨i, hi, rfl⟩ := hp
  have hs := BinT.pathOf_isSome (h i hi)
  cases hq : bS.pathOf (data i).1 with
  | none => rw [hq] at hs; cases hs
  | some q => exact isNode_pathOf _ bS q hq

theorem leafSyntenies_toOTree_ne (data : LeafData) (bS bO : BinT)
    (h : ∀ i ∈ bO.leaves, (data i).2 ≠ []) :
    ∀ f ∈ leafSyntenies (toOTree data bS bO), f ≠ [] := by
  intro f hf
  rw [leafSyntenies_toOTree, List.mem_map] at hf
  obtain ⟨i, hi, rfl⟩ := hf
  exact h i hi

/-! ### Non-emptiness -/

theorem dfact_pos : ∀ n : Nat, 0 < Spec.dfact n
  | 0 => by simp [Spec.dfact]
  | 1 => by simp [Spec.dfact]
  | n + 2 => by
    rw [Spec.dfact]
    exact Nat.mul_pos (by omega) (dfact_pos n)

mutual
  theorem refCount_pos : ∀ t : NTree, 0 < Spec.refCount t
    | .leaf _ => by simp [Spec.refCount]
    | .node _ cs => by
      rw [Spec.refCount]
      exact Nat.mul_pos (dfact_pos _) (refCountList_pos cs)
  theorem refCountList_pos : ∀ cs : List NTree, 0 < Spec.refCountList cs
    | [] => by simp [Spec.refCountList]
    | c :: cs => by
      rw [Spec.refCountList]
      exact Nat.mul_pos (refCount_pos c) (refCountList_pos cs)
end

/-- A well-formed tree has at least one refinement in `binarize`. -/
theorem binarize_ne_nil (t : NTree) (hwf : t.WF = true) : binarize t ≠ [] := by
  intro e
  have h := length_binarize t hwf
  rw [e] at h
  have := refCount_pos t
  simp at h
  omega

theorem rankOuts_ne_nil (c : Costs) (mode : LabelMode) (data : LeafData) (outs : List Out)
    (h : outs ≠ []) : rankOuts c mode data outs ≠ [] := by
  obtain ⟨x0, hx0⟩ := List.exists_mem_of_ne_nil _ h
  rcases Cost.minList_mem_or_inf (outs.map (Out.cost c mode data)) with e | hm
  · -- every offered output has infinite cost
    have hall : ∀ y ∈ outs, y.cost c mode data = .inf := by
      intro y hy
      have := Cost.minList_le (l := outs.map (Out.cost c mode data)) (List.mem_map.mpr ⟨y, hy, rfl⟩)
      rw [e] at this
      exact Cost.le_antisymm (Cost.le_inf _) this
    exact List.ne_nil_of_mem ((mem_rankOuts c mode data outs x0).mpr
      ⟨hx0, fun y hy => by rw [hall y hy]; exact Cost.le_inf _⟩)
  · obtain ⟨y, hy, hc⟩ := List.mem_map.mp hm
    exact List.ne_nil_of_mem ((mem_rankOuts c mode data outs y).mpr
      ⟨hy, fun z hz => by
        rw [hc]
        exact Cost.minList_le (l := outs.map (Out.cost c mode data)) (List.mem_map.mpr ⟨z, hz, rfl⟩)⟩)

/-! ### Representatives of spec-level refinements -/

/-- Every pair of binary refinements (any child order) of a well-formed input with
    distinct leaves is represented in `binarize tO × binarize tS` by a pair whose binary
    input carries the same valid solutions at the same costs, in both directions. -/
theorem exists_binarize_transfers (data : LeafData) (tO tS : NTree)
    (hwO : tO.WF = true) (hwS : tS.WF = true) (hnO : tO.leaves.Nodup) (hnS : tS.leaves.Nodup)
    (rO rS : BinT) (hrO : Spec.IsRefinement rO.toN tO) (hrS : Spec.IsRefinement rS.toN tS) :
    ∃ bO ∈ binarize tO, ∃ bS ∈ binarize tS, BinT.Equiv bO rO ∧ BinT.Equiv bS rS ∧
      Transfers (toOTree data rS rO) (toOTree data bS bO) ∧
      Transfers (toOTree data bS bO) (toOTree data rS rO) := by
  obtain ⟨bO, hbO, heO⟩ := binarize_complete tO hwO hnO rO (ref_of_isRefinement hrO)
  obtain ⟨bS, hbS, heS⟩ := binarize_complete tS hwS hnS rS (ref_of_isRefinement hrS)
  have hndr : rS.leaves.Nodup := by
    have := hrS.2.1
    rw [BinT.leaves_toN] at this
    exact this.nodup_iff.mpr hnS
  have hndb : bS.leaves.Nodup := heS.leaves_perm.nodup_iff.mpr hndr
  exact ⟨bO, hbO, bS, hbS, heO, heS, transfers_equiv data heO.symm heS.symm hndr,
    transfers_equiv data heO heS hndb⟩

/-! ### The generic statement -/

/-- See the header.  `cands` are the per-pair candidates (`spfsCands`, `uspfsCands`). -/
theorem multi_opt_all (c : Costs) (mode : LabelMode) (tO tS : NTree) (data : LeafData)
    (cands : RTree → OTree → List Sol)
    (hwO : tO.WF = true) (hwS : tS.WF = true) (hnO : tO.leaves.Nodup) (hnS : tS.leaves.Nodup)
    (hA : ∀ bO ∈ binarize tO, ∀ bS ∈ binarize tS,
      ∀ s ∈ rankByCost c mode (toOTree data bS bO) (cands (shape bS.toN) (toOTree data bS bO)),
        Spec.validSol mode (toOTree data bS bO) s = true ∧
        ∀ s', Spec.validSol mode (toOTree data bS bO) s' = true →
          Cost.le (totalCost c mode (toOTree data bS bO) s) (totalCost c mode (toOTree data bS bO) s') = true)
    (hB : ∀ bO ∈ binarize tO, ∀ bS ∈ binarize tS,
      ∀ s', Spec.validSol mode (toOTree data bS bO) s' = true →
        totalCost c mode (toOTree data bS bO) s' ≠ .inf →
        rankByCost c mode (toOTree data bS bO) (cands (shape bS.toN) (toOTree data bS bO)) ≠ [])
    (x : Out) (hx : x ∈ rankOuts c mode data (multiCands tO tS data cands)) :
    (x.oTree ∈ binarize tO ∧ x.sTree ∈ binarize tS) ∧
    IsOptimalFor (fun s => Spec.validSol mode (toOTree data x.sTree x.oTree) s = true)
      (totalCost c mode (toOTree data x.sTree x.oTree)) x.sol ∧
    ∀ rO rS : BinT, Spec.IsRefinement rO.toN tO → Spec.IsRefinement rS.toN tS →
      ∀ s', Spec.validSol mode (toOTree data rS rO) s' = true →
        Cost.le (x.cost c mode data) (totalCost c mode (toOTree data rS rO) s') = true := by
  obtain ⟨⟨hO, hS, _⟩, hmin⟩ := (mem_rank_multi c mode tO tS data cands x).mp hx
  refine ⟨⟨hO, hS⟩, hA _ hO _ hS _ (sol_mem_rankByCost_of_mem_rank_multi hx), ?_⟩
  intro rO rS hrO hrS s' hs'
  obtain ⟨bO, hbO, bS, hbS, _, _, htr, _⟩ :=
    exists_binarize_transfers data tO tS hwO hwS hnO hnS rO rS hrO hrS
  obtain ⟨s'', hv'', hc''⟩ := htr.exists_valid c mode s' hs'
  rw [← hc'']
  by_cases hinf : totalCost c mode (toOTree data bS bO) s'' = .inf
  · rw [hinf]; exact Cost.le_inf _
  · obtain ⟨s, hs⟩ := List.exists_mem_of_ne_nil _ (hB bO hbO bS hbS s'' hv'' hinf)
    have hsc := ((mem_rankByCost _ _ _ _ _).mp hs).1
    exact Cost.le_trans (hmin bO hbO bS hbS s hsc) ((hA bO hbO bS hbS s hs).2 s'' hv'')

end SR.Bin
