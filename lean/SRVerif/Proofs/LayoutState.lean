/-
  Basic lemmas for the layout model: the association-list state, the object
  tree traversal, post-order of the species tree.
-/
import SRVerif.Model.Layout
import SRVerif.Proofs.Paths

namespace SR.Layout

open SR

/-! ### Observations of a state -/

def brs (st : LState) (s : Path) : List Branch :=
  match getSp st s with
  | some x => x.branches
  | none => []

def ancs (st : LState) (s : Path) : List Key :=
  match getSp st s with
  | some x => x.anchors
  | none => []

def skeys (st : LState) : List Path := st.map (·.1)

def keysOf (l : List Branch) : List Key := l.map (·.key)

@[simp] theorem keysOf_append (a b : List Branch) : keysOf (a ++ b) = keysOf a ++ keysOf b := by
  simp [keysOf]

theorem getSp_modifySp (f : SpState → SpState) (st : LState) (s t : Path) :
    getSp (modifySp f st s) t = if t = s then (getSp st s).map f else getSp st t := by
  induction st with
  | nil => simp [modifySp, getSp]
  | cons e rest ih =>
    obtain ⟨k, v⟩ := e
    by_cases hk : k = s
    · subst hk
      by_cases ht : t = k
      · subst ht; simp [modifySp, getSp]
      · have : ¬ k = t := fun h => ht h.symm
        simp [modifySp, getSp, ht, this]
    · by_cases ht : t = s
      · subst ht
        simp [modifySp, getSp, hk, ih]
      · by_cases hkt : k = t
        · subst hkt; simp [modifySp, getSp, hk]
        · simp [modifySp, getSp, hk, hkt, ih, ht]

theorem skeys_modifySp (f : SpState → SpState) (st : LState) (s : Path) :
    skeys (modifySp f st s) = skeys st := by
  induction st with
  | nil => simp [modifySp, skeys]
  | cons e rest ih =>
    obtain ⟨k, v⟩ := e
    by_cases hk : k = s
    · simp [modifySp, skeys, hk]
    · simp only [skeys] at ih
      simp [modifySp, skeys, hk, ih]

theorem getSp_isSome_iff (st : LState) (s : Path) : (getSp st s).isSome ↔ s ∈ skeys st := by
  induction st with
  | nil => simp [getSp, skeys]
  | cons e rest ih =>
    obtain ⟨k, v⟩ := e
    by_cases hk : k = s
    · simp [getSp, skeys, hk]
    · have : ¬ s = k := fun h => hk h.symm
      simp only [skeys] at ih
      simp [getSp, skeys, hk, ih, this]

theorem getSp_some_of_mem {st : LState} {s : Path} (h : s ∈ skeys st) : ∃ x, getSp st s = some x := by
  have := (getSp_isSome_iff st s).2 h
  exact Option.isSome_iff_exists.1 this

theorem getSp_append_new (st : LState) (s t : Path) (v : SpState) :
    getSp (st ++ [(s, v)]) t =
      match getSp st t with
      | some x => some x
      | none => if s = t then some v else none := by
  induction st with
  | nil => simp [getSp]
  | cons e rest ih =>
    obtain ⟨k, w⟩ := e
    by_cases hk : k = t
    · simp [getSp, hk]
    · simp [getSp, hk, ih]

theorem brs_modifySp (f : SpState → SpState) (st : LState) (s t : Path) :
    brs (modifySp f st s) t =
      if t = s then (match getSp st s with | some x => (f x).branches | none => []) else brs st t := by
  unfold brs
  rw [getSp_modifySp]
  by_cases h : t = s
  · subst h; simp only [if_true]; cases getSp st t <;> rfl
  · simp [h]

theorem ancs_modifySp (f : SpState → SpState) (st : LState) (s t : Path) :
    ancs (modifySp f st s) t =
      if t = s then (match getSp st s with | some x => (f x).anchors | none => []) else ancs st t := by
  unfold ancs
  rw [getSp_modifySp]
  by_cases h : t = s
  · subst h; simp only [if_true]; cases getSp st t <;> rfl
  · simp [h]

theorem modifySp_congr {f g : SpState → SpState} {st : LState} {s : Path} {x : SpState}
    (h : getSp st s = some x) (hfg : f x = g x) : modifySp f st s = modifySp g st s := by
  induction st with
  | nil => rfl
  | cons e rest ih =>
    obtain ⟨k, v⟩ := e
    by_cases hk : k = s
    · simp only [getSp, hk, if_true, Option.some.injEq] at h
      subst h
      simp [modifySp, hk, hfg]
    · simp only [getSp, hk, if_false] at h
      simp [modifySp, hk, ih h]

theorem mem_setAdd {l : List Key} {k a : Key} : a ∈ setAdd l k ↔ a ∈ l ∨ a = k := by
  unfold setAdd
  split
  · constructor
    · exact Or.inl
    · rintro (h | h)
      · exact h
      · subst h; assumption
  · simp

/-! ### The object tree -/

def subAt : Sol → Path → Option Sol
  | sol, [] => some sol
  | .node _ _ l r, i :: p => if i = 0 then subAt l p else if i = 1 then subAt r p else none
  | .leaf _ _, _ :: _ => none

theorem subAt_append : ∀ (sol : Sol) (p q : Path),
    subAt sol (p ++ q) = (subAt sol p).bind (fun x => subAt x q) := by
  intro sol p
  induction p generalizing sol with
  | nil => intro q; simp [subAt]
  | cons i p ih =>
    intro q
    cases sol with
    | leaf s f => simp [subAt]
    | node s f l r =>
      simp only [List.cons_append, subAt]
      split
      · exact ih l q
      · split
        · exact ih r q
        · rfl

theorem mem_genesPost : ∀ (sol : Sol) (p0 p : Path) (sub : Sol),
    (p, sub) ∈ genesPost sol p0 ↔ ∃ q, p = p0 ++ q ∧ subAt sol q = some sub := by
  intro sol
  induction sol with
  | leaf s f =>
    intro p0 p sub
    simp only [genesPost, List.mem_singleton, Prod.mk.injEq]
    constructor
    · rintro ⟨rfl, rfl⟩; exact ⟨[], by simp, rfl⟩
    · rintro ⟨q, rfl, h⟩
      cases q with
      | nil => simp [subAt] at h; simp [h]
      | cons i q => simp [subAt] at h
  | node s f l r ihl ihr =>
    intro p0 p sub
    simp only [genesPost, List.mem_append, List.mem_singleton, Prod.mk.injEq, ihl, ihr]
    constructor
    · rintro ((⟨q, rfl, h⟩ | ⟨q, rfl, h⟩) | ⟨rfl, rfl⟩)
      · exact ⟨0 :: q, by simp, by simp [subAt, h]⟩
      · exact ⟨1 :: q, by simp, by simp [subAt, h]⟩
      · exact ⟨[], by simp, rfl⟩
    · rintro ⟨q, rfl, h⟩
      cases q with
      | nil => simp [subAt] at h; right; simp [h]
      | cons i q =>
        simp only [subAt] at h
        left
        split at h
        · left; subst i; exact ⟨q, by simp, h⟩
        · split at h
          · right; subst i; exact ⟨q, by simp, h⟩
          · cases h

/-! ### Post-order of the species tree -/

/-- Later elements are never descendants-or-self of earlier ones… stated the
    way it is used: an earlier element is not an ancestor-or-self of a later one. -/
def NoLaterDesc (l : List Path) : Prop := l.Pairwise (fun a b => Path.isAnc a b = false)

theorem postorderList_head : ∀ (cs : List RTree) (i : Nat) (p : Path), p ∈ RTree.postorderList cs i →
    ∃ j q, p = j :: q ∧ i ≤ j := by
  intro cs
  induction cs with
  | nil => intro i p h; simp [RTree.postorderList] at h
  | cons c cs ih =>
    intro i p h
    simp only [RTree.postorderList, List.mem_append, List.mem_map] at h
    rcases h with ⟨q, _, rfl⟩ | h
    · exact ⟨i, q, rfl, Nat.le_refl i⟩
    · obtain ⟨j, q, rfl, hj⟩ := ih (i + 1) p h
      exact ⟨j, q, rfl, by omega⟩

mutual
  theorem postorder_noLaterDesc : ∀ t : RTree, NoLaterDesc t.postorder
    | .node cs => by
      simp only [RTree.postorder, NoLaterDesc, List.pairwise_append, List.pairwise_cons,
        List.Pairwise.nil, List.mem_singleton, and_true]
      refine ⟨postorderList_noLaterDesc cs 0, by simp, ?_⟩
      intro a ha b hb
      subst hb
      obtain ⟨j, q, rfl, _⟩ := postorderList_head cs 0 a ha
      simp [Path.isAnc]
  theorem postorderList_noLaterDesc : ∀ (cs : List RTree) (i : Nat),
      NoLaterDesc (RTree.postorderList cs i)
    | [], i => by simp [RTree.postorderList, NoLaterDesc]
    | c :: cs, i => by
      simp only [RTree.postorderList, NoLaterDesc, List.pairwise_append, List.pairwise_map]
      refine ⟨?_, postorderList_noLaterDesc cs (i + 1), ?_⟩
      · have := postorder_noLaterDesc c
        refine List.Pairwise.imp ?_ this
        intro a b h
        simp [Path.isAnc, h]
      · intro a ha b hb
        simp only [List.mem_map] at ha
        obtain ⟨q, _, rfl⟩ := ha
        obtain ⟨j, q', rfl, hj⟩ := postorderList_head cs (i + 1) b hb
        have : ¬ i = j := by omega
        simp [Path.isAnc, this]
end

theorem mem_postorderList (cs : List RTree) (i : Nat) (k : Nat) (c : RTree) (q : Path)
    (hc : cs[k]? = some c) (hq : q ∈ c.postorder) : (i + k) :: q ∈ RTree.postorderList cs i := by
  induction cs generalizing i k with
  | nil => simp at hc
  | cons d cs ih =>
    cases k with
    | zero =>
      simp only [List.getElem?_cons_zero, Option.some.injEq] at hc
      subst hc
      simp only [RTree.postorderList, List.mem_append, List.mem_map]
      left; exact ⟨q, hq, by simp⟩
    | succ k =>
      simp only [List.getElem?_cons_succ] at hc
      simp only [RTree.postorderList, List.mem_append]
      right
      have := ih (i + 1) k hc
      have e : i + 1 + k = i + (k + 1) := by omega
      rw [e] at this
      exact this

theorem mem_postorder_of_isNode : ∀ (p : Path) (t : RTree), t.isNode p = true → p ∈ t.postorder := by
  intro p
  induction p with
  | nil =>
    intro t _
    cases t with
    | node cs => simp [RTree.postorder]
  | cons i p ih =>
    intro t h
    cases t with
    | node cs =>
      simp only [RTree.isNode, RTree.sub] at h
      cases hc : cs[i]? with
      | none => simp [hc] at h
      | some c =>
        simp only [hc] at h
        have hq := ih c (by simpa [RTree.isNode] using h)
        simp only [RTree.postorder, List.mem_append, List.mem_singleton]
        left
        have := mem_postorderList cs 0 i c p hc hq
        simpa using this

/-- Every node of the tree below-or-equal to `s` has been visited once `s` is reached. -/
theorem desc_before {S : RTree} {done rest : List Path} {s t : Path}
    (hsplit : S.postorder = done ++ s :: rest) (ht : S.isNode t = true)
    (hanc : Path.isAnc s t = true) : t ∈ done ++ [s] := by
  have hmem := mem_postorder_of_isNode t S ht
  rw [hsplit] at hmem
  have hp := postorder_noLaterDesc S
  rw [hsplit] at hp
  simp only [List.mem_append, List.mem_cons] at hmem
  rcases hmem with h | rfl | h
  · simp [h]
  · simp
  · exfalso
    simp only [NoLaterDesc, List.pairwise_append, List.pairwise_cons] at hp
    have := hp.2.1.1 t h
    rw [hanc] at this
    cases this

theorem postorder_nodup (S : RTree) : S.postorder.Nodup := by
  have hp := postorder_noLaterDesc S
  refine List.Pairwise.imp ?_ hp
  intro a b h hab
  subst hab
  rw [Path.isAnc_refl] at h
  cases h

end SR.Layout
