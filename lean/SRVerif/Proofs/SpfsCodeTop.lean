/-
  The outer loops of `_spfs` in the code-structured model:

  * `results_eq`       the loops over root orderings and root species offer, batch after
      batch, the candidates `Candidate(output.cost(), output)` of every decoded output to
      one result entry;
  * `mem_results`      under ALL the result entry keeps exactly the decoded outputs of
      minimum evaluated cost (all of them when every cost is infinite — as `rankByCost`);
  * `mem_decoded`      the decoded outputs are those of the label-DP model (`decode_rel`);
  * `rootOrderings_none`  `toposort_all(_make_prec_graph(leaf_syntenies))` succeeds and lists
      exactly `rootOrders o none` (C19: `precGraph_*`, `toposortAll_spec`).
-/
import SRVerif.Proofs.SpfsCodeDecode
import SRVerif.Proofs.ToposortPrec
import SRVerif.Proofs.OptAdequacyOrd

/-- Decidable equality of results that may be errors (for the `decide` examples). -/
instance {ε α : Type} [DecidableEq ε] [DecidableEq α] : DecidableEq (Except ε α)
  | .ok a, .ok b => if h : a = b then isTrue (by rw [h]) else isFalse (by intro e; cases e; exact h rfl)
  | .error a, .error b =>
    if h : a = b then isTrue (by rw [h]) else isFalse (by intro e; cases e; exact h rfl)
  | .ok _, .error _ => isFalse (by intro e; cases e)
  | .error _, .ok _ => isFalse (by intro e; cases e)

namespace SR.SpfsCode

open Cost Path

/-! ### The result entry -/

theorem foldl_update_flatMap {τ α : Type} [DecidableEq τ] (g : α → List (Cand τ)) (xs : List α)
    (e : Entry τ) : xs.foldl (fun res x => res.update (g x)) e = e.update (xs.flatMap g) := by
  induction xs generalizing e with
  | nil => simp [Entry.update]
  | cons x xs ih => simp [ih, Entry.update_append]

/-- All candidates offered to the result entry. -/
def allOutputs (c : Costs) (S : RTree) (base : Bool) (ret : Retain) (o : OTree)
    (orders : List (List Nat)) : List (Cand Sol) :=
  orders.flatMap fun order =>
    (levelorder S).flatMap fun rootSp =>
      outputs c o order (computeTable c S base ret order true o) rootSp

theorem results_eq (c : Costs) (S : RTree) (base : Bool) (ret : Retain) (o : OTree)
    (orders : List (List Nat)) :
    results c S base ret o orders =
      (Entry.init .min ret).update (allOutputs c S base ret o orders) := by
  unfold results allOutputs
  simp only [foldl_update_flatMap]

/-- The outputs decoded over all root orderings and root species. -/
def Decoded (c : Costs) (S : RTree) (base : Bool) (o : OTree) (orders : List (List Nat))
    (sol : Sol) : Prop :=
  ∃ order ∈ orders, ∃ rootSp ∈ levelorder S,
    sol ∈ decodeTable order (computeTable c S base .all order true o) rootSp (subseqComplete order)

theorem mem_allOutputs (c : Costs) (S : RTree) (base : Bool) (o : OTree) (orders : List (List Nat))
    (x : Cand Sol) :
    x ∈ allOutputs c S base .all o orders ↔
      ∃ sol, Decoded c S base o orders sol ∧ x = ⟨(totalCost c .ordered o sol).toExt, some sol⟩ := by
  simp only [allOutputs, outputs, List.mem_flatMap, List.mem_map, Decoded]
  constructor
  · rintro ⟨order, ho, rs, hrs, sol, hsol, rfl⟩; exact ⟨sol, ⟨order, ho, rs, hrs, hsol⟩, rfl⟩
  · rintro ⟨sol, ⟨order, ho, rs, hrs, hsol⟩, rfl⟩; exact ⟨order, ho, rs, hrs, sol, hsol, rfl⟩

/-- **The result entry under ALL** keeps exactly the decoded outputs of minimum evaluated
    cost, each once. -/
theorem mem_results (c : Costs) (S : RTree) (base : Bool) (o : OTree) (orders : List (List Nat))
    (sol : Sol) :
    (sol ∈ (results c S base .all o orders).infos ↔
      Decoded c S base o orders sol ∧
      ∀ sol', Decoded c S base o orders sol' →
        Cost.le (totalCost c .ordered o sol) (totalCost c .ordered o sol') = true) ∧
    (results c S base .all o orders).infos.Nodup := by
  have inv : Entry.Inv .min .all (allOutputs c S base .all o orders)
      (results c S base .all o orders) := by
    rw [results_eq]
    simpa using Entry.inv_update (Entry.inv_init (τ := Sol) .min .all)
      (allOutputs c S base .all o orders)
  refine ⟨?_, inv.nodup⟩
  rw [inv.all rfl sol]
  constructor
  · rintro ⟨x, hx, hi, hv⟩
    obtain ⟨sol0, hdec, rfl⟩ := (mem_allOutputs c S base o orders x).mp hx
    simp only at hi hv
    injection hi with hi
    subst hi
    refine ⟨hdec, ?_⟩
    intro sol' hdec'
    have hopt := inv.optimal _ ((mem_allOutputs c S base o orders _).mpr ⟨sol', hdec', rfl⟩)
    rw [← hv] at hopt
    simp only [Entry.better, Cost.toExt_lt] at hopt
    simp [Cost.le, hopt]
  · rintro ⟨hdec, hmin⟩
    have hx := (mem_allOutputs c S base o orders _).mpr ⟨sol, hdec, rfl⟩
    refine ⟨_, hx, rfl, ?_⟩
    have hopt := inv.optimal _ hx
    simp only [Entry.better] at hopt
    rcases inv.attained with h | ⟨y, hy, h⟩
    · rw [h] at hopt ⊢
      simp only [Entry.sentinel, if_true] at hopt ⊢
      exact ExtInt.lt_posInf_false hopt
    · obtain ⟨sol', hdec', rfl⟩ := (mem_allOutputs c S base o orders y).mp hy
      simp only at h
      rw [← h] at hopt ⊢
      rw [Cost.toExt_lt] at hopt
      have h1 := hmin sol' hdec'
      have h2 : Cost.le (totalCost c .ordered o sol') (totalCost c .ordered o sol) = true := by
        simp [Cost.le, hopt]
      rw [Cost.le_antisymm h1 h2]

/-! ### Decoded outputs = those of the label-DP model -/

theorem mem_decoded (c : Costs) (S : RTree) (base : Bool) (o : OTree) (orders : List (List Nat))
    (hS : ∀ p ∈ leafSpecies o, S.isNode p = true) (hlv : ∀ order ∈ orders, LeavesOk order o)
    (sol : Sol) :
    Decoded c S base o orders sol ↔
      ∃ order ∈ orders, ∃ d ∈ spfsCellsFor c S base true o order, ∃ ls ∈ d.sols,
        ordSol order ls = sol := by
  simp only [Decoded, spfsCellsFor, List.mem_filter, beq_iff_eq]
  constructor
  · rintro ⟨order, ho, rs, _, hsol⟩
    obtain ⟨d, hd, _, hlab, ls, hls, rfl⟩ :=
      (decode_rel c S base order o hS (hlv order ho) true rs _ sol).mp hsol
    exact ⟨order, ho, d, ⟨hd, hlab⟩, ls, hls, rfl⟩
  · rintro ⟨order, ho, d, ⟨hd, hlab⟩, ls, hls, rfl⟩
    have hnode := (table_rel c S base order o hS (hlv order ho) true true).node d hd
    exact ⟨order, ho, d.sp, (mem_levelorder S _).mpr hnode,
      (decode_rel c S base order o hS (hlv order ho) true d.sp _ _).mpr
        ⟨d, hd, rfl, hlab, ls, hls, rfl⟩⟩

/-! ### Root orderings -/

theorem mem_flatten_leafSyntenies (o : OTree) (v : Nat) :
    v ∈ families o ↔ ∃ s ∈ leafSyntenies o, v ∈ s := by
  simp only [families, mem_dedup, List.mem_flatten]

/-- `toposort_all(_make_prec_graph(leaf_syntenies))` raises nothing and enumerates exactly the
    root orders of the specification-level model (`rootOrders`), each once. -/
theorem rootOrderings_none (l r : OTree) (hne : ∀ f ∈ leafSyntenies (.node l r), f ≠ []) :
    ∃ os, rootOrderings (.node l r) none = .ok os ∧ os.Nodup ∧
      ∀ order, order ∈ os ↔ order ∈ rootOrders (.node l r) none := by
  obtain ⟨g, hg⟩ := (Toposort.precGraph_total (leafSyntenies (.node l r))).2 hne
  obtain ⟨os, h, hn, hm⟩ := Toposort.toposortAll_spec (Toposort.precGraph_spec hg).1
  refine ⟨os, by simp only [rootOrderings, hg, h], hn, ?_⟩
  intro order
  rw [(hm order).trans (Toposort.precGraph_isTopo hg order)]
  simp only [rootOrders, List.mem_filter, List.all_eq_true, isSublist_iff]
  constructor
  · rintro ⟨hnd, hmem, hsub⟩
    refine ⟨Spec.mem_permutations_of_perm _ _ ?_, hsub⟩
    apply (List.perm_ext_iff_of_nodup hnd (nodup_dedup _)).mpr
    intro v
    rw [hmem v]
    exact (mem_flatten_leafSyntenies _ v).symm
  · rintro ⟨hperm, hsub⟩
    obtain ⟨hmem, hnd⟩ := mem_permutations _ _ hperm
    refine ⟨hnd (nodup_dedup _), ?_, hsub⟩
    intro v
    rw [hmem v]
    exact mem_flatten_leafSyntenies _ v

end SR.SpfsCode
