/-
  Counting the statements of a drawing: how many event nodes, loss markers and
  transfer arrows one branch contributes (`coreStmts`), and sums of indicator
  functions over the branches of a state.
-/
import SRVerif.Proofs.BranchesDraw

namespace SR.Layout

open SR

def isEventOf (k : Key) : Stmt → Bool
  | .event k' _ => k' == k
  | _ => false

def isLossMarker : Stmt → Bool
  | .lossMarker _ => true
  | _ => false

def isTransfer (src tgt : Key) : Stmt → Bool
  | .transfer a b => a == src && b == tgt
  | _ => false

theorem count_event (k : Key) (b : Branch) (h1 : b.kind ≠ .loss)
    (h2 : b.kind = .hgt → ∃ t, b.right = some t) :
    ((coreStmts b).filter (isEventOf k)).length = if b.key = k then 1 else 0 := by
  obtain ⟨key, kind, left, right⟩ := b
  cases kind
  case loss => exact absurd rfl h1
  case hgt =>
    obtain ⟨t, ht⟩ := h2 rfl
    simp only at ht
    subst ht
    by_cases hk : key = k <;> simp [coreStmts, isEventOf, hk]
  all_goals by_cases hk : key = k <;> simp [coreStmts, isEventOf, hk]

theorem count_event_loss (k : Key) (b : Branch) (h1 : b.kind = .loss) :
    ((coreStmts b).filter (isEventOf k)).length = 0 := by
  obtain ⟨key, kind, left, right⟩ := b
  simp only at h1
  subst h1
  simp [coreStmts, isEventOf]

theorem count_lossMarker (b : Branch) :
    ((coreStmts b).filter isLossMarker).length = if b.kind = .loss then 1 else 0 := by
  obtain ⟨key, kind, left, right⟩ := b
  cases kind
  case hgt => cases right <;> rfl
  all_goals rfl

theorem count_transfer_ne (src tgt : Key) (b : Branch) (h : b.key ≠ src) :
    ((coreStmts b).filter (isTransfer src tgt)).length = 0 := by
  obtain ⟨key, kind, left, right⟩ := b
  simp only at h
  cases kind
  case hgt => cases right <;> simp [coreStmts, isTransfer, h]
  all_goals simp [coreStmts, isTransfer]

theorem count_transfer_eq (src tgt : Key) (b : Branch) (hk : b.key = src) (hkind : b.kind = .hgt)
    (hr : b.right = some tgt) : ((coreStmts b).filter (isTransfer src tgt)).length = 1 := by
  obtain ⟨key, kind, left, right⟩ := b
  simp only at hk hkind hr
  subst hk hkind hr
  simp [coreStmts, isTransfer]

theorem sum_indicator {k : Key} {f : Branch → Nat} : ∀ B : List Branch,
    (∀ b ∈ B, f b = if b.key = k then 1 else 0) →
    (B.map f).sum = (B.filter fun b => b.key = k).length := by
  intro B
  induction B with
  | nil => intro _; rfl
  | cons b B ih =>
    intro h
    have hb := h b (List.mem_cons_self ..)
    have := ih (fun x hx => h x (List.mem_cons_of_mem _ hx))
    by_cases hk : b.key = k
    · simp only [hk, if_true] at hb
      simp [hk, hb, this]; omega
    · simp only [hk, if_false] at hb
      simp [hk, hb, this]

theorem sum_indicator_kind {f : Branch → Nat} : ∀ B : List Branch,
    (∀ b ∈ B, f b = if b.kind = .loss then 1 else 0) →
    (B.map f).sum = (B.filter fun b => b.kind == .loss).length := by
  intro B
  induction B with
  | nil => intro _; rfl
  | cons b B ih =>
    intro h
    have hb := h b (List.mem_cons_self ..)
    have := ih (fun x hx => h x (List.mem_cons_of_mem _ hx))
    by_cases hk : b.kind = .loss
    · simp only [hk, if_true] at hb
      simp [hk, hb, this]; omega
    · simp only [hk, if_false] at hb
      simp [hk, hb, this]

theorem mem_allBranches {S : RTree} {st : LState} {b : Branch} :
    b ∈ allBranches S st ↔ ∃ t ∈ S.postorder, b ∈ brs st t := by
  simp [allBranches, List.mem_flatMap]

/-- Length of a filtered drawing as a sum over the branches. -/
theorem length_filter_of_perm {ss : List Stmt} {B : List Branch} {q : Stmt → Bool}
    (h : (ss.filter q).Perm (B.flatMap fun b => (coreStmts b).filter q)) :
    (ss.filter q).length = (B.map fun b => ((coreStmts b).filter q).length).sum := by
  rw [h.length_eq, List.length_flatMap]

end SR.Layout
