/-
  Helpers for C10 "single family", unordered solvers: when every leaf carries the same
  single family `f`, every `lcaSet` of `_compute_lca_sets` is `[f]`, the family is
  gained at the root only, a labelling of finite cost whose root is LCA carries LCA
  everywhere, its edge charges vanish, the materialised contents are all `[f]`, and the
  evaluator charges no segmental loss.
-/
import SRVerif.Proofs.C10Single
import SRVerif.Proofs.LcaMapOpt
import SRVerif.Proofs.LabelDPInst

namespace SR.C10

open Cost Path

/-! ### Gains and `lcaSet`s -/

theorem leafPaths_ne_nil (o : OTree) : leafPaths o ≠ [] := by
  induction o with
  | leaf sp g => simp [leafPaths]
  | node l r ihl _ => simp [leafPaths, ihl]

theorem leafPaths_single {f : Nat} {o : OTree} (h : SingleFam f o) :
    ∀ q ∈ leafPaths o, q.2 = [f] := by
  induction o with
  | leaf sp g => intro q hq; simp only [leafPaths, List.mem_singleton] at hq; subst hq; exact h
  | node l r ihl ihr =>
    intro q hq
    simp only [leafPaths, List.mem_append, List.mem_map] at hq
    rcases hq with ⟨q', hq', rfl⟩ | ⟨q', hq', rfl⟩
    · exact ihl h.1 q' hq'
    · exact ihr h.2 q' hq'

/-- The leaf paths of an input have no common non-empty prefix. -/
theorem lcpAll_leafPaths (o : OTree) : lcpAll ((leafPaths o).map (·.1)) = [] := by
  cases o with
  | leaf sp g => rfl
  | node l r =>
    obtain ⟨ql, hql⟩ := List.exists_mem_of_ne_nil _ (leafPaths_ne_nil l)
    obtain ⟨qr, hqr⟩ := List.exists_mem_of_ne_nil _ (leafPaths_ne_nil r)
    have hne : (leafPaths (.node l r)).map (·.1) ≠ [] := by
      simp [leafPaths_ne_nil]
    have h := (isAnc_lcpAll (lcpAll ((leafPaths (.node l r)).map (·.1))) hne).mp (isAnc_refl _)
    have h0 := h (0 :: ql.1) (by
      simp only [leafPaths, List.map_append, List.map_map, List.mem_append, List.mem_map]
      exact Or.inl ⟨ql, hql, rfl⟩)
    have h1 := h (1 :: qr.1) (by
      simp only [leafPaths, List.map_append, List.map_map, List.mem_append, List.mem_map]
      exact Or.inr ⟨qr, hqr, rfl⟩)
    generalize lcpAll ((leafPaths (.node l r)).map (·.1)) = z at h0 h1
    cases z with
    | nil => rfl
    | cons x xs =>
      rw [isAnc_cons_cons] at h0 h1
      simp only [Bool.and_eq_true, beq_iff_eq] at h0 h1
      omega

/-- With a single family, nothing is gained below the root. -/
theorem gainsAt_single {f : Nat} {whole : OTree} (h : SingleFam f whole) {q : Path} (hq : q ≠ []) :
    gainsAt whole q = [] := by
  simp only [gainsAt, families_single h]
  have hfil : (leafPaths whole).filter (fun p => p.2.contains f) = leafPaths whole := by
    rw [List.filter_eq_self]
    intro p hp
    rw [leafPaths_single h p hp]; simp
  simp only [List.filter_cons, List.filter_nil, hfil, lcpAll_leafPaths]
  have : ([] == q) = false := by
    cases q with
    | nil => exact absurd rfl hq
    | cons x xs => rfl
  simp [this]

theorem annUn_gain (S : RTree) (base : Bool) (whole o : OTree) (p : Path) :
    (annUn S base whole p o).data.gain = gainsAt whole p := by
  cases o <;> rfl

/-- The annotation of an internal node. -/
def unNodeAnn (S : RTree) (base : Bool) (whole : OTree) (p : Path) (l r : OTree) : UnAnn :=
  (annUn S base whole p (.node l r)).data

theorem annUn_node (S : RTree) (base : Bool) (whole : OTree) (p : Path) (l r : OTree) :
    annUn S base whole p (.node l r) =
      .node (unNodeAnn S base whole p l r) (annUn S base whole (p ++ [0]) l)
        (annUn S base whole (p ++ [1]) r) := rfl

theorem unNodeAnn_allowed (S : RTree) (base : Bool) (whole : OTree) (p : Path) (l r : OTree) :
    (unNodeAnn S base whole p l r).allowed =
      if base then [(lcaSol (.node l r)).sp] else (allSpecies S).reverse := rfl

theorem sortNat_single (f : Nat) : sortNat [f] = [f] := by simp [sortNat]

/-- With a single family every `lcaSet` is `[f]`. -/
theorem lcaSet_single (S : RTree) (base : Bool) {f : Nat} {whole : OTree} (hw : SingleFam f whole)
    (o : OTree) (hsf : SingleFam f o) :
    ∀ p, (annUn S base whole p o).data.lcaSet = [f] := by
  induction o with
  | leaf sp g =>
    intro p
    simp only [SingleFam] at hsf
    subst hsf
    show sortNat (dedup [f]) = [f]
    rw [dedup_const f [f] (by simp) (by simp), sortNat_single]
  | node l r ihl ihr =>
    intro p
    show sortNat ((dedup ((annUn S base whole (p ++ [0]) l).data.lcaSet ++
        (annUn S base whole (p ++ [1]) r).data.lcaSet)).filter
      (fun g => !((annUn S base whole (p ++ [0]) l).data.gain ++
        (annUn S base whole (p ++ [1]) r).data.gain).contains g)) = [f]
    rw [ihl hsf.1, ihr hsf.2, annUn_gain, annUn_gain, gainsAt_single hw (by simp),
      gainsAt_single hw (by simp), dedup_const f ([f] ++ [f]) (by simp) (by simp)]
    simp [sortNat_single]

/-! ### Edge charges at `lcaSet = [f]` -/

theorem subsetB_single (f : Nat) : subsetB [f] [f] = true := by simp [subsetB]

theorem un_conserv_lca (c : Costs) {f : Nat} {a ca : UnAnn} (ha : a.lcaSet = [f]) (hca : ca.lcaSet = [f]) :
    (unAlg c).conserv a .lca ca .lca = .fin 0 := by
  simp [unAlg, ha, hca, subsetB_single]

theorem un_segment_lca (c : Costs) (a ca : UnAnn) : (unAlg c).segment a .lca ca .lca = .fin 0 := by
  simp [unAlg]

theorem un_conserv_inh (c : Costs) {f : Nat} {a ca : UnAnn} (ha : a.lcaSet = [f]) (hca : ca.lcaSet = [f]) :
    (unAlg c).conserv a .lca ca .inh = .inf := by
  simp [unAlg, ha, hca, subsetB_single]

theorem un_segment_inh (c : Costs) {f : Nat} {a ca : UnAnn} (ha : a.lcaSet = [f]) (hca : ca.lcaSet = [f]) :
    (unAlg c).segment a .lca ca .inh = .inf := by
  simp [unAlg, ha, hca, subsetB_single]

/-- A finite labelling whose root is LCA is LCA everywhere. -/
theorem allLca_of_finite (c : Costs) (S : RTree) (base : Bool) {f : Nat} {whole : OTree}
    (hw : SingleFam f whole) (o : OTree) (hsf : SingleFam f o) :
    ∀ (p : Path) (ls : LSol Kind), Adm (unAlg c) (annUn S base whole p o) ls → ls.lab = .lca →
      labCost (unAlg c) c (annUn S base whole p o) ls ≠ .inf → ls.All (· = .lca) := by
  induction o with
  | leaf sp g =>
    intro p ls h hl _
    cases ls with
    | node => simp [annUn, Adm] at h
    | leaf s k => exact hl
  | node l r ihl ihr =>
    intro p ls h hl hfin
    cases ls with
    | leaf => simp [annUn, Adm] at h
    | node s k x y =>
      rw [annUn_node] at h hfin
      simp only [Adm] at h
      simp only [LSol.lab] at hl
      subst hl
      simp only [labCost] at hfin
      obtain ⟨hg, hsub⟩ := add_ne_inf hfin
      obtain ⟨hxf, hyf⟩ := add_ne_inf hsub
      have hA : (unNodeAnn S base whole p l r).lcaSet = [f] := lcaSet_single S base hw (.node l r) hsf p
      have hL := lcaSet_single S base hw l hsf.1 (p ++ [0])
      have hR := lcaSet_single S base hw r hsf.2 (p ++ [1])
      unfold genLocal at hg
      have hx : x.lab = .lca := by
        cases hk : x.lab with
        | lca => rfl
        | inh =>
          rw [hk, un_conserv_inh c hA hL, un_segment_inh c hA hL, gl_inf_left] at hg
          exact absurd rfl hg
      have hy : y.lab = .lca := by
        cases hk : y.lab with
        | lca => rfl
        | inh =>
          rw [hk, un_conserv_inh c hA hR, un_segment_inh c hA hR, gl_inf_right] at hg
          exact absurd rfl hg
      exact ⟨rfl, ihl hsf.1 _ x h.2.2.1 hx hxf, ihr hsf.2 _ y h.2.2.2 hy hyf⟩

/-- An all-LCA labelling costs what its species mapping costs in the plain model. -/
theorem labCost_un_allLca (c : Costs) (S : RTree) (base : Bool) {f : Nat} {whole : OTree}
    (hw : SingleFam f whole) (o : OTree) (hsf : SingleFam f o) :
    ∀ (p : Path) (ls : LSol Kind), ls.All (· = .lca) →
      labCost (unAlg c) c (annUn S base whole p o) ls =
        labCost thlAlg c (annPlain S o) ls.forget := by
  induction o with
  | leaf sp g => intro p ls _; cases ls <;> rfl
  | node l r ihl ihr =>
    intro p ls h
    cases ls with
    | leaf => rfl
    | node s k x y =>
      simp only [LSol.All] at h
      obtain ⟨rfl, hx, hy⟩ := h
      rw [annUn_node]
      simp only [annPlain, labCost, LSol.forget, ihl hsf.1 _ x hx, ihr hsf.2 _ y hy]
      congr 1
      have hA : (unNodeAnn S base whole p l r).lcaSet = [f] := lcaSet_single S base hw (.node l r) hsf p
      have hL := lcaSet_single S base hw l hsf.1 (p ++ [0])
      have hR := lcaSet_single S base hw r hsf.2 (p ++ [1])
      simp only [genLocal, LSol.forget_sp, hx.lab, hy.lab, un_conserv_lca c hA hL,
        un_conserv_lca c hA hR, un_segment_lca]
      rfl

/-! ### The evaluator on the materialised solution -/

theorem unSol_fam_lca (t : ATree UnAnn) (anc : List Nat) (ls : LSol Kind) (h : ls.lab = .lca) :
    (unSol t anc ls).fam = t.data.lcaSet := by
  cases t <;> cases ls <;> simp only [LSol.lab] at h <;> simp [unSol, Sol.fam, ATree.data, h]

theorem internalEvent_cases (s a b : Path) (h : internalEvent s a b ≠ .invalid) :
    internalEvent s a b = .spec ∨ internalEvent s a b = .dup ∨ internalEvent s a b = .hgt := by
  unfold internalEvent at h ⊢
  split <;> simp_all
  split <;> simp_all
  split <;> simp_all

/-- No segmental loss is charged on a valid all-LCA labelling. -/
theorem unordLosses_allLca (c : Costs) (S : RTree) (base : Bool) {f : Nat} {whole : OTree}
    (hw : SingleFam f whole) (o : OTree) (hsf : SingleFam f o) :
    ∀ (p : Path) (anc : List Nat) (ls : LSol Kind), Adm (unAlg c) (annUn S base whole p o) ls →
      ls.All (· = .lca) → ls.Valid →
      unordLosses (unSol (annUn S base whole p o) anc ls) = some 0 := by
  induction o with
  | leaf sp g =>
    intro p anc ls h _ _
    cases ls with
    | node => simp [annUn, Adm] at h
    | leaf s k => rfl
  | node l r ihl ihr =>
    intro p anc ls h hall hv
    cases ls with
    | leaf => simp [annUn, Adm] at h
    | node s k x y =>
      rw [annUn_node] at h ⊢
      simp only [Adm] at h
      simp only [LSol.All] at hall
      simp only [LSol.Valid] at hv
      obtain ⟨rfl, hx, hy⟩ := hall
      have hA : (unNodeAnn S base whole p l r).lcaSet = [f] := lcaSet_single S base hw (.node l r) hsf p
      have hL := lcaSet_single S base hw l hsf.1 (p ++ [0])
      have hR := lcaSet_single S base hw r hsf.2 (p ++ [1])
      simp only [unSol, unordLosses, unSol_sp, ihl hsf.1 _ _ x h.2.2.1 hx hv.2.1,
        ihr hsf.2 _ _ y h.2.2.2 hy hv.2.2, unSol_fam_lca _ _ x hx.lab, unSol_fam_lca _ _ y hy.lab,
        hA, hL, hR]
      rcases internalEvent_cases s x.sp y.sp hv.1 with e | e | e <;>
        simp [e, localUnordLosses, subsetB_single]

/-- The reconciliation cost only sees the species mapping. -/
theorem recCost_unSol (c : Costs) (S : RTree) (base : Bool) (whole : OTree) (o : OTree) :
    ∀ (p : Path) (anc : List Nat) (ls : LSol Kind), Adm (unAlg c) (annUn S base whole p o) ls →
      recCost c o (unSol (annUn S base whole p o) anc ls) = recCost c o (plainSol o ls.forget) := by
  induction o with
  | leaf sp g =>
    intro p anc ls h
    cases ls with
    | node => simp [annUn, Adm] at h
    | leaf s k => simp [annUn, unSol, plainSol, LSol.forget, recCost]
  | node l r ihl ihr =>
    intro p anc ls h
    cases ls with
    | leaf => simp [annUn, Adm] at h
    | node s k x y =>
      rw [annUn_node] at h ⊢
      simp only [Adm] at h
      simp only [unSol, plainSol, LSol.forget, recCost_node, unSol_sp, plainSol_sp, LSol.forget_sp,
        ihl _ _ x h.2.2.1, ihr _ _ y h.2.2.2]

/-! ### Admissibility transfers (unordered ↔ plain) -/

theorem adm_un_forget (c : Costs) (S : RTree) (whole o : OTree) :
    ∀ (p : Path) (ls : LSol Kind), Adm (unAlg c) (annUn S false whole p o) ls →
      Adm thlAlg (annPlain S o) ls.forget := by
  induction o with
  | leaf sp g =>
    intro p ls h
    cases ls with
    | node => simp [annUn, Adm] at h
    | leaf s m => simp only [annUn, Adm] at h; simp [annPlain, Adm, LSol.forget, h.1, thlAlg]
  | node l r ihl ihr =>
    intro p ls h
    cases ls with
    | leaf => simp [annUn, Adm] at h
    | node s m x y =>
      rw [annUn_node] at h
      simp only [Adm] at h
      simp only [annPlain, Adm, LSol.forget]
      refine ⟨?_, by simp [thlAlg], ihl _ x h.2.2.1, ihr _ y h.2.2.2⟩
      have := h.1
      simpa [unAlg, unNodeAnn_allowed, thlAlg] using this

theorem adm_un_lift (c : Costs) (S : RTree) (whole o : OTree) :
    ∀ (p : Path) (ls : LSol Unit), Adm thlAlg (annPlain S o) ls →
      Adm (unAlg c) (annUn S false whole p o) (LSol.lift .lca ls) := by
  induction o with
  | leaf sp g =>
    intro p ls h
    cases ls with
    | node => simp [annPlain, Adm] at h
    | leaf s m =>
      simp only [annPlain, Adm] at h
      simp [annUn, Adm, LSol.lift, h.1, unAlg]
  | node l r ihl ihr =>
    intro p ls h
    cases ls with
    | leaf => simp [annPlain, Adm] at h
    | node s m x y =>
      simp only [annPlain, Adm] at h
      rw [annUn_node]
      simp only [Adm, LSol.lift]
      refine ⟨by simpa [unAlg, unNodeAnn_allowed, thlAlg] using h.1, by simp [unAlg],
        ihl _ x h.2.2.1, ihr _ y h.2.2.2⟩

theorem adm_un_base_forget (c : Costs) (S : RTree) (whole o : OTree) :
    ∀ (p : Path) (ls : LSol Kind), Adm (unAlg c) (annUn S true whole p o) ls →
      ls.forget = toLSol (lcaSol o) := by
  induction o with
  | leaf sp g =>
    intro p ls h
    cases ls with
    | node => simp [annUn, Adm] at h
    | leaf s m => simp only [annUn, Adm] at h; simp [LSol.forget, lcaSol, toLSol, h.1]
  | node l r ihl ihr =>
    intro p ls h
    cases ls with
    | leaf => simp [annUn, Adm] at h
    | node s m x y =>
      rw [annUn_node] at h
      simp only [Adm] at h
      have hs : s = (lcaSol (.node l r)).sp := by simpa [unAlg, unNodeAnn_allowed] using h.1
      simp only [LSol.forget, ihl _ x h.2.2.1, ihr _ y h.2.2.2, hs]
      rfl

theorem adm_un_base_lift (c : Costs) (S : RTree) (whole o : OTree) :
    ∀ (p : Path), Adm (unAlg c) (annUn S true whole p o) (LSol.lift .lca (toLSol (lcaSol o))) := by
  induction o with
  | leaf sp g =>
    intro p
    simp [annUn, Adm, LSol.lift, lcaSol, toLSol, unAlg]
  | node l r ihl ihr =>
    intro p
    rw [annUn_node]
    simp only [Adm, LSol.lift, lcaSol, toLSol]
    exact ⟨by simp only [unAlg, unNodeAnn_allowed, if_true, List.mem_singleton]; rfl, by simp [unAlg],
      ihl _, ihr _⟩

end SR.C10
