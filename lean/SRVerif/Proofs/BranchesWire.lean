/-
  The cross-species references of the branches (`left` / `right` of loss and
  speciation branches, `right` of transfer branches) after `_compute_branches`
  on a valid reconciliation in a binary species tree: the referenced key is the
  key of a branch of the expected child species and is still one of its
  anchors at the end — what `tikz.render` looks up in `X_layout.anchors[...]`.
-/
import SRVerif.Proofs.BranchesOrder
import SRVerif.Proofs.BranchesLoss

namespace SR.Layout

open SR SR.EventLog

/-! ### One chain: who keeps whom -/

theorem chain_links (g : Path) (end_ : Option Path) :
    ∀ (rp : List Nat) (prev : Key) (pl : List (Path × Branch)) (k : Key),
      chainPlan g end_ rp prev = some (pl, k) →
      ∀ e ∈ pl, ∃ j kk, (e.1 ++ [j]) <+: rp.reverse ∧
        e.2.left = (if j = 0 then some kk else none) ∧
        e.2.right = (if j = 1 then some kk else none) ∧
        ((kk = prev ∧ e.1 ++ [j] = rp.reverse) ∨
         (kk = .loss g (e.1 ++ [j]) ∧ ∃ b', (e.1 ++ [j], b') ∈ pl ∧ b'.key = kk)) := by
  intro rp
  induction rp with
  | nil =>
    intro prev pl k h
    simp only [chainPlan] at h
    split at h
    · simp only [Option.some.injEq, Prod.mk.injEq] at h
      obtain ⟨rfl, rfl⟩ := h
      simp
    · cases h
  | cons i rest ih =>
    intro prev pl k h
    simp only [chainPlan] at h
    by_cases he : some rest.reverse = end_
    · simp only [he, if_true, Option.some.injEq, Prod.mk.injEq] at h
      obtain ⟨rfl, rfl⟩ := h
      simp
    · simp only [he, if_false] at h
      cases hc : chainPlan g end_ rest (.loss g rest.reverse) with
      | none => simp [hc] at h
      | some x =>
        obtain ⟨l, k'⟩ := x
        simp only [hc, Option.some.injEq, Prod.mk.injEq] at h
        obtain ⟨rfl, rfl⟩ := h
        intro e hmem
        simp only [List.mem_cons] at hmem
        rcases hmem with rfl | hmem
        · refine ⟨i, prev, by simp, rfl, rfl, Or.inl ⟨rfl, by simp⟩⟩
        · obtain ⟨j, kk, hpre, hl, hr, halt⟩ := ih _ _ _ hc e hmem
          have hpre' : (e.1 ++ [j]) <+: (i :: rest).reverse := by
            simp only [List.reverse_cons]
            exact hpre.trans (List.prefix_append _ _)
          refine ⟨j, kk, hpre', hl, hr, Or.inr ?_⟩
          rcases halt with ⟨rfl, heq⟩ | ⟨rfl, b', hb', hk'⟩
          · rw [heq]
            exact ⟨rfl, _, List.mem_cons_self .., rfl⟩
          · exact ⟨rfl, b', List.mem_cons_of_mem _ hb', hk'⟩

theorem chain_top (g : Path) (end_ : Option Path) (b : Path) (hstop : StopsAt end_ b) :
    ∀ (w : List Nat) (prev : Key) (pl : List (Path × Branch)) (k : Key),
      chainPlan g end_ (b ++ w).reverse prev = some (pl, k) →
      (w = [] ∧ k = prev) ∨ (w ≠ [] ∧ k = .loss g b) := by
  intro w
  induction w using List.reverseRecOn with
  | nil =>
    intro prev pl k h
    left
    refine ⟨rfl, ?_⟩
    rcases hstop with ⟨rfl, rfl⟩ | ⟨b', x, rfl, rfl⟩
    · simp [chainPlan] at h; exact h.2.symm
    · simp [chainPlan] at h; exact h.2.symm
  | append_singleton w i ih =>
    intro prev pl k h
    right
    refine ⟨by simp, ?_⟩
    have hrev : (b ++ (w ++ [i])).reverse = i :: (b ++ w).reverse := by simp
    have hne : ¬ some (b ++ w) = end_ := by
      rcases hstop with ⟨_, rfl⟩ | ⟨b', x, rfl, rfl⟩
      · simp
      · intro h
        simp only [Option.some.injEq] at h
        have := congrArg List.length h
        simp at this
    rw [hrev] at h
    simp only [chainPlan, List.reverse_reverse, hne, if_false] at h
    cases hc : chainPlan g end_ (b ++ w).reverse (.loss g (b ++ w)) with
    | none => rw [hc] at h; cases h
    | some x =>
      obtain ⟨l, k'⟩ := x
      simp only [hc, Option.some.injEq, Prod.mk.injEq] at h
      obtain ⟨_, rfl⟩ := h
      rcases ih _ _ _ hc with ⟨rfl, hk⟩ | ⟨_, hk⟩
      · simpa using hk
      · exact hk

theorem mem_visited {b t : Path} {w : List Nat} (h : t ∈ visited b w) : b <+: t := by
  induction w generalizing b with
  | nil => simp [visited] at h
  | cons i w ih =>
    simp only [visited, List.mem_cons] at h
    rcases h with rfl | h
    · exact List.prefix_refl _
    · exact (List.prefix_append _ _).trans (ih h)

theorem head_mem_visited (b : Path) {w : List Nat} (h : w ≠ []) : b ∈ visited b w := by
  cases w with
  | nil => exact absurd rfl h
  | cons i w => simp [visited]

/-- `kk` is the key that sits at the top of lineage `g` in species `c`:
    the child object node itself when `c` is its species `a`, otherwise the
    pseudo-gene of the chain in `c`. -/
def TopC (pl : List (Path × Branch)) (g a : Path) (kk : Key) (c : Path) : Prop :=
  kk.lin = g ∧ c <+: a ∧ ((kk = .gene g ∧ c = a) ∨ ∃ b', (c, b') ∈ pl ∧ b'.key = kk)

theorem TopC.mono {pl pl' : List (Path × Branch)} {g a : Path} {kk : Key} {c : Path}
    (h : TopC pl g a kk c) (hsub : ∀ e ∈ pl, e ∈ pl') : TopC pl' g a kk c := by
  obtain ⟨h1, h2, h3⟩ := h
  refine ⟨h1, h2, ?_⟩
  rcases h3 with h3 | ⟨b', hb', hk⟩
  · exact Or.inl h3
  · exact Or.inr ⟨b', hsub _ hb', hk⟩

/-- The loss branches of a chain, wired. -/
def LossW (pl : List (Path × Branch)) (g a s : Path) : Prop :=
  ∀ e ∈ pl, e.2.kind = .loss ∧ Path.isAnc s e.1 = true ∧ ∃ j kk,
    e.2.left = (if j = 0 then some kk else none) ∧ e.2.right = (if j = 1 then some kk else none) ∧
    TopC pl g a kk (e.1 ++ [j])

theorem chain_wired {g : Path} {end_ : Option Path} {b0 : Path} {w : List Nat}
    {pl : List (Path × Branch)} {k : Key} {s : Path} (hstop : StopsAt end_ b0) (hs : s <+: b0)
    (h : chainPlan g end_ (b0 ++ w).reverse (.gene g) = some (pl, k)) :
    LossW pl g (b0 ++ w) s ∧ TopC pl g (b0 ++ w) k b0 := by
  obtain ⟨pl', k', h', hsp⟩ := chain_exact g end_ b0 hstop w (.gene g)
  rw [h] at h'
  simp only [Option.some.injEq, Prod.mk.injEq] at h'
  obtain ⟨rfl, rfl⟩ := h'
  have form := chain_pkeys_form h
  refine ⟨?_, ?_⟩
  · intro e he
    obtain ⟨j, kk, hpre, hl, hr, halt⟩ := chain_links _ _ _ _ _ _ h e he
    rw [List.reverse_reverse] at hpre halt
    have hvis : e.1 ∈ visited b0 w := by
      have : e.1 ∈ pl.map (·.1) := List.mem_map.2 ⟨e, he, rfl⟩
      rw [hsp] at this
      simpa using this
    refine ⟨(form e he).2, ?_, j, kk, hl, hr, ?_, hpre, ?_⟩
    · rw [Path.isAnc_iff_prefix]; exact hs.trans (mem_visited hvis)
    · rcases halt with ⟨rfl, _⟩ | ⟨rfl, _⟩ <;> rfl
    · rcases halt with ⟨rfl, heq⟩ | ⟨rfl, b', hb', hk'⟩
      · exact Or.inl ⟨rfl, heq⟩
      · exact Or.inr ⟨b', hb', hk'⟩
  · rcases chain_top g end_ b0 hstop w _ _ _ h with ⟨rfl, rfl⟩ | ⟨hw, rfl⟩
    · exact ⟨rfl, by simp, Or.inl ⟨rfl, by simp⟩⟩
    · refine ⟨rfl, List.prefix_append _ _, Or.inr ?_⟩
      have : b0 ∈ pl.map (·.1) := by rw [hsp]; simpa using head_mem_visited b0 hw
      obtain ⟨e, he, rfl⟩ := List.mem_map.1 this
      exact ⟨e.2, he, (form e he).1⟩

/-! ### One node -/

/-- Lineage `p ++ [i]` of the node `(p, sub)`, whose child `i` sits in `a`. -/
def Top (pl : List (Path × Branch)) (p : Path) (sub : Sol) (kk : Key) (c : Path) : Prop :=
  ∃ i a, childSp sub i = some a ∧ TopC pl (p ++ [i]) a kk c

/-- What the drawing needs to know about the branches a step inserts. -/
structure NodeW (s p : Path) (sub : Sol) (pl : List (Path × Branch)) : Prop where
  loss : ∀ e ∈ pl, e.2.kind = .loss → Path.isAnc s e.1 = true ∧ ∃ j kk,
    e.2.left = (if j = 0 then some kk else none) ∧ e.2.right = (if j = 1 then some kk else none) ∧
    Top pl p sub kk (e.1 ++ [j])
  spec : ∀ e ∈ pl, e.2.kind = .spec → e.1 = s ∧ ∃ k1 k2, e.2.left = some k1 ∧ e.2.right = some k2 ∧
    Top pl p sub k1 (s ++ [0]) ∧ Top pl p sub k2 (s ++ [1])

theorem lossW_node {s p : Path} {sub : Sol} {plA plB : List (Path × Branch)} {nb : Branch}
    {iA iB : Nat} {aA aB : Path} (hA : LossW plA (p ++ [iA]) aA s) (hB : LossW plB (p ++ [iB]) aB s)
    (cA : plA ≠ [] → childSp sub iA = some aA) (cB : plB ≠ [] → childSp sub iB = some aB)
    (hnb : nb.kind ≠ .loss) :
    ∀ e ∈ plA ++ (plB ++ [(s, nb)]), e.2.kind = .loss → Path.isAnc s e.1 = true ∧ ∃ j kk,
      e.2.left = (if j = 0 then some kk else none) ∧ e.2.right = (if j = 1 then some kk else none) ∧
      Top (plA ++ (plB ++ [(s, nb)])) p sub kk (e.1 ++ [j]) := by
  intro e he hk
  simp only [List.mem_append, List.mem_singleton] at he
  rcases he with he | he | rfl
  · obtain ⟨_, h1, j, kk, hl, hr, ht⟩ := hA e he
    exact ⟨h1, j, kk, hl, hr, iA, aA, cA (List.ne_nil_of_mem he),
      ht.mono (fun x hx => List.mem_append_left _ hx)⟩
  · obtain ⟨_, h1, j, kk, hl, hr, ht⟩ := hB e he
    exact ⟨h1, j, kk, hl, hr, iB, aB, cB (List.ne_nil_of_mem he),
      ht.mono (fun x hx => List.mem_append_right _ (List.mem_append_left _ hx))⟩
  · exact absurd hk hnb

theorem lossW_nil (g a s : Path) : LossW [] g a s := by intro e he; cases he

theorem classify_spec_ne {s a b : Path} (h : classify s a b = .spec) :
    ∃ i wa j wb, a = s ++ i :: wa ∧ b = s ++ j :: wb ∧ i ≠ j := by
  obtain ⟨i, wa, j, wb, rfl, rfl⟩ := classify_spec_split h
  refine ⟨i, wa, j, wb, rfl, rfl, ?_⟩
  rintro rfl
  simp [classify, descend_append] at h

theorem isAnc_child (s : Path) (x y : Nat) (w : List Nat) :
    Path.isAnc (s ++ [x]) (s ++ y :: w) = decide (x = y) := by
  rw [isAnc_append_append]
  by_cases h : x = y <;> simp [Path.isAnc, h]

/-- The step of a node with a valid event, in a species tree where the
    children's species hang below child `0` or `1` of every species above them. -/
theorem nodePlan_wired (s p : Path) (sp : Path) (f : List Nat) (l r : Sol)
    (h : classify s l.sp r.sp ≠ .invalid)
    (hbin : ∀ x w, (l.sp = s ++ x :: w ∨ r.sp = s ++ x :: w) → x = 0 ∨ x = 1) :
    ∃ pl cons, nodePlan s p (.node sp f l r) = some (pl, cons) ∧
      NodeW s p (.node sp f l r) pl := by
  have hev := internalEvent_eq_classify s l.sp r.sp
  simp only [nodePlan]
  have c0 : childSp (.node sp f l r) 0 = some l.sp := rfl
  have c1 : childSp (.node sp f l r) 1 = some r.sp := rfl
  cases hk : classify s l.sp r.sp with
  | invalid => exact absurd hk h
  | spec =>
    rw [hk] at hev
    simp only [Kind.toEvent] at hev
    simp only [hev]
    obtain ⟨x, wa, y, wb, ha, hb, hxy⟩ := classify_spec_ne hk
    obtain ⟨plA, kA, cA, _⟩ := chain_exact (p ++ [0]) (some s) (s ++ [x]) (stopsAt_child s x) wa
      (.gene (p ++ [0]))
    obtain ⟨plB, kB, cB, _⟩ := chain_exact (p ++ [1]) (some s) (s ++ [y]) (stopsAt_child s y) wb
      (.gene (p ++ [1]))
    obtain ⟨wA, tA⟩ := chain_wired (s := s) (stopsAt_child s x) (List.prefix_append _ _) cA
    obtain ⟨wB, tB⟩ := chain_wired (s := s) (stopsAt_child s y) (List.prefix_append _ _) cB
    rw [← snoc_append, ← ha] at cA wA tA
    rw [← snoc_append, ← hb] at cB wB tB
    have hx := hbin x wa (Or.inl ha)
    have hy := hbin y wb (Or.inr hb)
    by_cases hsw : Path.isAnc (s ++ [0]) r.sp = true
    · have hy0 : y = 0 := by
        rw [hb, isAnc_child] at hsw
        simpa [eq_comm] using hsw
      have hx1 : x = 1 := by omega
      subst hy0 hx1
      refine ⟨_, _, by simp only [hsw, if_true, cA, cB]; rfl, ?_, ?_⟩
      · exact lossW_node wB wA (fun _ => c1) (fun _ => c0) (by simp)
      · intro e he hk'
        simp only [List.mem_append, List.mem_singleton] at he
        rcases he with he | he | rfl
        · rw [(wB e he).1] at hk'; cases hk'
        · rw [(wA e he).1] at hk'; cases hk'
        · refine ⟨rfl, kB, kA, rfl, rfl, ⟨1, r.sp, c1, tB.mono ?_⟩, ⟨0, l.sp, c0, tA.mono ?_⟩⟩
          · intro z hz; exact List.mem_append_left _ hz
          · intro z hz; exact List.mem_append_right _ (List.mem_append_left _ hz)
    · have hsw' : Path.isAnc (s ++ [0]) r.sp = false := by simpa using hsw
      have hy1 : y = 1 := by
        rw [hb, isAnc_child] at hsw'
        have : ¬ 0 = y := by simpa using hsw'
        omega
      have hx0 : x = 0 := by omega
      subst hy1 hx0
      refine ⟨_, _, by simp only [hsw', Bool.false_eq_true, if_false, cA, cB]; rfl, ?_, ?_⟩
      · exact lossW_node wA wB (fun _ => c0) (fun _ => c1) (by simp)
      · intro e he hk'
        simp only [List.mem_append, List.mem_singleton] at he
        rcases he with he | he | rfl
        · rw [(wA e he).1] at hk'; cases hk'
        · rw [(wB e he).1] at hk'; cases hk'
        · refine ⟨rfl, kA, kB, rfl, rfl, ⟨0, l.sp, c0, tA.mono ?_⟩, ⟨1, r.sp, c1, tB.mono ?_⟩⟩
          · intro z hz; exact List.mem_append_left _ hz
          · intro z hz; exact List.mem_append_right _ (List.mem_append_left _ hz)
  | dup =>
    rw [hk] at hev
    simp only [Kind.toEvent] at hev
    simp only [hev]
    obtain ⟨ha, hb⟩ := classify_dup_isAnc hk
    rw [Path.isAnc_iff_prefix] at ha hb
    obtain ⟨wa, ha⟩ := ha
    obtain ⟨wb, hb⟩ := hb
    obtain ⟨plA, kA, cA, _⟩ := chain_exact (p ++ [0]) (Path.up s) s (stopsAt_up s) wa
      (.gene (p ++ [0]))
    obtain ⟨plB, kB, cB, _⟩ := chain_exact (p ++ [1]) (Path.up s) s (stopsAt_up s) wb
      (.gene (p ++ [1]))
    obtain ⟨wA, _⟩ := chain_wired (s := s) (stopsAt_up s) (List.prefix_refl _) cA
    obtain ⟨wB, _⟩ := chain_wired (s := s) (stopsAt_up s) (List.prefix_refl _) cB
    rw [ha] at cA wA
    rw [hb] at cB wB
    refine ⟨_, _, by simp only [cA, cB]; rfl, ?_, ?_⟩
    · exact lossW_node wA wB (fun _ => c0) (fun _ => c1) (by simp)
    · intro e he hk'
      simp only [List.mem_append, List.mem_singleton] at he
      rcases he with he | he | rfl
      · rw [(wA e he).1] at hk'; cases hk'
      · rw [(wB e he).1] at hk'; cases hk'
      · cases hk'
  | hgt =>
    rw [hk] at hev
    simp only [Kind.toEvent] at hev
    simp only [hev]
    obtain ⟨hc, _⟩ := classify_hgt hk
    rcases hc with ⟨ha, hb⟩ | ⟨ha, hb⟩
    · have ha' := ha
      rw [Path.isAnc_iff_prefix] at ha'
      obtain ⟨wa, hwa⟩ := ha'
      obtain ⟨plA, kA, cA, _⟩ := chain_exact (p ++ [0]) (Path.up s) s (stopsAt_up s) wa
        (.gene (p ++ [0]))
      obtain ⟨wA, _⟩ := chain_wired (s := s) (stopsAt_up s) (List.prefix_refl _) cA
      rw [hwa] at cA wA
      refine ⟨_, _, by simp only [ha, if_true, cA]; rfl, ?_, ?_⟩
      · have := lossW_node (sub := .node sp f l r) (nb := ⟨.gene p, .hgt, some kA, some (.gene (p ++ [1]))⟩)
          wA (lossW_nil (p ++ [1]) r.sp s) (fun _ => c0) (fun h => absurd rfl h) (by simp)
        simpa using this
      · intro e he hk'
        simp only [List.mem_append, List.mem_singleton] at he
        rcases he with he | rfl
        · rw [(wA e he).1] at hk'; cases hk'
        · cases hk'
    · have hb' := hb
      rw [Path.isAnc_iff_prefix] at hb'
      obtain ⟨wb, hwb⟩ := hb'
      obtain ⟨plB, kB, cB, _⟩ := chain_exact (p ++ [1]) (Path.up s) s (stopsAt_up s) wb
        (.gene (p ++ [1]))
      obtain ⟨wB, _⟩ := chain_wired (s := s) (stopsAt_up s) (List.prefix_refl _) cB
      rw [hwb] at cB wB
      refine ⟨_, _, by simp only [ha, Bool.false_eq_true, if_false, cB]; rfl, ?_, ?_⟩
      · have := lossW_node (sub := .node sp f l r) (nb := ⟨.gene p, .hgt, some kB, some (.gene (p ++ [0]))⟩)
          wB (lossW_nil (p ++ [0]) l.sp s) (fun _ => c1) (fun h => absurd rfl h) (by simp)
        simpa using this
      · intro e he hk'
        simp only [List.mem_append, List.mem_singleton] at he
        rcases he with he | rfl
        · rw [(wB e he).1] at hk'; cases hk'
        · cases hk'

/-! ### Binary species trees -/

theorem isBinary_child : ∀ (t : Path) (S : RTree) (j : Nat), S.isBinary = true →
    S.isNode (t ++ [j]) = true → j = 0 ∨ j = 1 := by
  intro t
  induction t with
  | nil =>
    intro S j hb hn
    cases S with
    | node cs =>
      match cs, hb with
      | [], _ => simp [RTree.isNode, RTree.sub] at hn
      | [a, b], _ =>
        simp only [List.nil_append, RTree.isNode, RTree.sub] at hn
        match j, hn with
        | 0, _ => exact Or.inl rfl
        | 1, _ => exact Or.inr rfl
        | j + 2, hn => simp at hn
  | cons x t ih =>
    intro S j hb hn
    cases S with
    | node cs =>
      match cs, hb with
      | [], _ => simp [RTree.isNode, RTree.sub] at hn
      | [a, b], hb =>
        simp only [RTree.isBinary, Bool.and_eq_true] at hb
        simp only [List.cons_append, RTree.isNode, RTree.sub] at hn
        match x, hn with
        | 0, hn => exact ih a j hb.1 (by simpa [RTree.isNode] using hn)
        | 1, hn => exact ih b j hb.2 (by simpa [RTree.isNode] using hn)
        | x + 2, hn => simp at hn

/-! ### The final state -/

theorem mem_fullPlan {sol : Sol} {L : List Path} {e : Path × Branch} :
    e ∈ fullPlan sol L ↔ ∃ g ∈ genesPost sol [], g.2.sp ∈ L ∧ e ∈ nodePlanL g.2.sp g.1 g.2 := by
  simp only [fullPlan, List.mem_flatMap, mem_passPlan]
  constructor
  · rintro ⟨s, hs, g, hg, rfl, he⟩; exact ⟨g, hg, hs, he⟩
  · rintro ⟨g, hg, hs, he⟩; exact ⟨_, hs, g, hg, rfl, he⟩

/-- A key of lineage `p ++ [i]` sitting in a species other than the species of
    node `p` is never removed from `anchor_nodes`. -/
theorem not_consumed {sol : Sol} {st : LState} (typ : Typed sol st) (inv : PInv st)
    {t' : Path} {kk : Key} {p : Path} {i : Nat} {sub : Sol} (hsub : subAt sol p = some sub)
    (hlin : kk.lin = p ++ [i]) (hne : t' ≠ sub.sp) (hk : kk ∈ keysOf (brs st t')) :
    kk ∈ ancs st t' := by
  apply inv.anch t' kk hk
  intro b' hb' hcons
  obtain ⟨j, hj⟩ := inv.cons t' b' hb' kk hcons
  obtain ⟨p', sub', hsub', h | ⟨_, ht, hkey, _⟩⟩ := typ t' b' hb'
  · simp [consumes, h.1] at hcons
  · rw [hkey, hlin] at hj
    simp only [Key.owner] at hj
    have := (List.append_inj' hj rfl).1
    subst this
    rw [hsub] at hsub'
    cases hsub'
    exact hne ht

/-- What `tikz.render` needs to find in the final state. -/
structure Wiring (S : RTree) (sol : Sol) (st : LState) : Prop where
  loss : ∀ t b, b ∈ brs st t → b.kind = .loss → ∃ j kk, (j = 0 ∨ j = 1) ∧
    S.isNode (t ++ [j]) = true ∧
    b.left = (if j = 0 then some kk else none) ∧ b.right = (if j = 1 then some kk else none) ∧
    kk ∈ keysOf (brs st (t ++ [j])) ∧ kk ∈ ancs st (t ++ [j])
  spec : ∀ t b, b ∈ brs st t → b.kind = .spec → ∃ k1 k2, b.left = some k1 ∧ b.right = some k2 ∧
    S.isNode (t ++ [0]) = true ∧ S.isNode (t ++ [1]) = true ∧
    k1 ∈ keysOf (brs st (t ++ [0])) ∧ k1 ∈ ancs st (t ++ [0]) ∧
    k2 ∈ keysOf (brs st (t ++ [1])) ∧ k2 ∈ ancs st (t ++ [1])
  hgt : ∀ t b, b ∈ brs st t → b.kind = .hgt → ∃ g sub, b.right = some (.gene g) ∧
    subAt sol g = some sub ∧ Key.gene g ∈ keysOf (brs st sub.sp) ∧ Key.gene g ∈ ancs st sub.sp

theorem hgt_not_both_below {s a b : Path} (h : internalEvent s a b = .hgt) :
    ¬ (Path.isAnc s a = true ∧ Path.isAnc s b = true) := by
  rintro ⟨ha, hb⟩
  unfold internalEvent at h
  split at h
  · cases h
  · simp only [ha, hb, Bool.and_self, if_true] at h
    split at h <;> cases h

theorem computeBranches_wiring {S : RTree} {sol : Sol} {st : LState} (hgood : Good S sol)
    (hbin : S.isBinary = true) (h : computeBranches S sol = .ok st) : Wiring S sol st := by
  obtain ⟨st', ok, _, inv, typ, done⟩ := computeBranches_ok hgood
  rw [h] at ok; cases ok
  obtain ⟨_, _, hb⟩ := computeBranches_plan h
  -- a branch of the state comes from the step of a node with a valid event
  have origin : ∀ t b, b ∈ brs st t → b.kind = .loss ∨ b.kind = .spec →
      ∃ p sp f l r pl, subAt sol p = some (.node sp f l r) ∧ (t, b) ∈ pl ∧
        NodeW sp p (.node sp f l r) pl ∧ (∀ e ∈ pl, e.2 ∈ brs st e.1) := by
    intro t b hbt hkind
    rw [hb t] at hbt
    obtain ⟨⟨p, sub⟩, hg, hL, he⟩ := mem_fullPlan.1 (mem_planAt.1 hbt)
    obtain ⟨q, hpq, hq⟩ := (mem_genesPost sol [] _ _).1 hg
    simp only [List.nil_append] at hpq
    subst hpq
    simp only at he hL
    have hin : ∀ e ∈ nodePlanL sub.sp p sub, e.2 ∈ brs st e.1 := by
      intro e he'
      rw [hb e.1]
      exact mem_planAt.2 (mem_fullPlan.2 ⟨(p, sub), hg, hL, he'⟩)
    cases sub with
    | leaf s f =>
      simp only [nodePlanL, nodePlan, List.mem_singleton, Prod.mk.injEq] at he
      obtain ⟨_, rfl⟩ := he
      rcases hkind with h | h <;> cases h
    | node s f l r =>
      obtain ⟨hl, hr⟩ := subAt_child hq
      have hnl := (hgood _ _ hl).1
      have hnr := (hgood _ _ hr).1
      obtain ⟨pl, cons, hpl, nw⟩ := nodePlan_wired s p s f l r
        (classify_ne_invalid ((hgood _ _ hq).2 s f l r rfl))
        (by
          intro x w hx
          rcases hx with hx | hx
          · apply isBinary_child s S x hbin
            exact RTree.isNode_of_prefix _ _ S ⟨w, by rw [hx]; simp⟩ hnl
          · apply isBinary_child s S x hbin
            exact RTree.isNode_of_prefix _ _ S ⟨w, by rw [hx]; simp⟩ hnr)
      have hL' : nodePlanL s p (.node s f l r) = pl := by simp [nodePlanL, hpl]
      simp only [Sol.sp] at he hin
      rw [hL'] at he hin
      exact ⟨p, s, f, l, r, pl, hq, he, nw, hin⟩
  -- a `Top` key is a key of its species and still an anchor there
  have top : ∀ p sp f l r pl kk c, subAt sol p = some (.node sp f l r) →
      (∀ e ∈ pl, e.2 ∈ brs st e.1) → Top pl p (.node sp f l r) kk c → c ≠ sp →
      S.isNode c = true ∧ kk ∈ keysOf (brs st c) ∧ kk ∈ ancs st c := by
    intro p sp f l r pl kk c hp hin ⟨i, a, hc, hlin, hpre, halt⟩ hne
    obtain ⟨hl, hr⟩ := subAt_child hp
    have hchild : ∃ ch, subAt sol (p ++ [i]) = some ch ∧ ch.sp = a := by
      match i, hc with
      | 0, hc => simp only [childSp, Option.some.injEq] at hc; exact ⟨l, hl, hc⟩
      | 1, hc => simp only [childSp, Option.some.injEq] at hc; exact ⟨r, hr, hc⟩
    obtain ⟨ch, hch, rfl⟩ := hchild
    have hnode : S.isNode c = true := RTree.isNode_of_prefix _ _ S hpre (hgood _ _ hch).1
    have hkey : kk ∈ keysOf (brs st c) := by
      rcases halt with ⟨rfl, rfl⟩ | ⟨b', hb', rfl⟩
      · exact done _ _ hch
      · simp only [keysOf, List.mem_map]
        exact ⟨b', hin _ hb', rfl⟩
    exact ⟨hnode, hkey, not_consumed typ inv hp hlin hne hkey⟩
  refine ⟨?_, ?_, ?_⟩
  rotate_right
  · intro t b hbt hk
    obtain ⟨p, sub, hsub, h1 | ⟨_, ht, hkey, hnb⟩⟩ := typ t b hbt
    · rw [h1.1] at hk; cases hk
    · cases sub with
      | leaf s f => simp only [NodeBranch] at hnb; rw [hnb] at hk; cases hk
      | node s f l r =>
        obtain ⟨hl, hr⟩ := subAt_child hsub
        have hnb' : NodeBranch s p (.node s f l r) b := hnb
        simp only [NodeBranch] at hnb'
        cases hE : internalEvent s l.sp r.sp with
        | leaf => simp only [hE] at hnb'
        | invalid => simp only [hE] at hnb'
        | spec => simp only [hE] at hnb'; rw [hnb'] at hk; cases hk
        | dup => simp only [hE] at hnb'; rw [hnb'] at hk; cases hk
        | hgt =>
          simp only [hE] at hnb'
          obtain ⟨_, k1, _, hside⟩ := hnb'
          rcases hside with ⟨hkeep, _, hright⟩ | ⟨hkeep, _, hright⟩
          · refine ⟨p ++ [1], r, hright, hr, done _ _ hr, ?_⟩
            apply not_consumed typ inv hsub (i := 1) rfl _ (done _ _ hr)
            intro e
            apply hgt_not_both_below hE
            refine ⟨hkeep, ?_⟩
            rw [e]; exact Path.isAnc_refl _
          · refine ⟨p ++ [0], l, hright, hl, done _ _ hl, ?_⟩
            apply not_consumed typ inv hsub (i := 0) rfl _ (done _ _ hl)
            intro e
            rw [e] at hkeep
            simp only [Sol.sp, Path.isAnc_refl] at hkeep
            cases hkeep
  · intro t b hbt hk
    obtain ⟨p, sp, f, l, r, pl, hp, hmem, nw, hin⟩ := origin t b hbt (Or.inl hk)
    obtain ⟨hanc, j, kk, hl, hr, ht⟩ := nw.loss _ hmem hk
    have hne : t ++ [j] ≠ sp := by
      intro e
      have := Path.length_le_of_isAnc hanc
      rw [← e] at this
      simp at this
      omega
    obtain ⟨hnode, hkey, hanch⟩ := top p sp f l r pl kk _ hp hin ht hne
    exact ⟨j, kk, isBinary_child t S j hbin hnode, hnode, hl, hr, hkey, hanch⟩
  · intro t b hbt hk
    obtain ⟨p, sp, f, l, r, pl, hp, hmem, nw, hin⟩ := origin t b hbt (Or.inr hk)
    obtain ⟨rfl, k1, k2, hl, hr, t1, t2⟩ := nw.spec _ hmem hk
    obtain ⟨n1, a1, b1⟩ := top p _ f l r pl k1 _ hp hin t1 (by simp)
    obtain ⟨n2, a2, b2⟩ := top p _ f l r pl k2 _ hp hin t2 (by simp)
    exact ⟨k1, k2, hl, hr, n1, n2, a1, b1, a2, b2⟩

end SR.Layout
