/-
  C12 (bridge), part 2: the evaluator on the parsed structure (`evalPlain` / `evalSuper`
  of `Model/SolOutput.lean`) gives, on the embedding of a solution, the `totalCost` of the
  solution.

  * `decode_ntOf`: reading the embedded object tree back with mappings that agree with the
    solution gives the input tree (leaf syntenies erased) and the solution with every
    synteny passed through the re-coding `h`.
  * `totalCost_eraseFam`: the evaluator never reads the leaf syntenies of the INPUT.
  * `totalCost_mapFam_plain / _ordered / _unordered`: the evaluator only compares families:
    it is invariant under an injective renaming (ordered: `List.map g`; unordered: any
    re-coding `h` with `x ∈ h f ↔ x ∈ f.map g`, so the order inside a set is immaterial).
  * `evalPlain_emb`, `evalSuper_emb`: the interface hypothesis `hev` of
    `Properties/C12Cli.lean`, now a theorem.
  * `evalSuper_normSyn`: the hypothesis `hset` of `C11_same_evaluation`.
-/
import SRVerif.Proofs.SolOutput

namespace SR.SolOut

open SR SR.Ser

/-! ### Association lists -/

theorem lookup_of_mem {β : Type} : ∀ {m : List (Path × β)}, (m.map (·.1)).Nodup →
    ∀ x ∈ m, m.lookup x.1 = some x.2
  | [], _, x, hx => by cases hx
  | y :: m, hn, x, hx => by
    simp only [List.map_cons, List.nodup_cons] at hn
    rcases List.mem_cons.mp hx with rfl | hx'
    · simp [List.lookup]
    · have hne : x.1 ≠ y.1 := by
        intro e
        exact hn.1 (e ▸ List.mem_map.mpr ⟨x, hx', rfl⟩)
      have : (x.1 == y.1) = false := by simpa using hne
      rw [List.lookup_cons, this]
      exact lookup_of_mem hn.2 x hx'

theorem lookup_map_snd {β γ : Type} (f : β → γ) (k : Path) : ∀ m : List (Path × β),
    (m.map (fun x => (x.1, f x.2))).lookup k = (m.lookup k).map f
  | [] => rfl
  | (a, b) :: m => by
    simp only [List.map_cons, List.lookup_cons]
    cases hk : (k == a) <;> simp [lookup_map_snd f k m]

/-! ### Costs -/

theorem decodeCosts_costTable (c : Costs) : decodeCosts (costTable c) = some c := by
  have h1 : ((Event.node "DUPLICATION") == (Event.node "SPECIATION")) = false := by decide
  have h2 : ((Event.node "HORIZONTAL_TRANSFER") == (Event.node "SPECIATION")) = false := by decide
  have h3 : ((Event.node "HORIZONTAL_TRANSFER") == (Event.node "DUPLICATION")) = false := by decide
  have h4 : ((Event.edge "FULL_LOSS") == (Event.node "SPECIATION")) = false := by decide
  have h5 : ((Event.edge "FULL_LOSS") == (Event.node "DUPLICATION")) = false := by decide
  have h6 : ((Event.edge "FULL_LOSS") == (Event.node "HORIZONTAL_TRANSFER")) = false := by decide
  have h7 : ((Event.edge "SEGMENTAL_LOSS") == (Event.node "SPECIATION")) = false := by decide
  have h8 : ((Event.edge "SEGMENTAL_LOSS") == (Event.node "DUPLICATION")) = false := by decide
  have h9 : ((Event.edge "SEGMENTAL_LOSS") == (Event.node "HORIZONTAL_TRANSFER")) = false := by
    decide
  have h10 : ((Event.edge "SEGMENTAL_LOSS") == (Event.edge "FULL_LOSS")) = false := by decide
  simp only [decodeCosts, costTable, List.lookup_cons, BEq.rfl, h1, h2, h3, h4, h5, h6, h7, h8, h9,
    h10]

/-! ### `decode` on the embedded tree -/

theorem sol_shape_leaf {s : Sol} (h : s.shape = .node []) : ∃ v g, s = .leaf v g := by
  cases s with
  | leaf v g => exact ⟨v, g, rfl⟩
  | node _ _ _ _ => simp [Sol.shape] at h

theorem sol_shape_node {s : Sol} {a b : RTree} (h : s.shape = .node [a, b]) :
    ∃ v g l r, s = .node v g l r ∧ l.shape = a ∧ r.shape = b := by
  cases s with
  | leaf _ _ => simp [Sol.shape] at h
  | node v g l r =>
    simp only [Sol.shape, RTree.node.injEq, List.cons.injEq, and_true] at h
    exact ⟨v, g, l, r, rfl, h.1, h.2⟩

theorem decode_ntOf (los os : TreeMapping) (famAt : Path → List Nat) (h : List Nat → List Nat) :
    ∀ (o : OTree) (s : Sol) (nmf : Path → String) (p : Path), s.shape = o.shape →
      (∀ x ∈ leafMap (fun sp _ => sp) o, los.lookup (p ++ x.1) = some x.2) →
      (∀ x ∈ nodeMap (fun sp _ => sp) s, os.lookup (p ++ x.1) = some x.2) →
      (∀ x ∈ nodeMap (fun _ f => f) s, famAt (p ++ x.1) = h x.2) →
      decode los os famAt (ntOf nmf o.shape) p = some (o.eraseFam, s.mapFam h) := by
  intro o
  induction o with
  | leaf sp f =>
    intro s nmf p hsh h1 h2 h3
    obtain ⟨v, g, rfl⟩ := sol_shape_leaf hsh
    have e1 := h1 ([], sp) (by simp [leafMap])
    have e2 := h2 ([], v) (by simp [nodeMap])
    have e3 := h3 ([], g) (by simp [nodeMap])
    simp only [List.append_nil] at e1 e2 e3
    simp only [OTree.shape, ntOf, ntOfL, decode, decodeL, e1, e2, e3, OTree.eraseFam, Sol.mapFam]
  | node l r ihl ihr =>
    intro s nmf p hsh h1 h2 h3
    obtain ⟨v, g, sl, sr, rfl, hl, hr⟩ := sol_shape_node hsh
    have e2 := h2 ([], v) (by simp [nodeMap])
    have e3 := h3 ([], g) (by simp [nodeMap])
    simp only [List.append_nil] at e2 e3
    have dl := ihl sl (fun q => nmf (0 :: q)) (p ++ [0]) hl
      (fun x hx => by
        have := h1 (cons2 0 x) (by simp only [leafMap, List.mem_append, List.mem_map]
                                   exact Or.inl ⟨x, hx, rfl⟩)
        simpa [cons2, List.append_assoc] using this)
      (fun x hx => by
        have := h2 (cons2 0 x) (by simp only [nodeMap, List.mem_cons, List.mem_append, List.mem_map]
                                   exact Or.inr (Or.inl ⟨x, hx, rfl⟩))
        simpa [cons2, List.append_assoc] using this)
      (fun x hx => by
        have := h3 (cons2 0 x) (by simp only [nodeMap, List.mem_cons, List.mem_append, List.mem_map]
                                   exact Or.inr (Or.inl ⟨x, hx, rfl⟩))
        simpa [cons2, List.append_assoc] using this)
    have dr := ihr sr (fun q => nmf (1 :: q)) (p ++ [1]) hr
      (fun x hx => by
        have := h1 (cons2 1 x) (by simp only [leafMap, List.mem_append, List.mem_map]
                                   exact Or.inr ⟨x, hx, rfl⟩)
        simpa [cons2, List.append_assoc] using this)
      (fun x hx => by
        have := h2 (cons2 1 x) (by simp only [nodeMap, List.mem_cons, List.mem_append, List.mem_map]
                                   exact Or.inr (Or.inr ⟨x, hx, rfl⟩))
        simpa [cons2, List.append_assoc] using this)
      (fun x hx => by
        have := h3 (cons2 1 x) (by simp only [nodeMap, List.mem_cons, List.mem_append, List.mem_map]
                                   exact Or.inr (Or.inr ⟨x, hx, rfl⟩))
        simpa [cons2, List.append_assoc] using this)
    simp only [OTree.shape, ntOf, ntOfL, decode, decodeL, Nat.zero_add, dl, dr, e2, e3,
      OTree.eraseFam, Sol.mapFam]

/-! ### The evaluator only compares families -/

theorem mapFam_sp (h : List Nat → List Nat) (s : Sol) : (s.mapFam h).sp = s.sp := by
  cases s <;> rfl

theorem mapFam_fam (h : List Nat → List Nat) (s : Sol) : (s.mapFam h).fam = h s.fam := by
  cases s <;> rfl

theorem recCost_mapFam (c : Costs) (h : List Nat → List Nat) : ∀ (o : OTree) (s : Sol),
    recCost c o (s.mapFam h) = recCost c o s
  | .leaf _ _, .leaf _ _ => rfl
  | .leaf _ _, .node _ _ _ _ => rfl
  | .node _ _, .leaf _ _ => rfl
  | .node ol or, .node v g l r => by
    simp only [Sol.mapFam, recCost, mapFam_sp, recCost_mapFam c h ol l, recCost_mapFam c h or r]

theorem recCost_eraseFam (c : Costs) : ∀ (o : OTree) (s : Sol),
    recCost c o.eraseFam s = recCost c o s
  | .leaf _ _, .leaf _ _ => rfl
  | .leaf _ _, .node _ _ _ _ => rfl
  | .node _ _, .leaf _ _ => rfl
  | .node ol or, .node v g l r => by
    simp only [OTree.eraseFam, recCost, recCost_eraseFam c ol l, recCost_eraseFam c or r]

theorem totalCost_eraseFam (c : Costs) (mode : LabelMode) (o : OTree) (s : Sol) :
    totalCost c mode o.eraseFam s = totalCost c mode o s := by
  simp only [totalCost, recCost_eraseFam]

theorem totalCost_mapFam_plain (c : Costs) (h : List Nat → List Nat) (o : OTree) (s : Sol) :
    totalCost c .plain o (s.mapFam h) = totalCost c .plain o s := by
  simp only [totalCost, labelingCost, recCost_mapFam]

section inj

variable (g : Nat → Nat) (hg : ∀ a b, g a = g b → a = b)

include hg in
theorem maskFromSubseq_map : ∀ (b a : List Nat),
    maskFromSubseq (a.map g) (b.map g) = maskFromSubseq a b
  | [], [] => rfl
  | [], _ :: _ => rfl
  | _ :: _, [] => rfl
  | p :: ps, c :: cs => by
    simp only [List.map_cons, maskFromSubseq]
    by_cases e : c = p
    · subst e
      simp only [if_true]
      rw [maskFromSubseq_map ps cs]
    · have : ¬ g c = g p := fun h => e (hg _ _ h)
      simp only [e, this, if_false]
      have := maskFromSubseq_map ps (c :: cs)
      simp only [List.map_cons] at this
      rw [this]

include hg in
theorem ordLosses_mapFam (root : List Nat) : ∀ (s : Sol) (m : Nat),
    ordLosses (root.map g) m (s.mapFam (List.map g)) = ordLosses root m s
  | .leaf _ _, _ => rfl
  | .node v f l r, m => by
    simp only [Sol.mapFam, ordLosses, mapFam_sp, mapFam_fam, maskFromSubseq_map g hg,
      ordLosses_mapFam root l, ordLosses_mapFam root r]

include hg in
theorem totalCost_mapFam_ordered (c : Costs) (o : OTree) (s : Sol) :
    totalCost c .ordered o (s.mapFam (List.map g)) = totalCost c .ordered o s := by
  simp only [totalCost, labelingCost, recCost_mapFam, mapFam_fam, ordLosses_mapFam g hg,
    subseqComplete, List.length_map]

theorem subsetB_iff (a b : List Nat) : subsetB a b = true ↔ ∀ x ∈ a, x ∈ b := by
  simp [subsetB]

variable (h : List Nat → List Nat) (hh : ∀ f x, x ∈ h f ↔ x ∈ f.map g)

include hg hh in
theorem subsetB_recode (a b : List Nat) : subsetB (h a) (h b) = subsetB a b := by
  rw [Bool.eq_iff_iff, subsetB_iff, subsetB_iff]
  constructor
  · intro H x hx
    have := (hh b (g x)).mp (H (g x) ((hh a (g x)).mpr (List.mem_map.mpr ⟨x, hx, rfl⟩)))
    obtain ⟨y, hy, e⟩ := List.mem_map.mp this
    exact hg _ _ e ▸ hy
  · intro H x hx
    obtain ⟨y, hy, rfl⟩ := List.mem_map.mp ((hh a x).mp hx)
    exact (hh b (g y)).mpr (List.mem_map.mpr ⟨y, H y hy, rfl⟩)

include hg hh in
theorem unordLosses_mapFam : ∀ s : Sol, unordLosses (s.mapFam h) = unordLosses s
  | .leaf _ _ => rfl
  | .node v f l r => by
    simp only [Sol.mapFam, unordLosses, localUnordLosses, mapFam_sp, mapFam_fam,
      subsetB_recode g hg h hh, unordLosses_mapFam l, unordLosses_mapFam r]

include hg hh in
theorem totalCost_mapFam_unordered (c : Costs) (o : OTree) (s : Sol) :
    totalCost c .unordered o (s.mapFam h) = totalCost c .unordered o s := by
  simp only [totalCost, labelingCost, recCost_mapFam, unordLosses_mapFam g hg h hh]

end inj

/-! ### The evaluated cost of the embedded object -/

theorem evalWith_emb (mode : LabelMode) (nm : Naming) (c : Costs) (S : RTree) {o : OTree} {s : Sol}
    (hv : Spec.validRec o s = true) (famAt : Path → List Nat) (h : List Nat → List Nat)
    (hf : ∀ x ∈ nodeMap (fun _ f => f) s, famAt x.1 = h x.2) :
    evalWith mode (embInput nm c S o) (nodeMap (fun sp _ => sp) s) famAt
      = totalCost c mode o (s.mapFam h) := by
  have hd := decode_ntOf (leafMap (fun sp _ => sp) o) (nodeMap (fun sp _ => sp) s) famAt h o s
    nm.oname [] (shape_of_validRec o s hv)
    (fun x hx => lookup_of_mem
      ((leafMap_keys_sublist _ o).nodup (RTree.nodup_preorder _)) x hx)
    (fun x hx => lookup_of_mem (by rw [nodeMap_keys]; exact RTree.nodup_preorder _) x hx)
    (fun x hx => hf x hx)
  simp only [evalWith, embInput, decodeCosts_costTable, hd, totalCost_eraseFam]

/-- **The evaluated cost of a written plain output is the `totalCost` of the solution.** -/
theorem evalPlain_emb (nm : Naming) (c : Costs) (S : RTree) {o : OTree} {s : Sol}
    (hv : Spec.validRec o s = true) (withSyn : Bool) :
    evalPlain (embPlain nm c S o withSyn s).input.base (embPlain nm c S o withSyn s).objectSpecies
      = totalCost c .plain o s := by
  show evalWith .plain (embAnyInput nm c S o withSyn).base (nodeMap (fun sp _ => sp) s)
    (fun _ => []) = _
  rw [embAnyInput_base, evalWith_emb .plain nm c S hv (fun _ => []) (fun _ => []) (fun _ _ => rfl),
    totalCost_mapFam_plain]

theorem synFam_nodeMap (enc : List Nat → Syn) (s : Sol) :
    ∀ x ∈ nodeMap (fun _ f => f) s,
      synFam (nodeMap (fun _ f => enc f) s) x.1 = (enc x.2).serial.map strCode := by
  intro x hx
  have hm : (x.1, enc x.2) ∈ nodeMap (fun _ f => enc f) s := by
    rw [← nodeMap_map (fun _ f => f) enc s]
    exact List.mem_map.mpr ⟨x, hx, rfl⟩
  have := lookup_of_mem (by rw [nodeMap_keys]; exact RTree.nodup_preorder _) _ hm
  simp only [synFam, this]

/-- **The evaluated cost of a written labelled output is the `totalCost` of the solution**,
    ordered model (`ordered = true`, syntenies are lists) and unordered model (`false`,
    syntenies are sets in any iteration order). -/
theorem evalSuper_emb (nm : Naming) (hf : ∀ a b, nm.fname a = nm.fname b → a = b)
    (arr : List String → List String) (harr : ∀ l, (arr l).Perm l) (c : Costs) (S : RTree)
    {o : OTree} {s : Sol} (hv : Spec.validRec o s = true) (ordered : Bool) :
    evalSuper (embSuper nm arr c S o ordered s).input.base
        (embSuper nm arr c S o ordered s).objectSpecies
        (embSuper nm arr c S o ordered s).syntenies (embSuper nm arr c S o ordered s).ordered
      = totalCost c (if ordered then .ordered else .unordered) o s := by
  show evalWith (if ordered then .ordered else .unordered) (embInput nm c S o)
    (nodeMap (fun sp _ => sp) s) (synFam (nodeMap (fun _ f => encSyn nm arr ordered f) s)) = _
  rw [evalWith_emb _ nm c S hv _ (fun f => (encSyn nm arr ordered f).serial.map strCode)
    (synFam_nodeMap _ s)]
  have hg : ∀ a b, strCode (nm.fname a) = strCode (nm.fname b) → a = b :=
    fun a b e => hf a b (strCode_inj _ _ e)
  cases ordered
  · simp only [Bool.false_eq_true, if_false]
    refine totalCost_mapFam_unordered (fun a => strCode (nm.fname a)) hg _ ?_ c o s
    intro f x
    simp only [encSyn, Bool.false_eq_true, if_false, Syn.serial, List.mem_map]
    constructor
    · rintro ⟨y, hy, rfl⟩
      have hy' := (harr _).mem_iff.mp ((sortSynteny_perm _).mem_iff.mp hy)
      obtain ⟨a, ha, rfl⟩ := List.mem_map.mp hy'
      exact ⟨a, ha, rfl⟩
    · rintro ⟨a, ha, rfl⟩
      exact ⟨nm.fname a, (sortSynteny_perm _).mem_iff.mpr ((harr _).mem_iff.mpr
        (List.mem_map.mpr ⟨a, ha, rfl⟩)), rfl⟩
  · simp only [if_true]
    have e : (fun f => (encSyn nm arr true f).serial.map strCode)
        = List.map (fun a => strCode (nm.fname a)) := by
      funext f
      simp [encSyn, Syn.serial, List.map_map, Function.comp_def]
    rw [e]
    exact totalCost_mapFam_ordered _ hg c o s

/-- The evaluator reads a set-valued synteny through its sorted list: the hypothesis
    `hset` of `C11_same_evaluation`. -/
theorem evalSuper_normSyn (i : RecInput) (m : TreeMapping) (s : SynMapping) (b : Bool) :
    evalSuper i m (normSyn s) b = evalSuper i m s b := by
  have : synFam (normSyn s) = synFam s := by
    funext p
    have e : (normSyn s).lookup p = (s.lookup p).map (fun v => Syn.lst v.serial) :=
      lookup_map_snd (fun v : Syn => Syn.lst v.serial) p s
    simp only [synFam, e]
    cases s.lookup p with
    | none => rfl
    | some x => cases x <;> rfl
  simp only [evalSuper, this]

end SR.SolOut
