/-
  C09, scaling clause: multiplying every unit cost by `k > 0` multiplies every
  cell of the specification's table `Spec.optTable` by `k` and keeps its
  species, label and solutions; hence `Spec.optimum` is scaled and its optimal
  set is unchanged.  Also: the evaluator itself is homogeneous, for EVERY
  solution (valid or not) and every `k` (`totalCost_scale`).
-/
import SRVerif.Proofs.EventLogCost

namespace SR

open SR.EventLog

namespace Cost

theorem scale_fin (k a : Nat) : scale k (fin a) = fin (k * a) := rfl
theorem scale_inf (k : Nat) : scale k inf = inf := rfl

theorem scale_isInf (k : Nat) (a : Cost) : (scale k a).isInf = a.isInf := by
  cases a <;> rfl

theorem scale_lt {k : Nat} (hk : 0 < k) (a b : Cost) : lt (scale k a) (scale k b) = lt a b := by
  cases a <;> cases b <;> simp [scale, lt, Nat.mul_lt_mul_left hk]

theorem scale_le {k : Nat} (hk : 0 < k) (a b : Cost) : le (scale k a) (scale k b) = le a b := by
  simp [le, scale_lt hk]

theorem scale_inj {k : Nat} (hk : 0 < k) {a b : Cost} : scale k a = scale k b ↔ a = b := by
  cases a <;> cases b <;> simp [scale, Nat.mul_right_inj (Nat.pos_iff_ne_zero.mp hk)]

theorem scale_min {k : Nat} (hk : 0 < k) (a b : Cost) :
    min (scale k a) (scale k b) = scale k (min a b) := by
  unfold min
  rw [scale_lt hk]
  split <;> rfl

theorem scale_minList {k : Nat} (hk : 0 < k) (l : List Cost) :
    minList (l.map (scale k)) = scale k (minList l) := by
  induction l with
  | nil => rfl
  | cons x xs ih => simp only [List.map_cons, minList, ih, scale_min hk]

/-- Scaling is monotone for every `k` (also `k = 0`). -/
theorem scale_mono (k : Nat) {a b : Cost} (h : le a b = true) :
    le (scale k a) (scale k b) = true := by
  cases a <;> cases b <;> simp_all [scale, le, lt]
  exact Nat.mul_le_mul_left k h

end Cost

/-! ### The evaluator is homogeneous in the unit costs -/

theorem localRecCost_scale (k : Nat) (c : Costs) (s a b : Path) :
    localRecCost (scaleCosts k c) s a b = Cost.scale k (localRecCost c s a b) := by
  unfold localRecCost
  cases internalEvent s a b <;>
    simp only [scaleCosts, Cost.scale_add, Cost.scale_fin, Cost.scale_inf, Nat.mul_add,
      Nat.mul_assoc]

theorem recCost_scale (k : Nat) (c : Costs) (o : OTree) (sol : Sol) :
    recCost (scaleCosts k c) o sol = Cost.scale k (recCost c o sol) := by
  induction o generalizing sol with
  | leaf given f =>
    cases sol with
    | leaf s g => simp only [recCost]; split <;> simp [Cost.scale]
    | node s g l r => rfl
  | node ol or ihl ihr =>
    cases sol with
    | leaf s g => rfl
    | node s g l r =>
      simp only [recCost]
      cases internalEvent s l.sp r.sp <;>
        simp only [ihl, ihr, localRecCost_scale, Cost.scale_add, Cost.scale_inf]

theorem labelingCost_scale (k : Nat) (c : Costs) (mode : LabelMode) (sol : Sol) :
    labelingCost (scaleCosts k c) mode sol = (labelingCost c mode sol).map (k * ·) := by
  cases mode <;> simp [labelingCost, scaleCosts, Option.map_map, Function.comp_def,
    Nat.mul_left_comm]

/-- **Homogeneity of the evaluator, for every solution and every factor**
    (no validity hypothesis; `C06_linear_scale` is the instance for valid
    solutions, obtained there through the event log). -/
theorem totalCost_scale (k : Nat) (c : Costs) (mode : LabelMode) (o : OTree) (sol : Sol) :
    totalCost (scaleCosts k c) mode o sol = Cost.scale k (totalCost c mode o sol) := by
  unfold totalCost
  rw [labelingCost_scale]
  cases labelingCost c mode sol with
  | none => rfl
  | some n => simp only [Option.map_some, recCost_scale, Cost.scale_add, Cost.scale_fin]

namespace Spec

theorem localCost_scale (k : Nat) (c : Costs) (md : ModeData) (whole : OTree) (p s : Path)
    (f : List Nat) (a : Path) (fa : List Nat) (b : Path) (fb : List Nat) :
    localCost (scaleCosts k c) md whole p s f a fa b fb
      = Cost.scale k (localCost c md whole p s f a fa b fb) := by
  unfold localCost
  split
  · rfl
  · simp only []
    split
    · rename_i n hn
      simp only [localRecCost_scale, Cost.scale_add, Cost.scale_fin]
      congr 2
      simp [scaleCosts, Nat.mul_left_comm]
    · rfl

/-! ### One cell of the table, abstracted from the local cost -/

/-- The body of the `node` case of `optTable` for one root state `(s, f)`. -/
def nodeCell (lc : OCell → OCell → Cost) (keep : Bool) (s : Path) (f : List Nat)
    (L R : List OCell) : Option OCell :=
  let cands := L.flatMap fun cl => R.map fun cr => (lc cl cr + (cl.cost + cr.cost), cl, cr)
  let best := Cost.minList (cands.map (·.1))
  if best.isInf then none
  else
    let sols := if keep then
        (cands.filter (fun x => x.1 = best)).flatMap fun x =>
          x.2.1.sols.flatMap fun sl => x.2.2.sols.map fun sr => Sol.node s f sl sr
      else []
    some { sp := s, fam := f, cost := best, sols := sols }

theorem optTable_node (c : Costs) (S : RTree) (md : ModeData) (base keep : Bool) (whole : OTree)
    (p : Path) (l r : OTree) :
    optTable c S md base keep whole p (.node l r) =
      (if base then [(lcaSol (.node l r)).sp] else allSpecies S).flatMap fun s =>
        (labelSpace md whole p).filterMap fun f =>
          nodeCell (fun cl cr => localCost c md whole p s f cl.sp cl.fam cr.sp cr.fam) keep s f
            (optTable c S md base keep whole (p ++ [0]) l)
            (optTable c S md base keep whole (p ++ [1]) r) := rfl

/-- Multiply the value of a cell by `k`. -/
def scCell (k : Nat) (d : OCell) : OCell := { d with cost := Cost.scale k d.cost }

@[simp] theorem scCell_sp (k : Nat) (d : OCell) : (scCell k d).sp = d.sp := rfl
@[simp] theorem scCell_fam (k : Nat) (d : OCell) : (scCell k d).fam = d.fam := rfl
@[simp] theorem scCell_cost (k : Nat) (d : OCell) : (scCell k d).cost = Cost.scale k d.cost := rfl
@[simp] theorem scCell_sols (k : Nat) (d : OCell) : (scCell k d).sols = d.sols := rfl

theorem nodeCell_scale {k : Nat} (hk : 0 < k) (lc lc' : OCell → OCell → Cost)
    (hlc : ∀ cl cr, lc' (scCell k cl) (scCell k cr) = Cost.scale k (lc cl cr))
    (keep : Bool) (s : Path) (f : List Nat) (L R : List OCell) :
    nodeCell lc' keep s f (L.map (scCell k)) (R.map (scCell k))
      = (nodeCell lc keep s f L R).map (scCell k) := by
  unfold nodeCell
  -- the candidate list is mapped componentwise
  have hc : ((L.map (scCell k)).flatMap fun cl => (R.map (scCell k)).map fun cr =>
        (lc' cl cr + (cl.cost + cr.cost), cl, cr))
      = (L.flatMap fun cl => R.map fun cr => (lc cl cr + (cl.cost + cr.cost), cl, cr)).map
          (fun x => (Cost.scale k x.1, scCell k x.2.1, scCell k x.2.2)) := by
    rw [List.flatMap_map, List.map_flatMap]
    congr 1; funext cl
    rw [List.map_map, List.map_map]
    congr 1; funext cr
    simp [hlc, Cost.scale_add]
  simp only [hc]
  generalize (L.flatMap fun cl => R.map fun cr => (lc cl cr + (cl.cost + cr.cost), cl, cr)) = cands
  have hb : Cost.minList ((cands.map
        (fun x => (Cost.scale k x.1, scCell k x.2.1, scCell k x.2.2))).map (·.1))
      = Cost.scale k (Cost.minList (cands.map (·.1))) := by
    rw [← Cost.scale_minList hk, List.map_map, List.map_map]; rfl
  rw [hb, Cost.scale_isInf]
  split
  · rfl
  · simp only [Option.map_some, scCell, Option.some.injEq, OCell.mk.injEq, true_and]
    cases keep with
    | false => rfl
    | true =>
      simp only [if_true]
      rw [List.filter_map, List.flatMap_map]
      congr 1
      congr 1
      funext x
      simp [Cost.scale_inj hk]

/-- **Every cell of the specification's table is scaled, nothing else changes.** -/
theorem optTable_scale {k : Nat} (hk : 0 < k) (c : Costs) (S : RTree) (md : ModeData)
    (base keep : Bool) (whole : OTree) (p : Path) (o : OTree) :
    optTable (scaleCosts k c) S md base keep whole p o
      = (optTable c S md base keep whole p o).map (scCell k) := by
  induction o generalizing p with
  | leaf sp f => simp [optTable, scCell, Cost.scale]
  | node l r ihl ihr =>
    rw [optTable_node, optTable_node, ihl, ihr, List.map_flatMap]
    congr 1; funext s
    rw [List.map_filterMap]
    congr 1; funext f
    exact nodeCell_scale hk _ _ (fun cl cr => by simp [localCost_scale]) keep s f _ _

/-- **The optimum is scaled and the optimal set is literally unchanged.** -/
theorem optimum_scale {k : Nat} (hk : 0 < k) (c : Costs) (S : RTree) (mode : LabelMode)
    (base keep : Bool) (o : OTree) (pre : Option (List Nat)) :
    optimum (scaleCosts k c) S mode base keep o pre
      = (Cost.scale k (optimum c S mode base keep o pre).1, (optimum c S mode base keep o pre).2) := by
  unfold optimum
  have hcells : ((modeDatas mode o pre).flatMap fun md =>
        optTable (scaleCosts k c) S md base keep o [] o)
      = ((modeDatas mode o pre).flatMap fun md => optTable c S md base keep o [] o).map
          (scCell k) := by
    rw [List.map_flatMap]; congr 1; funext md; exact optTable_scale hk c S md base keep o [] o
  simp only [hcells]
  generalize ((modeDatas mode o pre).flatMap fun md => optTable c S md base keep o [] o) = cells
  have hb : Cost.minList ((cells.map (scCell k)).map (·.cost))
      = Cost.scale k (Cost.minList (cells.map (·.cost))) := by
    rw [← Cost.scale_minList hk, List.map_map, List.map_map]; rfl
  rw [hb]
  congr 2
  rw [List.filter_map, List.flatMap_map]
  congr 1
  congr 1; funext d; simp [Cost.scale_inj hk]

end Spec

end SR
