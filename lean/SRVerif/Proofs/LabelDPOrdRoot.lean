/-
  Root orders of the ordered solver (`rootOrders`, by its C19 specification):
  every enumerated order is duplicate-free and has every leaf synteny as a
  subsequence; species well-formedness of the ordered annotation.
-/
import SRVerif.Proofs.LabelDPOrd

namespace SR

open Cost Path

theorem isSublist_iff (a b : List Nat) : isSublist a b = true ↔ a.Sublist b := by
  induction b generalizing a with
  | nil =>
    cases a with
    | nil => simp [isSublist]
    | cons x xs => simp [isSublist]
  | cons y ys ih =>
    cases a with
    | nil => simp [isSublist]
    | cons x xs =>
      simp only [isSublist]
      by_cases h : x = y
      · subst h
        simp only [beq_self_eq_true, if_true, ih, List.cons_sublist_cons]
      · have hb : (x == y) = false := by simpa using h
        simp only [hb, Bool.false_eq_true, if_false, ih]
        constructor
        · intro hs; exact List.Sublist.cons _ hs
        · intro hs
          cases hs with
          | cons _ h' => exact h'
          | cons_cons _ _ => exact absurd rfl h

theorem mem_insertEverywhere {β : Type} (x : β) (ys q : List β) (h : q ∈ insertEverywhere x ys) :
    (∀ z, z ∈ q ↔ z = x ∨ z ∈ ys) ∧ (x ∉ ys → ys.Nodup → q.Nodup) := by
  induction ys generalizing q with
  | nil =>
    simp only [insertEverywhere, List.mem_singleton] at h
    subst h; simp
  | cons y ys ih =>
    simp only [insertEverywhere, List.mem_cons, List.mem_map] at h
    rcases h with rfl | ⟨q', hq', rfl⟩
    · refine ⟨by simp, ?_⟩
      intro hx hnd
      exact List.nodup_cons.mpr ⟨hx, hnd⟩
    · obtain ⟨hm, hn⟩ := ih q' hq'
      refine ⟨?_, ?_⟩
      · intro z
        simp only [List.mem_cons, hm z]
        constructor
        · rintro (h | h | h)
          · exact Or.inr (Or.inl h)
          · exact Or.inl h
          · exact Or.inr (Or.inr h)
        · rintro (h | h | h)
          · exact Or.inr (Or.inl h)
          · exact Or.inl h
          · exact Or.inr (Or.inr h)
      · intro hx hnd
        simp only [List.mem_cons, not_or] at hx
        obtain ⟨hy, hnd'⟩ := List.nodup_cons.mp hnd
        refine List.nodup_cons.mpr ⟨?_, hn hx.2 hnd'⟩
        rw [hm y]
        rintro (h | h)
        · exact hx.1 h.symm
        · exact hy h

theorem mem_permutations {β : Type} (l p : List β) (h : p ∈ permutations l) :
    (∀ z, z ∈ p ↔ z ∈ l) ∧ (l.Nodup → p.Nodup) := by
  induction l generalizing p with
  | nil =>
    simp only [permutations, List.mem_singleton] at h
    subst h; simp
  | cons x xs ih =>
    simp only [permutations, List.mem_flatMap] at h
    obtain ⟨q, hq, hp⟩ := h
    obtain ⟨hm, hn⟩ := ih q hq
    obtain ⟨hm', hn'⟩ := mem_insertEverywhere x q p hp
    refine ⟨?_, ?_⟩
    · intro z; rw [hm' z, hm z]; simp
    · intro hnd
      obtain ⟨hx, hnd'⟩ := List.nodup_cons.mp hnd
      exact hn' (by rw [hm x]; exact hx) (hn hnd')

theorem leavesOk_of_all (order : List Nat) (o : OTree)
    (h : ∀ f ∈ leafSyntenies o, f ≠ [] ∧ f.Sublist order) : LeavesOk order o := by
  induction o with
  | leaf sp f => exact h f (by simp [leafSyntenies])
  | node l r ihl ihr =>
    exact ⟨ihl (fun f hf => h f (by simp [leafSyntenies, hf])),
      ihr (fun f hf => h f (by simp [leafSyntenies, hf]))⟩

/-- Without a prescribed root order, every enumerated order is duplicate-free and
    contains every (non-empty) leaf synteny as a subsequence. -/
theorem rootOrders_ok (o : OTree) (hne : ∀ f ∈ leafSyntenies o, f ≠ []) :
    ∀ order ∈ rootOrders o none, order.Nodup ∧ LeavesOk order o := by
  intro order h
  simp only [rootOrders, List.mem_filter, List.all_eq_true] at h
  obtain ⟨hp, hs⟩ := h
  refine ⟨(mem_permutations _ _ hp).2 (nodup_dedup _), leavesOk_of_all order o ?_⟩
  intro f hf
  exact ⟨hne f hf, (isSublist_iff f order).mp (hs f hf)⟩

/-- A prescribed root order qualifies when it is duplicate-free and a common
    supersequence of the (non-empty) leaf syntenies. -/
theorem rootOrders_ok_prescribed (o : OTree) (r : List Nat) (hnd : r.Nodup)
    (h : ∀ f ∈ leafSyntenies o, f ≠ [] ∧ f.Sublist r) :
    ∀ order ∈ rootOrders o (some r), order.Nodup ∧ LeavesOk order o := by
  intro order ho
  simp only [rootOrders, List.mem_singleton] at ho
  subst ho
  exact ⟨hnd, leavesOk_of_all _ o h⟩

/-! ### Species well-formedness of the ordered annotation -/

theorem lcaSol_sp_isNode (S : RTree) (o : OTree) (hS : ∀ p ∈ leafSpecies o, S.isNode p = true) :
    S.isNode (lcaSol o).sp = true := by
  have hgen := (mem_generateAll o (lcaSol o)).mp (lcaSol_mem_generateAll o)
  obtain ⟨p, hp, hanc⟩ := validRec_sp_anc_leaf o (lcaSol o) hgen.1
  exact RTree.isNode_of_anc hanc (hS p hp)

theorem spOk_annOrd (c : Costs) (S : RTree) (base : Bool) (order : List Nat) (o : OTree)
    (hS : ∀ p ∈ leafSpecies o, S.isNode p = true) :
    ∀ isRoot, SpOk (ordAlg c) S (annOrd S base order isRoot o) := by
  induction o with
  | leaf sp f => intro _; exact hS sp (by simp [leafSpecies])
  | node l r ihl ihr =>
    intro isRoot
    refine ⟨?_, ihl (fun p hp => hS p (by simp [leafSpecies, hp])) false,
      ihr (fun p hp => hS p (by simp [leafSpecies, hp])) false⟩
    intro s hs
    simp only [ordAlg] at hs
    cases base with
    | true =>
      simp only [if_true, List.mem_singleton] at hs
      subst hs
      exact lcaSol_sp_isNode S (.node l r) hS
    | false =>
      simp only [Bool.false_eq_true, if_false, List.mem_reverse] at hs
      exact (RTree.mem_preorder_iff s S).mp hs

end SR
