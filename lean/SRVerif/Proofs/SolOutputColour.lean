/-
  C12 (bridge, colours): recolouring commutes with everything the bridge uses.

  * `pre_recol`: the nodes of `recolNT col t` in pre-order are those of `t`, same paths, same
    names, the colour at path `q` being `col q`; hence same names (`names_recol`), same
    nodes (`sub_recol_isSome`), `UniqueNames` / `KeysIn` / `TreeMappingWF` preserved, and
    `SafeNames` preserved as soon as the colours put on the nodes of the tree are safe
    (`ColSafe`).
  * `decode_recol`: the evaluator's reader never looks at a colour; hence `evalWith_recolour`,
    `evalPlain_recolour`, `evalSuper_recolour`.
  * `RecInput.WF.recolour` … `SRecOutput.WF.recolour`: the domain of the C11 round trip is
    closed under recolouring with safe colours.
  * `recolNT_ntOf`: recolouring the uncoloured embedded tree gives the coloured tree `ntOfC`;
    `pre_ntOfC`: its node at path `q` is called `nm q` and has colour `col q`;
    `ntOfC_self`: EVERY named tree is `ntOfC` of its own names, colours and shape — so every
    input tree is an embedded tree for some naming and some colouring.
  * `embPlainC_wf`, `embSuperC_wf`, `evalPlain_embC`, `evalSuper_embC`.
-/
import SRVerif.Model.SolOutputColour
import SRVerif.Proofs.SolOutputEval

namespace SR.SolOut

open SR SR.Ser

/-! ### The nodes of a recoloured tree -/

def tagC (col : Path → Option String) (x : Path × NT) : Path × String × Option String :=
  (x.1, x.2.name, col x.1)

mutual
  theorem pre_recol : ∀ (col : Path → Option String) (t : NT),
      (recolNT col t).pre.map tagNT = t.pre.map (tagC col)
    | col, .node n c cs => by
      simp only [recolNT, NT.pre, List.map_cons]
      rw [preL_recol col cs 0]
      rfl
  theorem preL_recol : ∀ (col : Path → Option String) (cs : List NT) (i : Nat),
      (NT.preL (recolL col cs i) i).map tagNT = (NT.preL cs i).map (tagC col)
    | col, [], i => by simp [recolL, NT.preL]
    | col, c :: cs, i => by
      simp only [recolL, NT.preL, List.map_append, List.map_map]
      rw [preL_recol col cs (i + 1)]
      congr 1
      have h := pre_recol (fun q => col (i :: q)) c
      have e1 : (tagNT ∘ fun x : Path × NT => (i :: x.1, x.2))
          = (fun y : Path × String × Option String => (i :: y.1, y.2)) ∘ tagNT := rfl
      have e2 : (tagC col ∘ fun x : Path × NT => (i :: x.1, x.2))
          = (fun y : Path × String × Option String => (i :: y.1, y.2))
            ∘ tagC (fun q => col (i :: q)) := rfl
      rw [e1, e2, ← List.map_map, h, List.map_map]
end

theorem paths_recol (col : Path → Option String) (t : NT) :
    (recolNT col t).pre.map (·.1) = t.pre.map (·.1) := by
  have h := congrArg (List.map (fun y : Path × String × Option String => y.1)) (pre_recol col t)
  simpa [List.map_map, Function.comp_def, tagNT, tagC] using h

theorem names_recol (col : Path → Option String) (t : NT) : (recolNT col t).names = t.names := by
  have h := congrArg (List.map (fun y : Path × String × Option String => y.2.1)) (pre_recol col t)
  simpa [NT.names, List.map_map, Function.comp_def, tagNT, tagC] using h

theorem sub_isSome_iff_mem_paths (t : NT) (q : Path) :
    (t.sub q).isSome = true ↔ q ∈ t.pre.map (·.1) := by
  constructor
  · intro h
    obtain ⟨s, hs⟩ := Option.isSome_iff_exists.1 h
    exact List.mem_map.mpr ⟨(q, s), (NT.mem_pre _ _ _).mpr hs, rfl⟩
  · intro h
    obtain ⟨x, hx, rfl⟩ := List.mem_map.mp h
    have := (NT.mem_pre t x.1 x.2).mp hx
    rw [this]; rfl

theorem sub_recol_isSome (col : Path → Option String) (t : NT) (q : Path) :
    ((recolNT col t).sub q).isSome = (t.sub q).isSome := by
  rw [Bool.eq_iff_iff, sub_isSome_iff_mem_paths, sub_isSome_iff_mem_paths, paths_recol]

theorem unique_recol (col : Path → Option String) {t : NT} (h : t.UniqueNames) :
    (recolNT col t).UniqueNames := by
  unfold NT.UniqueNames
  rw [names_recol]
  exact h

/-- The colours that `col` puts on the nodes of `t` are safe (non-empty words over letters,
    digits, underscore: the alphabet of C11's `SafeNames`). -/
def ColSafe (col : Path → Option String) (t : NT) : Prop :=
  ∀ x ∈ t.pre, ∀ c, col x.1 = some c → NT.safeStr c = true

theorem safe_recol {col : Path → Option String} {t : NT} (h : t.SafeNames) (hc : ColSafe col t) :
    (recolNT col t).SafeNames := by
  intro x hx
  have h1 : tagNT x ∈ (recolNT col t).pre.map tagNT := List.mem_map.mpr ⟨x, hx, rfl⟩
  rw [pre_recol] at h1
  obtain ⟨y, hy, he⟩ := List.mem_map.mp h1
  simp only [tagNT, tagC, Prod.mk.injEq] at he
  refine ⟨by rw [← he.2.1]; exact (h y hy).1, fun c hcc => ?_⟩
  rw [← he.2.2] at hcc
  exact hc y hy c hcc

theorem keysIn_recol (col : Path → Option String) {t : NT} {ν : Type} {m : List (Path × ν)}
    (h : KeysIn t m) : KeysIn (recolNT col t) m :=
  ⟨h.1, fun x hx => by rw [sub_recol_isSome]; exact h.2 x hx⟩

theorem treeMappingWF_recol (c1 c2 : Path → Option String) {ft tt : NT} {m : TreeMapping}
    (h : TreeMappingWF ft tt m) : TreeMappingWF (recolNT c1 ft) (recolNT c2 tt) m :=
  ⟨keysIn_recol c1 h.1, fun x hx => by rw [sub_recol_isSome]; exact h.2 x hx⟩

/-! ### The evaluator ignores colours -/

mutual
  theorem decode_recol (los os : TreeMapping) (famAt : Path → List Nat) :
      ∀ (col : Path → Option String) (t : NT) (p : Path),
        decode los os famAt (recolNT col t) p = decode los os famAt t p
    | col, .node n c cs, p => by
      simp only [recolNT, decode, decodeL_recol los os famAt col cs p 0]
  theorem decodeL_recol (los os : TreeMapping) (famAt : Path → List Nat) :
      ∀ (col : Path → Option String) (cs : List NT) (p : Path) (i : Nat),
        decodeL los os famAt (recolL col cs i) p i = decodeL los os famAt cs p i
    | col, [], p, i => by simp only [recolL]
    | col, c :: cs, p, i => by
      simp only [recolL, decodeL, decode_recol los os famAt _ c (p ++ [i]),
        decodeL_recol los os famAt col cs p (i + 1)]
end

theorem evalWith_recolour (cl : Colouring) (mode : LabelMode) (i : RecInput) (m : TreeMapping)
    (famAt : Path → List Nat) : evalWith mode (i.recolour cl) m famAt = evalWith mode i m famAt := by
  simp only [evalWith, RecInput.recolour, decode_recol]

theorem evalPlain_recolour (cl : Colouring) (i : RecInput) (m : TreeMapping) :
    evalPlain (i.recolour cl) m = evalPlain i m := evalWith_recolour cl _ i m _

theorem evalSuper_recolour (cl : Colouring) (i : RecInput) (m : TreeMapping) (syn : SynMapping)
    (b : Bool) : evalSuper (i.recolour cl) m syn b = evalSuper i m syn b :=
  evalWith_recolour cl _ i m _

/-! ### Well-formedness is preserved -/

/-- The colours of `cl` are safe on the nodes of the two trees of `i`. -/
structure Colouring.SafeOn (cl : Colouring) (i : RecInput) : Prop where
  obj : ColSafe cl.ocol i.objectTree
  spe : ColSafe cl.scol i.speciesTree

theorem AnyInput.recolour_base (cl : Colouring) (i : AnyInput) :
    (i.recolour cl).base = i.base.recolour cl := by
  cases i <;> rfl

theorem RecInput.WF.recolour {cl : Colouring} {i : RecInput} (h : i.WF) (hc : cl.SafeOn i) :
    (i.recolour cl).WF where
  objUnique := unique_recol _ h.objUnique
  objSafe := safe_recol h.objSafe hc.obj
  speUnique := unique_recol _ h.speUnique
  speSafe := safe_recol h.speSafe hc.spe
  leaf := treeMappingWF_recol _ _ h.leaf
  costs := h.costs

theorem SRecInput.WF.recolour {cl : Colouring} {i : SRecInput} (h : i.WF) (hc : cl.SafeOn i.base) :
    (i.recolour cl).WF :=
  ⟨RecInput.WF.recolour h.base hc, keysIn_recol _ h.syn⟩

theorem AnyInput.WF.recolour {cl : Colouring} : ∀ {i : AnyInput}, i.WF → cl.SafeOn i.base →
    (i.recolour cl).WF
  | .plain _, h, hc => RecInput.WF.recolour h hc
  | .super _, h, hc => SRecInput.WF.recolour h hc

theorem RecOutput.WF.recolour {cl : Colouring} {x : RecOutput} (h : x.WF)
    (hc : cl.SafeOn x.input.base) : (x.recolour cl).WF where
  input := AnyInput.WF.recolour h.input hc
  map := by
    show TreeMappingWF (x.input.recolour cl).base.objectTree (x.input.recolour cl).base.speciesTree _
    rw [AnyInput.recolour_base]
    exact treeMappingWF_recol _ _ h.map

theorem SRecOutput.WF.recolour {cl : Colouring} {x : SRecOutput} (h : x.WF)
    (hc : cl.SafeOn x.input.base) : (x.recolour cl).WF where
  input := AnyInput.WF.recolour h.input hc
  map := by
    show TreeMappingWF (x.input.recolour cl).base.objectTree (x.input.recolour cl).base.speciesTree _
    rw [AnyInput.recolour_base]
    exact treeMappingWF_recol _ _ h.map
  syn := by
    show KeysIn (x.input.recolour cl).base.objectTree _
    rw [AnyInput.recolour_base]
    exact keysIn_recol _ h.syn

/-! ### The coloured tree `ntOfC` -/

mutual
  theorem recolNT_ntOf : ∀ (nm : Path → String) (col : Path → Option String) (t : RTree),
      recolNT col (ntOf nm t) = ntOfC nm col t
    | nm, col, .node cs => by
      simp only [ntOf, recolNT, ntOfC, recolL_ntOfL nm col cs 0]
  theorem recolL_ntOfL : ∀ (nm : Path → String) (col : Path → Option String) (cs : List RTree)
      (i : Nat), recolL col (ntOfL nm cs i) i = ntOfCL nm col cs i
    | nm, col, [], i => by simp only [ntOfL, recolL, ntOfCL]
    | nm, col, c :: cs, i => by
      simp only [ntOfL, recolL, ntOfCL, recolNT_ntOf _ _ c, recolL_ntOfL nm col cs (i + 1)]
end

def tagPC (nm : Path → String) (col : Path → Option String) (q : Path) :
    Path × String × Option String := (q, nm q, col q)

/-- The nodes of `ntOfC nm col t` in pre-order: the paths of `t`, the node at `q` called
    `nm q` with colour `col q`. -/
theorem pre_ntOfC (nm : Path → String) (col : Path → Option String) (t : RTree) :
    (ntOfC nm col t).pre.map tagNT = t.preorder.map (tagPC nm col) := by
  rw [← recolNT_ntOf, pre_recol]
  have h := pre_ntOf nm t
  have e : ∀ l : List (Path × NT), l.map (tagC col)
      = (l.map tagNT).map (fun y : Path × String × Option String => (y.1, y.2.1, col y.1)) := by
    intro l; simp [List.map_map, Function.comp_def, tagC, tagNT]
  rw [e, h]
  simp [List.map_map, Function.comp_def, tagP, tagPC]

/-- Colours safe on the nodes of the shape ⇒ `ColSafe` on the embedded tree. -/
theorem colSafe_ntOf {nm : Path → String} {col : Path → Option String} {t : RTree}
    (h : ∀ p ∈ t.preorder, ∀ c, col p = some c → NT.safeStr c = true) :
    ColSafe col (ntOf nm t) := by
  intro x hx c hc
  have : x.1 ∈ (ntOf nm t).pre.map (·.1) := List.mem_map.mpr ⟨x, hx, rfl⟩
  rw [paths_ntOf] at this
  exact h x.1 this c hc

/-! ### Every named tree is an `ntOfC` -/

theorem nameFn_nil (n : String) (c : Option String) (cs : List NT) :
    nameFn (.node n c cs) [] = n := rfl

theorem colFn_nil (n : String) (c : Option String) (cs : List NT) :
    colFn (.node n c cs) [] = c := rfl

mutual
  theorem ntOfC_ext : ∀ (t : RTree) (nm nm' : Path → String) (col col' : Path → Option String),
      (∀ q, nm q = nm' q) → (∀ q, col q = col' q) → ntOfC nm col t = ntOfC nm' col' t
    | .node cs, nm, nm', col, col', h1, h2 => by
      simp only [ntOfC, h1 [], h2 [], ntOfCL_ext cs 0 nm nm' col col' h1 h2]
  theorem ntOfCL_ext : ∀ (cs : List RTree) (i : Nat) (nm nm' : Path → String)
      (col col' : Path → Option String),
      (∀ q, nm q = nm' q) → (∀ q, col q = col' q) → ntOfCL nm col cs i = ntOfCL nm' col' cs i
    | [], _, _, _, _, _, _, _ => by simp only [ntOfCL]
    | c :: cs, i, nm, nm', col, col', h1, h2 => by
      simp only [ntOfCL, ntOfCL_ext cs (i + 1) nm nm' col col' h1 h2,
        ntOfC_ext c _ _ _ _ (fun q => h1 (i :: q)) (fun q => h2 (i :: q))]
end

theorem nameFn_cons {n : String} {c : Option String} {cs : List NT} {j : Nat} {c' : NT}
    (h : cs[j]? = some c') (q : Path) : nameFn (.node n c cs) (j :: q) = nameFn c' q := by
  simp only [nameFn, NT.nameAt, NT.sub, NT.children, h]

theorem colFn_cons {n : String} {c : Option String} {cs : List NT} {j : Nat} {c' : NT}
    (h : cs[j]? = some c') (q : Path) : colFn (.node n c cs) (j :: q) = colFn c' q := by
  simp only [colFn, NT.sub, NT.children, h]

mutual
  /-- **Every named tree is an embedded coloured tree**: of its own shape, names and colours. -/
  theorem ntOfC_self : ∀ t : NT, ntOfC (nameFn t) (colFn t) (shapeNT t) = t
    | .node n c cs => by
      simp only [shapeNT, ntOfC, nameFn_nil, colFn_nil]
      rw [ntOfCL_self cs 0 _ _ (fun j c' hj => by
        rw [Nat.zero_add]; exact ⟨nameFn_cons hj, colFn_cons hj⟩)]
  theorem ntOfCL_self : ∀ (cs : List NT) (i : Nat) (nm : Path → String)
      (col : Path → Option String),
      (∀ j c', cs[j]? = some c' →
        (∀ q, nm ((i + j) :: q) = nameFn c' q) ∧ (∀ q, col ((i + j) :: q) = colFn c' q)) →
      ntOfCL nm col (shapeL cs) i = cs
    | [], _, _, _, _ => by simp only [shapeL, ntOfCL]
    | c :: cs, i, nm, col, h => by
      have h0 := h 0 c rfl
      simp only [Nat.add_zero] at h0
      simp only [shapeL, ntOfCL]
      rw [ntOfC_ext (shapeNT c) _ (nameFn c) _ (colFn c) h0.1 h0.2, ntOfC_self c,
        ntOfCL_self cs (i + 1) nm col (fun j c' hj => by
          have := h (j + 1) c' (by simpa using hj)
          rw [show i + (j + 1) = i + 1 + j by omega] at this
          exact this)]
end

/-! ### The coloured embedding -/

/-- Colours: every colour present on a node of the species tree or of the object tree is safe
    (a non-empty word over letters, digits, underscore — e.g. `0000FF`, `red`; the alphabet of
    C11's `SafeNames`, inside which the Newick round trip `C11_newick_roundtrip` is proved). -/
structure Colouring.Ok (cl : Colouring) (S : RTree) (o : OTree) : Prop where
  sSafe : ∀ p ∈ S.preorder, ∀ c, cl.scol p = some c → NT.safeStr c = true
  oSafe : ∀ p ∈ o.shape.preorder, ∀ c, cl.ocol p = some c → NT.safeStr c = true

theorem Colouring.blank_ok (S : RTree) (o : OTree) : Colouring.blank.Ok S o :=
  { sSafe := fun _ _ _ h => by cases h
    oSafe := fun _ _ _ h => by cases h }

variable {nm : Naming} {cl : Colouring} {S : RTree} {o : OTree}

theorem Colouring.Ok.safeOn (h : cl.Ok S o) (c : Costs) : cl.SafeOn (embInput nm c S o) :=
  ⟨colSafe_ntOf h.oSafe, colSafe_ntOf h.sSafe⟩

/-- The trees of the coloured input: names `nm`, colours `cl`, by path. -/
theorem embInputC_trees (nm : Naming) (cl : Colouring) (c : Costs) (S : RTree) (o : OTree) :
    (embInputC nm cl c S o).objectTree = ntOfC nm.oname cl.ocol o.shape ∧
    (embInputC nm cl c S o).speciesTree = ntOfC nm.sname cl.scol S :=
  ⟨recolNT_ntOf _ _ _, recolNT_ntOf _ _ _⟩

theorem embPlainC_base (nm : Naming) (cl : Colouring) (c : Costs) (S : RTree) (o : OTree)
    (withSyn : Bool) (s : Sol) : (embPlainC nm cl c S o withSyn s).input.base = embInputC nm cl c S o := by
  show ((embAnyInput nm c S o withSyn).recolour cl).base = _
  rw [AnyInput.recolour_base, embAnyInput_base]; rfl

theorem embSuperC_base (nm : Naming) (cl : Colouring) (arr : List String → List String) (c : Costs)
    (S : RTree) (o : OTree) (ordered : Bool) (s : Sol) :
    (embSuperC nm cl arr c S o ordered s).input.base = embInputC nm cl c S o := rfl

theorem embPlainC_wf (c : Costs) (h : nm.Ok S o) (hcl : cl.Ok S o)
    (hS : ∀ p ∈ leafSpecies o, S.isNode p = true) (withSyn : Bool) {s : Sol}
    (hv : Spec.validRec o s = true) : (embPlainC nm cl c S o withSyn s).WF :=
  RecOutput.WF.recolour (embPlain_wf c h hS withSyn hv) (by
    show cl.SafeOn (embAnyInput nm c S o withSyn).base
    rw [embAnyInput_base]; exact hcl.safeOn c)

theorem embSuperC_wf (arr : List String → List String) (c : Costs) (h : nm.Ok S o)
    (hcl : cl.Ok S o) (hS : ∀ p ∈ leafSpecies o, S.isNode p = true) (ordered : Bool) {s : Sol}
    (hv : Spec.validRec o s = true) : (embSuperC nm cl arr c S o ordered s).WF :=
  SRecOutput.WF.recolour (embSuper_wf arr c h hS ordered hv) (hcl.safeOn c)

/-- **The evaluated cost of a written plain output is the `totalCost` of the solution**,
    whatever the colours (no hypothesis on them: the evaluator never reads one). -/
theorem evalPlain_embC (nm : Naming) (cl : Colouring) (c : Costs) (S : RTree) {o : OTree} {s : Sol}
    (hv : Spec.validRec o s = true) (withSyn : Bool) :
    evalPlain (embPlainC nm cl c S o withSyn s).input.base
        (embPlainC nm cl c S o withSyn s).objectSpecies = totalCost c .plain o s := by
  have h := evalPlain_emb nm c S hv withSyn
  rw [← h]
  show evalPlain ((embPlain nm c S o withSyn s).input.recolour cl).base _ = _
  rw [AnyInput.recolour_base, evalPlain_recolour]
  rfl

theorem evalSuper_embC (nm : Naming) (cl : Colouring) (hf : ∀ a b, nm.fname a = nm.fname b → a = b)
    (arr : List String → List String) (harr : ∀ l, (arr l).Perm l) (c : Costs) (S : RTree)
    {o : OTree} {s : Sol} (hv : Spec.validRec o s = true) (ordered : Bool) :
    evalSuper (embSuperC nm cl arr c S o ordered s).input.base
        (embSuperC nm cl arr c S o ordered s).objectSpecies
        (embSuperC nm cl arr c S o ordered s).syntenies (embSuperC nm cl arr c S o ordered s).ordered
      = totalCost c (if ordered then .ordered else .unordered) o s := by
  have h := evalSuper_emb nm hf arr harr c S hv ordered
  rw [← h]
  show evalSuper ((embSuper nm arr c S o ordered s).input.recolour cl).base _ _ _ = _
  rw [AnyInput.recolour_base, evalSuper_recolour]
  rfl

mutual
  theorem ntOfC_none : ∀ (nmf : Path → String) (t : RTree), ntOfC nmf (fun _ => none) t = ntOf nmf t
    | nmf, .node cs => by simp only [ntOfC, ntOf, ntOfCL_none nmf cs 0]
  theorem ntOfCL_none : ∀ (nmf : Path → String) (cs : List RTree) (i : Nat),
      ntOfCL nmf (fun _ => none) cs i = ntOfL nmf cs i
    | _, [], _ => by simp only [ntOfCL, ntOfL]
    | nmf, c :: cs, i => by
      simp only [ntOfCL, ntOfL, ntOfC_none _ c, ntOfCL_none nmf cs (i + 1)]
end

/-- The blank colouring gives back the embedding of `Model/SolOutput.lean`: the coloured
    theorems contain the uncoloured ones. -/
theorem embInputC_blank (nm : Naming) (c : Costs) (S : RTree) (o : OTree) :
    embInputC nm Colouring.blank c S o = embInput nm c S o := by
  simp only [embInputC, RecInput.recolour, Colouring.blank, recolNT_ntOf, ntOfC_none, embInput]

end SR.SolOut
