/-
  C12: renaming the nodes of a tree in pre-order (`setNames`) installs exactly
  the given names, so the names of `labelTree pfx t` are `labelNames pfx t.names`.
-/
import SRVerif.Proofs.Cli

namespace SR.Cli

open SR.Ser

mutual
  theorem length_pre : ∀ t : NT, t.pre.length = t.size
    | .node _ _ cs => by simp [NT.pre, NT.size, length_preL cs 0]; omega
  theorem length_preL : ∀ (cs : List NT) (k : Nat), (NT.preL cs k).length = NT.sizeL cs
    | [], _ => by simp [NT.preL, NT.sizeL]
    | c :: cs, k => by simp [NT.preL, NT.sizeL, length_pre c, length_preL cs (k + 1)]
end

theorem length_names (t : NT) : t.names.length = t.size := by
  simp [NT.names, length_pre]

mutual
  theorem setNames_spec : ∀ (t : NT) (l : List String), t.size ≤ l.length →
      (setNames t l).1.names = l.take t.size ∧ (setNames t l).2 = l.drop t.size
    | .node n c cs, [], h => by simp [NT.size] at h
    | .node n c cs, x :: r, h => by
      have hs : NT.sizeL cs ≤ r.length := by simp [NT.size] at h; omega
      have := setNamesL_spec cs r hs 0
      simp only [setNames, NT.names, NT.pre, NT.size, List.map_cons]
      refine ⟨?_, ?_⟩
      · rw [this.1, Nat.add_comm, List.take_succ_cons]
        rfl
      · rw [this.2, Nat.add_comm, List.drop_succ_cons]
  theorem setNamesL_spec : ∀ (cs : List NT) (l : List String), NT.sizeL cs ≤ l.length → ∀ k,
      (NT.preL (setNamesL cs l).1 k).map (·.2.name) = l.take (NT.sizeL cs)
      ∧ (setNamesL cs l).2 = l.drop (NT.sizeL cs)
    | [], l, _, k => by simp [setNamesL, NT.preL, NT.sizeL]
    | c :: cs, l, h, k => by
      have hc : c.size ≤ l.length := by simp [NT.sizeL] at h; omega
      have h1 := setNames_spec c l hc
      have hl : NT.sizeL cs ≤ (setNames c l).2.length := by
        rw [h1.2]; simp only [NT.sizeL] at h; simp; omega
      have h2 := setNamesL_spec cs (setNames c l).2 hl (k + 1)
      simp only [setNamesL, NT.preL, NT.sizeL, List.map_append, List.map_map]
      refine ⟨?_, ?_⟩
      · have : ((fun x : Path × NT => x.2.name) ∘ fun x : Path × NT => (k :: x.1, x.2))
            = fun x : Path × NT => x.2.name := rfl
        rw [this, h2.1, h1.2]
        have h1' : (setNames c l).1.pre.map (fun x => x.2.name) = l.take c.size := h1.1
        rw [h1', List.take_add]
      · rw [h2.2, h1.2, List.drop_drop]
end

/-- The names of the relabelled tree are the relabelled names. -/
theorem names_labelTree (pfx : String) (t : NT) : (labelTree pfx t).names = labelNames pfx t.names := by
  unfold labelTree
  have hlen : t.size ≤ (labelNames pfx t.names).length := by
    rw [labelNames_length, length_names]; exact Nat.le_refl _
  rw [(setNames_spec t _ hlen).1]
  apply List.take_of_length_le
  rw [labelNames_length, length_names]; exact Nat.le_refl _

end SR.Cli
