/-
  Structure of the Euler tour.

  `tourPaths t` is the sequence of node paths visited by `_euler_tour`; the
  modelled tour is that sequence decorated with `level = length of the path`.
  The key fact (`tourPaths_inv`): between any two positions of the tour, the
  longest common prefix of the two visited nodes is itself visited, and every
  node visited in between lies below it.
-/
import SRVerif.Model.Lca

namespace SR

namespace Lca

open Path

/-! ### Path lemmas (kept in `SR.Lca` so that they cannot clash with other proof files) -/

theorem isAnc_iff_prefix : ∀ p q : Path, isAnc p q = true ↔ p <+: q
  | [], q => by simp [isAnc]
  | a :: p, [] => by simp [isAnc]
  | a :: p, b :: q => by simp [isAnc, List.cons_prefix_cons, isAnc_iff_prefix p q]

theorem lcp_cons_same (i : Nat) (u v : Path) : lcp (i :: u) (i :: v) = i :: lcp u v := by
  simp [lcp]

theorem lcp_cons_ne {i j : Nat} (h : i ≠ j) (u v : Path) : lcp (i :: u) (j :: v) = [] := by
  simp [lcp, h]

@[simp] theorem lcp_nil_left (q : Path) : lcp [] q = [] := by simp [lcp]

@[simp] theorem lcp_nil_right (p : Path) : lcp p [] = [] := by cases p <;> simp [lcp]

theorem lcp_prefix_left : ∀ p q : Path, lcp p q <+: p
  | [], q => by simp
  | a :: p, [] => by simp
  | a :: p, b :: q => by
    by_cases h : a = b
    · subst h
      rw [lcp_cons_same]
      exact List.cons_prefix_cons.2 ⟨rfl, lcp_prefix_left p q⟩
    · rw [lcp_cons_ne h]
      exact List.nil_prefix

theorem lcp_comm : ∀ p q : Path, lcp p q = lcp q p
  | [], q => by simp
  | a :: p, [] => by simp
  | a :: p, b :: q => by
    by_cases h : a = b
    · subst h
      rw [lcp_cons_same, lcp_cons_same, lcp_comm p q]
    · rw [lcp_cons_ne h, lcp_cons_ne (Ne.symm h)]

theorem lcp_prefix_right (p q : Path) : lcp p q <+: q := by
  rw [lcp_comm]
  exact lcp_prefix_left q p

/-- The longest common prefix is the greatest common prefix. -/
theorem prefix_lcp : ∀ {r p q : Path}, r <+: p → r <+: q → r <+: lcp p q
  | [], _, _, _, _ => List.nil_prefix
  | c :: r, [], _, h, _ => by simp at h
  | c :: r, _ :: _, [], _, h => by simp at h
  | c :: r, a :: p, b :: q, h1, h2 => by
    obtain ⟨rfl, h1'⟩ := List.cons_prefix_cons.1 h1
    obtain ⟨rfl, h2'⟩ := List.cons_prefix_cons.1 h2
    rw [lcp_cons_same]
    exact List.cons_prefix_cons.2 ⟨rfl, prefix_lcp h1' h2'⟩

theorem prefix_antisymm {p q : Path} (h1 : p <+: q) (h2 : q <+: p) : p = q :=
  h1.eq_of_length_le h2.length_le

theorem lcp_eq_left_iff (p q : Path) : lcp p q = p ↔ p <+: q := by
  constructor
  · intro h
    rw [← h]
    exact lcp_prefix_right p q
  · intro h
    exact prefix_antisymm (lcp_prefix_left p q) (prefix_lcp (List.prefix_refl p) h)

theorem lcp_self (p : Path) : lcp p p = p := (lcp_eq_left_iff p p).2 (List.prefix_refl p)

/-- `foldl lcp` is a common prefix … -/
theorem foldl_lcp_prefix : ∀ (ps : List Path) (p0 : Path), ∀ x ∈ p0 :: ps, ps.foldl lcp p0 <+: x
  | [], p0, x, hx => by
    simp at hx
    subst hx
    exact List.prefix_refl _
  | p :: ps, p0, x, hx => by
    have ih := foldl_lcp_prefix ps (lcp p0 p)
    simp only [List.foldl_cons]
    simp only [List.mem_cons] at hx
    rcases hx with rfl | rfl | hx
    · exact (ih (lcp x p) (by simp)).trans (lcp_prefix_left _ _)
    · exact (ih (lcp p0 x) (by simp)).trans (lcp_prefix_right _ _)
    · exact ih x (by simp [hx])

/-- … and the greatest one. -/
theorem prefix_foldl_lcp : ∀ (ps : List Path) (p0 r : Path), (∀ x ∈ p0 :: ps, r <+: x) →
    r <+: ps.foldl lcp p0
  | [], p0, r, h => h p0 (by simp)
  | p :: ps, p0, r, h => by
    simp only [List.foldl_cons]
    apply prefix_foldl_lcp ps (lcp p0 p) r
    intro x hx
    simp only [List.mem_cons] at hx
    rcases hx with rfl | hx
    · exact prefix_lcp (h p0 (by simp)) (h p (by simp))
    · exact h x (by simp [hx])


/-! ### The tour as a sequence of paths -/

mutual
  def tourPaths : RTree → List Path
    | .node cs => [] :: tourPathsList cs 0
  def tourPathsList : List RTree → Nat → List Path
    | [], _ => []
    | c :: cs, i => (tourPaths c).map (i :: ·) ++ [] :: tourPathsList cs (i + 1)
end

/-- The entry recorded for the node `p` when the tour was started at level
    `lvl` on the node of path `pre`. -/
def lift (lvl : Nat) (pre : Path) (p : Path) : TourEntry := (lvl + p.length, pre ++ p)

theorem lift_cons (lvl : Nat) (pre : Path) (i : Nat) (p : Path) :
    lift lvl pre (i :: p) = lift (lvl + 1) (pre ++ [i]) p := by
  simp [lift]
  omega

mutual
  theorem eulerTourFrom_eq : ∀ (t : RTree) (lvl : Nat) (pre : Path),
      eulerTourFrom t lvl pre = (tourPaths t).map (lift lvl pre)
    | .node [], lvl, pre => by simp [eulerTourFrom, tourPaths, tourPathsList, lift]
    | .node (c :: cs), lvl, pre => by
      rw [eulerTourFrom, eulerTourChildren_eq (c :: cs) lvl pre 0, tourPaths]
      simp [lift]
  theorem eulerTourChildren_eq : ∀ (cs : List RTree) (lvl : Nat) (pre : Path) (i : Nat),
      eulerTourChildren cs lvl pre i = (tourPathsList cs i).map (lift lvl pre)
    | [], lvl, pre, i => by simp [eulerTourChildren, tourPathsList]
    | c :: cs, lvl, pre, i => by
      rw [eulerTourChildren, eulerTourFrom_eq c, eulerTourChildren_eq cs, tourPathsList]
      simp only [List.map_append, List.map_map, List.map_cons]
      congr 1
      · apply List.map_congr_left
        intro p _
        simp [lift_cons]
      · simp [lift]
end

/-- The tour entry of a node: its level is the length of its path. -/
def entry (p : Path) : TourEntry := (p.length, p)

theorem eulerTour_eq (t : RTree) : eulerTour t = (tourPaths t).map entry := by
  rw [eulerTour, eulerTourFrom_eq]
  apply List.map_congr_left
  intro p _
  simp [lift, entry]

/-! ### The interval property -/

/-- Between any two positions `x ≤ y` of `T`, the longest common prefix of
    the two nodes occurs, and it is a prefix of everything in between. -/
def Inv (T : List Path) : Prop :=
  ∀ (x y : Nat) (u v : Path), x ≤ y → T[x]? = some u → T[y]? = some v →
    (∃ z, x ≤ z ∧ z ≤ y ∧ T[z]? = some (lcp u v)) ∧
    (∀ (z : Nat) (e : Path), x ≤ z → z ≤ y → T[z]? = some e → lcp u v <+: e)

theorem inv_map {T : List Path} (h : Inv T) (i : Nat) : Inv (T.map (i :: ·)) := by
  intro x y u v hxy hu hv
  simp only [List.getElem?_map, Option.map_eq_some_iff] at hu hv
  obtain ⟨u', hu', rfl⟩ := hu
  obtain ⟨v', hv', rfl⟩ := hv
  obtain ⟨⟨z, hz1, hz2, hz3⟩, hall⟩ := h x y u' v' hxy hu' hv'
  rw [lcp_cons_same]
  refine ⟨⟨z, hz1, hz2, by simp [hz3]⟩, ?_⟩
  intro z e h1 h2 he
  simp only [List.getElem?_map, Option.map_eq_some_iff] at he
  obtain ⟨e', he', rfl⟩ := he
  exact List.cons_prefix_cons.2 ⟨rfl, hall z e' h1 h2 he'⟩

theorem inv_root_cons {L : List Path} (h : Inv L) : Inv ([] :: L) := by
  intro x y u v hxy hu hv
  cases x with
  | zero =>
    simp at hu
    subst hu
    simp only [lcp_nil_left]
    exact ⟨⟨0, by omega, by omega, by simp⟩, fun _ _ _ _ _ => List.nil_prefix⟩
  | succ x =>
    cases y with
    | zero => omega
    | succ y =>
      simp only [List.getElem?_cons_succ] at hu hv
      obtain ⟨⟨z, hz1, hz2, hz3⟩, hall⟩ := h x y u v (by omega) hu hv
      refine ⟨⟨z + 1, by omega, by omega, by simpa using hz3⟩, ?_⟩
      intro z e h1 h2 he
      cases z with
      | zero => omega
      | succ z =>
        simp only [List.getElem?_cons_succ] at he
        exact hall z e (by omega) (by omega) he

theorem inv_append {A R : List Path} (hA : Inv A) (hR : Inv ([] :: R))
    (hcross : ∀ u ∈ A, ∀ v ∈ R, lcp u v = []) : Inv (A ++ [] :: R) := by
  intro x y u v hxy hu hv
  by_cases hx : x < A.length
  · rw [List.getElem?_append_left hx] at hu
    by_cases hy : y < A.length
    · rw [List.getElem?_append_left hy] at hv
      obtain ⟨⟨z, hz1, hz2, hz3⟩, hall⟩ := hA x y u v hxy hu hv
      refine ⟨⟨z, hz1, hz2, by rw [List.getElem?_append_left (by omega)]; exact hz3⟩, ?_⟩
      intro z e h1 h2 he
      rw [List.getElem?_append_left (by omega)] at he
      exact hall z e h1 h2 he
    · have hnil : lcp u v = [] := by
        rw [List.getElem?_append_right (by omega)] at hv
        cases hk : y - A.length with
        | zero =>
          rw [hk] at hv
          simp at hv
          subst hv
          simp
        | succ k =>
          rw [hk] at hv
          simp only [List.getElem?_cons_succ] at hv
          exact hcross u (List.mem_of_getElem? hu) v (List.mem_of_getElem? hv)
      rw [hnil]
      refine ⟨⟨A.length, by omega, by omega, by simp⟩, fun _ _ _ _ _ => List.nil_prefix⟩
  · have hx' : A.length ≤ x := by omega
    have hy' : A.length ≤ y := by omega
    rw [List.getElem?_append_right hx'] at hu
    rw [List.getElem?_append_right hy'] at hv
    obtain ⟨⟨z, hz1, hz2, hz3⟩, hall⟩ := hR (x - A.length) (y - A.length) u v (by omega) hu hv
    refine ⟨⟨z + A.length, by omega, by omega, ?_⟩, ?_⟩
    · rw [List.getElem?_append_right (by omega)]
      simpa using hz3
    · intro z e h1 h2 he
      rw [List.getElem?_append_right (by omega)] at he
      exact hall (z - A.length) e (by omega) (by omega) he

/-- Nodes visited in the loop over the children from index `i` on are the
    root or start with a child index `≥ i`. -/
theorem tourPathsList_head : ∀ (cs : List RTree) (i : Nat), ∀ e ∈ tourPathsList cs i,
    e = [] ∨ ∃ j e', e = j :: e' ∧ i ≤ j
  | [], i, e, he => by simp [tourPathsList] at he
  | c :: cs, i, e, he => by
    simp only [tourPathsList, List.mem_append, List.mem_map, List.mem_cons] at he
    rcases he with ⟨e', _, rfl⟩ | rfl | he
    · exact Or.inr ⟨i, e', rfl, Nat.le_refl _⟩
    · exact Or.inl rfl
    · rcases tourPathsList_head cs (i + 1) e he with h | ⟨j, e', rfl, hj⟩
      · exact Or.inl h
      · exact Or.inr ⟨j, e', rfl, by omega⟩

mutual
  theorem tourPaths_inv : ∀ t : RTree, Inv (tourPaths t)
    | .node cs => by
      rw [tourPaths]
      exact tourPathsList_inv cs 0
  theorem tourPathsList_inv : ∀ (cs : List RTree) (i : Nat), Inv ([] :: tourPathsList cs i)
    | [], i => by
      intro x y u v hxy hu hv
      simp only [tourPathsList] at hu hv ⊢
      have hx : x = 0 := by
        cases x with
        | zero => rfl
        | succ x => simp at hu
      have hy : y = 0 := by
        cases y with
        | zero => rfl
        | succ y => simp at hv
      subst hx hy
      simp at hu hv
      subst hu hv
      refine ⟨⟨0, by omega, by omega, by simp⟩, fun _ _ _ _ _ => by simp⟩
    | c :: cs, i => by
      rw [tourPathsList]
      apply inv_root_cons
      apply inv_append (inv_map (tourPaths_inv c) i) (tourPathsList_inv cs (i + 1))
      intro u hu v hv
      simp only [List.mem_map] at hu
      obtain ⟨u', _, rfl⟩ := hu
      rcases tourPathsList_head cs (i + 1) v hv with rfl | ⟨j, v', rfl, hj⟩
      · simp
      · exact lcp_cons_ne (by omega) _ _
end

/-! ### Every node is visited -/

theorem mem_tourPathsList : ∀ (cs : List RTree) (j k : Nat) (c : RTree) (q : Path),
    cs[k]? = some c → q ∈ tourPaths c → (j + k) :: q ∈ tourPathsList cs j
  | [], j, k, c, q, h, _ => by simp at h
  | c' :: cs, j, 0, c, q, h, hq => by
    simp at h
    subst h
    simp only [tourPathsList, List.mem_append, List.mem_map]
    exact Or.inl ⟨q, hq, by simp⟩
  | c' :: cs, j, k + 1, c, q, h, hq => by
    simp only [List.getElem?_cons_succ] at h
    have := mem_tourPathsList cs (j + 1) k c q h hq
    simp only [tourPathsList, List.mem_append, List.mem_cons]
    refine Or.inr (Or.inr ?_)
    have e : j + (k + 1) = j + 1 + k := by omega
    rw [e]
    exact this

theorem mem_tourPaths_of_isNode : ∀ (p : Path) (t : RTree), t.isNode p = true → p ∈ tourPaths t
  | [], .node cs, _ => by simp [tourPaths]
  | i :: p, .node cs, h => by
    simp only [RTree.isNode, RTree.sub] at h
    cases hc : cs[i]? with
    | none => simp [hc] at h
    | some c =>
      simp only [hc] at h
      have hp := mem_tourPaths_of_isNode p c (by simpa [RTree.isNode] using h)
      have := mem_tourPathsList cs 0 i c p hc hp
      rw [tourPaths]
      simpa using this

end Lca

end SR
