/-
  Invariant of `Entry.update` over the history of offered candidates.
-/
import SRVerif.Model.Entry
import SRVerif.Proofs.ExtInt

namespace SR

namespace Entry

variable {τ : Type} [DecidableEq τ]

/-- The initial sentinel of a default-initialised entry. -/
def sentinel (m : Merge) : ExtInt := if m = .min then .posInf else .negInf

/-- What an entry must satisfy after having been offered exactly the
    candidates `cs` (in any order, in any batching). -/
structure Inv (m : Merge) (r : Retain) (cs : List (Cand τ)) (e : Entry τ) : Prop where
  merge : e.merge = m
  retain : e.retain = r
  attained : e.value = sentinel m ∨ ∃ c ∈ cs, c.value = e.value
  optimal : ∀ c ∈ cs, better m e.value c.value = false
  optimalS : better m e.value (sentinel m) = false
  nodup : e.infos.Nodup
  all : r = .all → ∀ t, t ∈ e.infos ↔ ∃ c ∈ cs, c.info = some t ∧ c.value = e.value
  any1 : r = .any → e.infos.length ≤ 1
  anySound : r = .any → ∀ t ∈ e.infos, ∃ c ∈ cs, c.info = some t ∧ c.value = e.value
  anyComplete : r = .any → (∃ c ∈ cs, c.info.isSome ∧ c.value = e.value) → e.infos ≠ []
  none : r = .none → e.infos = []

theorem better_irrefl (m : Merge) (v : ExtInt) : better m v v = false := by
  cases m <;> simp [better, ExtInt.lt_irrefl]

theorem better_asymm {m : Merge} {a b : ExtInt} (h : better m a b = true) : better m b a = false := by
  cases m <;> simp_all [better] <;> exact ExtInt.lt_asymm h

/-- If `v` improves on `cur` and `w` does not improve on `cur`, `w` does not improve on `v`. -/
theorem better_mono {m : Merge} {cur v w : ExtInt} (h : better m cur v = true)
    (hw : better m cur w = false) : better m v w = false := by
  cases m <;> simp_all [better]
  · -- min: v < cur, ¬ w < cur ⊢ ¬ w < v
    cases hv : ExtInt.lt w v
    · rfl
    · have := ExtInt.lt_trans hv h; simp_all
  · cases hv : ExtInt.lt v w
    · rfl
    · have := ExtInt.lt_trans h hv; simp_all

theorem better_total {m : Merge} {a b : ExtInt} (h1 : a ≠ b) (h2 : better m a b = false) :
    better m b a = true := by
  cases m <;> simp_all [better]
  · rcases ExtInt.trichotomy a b with h | h | h <;> simp_all
  · rcases ExtInt.trichotomy a b with h | h | h <;> simp_all

theorem inv_init (m : Merge) (r : Retain) : Inv m r ([] : List (Cand τ)) (init m r) := by
  refine ⟨rfl, rfl, Or.inl ?_, ?_, ?_, ?_, ?_, ?_, ?_, ?_, ?_⟩
  all_goals simp [init, sentinel, better_irrefl]

theorem mem_insert {t u : τ} {l : List τ} : u ∈ insert t l ↔ u = t ∨ u ∈ l := by
  unfold insert; split <;> simp_all <;> grind

theorem nodup_insert {t : τ} {l : List τ} (h : l.Nodup) : (insert t l).Nodup := by
  unfold insert; split
  · exact h
  · rw [List.nodup_append]; simp_all
    intro a ha hat; subst hat; contradiction

theorem merge_update1 (e : Entry τ) (c : Cand τ) : (update1 e c).merge = e.merge := by
  unfold update1; repeat' split
  all_goals rfl

theorem retain_update1 (e : Entry τ) (c : Cand τ) : (update1 e c).retain = e.retain := by
  unfold update1; repeat' split
  all_goals rfl

theorem value_update1 (e : Entry τ) (c : Cand τ) :
    (update1 e c).value = if better e.merge e.value c.value then c.value else e.value := by
  unfold update1
  by_cases h : e.value = c.value
  · rw [if_pos h]; rw [h, better_irrefl]; simp only [Bool.false_eq_true, if_false]
    repeat' split
    all_goals first | rfl | exact h
  · rw [if_neg h]; repeat' split
    all_goals rfl

theorem infos_update1 (e : Entry τ) (c : Cand τ) :
    (update1 e c).infos =
      if e.value = c.value then
        match c.info with
        | some t => if e.retain = .all ∨ (e.retain = .any ∧ e.infos = []) then insert t e.infos else e.infos
        | none => e.infos
      else if better e.merge e.value c.value then
        match c.info with
        | some t => if e.retain = .none then [] else [t]
        | none => []
      else e.infos := by
  unfold update1
  by_cases h : e.value = c.value
  · rw [if_pos h, if_pos h]
    cases c.info <;> simp
    split <;> simp_all
  · rw [if_neg h, if_neg h]
    cases hr : e.retain <;> cases c.info <;> simp <;> split <;> simp_all

theorem inv_step {m : Merge} {r : Retain} {cs : List (Cand τ)} {e : Entry τ}
    (h : Inv m r cs e) (c : Cand τ) : Inv m r (cs ++ [c]) (update1 e c) := by
  obtain ⟨hm, hr, hatt, hopt, hoptS, hnd, hall, hany1, hanyS, hanyC, hnone⟩ := h
  have hv := value_update1 e c
  have hi := infos_update1 e c
  rw [hm] at hv hi
  rw [hr] at hi
  have hirr := better_irrefl m
  have hmem : ∀ c', c' ∈ cs ++ [c] ↔ c' ∈ cs ∨ c' = c := by intro c'; simp
  by_cases heq : e.value = c.value
  · have hb : better m e.value c.value = false := by rw [heq]; exact hirr _
    rw [hb] at hv; simp only [Bool.false_eq_true, if_false] at hv
    rw [if_pos heq] at hi
    constructor
    · rw [merge_update1]; exact hm
    · rw [retain_update1]; exact hr
    · rw [hv]; right; exact ⟨c, by simp, heq.symm⟩
    · rw [hv]; intro c' hc'
      rcases (hmem c').mp hc' with h' | h'
      · exact hopt c' h'
      · subst h'; exact hb
    · rw [hv]; exact hoptS
    · rw [hi]; cases c.info with
      | none => exact hnd
      | some t => simp only []; split
                  · exact nodup_insert hnd
                  · exact hnd
    · intro hra u; rw [hv, hi]; subst hra
      have := hall rfl u
      cases hci : c.info with
      | none => simp only []; grind
      | some t => simp [mem_insert]; grind
    · intro hra; rw [hi]; subst hra
      have := hany1 rfl
      cases hci : c.info with
      | none => exact this
      | some t =>
        simp only []; split
        · rename_i hh; simp at hh; simp [hh, insert]
        · exact this
    · intro hra u; rw [hv, hi]; subst hra
      have := hanyS rfl
      cases hci : c.info with
      | none => simp only []; grind
      | some t =>
        simp only []; split
        · rename_i hh; simp at hh; simp [hh, insert]; grind
        · grind
    · intro hra; rw [hv, hi]; subst hra
      have := hanyC rfl
      cases hci : c.info with
      | none => simp only []; grind
      | some t =>
        simp only []; split
        · rename_i hh; simp at hh; simp [hh, insert]
        · rename_i hh; simp at hh; intro _; exact hh
    · intro hra; rw [hi]; subst hra
      have := hnone rfl
      cases hci : c.info <;> simp [this]
  · rw [if_neg heq] at hi
    by_cases hb : better m e.value c.value = true
    · -- strict improvement: tags are reset
      rw [hb] at hv hi; simp only [if_true] at hv hi
      have hoptNew : ∀ c' ∈ cs ++ [c], better m c.value c'.value = false := by
        intro c' hc'
        rcases (hmem c').mp hc' with h' | h'
        · exact better_mono hb (hopt c' h')
        · subst h'; exact hirr _
      have hold : ∀ c' ∈ cs, c'.value ≠ c.value := by
        intro c' hc' hv'
        have := hopt c' hc'; rw [hv'] at this; simp [this] at hb
      constructor
      · rw [merge_update1]; exact hm
      · rw [retain_update1]; exact hr
      · rw [hv]; right; exact ⟨c, by simp, rfl⟩
      · rw [hv]; exact hoptNew
      · rw [hv]; exact better_mono hb hoptS
      · rw [hi]; cases c.info with
        | none => simp
        | some t => simp only []; split <;> simp
      · intro hra u; rw [hv, hi]; subst hra
        cases hci : c.info with
        | none => simp only []; grind
        | some t => simp; grind
      · intro hra; rw [hi]; subst hra
        cases hci : c.info with
        | none => simp
        | some t => simp
      · intro hra u; rw [hv, hi]; subst hra
        cases hci : c.info with
        | none => simp
        | some t => simp; grind
      · intro hra; rw [hv, hi]; subst hra
        cases hci : c.info with
        | none => simp only []; grind
        | some t => simp
      · intro hra; rw [hi]; subst hra
        cases hci : c.info <;> simp
    · -- no improvement
      have hb' : better m e.value c.value = false := by simpa using hb
      rw [hb'] at hv hi; simp only [Bool.false_eq_true, if_false] at hv hi
      have hne : c.value ≠ e.value := fun h' => heq h'.symm
      constructor
      · rw [merge_update1]; exact hm
      · rw [retain_update1]; exact hr
      · rw [hv]; rcases hatt with h' | ⟨c', hc', h'⟩
        · exact Or.inl h'
        · exact Or.inr ⟨c', by simp [hc'], h'⟩
      · rw [hv]; intro c' hc'
        rcases (hmem c').mp hc' with h' | h'
        · exact hopt c' h'
        · subst h'; exact hb'
      · rw [hv]; exact hoptS
      · rw [hi]; exact hnd
      · intro hra u; rw [hv, hi]; have := hall hra u; grind
      · intro hra; rw [hi]; exact hany1 hra
      · intro hra u; rw [hv, hi]; have := hanyS hra u; grind
      · intro hra; rw [hv, hi]; have := hanyC hra; grind
      · intro hra; rw [hi]; exact hnone hra


/-- The invariant after a whole batch. -/
theorem inv_update {m : Merge} {r : Retain} {pre : List (Cand τ)} {e : Entry τ}
    (h : Inv m r pre e) (cs : List (Cand τ)) : Inv m r (pre ++ cs) (update e cs) := by
  induction cs generalizing pre e with
  | nil => simpa [update] using h
  | cons c cs ih =>
    have := ih (inv_step h c)
    simpa [update, List.append_assoc] using this

/-- Updating batch after batch is updating with the concatenation. -/
theorem update_append (e : Entry τ) (a b : List (Cand τ)) :
    update (update e a) b = update e (a ++ b) := by
  simp [update, List.foldl_append]

theorem foldl_update (e : Entry τ) (bs : List (List (Cand τ))) :
    bs.foldl update e = update e bs.flatten := by
  induction bs generalizing e with
  | nil => simp [update]
  | cons b bs ih => simp [ih, update_append]

end Entry

end SR
