/-
  The plain-DTL instance of the label DP (`reconcile_thl`): unit labels, zero
  edge costs.  Here the generic evaluator cost `labCost` *is* the cost evaluator
  `recCost` of `Model/Rec.lean`, admissible labelled solutions are exactly the
  mappings of `Spec.allMappings`, and the generic theorems of
  `Proofs/LabelDPMain.lean` become statements about `thlCells` / `thl`.
-/
import SRVerif.Proofs.LabelDPMain
import SRVerif.Proofs.Enum

namespace SR

open Cost Path

/-- Forget the syntenies of a solution. -/
def toLSol : Sol → LSol Unit
  | .leaf s _ => .leaf s ()
  | .node s _ l r => .node s () (toLSol l) (toLSol r)

theorem thl_slack : thlAlg.Slack 0 := by
  intro a lab ca lc; simp [thlAlg]

theorem annPlain_data (S : RTree) (o : OTree) : (annPlain S o).data = allSpecies S := by
  cases o <;> rfl

theorem annPlain_internal_spOk (S : RTree) (o : OTree)
    (hS : ∀ p ∈ leafSpecies o, S.isNode p = true) : SpOk thlAlg S (annPlain S o) := by
  induction o with
  | leaf sp f => exact hS sp (by simp [leafSpecies])
  | node l r ihl ihr =>
    refine ⟨?_, ihl (fun p hp => hS p (by simp [leafSpecies, hp])),
      ihr (fun p hp => hS p (by simp [leafSpecies, hp]))⟩
    intro s hs
    exact (RTree.mem_preorder_iff s S).mp hs

theorem plainSol_sp (o : OTree) (ls : LSol Unit) : (plainSol o ls).sp = ls.sp := by
  cases o <;> cases ls <;> rfl

theorem toLSol_sp (sol : Sol) : (toLSol sol).sp = sol.sp := by
  cases sol <;> rfl

theorem min_self (a : Cost) : Cost.min a a = a := by
  unfold Cost.min; split <;> rfl

/-- With zero edge costs the generic local cost is the evaluator's. -/
theorem gl_zero (c : Costs) (s x y : Path) :
    gl c s x (.fin 0) (.fin 0) y (.fin 0) (.fin 0) = localRecCost c s x y := by
  unfold gl localRecCost
  cases hev : internalEvent s x y with
  | leaf => rfl
  | invalid => rfl
  | dup => simp [min_self, Nat.mul_add, Nat.add_assoc]
  | hgt =>
    by_cases h : isAnc s x = true
    · simp [h]
    · simp [h]
  | spec =>
    have hval : internalEvent s x y ≠ .invalid := by rw [hev]; simp
    rcases placement_of_valid hval with ⟨a, b, rfl, rfl⟩ | ⟨hx, hy, hy'⟩ | ⟨hx, hx', hy⟩
    · rw [internalEvent_below] at hev
      match a, b, hev with
      | i :: a, j :: b, _ =>
        simp only [dist_append, List.length_cons, Nat.add_sub_cancel, add_zero, fin_add_fin_eq]
        congr 1
        rw [Nat.add_assoc, ← Nat.mul_add]
        congr 2
        omega
      | [], _, hev => simp at hev
      | _ :: _, [], hev => simp at hev
    · rw [internalEvent_hgt_left hx hy hy'] at hev; cases hev
    · rw [internalEvent_hgt_right hx hx' hy] at hev; cases hev

theorem recCost_node (c : Costs) (ol or : OTree) (s : Path) (f : List Nat) (l r : Sol) :
    recCost c (.node ol or) (.node s f l r) =
      localRecCost c s l.sp r.sp + (recCost c ol l + recCost c or r) := by
  simp only [recCost]
  cases h : internalEvent s l.sp r.sp <;> simp [localRecCost, h]

/-- The generic cost of an admissible labelled solution is the evaluated cost of
    the reconciliation it denotes. -/
theorem labCost_thl (c : Costs) (S : RTree) (o : OTree) :
    ∀ ls, Adm thlAlg (annPlain S o) ls →
      labCost thlAlg c (annPlain S o) ls = recCost c o (plainSol o ls) := by
  induction o with
  | leaf sp f =>
    intro ls h
    cases ls with
    | node => simp [annPlain, Adm] at h
    | leaf s lab =>
      simp only [annPlain, Adm] at h
      simp [annPlain, labCost, plainSol, recCost, h.1]
  | node l r ihl ihr =>
    intro ls h
    cases ls with
    | leaf => simp [annPlain, Adm] at h
    | node s lab x y =>
      simp only [annPlain, Adm] at h
      simp only [annPlain, labCost, plainSol, recCost_node, ihl x h.2.2.1, ihr y h.2.2.2, plainSol_sp,
        genLocal]
      congr 1
      exact gl_zero c s x.sp y.sp

theorem validRec_plainSol (S : RTree) (o : OTree) :
    ∀ ls, Adm thlAlg (annPlain S o) ls → ls.Valid → Spec.validRec o (plainSol o ls) = true := by
  induction o with
  | leaf sp f =>
    intro ls h _
    cases ls with
    | node => simp [annPlain, Adm] at h
    | leaf s lab =>
      simp only [annPlain, Adm] at h
      simp [plainSol, Spec.validRec, h.1]
  | node l r ihl ihr =>
    intro ls h hv
    cases ls with
    | leaf => simp [annPlain, Adm] at h
    | node s lab x y =>
      simp only [annPlain, Adm] at h
      simp only [LSol.Valid] at hv
      simp only [plainSol, Spec.validRec, plainSol_sp, ihl x h.2.2.1 hv.2.1, ihr y h.2.2.2 hv.2.2,
        Bool.and_true, bne_iff_ne]
      exact hv.1

theorem plainSol_mem_allMappings (S : RTree) (o : OTree) :
    ∀ ls, Adm thlAlg (annPlain S o) ls → plainSol o ls ∈ Spec.allMappings S o := by
  induction o with
  | leaf sp f =>
    intro ls h
    cases ls with
    | node => simp [annPlain, Adm] at h
    | leaf s lab =>
      simp only [annPlain, Adm] at h
      simp [plainSol, Spec.allMappings, h.1]
  | node l r ihl ihr =>
    intro ls h
    cases ls with
    | leaf => simp [annPlain, Adm] at h
    | node s lab x y =>
      simp only [annPlain, Adm] at h
      simp only [plainSol, Spec.allMappings, List.mem_flatMap, List.mem_map]
      exact ⟨_, ihl x h.2.2.1, _, ihr y h.2.2.2, s, h.1, rfl⟩

theorem adm_toLSol (S : RTree) (o : OTree) :
    ∀ sol, sol ∈ Spec.allMappings S o →
      Adm thlAlg (annPlain S o) (toLSol sol) ∧ plainSol o (toLSol sol) = sol := by
  induction o with
  | leaf sp f =>
    intro sol h
    simp only [Spec.allMappings, List.mem_singleton] at h
    subst h
    simp [toLSol, annPlain, Adm, plainSol, thlAlg]
  | node l r ihl ihr =>
    intro sol h
    simp only [Spec.allMappings, List.mem_flatMap, List.mem_map] at h
    obtain ⟨ml, hml, mr, hmr, s, hs, rfl⟩ := h
    obtain ⟨al, el⟩ := ihl ml hml
    obtain ⟨ar, er⟩ := ihr mr hmr
    refine ⟨?_, ?_⟩
    · simp only [toLSol, annPlain, Adm]
      exact ⟨hs, by simp [thlAlg], al, ar⟩
    · simp [toLSol, plainSol, el, er]

theorem recCost_valid (c : Costs) (o : OTree) :
    ∀ sol, recCost c o sol ≠ .inf → Spec.validRec o sol = true := by
  induction o with
  | leaf sp f =>
    intro sol h
    cases sol with
    | node => simp [recCost] at h
    | leaf s g =>
      simp only [recCost] at h
      simp only [Spec.validRec]
      by_cases e : (s == sp) = true
      · exact e
      · simp [e] at h
  | node l r ihl ihr =>
    intro sol h
    cases sol with
    | leaf => simp [recCost] at h
    | node s g x y =>
      rw [recCost_node] at h
      obtain ⟨h1, h2⟩ := add_ne_inf h
      obtain ⟨h3, h4⟩ := add_ne_inf h2
      simp only [Spec.validRec, ihl x h3, ihr y h4, Bool.and_true, bne_iff_ne]
      intro e
      simp [localRecCost, e] at h1

theorem totalCost_plain (c : Costs) (o : OTree) (sol : Sol) :
    totalCost c .plain o sol = recCost c o sol := by
  simp [totalCost, labelingCost]

/-- A non-empty list of candidates has a non-empty result entry. -/
theorem rankByCost_ne_nil (c : Costs) (mode : LabelMode) (o : OTree) {cands : List Sol}
    (h : cands ≠ []) : rankByCost c mode o cands ≠ [] := by
  have key : ∀ (l : List Sol), l ≠ [] → ∃ m ∈ l, ∀ s' ∈ l,
      Cost.le (totalCost c mode o m) (totalCost c mode o s') = true := by
    intro l
    induction l with
    | nil => intro h; exact absurd rfl h
    | cons y ys ih =>
      intro _
      by_cases hys : ys = []
      · subst hys
        exact ⟨y, by simp, by intro s' hs'; simp at hs'; subst hs'; exact Cost.le_refl _⟩
      · obtain ⟨m, hm, hmin⟩ := ih hys
        rcases Cost.le_total (totalCost c mode o y) (totalCost c mode o m) with hle | hle
        · refine ⟨y, by simp, ?_⟩
          intro s' hs'
          rcases List.mem_cons.mp hs' with h1 | h1
          · subst h1; exact Cost.le_refl _
          · exact Cost.le_trans hle (hmin s' h1)
        · refine ⟨m, by simp [hm], ?_⟩
          intro s' hs'
          rcases List.mem_cons.mp hs' with h1 | h1
          · subst h1; exact hle
          · exact hmin s' h1
  obtain ⟨m, hm, hmin⟩ := key cands h
  intro e
  have : m ∈ rankByCost c mode o cands := (mem_rankByCost c mode o cands m).mpr ⟨hm, hmin⟩
  rw [e] at this; cases this

end SR
