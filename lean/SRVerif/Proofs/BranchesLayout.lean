/-
  `layout.compute` succeeds whenever `_compute_branches` does and the species
  tree is binary: `_layout_branches` finds the rect of every key it looks up
  (`BranchesOrder`), `_layout_subtrees` finds a state for every species.  The
  resulting `SubtreeLayout`s carry, species by species, exactly the branches of
  the state (same order, same kind / children) and as anchors exactly the
  branch keys that are still in `anchor_nodes`.  Both orientations (the
  horizontal one through the mirror theorem).
-/
import SRVerif.Proofs.BranchesOrder
import SRVerif.Proofs.LayoutGeom

namespace SR.Layout

open SR

/-! ### `_layout_branches` -/

theorem lookupKey_of_mem {β : Type} {l : List (Key × β)} {k : Key} (h : k ∈ l.map (·.1)) :
    ∃ r, lookupKey l k = some r := by
  induction l with
  | nil => simp at h
  | cons e l ih =>
    obtain ⟨k0, v⟩ := e
    by_cases hk : k0 = k
    · exact ⟨v, by simp [lookupKey, hk]⟩
    · simp only [List.map_cons, List.mem_cons] at h
      rcases h with h | h
      · exact absurd h.symm hk
      · obtain ⟨r, hr⟩ := ih h
        exact ⟨r, by simp [lookupKey, hk, hr]⟩

theorem rectOf_of_mem {l : List (Key × Rect)} {k : Key} (h : k ∈ l.map (·.1)) :
    ∃ r, rectOf l (some k) = .ok r := by
  obtain ⟨r, hr⟩ := lookupKey_of_mem h
  exact ⟨r, by simp [rectOf, hr]⟩

theorem stepV_succeeds {P : Params} {sizes : Key → Size} {an : List Key} {bs : BState} {b : Branch}
    (h : BNeeds b (bs.rects.map (·.1))) :
    ∃ bs', stepV P sizes an bs b = .ok bs' ∧ bs'.rects.map (·.1) = bs.rects.map (·.1) ++ [b.key] ∧
      bs'.anchors.map (·.1) = bs.anchors.map (·.1) ++ (if b.key ∈ an then [b.key] else []) := by
  obtain ⟨key, kind, left, right⟩ := b
  cases kind
  case leaf => refine ⟨_, rfl, by simp, ?_⟩; by_cases hk : key ∈ an <;> simp [hk]
  case spec => refine ⟨_, rfl, by simp, ?_⟩; by_cases hk : key ∈ an <;> simp [hk]
  case loss => refine ⟨_, rfl, by simp, ?_⟩; by_cases hk : key ∈ an <;> simp [hk]
  case dup =>
    obtain ⟨k1, k2, hl, hr, m1, m2⟩ := h
    simp only at hl hr
    subst hl hr
    obtain ⟨r1, e1⟩ := rectOf_of_mem m1
    obtain ⟨r2, e2⟩ := rectOf_of_mem m2
    simp only [stepV, e1, e2]
    refine ⟨_, rfl, by simp, ?_⟩
    by_cases hk : key ∈ an <;> simp [hk]
  case hgt =>
    obtain ⟨k1, hl, m1⟩ := h
    simp only at hl
    subst hl
    obtain ⟨r1, e1⟩ := rectOf_of_mem m1
    simp only [stepV, e1]
    refine ⟨_, rfl, by simp, ?_⟩
    by_cases hk : key ∈ an <;> simp [hk]

theorem foldE_stepV_succeeds (P : Params) (sizes : Key → Size) (an : List Key) :
    ∀ (bl pre : List Branch) (bs : BState), bs.rects.map (·.1) = keysOf pre → Ordered (pre ++ bl) →
      ∃ bs', foldE (stepV P sizes an) bl bs = .ok bs' ∧ bs'.rects.map (·.1) = keysOf (pre ++ bl) ∧
        bs'.anchors.map (·.1) = bs.anchors.map (·.1) ++ (keysOf bl).filter (fun k => k ∈ an) := by
  intro bl
  induction bl with
  | nil => intro pre bs h _; exact ⟨bs, rfl, by simpa using h, by simp [keysOf]⟩
  | cons b bl ih =>
    intro pre bs h hord
    have hn : BNeeds b (bs.rects.map (·.1)) := by rw [h]; exact hord pre b bl rfl
    obtain ⟨bs1, e1, r1, a1⟩ := stepV_succeeds (P := P) (sizes := sizes) (an := an) hn
    obtain ⟨bs', e2, r2, a2⟩ := ih (pre ++ [b]) bs1 (by rw [r1, h]; simp [keysOf])
      (by simpa using hord)
    refine ⟨bs', by simp only [foldE, e1, e2], by simpa using r2, ?_⟩
    rw [a2, a1]
    by_cases hk : b.key ∈ an <;> simp [keysOf, hk]

/-- What `_layout_branches` keeps of a species' state. -/
structure LayOf (x : SpState) (lay : SpLayout) : Prop where
  branches : lay.branches = x.branches
  rects : lay.rects.map (·.1) = keysOf x.branches
  anchors : lay.anchors.map (·.1) = (keysOf x.branches).filter (fun k => k ∈ x.anchors)

theorem layoutBranchesV_succeeds (P : Params) (sizes : Key → Size) (x : SpState) (h : Ordered x.branches) :
    ∃ lay, layoutBranchesV P sizes x = .ok lay ∧ LayOf x lay := by
  obtain ⟨bs, e, r, a⟩ := foldE_stepV_succeeds P sizes x.anchors x.branches [] ⟨0, P.pad, [], []⟩ rfl
    (by simpa using h)
  simp only [List.nil_append, List.map_nil] at r a
  unfold layoutBranchesV
  rw [e]
  simp only
  split
  · exact ⟨_, rfl, rfl, r, a⟩
  · refine ⟨_, rfl, rfl, ?_, ?_⟩
    · simpa [shiftRects, List.map_map, Function.comp_def] using r
    · simpa [shiftAnchors, List.map_map, Function.comp_def] using a

theorem layoutAllV_succeeds (P : Params) (sizes : Key → Size) : ∀ st : LState,
    (∀ e ∈ st, Ordered e.2.branches) →
    ∃ lays, layoutAllV P sizes st = .ok lays ∧
      ∀ s x, getSp st s = some x → ∃ lay, lookupSp lays s = some lay ∧ LayOf x lay := by
  intro st
  induction st with
  | nil => intro _; exact ⟨[], rfl, by intro s x h; simp [getSp] at h⟩
  | cons e st ih =>
    intro h
    obtain ⟨k, v⟩ := e
    obtain ⟨lay, e1, l1⟩ := layoutBranchesV_succeeds P sizes v (h (k, v) (List.mem_cons_self ..))
    obtain ⟨lays, e2, l2⟩ := ih (fun e he => h e (List.mem_cons_of_mem _ he))
    refine ⟨(k, lay) :: lays, by simp only [layoutAllV, e1, e2], ?_⟩
    intro s x hx
    simp only [getSp] at hx
    by_cases hks : k = s
    · simp only [hks, if_true, Option.some.injEq] at hx
      subst hx
      exact ⟨lay, by simp [lookupSp, hks], l1⟩
    · simp only [hks, if_false] at hx
      obtain ⟨lay', hl', l'⟩ := l2 s x hx
      exact ⟨lay', by simp [lookupSp, hks, hl'], l'⟩

/-! ### `_layout_subtrees` -/

theorem toBTree_isSome : ∀ S : RTree, S.isBinary = true → ∃ B, toBTree S = some B
  | .node [], _ => ⟨.leaf, rfl⟩
  | .node [a, b], h => by
    simp only [RTree.isBinary, Bool.and_eq_true] at h
    obtain ⟨x, hx⟩ := toBTree_isSome a h.1
    obtain ⟨y, hy⟩ := toBTree_isSome b h.2
    exact ⟨.node x y, by simp [toBTree, hx, hy]⟩
  | .node [_], h => by simp [RTree.isBinary] at h
  | .node (_ :: _ :: _ :: _), h => by simp [RTree.isBinary] at h

def ITree.infos : ITree → List Info
  | .leaf i => [i]
  | .node i l r => i :: (l.infos ++ r.infos)

theorem sizesV_succeeds (P : Params) (lays : Path → Option SpLayout) : ∀ (B : BTree) (p : Path),
    (∀ q ∈ B.paths p, (lays q).isSome) →
    ∃ t, sizesV P lays B p = .ok t ∧ ∀ i ∈ t.infos, lays i.sp = some i.lay := by
  intro B
  induction B with
  | leaf =>
    intro p h
    have := h p (by simp [BTree.paths])
    cases hl : lays p with
    | none => simp [hl] at this
    | some lay =>
      refine ⟨_, by simp only [sizesV, hl]; rfl, ?_⟩
      intro i hi
      simp only [ITree.infos, List.mem_singleton] at hi
      subst hi
      exact hl
  | node a b iha ihb =>
    intro p h
    obtain ⟨lt, e1, i1⟩ := iha (p ++ [0]) (fun q hq => h q (by simp [BTree.paths, hq]))
    obtain ⟨rt, e2, i2⟩ := ihb (p ++ [1]) (fun q hq => h q (by simp [BTree.paths, hq]))
    have := h p (by simp [BTree.paths])
    cases hl : lays p with
    | none => simp [hl] at this
    | some lay =>
      refine ⟨_, by simp only [sizesV, e1, e2, hl]; rfl, ?_⟩
      intro i hi
      simp only [ITree.infos, List.mem_cons, List.mem_append] at hi
      rcases hi with rfl | hi | hi
      · exact hl
      · exact i1 i hi
      · exact i2 i hi

theorem mem_placeV_infos : ∀ (t : ITree) (r : Rect) (sl : SubLayout), sl ∈ placeV t r →
    ∃ i ∈ t.infos, ∃ r', sl = finishV i r' := by
  intro t
  induction t with
  | leaf i =>
    intro r sl h
    simp only [placeV, List.mem_singleton] at h
    exact ⟨i, by simp [ITree.infos], r, h⟩
  | node i lt rt ihl ihr =>
    intro r sl h
    simp only [placeV, List.mem_cons, List.mem_append] at h
    rcases h with h | h | h
    · exact ⟨i, by simp [ITree.infos], r, h⟩
    · obtain ⟨j, hj, r', e⟩ := ihl _ _ h
      exact ⟨j, by simp [ITree.infos, hj], r', e⟩
    · obtain ⟨j, hj, r', e⟩ := ihr _ _ h
      exact ⟨j, by simp [ITree.infos, hj], r', e⟩

/-! ### The skeleton of a finished layout -/

def FBranch.asBranch (b : FBranch) : Branch := ⟨b.key, b.kind, b.left, b.right⟩

/-- A finished `SubtreeLayout` against the state of its species. -/
structure Skel (st : LState) (sl : SubLayout) : Prop where
  branches : sl.branches.map FBranch.asBranch = brs st sl.sp
  anchors : sl.anchors.map (·.1) = (keysOf (brs st sl.sp)).filter (fun k => k ∈ ancs st sl.sp)

theorem finishBranchV_toBranch (off : Pos) (b : Branch) (r : Rect) :
    (finishBranchV off b r).asBranch = b := by
  obtain ⟨key, kind, left, right⟩ := b
  cases kind <;> rfl

theorem finishV_skel {st : LState} {i : Info} {x : SpState} (r : Rect)
    (hx : getSp st i.sp = some x) (hl : LayOf x i.lay) : Skel st (finishV i r) := by
  have hb : brs st i.sp = x.branches := brs_of_getSp hx
  have ha : ancs st i.sp = x.anchors := ancs_of_getSp hx
  refine ⟨?_, ?_⟩
  · simp only [finishV, List.map_map]
    rw [hb, ← hl.branches]
    have hlen : i.lay.branches.length ≤ i.lay.rects.length := by
      have := congrArg List.length hl.rects
      simp only [List.length_map, keysOf] at this
      rw [hl.branches]; omega
    conv => rhs; rw [← List.map_fst_zip hlen]
    apply List.map_congr_left
    intro e _
    exact finishBranchV_toBranch _ _ _
  · show (finishV i r).anchors.map (·.1) =
      (keysOf (brs st i.sp)).filter (fun k => k ∈ ancs st i.sp)
    simp only [hb, ha, finishV, shiftAnchors, List.map_map, Function.comp_def]
    exact hl.anchors

theorem SubLayout.tr_skel {st : LState} {sl : SubLayout} (h : Skel st sl) : Skel st sl.tr := by
  refine ⟨?_, ?_⟩
  · have : sl.tr.branches.map FBranch.asBranch = sl.branches.map FBranch.asBranch := by
      simp only [SubLayout.tr, List.map_map]
      apply List.map_congr_left
      intro b _; rfl
    rw [this]; exact h.branches
  · have : sl.tr.anchors.map (·.1) = sl.anchors.map (·.1) := by
      simp [SubLayout.tr, trAnchors, List.map_map, Function.comp_def]
    rw [this]; exact h.anchors

theorem getSp_of_mem {st : LState} (hnd : (skeys st).Nodup) {e : Path × SpState} (he : e ∈ st) :
    getSp st e.1 = some e.2 := by
  induction st with
  | nil => cases he
  | cons a st ih =>
    obtain ⟨k, v⟩ := a
    simp only [skeys, List.map_cons, List.nodup_cons] at hnd
    simp only [List.mem_cons] at he
    rcases he with rfl | he
    · simp [getSp]
    · have hne : k ≠ e.1 := by
        intro h
        apply hnd.1
        rw [h]
        exact List.mem_map.2 ⟨e, he, rfl⟩
      simp only [getSp, hne, if_false]
      exact ih hnd.2 he

/-- **`layout.compute` succeeds** (vertical), and its output is the state. -/
theorem computeV_succeeds {S : RTree} {sol : Sol} {st : LState} (P : Params) (sizes : Key → Size)
    (hbin : S.isBinary = true) (h : computeBranches S sol = .ok st) :
    ∃ all, computeV P sizes S sol = .ok all ∧ all.map (·.sp) = S.preorder ∧
      ∀ sl ∈ all, Skel st sl := by
  obtain ⟨hk, _, _⟩ := computeBranches_plan h
  obtain ⟨_, hord⟩ := computeBranches_ord h
  have hnd : (skeys st).Nodup := by rw [hk]; exact postorder_nodup S
  obtain ⟨lays, e2, hl⟩ := layoutAllV_succeeds P sizes st (by
    intro e he
    have := hord e.1
    rwa [brs_of_getSp (getSp_of_mem hnd he)] at this)
  obtain ⟨B, e3⟩ := toBTree_isSome S hbin
  have hpre := toBTree_preorder B S e3
  obtain ⟨t, e4, hi⟩ := sizesV_succeeds P (lookupSp lays) B [] (by
    intro q hq
    rw [← hpre, RTree.mem_preorder_iff] at hq
    have : q ∈ skeys st := by rw [hk]; exact mem_postorder_of_isNode q S hq
    obtain ⟨x, hx⟩ := getSp_some_of_mem this
    obtain ⟨lay, hlay, _⟩ := hl q x hx
    simp [hlay])
  have hc : computeV P sizes S sol = .ok (placeV t (Rect.makeFrom ⟨0, 0⟩ t.info.size)) := by
    simp only [computeV, h, e2, e3, e4]
  refine ⟨_, hc, computeV_species hc, ?_⟩
  intro sl hsl
  obtain ⟨i, hi', r', rfl⟩ := mem_placeV_infos _ _ _ hsl
  have hlay := hi i hi'
  have hsome : (getSp st i.sp).isSome := by
    cases hx : getSp st i.sp with
    | some x => rfl
    | none =>
      exfalso
      have : ∀ (st' : LState) (lays' : List (Path × SpLayout)), layoutAllV P sizes st' = .ok lays' →
          getSp st' i.sp = none → lookupSp lays' i.sp = none := by
        intro st'
        induction st' with
        | nil => intro lays' h1 _; simp only [layoutAllV, Except.ok.injEq] at h1; subst h1; rfl
        | cons a st' ih =>
          intro lays' h1 h2
          obtain ⟨k, v⟩ := a
          simp only [layoutAllV] at h1
          cases hb1 : layoutBranchesV P sizes v with
          | error e => rw [hb1] at h1; cases layoutAllV P sizes st' <;> cases h1
          | ok l =>
            cases hb2 : layoutAllV P sizes st' with
            | error e => rw [hb1, hb2] at h1; cases h1
            | ok ls =>
              rw [hb1, hb2] at h1
              cases h1
              simp only [getSp] at h2
              by_cases hks : k = i.sp
              · simp [hks] at h2
              · simp only [hks, if_false] at h2
                simp [lookupSp, hks, ih ls hb2 h2]
      rw [this st lays e2 hx] at hlay
      cases hlay
  obtain ⟨x, hx⟩ := Option.isSome_iff_exists.1 hsome
  obtain ⟨lay, hlay', lo⟩ := hl _ x hx
  rw [hlay] at hlay'
  cases hlay'
  exact finishV_skel r' hx lo

/-- **`layout.compute` succeeds**, both orientations. -/
theorem compute_succeeds {S : RTree} {sol : Sol} {st : LState} (o : Orientation) (P : Params)
    (sizes : Key → Size) (hbin : S.isBinary = true) (h : computeBranches S sol = .ok st) :
    ∃ all, compute o P sizes S sol = .ok all ∧ all.map (·.sp) = S.preorder ∧
      ∀ sl ∈ all, Skel st sl := by
  cases o with
  | vertical => exact computeV_succeeds P sizes hbin h
  | horizontal =>
    obtain ⟨all, e, hsp, hsk⟩ := computeV_succeeds P (fun k => (sizes k).swap) hbin h
    have hc : computeH P sizes S sol = .ok (all.map SubLayout.tr) := by
      rw [computeH_tr, e]; rfl
    refine ⟨_, hc, computeH_species hc, ?_⟩
    intro sl hsl
    obtain ⟨sl0, h0, rfl⟩ := List.mem_map.1 hsl
    exact SubLayout.tr_skel (hsk sl0 h0)

end SR.Layout
