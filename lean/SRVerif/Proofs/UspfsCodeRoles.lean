/-
  The role entries of `_compute_uspfs_entry` (code model, `stepSpecies` / `childSub`)
  against the role aggregates of the label DP (`roles (unAlg c)`).

  * `stepSpecies_get`  what one iteration of the loop over the species offers to each
      of the ten role entries (two kinds × five roles) of a child: `offered`;
  * `childSub_get`     hence each role entry is a fresh MIN / ALL entry that received
      the concatenation of `offered` over `species_lca.tree.traverse()`;
  * `roles_rel`        if the child's row of the table carries the values of the label
      DP's cells `L` (`RowOk`), each role entry is in relation `Rel` with the
      corresponding aggregate of `roles (unAlg c) … L`: same value, and the same tags
      whenever the value is finite.
-/
import SRVerif.Proofs.UspfsCodeExt
import SRVerif.Proofs.LabelDPRoles
import SRVerif.Proofs.RTree

namespace SR.UspfsCode

open SR Cost Path

def Choices.get (ch : Choices) : RoleId → Entry OAsg
  | .left => ch.left
  | .right => ch.right
  | .cons => ch.conserved
  | .seg => ch.segment
  | .sep => ch.separate

/-- The distance part of the value offered to role `ρ` of species `s` by a child placed
    at `x`, as the code computes it; `none` when nothing is offered to that role. -/
def baseE (c : Costs) (S : RTree) (s : Path) (ρ : RoleId) (x : Path) : Option ExtInt :=
  match ρ with
  | .cons => if isAnc s x then some (.fin ((dist s x : Nat) * (c.floss : Nat))) else none
  | .seg => if isAnc s x then some (.fin ((dist s x : Nat) * (c.floss : Nat))) else none
  | .left =>
    if isAnc s x && !speciesIsLeaf S s && isAnc (s ++ [0]) x then
      some (.fin ((dist s x : Nat) * (c.floss : Nat) - (c.floss : Nat))) else none
  | .right =>
    if isAnc s x && !speciesIsLeaf S s && !isAnc (s ++ [0]) x && isAnc (s ++ [1]) x then
      some (.fin ((dist s x : Nat) * (c.floss : Nat) - (c.floss : Nat))) else none
  | .sep => if !isAnc s x && !isAnc x s then some (.fin 0) else none

/-- Roles charged the "conserved" edge cost (the others get the "segment" one). -/
def isConsRole : RoleId → Bool
  | .cons => true
  | .left => true
  | .right => true
  | _ => false

/-- The per-kind edge cost of the code (`sloss_cost`, `lca_lca_dist`, `lca_inh_dist`, nothing). -/
def edgeE (c : Costs) (ll li : ExtInt) (cons : Bool) (k kc : Kind) : ExtInt :=
  match k, kc with
  | .inh, .lca => if cons then .fin c.sloss else .fin 0
  | .inh, .inh => .fin 0
  | .lca, .lca => if cons then ll else .fin 0
  | .lca, .inh => li

/-- The candidates offered to the role entry `(k, ρ)` at the species `x`. -/
def offered (c : Costs) (S : RTree) (row : Row) (s : Path) (ll li : ExtInt) (k : Kind)
    (ρ : RoleId) (x : Path) : List (Cand OAsg) :=
  match baseE c S s ρ x with
  | none => []
  | some b =>
    [cand (b + Cell.value .min (row x .lca) + edgeE c ll li (isConsRole ρ) k .lca) (x, .lca),
     cand (b + Cell.value .min (row x .inh) + edgeE c ll li (isConsRole ρ) k .inh) (x, .inh)]

theorem update_nil (e : Entry OAsg) : e.update [] = e := rfl

theorem stepSpecies_get (c : Costs) (S : RTree) (row : Row) (s : Path) (ll li : ExtInt) (sub : Sub)
    (x : Path) (k : Kind) (ρ : RoleId) :
    ((stepSpecies c S row s ll li sub x).get k).get ρ =
      ((sub.get k).get ρ).update (offered c S row s ll li k ρ x) := by
  cases h1 : isAnc s x <;> cases h2 : speciesIsLeaf S s <;>
    cases h3 : isAnc (s ++ [0]) x <;> cases h4 : isAnc (s ++ [1]) x <;>
    cases h5 : isAnc x s <;> cases ρ <;> cases k <;>
    simp [stepSpecies, offered, baseE, Sub.get, Choices.get, edgeE, isConsRole, update_nil,
      h1, h2, h3, h4, h5]

theorem foldl_stepSpecies_get (c : Costs) (S : RTree) (row : Row) (s : Path) (ll li : ExtInt)
    (k : Kind) (ρ : RoleId) (xs : List Path) (sub : Sub) :
    ((xs.foldl (stepSpecies c S row s ll li) sub).get k).get ρ =
      ((sub.get k).get ρ).update (xs.flatMap (offered c S row s ll li k ρ)) := by
  induction xs generalizing sub with
  | nil => rfl
  | cons x xs ih =>
    rw [List.foldl_cons, ih, stepSpecies_get, Entry.update_append, List.flatMap_cons]

theorem childSub_get (c : Costs) (S : RTree) (row : Row) (s : Path) (rootSet childSet : List Nat)
    (k : Kind) (ρ : RoleId) :
    ((childSub .all c S row s rootSet childSet).get k).get ρ =
      Entry.update (Entry.init .min .all)
        ((levelOrder S).flatMap (offered c S row s (edgeDists c rootSet childSet).1
          (edgeDists c rootSet childSet).2 k ρ)) := by
  unfold childSub
  rw [foldl_stepSpecies_get]
  cases k <;> cases ρ <;> rfl

/-! ### `traverse()` lists exactly the nodes -/

theorem le_foldl_max (ps : List Path) (m : Nat) :
    m ≤ ps.foldl (fun m p => max m p.length) m ∧
    ∀ p ∈ ps, p.length ≤ ps.foldl (fun m p => max m p.length) m := by
  induction ps generalizing m with
  | nil => simp
  | cons q ps ih =>
    simp only [List.foldl_cons, List.mem_cons]
    have := ih (max m q.length)
    refine ⟨by omega, ?_⟩
    rintro p (rfl | hp)
    · omega
    · exact this.2 p hp

theorem mem_levelOrder (S : RTree) (p : Path) : p ∈ levelOrder S ↔ S.isNode p = true := by
  rw [← RTree.mem_preorder_iff]
  simp only [levelOrder, List.mem_flatMap, List.mem_range, List.mem_filter, beq_iff_eq]
  constructor
  · rintro ⟨_, _, hp, _⟩; exact hp
  · intro hp
    exact ⟨p.length, by have := (le_foldl_max S.preorder 0).2 p hp; omega, hp, rfl⟩

/-! ### The child's row against the cells of the label DP -/

/-- The value of the cell tagged `t` in a list of label-DP cells (`inf` when absent). -/
def cellCost (L : List (DCell Kind)) (t : Path × Kind) : Cost :=
  match findCell L t with
  | some d => d.cost
  | none => .inf

/-- A row of the code's table carries the values of the label DP's cells `L`. -/
structure RowOk (S : RTree) (row : Row) (L : List (DCell Kind)) : Prop where
  value : ∀ x kc, Cell.value .min (row x kc) = Cost.toExt (cellCost L (x, kc))
  node : ∀ d ∈ L, S.isNode d.sp = true
  func : ∀ d1 ∈ L, ∀ d2 ∈ L, cellTag d1 = cellTag d2 → d1 = d2

theorem cellCost_of_mem {S : RTree} {row : Row} {L : List (DCell Kind)} (h : RowOk S row L)
    {d : DCell Kind} (hd : d ∈ L) : cellCost L (cellTag d) = d.cost := by
  obtain ⟨d', hd'⟩ := findCell_of_mem hd
  have := findCell_some hd'
  rw [cellCost, hd', h.func d' this.1 d hd this.2]

/-- The code's edge costs are the label DP's (`unAlg`). -/
theorem edgeE_cons (c : Costs) (a ca : UnAnn) (k kc : Kind) :
    edgeE c (edgeDists c a.lcaSet ca.lcaSet).1 (edgeDists c a.lcaSet ca.lcaSet).2 true k kc =
      Cost.toExt ((unAlg c).conserv a k ca kc) := by
  cases k <;> cases kc <;> cases h : subsetB a.lcaSet ca.lcaSet <;>
    simp [edgeE, edgeDists, unAlg, h]

theorem edgeE_seg (c : Costs) (a ca : UnAnn) (k kc : Kind) :
    edgeE c (edgeDists c a.lcaSet ca.lcaSet).1 (edgeDists c a.lcaSet ca.lcaSet).2 false k kc =
      Cost.toExt ((unAlg c).segment a k ca kc) := by
  cases k <;> cases kc <;> cases h : subsetB a.lcaSet ca.lcaSet <;>
    simp [edgeE, edgeDists, unAlg, h]

theorem int_dist (f d : Nat) (hd : 1 ≤ d) :
    ((f * (d - 1) : Nat) : Int) = (d : Int) * (f : Int) - (f : Int) := by
  cases d with
  | zero => omega
  | succ e =>
    simp only [Nat.add_sub_cancel]
    push_cast
    rw [Int.add_mul, Int.one_mul, Int.mul_comm]
    omega

/-- The distance part, and which edge cost is charged, agree with `rv`. -/
theorem baseE_rv (c : Costs) (S : RTree) (s : Path) (ρ : RoleId) (x : Path) (cost cv sv : Cost) :
    (rv c S s ρ x cost cv sv).map Cost.toExt =
      (baseE c S s ρ x).map (fun b => b + Cost.toExt cost + Cost.toExt (if isConsRole ρ then cv else sv)) := by
  cases ρ <;> simp only [rv, baseE, isConsRole]
  · -- left
    split
    · rename_i h
      simp only [Bool.and_eq_true, Bool.not_eq_eq_eq_not, Bool.not_true] at h
      have hd : 1 ≤ dist s x := by
        have h1 := length_le_of_isAnc h.2
        rw [dist_of_isAnc h.1.1]
        simp at h1; omega
      simp only [Option.map_some, if_true, toExt_add, toExt_fin, int_dist _ _ hd]
    · rfl
  · -- right
    split
    · rename_i h
      simp only [Bool.and_eq_true, Bool.not_eq_eq_eq_not, Bool.not_true] at h
      have hd : 1 ≤ dist s x := by
        have h1 := length_le_of_isAnc h.2
        rw [dist_of_isAnc h.1.1.1]
        simp at h1; omega
      simp only [Option.map_some, if_true, toExt_add, toExt_fin, int_dist _ _ hd]
    · rfl
  · split
    · simp only [Option.map_some, if_true, toExt_add, toExt_fin]
      congr 3
      rw [Nat.mul_comm]; push_cast; rfl
    · rfl
  · split
    · simp only [Option.map_some, toExt_add, toExt_fin]
      congr 3
      rw [Nat.mul_comm]; push_cast; rfl
    · rfl
  · split
    · simp only [Option.map_some, toExt_add, ext_zero_add]; rfl
    · rfl

/-- Membership in the candidates offered to one role entry over all species. -/
theorem mem_offeredAll {c : Costs} {S : RTree} {row : Row} {s : Path} {ll li : ExtInt} {k : Kind}
    {ρ : RoleId} {cd : Cand OAsg} :
    cd ∈ (levelOrder S).flatMap (offered c S row s ll li k ρ) ↔
      ∃ x kc b, S.isNode x = true ∧ baseE c S s ρ x = some b ∧
        cd = cand (b + Cell.value .min (row x kc) + edgeE c ll li (isConsRole ρ) k kc) (x, kc) := by
  simp only [List.mem_flatMap, mem_levelOrder]
  constructor
  · rintro ⟨x, hx, h⟩
    unfold offered at h
    cases hb : baseE c S s ρ x with
    | none => simp [hb] at h
    | some b =>
      simp only [hb, List.mem_cons, List.not_mem_nil, or_false] at h
      rcases h with h | h
      · exact ⟨x, .lca, b, hx, hb, h⟩
      · exact ⟨x, .inh, b, hx, hb, h⟩
  · rintro ⟨x, kc, b, hx, hb, rfl⟩
    refine ⟨x, hx, ?_⟩
    unfold offered
    simp only [hb]
    cases kc <;> simp

/-- **The role entries of the code are the role aggregates of the label DP.** -/
theorem roles_rel (c : Costs) (S : RTree) (row : Row) (L : List (DCell Kind)) (h : RowOk S row L)
    (a ca : UnAnn) (s : Path) (k : Kind) (ρ : RoleId) :
    Rel (((childSub .all c S row s a.lcaSet ca.lcaSet).get k).get ρ)
      ((roles (unAlg c) c S a s k ca L).get ρ) := by
  rw [childSub_get, roles_get]
  apply rel_of_corr
  constructor
  · intro cd hcd
    obtain ⟨x, kc, b, hx, hb, rfl⟩ := mem_offeredAll.mp hcd
    have hrv := baseE_rv c S s ρ x (cellCost L (x, kc)) ((unAlg c).conserv a k ca kc)
      ((unAlg c).segment a k ca kc)
    rw [hb] at hrv
    cases hr : rv c S s ρ x (cellCost L (x, kc)) ((unAlg c).conserv a k ca kc)
      ((unAlg c).segment a k ca kc) with
    | none => rw [hr] at hrv; cases hrv
    | some v =>
      rw [hr] at hrv
      simp only [Option.map_some, Option.some.injEq] at hrv
      refine ⟨v, (x, kc), ?_⟩
      rw [hrv, h.value x kc]
      cases hc : isConsRole ρ
      · simp only [cand, Bool.false_eq_true, if_false, edgeE_seg]
      · simp only [cand, if_true, edgeE_cons]
  · intro n t
    rw [mem_offeredAll, mem_roleCands]
    constructor
    · rintro ⟨x, kc, b, hx, hb, heq⟩
      simp only [cand, Cand.mk.injEq, Option.some.injEq] at heq
      obtain ⟨hval, rfl⟩ := heq
      have hrv := baseE_rv c S s ρ x (cellCost L (x, kc)) ((unAlg c).conserv a k ca kc)
        ((unAlg c).segment a k ca kc)
      rw [hb] at hrv
      have hE : edgeE c (edgeDists c a.lcaSet ca.lcaSet).1 (edgeDists c a.lcaSet ca.lcaSet).2
          (isConsRole ρ) k kc =
          Cost.toExt (if isConsRole ρ then (unAlg c).conserv a k ca kc else (unAlg c).segment a k ca kc) := by
        cases hc : isConsRole ρ
        · simp only [Bool.false_eq_true, if_false, edgeE_seg]
        · simp only [if_true, edgeE_cons]
      rw [h.value x kc, hE] at hval
      cases hr : rv c S s ρ x (cellCost L (x, kc)) ((unAlg c).conserv a k ca kc)
        ((unAlg c).segment a k ca kc) with
      | none => rw [hr] at hrv; cases hrv
      | some v =>
        rw [hr] at hrv
        simp only [Option.map_some, Option.some.injEq] at hrv
        rw [← hrv] at hval
        have hv : v = .fin n := toExt_eq_fin.mp hval.symm
        subst hv
        -- the child cell exists, since its cost is finite
        cases hf : findCell L (x, kc) with
        | none =>
          simp only [cellCost, hf] at hr
          cases ρ <;> simp only [rv] at hr <;> split at hr <;> simp at hr
        | some d =>
          have hd := findCell_some hf
          refine ⟨d, hd.1, ?_, hd.2⟩
          have e1 : d.sp = x := by have := hd.2; simp only [cellTag, Prod.mk.injEq] at this; exact this.1
          have e2 : d.lab = kc := by have := hd.2; simp only [cellTag, Prod.mk.injEq] at this; exact this.2
          simp only [roleVal, e1, e2]
          simp only [cellCost, hf] at hr
          exact hr
    · rintro ⟨d, hd, hrv, ht⟩
      obtain ⟨x, kc⟩ := t
      simp only at hrv ht
      have e1 : d.sp = x := by simp only [cellTag, Prod.mk.injEq] at ht; exact ht.1
      have e2 : d.lab = kc := by simp only [cellTag, Prod.mk.injEq] at ht; exact ht.2
      have hcost : cellCost L (x, kc) = d.cost := by rw [← ht]; exact cellCost_of_mem h hd
      simp only [roleVal, e1, e2] at hrv
      have hbr := baseE_rv c S s ρ x d.cost ((unAlg c).conserv a k ca kc)
        ((unAlg c).segment a k ca kc)
      rw [hrv] at hbr
      cases hb : baseE c S s ρ x with
      | none => rw [hb] at hbr; cases hbr
      | some b =>
        rw [hb] at hbr
        simp only [Option.map_some, Option.some.injEq, toExt_fin] at hbr
        refine ⟨x, kc, b, e1 ▸ h.node d hd, hb, ?_⟩
        simp only [cand, Cand.mk.injEq, and_true]
        rw [hbr, h.value x kc, hcost]
        cases hc : isConsRole ρ
        · simp only [Bool.false_eq_true, if_false, edgeE_seg]
        · simp only [if_true, edgeE_cons]

end SR.UspfsCode
