/-
  The generic oracle adequacy (`Proofs/OptAdequacy.lean`) specialised to the plain mode
  (C01): `Spec.optimum … .plain` is the minimum of the evaluated cost `_cost_rec` over all
  valid reconciliations with species in `S` (the LCA mapping for `base`), and its optimal
  set consists of such reconciliations of minimum cost.  The oracle's plain solutions carry
  the empty synteny at every node (leaves included): `stripFam`.
-/
import SRVerif.Proofs.OptAdequacyOrd

namespace SR.Spec

open SR Cost Path

/-- Forget all syntenies. -/
def stripFam : Sol → Sol
  | .leaf s _ => .leaf s []
  | .node s _ l r => .node s [] (stripFam l) (stripFam r)

theorem stripFam_sp (sol : Sol) : (stripFam sol).sp = sol.sp := by cases sol <;> rfl

theorem recCost_stripFam (c : Costs) : ∀ (t : OTree) (sol : Sol),
    recCost c t (stripFam sol) = recCost c t sol := by
  intro t
  induction t with
  | leaf sp f => intro sol; cases sol <;> simp [stripFam, recCost]
  | node l r ihl ihr =>
    intro sol
    cases sol with
    | leaf s g => simp [stripFam, recCost]
    | node s g sl sr =>
      simp only [stripFam, SR.recCost_node, stripFam_sp, ihl, ihr]

theorem localCost_plain (c : Costs) (whole : OTree) (p s : Path) (f : List Nat) (a : Path)
    (fa : List Nat) (b : Path) (fb : List Nat) :
    localCost c .plain whole p s f a fa b fb = localRecCost c s a b := by
  simp [localCost, edgeOk]

/-- The oracle's plain cost of a feasible solution is `_cost_rec`. -/
theorem specCost_plain (c : Costs) (S : RTree) (base : Bool) (whole : OTree) :
    ∀ (t : OTree) (p : Path) (sol : Sol), Feasible S .plain base whole p t sol →
      specCost c .plain whole p sol = recCost c t sol := by
  intro t
  induction t with
  | leaf sp f =>
    intro p sol hf
    cases sol with
    | node s g sl sr => simp [Feasible] at hf
    | leaf s g =>
      simp only [Feasible] at hf
      simp [specCost, recCost, hf.1]
  | node l r ihl ihr =>
    intro p sol hf
    cases sol with
    | leaf s g => simp [Feasible] at hf
    | node s g sl sr =>
      simp only [Feasible] at hf
      simp only [specCost, localCost_plain, SR.recCost_node, ihl _ sl hf.2.2.1, ihr _ sr hf.2.2.2]

theorem feasible_plain_of_valid (S : RTree) (base : Bool) (whole : OTree) :
    ∀ (t : OTree) (p : Path) (sol : Sol), validRec t sol = true → SpeciesOk S base t sol →
      Feasible S .plain base whole p t (stripFam sol) := by
  intro t
  induction t with
  | leaf sp f =>
    intro p sol hv _
    cases sol with
    | node s g sl sr => simp [validRec] at hv
    | leaf s g =>
      simp only [validRec, beq_iff_eq] at hv
      simp [stripFam, Feasible, leafLabel, hv]
  | node l r ihl ihr =>
    intro p sol hv hs
    cases sol with
    | leaf s g => simp [validRec] at hv
    | node s g sl sr =>
      simp only [validRec, Bool.and_eq_true] at hv
      simp only [stripFam, Feasible, labelSpace, List.mem_singleton, true_and]
      exact ⟨hs.1, ihl _ sl hv.1.2 hs.2.1, ihr _ sr hv.2 hs.2.2⟩

theorem valid_of_feasible_plain (c : Costs) (S : RTree) (base : Bool) (whole : OTree) :
    ∀ (t : OTree) (p : Path) (sol : Sol), Feasible S .plain base whole p t sol →
      specCost c .plain whole p sol ≠ .inf →
      validRec t sol = true ∧ SpeciesOk S base t sol ∧ stripFam sol = sol := by
  intro t
  induction t with
  | leaf sp f =>
    intro p sol hf _
    cases sol with
    | node s g sl sr => simp [Feasible] at hf
    | leaf s g =>
      simp only [Feasible, leafLabel] at hf
      simp [validRec, SpeciesOk, stripFam, hf.1, hf.2]
  | node l r ihl ihr =>
    intro p sol hf hfin
    cases sol with
    | leaf s g => simp [Feasible] at hf
    | node s g sl sr =>
      simp only [Feasible, labelSpace, List.mem_singleton] at hf
      obtain ⟨hs, hg, hfl, hfr⟩ := hf
      simp only [specCost, localCost_plain] at hfin
      obtain ⟨hloc, hfin'⟩ := add_ne_inf hfin
      obtain ⟨hfinl, hfinr⟩ := add_ne_inf hfin'
      obtain ⟨vl, sl', el⟩ := ihl _ sl hfl hfinl
      obtain ⟨vr, sr', er⟩ := ihr _ sr hfr hfinr
      have hev : internalEvent s sl.sp sr.sp ≠ .invalid := by
        intro e; apply hloc; simp [localRecCost, e]
      refine ⟨?_, ⟨hs, sl', sr'⟩, by simp [stripFam, el, er, hg]⟩
      simp only [validRec, Bool.and_eq_true, bne_iff_ne, ne_eq]
      exact ⟨⟨hev, vl⟩, vr⟩

theorem totalCost_plain (c : Costs) (o : OTree) (sol : Sol) :
    totalCost c .plain o sol = recCost c o sol := by
  simp [totalCost, labelingCost]

variable (c : Costs) (S : RTree) (o : OTree)

/-- **Plain oracle, lower bound**: the optimum is at most the evaluated cost of every valid
    reconciliation with allowed species. -/
theorem optimum_plain_le_gen (base keep : Bool) (pre : Option (List Nat)) (sol : Sol)
    (hv : validRec o sol = true) (hs : SpeciesOk S base o sol) :
    (optimum c S .plain base keep o pre).1 ≼ totalCost c .plain o sol := by
  rw [totalCost_plain, ← recCost_stripFam c o sol,
    ← specCost_plain c S base o o [] _ (feasible_plain_of_valid S base o o [] sol hv hs)]
  exact optimum_le c S base .plain keep o pre .plain (by simp [modeDatas]) _
    (feasible_plain_of_valid S base o o [] sol hv hs)

theorem optimum_plain_le (keep : Bool) (pre : Option (List Nat))
    (hS : ∀ p ∈ leafSpecies o, S.isNode p = true) (sol : Sol) (hv : validRec o sol = true) :
    (optimum c S .plain false keep o pre).1 ≼ totalCost c .plain o sol :=
  optimum_plain_le_gen c S o false keep pre sol hv (speciesOk_of_valid S o sol hS hv)

/-- **Plain oracle, attained**: a finite optimum is the cost of a valid reconciliation. -/
theorem optimum_plain_attained (base keep : Bool) (pre : Option (List Nat))
    (h : (optimum c S .plain base keep o pre).1 ≠ .inf) :
    ∃ sol, validRec o sol = true ∧ SpeciesOk S base o sol ∧
      totalCost c .plain o sol = (optimum c S .plain base keep o pre).1 := by
  obtain ⟨md, hmd, sol, hf, hc⟩ := optimum_attained c S base .plain keep o pre h
  simp only [modeDatas, List.mem_singleton] at hmd
  subst hmd
  obtain ⟨hv, hs, _⟩ := valid_of_feasible_plain c S base o o [] sol hf (by rw [hc]; exact h)
  exact ⟨sol, hv, hs, by rw [totalCost_plain, ← specCost_plain c S base o o [] sol hf, hc]⟩

/-- **Plain oracle, optimal set**: exactly the synteny-free valid reconciliations with
    allowed species whose evaluated cost is the finite optimum. -/
theorem mem_optimum_plain_sols (base : Bool) (pre : Option (List Nat)) (sol : Sol) :
    sol ∈ (optimum c S .plain base true o pre).2 ↔
      validRec o sol = true ∧ SpeciesOk S base o sol ∧ stripFam sol = sol ∧
      totalCost c .plain o sol = (optimum c S .plain base true o pre).1 ∧
      (optimum c S .plain base true o pre).1 ≠ .inf := by
  rw [mem_optimum_sols]
  constructor
  · rintro ⟨md, hmd, hf, hc, hfin⟩
    simp only [modeDatas, List.mem_singleton] at hmd
    subst hmd
    obtain ⟨hv, hs, he⟩ := valid_of_feasible_plain c S base o o [] sol hf (by rw [hc]; exact hfin)
    exact ⟨hv, hs, he, by rw [totalCost_plain, ← specCost_plain c S base o o [] sol hf, hc], hfin⟩
  · rintro ⟨hv, hs, he, hc, hfin⟩
    have hf := feasible_plain_of_valid S base o o [] sol hv hs
    rw [he] at hf
    exact ⟨.plain, by simp [modeDatas], hf,
      by rw [specCost_plain c S base o o [] sol hf, ← totalCost_plain, hc], hfin⟩

end SR.Spec
