/-
  `tex.escape`: left inverse, token well-formedness, braces untouched.
-/
import SRVerif.Proofs.TikzBraces

namespace SR.Tikz

/-- What the two sequential replacements do to one character. -/
def escChar (c : Char) : Str :=
  if c = '\\' then ['\\', '\\'] else if c = '_' then ['\\', '_'] else [c]

theorem escape_nil : escape [] = [] := rfl

theorem escape_cons (c : Char) (s : Str) : escape (c :: s) = escChar c ++ escape s := by
  have hne : ('\\' : Char) ≠ '_' := by decide
  simp only [escape, List.flatMap_cons, List.flatMap_append]
  congr 1
  by_cases h1 : c = '\\'
  · subst h1; simp [escBackslash, escUnderscore, escChar, hne]
  · by_cases h2 : c = '_'
    · subst h2; simp [escBackslash, escUnderscore, escChar, h1]
    · simp [escBackslash, escUnderscore, escChar, h1, h2]

theorem escape_eq_flatMap (s : Str) : escape s = s.flatMap escChar := by
  induction s with
  | nil => rfl
  | cons c r ih => rw [escape_cons, ih, List.flatMap_cons]

theorem unescape_cons_plain (c : Char) (r : Str) (h : c ≠ '\\') :
    unescape (c :: r) = c :: unescape r := by
  cases r with
  | nil => simp [unescape]
  | cons d t => simp [unescape, h]

theorem unescape_escape (s : Str) : unescape (escape s) = s := by
  induction s with
  | nil => rfl
  | cons c r ih =>
    rw [escape_cons]
    by_cases h1 : c = '\\'
    · subst h1; simp [escChar, unescape, ih]
    · by_cases h2 : c = '_'
      · subst h2
        have : ('_' : Char) ≠ '\\' := by decide
        simp [escChar, unescape, ih, this]
      · simp only [escChar, h1, h2, if_false, List.singleton_append]
        rw [unescape_cons_plain c _ h1, ih]

theorem wellEscaped_cons_plain (c : Char) (r : Str) (h1 : c ≠ '\\') (h2 : c ≠ '_')
    (h : wellEscaped r = true) : wellEscaped (c :: r) = true := by
  cases r with
  | nil => simp [wellEscaped, h1, h2]
  | cons d t => simp [wellEscaped, h1, h2, h]

theorem wellEscaped_escape (s : Str) : wellEscaped (escape s) = true := by
  induction s with
  | nil => rfl
  | cons c r ih =>
    rw [escape_cons]
    by_cases h1 : c = '\\'
    · subst h1; simp [escChar, wellEscaped, ih]
    · by_cases h2 : c = '_'
      · subst h2
        have : ('_' : Char) ≠ '\\' := by decide
        simp [escChar, wellEscaped, ih, this]
      · simp only [escChar, h1, h2, if_false, List.singleton_append]
        exact wellEscaped_cons_plain c _ h1 h2 ih

/-- In a well-escaped string every `_` is preceded by a backslash that starts its token, and every
    token-initial backslash is followed by `\` or `_`: stated on any split `a ++ '_' :: b`. -/
theorem wellEscaped_underscore (s : Str) (h : wellEscaped s = true) :
    ∀ a b, s = a ++ '_' :: b → ∃ a', a = a' ++ ['\\'] := by
  induction s using wellEscaped.induct with
  | case1 => intro a b e; cases a <;> simp at e
  | case2 c =>
    intro a b e
    simp only [wellEscaped, Bool.and_eq_true, bne_iff_ne, ne_eq] at h
    cases a with
    | nil => simp at e; exact absurd e.1 h.2
    | cons x a => cases a <;> simp at e
  | case3 d r ih =>
    intro a b e
    simp only [wellEscaped, if_true, Bool.and_eq_true, Bool.or_eq_true, beq_iff_eq] at h
    cases a with
    | nil => simp at e
    | cons x a =>
      cases a with
      | nil =>
        simp only [List.cons_append, List.nil_append, List.cons.injEq] at e
        exact ⟨[], by simp [← e.1]⟩
      | cons y a =>
        simp only [List.cons_append, List.cons.injEq] at e
        obtain ⟨a', ha'⟩ := ih h.2 a b e.2.2
        exact ⟨x :: y :: a', by simp [ha']⟩
  | case4 c d r hc ih =>
    intro a b e
    simp only [wellEscaped, hc, if_false, Bool.and_eq_true, bne_iff_ne, ne_eq] at h
    cases a with
    | nil => simp at e; exact absurd e.1 h.1
    | cons x a =>
      simp only [List.cons_append, List.cons.injEq] at e
      obtain ⟨a', ha'⟩ := ih h.2 a b e.2
      exact ⟨x :: a', by simp [ha']⟩

theorem braceFree_append (a b : Str) : braceFree (a ++ b) = (braceFree a && braceFree b) := by
  simp [braceFree]

theorem braceFree_escape (s : Str) (h : braceFree s = true) : braceFree (escape s) = true := by
  induction s with
  | nil => rfl
  | cons c r ih =>
    have hc : isBrace c = false ∧ braceFree r = true := by
      simpa [braceFree] using h
    rw [escape_cons, braceFree_append, ih hc.2, Bool.and_true]
    by_cases h1 : c = '\\'
    · subst h1; decide
    · by_cases h2 : c = '_'
      · subst h2; decide
      · simp [escChar, h1, h2, braceFree, hc.1]

end SR.Tikz
