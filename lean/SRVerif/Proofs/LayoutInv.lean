/-
  Invariants of `_compute_branches` on valid reconciliations: the loops never
  fail (`KeyError` in `anchor_nodes.remove`, missing species in `_add_losses`).
-/
import SRVerif.Proofs.LayoutStep

namespace SR.Layout

open SR

def Key.lin : Key → Path
  | .gene p => p
  | .loss g _ => g

def Key.owner : Key → Path
  | .gene p => p
  | .loss g _ => g.dropLast

/-! ### Path facts given by the events -/

theorem ev_spec {s a b : Path} (h : internalEvent s a b = .spec) :
    Path.isAnc s a = true ∧ s ≠ a ∧ Path.isAnc s b = true ∧ s ≠ b := by
  unfold internalEvent at h
  split at h
  · cases h
  · split at h
    · rename_i h2
      simp only [Bool.and_eq_true] at h2
      split at h
      · rename_i h3
        simp only [Bool.and_eq_true, beq_iff_eq, Bool.not_eq_true', Path.comparable,
          Bool.or_eq_false_iff] at h3
        refine ⟨h2.1, ?_, h2.2, ?_⟩
        · rintro rfl; rw [h2.2] at h3; exact absurd h3.2.1 (by simp)
        · rintro rfl; rw [h2.1] at h3; exact absurd h3.2.2 (by simp)
      · cases h
    · split at h <;> cases h

theorem ev_dup {s a b : Path} (h : internalEvent s a b = .dup) :
    Path.isAnc s a = true ∧ Path.isAnc s b = true := by
  unfold internalEvent at h
  split at h
  · cases h
  · split at h
    · rename_i h2
      simpa using h2
    · split at h <;> cases h

theorem ev_hgt {s a b : Path} (h : internalEvent s a b = .hgt) :
    Path.isAnc s a = true ∨ Path.isAnc s b = true := by
  unfold internalEvent at h
  split at h
  · cases h
  · split at h
    · split at h <;> cases h
    · split at h
      · rename_i h3; simpa using h3
      · cases h

theorem strict_split {e a : Path} (h : Path.isAnc e a = true) (hne : e ≠ a) :
    ∃ m, m ≠ [] ∧ a = e ++ m := by
  rw [Path.isAnc_iff_prefix] at h
  obtain ⟨m, rfl⟩ := h
  refine ⟨m, ?_, rfl⟩
  rintro rfl; simp at hne

theorem up_split {s a : Path} (h : Path.isAnc s a = true) :
    ∀ e, Path.up s = some e → ∃ m, m ≠ [] ∧ a = e ++ m := by
  intro e he
  rw [Path.isAnc_iff_prefix] at h
  obtain ⟨m, rfl⟩ := h
  cases s with
  | nil => simp [Path.up] at he
  | cons x s =>
    simp only [Path.up, Option.some.injEq] at he
    subst he
    refine ⟨[(x :: s).getLast (by simp)] ++ m, by simp, ?_⟩
    rw [← List.append_assoc, List.dropLast_concat_getLast]

theorem endLevel_up (s : Path) : endLevel (Path.up s) = s.length := by
  cases s with
  | nil => rfl
  | cons x s => simp [Path.up, endLevel]

theorem prefix_eq_of_length {t s a : Path} (ht : t <+: a) (hs : s <+: a) (hl : t.length = s.length) :
    t = s := by
  have h1 := List.prefix_of_prefix_length_le ht hs (by omega)
  exact h1.eq_of_length hl

/-! ### One chain on a valid edge -/

theorem chain_valid {S : RTree} {st : LState} {s a g : Path} {end_ : Option Path}
    (hsa : Path.isAnc s a = true) (ha : S.isNode a = true)
    (hend : (end_ = some s ∧ s ≠ a) ∨ end_ = Path.up s)
    (hkeys : ∀ t, S.isNode t = true → Path.isAnc s t = true → t ∈ skeys st) :
    ∃ pl k, chainPlan g end_ a.reverse (.gene g) = some (pl, k) ∧
      (∀ e ∈ pl, e.1 ∈ skeys st) ∧
      (∀ e ∈ pl, e.2.key = .loss g e.1 ∧ e.2.kind = .loss) ∧
      k.lin = g ∧
      (end_ = Path.up s → (k ∈ keysOf (planAt s pl) ∨ (k = .gene g ∧ a = s))) ∧
      (∀ e ∈ pl, e.1 <+: a ∧ e.1 ≠ a ∧ Path.isAnc s e.1 = true ∧ (end_ = some s → e.1 ≠ s)) := by
  have hsplit : ∀ e, end_ = some e → ∃ m, m ≠ [] ∧ a.reverse.reverse = e ++ m := by
    intro e he
    rw [List.reverse_reverse]
    rcases hend with ⟨h, hne⟩ | h
    · rw [h] at he; cases he; exact strict_split hsa hne
    · rw [h] at he; exact up_split hsa e he
  obtain ⟨pl, k, hpl⟩ := chainPlan_isSome g end_ a.reverse (.gene g) hsplit
  obtain ⟨f1, f2, f3, f4⟩ := chainPlan_facts g end_ a.reverse (.gene g) pl k hsplit hpl
  have hlev : s.length ≤ endLevel end_ := by
    rcases hend with ⟨h, _⟩ | h
    · rw [h]; simp [endLevel]
    · rw [h, endLevel_up]; exact Nat.le_refl _
  have hpre : ∀ t b, (t, b) ∈ pl → t <+: a ∧ Path.isAnc s t = true := by
    intro t b hb
    obtain ⟨_, _, ⟨m, _, hm⟩, hl, _⟩ := f1 t b hb
    rw [List.reverse_reverse] at hm
    have ht : t <+: a := ⟨m, hm.symm⟩
    refine ⟨ht, ?_⟩
    rw [Path.isAnc_iff_prefix]
    exact List.prefix_of_prefix_length_le ((Path.isAnc_iff_prefix s a).1 hsa) ht (by omega)
  refine ⟨pl, k, hpl, ?_, ?_, ?_, ?_, ?_⟩
  rotate_right
  · rintro ⟨t, b⟩ hb
    obtain ⟨ht, hst⟩ := hpre t b hb
    obtain ⟨_, _, ⟨m, hm0, hm⟩, hl, _⟩ := f1 t b hb
    rw [List.reverse_reverse] at hm
    refine ⟨ht, ?_, hst, ?_⟩
    · intro h
      have := congrArg List.length hm
      rw [← h] at this
      simp only [List.length_append] at this
      have : 0 < m.length := List.length_pos_iff.2 hm0
      omega
    · intro he h
      simp only at h
      rw [he, h] at hl
      simp only [endLevel] at hl; omega
  · rintro ⟨t, b⟩ hb
    obtain ⟨ht, hst⟩ := hpre t b hb
    exact hkeys t (RTree.isNode_of_prefix t a S ht ha) hst
  · rintro ⟨t, b⟩ hb
    obtain ⟨h1, h2, _⟩ := f1 t b hb
    exact ⟨h1, h2⟩
  · rcases f4 with ⟨_, rfl⟩ | ⟨t, b, hb, hk, _⟩
    · rfl
    · obtain ⟨h1, _⟩ := f1 t b hb
      rw [← hk, h1]; rfl
  · intro hup
    rcases f4 with ⟨rfl, rfl⟩ | ⟨t, b, hb, hk, hl⟩
    · right
      refine ⟨rfl, ?_⟩
      simp only [List.length_nil, Nat.zero_add, List.length_reverse, hup, endLevel_up] at f2
      exact (prefix_eq_of_length ((Path.isAnc_iff_prefix s a).1 hsa) (List.prefix_refl a) f2).symm
    · left
      obtain ⟨ht, _⟩ := hpre t b hb
      rw [hup, endLevel_up] at hl
      have : t = s := prefix_eq_of_length ht ((Path.isAnc_iff_prefix s a).1 hsa) hl
      subst this
      simp only [keysOf, List.mem_map]
      exact ⟨b, mem_planAt.2 hb, hk⟩

/-! ### The invariant -/

structure PInv (st : LState) : Prop where
  /-- unconsumed keys are anchors -/
  anch : ∀ t k, k ∈ keysOf (brs st t) → (∀ b ∈ brs st t, k ∉ consumes b) → k ∈ ancs st t
  /-- a branch only consumes keys of the children lineages of its owner -/
  cons : ∀ t b, b ∈ brs st t → ∀ k ∈ consumes b, ∃ j, k.lin = b.key.owner ++ [j]

theorem PInv.step {st st' : LState} {pl : List (Path × Branch)} {s : Path} {cons : List Key}
    (inv : PInv st) (eff : Effect st st' pl s cons)
    (hcons : ∀ e ∈ pl, ∀ k ∈ consumes e.2, ∃ j, k.lin = e.2.key.owner ++ [j])
    (hnode : ∀ k ∈ cons, ∃ nb, (s, nb) ∈ pl ∧ k ∈ consumes nb) : PInv st' := by
  refine ⟨?_, ?_⟩
  · intro t k hk hun
    rw [eff.brs] at hk hun
    rw [keysOf_append, List.mem_append] at hk
    have hc : t = s → k ∉ cons := by
      rintro rfl hkc
      obtain ⟨nb, hnb, hk'⟩ := hnode k hkc
      exact hun nb (List.mem_append_right _ (mem_planAt.2 hnb)) hk'
    rcases hk with hk | hk
    · refine eff.ancs t k (Or.inl ?_) hc
      exact inv.anch t k hk (fun b hb => hun b (List.mem_append_left _ hb))
    · exact eff.ancs t k (Or.inr hk) hc
  · intro t b hb k hk
    rw [eff.brs, List.mem_append] at hb
    rcases hb with hb | hb
    · exact inv.cons t b hb k hk
    · exact hcons (t, b) (mem_planAt.1 hb) k hk

/-- All the branches of a plan belong to the node `p`. -/
def OwnedBy (p : Path) (pl : List (Path × Branch)) : Prop := ∀ e ∈ pl, e.2.key.owner = p

theorem loss_consumes {b : Branch} (h : b.kind = .loss) : consumes b = [] := by
  simp [consumes, h]

theorem owner_loss_child (p : Path) (i : Nat) (t : Path) : (Key.loss (p ++ [i]) t).owner = p := by
  simp [Key.owner]

def childSp : Sol → Nat → Option Path
  | .node _ _ l _, 0 => some l.sp
  | .node _ _ _ r, 1 => some r.sp
  | _, _ => none

/-- The node's own branch has the evaluator's kind; a transfer points to the
    transferred child and keeps the conserved one on its left. -/
def NodeBranch (s p : Path) (sub : Sol) (b : Branch) : Prop :=
  match sub with
  | .leaf _ _ => b.kind = .leaf
  | .node _ _ l r =>
    match internalEvent s l.sp r.sp with
    | .spec => b.kind = .spec
    | .dup => b.kind = .dup
    | .hgt => b.kind = .hgt ∧ ∃ k1, b.left = some k1 ∧
        ((Path.isAnc s l.sp = true ∧ k1.lin = p ++ [0] ∧ b.right = some (.gene (p ++ [1]))) ∨
         (Path.isAnc s l.sp = false ∧ k1.lin = p ++ [1] ∧ b.right = some (.gene (p ++ [0]))))
    | _ => False

/-- What the branches inserted by the step of node `p` (mapped to `s`) look like. -/
def StepTyped (s p : Path) (sub : Sol) (t : Path) (b : Branch) : Prop :=
  (b.kind = .loss ∧ ∃ i a, childSp sub i = some a ∧ b.key = .loss (p ++ [i]) t ∧
      t <+: a ∧ t ≠ a ∧ Path.isAnc s t = true ∧
      (∀ sp f l r, sub = .node sp f l r → internalEvent s l.sp r.sp = .spec → t ≠ s)) ∨
  (b.kind ≠ .loss ∧ t = s ∧ b.key = .gene p ∧ NodeBranch s p sub b)

/-- What a step needs from the state and what it guarantees. -/
theorem step_valid {S : RTree} {st : LState} {s p : Path} {sub : Sol}
    (hsp : sub.sp = s) (inv : PInv st) (hs : s ∈ skeys st)
    (hkeys : ∀ t, S.isNode t = true → Path.isAnc s t = true → t ∈ skeys st)
    (hvalid : ∀ sp f l r, sub = .node sp f l r →
      internalEvent s l.sp r.sp ≠ .invalid ∧ S.isNode l.sp = true ∧ S.isNode r.sp = true)
    (hfresh : ∀ b ∈ brs st s, b.key.owner ≠ p)
    (hdone : ∀ sp f l r, sub = .node sp f l r →
      (l.sp = s → .gene (p ++ [0]) ∈ keysOf (brs st s)) ∧
      (r.sp = s → .gene (p ++ [1]) ∈ keysOf (brs st s))) :
    ∃ st' pl cons, processGene st s p sub = .ok st' ∧ Effect st st' pl s cons ∧ PInv st' ∧
      OwnedBy p pl ∧ (∃ nb, (s, nb) ∈ pl ∧ nb.key = .gene p) ∧
      (∀ e ∈ pl, StepTyped s p sub e.1 e.2) := by
  -- availability of a consumed key that is a child gene sitting in `s`
  have avail_gene : ∀ i, .gene (p ++ [i]) ∈ keysOf (brs st s) → Key.gene (p ++ [i]) ∈ ancs st s := by
    intro i hi
    apply inv.anch s _ hi
    intro b hb hk
    obtain ⟨j, hj⟩ := inv.cons s b hb _ hk
    simp only [Key.lin] at hj
    have := List.append_inj' hj (by simp)
    exact hfresh b hb this.1.symm
  cases sub with
  | leaf sp f =>
    have hplan : nodePlan s p (.leaf sp f) = some ([(s, ⟨.gene p, .leaf, none, none⟩)], []) := rfl
    obtain ⟨st', hok, eff⟩ := processGene_ok hplan hs (by simp [hs]) (by simp) (by simp)
    refine ⟨st', _, _, hok, eff, ?_, ?_, ⟨_, List.mem_singleton.2 rfl, rfl⟩, ?_⟩
    · exact inv.step eff (by simp [consumes]) (by simp)
    · intro e he; simp only [List.mem_singleton] at he; subst he; rfl
    · intro e he; simp only [List.mem_singleton] at he; subst he
      exact Or.inr ⟨by simp, rfl, rfl, by simp [NodeBranch]⟩
  | node sp f l r =>
    obtain ⟨hev, hl, hr⟩ := hvalid sp f l r rfl
    obtain ⟨hdl, hdr⟩ := hdone sp f l r rfl
    cases hE : internalEvent s l.sp r.sp with
    | leaf => unfold internalEvent at hE; repeat (split at hE <;> try cases hE)
    | invalid => exact absurd hE hev
    | spec =>
      obtain ⟨ha, hna, hb, hnb⟩ := ev_spec hE
      obtain ⟨pl0, k0, c0, x0, t0, _, _, q0⟩ := chain_valid (g := p ++ [0]) (st := st) ha hl
        (Or.inl ⟨rfl, hna⟩) hkeys
      obtain ⟨pl1, k1, c1, x1, t1, _, _, q1⟩ := chain_valid (g := p ++ [1]) (st := st) hb hr
        (Or.inl ⟨rfl, hnb⟩) hkeys
      by_cases hsw : Path.isAnc (s ++ [0]) r.sp = true
      · have hplan : nodePlan s p (.node sp f l r) =
            some (pl1 ++ (pl0 ++ [(s, ⟨.gene p, .spec, some k1, some k0⟩)]), []) := by
          simp [nodePlan, hE, hsw, c0, c1]
        obtain ⟨st', hok, eff⟩ := processGene_ok hplan hs
          (by intro e he
              simp only [List.mem_append, List.mem_singleton] at he
              rcases he with he | he | rfl
              · exact x1 e he
              · exact x0 e he
              · exact hs) (by simp) (by simp)
        refine ⟨st', _, _, hok, eff, ?_, ?_, ⟨_, List.mem_append_right _ (List.mem_append_right _ (List.mem_singleton.2 rfl)), rfl⟩, ?_⟩
        · apply inv.step eff _ (by simp)
          intro e he
          simp only [List.mem_append, List.mem_singleton] at he
          rcases he with he | he | rfl
          · simp [loss_consumes (t1 e he).2]
          · simp [loss_consumes (t0 e he).2]
          · simp [consumes]
        · intro e he
          simp only [List.mem_append, List.mem_singleton] at he
          rcases he with he | he | rfl
          · rw [(t1 e he).1]; exact owner_loss_child p 1 _
          · rw [(t0 e he).1]; exact owner_loss_child p 0 _
          · rfl
        · intro e he
          simp only [List.mem_append, List.mem_singleton] at he
          rcases he with he | he | rfl
          · exact Or.inl ⟨(t1 e he).2, 1, r.sp, rfl, (t1 e he).1, (q1 e he).1, (q1 e he).2.1,
              (q1 e he).2.2.1, fun _ _ _ _ _ _ => (q1 e he).2.2.2 rfl⟩
          · exact Or.inl ⟨(t0 e he).2, 0, l.sp, rfl, (t0 e he).1, (q0 e he).1, (q0 e he).2.1,
              (q0 e he).2.2.1, fun _ _ _ _ _ _ => (q0 e he).2.2.2 rfl⟩
          · exact Or.inr ⟨by simp, rfl, rfl, by simp [NodeBranch, hE]⟩
      · have hsw' : Path.isAnc (s ++ [0]) r.sp = false := by simpa using hsw
        have hplan : nodePlan s p (.node sp f l r) =
            some (pl0 ++ (pl1 ++ [(s, ⟨.gene p, .spec, some k0, some k1⟩)]), []) := by
          simp [nodePlan, hE, hsw', c0, c1]
        obtain ⟨st', hok, eff⟩ := processGene_ok hplan hs
          (by intro e he
              simp only [List.mem_append, List.mem_singleton] at he
              rcases he with he | he | rfl
              · exact x0 e he
              · exact x1 e he
              · exact hs) (by simp) (by simp)
        refine ⟨st', _, _, hok, eff, ?_, ?_, ⟨_, List.mem_append_right _ (List.mem_append_right _ (List.mem_singleton.2 rfl)), rfl⟩, ?_⟩
        · apply inv.step eff _ (by simp)
          intro e he
          simp only [List.mem_append, List.mem_singleton] at he
          rcases he with he | he | rfl
          · simp [loss_consumes (t0 e he).2]
          · simp [loss_consumes (t1 e he).2]
          · simp [consumes]
        · intro e he
          simp only [List.mem_append, List.mem_singleton] at he
          rcases he with he | he | rfl
          · rw [(t0 e he).1]; exact owner_loss_child p 0 _
          · rw [(t1 e he).1]; exact owner_loss_child p 1 _
          · rfl
        · intro e he
          simp only [List.mem_append, List.mem_singleton] at he
          rcases he with he | he | rfl
          · exact Or.inl ⟨(t0 e he).2, 0, l.sp, rfl, (t0 e he).1, (q0 e he).1, (q0 e he).2.1,
              (q0 e he).2.2.1, fun _ _ _ _ _ _ => (q0 e he).2.2.2 rfl⟩
          · exact Or.inl ⟨(t1 e he).2, 1, r.sp, rfl, (t1 e he).1, (q1 e he).1, (q1 e he).2.1,
              (q1 e he).2.2.1, fun _ _ _ _ _ _ => (q1 e he).2.2.2 rfl⟩
          · exact Or.inr ⟨by simp, rfl, rfl, by simp [NodeBranch, hE]⟩
    | dup =>
      obtain ⟨ha, hb⟩ := ev_dup hE
      obtain ⟨pl0, k0, c0, x0, t0, l0, top0, q0⟩ := chain_valid (g := p ++ [0]) (st := st) ha hl
        (Or.inr rfl) hkeys
      obtain ⟨pl1, k1, c1, x1, t1, l1, top1, q1⟩ := chain_valid (g := p ++ [1]) (st := st) hb hr
        (Or.inr rfl) hkeys
      have hplan : nodePlan s p (.node sp f l r) =
          some (pl0 ++ (pl1 ++ [(s, ⟨.gene p, .dup, some k0, some k1⟩)]), [k0, k1]) := by
        simp [nodePlan, hE, c0, c1]
      have hne : k0 ≠ k1 := by
        intro h
        have : k0.lin = k1.lin := by rw [h]
        rw [l0, l1] at this
        have := List.append_inj' this rfl
        simp at this
      obtain ⟨st', hok, eff⟩ := processGene_ok hplan hs
        (by intro e he
            simp only [List.mem_append, List.mem_singleton] at he
            rcases he with he | he | rfl
            · exact x0 e he
            · exact x1 e he
            · exact hs)
        (by intro k hk
            simp only [List.mem_cons, List.not_mem_nil, or_false] at hk
            simp only [planAt_append, keysOf_append, List.mem_append]
            rcases hk with rfl | rfl
            · rcases top0 rfl with h | ⟨rfl, h⟩
              · right; left; exact h
              · left; exact avail_gene 0 (hdl h)
            · rcases top1 rfl with h | ⟨rfl, h⟩
              · right; right; left; exact h
              · left; exact avail_gene 1 (hdr h))
        (by simp [hne])
      refine ⟨st', _, _, hok, eff, ?_, ?_, ⟨_, List.mem_append_right _ (List.mem_append_right _ (List.mem_singleton.2 rfl)), rfl⟩, ?_⟩
      · apply inv.step eff
        · intro e he
          simp only [List.mem_append, List.mem_singleton] at he
          rcases he with he | he | rfl
          · simp [loss_consumes (t0 e he).2]
          · simp [loss_consumes (t1 e he).2]
          · intro k hk
            simp only [consumes, Option.toList, List.cons_append, List.nil_append, List.mem_cons,
              List.not_mem_nil, or_false] at hk
            rcases hk with rfl | rfl
            · exact ⟨0, l0⟩
            · exact ⟨1, l1⟩
        · intro k hk
          refine ⟨⟨.gene p, .dup, some k0, some k1⟩, by simp, ?_⟩
          simpa [consumes] using hk
      · intro e he
        simp only [List.mem_append, List.mem_singleton] at he
        rcases he with he | he | rfl
        · rw [(t0 e he).1]; exact owner_loss_child p 0 _
        · rw [(t1 e he).1]; exact owner_loss_child p 1 _
        · rfl
      · intro e he
        simp only [List.mem_append, List.mem_singleton] at he
        rcases he with he | he | rfl
        · exact Or.inl ⟨(t0 e he).2, 0, l.sp, rfl, (t0 e he).1, (q0 e he).1, (q0 e he).2.1,
            (q0 e he).2.2.1, fun _ _ _ _ he hs => by cases he; rw [hE] at hs; cases hs⟩
        · exact Or.inl ⟨(t1 e he).2, 1, r.sp, rfl, (t1 e he).1, (q1 e he).1, (q1 e he).2.1,
            (q1 e he).2.2.1, fun _ _ _ _ he hs => by cases he; rw [hE] at hs; cases hs⟩
        · exact Or.inr ⟨by simp, rfl, rfl, by simp [NodeBranch, hE]⟩
    | hgt =>
      by_cases hk : Path.isAnc s l.sp = true
      · obtain ⟨pl0, k0, c0, x0, t0, l0, top0, q0⟩ := chain_valid (g := p ++ [0]) (st := st) hk hl
          (Or.inr rfl) hkeys
        have hplan : nodePlan s p (.node sp f l r) =
            some (pl0 ++ [(s, ⟨.gene p, .hgt, some k0, some (.gene (p ++ [1]))⟩)], [k0]) := by
          simp [nodePlan, hE, hk, c0]
        obtain ⟨st', hok, eff⟩ := processGene_ok hplan hs
          (by intro e he
              simp only [List.mem_append, List.mem_singleton] at he
              rcases he with he | rfl
              · exact x0 e he
              · exact hs)
          (by intro k hk'
              simp only [List.mem_singleton] at hk'
              subst hk'
              simp only [planAt_append, keysOf_append, List.mem_append]
              rcases top0 rfl with h | ⟨rfl, h⟩
              · right; left; exact h
              · left; exact avail_gene 0 (hdl h))
          (by simp)
        refine ⟨st', _, _, hok, eff, ?_, ?_, ⟨_, List.mem_append_right _ (List.mem_singleton.2 rfl), rfl⟩, ?_⟩
        · apply inv.step eff
          · intro e he
            simp only [List.mem_append, List.mem_singleton] at he
            rcases he with he | rfl
            · simp [loss_consumes (t0 e he).2]
            · intro k hk'
              simp only [consumes, Option.toList, List.mem_singleton] at hk'
              subst hk'
              exact ⟨0, l0⟩
          · intro k hk'
            refine ⟨⟨.gene p, .hgt, some k0, some (.gene (p ++ [1]))⟩, by simp, ?_⟩
            simpa [consumes] using hk'
        · intro e he
          simp only [List.mem_append, List.mem_singleton] at he
          rcases he with he | rfl
          · rw [(t0 e he).1]; exact owner_loss_child p 0 _
          · rfl
        · intro e he
          simp only [List.mem_append, List.mem_singleton] at he
          rcases he with he | rfl
          · exact Or.inl ⟨(t0 e he).2, 0, l.sp, rfl, (t0 e he).1, (q0 e he).1, (q0 e he).2.1,
              (q0 e he).2.2.1, fun _ _ _ _ he hs => by cases he; rw [hE] at hs; cases hs⟩
          · refine Or.inr ⟨by simp, rfl, rfl, ?_⟩
            simp [NodeBranch, hE, hk, l0]
      · have hk' : Path.isAnc s l.sp = false := by simpa using hk
        have hb : Path.isAnc s r.sp = true := by
          rcases ev_hgt hE with h | h
          · exact absurd h hk
          · exact h
        obtain ⟨pl1, k1, c1, x1, t1, l1, top1, q1⟩ := chain_valid (g := p ++ [1]) (st := st) hb hr
          (Or.inr rfl) hkeys
        have hplan : nodePlan s p (.node sp f l r) =
            some (pl1 ++ [(s, ⟨.gene p, .hgt, some k1, some (.gene (p ++ [0]))⟩)], [k1]) := by
          simp [nodePlan, hE, hk', c1]
        obtain ⟨st', hok, eff⟩ := processGene_ok hplan hs
          (by intro e he
              simp only [List.mem_append, List.mem_singleton] at he
              rcases he with he | rfl
              · exact x1 e he
              · exact hs)
          (by intro k hk''
              simp only [List.mem_singleton] at hk''
              subst hk''
              simp only [planAt_append, keysOf_append, List.mem_append]
              rcases top1 rfl with h | ⟨rfl, h⟩
              · right; left; exact h
              · left; exact avail_gene 1 (hdr h))
          (by simp)
        refine ⟨st', _, _, hok, eff, ?_, ?_, ⟨_, List.mem_append_right _ (List.mem_singleton.2 rfl), rfl⟩, ?_⟩
        · apply inv.step eff
          · intro e he
            simp only [List.mem_append, List.mem_singleton] at he
            rcases he with he | rfl
            · simp [loss_consumes (t1 e he).2]
            · intro k hk''
              simp only [consumes, Option.toList, List.mem_singleton] at hk''
              subst hk''
              exact ⟨1, l1⟩
          · intro k hk''
            refine ⟨⟨.gene p, .hgt, some k1, some (.gene (p ++ [0]))⟩, by simp, ?_⟩
            simpa [consumes] using hk''
        · intro e he
          simp only [List.mem_append, List.mem_singleton] at he
          rcases he with he | rfl
          · rw [(t1 e he).1]; exact owner_loss_child p 1 _
          · rfl
        · intro e he
          simp only [List.mem_append, List.mem_singleton] at he
          rcases he with he | rfl
          · exact Or.inl ⟨(t1 e he).2, 1, r.sp, rfl, (t1 e he).1, (q1 e he).1, (q1 e he).2.1,
              (q1 e he).2.2.1, fun _ _ _ _ he hs => by cases he; rw [hE] at hs; cases hs⟩
          · refine Or.inr ⟨by simp, rfl, rfl, ?_⟩
            simp [NodeBranch, hE, hk', l1]

end SR.Layout
