/-
  The bridge between the per-kind edge charges of the unordered DP
  (`labCost (unAlg c)`) and the cost EVALUATOR on the materialised solution
  (`totalCost … .unordered` of `unSol`), for EVERY admissible kind labelling of finite
  generic cost whose root is LCA (in particular for every decoded solution: this is
  `C03_kinds_faithful_statement`).

  Key invariant (top-down): an INHERIT node always carries a family outside its own
  `lcaSet` — at an LCA parent because the edge LCA→INHERIT is finite only when
  `lcaSet(parent) ⊄ lcaSet(child)`; at an INHERIT parent because the witness family of
  the parent is gained at or above the parent, so it cannot enter the child's `lcaSet`
  (`lcaSet(child) ⊆ lcaSet(parent) ∪ gains of the children`).  Hence on an edge
  INHERIT→LCA the evaluator's subset test fails exactly as the DP assumes, and on the
  other three kinds of edges the two tests coincide literally.
-/
import SRVerif.Proofs.C10SingleUn
import SRVerif.Proofs.LabelDPOrdOpt

namespace SR.C10

open Cost Path

/-! ### Sets as lists -/

theorem mem_sortNat_aux (l : List Nat) : ∀ (acc : List Nat) (y : Nat),
    y ∈ l.foldl (fun acc x => (acc.takeWhile (· < x)) ++ [x] ++ (acc.dropWhile (· < x))) acc ↔
      y ∈ acc ∨ y ∈ l := by
  induction l with
  | nil => intro acc y; simp
  | cons x xs ih =>
    intro acc y
    rw [List.foldl_cons, ih]
    have : y ∈ acc.takeWhile (· < x) ++ [x] ++ acc.dropWhile (· < x) ↔ y ∈ acc ∨ y = x := by
      have h := List.takeWhile_append_dropWhile (p := (· < x)) (l := acc)
      constructor
      · intro hy
        simp only [List.mem_append, List.mem_singleton] at hy
        rcases hy with (hy | hy) | hy
        · exact Or.inl (h ▸ List.mem_append_left _ hy)
        · exact Or.inr hy
        · exact Or.inl (h ▸ List.mem_append_right _ hy)
      · rintro (hy | hy)
        · rw [← h] at hy
          simp only [List.mem_append, List.mem_singleton] at hy ⊢
          rcases hy with hy | hy
          · exact Or.inl (Or.inl hy)
          · exact Or.inr hy
        · simp [hy]
    rw [this]
    simp only [List.mem_cons]
    constructor
    · rintro ((h | h) | h)
      · exact Or.inl h
      · exact Or.inr (Or.inl h)
      · exact Or.inr (Or.inr h)
    · rintro (h | h | h)
      · exact Or.inl (Or.inl h)
      · exact Or.inl (Or.inr h)
      · exact Or.inr h

theorem mem_sortNat {l : List Nat} {y : Nat} : y ∈ sortNat l ↔ y ∈ l := by
  unfold sortNat
  rw [mem_sortNat_aux]; simp

theorem subsetB_iff {a b : List Nat} : subsetB a b = true ↔ ∀ x ∈ a, x ∈ b := by
  simp [subsetB, List.all_eq_true]

theorem subsetB_false_iff {a b : List Nat} : subsetB a b = false ↔ ∃ x ∈ a, x ∉ b := by
  rw [← Bool.not_eq_true, subsetB_iff]; simp

/-! ### Gain nodes -/

/-- The gain node of a family: the LCA of the object leaves carrying it. -/
def gn (whole : OTree) (g : Nat) : Path :=
  lcpAll (((leafPaths whole).filter (fun p => p.2.contains g)).map (·.1))

theorem mem_gainsAt {whole : OTree} {q : Path} {g : Nat} :
    g ∈ gainsAt whole q ↔ g ∈ families whole ∧ gn whole g = q := by
  simp [gainsAt, gn, List.mem_filter]

/-- `o` is the subtree of `whole` at the object path `p`. -/
def Sub (whole : OTree) (p : Path) (o : OTree) : Prop :=
  ∀ q f, (q, f) ∈ leafPaths o → (p ++ q, f) ∈ leafPaths whole

theorem sub_refl (whole : OTree) : Sub whole [] whole := fun _ _ h => by simpa using h

theorem sub_left {whole : OTree} {p : Path} {l r : OTree} (h : Sub whole p (.node l r)) :
    Sub whole (p ++ [0]) l := by
  intro q f hq
  have := h (0 :: q) f (by simp only [leafPaths, List.mem_append, List.mem_map]; exact Or.inl ⟨_, hq, rfl⟩)
  simpa using this

theorem sub_right {whole : OTree} {p : Path} {l r : OTree} (h : Sub whole p (.node l r)) :
    Sub whole (p ++ [1]) r := by
  intro q f hq
  have := h (1 :: q) f (by simp only [leafPaths, List.mem_append, List.mem_map]; exact Or.inr ⟨_, hq, rfl⟩)
  simpa using this

theorem leafSyntenies_eq (o : OTree) : leafSyntenies o = (leafPaths o).map (·.2) := by
  induction o with
  | leaf sp f => rfl
  | node l r ihl ihr => simp [leafSyntenies, leafPaths, ihl, ihr, List.map_map, Function.comp_def]

theorem mem_families_of_leaf {whole : OTree} {q : Path} {f : List Nat} {g : Nat}
    (hq : (q, f) ∈ leafPaths whole) (hg : g ∈ f) : g ∈ families whole := by
  unfold families
  rw [mem_dedup, List.mem_flatten]
  exact ⟨f, by rw [leafSyntenies_eq]; exact List.mem_map.mpr ⟨_, hq, rfl⟩, hg⟩

theorem gn_isAnc_leaf {whole : OTree} {q : Path} {f : List Nat} {g : Nat}
    (hq : (q, f) ∈ leafPaths whole) (hg : g ∈ f) : isAnc (gn whole g) q = true := by
  have hmem : q ∈ ((leafPaths whole).filter (fun p => p.2.contains g)).map (·.1) :=
    List.mem_map.mpr ⟨(q, f), List.mem_filter.mpr ⟨hq, by simpa using hg⟩, rfl⟩
  have hne : ((leafPaths whole).filter (fun p => p.2.contains g)).map (·.1) ≠ [] := by
    intro e; rw [e] at hmem; cases hmem
  exact (isAnc_lcpAll _ hne).mp (isAnc_refl _) q hmem

theorem isAnc_snoc {z p : Path} {i : Nat} (h : isAnc z (p ++ [i]) = true) (hne : z ≠ p ++ [i]) :
    isAnc z p = true := by
  rw [isAnc_iff_prefix] at h ⊢
  rcases List.prefix_concat_iff.mp h with h | h
  · exact absurd h hne
  · exact h

theorem isAnc_snoc_self (p : Path) (i : Nat) : isAnc (p ++ [i]) p = false := by
  rw [Bool.eq_false_iff]
  intro h
  rw [isAnc_iff_prefix] at h
  have := h.length_le
  simp at this
  omega

theorem isAnc_to_child {z p : Path} (i : Nat) (h : isAnc z p = true) : isAnc z (p ++ [i]) = true := by
  rw [isAnc_iff_prefix] at h ⊢
  exact h.trans (List.prefix_append p [i])

/-- Membership in the `lcaSet` of an internal node. -/
theorem mem_unNodeAnn_lcaSet (S : RTree) (base : Bool) (whole : OTree) (p : Path) (l r : OTree)
    (g : Nat) :
    g ∈ (unNodeAnn S base whole p l r).lcaSet ↔
      (g ∈ (annUn S base whole (p ++ [0]) l).data.lcaSet ∨
        g ∈ (annUn S base whole (p ++ [1]) r).data.lcaSet) ∧
      g ∉ gainsAt whole (p ++ [0]) ∧ g ∉ gainsAt whole (p ++ [1]) := by
  show g ∈ sortNat ((dedup ((annUn S base whole (p ++ [0]) l).data.lcaSet ++
        (annUn S base whole (p ++ [1]) r).data.lcaSet)).filter
      (fun g => !((annUn S base whole (p ++ [0]) l).data.gain ++
        (annUn S base whole (p ++ [1]) r).data.gain).contains g)) ↔ _
  rw [mem_sortNat, List.mem_filter, mem_dedup, annUn_gain, annUn_gain]
  simp [List.mem_append]

theorem unNodeAnn_gain (S : RTree) (base : Bool) (whole : OTree) (p : Path) (l r : OTree) :
    (unNodeAnn S base whole p l r).gain = gainsAt whole p := rfl

/-- Every family of an `lcaSet` occurs in the input and is gained at or above the node. -/
theorem lcaSet_gn (S : RTree) (base : Bool) (whole : OTree) (o : OTree) :
    ∀ p, Sub whole p o → ∀ g ∈ (annUn S base whole p o).data.lcaSet,
      g ∈ families whole ∧ isAnc (gn whole g) p = true := by
  induction o with
  | leaf sp f =>
    intro p hsub g hg
    have hg' : g ∈ f := by
      have : g ∈ sortNat (dedup f) := hg
      rwa [mem_sortNat, mem_dedup] at this
    have hq : (p, f) ∈ leafPaths whole := by
      have := hsub [] f (by simp [leafPaths])
      simpa using this
    exact ⟨mem_families_of_leaf hq hg', gn_isAnc_leaf hq hg'⟩
  | node l r ihl ihr =>
    intro p hsub g hg
    have hg' : g ∈ (unNodeAnn S base whole p l r).lcaSet := hg
    rw [mem_unNodeAnn_lcaSet] at hg'
    obtain ⟨hlr, hn0, hn1⟩ := hg'
    rcases hlr with h | h
    · obtain ⟨hf, ha⟩ := ihl _ (sub_left hsub) g h
      refine ⟨hf, isAnc_snoc ha ?_⟩
      intro e; exact hn0 (mem_gainsAt.mpr ⟨hf, e⟩)
    · obtain ⟨hf, ha⟩ := ihr _ (sub_right hsub) g h
      refine ⟨hf, isAnc_snoc ha ?_⟩
      intro e; exact hn1 (mem_gainsAt.mpr ⟨hf, e⟩)


/-! ### Materialised contents -/

/-- The content `_decode_uspfs_table` gives a node of kind `k` whose parent holds `anc`. -/
def cont (a : UnAnn) (anc : List Nat) (k : Kind) : List Nat :=
  match k with
  | .lca => a.lcaSet
  | .inh => sortNat (dedup (anc ++ a.gain))

theorem unSol_fam (c : Costs) (t : ATree UnAnn) (anc : List Nat) (ls : LSol Kind)
    (h : Adm (unAlg c) t ls) : (unSol t anc ls).fam = cont t.data anc ls.lab := by
  cases t <;> cases ls <;> simp only [Adm] at h <;> rfl

theorem mem_cont_inh {a : UnAnn} {anc : List Nat} {g : Nat} :
    g ∈ cont a anc .inh ↔ g ∈ anc ∨ g ∈ a.gain := by
  simp [cont, mem_sortNat, mem_dedup]

theorem subsetB_cont_inh (P : List Nat) (a : UnAnn) : subsetB P (cont a P .inh) = true := by
  rw [subsetB_iff]
  intro x hx
  exact mem_cont_inh.mpr (Or.inl hx)

/-- The evaluator's combination of reconciliation cost and segmental losses. -/
def evalUn (c : Costs) (o : OTree) (sol : Sol) : Cost :=
  match unordLosses sol with
  | some k => recCost c o sol + .fin (k * c.sloss)
  | none => .inf

theorem totalCost_unordered (c : Costs) (o : OTree) (sol : Sol) :
    totalCost c .unordered o sol = evalUn c o sol := by
  simp only [totalCost, labelingCost, evalUn]
  cases unordLosses sol <;> rfl

/-! ### One edge, one node -/

theorem un_conserv_inf_segment (c : Costs) (a ca : UnAnn) (k kc : Kind)
    (h : (unAlg c).conserv a k ca kc = .inf) : (unAlg c).segment a k ca kc = .inf := by
  cases k <;> cases kc <;> simp only [unAlg] at h ⊢ <;> (try split at h) <;> simp_all

/-- On a finite edge the DP's charges are the evaluator's subset test on the
    materialised contents — provided an INHERIT parent is not contained in an LCA child. -/
theorem un_edge (c : Costs) (a ca : UnAnn) (anc : List Nat) (k kc : Kind)
    (hfin : (unAlg c).conserv a k ca kc ≠ .inf)
    (hns : k = .inh → kc = .lca → subsetB (cont a anc k) ca.lcaSet = false) :
    (unAlg c).conserv a k ca kc =
      .fin ((if subsetB (cont a anc k) (cont ca (cont a anc k) kc) then 0 else 1) * c.sloss) ∧
    (unAlg c).segment a k ca kc = .fin 0 := by
  cases k <;> cases kc
  · -- lca, lca
    simp only [unAlg, cont]
    by_cases hs : subsetB a.lcaSet ca.lcaSet = true <;> simp [hs]
  · -- lca, inh
    simp only [unAlg] at hfin
    have hsub : subsetB a.lcaSet ca.lcaSet = false := by
      cases h : subsetB a.lcaSet ca.lcaSet
      · rfl
      · simp [h] at hfin
    have h2 := subsetB_cont_inh (cont a anc .lca) ca
    simp only [unAlg, hsub, h2]
    simp
  · -- inh, lca
    have := hns rfl rfl
    simp only [cont] at this
    simp only [unAlg, cont, this]
    simp
  · -- inh, inh
    have h2 := subsetB_cont_inh (cont a anc .inh) ca
    simp only [unAlg, h2]
    simp

/-- The generic local cost at the evaluator's charges is the evaluator's local cost. -/
theorem gl_un (c : Costs) (s x y : Path) (P fl fr : List Nat) :
    gl c s x (.fin ((if subsetB P fl then 0 else 1) * c.sloss)) (.fin 0) y
        (.fin ((if subsetB P fr then 0 else 1) * c.sloss)) (.fin 0) =
      match localUnordLosses (internalEvent s x y) (comparable s x) P fl fr with
      | some k => localRecCost c s x y + .fin (k * c.sloss)
      | none => .inf := by
  rw [gl_shift]
  cases hev : internalEvent s x y with
  | leaf => simp [localUnordLosses]
  | invalid => simp [localUnordLosses]
  | spec => simp [localUnordLosses, Nat.add_mul]
  | dup =>
    simp only [localUnordLosses, Nat.add_zero, Nat.zero_add]
    rw [nat_min_mul]
  | hgt =>
    rw [comparable_eq_isAnc_of_hgt hev]
    cases hx : isAnc s x <;> simp [localUnordLosses]


/-! ### Whole solutions -/

theorem evalUn_some {c : Costs} {o : OTree} {sol : Sol} (h : evalUn c o sol ≠ .inf) :
    ∃ k, unordLosses sol = some k ∧ evalUn c o sol = recCost c o sol + .fin (k * c.sloss) := by
  unfold evalUn at h ⊢
  cases hk : unordLosses sol with
  | none => simp [hk] at h
  | some k => exact ⟨k, rfl, rfl⟩

/-- A family outside the `lcaSet` of a node and gained at or above it is in neither
    child's `lcaSet`. -/
theorem not_mem_child_lcaSet (S : RTree) (base : Bool) (whole : OTree) (p : Path) (l r : OTree)
    {g : Nat} (hgA : g ∉ (unNodeAnn S base whole p l r).lcaSet)
    (hga : isAnc (gn whole g) p = true) :
    g ∉ (annUn S base whole (p ++ [0]) l).data.lcaSet ∧
      g ∉ (annUn S base whole (p ++ [1]) r).data.lcaSet := by
  rw [mem_unNodeAnn_lcaSet] at hgA
  have h0 : g ∉ gainsAt whole (p ++ [0]) := by
    intro h; rw [mem_gainsAt] at h; rw [h.2, isAnc_snoc_self] at hga; cases hga
  have h1 : g ∉ gainsAt whole (p ++ [1]) := by
    intro h; rw [mem_gainsAt] at h; rw [h.2, isAnc_snoc_self] at hga; cases hga
  constructor
  · intro hl; exact hgA ⟨Or.inl hl, h0, h1⟩
  · intro hr; exact hgA ⟨Or.inr hr, h0, h1⟩

/-- **The bridge**: for an admissible kind labelling of finite generic cost in which
    every INHERIT root carries a family outside its `lcaSet`, the evaluator's cost of the
    materialised solution is the generic cost. -/
theorem un_bridge (c : Costs) (S : RTree) (base : Bool) (whole : OTree) (o : OTree) :
    ∀ (p : Path) (anc : List Nat) (ls : LSol Kind), Sub whole p o →
      Adm (unAlg c) (annUn S base whole p o) ls →
      labCost (unAlg c) c (annUn S base whole p o) ls ≠ .inf →
      (∀ g ∈ anc, isAnc (gn whole g) p = true) →
      (ls.lab = .inh → ∃ g ∈ cont (annUn S base whole p o).data anc .inh,
          g ∉ (annUn S base whole p o).data.lcaSet) →
      evalUn c o (unSol (annUn S base whole p o) anc ls) =
        labCost (unAlg c) c (annUn S base whole p o) ls := by
  induction o with
  | leaf sp f =>
    intro p anc ls _ h _ _ _
    cases ls with
    | node => simp [annUn, Adm] at h
    | leaf s k =>
      simp only [annUn, Adm] at h
      simp [annUn, unSol, evalUn, unordLosses, recCost, labCost, h.1]
  | node l r ihl ihr =>
    intro p anc ls hsub h hfin hanc hroot
    cases ls with
    | leaf => simp [annUn, Adm] at h
    | node s k x y =>
      rw [annUn_node] at h hfin hroot ⊢
      simp only [Adm] at h
      obtain ⟨_, _, ax, ay⟩ := h
      simp only [labCost] at hfin ⊢
      simp only [ATree.data_node, LSol.lab] at hroot
      obtain ⟨hg, hsubfin⟩ := add_ne_inf hfin
      obtain ⟨hxf, hyf⟩ := add_ne_inf hsubfin
      generalize hA : unNodeAnn S base whole p l r = A at *
      generalize htl : annUn S base whole (p ++ [0]) l = tl at *
      generalize htr : annUn S base whole (p ++ [1]) r = tr at *
      -- families of the content are gained at or above this node
      have hP : ∀ g ∈ cont A anc k, isAnc (gn whole g) p = true := by
        intro g hgP
        cases k with
        | lca =>
          have := (lcaSet_gn S base whole (.node l r) p hsub g (by
            show g ∈ (unNodeAnn S base whole p l r).lcaSet
            rw [hA]; exact hgP)).2
          exact this
        | inh =>
          rcases mem_cont_inh.mp hgP with h1 | h1
          · exact hanc g h1
          · rw [← hA, unNodeAnn_gain, mem_gainsAt] at h1
            rw [h1.2]; exact isAnc_refl _
      -- finite edges
      have hcx : (unAlg c).conserv A k tl.data x.lab ≠ .inf := by
        intro e
        unfold genLocal at hg
        rw [e, un_conserv_inf_segment c _ _ _ _ e, gl_inf_left] at hg
        exact hg rfl
      have hcy : (unAlg c).conserv A k tr.data y.lab ≠ .inf := by
        intro e
        unfold genLocal at hg
        rw [e, un_conserv_inf_segment c _ _ _ _ e, gl_inf_right] at hg
        exact hg rfl
      -- an INHERIT node is contained in neither child's `lcaSet`
      have hwit : k = .inh → ∃ g ∈ cont A anc k, g ∉ tl.data.lcaSet ∧ g ∉ tr.data.lcaSet := by
        intro hk
        subst hk
        obtain ⟨g, hgP, hgA⟩ := hroot rfl
        have := not_mem_child_lcaSet S base whole p l r (g := g) (by rw [hA]; exact hgA) (hP g hgP)
        rw [htl, htr] at this
        exact ⟨g, hgP, this⟩
      have hnsx : k = .inh → x.lab = .lca → subsetB (cont A anc k) tl.data.lcaSet = false := by
        intro hk _
        obtain ⟨g, hgP, h1, _⟩ := hwit hk
        exact subsetB_false_iff.mpr ⟨g, hgP, h1⟩
      have hnsy : k = .inh → y.lab = .lca → subsetB (cont A anc k) tr.data.lcaSet = false := by
        intro hk _
        obtain ⟨g, hgP, _, h1⟩ := hwit hk
        exact subsetB_false_iff.mpr ⟨g, hgP, h1⟩
      obtain ⟨ecx, esx⟩ := un_edge c A tl.data anc k x.lab hcx hnsx
      obtain ⟨ecy, esy⟩ := un_edge c A tr.data anc k y.lab hcy hnsy
      -- the children
      have hrootx : x.lab = .inh → ∃ g ∈ cont tl.data (cont A anc k) .inh, g ∉ tl.data.lcaSet := by
        intro hx
        cases k with
        | inh =>
          obtain ⟨g, hgP, h1, _⟩ := hwit rfl
          exact ⟨g, mem_cont_inh.mpr (Or.inl hgP), h1⟩
        | lca =>
          rw [hx] at hcx
          simp only [unAlg] at hcx
          have hsub' : subsetB A.lcaSet tl.data.lcaSet = false := by
            cases h : subsetB A.lcaSet tl.data.lcaSet
            · rfl
            · simp [h] at hcx
          obtain ⟨g, hgA, h1⟩ := subsetB_false_iff.mp hsub'
          exact ⟨g, mem_cont_inh.mpr (Or.inl hgA), h1⟩
      have hrooty : y.lab = .inh → ∃ g ∈ cont tr.data (cont A anc k) .inh, g ∉ tr.data.lcaSet := by
        intro hy
        cases k with
        | inh =>
          obtain ⟨g, hgP, _, h1⟩ := hwit rfl
          exact ⟨g, mem_cont_inh.mpr (Or.inl hgP), h1⟩
        | lca =>
          rw [hy] at hcy
          simp only [unAlg] at hcy
          have hsub' : subsetB A.lcaSet tr.data.lcaSet = false := by
            cases h : subsetB A.lcaSet tr.data.lcaSet
            · rfl
            · simp [h] at hcy
          obtain ⟨g, hgA, h1⟩ := subsetB_false_iff.mp hsub'
          exact ⟨g, mem_cont_inh.mpr (Or.inl hgA), h1⟩
      have ihx := ihl (p ++ [0]) (cont A anc k) x (sub_left hsub) (by rw [htl]; exact ax)
        (by rw [htl]; exact hxf) (fun g hgP => isAnc_to_child 0 (hP g hgP))
        (by rw [htl]; exact hrootx)
      have ihy := ihr (p ++ [1]) (cont A anc k) y (sub_right hsub) (by rw [htr]; exact ay)
        (by rw [htr]; exact hyf) (fun g hgP => isAnc_to_child 1 (hP g hgP))
        (by rw [htr]; exact hrooty)
      rw [htl] at ihx
      rw [htr] at ihy
      obtain ⟨kx, hkx, ex⟩ := evalUn_some (by rw [ihx]; exact hxf)
      obtain ⟨ky, hky, ey⟩ := evalUn_some (by rw [ihy]; exact hyf)
      rw [ihx] at ex
      rw [ihy] at ey
      -- the node itself
      show evalUn c (.node l r) (.node s (cont A anc k) (unSol tl (cont A anc k) x)
        (unSol tr (cont A anc k) y)) = _
      have hloc : genLocal (unAlg c) c A s k tl.data x.sp x.lab tr.data y.sp y.lab =
          match localUnordLosses (internalEvent s x.sp y.sp) (comparable s x.sp) (cont A anc k)
            (cont tl.data (cont A anc k) x.lab) (cont tr.data (cont A anc k) y.lab) with
          | some k0 => localRecCost c s x.sp y.sp + .fin (k0 * c.sloss)
          | none => .inf := by
        unfold genLocal
        rw [ecx, esx, ecy, esy, gl_un]
      rw [hloc, ex, ey]
      simp only [evalUn, unordLosses, recCost_node, unSol_sp, unSol_fam c tl _ x ax,
        unSol_fam c tr _ y ay, hkx, hky]
      cases localUnordLosses (internalEvent s x.sp y.sp) (comparable s x.sp) (cont A anc k)
          (cont tl.data (cont A anc k) x.lab) (cont tr.data (cont A anc k) y.lab) with
      | none => simp
      | some k0 =>
        simp only []
        have : (k0 + kx + ky) * c.sloss = k0 * c.sloss + (kx * c.sloss + ky * c.sloss) := by
          simp only [Nat.add_mul]; omega
        rw [this, ← fin_add_fin_eq, ← fin_add_fin_eq]
        ac_rfl

/-- The bridge at the root: a finite admissible labelling with LCA root. -/
theorem un_bridge_root (c : Costs) (S : RTree) (base : Bool) (o : OTree) (ls : LSol Kind)
    (adm : Adm (unAlg c) (annUn S base o [] o) ls) (hroot : ls.lab = .lca)
    (hfin : labCost (unAlg c) c (annUn S base o [] o) ls ≠ .inf) :
    totalCost c .unordered o (unSol (annUn S base o [] o) (annUn S base o [] o).data.lcaSet ls) =
      labCost (unAlg c) c (annUn S base o [] o) ls := by
  rw [totalCost_unordered]
  refine un_bridge c S base o o [] _ ls (sub_refl o) adm hfin ?_ ?_
  · intro g hg
    exact (lcaSet_gn S base o o [] (sub_refl o) g hg).2
  · intro h; rw [hroot] at h; cases h

end SR.C10
