/-
  `RetentionPolicy.ANY` against `RetentionPolicy.ALL`, at the level of `Entry`
  (`Model/Entry.lean`, C16) — the facts shared by the three code-structured
  solver models (`Model/ThlCode.lean`, `Model/SpfsCode.lean`, `Model/UspfsCode.lean`).

  The two runs of a solver offer DIFFERENT candidate lists to their entries (under
  ANY a `combine` yields at most one candidate, under ALL one per pair of retained
  tags), related by `BRel`: every ANY candidate is an ALL candidate, and every ALL
  candidate has an ANY candidate of the same value (tagged if it is).

  * `Inv.anySub`       two entries with such histories: SAME VALUE (the value of an
                       entry does not depend on the retention policy), the ANY tag is
                       one of the ALL tags, there is one as soon as ALL has one;
  * `combine_anySub`   `Entry.combine` preserves the relation;
  * `cands_bRel`       `Entry.__iter__` turns related entries into related batches;
  * `cellRel_update`   `EntryProxy.update` preserves the relation between cells
                       (instantiated together);
  * `Inv.sound`, `Inv.nonempty_of_tagged`, `combine_sound`   provenance of the tags,
                       for every retention policy;
  * `result_rel`       the result entry of a solver.
-/
import SRVerif.Properties.C16

namespace SR

namespace AnyCode

/-- A sum that is not `+inf` has no `+inf` summand. -/
theorem add_ne_posInf {a b : ExtInt} (h : a + b ≠ .posInf) : a ≠ .posInf ∧ b ≠ .posInf := by
  constructor
  · rintro rfl; exact h rfl
  · rintro rfl; cases a <;> exact h rfl

open Entry

set_option linter.unusedSectionVars false

section

variable {τ : Type} [DecidableEq τ]

/-! ### Related histories -/

/-- The candidates offered under ANY against those offered under ALL. -/
structure BRel (csA csL : List (Cand τ)) : Prop where
  sub : ∀ c ∈ csA, c ∈ csL
  cover : ∀ c ∈ csL, ∃ c' ∈ csA, c'.value = c.value ∧ (c.info.isSome → c'.info.isSome)

theorem BRel.refl (cs : List (Cand τ)) : BRel cs cs :=
  ⟨fun _ h => h, fun c h => ⟨c, h, rfl, id⟩⟩

theorem BRel.nil : BRel ([] : List (Cand τ)) [] := BRel.refl _

theorem BRel.append {a b a' b' : List (Cand τ)} (h : BRel a b) (h' : BRel a' b') :
    BRel (a ++ a') (b ++ b') := by
  constructor
  · intro c hc
    rcases List.mem_append.mp hc with hc | hc
    · exact List.mem_append.mpr (Or.inl (h.sub c hc))
    · exact List.mem_append.mpr (Or.inr (h'.sub c hc))
  · intro c hc
    rcases List.mem_append.mp hc with hc | hc
    · obtain ⟨c', h1, h2⟩ := h.cover c hc
      exact ⟨c', List.mem_append.mpr (Or.inl h1), h2⟩
    · obtain ⟨c', h1, h2⟩ := h'.cover c hc
      exact ⟨c', List.mem_append.mpr (Or.inr h1), h2⟩

/-- Related batches instantiate a cell together. -/
theorem BRel.writes {a b : List (Cand τ)} (h : BRel a b) : C16.writes a = C16.writes b := by
  cases hb : C16.writes b with
  | true =>
    simp only [C16.writes, List.any_eq_true] at hb ⊢
    obtain ⟨c, hc, hf⟩ := hb
    obtain ⟨c', hc', hv, _⟩ := h.cover c hc
    exact ⟨c', hc', by rw [hv]; exact hf⟩
  | false =>
    cases ha : C16.writes a with
    | false => rfl
    | true =>
      simp only [C16.writes, List.any_eq_true] at ha
      obtain ⟨c, hc, hf⟩ := ha
      have : C16.writes b = true := by
        simp only [C16.writes, List.any_eq_true]
        exact ⟨c, h.sub c hc, hf⟩
      rw [this] at hb; cases hb

/-! ### Related entries -/

/-- An entry of the ANY run against the entry of the ALL run. -/
structure AnySub (m : Merge) (eA eL : Entry τ) : Prop where
  value : eA.value = eL.value
  sub : ∀ t ∈ eA.infos, t ∈ eL.infos
  nonempty : eL.infos ≠ [] → eA.infos ≠ []
  le1 : eA.infos.length ≤ 1
  mergeA : eA.merge = m
  mergeL : eL.merge = m
  retainA : eA.retain = .any
  retainL : eL.retain = .all

/-- **The value of an entry does not depend on the retention policy**, and the
    tag kept under ANY is one of those kept under ALL. -/
theorem Inv.anySub {m : Merge} {csA csL : List (Cand τ)} {eA eL : Entry τ}
    (hA : Inv m .any csA eA) (hL : Inv m .all csL eL) (h : BRel csA csL) : AnySub m eA eL := by
  have hAL : better m eL.value eA.value = false := by
    rcases hA.attained with h' | ⟨c, hc, h'⟩
    · rw [h']; exact hL.optimalS
    · rw [← h']; exact hL.optimal c (h.sub c hc)
  have hLA : better m eA.value eL.value = false := by
    rcases hL.attained with h' | ⟨c, hc, h'⟩
    · rw [h']; exact hA.optimalS
    · obtain ⟨c', hc', hv, _⟩ := h.cover c hc
      rw [← h', ← hv]; exact hA.optimal c' hc'
  have hval : eA.value = eL.value := by
    by_cases hne : eA.value = eL.value
    · exact hne
    · have := better_total hne hLA
      rw [this] at hAL; cases hAL
  refine ⟨hval, ?_, ?_, hA.any1 rfl, hA.merge, hL.merge, hA.retain, hL.retain⟩
  · intro t ht
    obtain ⟨c, hc, h1, h2⟩ := hA.anySound rfl t ht
    exact (hL.all rfl t).mpr ⟨c, h.sub c hc, h1, by rw [h2, hval]⟩
  · intro hne
    obtain ⟨t, ht⟩ := List.exists_mem_of_ne_nil _ hne
    obtain ⟨c, hc, h1, h2⟩ := (hL.all rfl t).mp ht
    obtain ⟨c', hc', hv, hs⟩ := h.cover c hc
    exact hA.anyComplete rfl ⟨c', hc', hs (by simp [h1]), by rw [hv, h2, hval]⟩

/-- The tags of an entry are tags of offered candidates attaining its value,
    whatever the retention policy. -/
theorem Inv.sound {m : Merge} {r : Retain} {cs : List (Cand τ)} {e : Entry τ} (h : Inv m r cs e) :
    ∀ t ∈ e.infos, ∃ c ∈ cs, c.info = some t ∧ c.value = e.value := by
  intro t ht
  cases r with
  | none => rw [h.none rfl] at ht; cases ht
  | any => exact h.anySound rfl t ht
  | all => exact (h.all rfl t).mp ht

/-- Under MIN, with only tagged candidates and a tag-retaining policy: the entry
    has a tag as soon as something was offered. -/
theorem Inv.nonempty_of_tagged {r : Retain} {cs : List (Cand τ)} {e : Entry τ}
    (h : Inv .min r cs e) (hr : r ≠ .none) (htag : ∀ c ∈ cs, c.info.isSome) (hne : cs ≠ []) :
    e.infos ≠ [] := by
  -- the value is attained
  have hatt : ∃ c ∈ cs, c.value = e.value := by
    rcases h.attained with h' | h'
    · obtain ⟨c, hc⟩ := List.exists_mem_of_ne_nil _ hne
      have := h.optimal c hc
      rw [h'] at this ⊢
      simp only [better, sentinel, if_true] at this ⊢
      refine ⟨c, hc, ?_⟩
      cases hv : c.value <;> simp [hv, ExtInt.lt] at this ⊢
    · exact h'
  obtain ⟨c, hc, hv⟩ := hatt
  have hs := htag c hc
  cases r with
  | none => exact absurd rfl hr
  | any => exact h.anyComplete rfl ⟨c, hc, hs, hv⟩
  | all =>
    obtain ⟨t, ht⟩ := Option.isSome_iff_exists.mp hs
    intro hnil
    have := (h.all rfl t).mpr ⟨c, hc, ht, hv⟩
    rw [hnil] at this; cases this

/-- Under MIN an entry that was offered a finite value is not `+inf`, and its
    value is the value of an offered candidate. -/
theorem Inv.finite_offered {r : Retain} {cs : List (Cand τ)} {e : Entry τ}
    (h : Inv .min r cs e) {c0 : Cand τ} (hc0 : c0 ∈ cs) (hf : c0.value.isInfinite = false) :
    e.value ≠ .posInf ∧ ∃ c ∈ cs, c.value = e.value := by
  have hne : e.value ≠ .posInf := by
    intro he
    have := h.optimal c0 hc0
    rw [he] at this
    simp only [better] at this
    cases hv : c0.value <;> simp [hv, ExtInt.lt, ExtInt.isInfinite] at this hf
  refine ⟨hne, ?_⟩
  rcases h.attained with h' | h'
  · exact absurd (by simpa [sentinel] using h') hne
  · exact h'

end

/-! ### `Entry.combine` and `Entry.__iter__` -/

section combine

variable {τ σ : Type} [DecidableEq τ] [DecidableEq σ]

theorem combine_inv (A B : Entry τ) (f : ExtInt → τ → ExtInt → τ → Cand σ) :
    Inv A.merge A.retain (C16.pairCands A B f) (A.combine B f) := by
  have := inv_update (inv_init (τ := σ) A.merge A.retain) (C16.pairCands A B f)
  simpa [Entry.combine, C16.pairCands] using this

/-- `combine` with an event combinator `(lv, li, rv, ri) ↦ Candidate(g lv rv, mk li ri)`
    preserves the relation between the two runs. -/
theorem combine_anySub {m : Merge} {A A' B B' : Entry τ} (hA : AnySub m A A') (hB : AnySub m B B')
    (f : ExtInt → τ → ExtInt → τ → Cand σ) (g : ExtInt → ExtInt → ExtInt) (mk : τ → τ → σ)
    (hf : ∀ av x bv y, f av x bv y = ⟨g av bv, some (mk x y)⟩) :
    AnySub m (A.combine B f) (A'.combine B' f) := by
  have iA := combine_inv A B f
  have iL := combine_inv A' B' f
  rw [hA.mergeA, hA.retainA] at iA
  rw [hA.mergeL, hA.retainL] at iL
  apply Inv.anySub iA iL
  constructor
  · intro c hc
    obtain ⟨x, hx, y, hy, rfl⟩ := (C16.mem_pairCands A B f c).mp hc
    rw [hA.value, hB.value]
    exact (C16.mem_pairCands A' B' f _).mpr ⟨x, hA.sub x hx, y, hB.sub y hy, rfl⟩
  · intro c hc
    obtain ⟨x, hx, y, hy, rfl⟩ := (C16.mem_pairCands A' B' f c).mp hc
    obtain ⟨x0, hx0⟩ := List.exists_mem_of_ne_nil _ (hA.nonempty (List.ne_nil_of_mem hx))
    obtain ⟨y0, hy0⟩ := List.exists_mem_of_ne_nil _ (hB.nonempty (List.ne_nil_of_mem hy))
    refine ⟨f A.value x0 B.value y0, (C16.mem_pairCands A B f _).mpr ⟨x0, hx0, y0, hy0, rfl⟩, ?_, ?_⟩
    · rw [hf, hf, hA.value, hB.value]
    · intro _; rw [hf]; rfl

/-- Provenance of the tags of a combination (every retention policy). -/
theorem combine_sound (A B : Entry τ) (f : ExtInt → τ → ExtInt → τ → Cand σ)
    (g : ExtInt → ExtInt → ExtInt) (mk : τ → τ → σ)
    (hf : ∀ av x bv y, f av x bv y = ⟨g av bv, some (mk x y)⟩) :
    ∀ t ∈ (A.combine B f).infos, ∃ x ∈ A.infos, ∃ y ∈ B.infos,
      t = mk x y ∧ (A.combine B f).value = g A.value B.value := by
  intro t ht
  obtain ⟨c, hc, h1, h2⟩ := Inv.sound (combine_inv A B f) t ht
  obtain ⟨x, hx, y, hy, rfl⟩ := (C16.mem_pairCands A B f c).mp hc
  rw [hf] at h1 h2
  simp only [Option.some.injEq] at h1
  exact ⟨x, hx, y, hy, h1.symm, h2.symm⟩

/-- `*entry` (`Entry.__iter__`) of related entries: related batches. -/
theorem cands_bRel {m : Merge} {eA eL : Entry τ} (h : AnySub m eA eL) :
    BRel (eA.infos.map fun t => (⟨eA.value, some t⟩ : Cand τ))
      (eL.infos.map fun t => (⟨eL.value, some t⟩ : Cand τ)) := by
  constructor
  · intro c hc
    obtain ⟨t, ht, rfl⟩ := List.mem_map.mp hc
    rw [h.value]
    exact List.mem_map.mpr ⟨t, h.sub t ht, rfl⟩
  · intro c hc
    obtain ⟨t, ht, rfl⟩ := List.mem_map.mp hc
    obtain ⟨t0, ht0⟩ := List.exists_mem_of_ne_nil _ (h.nonempty (List.ne_nil_of_mem ht))
    exact ⟨⟨eA.value, some t0⟩, List.mem_map.mpr ⟨t0, ht0, rfl⟩, h.value, fun _ => rfl⟩

end combine

/-! ### Cells behind an `EntryProxy` -/

section cell

variable {τ : Type} [DecidableEq τ]

/-- A cell of the ANY table against the cell of the ALL table: instantiated
    together, with related histories. -/
inductive CellRel (m : Merge) : Cell τ → Cell τ → Prop
  | none : CellRel m none none
  | some {eA eL : Entry τ} {hA hL : List (Cand τ)} :
      Inv m .any hA eA → Inv m .all hL eL → BRel hA hL → CellRel m (some eA) (some eL)

theorem cellRel_update {m : Merge} {cA cL : Cell τ} (h : CellRel m cA cL)
    {bA bL : List (Cand τ)} (hb : BRel bA bL) :
    CellRel m (Cell.update m .any cA bA) (Cell.update m .all cL bL) := by
  have hw := hb.writes
  simp only [C16.writes] at hw
  unfold Cell.update
  rw [hw]
  split
  · cases h with
    | none =>
      exact .some (by simpa using inv_update (inv_init (τ := τ) m .any) bA)
        (by simpa using inv_update (inv_init (τ := τ) m .all) bL) (by simpa using hb)
    | some iA iL hr =>
      exact .some (inv_update iA bA) (inv_update iL bL) (hr.append hb)
  · exact h

/-- Related histories of batches. -/
inductive BRels : List (List (Cand τ)) → List (List (Cand τ)) → Prop
  | nil : BRels [] []
  | cons {a b : List (Cand τ)} {as bs : List (List (Cand τ))} :
      BRel a b → BRels as bs → BRels (a :: as) (b :: bs)

theorem cellRel_foldl {m : Merge} {bsA bsL : List (List (Cand τ))}
    (hbs : BRels bsA bsL) {cA cL : Cell τ} (h : CellRel m cA cL) :
    CellRel m (bsA.foldl (Cell.update m .any) cA) (bsL.foldl (Cell.update m .all) cL) := by
  induction hbs generalizing cA cL with
  | nil => exact h
  | cons hb _ ih => exact ih (cellRel_update h hb)

theorem CellRel.anySub {m : Merge} {eA eL : Entry τ} (h : CellRel m (Option.some eA) (Option.some eL)) :
    AnySub m eA eL := by
  cases h with
  | some iA iL hr => exact Inv.anySub iA iL hr

theorem CellRel.isNone {m : Merge} {cA cL : Cell τ} (h : CellRel m cA cL) :
    cA = Option.none ↔ cL = Option.none := by
  cases h <;> simp

theorem CellRel.value {m : Merge} {cA cL : Cell τ} (h : CellRel m cA cL) :
    Cell.value m cA = Cell.value m cL := by
  cases h with
  | none => rfl
  | some iA iL hr => exact (Inv.anySub iA iL hr).value

theorem CellRel.infos_sub {m : Merge} {cA cL : Cell τ} (h : CellRel m cA cL) :
    ∀ t ∈ Cell.infos cA, t ∈ Cell.infos cL := by
  cases h with
  | none => intro t ht; exact ht
  | some iA iL hr => exact (Inv.anySub iA iL hr).sub

/-- A cell written from scratch: what `EntryProxy.update` leaves, as an entry
    with its history (the batches that contain a finite candidate). -/
theorem cell_some_inv {m : Merge} {r : Retain} {bs : List (List (Cand τ))} {e : Entry τ}
    (h : bs.foldl (Cell.update m r) (none : Cell τ) = some e) :
    Inv m r (bs.filter C16.writes).flatten e ∧
      ∃ c0 ∈ (bs.filter C16.writes).flatten, c0.value.isInfinite = false := by
  rw [C16.cell_fold] at h
  split at h
  · cases h
  · rename_i hne
    simp only [Option.getD_none, Option.some.injEq] at h
    subst h
    refine ⟨by simpa using inv_update (inv_init (τ := τ) m r) (bs.filter C16.writes).flatten, ?_⟩
    obtain ⟨b, hb⟩ := List.exists_mem_of_ne_nil _ hne
    have hw := (List.mem_filter.mp hb).2
    simp only [C16.writes, List.any_eq_true] at hw
    obtain ⟨c0, hc0, hf⟩ := hw
    exact ⟨c0, List.mem_flatten.mpr ⟨b, hb, hc0⟩, by simpa using hf⟩

theorem mem_written_flatten {bs : List (List (Cand τ))} {c : Cand τ}
    (h : c ∈ (bs.filter C16.writes).flatten) : c ∈ bs.flatten := by
  obtain ⟨b, hb, hc⟩ := List.mem_flatten.mp h
  exact List.mem_flatten.mpr ⟨b, (List.mem_filter.mp hb).1, hc⟩

end cell

/-! ### The result entry of a solver -/

section result

variable {σ ι : Type} [DecidableEq σ]

/-- The candidates `Candidate(cost(output), output)` offered to the result entry:
    for every index (root species, root order) the outputs decoded there. -/
def outCands (cost : σ → ExtInt) (ss : List ι) (d : ι → List σ) : List (Cand σ) :=
  ss.flatMap fun s => (d s).map fun out => ⟨cost out, some out⟩

theorem mem_outCands {cost : σ → ExtInt} {ss : List ι} {d : ι → List σ} {c : Cand σ} :
    c ∈ outCands cost ss d ↔ ∃ s ∈ ss, ∃ out ∈ d s, c = ⟨cost out, some out⟩ := by
  simp only [outCands, List.mem_flatMap, List.mem_map]
  constructor
  · rintro ⟨s, hs, out, ho, rfl⟩; exact ⟨s, hs, out, ho, rfl⟩
  · rintro ⟨s, hs, out, ho, rfl⟩; exact ⟨s, hs, out, ho, rfl⟩

/-- **The result entries of the two runs.**  `dA s ⊆ dL s` are the outputs decoded
    at index `s` under ANY and under ALL, the former non-empty when the latter is. -/
theorem result_rel (cost : σ → ExtInt) (ss : List ι) (dA dL : ι → List σ)
    (hsub : ∀ s ∈ ss, ∀ x ∈ dA s, x ∈ dL s) (hne : ∀ s ∈ ss, dL s ≠ [] → dA s ≠ [])
    (eA eL : Entry σ) (hA : Inv .min .any (outCands cost ss dA) eA)
    (hL : Inv .min .all (outCands cost ss dL) eL) :
    eA.infos.length ≤ 1 ∧ (eA.infos = [] ↔ eL.infos = []) ∧
    ((∀ s ∈ ss, ∀ x ∈ dL s, ∀ y ∈ dL s, cost x = cost y) →
      eA.value = eL.value ∧ ∀ t ∈ eA.infos, t ∈ eL.infos) := by
  have htagA : ∀ c ∈ outCands cost ss dA, c.info.isSome := by
    intro c hc; obtain ⟨s, _, out, _, rfl⟩ := mem_outCands.mp hc; rfl
  have htagL : ∀ c ∈ outCands cost ss dL, c.info.isSome := by
    intro c hc; obtain ⟨s, _, out, _, rfl⟩ := mem_outCands.mp hc; rfl
  have hcs : outCands cost ss dA = [] ↔ outCands cost ss dL = [] := by
    constructor
    · intro h
      apply List.eq_nil_iff_forall_not_mem.mpr
      intro c hc
      obtain ⟨s, hs, out, ho, rfl⟩ := mem_outCands.mp hc
      obtain ⟨x, hx⟩ := List.exists_mem_of_ne_nil _ (hne s hs (List.ne_nil_of_mem ho))
      have : (⟨cost x, some x⟩ : Cand σ) ∈ outCands cost ss dA :=
        mem_outCands.mpr ⟨s, hs, x, hx, rfl⟩
      rw [h] at this; cases this
    · intro h
      apply List.eq_nil_iff_forall_not_mem.mpr
      intro c hc
      obtain ⟨s, hs, out, ho, rfl⟩ := mem_outCands.mp hc
      have : (⟨cost out, some out⟩ : Cand σ) ∈ outCands cost ss dL :=
        mem_outCands.mpr ⟨s, hs, out, hsub s hs out ho, rfl⟩
      rw [h] at this; cases this
  have hnilA : eA.infos = [] ↔ outCands cost ss dA = [] := by
    constructor
    · intro h
      by_cases hc : outCands cost ss dA = []
      · exact hc
      · exact absurd h (Inv.nonempty_of_tagged hA (by simp) htagA hc)
    · intro h
      cases hi : eA.infos with
      | nil => rfl
      | cons t ts =>
        obtain ⟨c, hc, _⟩ := Inv.sound hA t (by rw [hi]; simp)
        rw [h] at hc; cases hc
  have hnilL : eL.infos = [] ↔ outCands cost ss dL = [] := by
    constructor
    · intro h
      by_cases hc : outCands cost ss dL = []
      · exact hc
      · exact absurd h (Inv.nonempty_of_tagged hL (by simp) htagL hc)
    · intro h
      cases hi : eL.infos with
      | nil => rfl
      | cons t ts =>
        obtain ⟨c, hc, _⟩ := Inv.sound hL t (by rw [hi]; simp)
        rw [h] at hc; cases hc
  refine ⟨hA.any1 rfl, by rw [hnilA, hnilL, hcs], ?_⟩
  intro hu
  have hrel : BRel (outCands cost ss dA) (outCands cost ss dL) := by
    constructor
    · intro c hc
      obtain ⟨s, hs, out, ho, rfl⟩ := mem_outCands.mp hc
      exact mem_outCands.mpr ⟨s, hs, out, hsub s hs out ho, rfl⟩
    · intro c hc
      obtain ⟨s, hs, out, ho, rfl⟩ := mem_outCands.mp hc
      obtain ⟨x, hx⟩ := List.exists_mem_of_ne_nil _ (hne s hs (List.ne_nil_of_mem ho))
      refine ⟨⟨cost x, some x⟩, mem_outCands.mpr ⟨s, hs, x, hx, rfl⟩, ?_, fun _ => rfl⟩
      exact hu s hs x (hsub s hs x hx) out ho
  have := Inv.anySub hA hL hrel
  exact ⟨this.value, this.sub⟩

end result

end AnyCode

end SR
