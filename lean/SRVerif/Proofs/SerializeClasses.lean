/-
  C11: cost tables, sorting, and the round trips of the four classes.
-/
import SRVerif.Proofs.SerializeMap

namespace SR.Ser

/-! ### Sorting is a permutation -/

theorem insertSyn_perm (x : String) (l : List String) : (insertSyn x l).Perm (x :: l) := by
  induction l with
  | nil => exact List.Perm.refl _
  | cons y ys ih =>
    simp only [insertSyn]
    split
    · exact (List.Perm.cons y ih).trans (List.Perm.swap x y ys)
    · exact List.Perm.refl _

/-- `sort_synteny` returns the same families, each as often as given. -/
theorem sortSynteny_perm (l : List String) : (sortSynteny l).Perm l := by
  unfold sortSynteny
  induction l with
  | nil => exact List.Perm.refl _
  | cons x xs ih =>
    simp only [List.foldr_cons]
    exact (insertSyn_perm x _).trans (List.Perm.cons x ih)

/-! ### Costs -/

/-- The two enumerations share no member name (decided on the generated table). -/
theorem edge_names_not_node : ∀ s ∈ Gen.edgeEventNames, Gen.nodeEventNames.contains s = false := by
  decide

theorem eventOfName_name {e : Event} (h : e.valid = true) : eventOfName e.name = .ok e := by
  cases e with
  | node n =>
    simp only [Event.valid] at h
    have hm : n ∈ Gen.nodeEventNames := by simpa using h
    simp [eventOfName, Event.name, hm]
  | edge n =>
    simp only [Event.valid] at h
    have hm : n ∈ Gen.edgeEventNames := by simpa using h
    have hn : n ∉ Gen.nodeEventNames := by simpa using edge_names_not_node n hm
    simp [eventOfName, Event.name, hm, hn]

theorem event_name_inj {a b : Event} (ha : a.valid = true) (hb : b.valid = true)
    (h : a.name = b.name) : a = b := by
  have h1 := eventOfName_name ha
  have h2 := eventOfName_name hb
  rw [h] at h1
  rw [h1] at h2
  exact Except.ok.inj h2

/-- A cost table: pairwise distinct members of the two enumerations. -/
def CostsWF (c : CostValues) : Prop :=
  (c.map (·.1)).Nodup ∧ ∀ x ∈ c, x.1.valid = true

instance (c : CostValues) : Decidable (CostsWF c) := by
  unfold CostsWF; infer_instance

theorem serializeCosts_eq {c : CostValues} (h : CostsWF c) :
    serializeCosts c = c.map (fun x => (x.1.name, x.2)) := by
  unfold serializeCosts
  apply Dict.ofList_nodup
  rw [List.map_map]
  have : ((fun x : String × Cost => x.1) ∘ fun x : Event × Cost => (x.1.name, x.2))
      = Event.name ∘ (fun x : Event × Cost => x.1) := rfl
  rw [this, ← List.map_map]
  refine nodup_map_of_inj_on _ h.1 ?_
  intro a ha b hb hab
  obtain ⟨x, hx, rfl⟩ := List.mem_map.1 ha
  obtain ⟨y, hy, rfl⟩ := List.mem_map.1 hb
  exact event_name_inj (h.2 x hx) (h.2 y hy) hab

theorem parse_serialize_costs {c : CostValues} (h : CostsWF c) :
    parseCosts (serializeCosts c) = .ok c := by
  rw [serializeCosts_eq h]
  unfold parseCosts
  have := mapM_map_ok (fun x : Event × Cost => (x.1.name, x.2))
    (fun x => do
      let e ← eventOfName x.1
      pure (e, x.2)) c (by
        intro x hx
        simp only [eventOfName_name (h.2 x hx)]
        rfl)
  rw [this]
  show Except.ok (Dict.ofList c) = Except.ok c
  rw [Dict.ofList_nodup c h.1]

/-! ### The four classes -/

/-- The law assumed of ete3: writing a uniquely and safely named tree in format 8
    (root included, `color` feature) and reading it in format 1 gives the tree back. -/
def NewickLaw (write : NT → String) (read : String → Option NT) : Prop :=
  ∀ t : NT, t.UniqueNames → t.SafeNames → read (write t) = some t

structure RecInput.WF (x : RecInput) : Prop where
  objUnique : x.objectTree.UniqueNames
  objSafe : x.objectTree.SafeNames
  speUnique : x.speciesTree.UniqueNames
  speSafe : x.speciesTree.SafeNames
  leaf : TreeMappingWF x.objectTree x.speciesTree x.leafObjectSpecies
  costs : CostsWF x.costs

structure SRecInput.WF (x : SRecInput) : Prop where
  base : x.base.WF
  syn : KeysIn x.base.objectTree x.leafSyntenies

def AnyInput.WF : AnyInput → Prop
  | .plain i => i.WF
  | .super i => i.WF

theorem AnyInput.WF.base : ∀ {i : AnyInput}, i.WF → i.base.WF
  | .plain _, h => h
  | .super _, h => SRecInput.WF.base h

structure RecOutput.WF (x : RecOutput) : Prop where
  input : x.input.WF
  map : TreeMappingWF x.input.base.objectTree x.input.base.speciesTree x.objectSpecies

structure SRecOutput.WF (x : SRecOutput) : Prop where
  input : x.input.WF
  map : TreeMappingWF x.input.base.objectTree x.input.base.speciesTree x.objectSpecies
  syn : KeysIn x.input.base.objectTree x.syntenies

/-- What the classes read back as. -/
def SRecInput.norm (x : SRecInput) : SRecInput := { x with leafSyntenies := normSyn x.leafSyntenies }

def RecOutput.norm (x : RecOutput) : RecOutput := { x with input := .plain x.input.base }

def SRecOutput.norm (x : SRecOutput) : SRecOutput :=
  { x with input := .plain x.input.base, syntenies := normSyn x.syntenies }

section
variable {write : NT → String} {read : String → Option NT}

theorem readTree_write (hN : NewickLaw write read) {t : NT} (hu : t.UniqueNames)
    (hs : t.SafeNames) : readTree read (write t) = .ok t := by
  simp [readTree, hN t hu hs]

theorem RecInput.fromDict_toDict (hN : NewickLaw write read) {x : RecInput} (h : x.WF) :
    RecInput.fromDict read (x.toDict write) = .ok x := by
  simp only [RecInput.fromDict, RecInput.toDict, readTree_write hN h.objUnique h.objSafe,
    readTree_write hN h.speUnique h.speSafe, parse_serialize_costs h.costs, bind, Except.bind,
    parse_serialize_treeMapping h.objUnique h.speUnique h.leaf, pure, Except.pure]

theorem AnyInput.toDict_base (i : AnyInput) :
    RecInput.fromDict read (i.toDict write) = RecInput.fromDict read (i.base.toDict write) := by
  cases i <;> rfl

theorem SRecInput.fromDict_toDict (hN : NewickLaw write read) {x : SRecInput} (h : x.WF) :
    SRecInput.fromDict read (x.toDict write) = .ok x.norm := by
  have hb : RecInput.fromDict read (x.toDict write) = .ok x.base :=
    (AnyInput.toDict_base (.super x)).trans (RecInput.fromDict_toDict hN h.base)
  simp only [SRecInput.fromDict, hb]
  simp only [SRecInput.toDict]
  show (do
    let ls ← parseSynMapping x.base.objectTree (serializeSynMapping x.base.objectTree x.leafSyntenies)
    pure ({ base := x.base, leafSyntenies := ls } : SRecInput)) = _
  rw [parse_serialize_synMapping h.base.objUnique h.syn]
  rfl

theorem SRecInput.toDict_norm {x : SRecInput} (h : x.WF) :
    x.norm.toDict write = x.toDict write := by
  simp only [SRecInput.toDict, SRecInput.norm, serialize_normSyn h.base.objUnique h.syn]

theorem RecOutput.fromDict_toDict (hN : NewickLaw write read) {x : RecOutput} (h : x.WF) :
    RecOutput.fromDict read (x.toDict write) = .ok x.norm := by
  have hb : RecInput.fromDict read (x.input.toDict write) = .ok x.input.base :=
    (AnyInput.toDict_base x.input).trans (RecInput.fromDict_toDict hN h.input.base)
  simp only [RecOutput.fromDict, RecOutput.toDict, hb]
  show (do
    let os ← parseTreeMapping x.input.base.objectTree x.input.base.speciesTree
      (serializeTreeMapping x.input.base.objectTree x.input.base.speciesTree x.objectSpecies)
    pure ({ input := .plain x.input.base, objectSpecies := os } : RecOutput)) = _
  rw [parse_serialize_treeMapping h.input.base.objUnique h.input.base.speUnique h.map]
  rfl

theorem SRecOutput.fromDict_toDict (hN : NewickLaw write read) {x : SRecOutput} (h : x.WF) :
    SRecOutput.fromDict read (x.toDict write) = .ok x.norm := by
  have hb : RecInput.fromDict read (x.input.toDict write) = .ok x.input.base :=
    (AnyInput.toDict_base x.input).trans (RecInput.fromDict_toDict hN h.input.base)
  have ho : RecOutput.fromDict read (x.toDict write)
      = .ok { input := .plain x.input.base, objectSpecies := x.objectSpecies } := by
    simp only [RecOutput.fromDict, SRecOutput.toDict, hb]
    show (do
      let os ← parseTreeMapping x.input.base.objectTree x.input.base.speciesTree
        (serializeTreeMapping x.input.base.objectTree x.input.base.speciesTree x.objectSpecies)
      pure ({ input := .plain x.input.base, objectSpecies := os } : RecOutput)) = _
    rw [parse_serialize_treeMapping h.input.base.objUnique h.input.base.speUnique h.map]
    rfl
  simp only [SRecOutput.fromDict, ho]
  simp only [SRecOutput.toDict]
  show (do
    let syn ← parseSynMapping x.input.base.objectTree
      (serializeSynMapping x.input.base.objectTree x.syntenies)
    pure ({ input := .plain x.input.base, objectSpecies := x.objectSpecies, syntenies := syn,
            ordered := (some x.ordered).getD true } : SRecOutput)) = _
  rw [parse_serialize_synMapping h.input.base.objUnique h.syn]
  rfl

/-- Dictionary of an output without the key `input.leaf_syntenies`. -/
def OutputDict.dropLeafSyntenies (d : OutputDict) : OutputDict :=
  { d with input := { d.input with leaf_syntenies := none } }

theorem AnyInput.toDict_plain_base (i : AnyInput) :
    (AnyInput.plain i.base).toDict write = { i.toDict write with leaf_syntenies := none } := by
  cases i <;> rfl

theorem RecOutput.toDict_norm (x : RecOutput) :
    x.norm.toDict write = (x.toDict write).dropLeafSyntenies := by
  simp only [RecOutput.toDict, RecOutput.norm, OutputDict.dropLeafSyntenies,
    AnyInput.toDict_plain_base]
  rfl

theorem SRecOutput.toDict_norm {x : SRecOutput} (h : x.WF) :
    x.norm.toDict write = (x.toDict write).dropLeafSyntenies := by
  have hs := serialize_normSyn h.input.base.objUnique h.syn
  simp only [SRecOutput.toDict, SRecOutput.norm, OutputDict.dropLeafSyntenies,
    AnyInput.toDict_plain_base]
  show OutputDict.mk _ _ (some (serializeSynMapping x.input.base.objectTree (normSyn x.syntenies))) _ = _
  rw [hs]
  rfl

end

end SR.Ser
