/-
  Every drawing call of the model `drawCalls` is an ADMISSIBLE call of the `render` model over the
  generated templates (`CallOK`): its statement is one of `Generated.statements` and each filling
  lies in the filling space of its hole.  This is what lets `C15_balanced` / `C15_structure`
  quantify over layouts instead of over arbitrary call sequences.
-/
import SRVerif.Proofs.TikzDraw
import SRVerif.Proofs.TikzDoc
import SRVerif.Proofs.TikzEscape

namespace SR.TikzDraw

open SR SR.Layout SR.Tikz

/-! ## Printed coordinates -/

theorem tikz_isDigit_of_isDigit (c : Char) (h : c.isDigit = true) : Tikz.isDigit c = true := by
  simp only [Char.isDigit, Bool.and_eq_true, decide_eq_true_eq] at h
  simp only [Tikz.isDigit, Bool.and_eq_true, decide_eq_true_eq]
  exact ⟨by simpa [Char.le_def, UInt32.le_iff_toNat_le] using h.1,
    by simpa [Char.le_def, UInt32.le_iff_toNat_le] using h.2⟩

theorem natStr_digits (n : Nat) : ∀ c ∈ natStr n, Tikz.isDigit c = true := by
  simp only [natStr, Nat.repr, String.toList_ofList]
  intro c hc
  exact tikz_isDigit_of_isDigit c (Nat.isDigit_of_mem_toDigits (by decide) (by decide) hc)

theorem digitChar_digit (n : Nat) : Tikz.isDigit (digitChar n) = true := by
  unfold digitChar
  split <;> decide

/-- The characters a printed coordinate may contain. -/
def coordChar (c : Char) : Bool :=
  Tikz.isDigit c || c == '.' || c == ',' || c == '-' || c == '+' || c == 'e'

theorem coordChar_of_digit (c : Char) (h : Tikz.isDigit c = true) : coordChar c = true := by
  simp [coordChar, h]

theorem fmtCoord_chars (q : Rat) : ∀ c ∈ fmtCoord q, coordChar c = true := by
  intro c hc
  unfold fmtCoord at hc
  simp only [List.mem_append] at hc
  rcases hc with ((hc | hc) | hc) | hc
  · split at hc
    · simp only [List.mem_singleton] at hc; subst hc; decide
    · cases hc
  · exact coordChar_of_digit c (natStr_digits _ c hc)
  · simp only [List.mem_singleton] at hc; subst hc; decide
  · split at hc
    · simp only [List.mem_singleton] at hc; subst hc; decide
    · have := (List.dropWhile_sublist _).subset (List.mem_reverse.1 hc)
      simp only [List.mem_reverse, List.mem_cons, List.not_mem_nil, or_false] at this
      rcases this with rfl | rfl | rfl | rfl <;> exact coordChar_of_digit _ (digitChar_digit _)

theorem fillOK_coord (p : Pos) : fillOK .coord (fmtPos p) = true := by
  simp only [fillOK, List.all_eq_true]
  intro c hc
  have : coordChar c = true := by
    simp only [fmtPos, List.mem_append, List.mem_singleton] at hc
    rcases hc with (hc | rfl) | hc
    · exact fmtCoord_chars _ c hc
    · decide
    · exact fmtCoord_chars _ c hc
  simpa [coordChar] using this

/-! ## Species labels -/

theorem mem_intercalate {sep : Str} {l : List Str} {c : Char} (h : c ∈ List.intercalate sep l) :
    c ∈ sep ∨ ∃ x ∈ l, c ∈ x := by
  induction l with
  | nil => simp [List.intercalate] at h
  | cons x r ih =>
    cases r with
    | nil =>
      simp only [List.intercalate, List.intersperse, List.flatten_cons, List.flatten_nil,
        List.append_nil] at h
      exact Or.inr ⟨x, by simp, h⟩
    | cons y ys =>
      rw [intercalate_cons_cons] at h
      simp only [List.mem_append] at h
      rcases h with (h | h) | h
      · exact Or.inr ⟨x, by simp, h⟩
      · exact Or.inl h
      · rcases ih h with h | ⟨z, hz, hc⟩
        · exact Or.inl h
        · exact Or.inr ⟨z, List.mem_cons_of_mem _ hz, hc⟩

theorem mem_intercalate_of_mem {sep : Str} {l : List Str} {x : Str} {c : Char} (hx : x ∈ l)
    (hc : c ∈ x) : c ∈ List.intercalate sep l := by
  induction l with
  | nil => cases hx
  | cons y r ih =>
    cases r with
    | nil =>
      simp only [List.mem_singleton] at hx
      subst hx
      simpa [List.intercalate, List.intersperse] using hc
    | cons z zs =>
      rw [intercalate_cons_cons]
      simp only [List.mem_append]
      rcases List.mem_cons.1 hx with rfl | hx
      · exact Or.inl (Or.inl hc)
      · exact Or.inr (ih hx)

/-- Wrapping neither adds nor invents characters other than those of the separator. -/
theorem balancedWrapText_chars {sep text out : Str} {w : Nat}
    (h : balancedWrapText sep w text = some out) : ∀ c ∈ out, c ∈ sep ∨ c ∈ text := by
  intro c hc
  unfold balancedWrapText at h
  split at h
  · simp only [Option.some.injEq] at h; subst h; cases hc
  · simp only [Option.map_eq_some_iff] at h
    obtain ⟨ls, hls, rfl⟩ := h
    obtain ⟨w', _, _, rfl, _⟩ := balancedWrap_spec w _ ls hls
    rcases mem_intercalate hc with h | ⟨x, hx, hcx⟩
    · exact Or.inl h
    · right
      obtain ⟨line, hline, rfl⟩ := List.mem_map.1 hx
      rcases mem_intercalate hcx with h | ⟨word, hword, hcw⟩
      · -- a space inside a line: the line has two words, so the text has a space too
        simp only [List.mem_singleton] at h
        subst h
        have hflat := wrap_flatten w' (splitSpaces text)
        rw [← lineText_splitSpaces text, ← hflat]
        -- `line` with its inner space is part of the joined text
        have : ' ' ∈ lineText line := hcx
        have hsub : ∀ ch ∈ lineText line, ch ∈ lineText (wrap w' (splitSpaces text)).flatten := by
          rw [← lineText_join _ (wrap_ne_nil w' _)]
          intro ch hch
          exact mem_intercalate_of_mem (List.mem_map_of_mem hline) hch
        exact hsub _ this
      · have hw : word ∈ splitSpaces text := by
          rw [← wrap_flatten w' (splitSpaces text)]
          exact List.mem_flatten.2 ⟨line, hline, hword⟩
        rw [← lineText_splitSpaces text]
        exact mem_intercalate_of_mem hw hcw

theorem speciesLabel_balanced {w : Option Nat} {name label : Str}
    (hn : braceFree name = true) (h : speciesLabel w name = some label) :
    isBalanced label = true := by
  apply isBalanced_of_braceFree
  have he := braceFree_escape name hn
  unfold speciesLabel at h
  cases w with
  | none => simp only [Option.some.injEq] at h; subst h; exact he
  | some w =>
    simp only at h
    simp only [braceFree, List.all_eq_true] at he ⊢
    intro c hc
    rcases balancedWrapText_chars h c hc with h' | h'
    · simp only [texLineBreak, List.mem_cons, List.not_mem_nil, or_false, or_self] at h'
      subst h'; decide
    · exact he c h'

theorem speciesLabel_isSome {w : Option Nat} (hw : w ≠ some 0) (name : Str) :
    (speciesLabel w name).isSome = true := by
  unfold speciesLabel
  cases w with
  | none => rfl
  | some n =>
    simp only
    unfold balancedWrapText
    split
    · rfl
    · have hn : 0 < n := by
        cases n with
        | zero => exact absurd rfl hw
        | succ k => omega
      obtain ⟨ls, hls⟩ := Option.isSome_iff_exists.1 (balancedWrap_isSome n (splitSpaces (escape name)) hn)
      simp [hls]


/-! ## The hole shapes of the generated statement templates -/

theorem statements_length : Generated.statements.length = 14 := by decide +kernel

theorem stmtAt_mem (k : Nat) (hk : k < 14) : stmtAt k ∈ Generated.statements := by
  have hk' : k < Generated.statements.length := by rw [statements_length]; exact hk
  unfold stmtAt
  simp only [List.getD_eq_getElem?_getD, List.getElem?_eq_getElem hk', Option.getD_some]
  exact List.getElem_mem hk'

theorem holes_0 : (stmtAt 0).2.holes = [.coord, .unit, .coord, .coord, .coord, .coord, .unit,
    .coord, .coord, .coord, .coord, .unit, .coord, .coord, .coord] := by decide +kernel
theorem holes_1 : (stmtAt 1).2.holes = [.unit, .coord, .coord, .label, .coord, .coord] := by
  decide +kernel
theorem holes_2 : (stmtAt 2).2.holes = [.color, .coord, .coord] := by decide +kernel
theorem holes_3 : (stmtAt 3).2.holes = [.color, .label, .coord] := by decide +kernel
theorem holes_4 : (stmtAt 4).2.holes = [.color, .coord, .coord] := by decide +kernel
theorem holes_5 : (stmtAt 5).2.holes = [.color, .coord] := by decide +kernel
theorem holes_6 : (stmtAt 6).2.holes = [.color, .coord, .kw [linkVH, linkHV], .coord] := by
  decide +kernel
theorem holes_7 : (stmtAt 7).2.holes = [.color, .coord, .kw [linkVH, linkHV], .coord, .coord,
    .kw [linkVH, linkHV], .coord] := by decide +kernel
theorem holes_8 : (stmtAt 8).2.holes = [.color, .coord, .label] := by decide +kernel
theorem holes_9 : (stmtAt 9).2.holes = [.color, .coord, .kw [linkVH, linkHV], .coord, .coord,
    .kw [linkVH, linkHV], .coord] := by decide +kernel
theorem holes_10 : (stmtAt 10).2.holes = [.color, .coord, .label] := by decide +kernel
theorem holes_11 : (stmtAt 11).2.holes = [.color, .coord, .coord] := by decide +kernel
theorem holes_12 : (stmtAt 12).2.holes =
    [.color, .coord, .kw [bendRight, bendLeft, bendUp, bendDown], .coord] := by decide +kernel
theorem holes_13 : (stmtAt 13).2.holes = [.color, .coord, .label] := by decide +kernel

/-! ## Admissible calls -/

/-- The decorations and string parameters lie in the filling spaces of C15: colour codes are
    alphanumeric, branch labels brace-balanced, species names brace-free (they are escaped and
    wrapped by the drawing code itself), the rounding length brace-free. -/
structure DecoOK (dp : DParams) (deco : Deco) : Prop where
  color : ∀ s k, (deco.color s k).all isAlnum = true
  name : ∀ s k, isBalanced (deco.name s k) = true
  spName : ∀ s, braceFree (deco.spName s) = true
  rounding : braceFree dp.rounding = true

@[simp] theorem reqOK_coord (p : Pos) : reqOK .coord (.text (fmtPos p)) = true := by
  simp [reqOK, fillOK_coord]
@[simp] theorem reqOK_color (h : Str) : reqOK .color (.color h) = h.all isAlnum := rfl
@[simp] theorem reqOK_label (s : Str) : reqOK .label (.text s) = isBalanced s := rfl
@[simp] theorem reqOK_unit (s : Str) : reqOK .unit (.text s) = braceFree s := rfl
@[simp] theorem reqOK_kw (cs : List Str) (s : Str) : reqOK (.kw cs) (.text s) = cs.contains s := rfl

theorem callOK_of (c : DrawCall) (hk : c.stmt < 14)
    (h : reqsOK (stmtAt c.stmt).2.holes (c.fills.map DFill.toFill) = true) : CallOK c.toCall :=
  ⟨stmtAt_mem c.stmt hk, h⟩

theorem links_fst (o : Orientation) : (forkLinks o).1 = linkVH ∨ (forkLinks o).1 = linkHV := by
  cases o <;> simp [forkLinks]
theorem links_snd (o : Orientation) : (forkLinks o).2 = linkVH ∨ (forkLinks o).2 = linkHV := by
  cases o <;> simp [forkLinks]

theorem phantom_balanced : isBalanced phantomDash = true := by decide

theorem forkInner_callOK (o : Orientation) (dp : DParams) (deco : Deco) (hok : DecoOK dp deco)
    (lay l r : SubLayout) : CallOK (forkInner o dp lay l r).toCall := by
  apply callOK_of _ (by simp [forkInner])
  simp [forkInner, holes_0, reqsOK, DFill.toFill, hok.rounding]

theorem forkLeaf_callOK {o : Orientation} {dp : DParams} {deco : Deco} (hok : DecoOK dp deco)
    {lay : SubLayout} {f : DrawCall} (h : forkLeaf o dp deco lay = .ok f) : CallOK f.toCall := by
  unfold forkLeaf at h
  cases hlab : speciesLabel dp.labelWidth (deco.spName lay.sp) with
  | none => simp [hlab] at h
  | some label =>
    simp only [hlab, Except.ok.injEq] at h
    subst h
    have hb := speciesLabel_balanced (hok.spName lay.sp) hlab
    apply callOK_of _ (by simp)
    simp [holes_1, reqsOK, DFill.toFill, hok.rounding, hb]

theorem anchorCall_callOK {dp : DParams} {deco : Deco} (hok : DecoOK dp deco) (lay : SubLayout)
    (b : FBranch) : ∀ c ∈ anchorCall deco lay b, CallOK c.toCall := by
  intro c hc
  unfold anchorCall at hc
  split at hc
  · simp only [List.mem_singleton] at hc
    subst hc
    apply callOK_of _ (by simp)
    simp [holes_2, reqsOK, DFill.toFill, hok.color]
  · cases hc

theorem drawBranch_callOK {o : Orientation} {dp : DParams} {deco : Deco} (hok : DecoOK dp deco)
    {all : List SubLayout} {spOf : Path → Option Path} {lay : SubLayout}
    {ll rl : Option SubLayout} {b : FBranch} {cs : List DrawCall}
    (h : drawBranch o dp deco all spOf lay ll rl b = .ok cs) : ∀ c ∈ cs, CallOK c.toCall := by
  have hpre := anchorCall_callOK hok lay b
  have hcol := hok.color lay.sp b.key
  have hname := hok.name lay.sp b.key
  have l1 := links_fst o
  have l2 := links_snd o
  unfold drawBranch at h
  cases hk : b.kind with
  | leaf =>
    simp only [hk, Except.ok.injEq] at h
    subst h
    intro c hc
    rcases List.mem_append.1 hc with hc | hc
    · exact hpre c hc
    · simp only [List.mem_singleton] at hc
      subst hc
      apply callOK_of _ (by simp)
      simp [holes_3, reqsOK, DFill.toFill, hcol, hname]
  | loss =>
    simp only [hk] at h
    split at h
    · cases h
    · simp only [Except.ok.injEq] at h
      subst h
      intro c hc
      rcases List.mem_append.1 hc with hc | hc
      · exact hpre c hc
      · simp only [List.mem_cons, List.not_mem_nil, or_false] at hc
        rcases hc with rfl | rfl | rfl
        · apply callOK_of _ (by simp)
          simp [holes_4, reqsOK, DFill.toFill, hcol]
        · apply callOK_of _ (by simp)
          simp [holes_5, reqsOK, DFill.toFill, hcol]
        · apply callOK_of _ (by simp)
          simp [holes_6, reqsOK, DFill.toFill, hcol, l2]
  | spec =>
    simp only [hk] at h
    split at h
    · simp only [Except.ok.injEq] at h
      subst h
      intro c hc
      rcases List.mem_append.1 hc with hc | hc
      · exact hpre c hc
      · simp only [List.mem_cons, List.not_mem_nil, or_false] at hc
        rcases hc with rfl | rfl
        · apply callOK_of _ (by simp)
          simp [holes_7, reqsOK, DFill.toFill, hcol, l1, l2]
        · apply callOK_of _ (by simp)
          simp [holes_8, reqsOK, DFill.toFill, hcol, hname]
    · cases h
    · cases h
  | dup =>
    simp only [hk] at h
    split at h
    · simp only [Except.ok.injEq] at h
      subst h
      intro c hc
      rcases List.mem_append.1 hc with hc | hc
      · exact hpre c hc
      · simp only [List.mem_cons, List.not_mem_nil, or_false] at hc
        rcases hc with rfl | rfl
        · apply callOK_of _ (by simp)
          simp [holes_9, reqsOK, DFill.toFill, hcol, l1, l2]
        · apply callOK_of _ (by simp)
          simp [holes_10, reqsOK, DFill.toFill, hcol, hname]
    · cases h
    · cases h
  | hgt =>
    simp only [hk] at h
    split at h
    · split at h
      · cases h
      · split at h
        · cases h
        · split at h
          · cases h
          · split at h
            · cases h
            · simp only [Except.ok.injEq] at h
              subst h
              intro c hc
              rcases List.mem_append.1 hc with hc | hc
              · exact hpre c hc
              · simp only [List.mem_cons, List.not_mem_nil, or_false] at hc
                rcases hc with rfl | rfl | rfl
                · apply callOK_of _ (by simp)
                  simp [holes_11, reqsOK, DFill.toFill, hcol]
                · apply callOK_of _ (by simp)
                  simp only [holes_12, List.map_cons, List.map_nil, reqsOK, DFill.toFill,
                    reqOK_coord, reqOK_color, reqOK_kw, hcol, Bool.true_and, Bool.and_true]
                  cases o <;> simp only [] <;> split <;> simp
                · apply callOK_of _ (by simp)
                  simp only [holes_13, List.map_cons, List.map_nil, reqsOK, DFill.toFill,
                    reqOK_coord, reqOK_color, reqOK_label, hcol, Bool.true_and, Bool.and_true]
                  split
                  · exact phantom_balanced
                  · exact hname
    · cases h

/-- **Every drawing call is admissible.** -/
theorem drawCalls_callOK {o : Orientation} {dp : DParams} {deco : Deco} (hok : DecoOK dp deco)
    {S : RTree} {spOf : Path → Option Path} {all : List SubLayout} {calls : List DrawCall}
    (h : drawCalls o dp deco S spOf all = .ok calls) : ∀ c ∈ calls, CallOK c.toCall := by
  intro c hc
  cases origin_of_mem h c hc with
  | leafFork lay _ _ hf => exact forkLeaf_callOK hok hf
  | innerFork lay l r _ _ _ _ hc' => subst hc'; exact forkInner_callOK o dp deco hok lay l r
  | branch lay ll rl b cs _ _ _ hd hc' => exact drawBranch_callOK hok hd c hc'

end SR.TikzDraw
