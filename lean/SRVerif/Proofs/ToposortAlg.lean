/-
  C19: the two routines of `utils/toposort.py` meet the specification on
  well-formed graphs (no error, the fuel suffices, sound, complete, no
  repetition).
-/
import SRVerif.Proofs.ToposortInv

namespace SR.Toposort

theorem WF.succ_keys {g : Graph} (h : WF g) : ∀ p ∈ g, ∀ v ∈ p.2, v ∈ keys g :=
  fun p hp => (h.2 p hp).2

/-! ### Initialisation loops -/

theorem foldlM_nested {σ : Type} (f : σ → Nat → Except Err σ) (g : Graph) : ∀ st : σ,
    g.foldlM (fun st p => p.2.foldlM f st) st = (g.flatMap (·.2)).foldlM f st := by
  induction g with
  | nil => intro st; simp
  | cons a g ih =>
    intro st
    rw [List.foldlM_cons, List.flatMap_cons, List.foldlM_append]
    cases h : List.foldlM f st a.2 with
    | error e => simp [bind, Except.bind]
    | ok st' => simp only [bind, Except.bind]; exact ih st'

/-- Values are non-negative and the zero entries are exactly `starts`. -/
def InitPre (st : List Nat) (I : Indeg) : Prop :=
  ∀ v x, I.lookup v = some x → 0 ≤ x ∧ (x = 0 ↔ v ∈ st)

theorem kahnInitOne_eq (st : List Nat) (I : Indeg) (a : Nat) (h : InitPre st I) :
    kahnInitOne (st, I) a = allInitOne (st, I) a := by
  simp only [kahnInitOne, allInitOne, Indeg.bump]
  cases hl : I.lookup a with
  | none => rfl
  | some x =>
    obtain ⟨_, h2⟩ := h a x hl
    by_cases e : x = 0
    · simp [e, h2.1 e]
    · have : a ∉ st := fun hm => e (h2.2 hm)
      simp [e, List.erase_of_not_mem this]

theorem initFold_spec (f : List Nat × Indeg → Nat → Except Err (List Nat × Indeg))
    (hf : ∀ st I a, InitPre st I → f (st, I) a = allInitOne (st, I) a) :
    ∀ (ts st : List Nat) (I : Indeg), InitPre st I → st.Nodup → (∀ v ∈ ts, v ∈ I.map (·.1)) →
      ∃ st' I', ts.foldlM f (st, I) = .ok (st', I') ∧ I'.map (·.1) = I.map (·.1) ∧
        (∀ v, I'.lookup v = (I.lookup v).map (· + (ts.count v : Int))) ∧ st'.Nodup ∧
        ∀ v, v ∈ st' ↔ v ∈ st ∧ v ∉ ts := by
  intro ts
  induction ts with
  | nil => intro st I _ hn _; exact ⟨st, I, by simp [pure, Except.pure], rfl, by simp, hn, by simp⟩
  | cons a ts ih =>
    intro st I hpre hn hts
    obtain ⟨x, hx⟩ := lookup_some_of_mem I a (hts a (by simp))
    have hstep : f (st, I) a = .ok (st.erase a, I.set a (x + 1)) := by
      rw [hf st I a hpre]; simp [allInitOne, bump_eq I a 1 x hx]
    have hpre' : InitPre (st.erase a) (I.set a (x + 1)) := by
      intro v y hy
      by_cases e : v = a
      · subst e
        rw [lookup_set_self I v _ x hx] at hy
        have := (hpre v x hx).1
        simp only [Option.some.injEq] at hy
        subst hy
        refine ⟨by omega, ?_⟩
        constructor
        · intro h; omega
        · intro h; exact absurd h (by simp [hn.mem_erase_iff])
      · rw [lookup_set_ne I a v _ e] at hy
        rw [List.mem_erase_of_ne e]
        exact hpre v y hy
    obtain ⟨st', I', h1, h2, h3, h4, h5⟩ := ih (st.erase a) (I.set a (x + 1)) hpre' (hn.erase a)
      (fun v hv => by rw [keys_set]; exact hts v (by simp [hv]))
    refine ⟨st', I', ?_, ?_, ?_, h4, ?_⟩
    · rw [List.foldlM_cons, hstep]; exact h1
    · rw [h2, keys_set]
    · intro v
      rw [h3 v, List.count_cons]
      by_cases e : v = a
      · subst e
        rw [lookup_set_self I v _ x hx, hx]
        simp; omega
      · rw [lookup_set_ne I a v _ e]
        have : (a == v) = false := by simpa using fun h => e h.symm
        simp [this]
    · intro v
      rw [h5 v, hn.mem_erase_iff]
      simp only [List.mem_cons, not_or]
      tauto

theorem lookup_none_of_not_mem (I : Indeg) (k : Nat) (h : k ∉ I.map (·.1)) : I.lookup k = none := by
  cases hh : I.lookup k with
  | none => rfl
  | some x => exact absurd (mem_of_lookup_some I k x hh) h

/-- Ill-formed graphs: the first successor that is not a key makes the
    initialisation loop raise `KeyError` (and nothing raises before). -/
theorem initFold_err (f : List Nat × Indeg → Nat → Except Err (List Nat × Indeg))
    (hf : ∀ st I a, InitPre st I → f (st, I) a = allInitOne (st, I) a) :
    ∀ (ts st : List Nat) (I : Indeg), InitPre st I → st.Nodup → (∃ v ∈ ts, v ∉ I.map (·.1)) →
      ts.foldlM f (st, I) = .error .keyError := by
  intro ts
  induction ts with
  | nil => intro st I _ _ h; simp at h
  | cons a ts ih =>
    intro st I hpre hn hbad
    rw [List.foldlM_cons]
    by_cases ha : a ∈ I.map (·.1)
    · obtain ⟨x, hx⟩ := lookup_some_of_mem I a ha
      have hstep' : f (st, I) a = .ok (st.erase a, I.set a (x + 1)) := by
        rw [hf st I a hpre]; simp [allInitOne, bump_eq I a 1 x hx]
      have hpre' : InitPre (st.erase a) (I.set a (x + 1)) := by
        intro v y hy
        by_cases e : v = a
        · subst e
          rw [lookup_set_self I v _ x hx] at hy
          have := (hpre v x hx).1
          simp only [Option.some.injEq] at hy
          subst hy
          refine ⟨by omega, ?_⟩
          constructor
          · intro h; omega
          · intro h; exact absurd h (by simp [hn.mem_erase_iff])
        · rw [lookup_set_ne I a v _ e] at hy
          rw [List.mem_erase_of_ne e]
          exact hpre v y hy
      rw [hstep']
      simp only [bind, Except.bind]
      apply ih _ _ hpre' (hn.erase a)
      obtain ⟨v, hv, hvn⟩ := hbad
      rcases List.mem_cons.1 hv with e | e
      · exact absurd (e ▸ ha) hvn
      · exact ⟨v, e, by rw [keys_set]; exact hvn⟩
    · rw [hf st I a hpre]
      simp [allInitOne, Indeg.bump, lookup_none_of_not_mem I a ha, bind, Except.bind]

theorem count_targets (g : Graph) (hs : ∀ p ∈ g, p.2.Nodup) (v : Nat) :
    (g.flatMap (·.2)).count v = indegOf g [] v := by
  induction g with
  | nil => simp [indegOf]
  | cons a g ih =>
    rw [List.flatMap_cons, List.count_append, ih (fun p hp => hs p (List.mem_cons_of_mem _ hp))]
    simp only [indegOf, List.countP_cons, List.not_mem_nil, not_false_eq_true, decide_true,
      Bool.true_and, decide_eq_true_eq]
    rw [(hs a (by simp)).count]
    omega

theorem lookup_init (g : Graph) (v : Nat) (hv : v ∈ keys g) : (Indeg.init g).lookup v = some 0 := by
  induction g with
  | nil => simp [keys] at hv
  | cons a g ih =>
    simp only [Indeg.init, List.map_cons, List.lookup_cons]
    by_cases e : v = a.1
    · simp [e]
    · have e' : (v == a.1) = false := by simpa using e
      rw [e']
      simp only [keys, List.map_cons, List.mem_cons] at hv
      rcases hv with h | h
      · exact absurd h e
      · exact ih h

theorem keys_init (g : Graph) : (Indeg.init g).map (·.1) = keys g := by
  simp [Indeg.init, keys]

theorem init_spec {g : Graph} (hwf : WF g)
    (f : List Nat × Indeg → Nat → Except Err (List Nat × Indeg))
    (hf : ∀ st I a, InitPre st I → f (st, I) a = allInitOne (st, I) a) :
    ∃ starts I, g.foldlM (fun st p => p.2.foldlM f st) (keys g, Indeg.init g) = .ok (starts, I) ∧
      Inv g [] starts I := by
  obtain ⟨hk, hwf2⟩ := hwf
  have hpre : InitPre (keys g) (Indeg.init g) := by
    intro v x hx
    have hv : v ∈ keys g := keys_init g ▸ mem_of_lookup_some _ v x hx
    rw [lookup_init g v hv] at hx
    simp only [Option.some.injEq] at hx
    subst hx
    simp [hv]
  obtain ⟨st', I', h1, h2, h3, h4, h5⟩ := initFold_spec f hf (g.flatMap (·.2)) (keys g)
    (Indeg.init g) hpre hk (by
      intro v hv
      rw [keys_init]
      obtain ⟨p, hp, hvp⟩ := List.mem_flatMap.1 hv
      exact (hwf2 p hp).2 v hvp)
  refine ⟨st', I', by rw [foldlM_nested]; exact h1, ?_⟩
  refine ⟨h2.trans (keys_init g), ?_, h4, ?_, by simp, by simp, by simp⟩
  · intro v hv
    rw [h3 v, lookup_init g v hv, count_targets g (fun p hp => (hwf2 p hp).1)]
    simp
  · intro v
    rw [h5 v]
    simp only [Ready, List.not_mem_nil, not_false_eq_true, true_and, List.mem_flatMap, not_exists,
      not_and, imp_false]

theorem allInit_spec {g : Graph} (hwf : WF g) :
    ∃ starts I, allInit g = .ok (starts, I) ∧ Inv g [] starts I :=
  init_spec hwf allInitOne (fun _ _ _ _ => rfl)

theorem kahnInit_spec {g : Graph} (hwf : WF g) :
    ∃ starts I, kahnInit g = .ok (starts, I) ∧ Inv g [] starts I :=
  init_spec hwf kahnInitOne kahnInitOne_eq

theorem init_err {g : Graph} (hk : (keys g).Nodup) (hbad : ∃ p ∈ g, ∃ v ∈ p.2, v ∉ keys g)
    (f : List Nat × Indeg → Nat → Except Err (List Nat × Indeg))
    (hf : ∀ st I a, InitPre st I → f (st, I) a = allInitOne (st, I) a) :
    g.foldlM (fun st p => p.2.foldlM f st) (keys g, Indeg.init g) = .error .keyError := by
  have hpre : InitPre (keys g) (Indeg.init g) := by
    intro v x hx
    have hv : v ∈ keys g := keys_init g ▸ mem_of_lookup_some _ v x hx
    rw [lookup_init g v hv] at hx
    simp only [Option.some.injEq] at hx
    subst hx
    simp [hv]
  rw [foldlM_nested]
  apply initFold_err f hf _ _ _ hpre hk
  obtain ⟨p, hp, v, hv, hvn⟩ := hbad
  exact ⟨v, List.mem_flatMap.2 ⟨p, hp, hv⟩, by rw [keys_init]; exact hvn⟩

/-- A successor that is not a key: both routines raise `KeyError`. -/
theorem malformed_keyError {g : Graph} (hk : (keys g).Nodup)
    (hbad : ∃ p ∈ g, ∃ v ∈ p.2, v ∉ keys g) :
    toposortAll g = .error .keyError ∧ toposort g = .error .keyError := by
  constructor
  · have : allInit g = .error .keyError := init_err hk hbad allInitOne (fun _ _ _ _ => rfl)
    simp [toposortAll, this]
  · have : kahnInit g = .error .keyError := init_err hk hbad kahnInitOne kahnInitOne_eq
    simp [toposort, this]

theorem setAdd_fresh (ns : List Nat) (v : Nat) (h : v ∉ ns) : setAdd ns v = ns ++ [v] := by
  simp [setAdd, h]

/-! ### The backtracking enumeration -/

/-- Given the specification of the recursive calls, the `for node_from in
    starts` loop appends, for each `x`, the sub-results extended by `x`, and
    leaves the in-degree dictionary as it found it. -/
theorem btLoop_spec {g : Graph} (hwf : WF g) {done starts : List Nat} {I : Indeg}
    (hinv : Inv g done starts I)
    (rec : List Nat → Indeg → Except Err (List (List Nat) × Indeg))
    (hrec : ∀ x ns I', Inv g (x :: done) ns I' →
      ∃ rs, rec ns I' = .ok (rs, I') ∧ rs.Nodup ∧ ∀ r, r ∈ rs ↔ Greedy g (x :: done) r.reverse) :
    ∀ (l : List Nat) (acc : List (List Nat)), l.Nodup → (∀ x ∈ l, x ∈ starts) →
      ∃ rs, l.foldlM (btStep g rec starts) (acc, I) = .ok (acc ++ rs, I) ∧ rs.Nodup ∧
        ∀ r, r ∈ rs ↔ ∃ x ∈ l, ∃ r', r = r' ++ [x] ∧ Greedy g (x :: done) r'.reverse := by
  intro l
  induction l with
  | nil => intro acc _ _; exact ⟨[], by simp [pure, Except.pure], by simp, by simp⟩
  | cons x l ih =>
    intro acc hl hsub
    have hx : x ∈ starts := hsub x (by simp)
    obtain ⟨ss, hss, ns', I', hdec, hinv', hinc⟩ := inv_step hwf hinv hx (starts.erase x)
      (hinv.snodup.erase x) (fun v => by rw [hinv.snodup.mem_erase_iff]; tauto) setAdd setAdd_fresh
    obtain ⟨sub, hsubr, hsubn, hsubm⟩ := hrec x ns' I' hinv'
    have hstep : btStep g rec starts (acc, I) x = .ok (acc ++ sub.map (· ++ [x]), I) := by
      simp only [btStep, hss, hdec, hsubr, hinc]
    obtain ⟨rs', h1, h2, h3⟩ := ih (acc ++ sub.map (· ++ [x])) (List.nodup_cons.1 hl).2
      (fun y hy => hsub y (by simp [hy]))
    refine ⟨sub.map (· ++ [x]) ++ rs', ?_, ?_, ?_⟩
    · rw [List.foldlM_cons, hstep]
      simp only [bind, Except.bind]
      rw [h1, List.append_assoc]
    · rw [List.nodup_append]
      refine ⟨hsubn.map (List.append_left_injective [x]), h2, ?_⟩
      intro r hr r2 hr2 e
      subst e
      obtain ⟨r', _, hr'⟩ := List.mem_map.1 hr
      obtain ⟨y, hy, r'', hr'', _⟩ := (h3 r).1 hr2
      rw [← hr'] at hr''
      have := List.append_inj_right' hr'' rfl
      simp only [List.cons.injEq, and_true] at this
      subst this
      exact (List.nodup_cons.1 hl).1 hy
    · intro r
      rw [List.mem_append, h3 r, List.mem_map]
      constructor
      · rintro (⟨r', hr', e⟩ | ⟨y, hy, r', e, hg⟩)
        · exact ⟨x, by simp, r', e.symm, (hsubm r').1 hr'⟩
        · exact ⟨y, by simp [hy], r', e, hg⟩
      · rintro ⟨y, hy, r', e, hg⟩
        rcases List.mem_cons.1 hy with h | h
        · subst h; exact Or.inl ⟨r', (hsubm r').2 hg, e.symm⟩
        · exact Or.inr ⟨y, h, r', e, hg⟩

/-- `_toposort_all_bt` enumerates, each exactly once and reversed, the
    maximal removal sequences from the current state, restores the in-degree
    dictionary, and `g.length - done.length + 1` units of fuel suffice. -/
theorem bt_spec {g : Graph} (hwf : WF g) : ∀ (fuel : Nat) (done starts : List Nat) (I : Indeg),
    Inv g done starts I → g.length - done.length < fuel →
    ∃ rs, bt g fuel starts I = .ok (rs, I) ∧ rs.Nodup ∧ ∀ r, r ∈ rs ↔ Greedy g done r.reverse := by
  intro fuel
  induction fuel with
  | zero => intro _ _ _ _ h; omega
  | succ fuel ih =>
    intro done starts I hinv hfuel
    cases hst : starts with
    | nil =>
      subst hst
      refine ⟨[[]], by rw [bt], by simp, ?_⟩
      intro r
      simp only [List.mem_singleton]
      constructor
      · intro e; subst e
        intro v hv
        exact absurd ((hinv.smem v).2 hv) (by simp)
      · intro hg
        cases hr : r.reverse with
        | nil => simpa using hr
        | cons v s =>
          rw [hr] at hg
          exact absurd ((hinv.smem v).2 hg.1) (by simp)
    | cons x0 t =>
      have hrec : ∀ x ns I', Inv g (x :: done) ns I' →
          ∃ rs, bt g fuel ns I' = .ok (rs, I') ∧ rs.Nodup ∧
            ∀ r, r ∈ rs ↔ Greedy g (x :: done) r.reverse := by
        intro x ns I' hinv'
        apply ih (x :: done) ns I' hinv'
        have := hinv'.dnodup.length_le_of_subset (l₂ := keys g) (fun v hv => hinv'.dkeys v hv)
        simp [keys] at this
        simp only [List.length_cons]
        omega
      obtain ⟨rs, h1, h2, h3⟩ := btLoop_spec hwf hinv (bt g fuel) hrec starts [] hinv.snodup
        (fun _ h => h)
      refine ⟨rs, ?_, h2, ?_⟩
      · rw [bt, ← hst]; simpa using h1
      · intro r
        rw [h3 r]
        constructor
        · rintro ⟨x, hx, r', e, hg⟩
          subst e
          simp only [List.reverse_append, List.reverse_cons, List.reverse_nil, List.nil_append,
            List.singleton_append]
          exact ⟨(hinv.smem x).1 hx, hg⟩
        · intro hg
          cases hr : r.reverse with
          | nil =>
            rw [hr] at hg
            exact absurd ((hinv.smem x0).1 (by simp [hst])) (hg x0)
          | cons v s =>
            rw [hr] at hg
            refine ⟨v, (hinv.smem v).2 hg.1, s.reverse, List.reverse_eq_cons_iff.1 hr, ?_⟩
            simpa using hg.2

theorem checkRev_eq (n : Nat) (rs : List (List Nat)) :
    checkRev n rs = if ∀ r ∈ rs, r.length = n then some (rs.map List.reverse) else none := by
  induction rs with
  | nil => simp [checkRev]
  | cons r rs ih =>
    simp only [checkRev, ih]
    by_cases e : r.length = n
    · by_cases e2 : ∀ r ∈ rs, r.length = n
      · rw [if_pos e2]; simp only [e, ne_eq, not_true_eq_false, if_false, List.mem_cons, forall_eq_or_imp, true_and, List.map_cons]; rw [if_pos e2]
      · rw [if_neg e2]; simp [e, e2]
    · simp [e]

/-- `toposort_all` on a well-formed graph: no error, and the result lists
    each topological ordering exactly once. -/
theorem toposortAll_spec {g : Graph} (hwf : WF g) :
    ∃ os, toposortAll g = .ok os ∧ os.Nodup ∧ ∀ o, o ∈ os ↔ IsTopo g o := by
  obtain ⟨starts, I, hinit, hinv⟩ := allInit_spec hwf
  obtain ⟨rs, hbt, hn, hm⟩ := bt_spec hwf (g.length + 1) [] starts I hinv (by simp)
  refine ⟨(checkRev g.length rs).getD [], by simp [toposortAll, hinit, hbt], ?_, ?_⟩
  · rw [checkRev_eq]
    split
    · exact hn.map List.reverse_injective
    · simp
  · intro o
    rw [checkRev_eq]
    constructor
    · intro ho
      split at ho
      · rename_i hall
        obtain ⟨r, hr, e⟩ := List.mem_map.1 ho
        subst e
        exact greedy_full_isTopo hwf.succ_keys ((hm r).1 hr) (by simp [hall r hr])
      · simp at ho
    · intro ht
      have hall : ∀ r ∈ rs, r.length = g.length := by
        intro r hr
        have := greedy_full hwf.1 ht ((hm r).1 hr)
        simpa using this
      rw [if_pos hall]
      simp only [Option.getD_some, List.mem_map]
      exact ⟨o.reverse, (hm _).2 (by simpa using isTopo_greedy ht), by simp⟩

/-! ### Kahn's algorithm -/

theorem kahnLoop_spec {g : Graph} (hwf : WF g) : ∀ (fuel : Nat) (done starts : List Nat) (I : Indeg)
    (result : List Nat), Inv g done starts I → g.length - done.length < fuel →
    ∃ s, kahnLoop g fuel starts I result = .ok (result ++ s) ∧ Greedy g done s := by
  intro fuel
  induction fuel with
  | zero => intro _ _ _ _ _ h; omega
  | succ fuel ih =>
    intro done starts I result hinv hfuel
    cases hst : starts with
    | nil =>
      subst hst
      refine ⟨[], by simp [kahnLoop], ?_⟩
      intro v hv
      exact absurd ((hinv.smem v).2 hv) (by simp)
    | cons x rest =>
      subst hst
      have hnd := List.nodup_cons.1 hinv.snodup
      obtain ⟨ss, hss, ns', I', hdec, hinv', _⟩ := inv_step hwf hinv (x := x) (by simp) rest hnd.2
        (fun v => by
          simp only [List.mem_cons]
          constructor
          · intro h; exact ⟨Or.inr h, fun e => hnd.1 (e ▸ h)⟩
          · rintro ⟨h | h, hne⟩
            · exact absurd h hne
            · exact h)
        pushBack (fun _ _ _ => rfl)
      have hlen : g.length - (x :: done).length < fuel := by
        have := hinv'.dnodup.length_le_of_subset (l₂ := keys g) (fun v hv => hinv'.dkeys v hv)
        simp [keys] at this
        simp only [List.length_cons]
        omega
      obtain ⟨s, h1, h2⟩ := ih (x :: done) ns' I' (result ++ [x]) hinv' hlen
      refine ⟨x :: s, ?_, (hinv.smem x).1 (by simp), h2⟩
      simp only [kahnLoop, hss, hdec]
      rw [h1]; simp

/-- `toposort` on a well-formed graph: no error; a returned ordering is
    topological; `None` is returned exactly when there is none. -/
theorem toposort_spec {g : Graph} (hwf : WF g) :
    ∃ r, toposort g = .ok r ∧ (∀ o, r = some o → IsTopo g o) ∧
      (r = none ↔ ¬ ∃ o, IsTopo g o) := by
  obtain ⟨starts, I, hinit, hinv⟩ := kahnInit_spec hwf
  obtain ⟨s, hloop, hg⟩ := kahnLoop_spec hwf (g.length + 1) [] starts I [] hinv (by simp)
  simp only [List.nil_append] at hloop
  refine ⟨if s.length = g.length then some s else none, by simp [toposort, hinit, hloop], ?_, ?_⟩
  · intro o ho
    split at ho
    · rename_i hlen
      simp only [Option.some.injEq] at ho
      subst ho
      exact greedy_full_isTopo hwf.succ_keys hg hlen
    · simp at ho
  · constructor
    · intro hnone
      rintro ⟨o, ht⟩
      rw [if_pos (greedy_full hwf.1 ht hg)] at hnone
      simp at hnone
    · intro hno
      split
      · rename_i hlen
        exact absurd ⟨s, greedy_full_isTopo hwf.succ_keys hg hlen⟩ hno
      · rfl

end SR.Toposort
