/-
  C14, anchors — part 2: the invariant `J` of `LayoutAnchorsState.lean` is
  preserved by every successful step of `_compute_branches`, hence holds of
  the final `layout_state` of a valid reconciliation on a binary species tree.
-/
import SRVerif.Proofs.LayoutAnchorsState

namespace SR.Layout

open SR

/-! ### `anchor_nodes.remove`, a posteriori -/

theorem removeAnchor_inv {st st' : LState} {s : Path} {k : Key}
    (h : removeAnchor st s k = .ok st') :
    ∃ x, getSp st s = some x ∧ k ∈ x.anchors ∧
      st' = modifySp (fun y => { y with anchors := y.anchors.erase k }) st s := by
  unfold removeAnchor at h
  cases hx : getSp st s with
  | none => simp [hx] at h
  | some x =>
    simp only [hx, setRemove] at h
    by_cases hk : k ∈ x.anchors
    · simp only [hk, if_true, Except.ok.injEq] at h
      refine ⟨x, rfl, hk, ?_⟩
      rw [← h]
      exact modifySp_congr hx rfl
    · simp [hk] at h

theorem removeAnchor_modify {st st' : LState} {s : Path} {k : Key} {x : SpState}
    (f : SpState → SpState) (hx : getSp st s = some x)
    (h : removeAnchor (modifySp f st s) s k = .ok st') :
    k ∈ (f x).anchors ∧
      st' = modifySp ((fun y => { y with anchors := y.anchors.erase k }) ∘ f) st s := by
  obtain ⟨y, hy, hk, rfl⟩ := removeAnchor_inv h
  rw [getSp_modifySp] at hy
  simp only [if_true, hx, Option.map_some, Option.some.injEq] at hy
  subst hy
  exact ⟨hk, modifySp_modifySp _ _ _ _⟩

/-! ### One chain -/

theorem chain_J {S : RTree} {sol : Sol} {st st' : LState} {g start : Path} {e : Option Path}
    {k : Key} (h : addLosses st g start e = .ok (st', k)) (hJ : J S sol st)
    (hnode : S.isNode start = true) (hsp : spOfSol sol g = some start) :
    J S sol st' ∧ Grow st st' ∧ k.lin = g ∧
      (∀ e0 j m, e = some e0 → start = e0 ++ j :: m → TopKey sol st' g (e0 ++ [j]) k) := by
  unfold addLosses at h
  have := loop_J (S := S) (sol := sol) g e start.reverse st (.gene g) st' k h hJ
    (by rw [List.reverse_reverse]; exact hnode)
    (by rw [List.reverse_reverse]; exact .inl ⟨rfl, hsp⟩)
  simpa only [List.reverse_reverse] using this

/-! ### Geometry of a speciation -/

theorem lcp_append_left (s a b : Path) : Path.lcp (s ++ a) (s ++ b) = s ++ Path.lcp a b := by
  induction s with
  | nil => rfl
  | cons x s ih => simp [Path.lcp, ih]

theorem ev_spec_lcp {s a b : Path} (h : internalEvent s a b = .spec) : s = Path.lcp a b := by
  unfold internalEvent at h
  split at h
  · cases h
  · split at h
    · split at h
      · rename_i h3
        simp only [Bool.and_eq_true, beq_iff_eq] at h3
        exact h3.1
      · cases h
    · split at h <;> cases h

/-- The two children of a speciation at `s` sit below the two children
    `s ++ [0]`, `s ++ [1]` of `s` (binary species tree), one each. -/
theorem spec_sides {S : RTree} (hbin : S.isBinary = true) {s a b : Path}
    (hE : internalEvent s a b = .spec) (ha : S.isNode a = true) (hb : S.isNode b = true) :
    ∃ ja ma jb mb, a = s ++ ja :: ma ∧ b = s ++ jb :: mb ∧ ja ≠ jb ∧ (ja = 0 ∨ ja = 1) ∧
      (jb = 0 ∨ jb = 1) := by
  obtain ⟨h1, h2, h3, h4⟩ := ev_spec hE
  obtain ⟨ma, hma, rfl⟩ := strict_split h1 h2
  obtain ⟨mb, hmb, rfl⟩ := strict_split h3 h4
  have hl := ev_spec_lcp hE
  rw [lcp_append_left] at hl
  cases ma with
  | nil => exact absurd rfl hma
  | cons ja ma =>
    cases mb with
    | nil => exact absurd rfl hmb
    | cons jb mb =>
      refine ⟨ja, ma, jb, mb, rfl, rfl, ?_, ?_, ?_⟩
      · intro hj
        subst hj
        simp only [Path.lcp, beq_self_eq_true, if_true] at hl
        have := congrArg List.length hl
        simp at this
      · have : S.isNode (s ++ [ja]) = true :=
          RTree.isNode_of_prefix _ _ S (by
            rw [show s ++ ja :: ma = (s ++ [ja]) ++ ma by simp]; exact List.prefix_append _ _) ha
        exact (RTree.binary_child hbin this).1
      · have : S.isNode (s ++ [jb]) = true :=
          RTree.isNode_of_prefix _ _ S (by
            rw [show s ++ jb :: mb = (s ++ [jb]) ++ mb by simp]; exact List.prefix_append _ _) hb
        exact (RTree.binary_child hbin this).1

theorem isAnc_child_iff (s : Path) (j : Nat) (m : Path) :
    Path.isAnc (s ++ [0]) (s ++ j :: m) = true ↔ j = 0 := by
  rw [Path.isAnc_iff_prefix, List.prefix_append_right_inj]
  simp only [List.cons_prefix_cons, List.nil_prefix, and_true]
  exact eq_comm

/-! ### One object node -/

theorem lin_ne_gene {k : Key} {p : Path} {c : Nat} (h : k.lin = p ++ [c]) : k ≠ .gene p := by
  rintro rfl
  simp only [Key.lin] at h
  have := congrArg List.length h
  simp at this

theorem spOfSol_child {sol : Sol} {p : Path} {sp : Path} {f : List Nat} {l r : Sol}
    (h : subAt sol p = some (.node sp f l r)) :
    spOfSol sol (p ++ [0]) = some l.sp ∧ spOfSol sol (p ++ [1]) = some r.sp := by
  obtain ⟨h0, h1⟩ := subAt_child h
  simp [spOfSol_eq, h0, h1]

/-- The last operations of a step, in closed form: append `nb`, add its key
    to the anchors and apply `f` (removals) to the anchors. -/
theorem finish_step {st : LState} {s : Path} {x : SpState} (nb : Branch)
    (F : SpState → SpState) (hx : getSp st s = some x)
    (hb : (F x).branches = x.branches ++ [nb])
    (ha : ∀ k, k ∈ (F x).anchors → k ∈ x.anchors ∨ k = nb.key) :
    Step st (modifySp F st s) s [nb] := by
  apply Step.ofModify F [nb] hx hb
  intro k hk
  rcases ha k hk with h | h
  · exact .inl h
  · right; simp [keysOf, h]

theorem processGene_J {S : RTree} {sol : Sol} (hbin : S.isBinary = true) (hgood : Good S sol)
    {st st' : LState} {s p : Path} {sub : Sol} (hsub : subAt sol p = some sub) (hsp : sub.sp = s)
    (hs : s ∈ skeys st) (hJ : J S sol st) (h : processGene st s p sub = .ok st') :
    J S sol st' ∧ Grow st st' := by
  cases sub with
  | leaf sp f =>
    obtain ⟨x, hx⟩ := getSp_some_of_mem hs
    simp only [processGene, Except.ok.injEq] at h
    rw [modifySp_modifySp] at h
    subst h
    have hstep := finish_step (st := st) (s := s) ⟨.gene p, .leaf, none, none⟩
      (addBranch ⟨.gene p, .leaf, none, none⟩ ∘ addAnchor (.gene p)) hx rfl
      (by intro k hk; simpa [addBranch, addAnchor, mem_setAdd] using hk)
    refine ⟨hJ.step hstep ((hJ.ord s).snoc (by simp [Needs])) ?_, hstep.grow⟩
    intro b hb
    simp only [List.mem_singleton] at hb
    subst hb
    simp [Linked]
  | node sp f l r =>
    simp only [Sol.sp] at hsp
    subst hsp
    obtain ⟨hl, hr⟩ := subAt_child hsub
    obtain ⟨hspl, hspr⟩ := spOfSol_child hsub
    have hnl : S.isNode l.sp = true := (hgood _ l hl).1
    have hnr : S.isNode r.sp = true := (hgood _ r hr).1
    simp only [processGene] at h
    cases hE : internalEvent sp l.sp r.sp with
    | leaf => simp [hE] at h
    | invalid => simp [hE] at h
    | spec =>
      simp only [hE] at h
      obtain ⟨ja, ma, jb, mb, hla, hrb, hne, hja, hjb⟩ := spec_sides hbin hE hnl hnr
      -- the two chains, whatever their order
      have key : ∀ (g1 g2 s1 s2 : Path) (m1 m2 : Path) (c1 c2 : Nat),
          g1 = p ++ [c1] → g2 = p ++ [c2] →
          spOfSol sol g1 = some s1 → spOfSol sol g2 = some s2 → S.isNode s1 = true →
          S.isNode s2 = true → s1 = sp ++ 0 :: m1 → s2 = sp ++ 1 :: m2 →
          (match addLosses st g1 s1 (some sp) with
            | .error e => .error e
            | .ok (st1, k1) =>
              match addLosses st1 g2 s2 (some sp) with
              | .error e => .error e
              | .ok (st2, k2) =>
                .ok (modifySp (addBranch ⟨.gene p, .spec, some k1, some k2⟩)
                      (modifySp (addAnchor (.gene p)) st2 sp) sp)) = Except.ok st' →
          J S sol st' ∧ Grow st st' := by
        intro g1 g2 s1 s2 m1 m2 c1 c2 hg1 hg2 hsp1 hsp2 hn1 hn2 hs1 hs2 h
        cases a1 : addLosses st g1 s1 (some sp) with
        | error e => simp [a1] at h
        | ok r1 =>
          obtain ⟨st1, k1⟩ := r1
          simp only [a1] at h
          cases a2 : addLosses st1 g2 s2 (some sp) with
          | error e => simp [a2] at h
          | ok r2 =>
            obtain ⟨st2, k2⟩ := r2
            simp only [a2, Except.ok.injEq] at h
            obtain ⟨J1, G1, _, T1⟩ := chain_J a1 hJ hn1 hsp1
            obtain ⟨J2, G2, _, T2⟩ := chain_J a2 J1 hn2 hsp2
            have hs2' : sp ∈ skeys st2 := by rw [G2.keys, G1.keys]; exact hs
            obtain ⟨x, hx⟩ := getSp_some_of_mem hs2'
            rw [modifySp_modifySp] at h
            subst h
            have hstep := finish_step (st := st2) (s := sp) ⟨.gene p, .spec, some k1, some k2⟩
              (addBranch ⟨.gene p, .spec, some k1, some k2⟩ ∘ addAnchor (.gene p)) hx
              rfl (by intro k hk; simpa [addBranch, addAnchor, mem_setAdd] using hk)
            refine ⟨J2.step hstep ((J2.ord sp).snoc (by simp [Needs])) ?_,
              (G1.trans G2).trans hstep.grow⟩
            intro b hb
            simp only [List.mem_singleton] at hb
            subst hb
            unfold Linked
            simp only
            have hn0 : S.isNode (sp ++ [0]) = true :=
              RTree.isNode_of_prefix _ _ S (by
                rw [hs1, show sp ++ 0 :: m1 = (sp ++ [0]) ++ m1 by simp]
                exact List.prefix_append _ _) hn1
            refine ⟨p, c1, c2, k1, k2, rfl, rfl, rfl, hn0, ?_, ?_⟩
            · rw [← hg1]
              exact ((T1 sp 0 m1 rfl hs1).mono G2).mono hstep.grow
            · rw [← hg2]
              exact (T2 sp 1 m2 rfl hs2).mono hstep.grow
      by_cases hsw : Path.isAnc (sp ++ [0]) r.sp = true
      · simp only [hsw, if_true] at h
        have hjb0 : jb = 0 := by rw [hrb] at hsw; exact (isAnc_child_iff _ _ _).1 hsw
        subst hjb0
        have hja1 : ja = 1 := by
          rcases hja with h0 | h1
          · exact absurd h0 hne
          · exact h1
        subst hja1
        exact key (p ++ [1]) (p ++ [0]) r.sp l.sp mb ma 1 0 rfl rfl hspr hspl hnr hnl hrb hla h
      · have hsw' : Path.isAnc (sp ++ [0]) r.sp = false := by simpa using hsw
        simp only [hsw', Bool.false_eq_true, if_false] at h
        have hjb1 : jb = 1 := by
          rcases hjb with h0 | h1
          · exfalso; apply hsw; rw [hrb, h0]; exact (isAnc_child_iff _ _ _).2 rfl
          · exact h1
        subst hjb1
        have hja0 : ja = 0 := by
          rcases hja with h0 | h1
          · exact h0
          · exact absurd h1 hne
        subst hja0
        exact key (p ++ [0]) (p ++ [1]) l.sp r.sp ma mb 0 1 rfl rfl hspl hspr hnl hnr hla hrb h
    | dup =>
      simp only [hE] at h
      cases a1 : addLosses st (p ++ [0]) l.sp (Path.up sp) with
      | error e => simp [a1] at h
      | ok r1 =>
        obtain ⟨st1, k1⟩ := r1
        simp only [a1] at h
        cases a2 : addLosses st1 (p ++ [1]) r.sp (Path.up sp) with
        | error e => simp [a2] at h
        | ok r2 =>
          obtain ⟨st2, k2⟩ := r2
          simp only [a2] at h
          obtain ⟨J1, G1, L1, _⟩ := chain_J a1 hJ hnl hspl
          obtain ⟨J2, G2, L2, _⟩ := chain_J a2 J1 hnr hspr
          have hs2' : sp ∈ skeys st2 := by rw [G2.keys, G1.keys]; exact hs
          obtain ⟨x, hx⟩ := getSp_some_of_mem hs2'
          cases a3 : removeAnchor (modifySp (addAnchor (.gene p)) st2 sp) sp k1 with
          | error e => simp [a3] at h
          | ok st3 =>
            simp only [a3] at h
            obtain ⟨hk1, rfl⟩ := removeAnchor_modify _ hx a3
            cases a4 : removeAnchor (modifySp
                ((fun y : SpState => { y with anchors := y.anchors.erase k1 }) ∘
                  addAnchor (.gene p)) st2 sp) sp k2 with
            | error e => simp [a4] at h
            | ok st4 =>
              simp only [a4, Except.ok.injEq] at h
              obtain ⟨hk2, rfl⟩ := removeAnchor_modify _ hx a4
              rw [modifySp_modifySp] at h
              subst h
              have hk1' : k1 ∈ keysOf (brs st2 sp) := by
                simp only [addAnchor, mem_setAdd] at hk1
                rcases hk1 with hk1 | hk1
                · exact J2.anc sp k1 (by rw [ancs_of_getSp hx]; exact hk1)
                · exact absurd hk1 (lin_ne_gene L1)
              have hk2' : k2 ∈ keysOf (brs st2 sp) := by
                simp only [Function.comp, addAnchor] at hk2
                have hk2 := List.mem_of_mem_erase hk2
                rw [mem_setAdd] at hk2
                rcases hk2 with hk2 | hk2
                · exact J2.anc sp k2 (by rw [ancs_of_getSp hx]; exact hk2)
                · exact absurd hk2 (lin_ne_gene L2)
              have hstep := finish_step (st := st2) (s := sp) ⟨.gene p, .dup, some k1, some k2⟩
                (addBranch ⟨.gene p, .dup, some k1, some k2⟩ ∘
                  ((fun y : SpState => { y with anchors := y.anchors.erase k2 }) ∘
                  ((fun y : SpState => { y with anchors := y.anchors.erase k1 }) ∘
                  addAnchor (.gene p))))
                hx rfl (by
                  intro k hk
                  simp only [Function.comp, addBranch, addAnchor] at hk
                  have hk := List.mem_of_mem_erase (List.mem_of_mem_erase hk)
                  simpa [mem_setAdd] using hk)
              refine ⟨J2.step hstep ((J2.ord sp).snoc ?_) ?_, (G1.trans G2).trans hstep.grow⟩
              · simp only [Needs]
                exact ⟨k1, k2, rfl, rfl, hk1', hk2'⟩
              · intro b hb
                simp only [List.mem_singleton] at hb
                subst hb
                unfold Linked
                simp only
    | hgt =>
      simp only [hE] at h
      -- one chain for the conserved child, whichever it is
      have key : ∀ (gc sc gf : Path) (c : Nat), gc = p ++ [c] → spOfSol sol gc = some sc →
          S.isNode sc = true →
          (match addLosses st gc sc (Path.up sp) with
            | .error e => .error e
            | .ok (st1, k1) =>
              match removeAnchor (modifySp (addAnchor (.gene p)) st1 sp) sp k1 with
              | .error e => .error e
              | .ok st2 =>
                .ok (modifySp (addBranch ⟨.gene p, .hgt, some k1, some (.gene gf)⟩) st2 sp))
            = Except.ok st' →
          J S sol st' ∧ Grow st st' := by
        intro gc sc gf c hgc hspc hnc h
        cases a1 : addLosses st gc sc (Path.up sp) with
        | error e => simp [a1] at h
        | ok r1 =>
          obtain ⟨st1, k1⟩ := r1
          simp only [a1] at h
          obtain ⟨J1, G1, L1, _⟩ := chain_J a1 hJ hnc hspc
          have hs1' : sp ∈ skeys st1 := by rw [G1.keys]; exact hs
          obtain ⟨x, hx⟩ := getSp_some_of_mem hs1'
          cases a3 : removeAnchor (modifySp (addAnchor (.gene p)) st1 sp) sp k1 with
          | error e => simp [a3] at h
          | ok st3 =>
            simp only [a3, Except.ok.injEq] at h
            obtain ⟨hk1, rfl⟩ := removeAnchor_modify _ hx a3
            rw [modifySp_modifySp] at h
            subst h
            have hk1' : k1 ∈ keysOf (brs st1 sp) := by
              simp only [addAnchor, mem_setAdd] at hk1
              rcases hk1 with hk1 | hk1
              · exact J1.anc sp k1 (by rw [ancs_of_getSp hx]; exact hk1)
              · exact absurd hk1 (lin_ne_gene (hgc ▸ L1))
            have hstep := finish_step (st := st1) (s := sp)
              ⟨.gene p, .hgt, some k1, some (.gene gf)⟩
              (addBranch ⟨.gene p, .hgt, some k1, some (.gene gf)⟩ ∘
                ((fun y : SpState => { y with anchors := y.anchors.erase k1 }) ∘
                addAnchor (.gene p))) hx rfl (by
                intro k hk
                simp only [Function.comp, addBranch, addAnchor] at hk
                have hk := List.mem_of_mem_erase hk
                simpa [mem_setAdd] using hk)
            refine ⟨J1.step hstep ((J1.ord sp).snoc ?_) ?_, G1.trans hstep.grow⟩
            · simp only [Needs]
              exact ⟨k1, rfl, hk1'⟩
            · intro b hb
              simp only [List.mem_singleton] at hb
              subst hb
              unfold Linked
              simp only
      by_cases hk : Path.isAnc sp l.sp = true
      · simp only [hk, if_true] at h
        exact key (p ++ [0]) l.sp (p ++ [1]) 0 rfl hspl hnl h
      · have hk' : Path.isAnc sp l.sp = false := by simpa using hk
        simp only [hk', Bool.false_eq_true, if_false] at h
        exact key (p ++ [1]) r.sp (p ++ [0]) 1 rfl hspr hnr h

/-! ### The two loops -/

theorem processGenes_J {S : RTree} {sol : Sol} (hbin : S.isBinary = true) (hgood : Good S sol)
    (s : Path) : ∀ (l : List (Path × Sol)) (st st' : LState),
      (∀ e ∈ l, subAt sol e.1 = some e.2) → s ∈ skeys st → J S sol st →
      processGenes s l st = .ok st' → J S sol st' ∧ Grow st st' := by
  intro l
  induction l with
  | nil =>
    intro st st' _ _ hJ h
    simp only [processGenes, Except.ok.injEq] at h
    subst h
    exact ⟨hJ, Grow.refl _⟩
  | cons e l ih =>
    intro st st' hl hs hJ h
    obtain ⟨p, sub⟩ := e
    simp only [processGenes] at h
    split at h
    · rename_i hsp
      cases a : processGene st s p sub with
      | error e => simp [a] at h
      | ok st1 =>
        simp only [a] at h
        obtain ⟨J1, G1⟩ := processGene_J hbin hgood (hl (p, sub) (List.mem_cons_self ..)) hsp hs hJ a
        obtain ⟨J2, G2⟩ := ih st1 st' (fun e he => hl e (List.mem_cons_of_mem _ he))
          (by rw [G1.keys]; exact hs) J1 h
        exact ⟨J2, G1.trans G2⟩
    · exact ih st st' (fun e he => hl e (List.mem_cons_of_mem _ he)) hs hJ h

theorem brs_create' (st : LState) (s t : Path) : brs (st ++ [(s, ⟨[], []⟩)]) t = brs st t := by
  unfold brs
  rw [getSp_append_new]
  cases hx : getSp st t with
  | some x => rfl
  | none => by_cases hst : s = t <;> simp [hst]

theorem ancs_create' (st : LState) (s t : Path) : ancs (st ++ [(s, ⟨[], []⟩)]) t = ancs st t := by
  unfold ancs
  rw [getSp_append_new]
  cases hx : getSp st t with
  | some x => rfl
  | none => by_cases hst : s = t <;> simp [hst]

theorem J.create {S : RTree} {sol : Sol} {st : LState} (hJ : J S sol st) (s : Path) :
    J S sol (st ++ [(s, ⟨[], []⟩)]) := by
  have hg : Grow st (st ++ [(s, ⟨[], []⟩)]) → True := fun _ => trivial
  refine ⟨?_, ?_, ?_⟩
  · intro t k hk
    rw [ancs_create'] at hk
    rw [brs_create']
    exact hJ.anc t k hk
  · intro t
    rw [brs_create']
    exact hJ.ord t
  · intro t b hb
    rw [brs_create'] at hb
    have := hJ.link t b hb
    -- `Linked` only looks at `brs`
    unfold Linked at this ⊢
    unfold TopKey at this ⊢
    simpa only [brs_create'] using this

theorem processSpecies_J {S : RTree} {sol : Sol} (hbin : S.isBinary = true) (hgood : Good S sol) :
    ∀ (rest : List Path) (st st' : LState), J S sol st → processSpecies sol rest st = .ok st' →
      J S sol st' := by
  intro rest
  induction rest with
  | nil =>
    intro st st' hJ h
    simp only [processSpecies, Except.ok.injEq] at h
    subst h
    exact hJ
  | cons s rest ih =>
    intro st st' hJ h
    simp only [processSpecies] at h
    cases a : processGenes s (genesPost sol []) (st ++ [(s, ⟨[], []⟩)]) with
    | error e => simp [a] at h
    | ok st1 =>
      simp only [a] at h
      have hmem : ∀ e ∈ genesPost sol [], subAt sol e.1 = some e.2 := by
        rintro ⟨p, sub⟩ he
        obtain ⟨q, rfl, hq⟩ := (mem_genesPost sol [] p sub).1 he
        simpa using hq
      obtain ⟨J1, _⟩ := processGenes_J hbin hgood s _ _ _ hmem (by simp [skeys]) (hJ.create s) a
      exact ih st1 st' J1 h

/-- The final `layout_state` satisfies the invariant. -/
theorem computeBranches_J {S : RTree} {sol : Sol} (hbin : S.isBinary = true) (hgood : Good S sol)
    {st : LState} (h : computeBranches S sol = .ok st) : J S sol st := by
  refine processSpecies_J hbin hgood S.postorder [] st ⟨?_, ?_, ?_⟩ h
  · intro t k hk; simp [ancs, getSp] at hk
  · intro t; simpa [brs, getSp] using OrdOK.nil
  · intro t b hb; simp [brs, getSp] at hb

end SR.Layout
