/-
  C15: the delimiter texts `\begin{tikzpicture}` / `\end{tikzpicture}` occur exactly once in the
  text `render` assembles.

  Why no hole filling can produce (or complete) a delimiter:
  `\begin{tikzpicture}` contains `n{t`, `\end{tikzpicture}` contains `d{t`.
  * A FILLING never contains a `{` right after `n` or `d`, and never starts with `{`
    (`noD`, a two-character scan): numbers, coordinates, lengths, colour names, keywords contain
    no brace at all; a label contains `{` only after `\textsubscript` or `\phantom`.
  * A LITERAL piece of a template may contain `n{` / `d{` as long as no `t` follows, and the piece
    in front of a hole must not end in `n{` / `d{` (`Template.delimFree`, decided on the
    regenerated templates: a three-state scan `drun` over the literal pieces, a hole leaving the
    scan in its worst admissible state).
  So the scan `drun` of an instantiated template never sees `(n|d){t` — also not across the
  boundaries between literal pieces and fillings — hence the text contains neither delimiter.
  Blocks are joined by a newline, which the delimiters do not contain, so occurrences in the
  joined text are occurrences inside blocks (`countOcc_intercalate`).
-/
import SRVerif.Generated.TikzObligations
import SRVerif.Proofs.TikzBraces
import SRVerif.Proofs.TikzRender
import SRVerif.Proofs.TikzDoc

namespace SR.Tikz

/-! ## Occurrences -/

theorem isPrefixOf_eq_true {p s : Str} (h : isPrefixOf p s = true) : ∃ b, s = p ++ b := by
  induction p generalizing s with
  | nil => exact ⟨s, rfl⟩
  | cons a p ih =>
    cases s with
    | nil => simp [isPrefixOf] at h
    | cons c s =>
      simp only [isPrefixOf, Bool.and_eq_true, beq_iff_eq] at h
      obtain ⟨b, rfl⟩ := ih h.2
      exact ⟨b, by rw [h.1]; rfl⟩

theorem isPrefixOf_self_append (p b : Str) : isPrefixOf p (p ++ b) = true := by
  induction p with
  | nil => rfl
  | cons a p ih => simp [isPrefixOf, ih]

/-- A counted occurrence is an occurrence. -/
theorem exists_of_countOcc_ne_zero {pat s : Str} (h : countOcc pat s ≠ 0) :
    ∃ a b, s = a ++ pat ++ b := by
  induction s with
  | nil => simp [countOcc] at h
  | cons c r ih =>
    simp only [countOcc] at h
    by_cases hp : isPrefixOf pat (c :: r) = true
    · obtain ⟨b, hb⟩ := isPrefixOf_eq_true hp
      exact ⟨[], b, by simpa using hb⟩
    · have : countOcc pat r ≠ 0 := by
        intro e; apply h; simp [hp, e]
      obtain ⟨a, b, rfl⟩ := ih this
      exact ⟨c :: a, b, by simp⟩

/-- A separator that the pattern does not contain cannot be inside an occurrence. -/
theorem isPrefixOf_append_sep {pat : Str} {c : Char} (hc : c ∉ pat) (x b : Str) :
    isPrefixOf pat (x ++ c :: b) = isPrefixOf pat x := by
  induction pat generalizing x with
  | nil => simp [isPrefixOf]
  | cons p ps ih =>
    have hpc : p ≠ c := fun e => hc (by simp [e])
    have hps : c ∉ ps := fun e => hc (List.mem_cons_of_mem _ e)
    cases x with
    | nil => simp [isPrefixOf, hpc]
    | cons y ys => simp [isPrefixOf, ih hps]

theorem countOcc_append_sep {pat : Str} {c : Char} (hc : c ∉ pat) (hne : pat ≠ []) (a b : Str) :
    countOcc pat (a ++ c :: b) = countOcc pat a + countOcc pat b := by
  induction a with
  | nil =>
    cases pat with
    | nil => exact absurd rfl hne
    | cons p ps =>
      have hpc : p ≠ c := fun e => hc (by simp [e])
      simp [countOcc, isPrefixOf, hpc]
  | cons y ys ih =>
    have h1 : isPrefixOf pat (y :: ys ++ c :: b) = isPrefixOf pat (y :: ys) :=
      isPrefixOf_append_sep hc (y :: ys) b
    simp only [List.cons_append] at h1
    simp only [List.cons_append, countOcc, ih, h1]
    omega

/-- **Occurrences in a joined text are the occurrences inside the blocks** when the joiner is a
    single character that the pattern does not contain. -/
theorem countOcc_intercalate {pat : Str} {c : Char} (hc : c ∉ pat) (hne : pat ≠ []) :
    ∀ blocks : List Str,
      countOcc pat (List.intercalate [c] blocks) = (blocks.map (countOcc pat)).sum
  | [] => by simp [List.intercalate, countOcc]
  | [x] => by
    have : List.intercalate [c] [x] = x := by simp [List.intercalate]
    simp [this]
  | x :: y :: ys => by
    have e : List.intercalate [c] (x :: y :: ys) = x ++ c :: List.intercalate [c] (y :: ys) := by
      simp [List.intercalate, List.intersperse]
    rw [e, countOcc_append_sep hc hne, countOcc_intercalate hc hne (y :: ys)]
    simp

theorem sum_map_eq_zero {α : Type} (f : α → Nat) (l : List α) (h : ∀ x ∈ l, f x = 0) :
    (l.map f).sum = 0 := by
  induction l with
  | nil => rfl
  | cons x xs ih =>
    simp only [List.map_cons, List.sum_cons]
    rw [h x (by simp), ih (fun y hy => h y (List.mem_cons_of_mem _ hy))]

/-! ## The scan -/

def isND (c : Char) : Bool := c == 'n' || c == 'd'

/-- State of the scan: nothing pending / the previous character is `n` or `d` / the previous two
    characters are `n{` or `d{`. -/
inductive DSt where
  | z | nd | br
  deriving DecidableEq, Repr

/-- One character; `none` when `(n|d){t` has just been completed. -/
def dstep : DSt → Char → Option DSt
  | .br, c => if c = 't' then none else if isND c then some .nd else some .z
  | .nd, c => if c = '{' then some .br else if isND c then some .nd else some .z
  | .z, c => if isND c then some .nd else some .z

def drun : DSt → Str → Option DSt
  | st, [] => some st
  | st, c :: r => match dstep st c with
    | none => none
    | some st' => drun st' r

theorem drun_append (st : DSt) (a b : Str) :
    drun st (a ++ b) = (drun st a).bind (fun st' => drun st' b) := by
  induction a generalizing st with
  | nil => simp [drun]
  | cons c r ih =>
    simp only [List.cons_append, drun]
    cases dstep st c with
    | none => simp
    | some st' => exact ih st'

/-- The scan fails on both delimiters, from every state. -/
theorem drun_beginPicture (st : DSt) : drun st beginPicture = none := by
  cases st <;> decide

theorem drun_endPicture (st : DSt) : drun st endPicture = none := by
  cases st <;> decide

theorem drun_occ_none {pat : Str} (hp : ∀ st, drun st pat = none) (st : DSt) (a b : Str) :
    drun st (a ++ pat ++ b) = none := by
  rw [List.append_assoc, drun_append]
  cases drun st a with
  | none => rfl
  | some st' =>
    simp only [Option.bind_some]
    rw [drun_append, hp st']; rfl

/-- **A text the scan accepts contains neither delimiter.** -/
theorem countOcc_eq_zero_of_drun {s : Str} {st st' : DSt} (h : drun st s = some st') :
    countOcc beginPicture s = 0 ∧ countOcc endPicture s = 0 := by
  constructor
  · apply Classical.byContradiction
    intro hne
    obtain ⟨a, b, rfl⟩ := exists_of_countOcc_ne_zero hne
    rw [drun_occ_none drun_beginPicture] at h; cases h
  · apply Classical.byContradiction
    intro hne
    obtain ⟨a, b, rfl⟩ := exists_of_countOcc_ne_zero hne
    rw [drun_occ_none drun_endPicture] at h; cases h

/-- `a` is at least as safe a state to continue from as `b`. -/
def DSt.le : DSt → DSt → Bool
  | .z, _ => true
  | .nd, .nd => true
  | .br, .br => true
  | _, _ => false

theorem DSt.le_refl (a : DSt) : a.le a = true := by cases a <;> rfl

theorem DSt.z_le (b : DSt) : DSt.le .z b = true := by cases b <;> rfl

theorem dstep_z (c : Char) : dstep .z c = some (if isND c then .nd else .z) := by
  simp only [dstep]; split <;> rfl

theorem dstep_mono {a b b' : DSt} {c : Char} (hab : a.le b = true) (h : dstep b c = some b') :
    ∃ a', dstep a c = some a' ∧ a'.le b' = true := by
  cases a with
  | nd => cases b <;> first | exact absurd hab (by decide) | exact ⟨b', h, DSt.le_refl _⟩
  | br => cases b <;> first | exact absurd hab (by decide) | exact ⟨b', h, DSt.le_refl _⟩
  | z =>
    cases b with
    | z => exact ⟨b', h, DSt.le_refl _⟩
    | nd =>
      by_cases hc : c = '{'
      · subst hc
        exact ⟨.z, by decide, DSt.z_le _⟩
      · refine ⟨b', ?_, DSt.le_refl _⟩
        rw [← h]; simp only [dstep, hc, if_false]
    | br =>
      by_cases hc : c = 't'
      · subst hc; simp [dstep] at h
      · refine ⟨b', ?_, DSt.le_refl _⟩
        rw [← h]; simp only [dstep, hc, if_false]

theorem drun_mono {a b b' : DSt} {s : Str} (hab : a.le b = true) (h : drun b s = some b') :
    ∃ a', drun a s = some a' ∧ a'.le b' = true := by
  induction s generalizing a b with
  | nil =>
    simp only [drun, Option.some.injEq] at h
    subst h
    exact ⟨a, rfl, hab⟩
  | cons c r ih =>
    simp only [drun] at h ⊢
    cases hb : dstep b c with
    | none => simp [hb] at h
    | some b1 =>
      simp only [hb] at h
      obtain ⟨a1, ha1, hle⟩ := dstep_mono hab hb
      simp only [ha1]
      exact ih hle h

/-! ## Fillings -/

/-- No `{` right after `n` or `d`; `prev`: the character in front is `n` or `d`. -/
def no2 : Bool → Str → Bool
  | _, [] => true
  | prev, c :: r => !(prev && c == '{') && no2 (isND c) r

/-- The condition on a hole filling: no `n{`, no `d{`, and no `{` in front. -/
def noD (s : Str) : Bool := no2 true s

theorem no2_mono {p : Bool} {s : Str} (h : no2 true s = true) : no2 p s = true := by
  cases s with
  | nil => rfl
  | cons c r =>
    simp only [no2, Bool.true_and, Bool.and_eq_true, Bool.not_eq_true'] at h ⊢
    refine ⟨?_, h.2⟩
    cases p <;> simp [h.1]

/-- Whatever comes first, a safe string can follow. -/
theorem no2_append {p : Bool} {a b : Str} (ha : no2 p a = true) (hb : no2 true b = true) :
    no2 p (a ++ b) = true := by
  induction a generalizing p with
  | nil => exact no2_mono hb
  | cons c r ih =>
    simp only [List.cons_append, no2, Bool.and_eq_true] at ha ⊢
    exact ⟨ha.1, ih ha.2⟩

theorem noD_append {a b : Str} (ha : noD a = true) (hb : noD b = true) : noD (a ++ b) = true :=
  no2_append ha hb

theorem no2_of_braceFree {p : Bool} {s : Str} (h : braceFree s = true) : no2 p s = true := by
  induction s generalizing p with
  | nil => rfl
  | cons c r ih =>
    simp only [braceFree, List.all_cons, Bool.and_eq_true, Bool.not_eq_true'] at h
    have hc : (c == '{') = false := by
      have := (isBrace_false_iff c).1 h.1
      simp [this.1]
    simp only [no2, hc, Bool.and_false, Bool.not_false, Bool.true_and]
    exact ih (by simpa [braceFree] using h.2)

theorem noD_of_braceFree {s : Str} (h : braceFree s = true) : noD s = true := no2_of_braceFree h

theorem noD_intercalate {sep : Str} (hs : noD sep = true) :
    ∀ ls : List Str, (∀ l ∈ ls, noD l = true) → noD (List.intercalate sep ls) = true
  | [], _ => rfl
  | [x], h => by
    have : List.intercalate sep [x] = x := by simp [List.intercalate]
    rw [this]; exact h x (by simp)
  | x :: y :: ys, h => by
    have e : List.intercalate sep (x :: y :: ys) = x ++ (sep ++ List.intercalate sep (y :: ys)) := by
      simp [List.intercalate, List.intersperse]
    rw [e]
    exact noD_append (h x (by simp)) (noD_append hs
      (noD_intercalate hs (y :: ys) (fun l hl => h l (List.mem_cons_of_mem _ hl))))

/-- A safe filling is accepted from the two states a hole can be entered in, and leaves the scan
    in one of them. -/
theorem drun_of_no2 {st : DSt} {p : Bool} {s : Str} (hst : st ≠ .br) (hp : st = .nd → p = true)
    (h : no2 p s = true) : ∃ st', drun st s = some st' ∧ st' ≠ .br := by
  induction s generalizing st p with
  | nil => exact ⟨st, rfl, hst⟩
  | cons c r ih =>
    simp only [no2, Bool.and_eq_true, Bool.not_eq_true'] at h
    simp only [drun]
    have hstep : dstep st c = some (if isND c then .nd else .z) := by
      cases st with
      | br => exact absurd rfl hst
      | z => simp only [dstep]; split <;> rfl
      | nd =>
        have hb : c ≠ '{' := by
          intro e; subst e; simp [hp rfl] at h
        simp only [dstep, hb, if_false]; split <;> rfl
    rw [hstep]
    by_cases hc : isND c = true
    · simp only [hc, if_true]
      exact ih (by decide) (fun _ => rfl) (by simpa [hc] using h.2)
    · simp only [hc]
      exact ih (by decide) (fun e => by cases e) h.2

theorem drun_of_noD {st : DSt} {s : Str} (hst : st ≠ .br) (h : noD s = true) :
    ∃ st', drun st s = some st' ∧ st' ≠ .br :=
  drun_of_no2 hst (fun _ => rfl) h

theorem le_nd_of_ne_br {st : DSt} (h : st ≠ .br) : st.le .nd = true := by
  cases st <;> simp_all [DSt.le]

/-- The fillings of every hole kind other than `label` contain no brace. -/
theorem noD_of_fillOK {k : HoleKind} {f : Str} (hk : Template.holeOK k = true) (hl : k ≠ .label)
    (hf : fillOK k f = true) : noD f = true := by
  apply noD_of_braceFree
  cases k with
  | coord => exact braceFree_of_all _ (by decide) (by decide) f hf
  | num => exact braceFree_of_all _ (by decide) (by decide) f hf
  | unit => exact hf
  | color => exact braceFree_of_all _ (by decide) (by decide) f hf
  | label => exact absurd rfl hl
  | index => exact braceFree_of_all _ (by decide) (by decide) f hf
  | html => exact braceFree_of_all _ (by decide) (by decide) f hf
  | kw cs =>
    simp only [Template.holeOK, Bool.and_eq_true, List.all_eq_true] at hk
    simp only [fillOK, List.contains_iff_mem] at hf
    exact hk.2 f hf
  | other => simp [fillOK] at hf

theorem noD_of_fillsOK {ks : List HoleKind} {fills : List Str}
    (hk : ∀ k ∈ ks, Template.holeOK k = true ∧ k ≠ .label) (hf : fillsOK ks fills = true) :
    ∀ f ∈ fills, noD f = true := by
  induction ks generalizing fills with
  | nil =>
    cases fills with
    | nil => intro f hf'; cases hf'
    | cons _ _ => simp [fillsOK] at hf
  | cons k ks ih =>
    cases fills with
    | nil => simp [fillsOK] at hf
    | cons f fs =>
      simp only [fillsOK, Bool.and_eq_true] at hf
      intro g hg
      rcases List.mem_cons.1 hg with rfl | hg
      · exact noD_of_fillOK (hk k (by simp)).1 (hk k (by simp)).2 hf.1
      · exact ih (fun k' hk' => hk k' (List.mem_cons_of_mem _ hk')) hf.2 g hg

/-! ## Templates -/

namespace Template

/-- The scan over the literal pieces; a hole must not be entered right after `n{` / `d{` and
    leaves the scan in the worst state a safe filling can leave it in. -/
def scanFrom : DSt → Template → Bool
  | _, [] => true
  | st, .lit s :: r => match drun st s with
    | none => false
    | some st' => scanFrom st' r
  | st, .hole _ :: r => st != .br && scanFrom .nd r

/-- No instance of the template with safe fillings contains a delimiter. -/
def delimFree (t : Template) : Bool := scanFrom .z t

end Template

theorem scanFrom_mono {a b : DSt} {t : Template} (hab : a.le b = true)
    (h : Template.scanFrom b t = true) : Template.scanFrom a t = true := by
  cases t with
  | nil => rfl
  | cons p r =>
    cases p with
    | lit s =>
      simp only [Template.scanFrom] at h ⊢
      cases hb : drun b s with
      | none => simp [hb] at h
      | some b' =>
        simp only [hb] at h
        obtain ⟨a', ha', hle⟩ := drun_mono hab hb
        simp only [ha']
        exact scanFrom_mono hle h
    | hole k =>
      simp only [Template.scanFrom, Bool.and_eq_true, bne_iff_ne, ne_eq] at h ⊢
      refine ⟨?_, h.2⟩
      intro e; subst e
      cases b <;> simp_all [DSt.le]
termination_by t.length

/-- **The scan of an instantiated template succeeds** when the scan of its literal skeleton does
    and every filling is safe. -/
theorem drun_instantiate {st : DSt} {t : Template} {fills : List Str}
    (ht : Template.scanFrom st t = true) (hf : ∀ f ∈ fills, noD f = true) :
    ∃ st', drun st (t.instantiate fills) = some st' := by
  induction t generalizing st fills with
  | nil => exact ⟨st, by cases fills <;> rfl⟩
  | cons p r ih =>
    cases p with
    | lit s =>
      simp only [Template.scanFrom] at ht
      cases hs : drun st s with
      | none => simp [hs] at ht
      | some st1 =>
        simp only [hs] at ht
        obtain ⟨st2, h2⟩ := ih ht hf
        refine ⟨st2, ?_⟩
        simp only [Template.instantiate]
        rw [drun_append, hs]; exact h2
    | hole k =>
      simp only [Template.scanFrom, Bool.and_eq_true, bne_iff_ne, ne_eq] at ht
      cases fills with
      | nil =>
        simp only [Template.instantiate]
        exact ih (scanFrom_mono (le_nd_of_ne_br ht.1) ht.2) hf
      | cons f fs =>
        obtain ⟨st1, h1, hne⟩ := drun_of_noD ht.1 (hf f (by simp))
        obtain ⟨st2, h2⟩ := ih (scanFrom_mono (le_nd_of_ne_br hne) ht.2)
          (fun g hg => hf g (List.mem_cons_of_mem _ hg))
        refine ⟨st2, ?_⟩
        simp only [Template.instantiate]
        rw [drun_append, h1]; exact h2

/-- Hence no delimiter in it. -/
theorem countOcc_instantiate {t : Template} {fills : List Str} (ht : t.delimFree = true)
    (hf : ∀ f ∈ fills, noD f = true) :
    countOcc beginPicture (t.instantiate fills) = 0 ∧
    countOcc endPicture (t.instantiate fills) = 0 := by
  obtain ⟨st', h⟩ := drun_instantiate ht hf
  exact countOcc_eq_zero_of_drun h

/-! ## The regenerated templates -/

namespace Generated

/-- Every statement template passes the scan. -/
theorem statements_delimFree : statements.all (fun s => s.2.delimFree) = true := by decide +kernel

theorem defs_delimFree :
    tmpl_defs_vertical.delimFree = true ∧ tmpl_defs_horizontal.delimFree = true := by
  decide +kernel

/-- The definitions templates have no label hole. -/
theorem defs_no_label :
    tmpl_defs_vertical.holes.all (fun k => Template.holeOK k && decide (k ≠ .label)) = true ∧
    tmpl_defs_horizontal.holes.all (fun k => Template.holeOK k && decide (k ≠ .label)) = true := by
  decide +kernel

theorem definecolor_delimFree : (stdDefinecolor colorPrefix).delimFree = true := by decide +kernel

end Generated

end SR.Tikz
