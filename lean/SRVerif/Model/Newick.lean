/-
  C11 — model of the Newick codec of ete3 3.1.3 as superrec2 uses it.

  * WRITER  `tree.write(format=8, format_root_node=True, features=["color"])`
    (`ete3/parser/newick.py: write_newick, format_node, _get_features_string`):
    names (leaf and internal, root included), no branch lengths, the NHX comment
    `[&&NHX:color=…]` on the nodes that have the feature.  Characters of
    `_ILEGAL_NEWICK_CHARS` in a name or value are replaced by `_`; an empty name
    is written `NoName` (format 8 is not "flexible").
  * READER  `Tree(s, format=1)` (`read_newick`, `_read_newick_from_string`,
    `_read_node_data`, `_parse_extra_features`, `compile_matchers`), modelled as
    the code is written: `strip`, the start/end tests, the parenthesis count,
    removal of `\n\r\t`, `split("(")[1:]`, per chunk `split(",")` + `strip` + the
    "last sub-chunk is empty or ends with ;" test, per sub-chunk `split(")")`,
    the leaf / internal / single regular expressions of format 1 (lazy name,
    optional `:dist`, optional NHX comment), `add_feature`.
    `current_parent` is the top of a stack of open nodes (`St`); `None` is
    `St.closed`.  Exceptions: `NewickError` and the `AttributeError` raised when
    `current_parent` is `None`.

  Not modelled (outside the domain on which the model is compared with ete3):
  `os.path.exists(newick)` (no file is named like the string); NHX keys that
  are attributes of `TreeNode` (`name`, `dist`, `support`, `children`, `up`, …);
  non-ASCII decimal digits in a branch length (`\d`); the float value of a
  branch length (its text is kept).

  Core Lean only: linked into the driver.
-/
import SRVerif.Model.Serialize

namespace SR.Newick

open SR.Ser (NT Err)

abbrev Chars := List Char

/-! ## Characters and string helpers -/

/-- `str.isspace` / regex `\s` of Python 3 (the same set of code points). -/
def isSpace (c : Char) : Bool :=
  let n := c.toNat
  (9 ≤ n && n ≤ 13) || (28 ≤ n && n ≤ 32) || n == 0x85 || n == 0xA0 || n == 0x1680
    || (0x2000 ≤ n && n ≤ 0x200A) || n == 0x2028 || n == 0x2029 || n == 0x202F
    || n == 0x205F || n == 0x3000

def lstrip (s : Chars) : Chars := s.dropWhile isSpace

def rstrip (s : Chars) : Chars := (s.reverse.dropWhile isSpace).reverse

/-- `str.strip()`. -/
def strip (s : Chars) : Chars := rstrip (lstrip s)

/-- `str.rstrip(";")`. -/
def rstripSemi (s : Chars) : Chars := (s.reverse.dropWhile (· == ';')).reverse

/-- `str.split(d)` for a one-character separator: at least one piece.
    `acc` is the current piece, reversed. -/
def splitAux (d : Char) : Chars → Chars → List Chars
  | [], acc => [acc.reverse]
  | c :: cs, acc => if c == d then acc.reverse :: splitAux d cs [] else splitAux d cs (c :: acc)

def splitOn (d : Char) (s : Chars) : List Chars := splitAux d s []

/-- `_ILEGAL_NEWICK_CHARS = ":;(),\[\]\t\n\r="`. -/
def illegal (c : Char) : Bool :=
  c == ':' || c == ';' || c == '(' || c == ')' || c == ',' || c == '[' || c == ']'
    || c == '\t' || c == '\n' || c == '\r' || c == '='

/-- `re.sub("[" + _ILEGAL_NEWICK_CHARS + "]", "_", s)`. -/
def sanitize (s : Chars) : Chars := s.map (fun c => if illegal c then '_' else c)

/-! ## The writer -/

/-- `"[&&NHX:"`. -/
def nhxOpen : Chars := ['[', '&', '&', 'N', 'H', 'X', ':']

/-- `"color="` (the only feature superrec2 asks for). -/
def colorEq : Chars := ['c', 'o', 'l', 'o', 'r', '=']

/-- `"NoName"`. -/
def noName : Chars := ['N', 'o', 'N', 'a', 'm', 'e']

/-- `format_node(node, …, format=8)`: the sanitised name, `NoName` if empty. -/
def nameOut (n : String) : Chars :=
  let s := sanitize n.toList
  if s.isEmpty then noName else s

/-- `_get_features_string(node, ["color"])`. -/
def featOut : Option String → Chars
  | none => []
  | some v => nhxOpen ++ colorEq ++ sanitize v.toList ++ [']']

/-- Name and features of a node, as written after its children. -/
def atom (n : String) (c : Option String) : Chars := nameOut n ++ featOut c

mutual
  /-- `write_newick` without the final `;` (the pre/post-order iteration of
      `iter_prepostorder` is this recursion). -/
  def writeNode : NT → Chars
    | .node n c [] => atom n c
    | .node n c (k :: ks) => '(' :: (writeKids (k :: ks) ++ ')' :: atom n c)
  /-- The children, separated by commas. -/
  def writeKids : List NT → Chars
    | [] => []
    | [k] => writeNode k
    | k :: k' :: ks => writeNode k ++ ',' :: writeKids (k' :: ks)
end

def writeChars (t : NT) : Chars := writeNode t ++ [';']

/-- `tree.write(format=8, format_root_node=True, features=["color"])`. -/
def write (t : NT) : String := String.ofList (writeChars t)

/-! ## Trees as read -/

/-- A tree as the reader builds it: name (`""` by default), the text of the
    branch length if one was given, the NHX features (last assignment wins), children. -/
inductive RT where
  | node (name : String) (dist : Option String) (feats : List (String × String)) (children : List RT)
  deriving Repr, Inhabited

/-- A node under construction. -/
structure Frame where
  name : String := ""
  dist : Option String := none
  feats : List (String × String) := []
  kids : List RT := []
  deriving Repr, Inhabited

def Frame.toRT (f : Frame) : RT := .node f.name f.dist f.feats f.kids

/-- `parent.add_child(child)` (children are appended). -/
def Frame.addKid (f : Frame) (k : RT) : Frame := { f with kids := f.kids ++ [k] }

mutual
  /-- What C11 looks at: name, `color` feature, children. -/
  def RT.toNT : RT → NT
    | .node n _ fs ks => .node n (fs.lookup "color") (RT.toNTs ks)
  def RT.toNTs : List RT → List NT
    | [] => []
    | k :: ks => RT.toNT k :: RT.toNTs ks
end

mutual
  /-- The tree the reader is expected to build from what the writer wrote. -/
  def RT.ofNT : NT → RT
    | .node n c ks =>
      .node n none (match c with | some v => [("color", v)] | none => []) (RT.ofNTs ks)
  def RT.ofNTs : List NT → List RT
    | [] => []
    | k :: ks => RT.ofNT k :: RT.ofNTs ks
end

/-! ## The regular expressions of `compile_matchers(1)` -/

def isDigit (c : Char) : Bool := '0' ≤ c && c ≤ '9'

def optSign : Chars → Chars
  | '+' :: r => r
  | '-' :: r => r
  | r => r

/-- Full match of `[+-]?\d+\.?\d*(?:[eE][-+]?\d+)?`. -/
def isFloat (s : Chars) : Bool :=
  let s := optSign s
  let r := s.dropWhile isDigit
  if (s.takeWhile isDigit).isEmpty then false
  else
    let r := match r with
      | '.' :: r' => r'
      | _ => r
    match r.dropWhile isDigit with
    | [] => true
    | e :: r' =>
      (e == 'e' || e == 'E') && !(optSign r').isEmpty && (optSign r').all isDigit

/-- The three groups of a match: name, branch length (text between `:` and the
    next space or `[`), NHX comment (brackets included). -/
structure Groups where
  name : Option Chars
  dist : Option Chars
  nhx : Option Chars
  deriving Repr, DecidableEq

/-- `\s*(\[&&NHX:[^\]]*\])?\s*$` on a text without leading space. -/
def matchNhx (r : Chars) : Option (Option Chars) :=
  match r with
  | [] => some none
  | _ :: _ =>
    if nhxOpen.isPrefixOf r then
      let body := (r.drop nhxOpen.length).takeWhile (· != ']')
      match (r.drop nhxOpen.length).dropWhile (· != ']') with
      | [] => none
      | _ :: after => if (lstrip after).isEmpty then some (some (nhxOpen ++ body ++ [']'])) else none
    else none

/-- `\s*(:FLOAT)?\s*(NHX)?\s*$` with `FLOAT = \s*[+-]?\d+\.?\d*(?:[eE][-+]?\d+)?\s*`:
    what may follow the name. -/
def matchRest (r : Chars) : Option (Option Chars × Option Chars) :=
  match lstrip r with
  | ':' :: r' =>
    let r' := lstrip r'
    let tok := r'.takeWhile (fun c => !isSpace c && c != '[')
    if isFloat tok then
      (matchNhx (lstrip (r'.dropWhile (fun c => !isSpace c && c != '[')))).map (fun x => (some tok, x))
    else none
  | r' => (matchNhx r').map (fun x => (none, x))

/-- `[^():,;]`. -/
def nameChar (c : Char) : Bool := !(c == '(' || c == ')' || c == ':' || c == ',' || c == ';')

/-- The lazy group `([^():,;]+?)`: shortest non-empty name after which the rest
    matches.  `pre` is the candidate so far, reversed. -/
def matchName (pre : Chars) : Chars → Option Groups
  | [] => none
  | c :: cs =>
    if nameChar c then
      match matchRest cs with
      | some (d, x) => some { name := some (c :: pre).reverse, dist := d, nhx := x }
      | none => matchName (c :: pre) cs
    else none

/-- `re.match(matcher[node_type], subnw)` for a stripped, non-empty `subnw`.
    The name is compulsory for a leaf; for `single` and `internal` nodes the
    engine tries the name group first and then skips it. -/
def matchNode (leaf : Bool) (sub : Chars) : Option Groups :=
  match matchName [] sub with
  | some g => some g
  | none =>
    if leaf then none
    else (matchRest sub).map (fun x => { name := none, dist := x.1, nhx := x.2 })

/-! ## `_read_node_data` -/

/-- `node.add_feature(…)`; `AttributeError` when `node` is `None`. -/
def setAttr (node : Option Frame) (upd : Frame → Frame) : Except Err (Option Frame) :=
  match node with
  | none => .error .attributeError
  | some f => .ok (some (upd f))

/-- `str.replace("[&&NHX:", "")`: `skip` characters of an occurrence remain to be dropped. -/
def removeOpen (skip : Nat) : Chars → Chars
  | [] => []
  | c :: cs =>
    match skip with
    | k + 1 => removeOpen k cs
    | 0 => if nhxOpen.isPrefixOf (c :: cs) then removeOpen (nhxOpen.length - 1) cs
           else c :: removeOpen 0 cs

/-- `_parse_extra_features`. -/
def parseExtra (node : Option Frame) (nhx : Chars) : Except Err (Option Frame) :=
  let s := (removeOpen 0 nhx).filter (· != ']')
  (splitOn ':' s).foldlM (fun node field =>
    match splitOn '=' field with
    | [k, v] =>
      setAttr node (fun f => { f with feats := SR.Ser.Dict.set f.feats (String.ofList k) (String.ofList v) })
    | _ => .error .newickError) node

/-- The part of `_read_node_data` that follows a successful match. -/
def applyGroups (g : Groups) (node : Option Frame) : Except Err (Option Frame) := do
  if g.name.isNone && g.dist.isNone && g.nhx.isNone then throw Err.newickError
  let node ← match g.name with
    | some nm => if nm.isEmpty then pure node
                 else setAttr node (fun f => { f with name := String.ofList (strip nm) })
    | none => pure node
  let node ← match g.dist with
    | some d => if d.isEmpty then pure node
                else setAttr node (fun f => { f with dist := some (String.ofList d) })
    | none => pure node
  match g.nhx with
  | some x => parseExtra node x
  | none => pure node

/-- `_read_node_data(subnw, node, "single" | "internal", …)` once `node` is known. -/
def readData (node : Option Frame) (subnw : Chars) : Except Err (Option Frame) :=
  let sub := strip subnw
  if sub.isEmpty then pure node
  else match matchNode false sub with
    | none => .error .newickError
    | some g => applyGroups g node

/-! ## The parser state -/

/-- `current_parent`: `None`, or an open node with its open ancestors (the
    last one is the root).  Children are attached when a node is closed, which
    gives the same tree as attaching them when they are created, since only
    the current node receives children. -/
inductive St where
  | closed (root : Frame)
  | opened (top : Frame) (below : List Frame)
  deriving Repr, Inhabited

namespace St

def cur : St → Option Frame
  | closed _ => none
  | opened f _ => some f

def setCur : St → Frame → St
  | closed r, _ => closed r
  | opened _ l, f => opened f l

/-- `current_parent = root_node if current_parent is None else current_parent.add_child()`. -/
def openChunk : St → St
  | closed r => opened r []
  | opened f l => opened {} (f :: l)

/-- `current_parent = current_parent.up`. -/
def up : St → Except Err St
  | closed _ => .error .attributeError
  | opened f [] => .ok (closed f)
  | opened f (g :: l) => .ok (opened (g.addKid f.toRT) l)

def closeAll : Frame → List Frame → Frame
  | f, [] => f
  | f, g :: l => closeAll (g.addKid f.toRT) l

/-- The root node, whatever is still open. -/
def result : St → RT
  | closed r => r.toRT
  | opened f l => (closeAll f l).toRT

end St

/-- `_read_node_data(piece, current_parent, "leaf", …)`. -/
def readLeaf (st : St) (piece : Chars) : Except Err St :=
  match st.cur with
  | none => .error .attributeError              -- `None.add_child()`
  | some f =>
    let sub := strip piece
    if sub.isEmpty then .error .newickError     -- "Empty leaf node found"
    else match matchNode true sub with
      | none => .error .newickError
      | some g => do
        let child ← applyGroups g (some {})
        pure (st.setCur (f.addKid (child.getD {}).toRT))

/-- One closing piece: `_read_node_data(piece.rstrip(";"), current_parent, "internal", …)`,
    then `current_parent = current_parent.up`. -/
def readClosing (st : St) (piece : Chars) : Except Err St := do
  let node ← readData st.cur (rstripSemi piece)
  let st := match node with
    | some f => st.setCur f
    | none => st
  st.up

/-- The body of `for i, leaf in enumerate(subchunks)` for a sub-chunk that is not skipped. -/
def procSub (st : St) (sub : Chars) : Except Err St :=
  match splitOn ')' sub with
  | [] => pure st
  | p :: closing => do
    let st ← readLeaf st p
    closing.foldlM readClosing st

/-- The loop over the (stripped) sub-chunks: an empty last one is skipped. -/
def procSubs : St → List Chars → Except Err St
  | st, [] => pure st
  | st, [s] => if s.isEmpty then pure st else procSub st s
  | st, s :: s' :: rest => do
    let st ← procSub st s
    procSubs st (s' :: rest)

/-- The test on the last sub-chunk of a chunk. -/
def lastOk (subs : List Chars) : Bool :=
  match subs.getLast? with
  | none => true
  | some l => l.isEmpty || l.getLast? == some ';'

/-- The body of `for chunk in nw.split("(")[1:]`. -/
def procChunk (st : St) (chunk : Chars) : Except Err St :=
  let st := st.openChunk
  let subs := (splitOn ',' chunk).map strip
  if lastOk subs then procSubs st subs else .error .newickError

/-- `_read_newick_from_string` (`quoted_names=False`). -/
def readFromString (nw : Chars) : Except Err RT :=
  if nw.head? != some '(' && nw.getLast? == some ';' then do
    let node ← readData (some {}) nw.dropLast
    pure (node.getD {}).toRT
  else if nw.count '(' != nw.count ')' then .error .newickError
  else
    let nw := nw.filter (fun c => !(c == '\n' || c == '\r' || c == '\t'))
    match splitOn '(' nw with
    | [] => pure ({} : Frame).toRT
    | _ :: chunks => do
      let st ← chunks.foldlM procChunk (St.closed {})
      pure st.result

/-- `read_newick(newick, root_node=TreeNode(), format=1)` on a string that names no file. -/
def readChars (s : Chars) : Except Err RT :=
  let nw := strip s
  if nw.head? != some '(' && nw.getLast? == some ';' then readFromString nw
  else if nw.head? != some '(' || nw.getLast? != some ';' then .error .newickError
  else readFromString nw

/-- `Tree(s, format=1)`. -/
def read (s : String) : Except Err RT := readChars s.toList

/-- `Tree(s, format=1)` restricted to what C11 observes. -/
def readNT (s : String) : Except Err NT := (read s).map RT.toNT

/-! ## Names that read back -/

def safeChars (s : Chars) : Bool := s.all (fun c => !illegal c)

/-- Non-empty, first and last characters are not white space. -/
def edgeOk (s : Chars) : Bool :=
  match s.head?, s.getLast? with
  | some a, some z => !isSpace a && !isSpace z
  | _, _ => false

/-- A name that `write` leaves alone and `read` gives back: not empty, none of
    `: ; ( ) , [ ] = \t \n \r`, no white space at either end (inside is fine). -/
def safeName (n : String) : Bool := safeChars n.toList && edgeOk n.toList

/-- A feature value that reads back: none of the characters above (it may be
    empty, and may begin or end with white space). -/
def safeValue (v : String) : Bool := safeChars v.toList

mutual
  def safeTree : NT → Bool
    | .node n c ks =>
      safeName n && (match c with | some v => safeValue v | none => true) && safeTrees ks
  def safeTrees : List NT → Bool
    | [] => true
    | k :: ks => safeTree k && safeTrees ks
end

end SR.Newick
