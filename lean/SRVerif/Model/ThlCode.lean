/-
  `reconcile_thl` AS THE CODE IS WRITTEN
  (`superrec2/compute/reconciliation.py`, after the `fix:` commits
  F-THL-SPE, F-THL-LOSSDIST, F-THL-UNREACHABLE):

    _compute_thl_table                      `computeTable`  (post-order over the object tree,
                                             loop over the species in post-order, one global table)
    _compute_thl_try_speciation             `trySpeciation`  (aggregates min_ltl / min_rtl / min_ltr /
                                             min_rtr, `spe_combinator`)
    _compute_thl_try_duplication_transfer   `tryDuplicationTransfer`  (aggregates min_ltc / min_lts /
                                             min_rtc / min_rts, `dup_combinator`, `hgt_combinator`)
    _decode_thl_table                       `decode`  (generator following the `MappingInfo` tags)
    reconcile_thl                           `reconcile` / `thlCode`  (result `Entry` ranked by `output.cost()`)

  The table is a finite map (object node, species) ↦ `Entry MappingInfo`
  (`Model/Entry.lean`, the C16 model of `Entry` / `Candidate` / `update` /
  `combine` / `EntryProxy.update`), its tags are the retained child
  assignments, exactly as in the code.  The retention policy is a parameter
  (`Retain.all` / `Retain.any`), the merge policy is MIN.

  Object nodes are paths in the object tree, species are root paths in the
  species tree (`Model/Paths.lean`); `is_ancestor_of` / `distance` are the path
  operations (C17).  ete3 traversals: `traverse("postorder")` is
  `RTree.postorder`, `traverse()` (default strategy `levelorder`) is
  `RTree.levelorder` (queue, as `TreeNode._iter_descendants_levelorder`).

  Scope: `left_species, right_species = root_species.children` raises on a
  species with a number of children other than 0 or 2; the model takes the
  children `s ++ [0]`, `s ++ [1]` (binary species tree is part of
  well-formedness).  `Entry.update`'s truthiness test `if info and …` is
  `Option.isSome`: species nodes (ete3 `TreeNode`), `MappingInfo` pairs and
  `ReconciliationOutput`s are all truthy.

  Core Lean only (linked into the driver).
-/
import SRVerif.Model.Entry
import SRVerif.Model.CostExt
import SRVerif.Model.Rec

namespace SR


namespace RTree

/-- The children of the node at path `p`, with their paths (`cs` are the
    children from index `i` on). -/
def childrenAt (p : Path) : List RTree → Nat → List (Path × RTree)
  | [], _ => []
  | c :: cs, i => (p ++ [i], c) :: childrenAt p cs (i + 1)

/-- ete3's level-order iterator: pop the head of the queue, yield it, push its
    children at the back.  `fuel` bounds the number of pops. -/
def levelorderAux : Nat → List (Path × RTree) → List Path
  | 0, _ => []
  | _, [] => []
  | fuel + 1, (p, node cs) :: q => p :: levelorderAux fuel (q ++ childrenAt p cs 0)

/-- `tree.traverse()` (ete3's default strategy is `levelorder`). -/
def levelorder (t : RTree) : List Path := levelorderAux t.preorder.length [([], t)]

/-- `node.traverse()` for the node at path `p` of `S` (absolute paths). -/
def traverseAt (S : RTree) (p : Path) : List Path :=
  match S.sub p with
  | some t => t.levelorder.map (p ++ ·)
  | none => []

/-- `node.is_leaf()` for the node at path `p`. -/
def isLeafAt (S : RTree) (p : Path) : Bool :=
  match S.sub p with
  | some t => t.isLeaf
  | none => true

end RTree

namespace ThlCode

/-- `MappingInfo(left, right)`: species assigned to the left and right child. -/
structure MappingInfo where
  left : Path
  right : Path
  deriving DecidableEq, Repr

/-- Table key: (object node, species). -/
abbrev Key := Path × Path

/-- `THLTable`: the instantiated entries (`Table` with two `DictDimension`s);
    a key that is absent reads as `EntryProxy` over `None`. -/
structure Table where
  cells : List (Key × Entry MappingInfo)
  deriving Repr

namespace Table

def empty : Table := ⟨[]⟩

def setCell : List (Key × Entry MappingInfo) → Key → Entry MappingInfo →
    List (Key × Entry MappingInfo)
  | [], k, e => [(k, e)]
  | (k', e') :: t, k, e => if k' = k then (k, e) :: t else (k', e') :: setCell t k e

/-- `table[node][species]` as the cell behind the proxy. -/
def get (t : Table) (k : Key) : Cell MappingInfo := t.cells.lookup k

def set (t : Table) (k : Key) (e : Entry MappingInfo) : Table := ⟨setCell t.cells k e⟩

/-- `table[node][species].value()`. -/
def value (t : Table) (k : Key) : ExtInt := Cell.value .min (t.get k)

/-- `table[node][species].infos()`. -/
def infos (t : Table) (k : Key) : List MappingInfo := Cell.infos (t.get k)

/-- `table[node][species].update(*batch)` (`EntryProxy.update`): nothing
    happens when every candidate is infinite, otherwise the entry is created if
    needed and receives the whole batch. -/
def update (r : Retain) (t : Table) (k : Key) (batch : List (Cand MappingInfo)) : Table :=
  match Cell.update .min r (t.get k) batch with
  | some e => t.set k e
  | none => t

end Table

/-- `Entry.__iter__`: one `Candidate(value, info)` per retained tag (what `*entry` unpacks). -/
def cands {τ : Type} (e : Entry τ) : List (Cand τ) := e.infos.map (fun t => ⟨e.value, some t⟩)

/-- `entry.update(Candidate(v, x))` on an aggregate entry. -/
def offer (e : Entry Path) (v : ExtInt) (x : Path) : Entry Path := e.update [⟨v, some x⟩]

/-- The four aggregate entries of `_compute_thl_try_speciation`. -/
structure SpeAggs where
  minLtl : Entry Path
  minRtl : Entry Path
  minLtr : Entry Path
  minRtr : Entry Path

/-- `spe_combinator` / `dup_combinator` / `hgt_combinator`:
    `Candidate(cost + left.value + right.value, MappingInfo(left.info, right.info))`. -/
def combinator (cost : ExtInt) (lv : ExtInt) (li : Path) (rv : ExtInt) (ri : Path) :
    Cand MappingInfo :=
  ⟨cost + lv + rv, some ⟨li, ri⟩⟩

/-- `_compute_thl_try_speciation`. -/
def trySpeciation (r : Retain) (c : Costs) (S : RTree) (rootSpecies rootNode : Path)
    (table : Table) : Table :=
  let lossCost : Int := c.floss
  let leftSpecies := rootSpecies ++ [0]
  let rightSpecies := rootSpecies ++ [1]
  let leftNode := rootNode ++ [0]
  let rightNode := rootNode ++ [1]
  let e0 : Entry Path := Entry.init .min r
  let st : SpeAggs := ⟨e0, e0, e0, e0⟩
  let st := (S.traverseAt leftSpecies).foldl (fun st leftChild =>
    let skipped := ExtInt.fin (lossCost * ((Path.dist rootSpecies leftChild : Int) - 1))
    { st with
      minLtl := offer st.minLtl (table.value (leftNode, leftChild) + skipped) leftChild,
      minRtl := offer st.minRtl (table.value (rightNode, leftChild) + skipped) leftChild }) st
  let st := (S.traverseAt rightSpecies).foldl (fun st rightChild =>
    let skipped := ExtInt.fin (lossCost * ((Path.dist rootSpecies rightChild : Int) - 1))
    { st with
      minLtr := offer st.minLtr (table.value (leftNode, rightChild) + skipped) rightChild,
      minRtr := offer st.minRtr (table.value (rightNode, rightChild) + skipped) rightChild }) st
  let speCombinator := combinator (.fin (c.spe : Int))
  table.update r (rootNode, rootSpecies)
    (cands (st.minLtl.combine st.minRtr speCombinator) ++
     cands (st.minLtr.combine st.minRtl speCombinator))

/-- The four aggregate entries of `_compute_thl_try_duplication_transfer`. -/
structure DtAggs where
  minLtc : Entry Path
  minLts : Entry Path
  minRtc : Entry Path
  minRts : Entry Path

/-- `_compute_thl_try_duplication_transfer`. -/
def tryDuplicationTransfer (r : Retain) (c : Costs) (S : RTree) (rootSpecies rootNode : Path)
    (table : Table) : Table :=
  let dupCost : ExtInt := .fin (c.dup : Int)
  let hgtCost : ExtInt := c.hgt.toExt
  let lossCost : Int := c.floss
  let leftNode := rootNode ++ [0]
  let rightNode := rootNode ++ [1]
  let e0 : Entry Path := Entry.init .min r
  let st : DtAggs := ⟨e0, e0, e0, e0⟩
  let st := S.levelorder.foldl (fun st otherSpecies =>
    if Path.isAnc rootSpecies otherSpecies then
      let skipped := ExtInt.fin (lossCost * (Path.dist rootSpecies otherSpecies : Int))
      { st with
        minLtc := offer st.minLtc (table.value (leftNode, otherSpecies) + skipped) otherSpecies,
        minRtc := offer st.minRtc (table.value (rightNode, otherSpecies) + skipped) otherSpecies }
    else if !Path.isAnc otherSpecies rootSpecies then
      { st with
        minLts := offer st.minLts (table.value (leftNode, otherSpecies)) otherSpecies,
        minRts := offer st.minRts (table.value (rightNode, otherSpecies)) otherSpecies }
    else st) st
  let dupCombinator := combinator dupCost
  let hgtCombinator := combinator hgtCost
  table.update r (rootNode, rootSpecies)
    (cands (st.minLtc.combine st.minRtc dupCombinator) ++
     cands (st.minLts.combine st.minRtc hgtCombinator) ++
     cands (st.minLtc.combine st.minRts hgtCombinator))

/-- `object_tree.traverse("postorder")`: every node (its path, the subtree
    hanging there) after its children. -/
def postorderNodes : OTree → Path → List (Path × OTree)
  | .leaf sp f, v => [(v, .leaf sp f)]
  | .node l r, v => postorderNodes l (v ++ [0]) ++ postorderNodes r (v ++ [1]) ++ [(v, .node l r)]

/-- The body of the outer loop of `_compute_thl_table`. -/
def processNode (r : Retain) (c : Costs) (S : RTree) (table : Table) : Path × OTree → Table
  | (rootNode, .leaf rootSpecies _) =>
    -- `table[root_node][root_species] = Candidate(0)`
    table.update r (rootNode, rootSpecies) [⟨.fin 0, none⟩]
  | (rootNode, .node _ _) =>
    S.postorder.foldl (fun table rootSpecies =>
      let table :=
        if !S.isLeafAt rootSpecies then trySpeciation r c S rootSpecies rootNode table else table
      tryDuplicationTransfer r c S rootSpecies rootNode table) table

/-- `_compute_thl_table`. -/
def computeTable (r : Retain) (c : Costs) (S : RTree) (o : OTree) : Table :=
  (postorderNodes o []).foldl (processNode r c S) Table.empty

/-- `_decode_thl_table(root_object, root_species, rec_input, table)`: the
    mappings are solutions (`Sol`) carrying the input's leaf data; a leaf whose
    cell is infinite yields nothing. -/
def decode (table : Table) : OTree → Path → Path → List Sol
  | .leaf _ f, rootObject, rootSpecies =>
    if (table.value (rootObject, rootSpecies)).isInfinite then [] else [.leaf rootSpecies f]
  | .node l r, rootObject, rootSpecies =>
    (table.infos (rootObject, rootSpecies)).flatMap fun info =>
      (decode table l (rootObject ++ [0]) info.left).flatMap fun mapLeft =>
        (decode table r (rootObject ++ [1]) info.right).map fun mapRight =>
          Sol.node rootSpecies [] mapLeft mapRight

/-- `reconcile_thl`: the result entry. -/
def reconcile (r : Retain) (c : Costs) (S : RTree) (o : OTree) : Entry Sol :=
  let table := computeTable r c S o
  S.levelorder.foldl (fun results rootSpecies =>
    results.update ((decode table o [] rootSpecies).map fun output =>
      ⟨(recCost c o output).toExt, some output⟩)) (Entry.init .min r)

/-- `reconcile_thl(rec_input, RetentionPolicy.ALL)`. -/
def thlCode (c : Costs) (S : RTree) (o : OTree) : List Sol := (reconcile .all c S o).infos

/-- `reconcile_thl(rec_input, RetentionPolicy.ANY)`. -/
def thlCodeAny (c : Costs) (S : RTree) (o : OTree) : List Sol := (reconcile .any c S o).infos

end ThlCode

end SR
