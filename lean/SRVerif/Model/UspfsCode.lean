/-
  Structure-faithful model of
  `superrec2/compute/unordered_super_reconciliation.py`:
  `_compute_uspfs_entry`, `_compute_uspfs_table`, `_decode_uspfs_table`, `_uspfs`
  (binary input; the multifurcation loop of `_uspfs` is C08's).

  Unlike `Model/Solvers.lean` (`uspfs`, an instance of the generic label DP that
  stores decoded solutions per cell), this model keeps the code's own structure:

  * the table is keyed by (object node, species, kind) and holds `Entry`s of
    `ChildrenAssignment` TAGS (`Model/Entry.lean`, the C16 model of `Entry`,
    `Candidate`, `Entry.update`, `Entry.combine`, `EntryProxy.update`);
  * `_compute_uspfs_entry` builds, per child and per kind, the five role entries
    `left`, `right`, `conserved`, `segment`, `separate` (`MappingChoices`) by the
    code's `update(…)` calls, with the code's per-kind edge costs, in the code's
    order, over `species_lca.tree.traverse()` (level order), then offers the six
    `combine` results (`spe_comb` ×2, `dup_comb` ×2, `hgt_comb` ×2) to
    `table[root_object][root_species][kind]` in ONE `EntryProxy.update` batch;
  * values are `ExtInt`s computed with the code's arithmetic (`inf` sub-costs of
    missing cells included: the role entries do collect tags of infinite value,
    as in Python);
  * `_decode_uspfs_table` follows the tags top-down and materialises the contents
    from `lca_sets` / ancestor synteny ∪ `gain_sets`;
  * `_uspfs` ranks the decoded outputs by `output.cost()` in a result `Entry`.

  The retention policy is a parameter (`Retain`): under `any` every entry holds at
  most one tag, so Python's set iteration order is immaterial and the model is
  deterministic given the offering order, which it follows.

  `lca_sets`, `gain_sets` are the node data of the annotated tree (`UnAnn.lcaSet`,
  `UnAnn.gain`, computed as in `annUn`: post-order union minus the children's gains,
  `gainsAt`); `allowed_species(tree, node)` is `UnAnn.allowed`, here in the code's
  order (`species.traverse("postorder")` / the single LCA species).

  Species trees in scope are binary: `left_species, right_species =
  root_species.children` raises `ValueError` otherwise; like `Model/LabelDP.lean`
  the model looks at the children `0` and `1`.

  Core Lean only.
-/
import SRVerif.Model.Entry
import SRVerif.Model.CostExt
import SRVerif.Model.Solvers

namespace SR

namespace UspfsCode

/-- `ObjectAssignment(species, synteny)`. -/
abbrev OAsg := Path × Kind

/-- `ChildrenAssignment(left, right)`. -/
abbrev CAsg := OAsg × OAsg

/-- `MappingChoices`: the five role entries of one child for one kind. -/
structure Choices where
  left : Entry OAsg
  right : Entry OAsg
  conserved : Entry OAsg
  segment : Entry OAsg
  separate : Entry OAsg
  deriving Repr

/-- `MappingChoices._make(table.entry() for _ in range(5))`. -/
def Choices.init (pol : Retain) : Choices :=
  let e : Entry OAsg := Entry.init .min pol
  { left := e, right := e, conserved := e, segment := e, separate := e }

/-- `subprobs[child_index]`: a dict from kind to `MappingChoices`. -/
structure Sub where
  lca : Choices
  inh : Choices
  deriving Repr

def Sub.init (pol : Retain) : Sub := { lca := Choices.init pol, inh := Choices.init pol }

def Sub.get (s : Sub) : Kind → Choices
  | .lca => s.lca
  | .inh => s.inh

/-- `tree.traverse()` (ete3's default strategy is level order): the nodes by
    increasing depth, left to right within a depth. -/
def levelOrder (S : RTree) : List Path :=
  let ps := S.preorder
  (List.range (ps.foldl (fun m p => max m p.length) 0 + 1)).flatMap
    (fun d => ps.filter (fun p => p.length == d))

/-! ### The table -/

/-- (object node, species, kind). -/
abbrev Key := Path × Path × Kind

/-- `USPFSTable`: the instantiated entries of `table[object][species][kind]`; the
    most recent binding of a key is the current one. -/
abbrev Table := List (Key × Entry CAsg)

/-- `table[v][s][k]` (an `EntryProxy`: `none` while the entry does not exist). -/
def cellAt (T : Table) (v s : Path) (k : Kind) : Cell CAsg := List.lookup (v, s, k) T

/-- `table[v][s][k].update(*batch)` (`EntryProxy.update`). -/
def tupdate (pol : Retain) (T : Table) (v s : Path) (k : Kind) (batch : List (Cand CAsg)) : Table :=
  match Cell.update .min pol (cellAt T v s k) batch with
  | some e => ((v, s, k), e) :: T
  | none => T

/-- `Entry.__iter__`: one candidate per retained tag. -/
def entryCands {τ : Type} (e : Entry τ) : List (Cand τ) :=
  e.infos.map (fun t => { value := e.value, info := some t })

/-- `_make_event_combinator(event_cost)`. -/
def evComb (ev : ExtInt) : ExtInt → OAsg → ExtInt → OAsg → Cand CAsg :=
  fun lv li rv ri => { value := ev + lv + rv, info := some (li, ri) }

def cand (v : ExtInt) (t : OAsg) : Cand OAsg := { value := v, info := some t }

/-! ### `_compute_uspfs_entry` -/

/-- `(lca_lca_dist, lca_inh_dist)` for one child:
    `if lca_sets[root_object] <= lca_sets[child_object]`. -/
def edgeDists (c : Costs) (rootSet childSet : List Nat) : ExtInt × ExtInt :=
  if subsetB rootSet childSet then (.fin 0, .posInf) else (.fin c.sloss, .fin 0)

/-- `table[child_object]`: the view of the table on one object node (a `TableProxy`). -/
abbrev Row := Path → Kind → Cell CAsg

/-- The body of `for desc_species in species_lca.tree.traverse():` for one child
    (`row = table[child_object]`). -/
def stepSpecies (c : Costs) (S : RTree) (row : Row) (rootSp : Path)
    (lcaLca lcaInh : ExtInt) (sub : Sub) (desc : Path) : Sub :=
  let lcaCost := Cell.value .min (row desc .lca)
  let lcaAsg : OAsg := (desc, .lca)
  let inhCost := Cell.value .min (row desc .inh)
  let inhAsg : OAsg := (desc, .inh)
  let sloss : ExtInt := .fin c.sloss
  if Path.isAnc rootSp desc then
    let aboveN : Int := (Path.dist rootSp desc : Nat) * (c.floss : Nat)
    let above : ExtInt := .fin aboveN
    let inh := sub.inh
    let lca := sub.lca
    let inh := { inh with conserved := inh.conserved.update (
      [cand (above + lcaCost + sloss) lcaAsg, cand (above + inhCost) inhAsg]) }
    let lca := { lca with conserved := lca.conserved.update (
      [cand (above + lcaCost + lcaLca) lcaAsg, cand (above + inhCost + lcaInh) inhAsg]) }
    let inh := { inh with segment := inh.segment.update (
      [cand (above + lcaCost) lcaAsg, cand (above + inhCost) inhAsg]) }
    let lca := { lca with segment := lca.segment.update (
      [cand (above + lcaCost) lcaAsg, cand (above + inhCost + lcaInh) inhAsg]) }
    if !speciesIsLeaf S rootSp then
      let speciesDist : ExtInt := .fin (aboveN - (c.floss : Nat))
      let inhCands :=
        [cand (speciesDist + lcaCost + sloss) lcaAsg, cand (speciesDist + inhCost) inhAsg]
      let lcaCands :=
        [cand (speciesDist + lcaCost + lcaLca) lcaAsg, cand (speciesDist + inhCost + lcaInh) inhAsg]
      if Path.isAnc (rootSp ++ [0]) desc then
        { inh := { inh with left := inh.left.update inhCands },
          lca := { lca with left := lca.left.update lcaCands } }
      else if Path.isAnc (rootSp ++ [1]) desc then
        { inh := { inh with right := inh.right.update inhCands },
          lca := { lca with right := lca.right.update lcaCands } }
      else { inh := inh, lca := lca }
    else { inh := inh, lca := lca }
  else if !Path.isAnc desc rootSp then
    { inh := { sub.inh with separate := sub.inh.separate.update (
        [cand lcaCost lcaAsg, cand inhCost inhAsg]) },
      lca := { sub.lca with separate := sub.lca.separate.update (
        [cand lcaCost lcaAsg, cand (inhCost + lcaInh) inhAsg]) } }
  else sub

/-- `subprobs[child_index]` after the loop over the species. -/
def childSub (pol : Retain) (c : Costs) (S : RTree) (row : Row) (rootSp : Path)
    (rootSet childSet : List Nat) : Sub :=
  let d := edgeDists c rootSet childSet
  (levelOrder S).foldl (stepSpecies c S row rootSp d.1 d.2) (Sub.init pol)

/-- The batch offered to `table[root_object][root_species][kind]`: the six `combine`
    results, in the code's order and pairing. -/
def entryBatch (c : Costs) (a b : Choices) : List (Cand CAsg) :=
  let spe := evComb (.fin c.spe)
  let dup := evComb (.fin c.dup)
  let hgt := evComb (Cost.toExt c.hgt)
  entryCands (a.left.combine b.right spe) ++
  entryCands (a.right.combine b.left spe) ++
  entryCands (a.conserved.combine b.segment dup) ++
  entryCands (a.segment.combine b.conserved dup) ++
  entryCands (a.conserved.combine b.separate hgt) ++
  entryCands (a.separate.combine b.conserved hgt)

/-- `_compute_uspfs_entry(species_lca, root_species, root_object, lca_sets, table, costs)`. -/
def computeEntry (pol : Retain) (c : Costs) (S : RTree) (rootSp rootObj : Path)
    (rootSet leftSet rightSet : List Nat) (T : Table) : Table :=
  let sub0 := childSub pol c S (cellAt T (rootObj ++ [0])) rootSp rootSet leftSet
  let sub1 := childSub pol c S (cellAt T (rootObj ++ [1])) rootSp rootSet rightSet
  [Kind.lca, Kind.inh].foldl
    (fun T kind => tupdate pol T rootObj rootSp kind (entryBatch c (sub0.get kind) (sub1.get kind))) T

/-! ### `_compute_uspfs_table` -/

/-- The post-order loop over the object nodes, threading the table; `v` is the
    path of the current object node. -/
def computeTable (pol : Retain) (c : Costs) (S : RTree) : ATree UnAnn → Path → Table → Table
  | .leaf _ sp, v, T => tupdate pol T v sp .lca [{ value := .fin 0, info := none }]
  | .node a l r, v, T =>
    let T := computeTable pol c S l (v ++ [0]) T
    let T := computeTable pol c S r (v ++ [1]) T
    a.allowed.foldl
      (fun T s => computeEntry pol c S s v a.lcaSet l.data.lcaSet r.data.lcaSet T) T

/-! ### `_decode_uspfs_table` -/

/-- The content of a node of kind `k` below an ancestor content `anc`
    (`root_synteny`, also the `ancestor_synteny` handed to the children). -/
def content (a : UnAnn) (k : Kind) (anc : List Nat) : List Nat :=
  match k with
  | .lca => a.lcaSet
  | .inh => sortNat (dedup (anc ++ a.gain))

/-- `_decode_uspfs_table(root_object, root_species, root_kind, ancestor_synteny, …)`.
    A leaf whose entry is infinite yields nothing (its entry does not exist, so the
    loop over `infos()` is empty). -/
def decode (T : Table) : ATree UnAnn → Path → Path → Kind → List Nat → List Sol
  | .leaf a _, v, s, k, anc =>
    if !(Cell.value .min (cellAt T v s k)).isInfinite then [Sol.leaf s (content a k anc)] else []
  | .node a l r, v, s, k, anc =>
    let syn := content a k anc
    (Cell.infos (cellAt T v s k)).flatMap fun info =>
      (decode T l (v ++ [0]) info.1.1 info.1.2 syn).flatMap fun ml =>
        (decode T r (v ++ [1]) info.2.1 info.2.2 syn).map fun mr => Sol.node s syn ml mr

/-! ### `_uspfs` on a binary input -/

/-- Node data of the code: `lca_sets`, `gain_sets` as in `annUn`; `allowed_species`
    in the code's order (`species.traverse("postorder")`, or the LCA mapping). -/
def annCode (S : RTree) (base : Bool) (whole : OTree) : Path → OTree → ATree UnAnn
  | p, .leaf sp f =>
    .leaf { lcaSet := sortNat (dedup f), gain := gainsAt whole p, allowed := [] } sp
  | p, .node l r =>
    let al := annCode S base whole (p ++ [0]) l
    let ar := annCode S base whole (p ++ [1]) r
    let union := dedup (al.data.lcaSet ++ ar.data.lcaSet)
    let gained := al.data.gain ++ ar.data.gain
    .node { lcaSet := sortNat (union.filter (fun f => !gained.contains f)),
            gain := gainsAt whole p,
            allowed := if base then [(lcaSol (.node l r)).sp] else S.postorder }
      al ar

/-- The table of `_compute_uspfs_table`. -/
def codeTable (pol : Retain) (c : Costs) (S : RTree) (base : Bool) (o : OTree) : Table :=
  computeTable pol c S (annCode S base o [] o) [] []

/-- The outputs decoded for one root species. -/
def decodeRoot (pol : Retain) (c : Costs) (S : RTree) (base : Bool) (o : OTree) (s : Path) : List Sol :=
  let t := annCode S base o [] o
  decode (codeTable pol c S base o) t [] s .lca t.data.lcaSet

/-- The result entry: `results.update(*map(λ out. Candidate(out.cost(), out), decode …))`
    for every root species. -/
def resultEntry (pol : Retain) (c : Costs) (S : RTree) (base : Bool) (o : OTree) : Entry Sol :=
  (levelOrder S).foldl
    (fun e s => e.update ((decodeRoot pol c S base o s).map fun out =>
      { value := Cost.toExt (totalCost c .unordered o out), info := some out }))
    (Entry.init .min pol)

/-- `_uspfs(srec_input, policy, allowed_species)` for a binary input. -/
def uspfsCodePol (pol : Retain) (c : Costs) (S : RTree) (base : Bool) (o : OTree) : List Sol :=
  (resultEntry pol c S base o).infos

end UspfsCode

/-- `usreconcile_extended_uspfs` (`base = false`) / `usreconcile_base_uspfs` under `ALL`. -/
def uspfsCode (c : Costs) (S : RTree) (base : Bool) (o : OTree) : List Sol :=
  UspfsCode.uspfsCodePol .all c S base o

end SR
