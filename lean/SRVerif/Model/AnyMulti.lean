/-
  The retention policy `RetentionPolicy.ANY` in the two places that
  `Model/LabelDPAny.lean` does not cover.

  * `reconcile_exhaustive(rec_input, ANY)` has no table: every output of
    `generate_all` is offered to the single result entry
    `Entry(MergePolicy.MIN, policy)` as `Candidate(output.cost(), output)`, which
    under ANY keeps one output of minimum evaluated cost (`exhaustiveAny`).

  * `_spfs` / `_uspfs` on an input with polytomies: the policy flows to every
    table (`_compute_*_table(…, policy)`), hence each refined input decodes ONE
    output per finite root cell (`spfsCandsAny`, `uspfsCandsAny` — the lists
    that `spfsAny`, `uspfsAny` of `Model/LabelDPAny.lean` rank), and ALL of them,
    for every pair of refinements, go to ONE result entry created before the
    loop over `binarize()`, which under ANY keeps one output of minimum
    evaluated cost (`rankOutsAny`; `spfsMultiAny`, `uspfsMultiAny`).
    `spfsMultiAnyNested` / `uspfsMultiAnyNested` are the variant in which every
    refined input is first solved to the end under ANY (own result entry:
    `spfsAny` / `uspfsAny`) and only that single output is offered to the outer
    entry; the real code does not do this, it is kept because it is how a caller
    looping over `binarize()` itself would behave.

  As in `Model/LabelDPAny.lean`, which optimal candidate an entry retains depends
  on the offering order, so the result entries are parameterised by selection
  functions (`PickOk`); `List.head?` is the code's own rule.

  Core Lean only (may be linked into the driver).
-/
import SRVerif.Model.LabelDPAny
import SRVerif.Model.Binarize

namespace SR

/-- `reconcile_exhaustive` under ANY: one of the enumerated reconciliations of
    minimum evaluated cost. -/
def exhaustiveAny (pick : List Sol → Option Sol) (c : Costs) (o : OTree) : List Sol :=
  rankAny pick c .plain o (generateAll o)

/-- The same through the code's own update rule: `results.update(Candidate(output.cost(),
    output))` for every output of `generate_all`, under MIN / ANY (`Agg.updateAny`). -/
def exhaustiveAnyCode (c : Costs) (o : OTree) : List Sol :=
  (((generateAll o).map (fun s => (totalCost c .plain o s, s))).foldl
    (fun e p => e.updateAny p.1 p.2) Agg.empty).tags

namespace Bin

/-- Outputs decoded by `_spfs` for one refined input when the tables are built under
    ANY: one per finite root cell and root order (what `spfsAny` ranks). -/
def spfsCandsAny (P : Picker Nat) (c : Costs) (S : RTree) (base : Bool) (o : OTree)
    (prescribed : Option (List Nat)) : List Sol :=
  (rootOrders o prescribed).flatMap fun order =>
    (spfsCellsForAny P c S base o order).flatMap (fun d => d.sols.map (ordSol order))

/-- Outputs decoded by `_uspfs` for one refined input under ANY (what `uspfsAny` ranks). -/
def uspfsCandsAny (P : Picker Kind) (c : Costs) (S : RTree) (base : Bool) (o : OTree) : List Sol :=
  let ann := annUn S base o [] o
  (uspfsCellsAny P c S base o).flatMap (fun d => d.sols.map (unSol ann ann.data.lcaSet))

/-- The single result `Entry` (MIN, ANY) fed by every refinement: one of the offered
    outputs of minimum evaluated cost. -/
def rankOutsAny (pick : List Out → Option Out) (c : Costs) (mode : LabelMode) (data : LeafData)
    (outs : List Out) : List Out :=
  (pick (rankOuts c mode data outs)).toList

/-- `_spfs` under ANY on a possibly multifurcating input. -/
def spfsMultiAny (P : Picker Nat) (pick : List Out → Option Out) (c : Costs) (base : Bool)
    (tO tS : NTree) (data : LeafData) (prescribed : Option (List Nat)) : List Out :=
  rankOutsAny pick c .ordered data
    (multiCands tO tS data (fun S o => spfsCandsAny P c S base o prescribed))

/-- `_uspfs` under ANY on a possibly multifurcating input. -/
def uspfsMultiAny (P : Picker Kind) (pick : List Out → Option Out) (c : Costs) (base : Bool)
    (tO tS : NTree) (data : LeafData) : List Out :=
  rankOutsAny pick c .unordered data
    (multiCands tO tS data (fun S o => uspfsCandsAny P c S base o))

/-- Variant: every refined input solved to the end under ANY (`spfsAny`, its own result
    entry), the single outputs offered to an outer result entry under ANY. -/
def spfsMultiAnyNested (P : Picker Nat) (pick : List Out → Option Out) (c : Costs) (base : Bool)
    (tO tS : NTree) (data : LeafData) (prescribed : Option (List Nat)) : List Out :=
  rankOutsAny pick c .ordered data
    (multiCands tO tS data (fun S o => spfsAny P c S base o prescribed))

def uspfsMultiAnyNested (P : Picker Kind) (pick : List Out → Option Out) (c : Costs) (base : Bool)
    (tO tS : NTree) (data : LeafData) : List Out :=
  rankOutsAny pick c .unordered data
    (multiCands tO tS data (fun S o => uspfsAny P c S base o))

end Bin

end SR
