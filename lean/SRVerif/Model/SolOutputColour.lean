/-
  C12 (bridge, colours) — the embedding of `Model/SolOutput.lean` with the NHX `color`
  feature of the input trees.

  `ntOf` (hence `embInput`, `embPlain`, `embSuper`) builds trees without any colour, while
  an input file may carry `[&&NHX:color=…]` on any node of `object_tree` / `species_tree`
  (README "Adding color"), the reader (`Tree(s, format=1)`) keeps it as the feature `color`,
  the solvers never touch it and `to_dict` writes it back (`features=["color"]`).

  * `Colouring`: the colour (or none) of every species node and of every object node, by path
    — what the input file chose, next to the `Naming`.
  * `recolNT col t`: the tree `t` with the colour of the node at path `q` REPLACED by `col q`
    (names and shape untouched).
  * `ntOfC nm col t`: the named coloured tree of shape `t` (`ntOf` with colours); it is
    `recolNT col (ntOf nm t)` (`Proofs/SolOutputColour.lean: recolNT_ntOf`), and every named
    tree is one (`ntOfC_self`).
  * `RecInput.recolour`, …, `SRecOutput.recolour`: both trees of the input of an object
    recoloured, everything else (mappings, cost table, syntenies) untouched — the mappings are
    keyed by node (= path), not by name or colour.
  * `embPlainC` / `embSuperC`: the coloured embeddings = the uncoloured ones, recoloured.

  Core Lean only: linked into the driver (op `c12b_emb` with `scolours` / `ocolours`).
-/
import SRVerif.Model.SolOutput

namespace SR.SolOut

open SR SR.Ser

/-- The colours of the input file: species nodes and object nodes, by path. -/
structure Colouring where
  scol : Path → Option String
  ocol : Path → Option String

/-- No colour anywhere: the embedding of `Model/SolOutput.lean`. -/
def Colouring.blank : Colouring := { scol := fun _ => none, ocol := fun _ => none }

mutual
  /-- `t` with the colour of the node at path `q` replaced by `col q`. -/
  def recolNT : (Path → Option String) → NT → NT
    | col, .node n _ cs => .node n (col []) (recolL col cs 0)
  def recolL : (Path → Option String) → List NT → Nat → List NT
    | _, [], _ => []
    | col, c :: cs, i => recolNT (fun q => col (i :: q)) c :: recolL col cs (i + 1)
end

mutual
  /-- The named tree of shape `t` whose node at path `q` is called `nm q` and carries the
      colour `col q`. -/
  def ntOfC : (Path → String) → (Path → Option String) → RTree → NT
    | nm, col, .node cs => .node (nm []) (col []) (ntOfCL nm col cs 0)
  def ntOfCL : (Path → String) → (Path → Option String) → List RTree → Nat → List NT
    | _, _, [], _ => []
    | nm, col, c :: cs, i =>
      ntOfC (fun q => nm (i :: q)) (fun q => col (i :: q)) c :: ntOfCL nm col cs (i + 1)
end

mutual
  /-- The shape of a named tree. -/
  def shapeNT : NT → RTree
    | .node _ _ cs => .node (shapeL cs)
  def shapeL : List NT → List RTree
    | [] => []
    | c :: cs => shapeNT c :: shapeL cs
end

/-- The name of the node at a path (`""` off the tree). -/
def nameFn (t : NT) (q : Path) : String := t.nameAt q

/-- The colour of the node at a path (none off the tree). -/
def colFn (t : NT) (q : Path) : Option String :=
  match t.sub q with
  | some s => s.color
  | none => none

end SR.SolOut

namespace SR.Ser

open SR.SolOut

def RecInput.recolour (cl : Colouring) (i : RecInput) : RecInput :=
  { i with objectTree := recolNT cl.ocol i.objectTree
           speciesTree := recolNT cl.scol i.speciesTree }

def SRecInput.recolour (cl : Colouring) (i : SRecInput) : SRecInput :=
  { i with base := i.base.recolour cl }

def AnyInput.recolour (cl : Colouring) : AnyInput → AnyInput
  | .plain i => .plain (i.recolour cl)
  | .super i => .super (i.recolour cl)

def RecOutput.recolour (cl : Colouring) (x : RecOutput) : RecOutput :=
  { x with input := x.input.recolour cl }

def SRecOutput.recolour (cl : Colouring) (x : SRecOutput) : SRecOutput :=
  { x with input := x.input.recolour cl }

end SR.Ser

namespace SR.SolOut

open SR SR.Ser

/-- The input object of a file with colours `cl`. -/
def embInputC (nm : Naming) (cl : Colouring) (c : Costs) (S : RTree) (o : OTree) : RecInput :=
  (embInput nm c S o).recolour cl

/-- What `reconcile_thl` (`lca`, `exh`) returns for the solution `s` on an input with
    colours `cl`. -/
def embPlainC (nm : Naming) (cl : Colouring) (c : Costs) (S : RTree) (o : OTree) (withSyn : Bool)
    (s : Sol) : RecOutput :=
  (embPlain nm c S o withSyn s).recolour cl

/-- What the labelled solvers return on an input with colours `cl`. -/
def embSuperC (nm : Naming) (cl : Colouring) (arr : List String → List String) (c : Costs)
    (S : RTree) (o : OTree) (ordered : Bool) (s : Sol) : SRecOutput :=
  (embSuper nm arr c S o ordered s).recolour cl

end SR.SolOut
