/-
  C12 (bridge) — from a solver solution to the serialisable output object, and back.

  The solver models (`Model/Rec.lean`, `Model/Solvers.lean`) speak of `Sol`: the object
  tree annotated with a species (a path of the species tree) and a synteny (family ids)
  at every node; the serialiser model (`Model/Serialize.lean`) speaks of `RecOutput` /
  `SRecOutput`: two NAMED trees, name-free tree mappings keyed by node (= path), a
  cost table keyed by event, syntenies made of family NAMES.  This file connects them.

  * `Naming`: the names of the species nodes, of the object nodes and of the families
    (what the input file chose; `harness/sr.py` uses `default_sname`, `default_oname`,
    `fam_name`).  Nothing is assumed here; `Proofs/SolOutput.lean` asks that the names be
    pairwise distinct and safe on the nodes of the two trees, and `fname` injective.
  * `embPlain` / `embSuper`: what `ReconciliationOutput(input, object_species)` /
    `SuperReconciliationOutput(input, object_species, syntenies, ordered)` is for a
    solution `s` of the input `(c, S, o)`:
      - `object_tree`  the shape of `o` with the object names, no colour;
      - `species_tree` `S` with the species names;
      - `leaf_object_species`  leaf ↦ its species, leaves in pre-order;
      - `costs`  the five unit costs under their event names (`costTable`);
      - `leaf_syntenies`  leaf ↦ the LIST of its family names (super inputs);
      - `object_species`  node ↦ species, all nodes in pre-order;
      - `syntenies`  node ↦ family names: a LIST (ordered model) or a SET whose
        iteration order `arr` is arbitrary (unordered model);
      - `ordered`.
  * `evalPlain` / `evalSuper`: the evaluator of `Model/Rec.lean` (`totalCost`, what C06
    is about) run on the PARSED structure: `decode` walks the named object tree, reads
    the species of every node in `object_species`, the given species of every leaf in
    `leaf_object_species`, the synteny of every node in `syntenies` (through
    `Syn.serial`, i.e. a set through its sorted list — the order is immaterial for the
    unordered cost), the unit costs in the cost table.  Family names are replaced by
    numbers by a FIXED injection `strCode` (the evaluator only ever compares families),
    so the evaluator does not depend on the naming.  A node with a number of children
    other than 0 or 2, a node missing from a mapping, a missing or non-integer unit
    cost: `inf` (Python raises).

  Core Lean only.
-/
import SRVerif.Model.Rec
import SRVerif.Model.Serialize

namespace SR.SolOut

open SR SR.Ser

/-! ## Names -/

structure Naming where
  sname : Path → String
  oname : Path → String
  fname : Nat → String

/-- An injection of strings into the naturals (base `2^32` digits `code point + 1`). -/
def charsCode : List Char → Nat
  | [] => 0
  | c :: cs => (c.toNat + 1) + 4294967296 * charsCode cs

def strCode (s : String) : Nat := charsCode s.toList

/-! ## Trees -/

mutual
  /-- The named tree of shape `t` whose node at path `q` is called `nm q` (no colour). -/
  def ntOf : (Path → String) → RTree → NT
    | nm, .node cs => .node (nm []) none (ntOfL nm cs 0)
  def ntOfL : (Path → String) → List RTree → Nat → List NT
    | _, [], _ => []
    | nm, c :: cs, i => ntOf (fun q => nm (i :: q)) c :: ntOfL nm cs (i + 1)
end

end SR.SolOut

namespace SR

/-- The shape of an object tree. -/
def OTree.shape : OTree → RTree
  | .leaf _ _ => .node []
  | .node l r => .node [l.shape, r.shape]

/-- The input tree without the leaf syntenies (the evaluator never reads them). -/
def OTree.eraseFam : OTree → OTree
  | .leaf sp _ => .leaf sp []
  | .node l r => .node l.eraseFam r.eraseFam

def Sol.shape : Sol → RTree
  | .leaf _ _ => .node []
  | .node _ _ l r => .node [l.shape, r.shape]

/-- Apply `h` to the synteny of every node. -/
def Sol.mapFam (h : List Nat → List Nat) : Sol → Sol
  | .leaf s f => .leaf s (h f)
  | .node s f l r => .node s (h f) (l.mapFam h) (r.mapFam h)

end SR

namespace SR.SolOut

open SR SR.Ser

def cons2 {β : Type} (i : Nat) (x : Path × β) : Path × β := (i :: x.1, x.2)

/-- One entry per leaf of the input, in pre-order. -/
def leafMap {β : Type} (f : Path → List Nat → β) : OTree → List (Path × β)
  | .leaf sp fam => [([], f sp fam)]
  | .node l r => (leafMap f l).map (cons2 0) ++ (leafMap f r).map (cons2 1)

/-- One entry per node of the solution, in pre-order. -/
def nodeMap {β : Type} (f : Path → List Nat → β) : Sol → List (Path × β)
  | .leaf s g => [([], f s g)]
  | .node s g l r => ([], f s g) :: ((nodeMap f l).map (cons2 0) ++ (nodeMap f r).map (cons2 1))

/-! ## The embedding -/

/-- `costs`: the unit costs under the names of their events, in the order of
    `get_default_cost()`. -/
def costTable (c : Costs) : CostValues :=
  [(.node "SPECIATION", .fin c.spe), (.node "DUPLICATION", .fin c.dup),
   (.node "HORIZONTAL_TRANSFER", c.hgt), (.edge "FULL_LOSS", .fin c.floss),
   (.edge "SEGMENTAL_LOSS", .fin c.sloss)]

def embInput (nm : Naming) (c : Costs) (S : RTree) (o : OTree) : RecInput :=
  { objectTree := ntOf nm.oname o.shape
    speciesTree := ntOf nm.sname S
    leafObjectSpecies := leafMap (fun sp _ => sp) o
    costs := costTable c }

def embSInput (nm : Naming) (c : Costs) (S : RTree) (o : OTree) : SRecInput :=
  { base := embInput nm c S o
    leafSyntenies := leafMap (fun _ f => Syn.lst (f.map nm.fname)) o }

/-- The input object an output refers to: a `SuperReconciliationInput` when the file had
    leaf syntenies (`withSyn`), else a `ReconciliationInput`. -/
def embAnyInput (nm : Naming) (c : Costs) (S : RTree) (o : OTree) (withSyn : Bool) : AnyInput :=
  if withSyn then .super (embSInput nm c S o) else .plain (embInput nm c S o)

/-- What `reconcile_thl` (`lca`, `exh`) returns for the solution `s`. -/
def embPlain (nm : Naming) (c : Costs) (S : RTree) (o : OTree) (withSyn : Bool) (s : Sol) :
    RecOutput :=
  { input := embAnyInput nm c S o withSyn
    objectSpecies := nodeMap (fun sp _ => sp) s }

/-- A synteny as the labelled solvers store it: a list of family names (ordered), a set
    of family names in the iteration order `arr` (unordered). -/
def encSyn (nm : Naming) (arr : List String → List String) (ordered : Bool) (f : List Nat) : Syn :=
  if ordered then .lst (f.map nm.fname) else .set (arr (f.map nm.fname))

/-- What `sreconcile_*_spfs` (`ordered = true`) / `usreconcile_*_uspfs` (`false`) return. -/
def embSuper (nm : Naming) (arr : List String → List String) (c : Costs) (S : RTree) (o : OTree)
    (ordered : Bool) (s : Sol) : SRecOutput :=
  { input := .super (embSInput nm c S o)
    objectSpecies := nodeMap (fun sp _ => sp) s
    syntenies := nodeMap (fun _ f => encSyn nm arr ordered f) s
    ordered := ordered }

/-! ## The evaluator on the parsed structure -/

/-- The unit costs read from a cost table (`costs[NodeEvent.SPECIATION]`, …). -/
def decodeCosts (cv : CostValues) : Option Costs :=
  match cv.lookup (.node "SPECIATION"), cv.lookup (.node "DUPLICATION"),
        cv.lookup (.node "HORIZONTAL_TRANSFER"), cv.lookup (.edge "FULL_LOSS"),
        cv.lookup (.edge "SEGMENTAL_LOSS") with
  | some (.fin a), some (.fin b), some h, some (.fin d), some (.fin e) =>
    some { spe := a, dup := b, hgt := h, floss := d, sloss := e }
  | _, _, _, _, _ => none

mutual
  /-- Read the input tree (`OTree`, leaf syntenies left empty) and the solution (`Sol`)
      off a named binary object tree: `los` gives the species of the leaves, `os` the
      species of every node, `famAt` the synteny of every node; `p` is the path of the
      node from the root. -/
  def decode (los os : TreeMapping) (famAt : Path → List Nat) : NT → Path → Option (OTree × Sol)
    | .node _ _ cs, p =>
      match decodeL los os famAt cs p 0 with
      | some [] =>
        match los.lookup p, os.lookup p with
        | some g, some s => some (.leaf g [], .leaf s (famAt p))
        | _, _ => none
      | some [(ol, sl), (or, sr)] =>
        match os.lookup p with
        | some s => some (.node ol or, .node s (famAt p) sl sr)
        | none => none
      | _ => none
  def decodeL (los os : TreeMapping) (famAt : Path → List Nat) :
      List NT → Path → Nat → Option (List (OTree × Sol))
    | [], _, _ => some []
    | c :: cs, p, i =>
      match decode los os famAt c (p ++ [i]), decodeL los os famAt cs p (i + 1) with
      | some x, some xs => some (x :: xs)
      | _, _ => none
end

/-- `cost()` of the object made of the input `i`, the species mapping `m` and the
    syntenies `famAt`, under the labelling model `mode`. -/
def evalWith (mode : LabelMode) (i : RecInput) (m : TreeMapping) (famAt : Path → List Nat) : Cost :=
  match decodeCosts i.costs, decode i.leafObjectSpecies m famAt i.objectTree [] with
  | some c, some (o, t) => totalCost c mode o t
  | _, _ => .inf

/-- `ReconciliationOutput.cost()`. -/
def evalPlain (i : RecInput) (m : TreeMapping) : Cost := evalWith .plain i m (fun _ => [])

/-- The synteny of a node as numbers (`[]` for a node without synteny). -/
def synFam (syn : SynMapping) (p : Path) : List Nat :=
  match syn.lookup p with
  | some x => x.serial.map strCode
  | none => []

/-- `SuperReconciliationOutput.cost()`. -/
def evalSuper (i : RecInput) (m : TreeMapping) (syn : SynMapping) (ordered : Bool) : Cost :=
  evalWith (if ordered then .ordered else .unordered) i m (synFam syn)

end SR.SolOut
