/-
  C11 — model of the dictionary (JSON) form of the four model classes of
  `superrec2/model/reconciliation.py` and of the name-keyed mapping helpers of
  `model/tree_mapping.py` and `model/synteny.py`.

  * A tree is a named tree `NT` (name, optional NHX `color` feature, ordered
    children).  A node of a tree is its path from the root (`SR.Path`): this is
    object identity of ete3 `TreeNode`s.
  * Python `dict`s are association lists in insertion order; `Dict.ofList`
    reproduces "a later item with an existing key replaces the value in place".
  * `tree & name` is `findPath`: first node *in level order* (ete3's default
    `traverse()` strategy) carrying the name, `TreeError` if there is none.
  * The Newick writer (`Tree.write(format=8, format_root_node=True,
    features=["color"])`) and reader (`Tree(s, format=1)`) are PARAMETERS
    `write`/`read` of `toDict`/`fromDict`: ete3 is trusted, not modelled.
  * json.dumps / json.loads are not modelled: the dictionary form is a
    structure whose optional keys are `Option`s.

  Core Lean only: linked into the driver.
-/
import SRVerif.Model.Paths
import SRVerif.Generated.Registry

namespace SR.Ser

/-! ## Named trees -/

inductive NT where
  | node (name : String) (color : Option String) (children : List NT)
  deriving Repr, Inhabited

namespace NT

def name : NT → String
  | node n _ _ => n

def color : NT → Option String
  | node _ c _ => c

def children : NT → List NT
  | node _ _ cs => cs

def isLeaf (t : NT) : Bool := t.children.isEmpty

mutual
  def beq : NT → NT → Bool
    | node n c cs, node n' c' cs' => n == n' && c == c' && beqL cs cs'
  def beqL : List NT → List NT → Bool
    | [], [] => true
    | a :: as, b :: bs => beq a b && beqL as bs
    | _, _ => false
end

mutual
  theorem beq_iff : ∀ (a b : NT), beq a b = true ↔ a = b
    | node n c cs, node n' c' cs' => by
      simp only [beq, Bool.and_eq_true, beq_iff_eq, beqL_iff cs cs', node.injEq, and_assoc]
  theorem beqL_iff : ∀ (a b : List NT), beqL a b = true ↔ a = b
    | [], [] => by simp [beqL]
    | [], _ :: _ => by simp [beqL]
    | _ :: _, [] => by simp [beqL]
    | a :: as, b :: bs => by
      simp only [beqL, Bool.and_eq_true, beq_iff a b, beqL_iff as bs, List.cons.injEq]
end

instance : DecidableEq NT := fun a b => decidable_of_iff _ (beq_iff a b)

mutual
  /-- Number of nodes. -/
  def size : NT → Nat
    | node _ _ cs => 1 + sizeL cs
  def sizeL : List NT → Nat
    | [] => 0
    | c :: cs => size c + sizeL cs
end

/-- The subtree at a path, if the path denotes a node. -/
def sub : NT → Path → Option NT
  | t, [] => some t
  | t, i :: p =>
    match t.children[i]? with
    | some c => sub c p
    | none => none

mutual
  /-- All nodes with their paths, in pre-order (`traverse("preorder")`). -/
  def pre : NT → List (Path × NT)
    | node n c cs => ([], node n c cs) :: preL cs 0
  def preL : List NT → Nat → List (Path × NT)
    | [], _ => []
    | c :: cs, i => (pre c).map (fun x => (i :: x.1, x.2)) ++ preL cs (i + 1)
end

/-- Node names in pre-order. -/
def names (t : NT) : List String := t.pre.map (·.2.name)

/-- Children of a node known by its path, with their paths. -/
def childrenP (x : Path × NT) : List (Path × NT) :=
  go x.1 0 x.2.children
where
  go (p : Path) : Nat → List NT → List (Path × NT)
    | _, [] => []
    | i, c :: cs => (p ++ [i], c) :: go p (i + 1) cs

/-- Breadth-first enumeration, one level at a time (ete3
    `_iter_descendants_levelorder`: a deque, pop left, extend with the
    children).  `fuel` bounds the number of levels. -/
def bfs : Nat → List (Path × NT) → List (Path × NT)
  | 0, _ => []
  | fuel + 1, lvl =>
    match lvl with
    | [] => []
    | _ :: _ => lvl ++ bfs fuel (lvl.flatMap childrenP)

/-- All nodes with their paths in level order (`traverse()` default).  A tree
    has fewer levels than nodes (`Proofs/Serialize.lean: mem_levelOrder`). -/
def levelOrder (t : NT) : List (Path × NT) := bfs t.size [([], t)]

/-- `tree & name`: the first node in level order with that name. -/
def findPath (t : NT) (nm : String) : Option Path :=
  ((levelOrder t).find? (fun x => x.2.name == nm)).map (·.1)

/-- `name in tree` (`TreeNode.__contains__` with a string). -/
def hasName (t : NT) (nm : String) : Bool := t.names.contains nm

/-- Name of the node at a path (`""` if the path is not a node: never queried). -/
def nameAt (t : NT) (p : Path) : String :=
  match t.sub p with
  | some s => s.name
  | none => ""

/-- Leaves with their paths, in pre-order (`for leaf in tree`, `iter_leaves`). -/
def leavesP (t : NT) : List (Path × NT) := t.pre.filter (·.2.isLeaf)

/-- All node names are pairwise distinct. -/
def UniqueNames (t : NT) : Prop := t.names.Nodup

instance (t : NT) : Decidable (UniqueNames t) := inferInstanceAs (Decidable (List.Nodup _))

/-- Letters, digits, underscore. -/
def safeChar (c : Char) : Bool := c.isAlphanum || c == '_' || c == '.' || c == '-'

def safeStr (s : String) : Bool := !s.toList.isEmpty && s.toList.all safeChar

/-- Every name is a non-empty word over `[A-Za-z0-9_.-]`, and so is every colour
    feature that is present. -/
def SafeNames (t : NT) : Prop :=
  ∀ x ∈ t.pre, safeStr x.2.name = true ∧ ∀ c, x.2.color = some c → safeStr c = true

instance (t : NT) : Decidable (SafeNames t) := by unfold SafeNames; infer_instance

end NT

/-! ## Python dictionaries as association lists -/

namespace Dict

variable {κ ν : Type} [BEq κ]

/-- `d[k] = v`: replace the value in place if the key exists, else append. -/
def set : List (κ × ν) → κ → ν → List (κ × ν)
  | [], k, v => [(k, v)]
  | (k', v') :: r, k, v => if k' == k then (k', v) :: r else (k', v') :: set r k v

/-- A dict comprehension / `dict(pairs)`: successive assignments. -/
def ofList (l : List (κ × ν)) : List (κ × ν) := l.foldl (fun d kv => set d kv.1 kv.2) []

end Dict

/-! ## Errors -/

inductive Err where
  | treeError       -- `tree & name`: node not found
  | keyError        -- a required key of the dictionary is missing
  | attributeError  -- a cost key that is no event name
  | newickError     -- the Newick reader rejected the string
  deriving DecidableEq, Repr, Inhabited

def find (t : NT) (nm : String) : Except Err Path :=
  match t.findPath nm with
  | some p => .ok p
  | none => .error .treeError

/-! ## Tree mappings (`model/tree_mapping.py`) -/

/-- A `TreeMapping`: node of the first tree ↦ node of the second tree. -/
abbrev TreeMapping := List (Path × Path)

/-- `serialize_tree_mapping`: `{from_node.name: to_node.name for …}`. -/
def serializeTreeMapping (ft tt : NT) (m : TreeMapping) : List (String × String) :=
  Dict.ofList (m.map (fun x => (ft.nameAt x.1, tt.nameAt x.2)))

/-- `parse_tree_mapping`: `{from_tree & a: to_tree & b for a, b in data.items()}`. -/
def parseTreeMapping (ft tt : NT) (data : List (String × String)) : Except Err TreeMapping := do
  let l ← data.mapM (fun x => do
    let a ← find ft x.1
    let b ← find tt x.2
    pure (a, b))
  pure (Dict.ofList l)

/-! ## Syntenies (`model/synteny.py`) -/

/-- A synteny value: a Python `list` (ordered) or a `set` (a duplicate-free list
    in the set's iteration order). -/
inductive Syn where
  | lst (l : List String)
  | set (l : List String)
  deriving DecidableEq, Repr, Inhabited

def Syn.items : Syn → List String
  | .lst l => l
  | .set l => l

abbrev SynMapping := List (Path × Syn)

/-- One element of a natural-sort key: a run of non-digits or the value of a
    run of digits. -/
inductive KeyPart where
  | str (s : List Char)
  | num (n : Nat)
  deriving DecidableEq, Repr

def digitsVal (ds : List Char) : Nat := ds.foldl (fun n c => 10 * n + (c.toNat - '0'.toNat)) 0

/-- `re.split("([0-9]+)", s)` followed by `int` on the digit runs: the list
    alternates `str`, `num`, `str`, …, begins and ends with a `str` (possibly
    empty).  `cur` is the current run (reversed); `inNum` tells its kind. -/
def keyAux : List Char → (cur : List Char) → (inNum : Bool) → List KeyPart
  | [], cur, false => [.str cur.reverse]
  | [], cur, true => [.num (digitsVal cur.reverse), .str []]
  | c :: cs, cur, false =>
    if c.isDigit then .str cur.reverse :: keyAux cs [c] true else keyAux cs (c :: cur) false
  | c :: cs, cur, true =>
    if c.isDigit then keyAux cs (c :: cur) true
    else .num (digitsVal cur.reverse) :: keyAux cs [c] false

def sortKey (s : String) : List KeyPart := keyAux s.toList [] false

/-- Strict order of Python strings (by code point). -/
def ltChars : List Char → List Char → Bool
  | [], [] => false
  | [], _ :: _ => true
  | _ :: _, [] => false
  | a :: as, b :: bs => if a.toNat < b.toNat then true else if b.toNat < a.toNat then false else ltChars as bs

/-- Strict order of key parts.  Parts of different kinds never meet (the kind
    is the parity of the index); totalised with numbers first. -/
def KeyPart.lt : KeyPart → KeyPart → Bool
  | .str a, .str b => ltChars a b
  | .num a, .num b => a < b
  | .num _, .str _ => true
  | .str _, .num _ => false

/-- Python's list comparison `a < b`. -/
def keyLt : List KeyPart → List KeyPart → Bool
  | [], [] => false
  | [], _ :: _ => true
  | _ :: _, [] => false
  | a :: as, b :: bs => if a.lt b then true else if b.lt a then false else keyLt as bs

/-- Insert before the first element whose key is not smaller (keeps `sorted`
    stable when elements are inserted from the right). -/
def insertSyn (x : String) : List String → List String
  | [] => [x]
  | y :: ys => if keyLt (sortKey y) (sortKey x) then y :: insertSyn x ys else x :: y :: ys

/-- `sort_synteny`: stable sort by the natural-sort key. -/
def sortSynteny (l : List String) : List String := l.foldr insertSyn []

/-- What `serialize_synteny_mapping` writes for one synteny. -/
def Syn.serial : Syn → List String
  | .lst l => l
  | .set l => sortSynteny l

/-- `serialize_synteny_mapping`. -/
def serializeSynMapping (t : NT) (m : SynMapping) : List (String × List String) :=
  Dict.ofList (m.map (fun x => (t.nameAt x.1, x.2.serial)))

/-- `parse_synteny_mapping`: `{tree & node: synteny for …}` (JSON arrays are lists). -/
def parseSynMapping (t : NT) (data : List (String × List String)) : Except Err SynMapping := do
  let l ← data.mapM (fun x => do
    let a ← find t x.1
    pure (a, Syn.lst x.2))
  pure (Dict.ofList l)

/-! ## Events and costs -/

/-- A member of `NodeEvent` or of `EdgeEvent`, by member name. -/
inductive Event where
  | node (name : String)
  | edge (name : String)
  deriving DecidableEq, Repr, Inhabited

def Event.name : Event → String
  | .node n => n
  | .edge n => n

/-- The event is a member of its enumeration (table generated from the source). -/
def Event.valid : Event → Bool
  | .node n => Gen.nodeEventNames.contains n
  | .edge n => Gen.edgeEventNames.contains n

/-- `getattr(NodeEvent, s) if hasattr(NodeEvent, s) else getattr(EdgeEvent, s)`
    (restricted to member names). -/
def eventOfName (s : String) : Except Err Event :=
  if Gen.nodeEventNames.contains s then .ok (.node s)
  else if Gen.edgeEventNames.contains s then .ok (.edge s)
  else .error .attributeError

abbrev CostValues := List (Event × Cost)

def eventOfClass (cls nm : String) : Event :=
  if cls == "NodeEvent" then .node nm else .edge nm

/-- `get_default_cost()`. -/
def defaultCost : CostValues :=
  Gen.defaultCost.map (fun x => (eventOfClass x.1 x.2.1, Cost.fin x.2.2))

def serializeCosts (c : CostValues) : List (String × Cost) :=
  Dict.ofList (c.map (fun x => (x.1.name, x.2)))

def parseCosts (data : List (String × Cost)) : Except Err CostValues := do
  let l ← data.mapM (fun x => do
    let e ← eventOfName x.1
    pure (e, x.2))
  pure (Dict.ofList l)

/-! ## `get_species_mapping` (used by `from_dict` when `leaf_object_species` is absent) -/

/-- `str.split("_")` on characters. -/
def splitU : List Char → List (List Char)
  | [] => [[]]
  | c :: cs =>
    match splitU cs with
    | [] => [[]]        -- unreachable
    | p :: ps => if c == '_' then [] :: p :: ps else (c :: p) :: ps

/-- `"_".join(parts)`. -/
def joinU : List (List Char) → List Char
  | [] => []
  | [p] => p
  | p :: q :: ps => p ++ '_' :: joinU (q :: ps)

def lowerChars (cs : List Char) : List Char := cs.map Char.toLower

/-- The prefixes tried for a leaf name, in order:
    `"_".join(parts[:i]).lower()` for `i` in `range(1, len(parts))`. -/
def prefixCands (nm : List Char) : List (List Char) :=
  let parts := splitU nm
  (List.range' 1 (parts.length - 1)).map (fun i => lowerChars (joinU (parts.take i)))

/-- `species_ignorecase`: lower-cased name ↦ leaf of the species tree
    (non-empty names only; a later leaf with the same key replaces the earlier). -/
def speciesTable (st : NT) : List (List Char × Path) :=
  Dict.ofList ((st.leavesP.filter (fun x => x.2.name != "")).map
    (fun x => (lowerChars x.2.name.toList, x.1)))

/-- Species of one leaf name: the first candidate prefix found in the table. -/
def speciesOfName (table : List (List Char × Path)) (nm : String) : Option Path :=
  (prefixCands nm.toList).findSome? (fun c => table.lookup c)

/-- `get_species_mapping(tree, species_tree)`. -/
def getSpeciesMapping (ot st : NT) : TreeMapping :=
  let table := speciesTable st
  ot.leavesP.filterMap (fun x => (speciesOfName table x.2.name).map (fun s => (x.1, s)))

/-! ## The four classes -/

structure RecInput where
  objectTree : NT
  speciesTree : NT
  leafObjectSpecies : TreeMapping
  costs : CostValues
  deriving DecidableEq, Repr

structure SRecInput where
  base : RecInput
  leafSyntenies : SynMapping
  deriving DecidableEq, Repr

/-- The `input` attribute of an output is whatever object was passed: Python
    does not check the annotation (`lca` run on a super-reconciliation input
    keeps it; `from_dict` always builds a plain `ReconciliationInput`). -/
inductive AnyInput where
  | plain (i : RecInput)
  | super (i : SRecInput)
  deriving DecidableEq, Repr

def AnyInput.base : AnyInput → RecInput
  | .plain i => i
  | .super i => i.base

structure RecOutput where
  input : AnyInput
  objectSpecies : TreeMapping
  deriving DecidableEq, Repr

structure SRecOutput where
  input : AnyInput
  objectSpecies : TreeMapping
  syntenies : SynMapping
  ordered : Bool
  deriving DecidableEq, Repr

/-- Dictionary form of an input; absent keys are `none`. -/
structure InputDict where
  object_tree : String
  species_tree : String
  leaf_object_species : Option (List (String × String))
  costs : Option (List (String × Cost))
  leaf_syntenies : Option (List (String × List String))
  deriving DecidableEq, Repr

/-- Dictionary form of an output. -/
structure OutputDict where
  input : InputDict
  object_species : List (String × String)
  syntenies : Option (List (String × List String))
  ordered : Option Bool
  deriving DecidableEq, Repr

/-! ## A model of the Newick writer (tie only)

`Tree.write(format=8, format_root_node=True, features=["color"])` on names and
colours that need no escaping.  It is NOT used by any theorem (those take the
writer as a parameter); it instantiates `toDict` in the driver so that the
whole dictionary can be compared with the real `to_dict()`. -/

mutual
  def writeNode : NT → String
    | .node n c cs =>
      let kids := match cs with
        | [] => ""
        | _ :: _ => "(" ++ ",".intercalate (writeNodes cs) ++ ")"
      let nm := if n == "" then "NoName" else n
      let col := match c with
        | some v => "[&&NHX:color=" ++ v ++ "]"
        | none => ""
      kids ++ nm ++ col
  def writeNodes : List NT → List String
    | [] => []
    | c :: cs => writeNode c :: writeNodes cs
end

def writeNewick (t : NT) : String := writeNode t ++ ";"

section
variable (write : NT → String) (read : String → Option NT)

def readTree (s : String) : Except Err NT :=
  match read s with
  | some t => .ok t
  | none => .error .newickError

/-- `ReconciliationInput.to_dict`. -/
def RecInput.toDict (x : RecInput) : InputDict :=
  { object_tree := write x.objectTree
    species_tree := write x.speciesTree
    leaf_object_species := some (serializeTreeMapping x.objectTree x.speciesTree x.leafObjectSpecies)
    costs := some (serializeCosts x.costs)
    leaf_syntenies := none }

/-- `SuperReconciliationInput.to_dict`. -/
def SRecInput.toDict (x : SRecInput) : InputDict :=
  { x.base.toDict write with
    leaf_syntenies := some (serializeSynMapping x.base.objectTree x.leafSyntenies) }

def AnyInput.toDict : AnyInput → InputDict
  | .plain i => i.toDict write
  | .super i => i.toDict write

/-- `ReconciliationInput._from_dict` + `from_dict`. -/
def RecInput.fromDict (d : InputDict) : Except Err RecInput := do
  let ot ← readTree read d.object_tree
  let st ← readTree read d.species_tree
  let los ← match d.leaf_object_species with
    | some l => parseTreeMapping ot st l
    | none => pure (getSpeciesMapping ot st)
  let costs ← match d.costs with
    | some l => parseCosts l
    | none => pure defaultCost
  pure { objectTree := ot, speciesTree := st, leafObjectSpecies := los, costs := costs }

/-- `SuperReconciliationInput.from_dict`. -/
def SRecInput.fromDict (d : InputDict) : Except Err SRecInput := do
  let parent ← RecInput.fromDict read d
  match d.leaf_syntenies with
  | none => .error .keyError
  | some l =>
    let ls ← parseSynMapping parent.objectTree l
    pure { base := parent, leafSyntenies := ls }

/-- `ReconciliationOutput.to_dict`. -/
def RecOutput.toDict (x : RecOutput) : OutputDict :=
  { input := x.input.toDict write
    object_species :=
      serializeTreeMapping x.input.base.objectTree x.input.base.speciesTree x.objectSpecies
    syntenies := none
    ordered := none }

/-- `SuperReconciliationOutput.to_dict`. -/
def SRecOutput.toDict (x : SRecOutput) : OutputDict :=
  { input := x.input.toDict write
    object_species :=
      serializeTreeMapping x.input.base.objectTree x.input.base.speciesTree x.objectSpecies
    syntenies := some (serializeSynMapping x.input.base.objectTree x.syntenies)
    ordered := some x.ordered }

/-- `ReconciliationOutput.from_dict`: the input is rebuilt with
    `ReconciliationInput.from_dict`, whatever the class of the original. -/
def RecOutput.fromDict (d : OutputDict) : Except Err RecOutput := do
  let inp ← RecInput.fromDict read d.input
  let os ← parseTreeMapping inp.objectTree inp.speciesTree d.object_species
  pure { input := .plain inp, objectSpecies := os }

/-- `SuperReconciliationOutput.from_dict`; `ordered` defaults to `True`. -/
def SRecOutput.fromDict (d : OutputDict) : Except Err SRecOutput := do
  let parent ← RecOutput.fromDict read d
  match d.syntenies with
  | none => .error .keyError
  | some l =>
    let syn ← parseSynMapping parent.input.base.objectTree l
    pure { input := parent.input, objectSpecies := parent.objectSpecies, syntenies := syn,
           ordered := d.ordered.getD true }

end

end SR.Ser
