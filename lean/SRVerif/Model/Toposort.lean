/-
  Model of `superrec2/utils/toposort.py` (`toposort`, `_toposort_all_bt`,
  `toposort_all`) and of `_make_prec_graph`
  (`superrec2/compute/super_reconciliation.py`).  Core Lean only.

  A graph (`Mapping[Node, Set[Node]]`) is an association list
  vertex ↦ successor list, in dict insertion order.  Python sets are
  duplicate-free lists; the in-degree dict is an association list with
  integer values (Python ints: a decrement may go below zero).
-/

namespace SR.Toposort

abbrev Graph := List (Nat × List Nat)

/-- The exceptions the Python code can raise, plus fuel exhaustion (never
    happens: see `Proofs/Toposort*.lean`). -/
inductive Err where
  | keyError
  | valueError
  | indexError
  | fuel
  deriving DecidableEq, Repr

abbrev Indeg := List (Nat × Int)

def keys (g : Graph) : List Nat := g.map (·.1)

/-- `graph[node]`. -/
def getSuccs (g : Graph) (x : Nat) : Except Err (List Nat) :=
  match g.lookup x with
  | none => .error .keyError
  | some ss => .ok ss

/-- `{node: 0 for node in graph}`. -/
def Indeg.init (g : Graph) : Indeg := g.map (fun p => (p.1, (0 : Int)))

/-- `indeg[k] = x` for a key that is present. -/
def Indeg.set (I : Indeg) (k : Nat) (x : Int) : Indeg :=
  I.map (fun p => if p.1 = k then (k, x) else p)

/-- `indeg[k] += d`; also returns the new value (`KeyError` if absent). -/
def Indeg.bump (I : Indeg) (k : Nat) (d : Int) : Except Err (Indeg × Int) :=
  match I.lookup k with
  | none => .error .keyError
  | some x => .ok (I.set k (x + d), x + d)

/-- `set.add`. -/
def setAdd (s : List Nat) (v : Nat) : List Nat := if v ∈ s then s else s ++ [v]

/-- `deque.append`. -/
def pushBack (s : List Nat) (v : Nat) : List Nat := s ++ [v]

/-- One iteration of
    `for node_to in graph[node_from]: indeg[node_to] -= 1;
       if indeg[node_to] == 0: starts.append/add(node_to)`. -/
def decOne (push : List Nat → Nat → List Nat) (st : List Nat × Indeg) (v : Nat) :
    Except Err (List Nat × Indeg) :=
  match st.2.bump v (-1) with
  | .error e => .error e
  | .ok (I', x) => .ok (if x = 0 then push st.1 v else st.1, I')

def decAll (push : List Nat → Nat → List Nat) (succs : List Nat) (st : List Nat × Indeg) :
    Except Err (List Nat × Indeg) :=
  succs.foldlM (decOne push) st

/-- `for node_to in graph[node_from]: indeg[node_to] += 1`. -/
def incOne (I : Indeg) (v : Nat) : Except Err Indeg :=
  match I.bump v 1 with
  | .error e => .error e
  | .ok (I', _) => .ok I'

def incAll (succs : List Nat) (I : Indeg) : Except Err Indeg :=
  succs.foldlM incOne I

/-! ### `toposort` (Kahn) -/

/-- `if indeg[succ] == 0: starts.remove(succ)` then `indeg[succ] += 1`
    (`deque.remove` raises `ValueError` on an absent element). -/
def kahnInitOne (st : List Nat × Indeg) (succ : Nat) : Except Err (List Nat × Indeg) :=
  match st.2.lookup succ with
  | none => .error .keyError
  | some x =>
    if x = 0 then
      if succ ∈ st.1 then .ok (st.1.erase succ, st.2.set succ (x + 1))
      else .error .valueError
    else .ok (st.1, st.2.set succ (x + 1))

/-- `for succs in graph.values(): for succ in succs: …`. -/
def kahnInit (g : Graph) : Except Err (List Nat × Indeg) :=
  g.foldlM (fun st p => p.2.foldlM kahnInitOne st) (keys g, Indeg.init g)

/-- The `while starts:` loop; `fuel` bounds the number of iterations. -/
def kahnLoop (g : Graph) : Nat → List Nat → Indeg → List Nat → Except Err (List Nat)
  | 0, _, _, _ => .error .fuel
  | fuel + 1, starts, I, result =>
    match starts with
    | [] => .ok result
    | x :: rest =>
      match getSuccs g x with
      | .error e => .error e
      | .ok succs =>
        match decAll pushBack succs (rest, I) with
        | .error e => .error e
        | .ok (starts', I') => kahnLoop g fuel starts' I' (result ++ [x])

def toposort (g : Graph) : Except Err (Option (List Nat)) :=
  match kahnInit g with
  | .error e => .error e
  | .ok (starts, I) =>
    match kahnLoop g (g.length + 1) starts I [] with
    | .error e => .error e
    | .ok result => .ok (if result.length = g.length then some result else none)

/-! ### `toposort_all` (backtracking) -/

/-- `starts.discard(succ)` then `indeg[succ] += 1`. -/
def allInitOne (st : List Nat × Indeg) (succ : Nat) : Except Err (List Nat × Indeg) :=
  match st.2.bump succ 1 with
  | .error e => .error e
  | .ok (I', _) => .ok (st.1.erase succ, I')

def allInit (g : Graph) : Except Err (List Nat × Indeg) :=
  g.foldlM (fun st p => p.2.foldlM allInitOne st) (keys g, Indeg.init g)

/-- Body of `for node_from in starts:` in `_toposort_all_bt`, given the
    recursive call `rec`.  State: the `results` list and the (mutated and
    restored) in-degree dict. -/
def btStep (g : Graph) (rec : List Nat → Indeg → Except Err (List (List Nat) × Indeg))
    (starts : List Nat) (st : List (List Nat) × Indeg) (x : Nat) :
    Except Err (List (List Nat) × Indeg) :=
  match getSuccs g x with
  | .error e => .error e
  | .ok succs =>
    match decAll setAdd succs (starts.erase x, st.2) with
    | .error e => .error e
    | .ok (next, I1) =>
      match rec next I1 with
      | .error e => .error e
      | .ok (sub, I2) =>
        match incAll succs I2 with
        | .error e => .error e
        | .ok I3 => .ok (st.1 ++ sub.map (· ++ [x]), I3)

/-- `_toposort_all_bt(starts, graph, indeg)`: results (each reversed, as in
    the code) together with the final state of the shared `indeg` dict. -/
def bt (g : Graph) : Nat → List Nat → Indeg → Except Err (List (List Nat) × Indeg)
  | 0, _, _ => .error .fuel
  | fuel + 1, starts, I =>
    match starts with
    | [] => .ok ([[]], I)
    | _ :: _ => starts.foldlM (btStep g (bt g fuel) starts) ([], I)

/-- `for subresult in results: if len(subresult) != len(graph): return []`
    `; subresult.reverse()` — `none` stands for the early `return []`. -/
def checkRev (n : Nat) : List (List Nat) → Option (List (List Nat))
  | [] => some []
  | r :: rs =>
    if r.length ≠ n then none
    else match checkRev n rs with
      | none => none
      | some out => some (r.reverse :: out)

def toposortAll (g : Graph) : Except Err (List (List Nat)) :=
  match allInit g with
  | .error e => .error e
  | .ok (starts, I) =>
    match bt g (g.length + 1) starts I with
    | .error e => .error e
    | .ok (results, _) => .ok ((checkRev g.length results).getD [])

/-! ### `_make_prec_graph` -/

/-- `if a not in prec: prec[a] = set()`. -/
def ensureKey (g : Graph) (a : Nat) : Graph :=
  if a ∈ keys g then g else g ++ [(a, [])]

/-- `prec[a].add(b)` for a key that is present. -/
def addSucc (g : Graph) (a b : Nat) : Graph :=
  g.map (fun p => if p.1 = a then (p.1, setAdd p.2 b) else p)

/-- One iteration of the `zip` loop. -/
def addEdge (g : Graph) (e : Nat × Nat) : Graph := addSucc (ensureKey g e.1) e.1 e.2

/-- One leaf synteny: `zip(s[0:-1], s[1:])`, then `s[-1]` (IndexError when
    empty). -/
def precOne (g : Graph) (s : List Nat) : Except Err Graph :=
  let g1 := (s.dropLast.zip s.tail).foldl addEdge g
  match s.getLast? with
  | none => .error .indexError
  | some l => .ok (ensureKey g1 l)

def precGraph (syns : List (List Nat)) : Except Err Graph :=
  syns.foldlM precOne []

end SR.Toposort
