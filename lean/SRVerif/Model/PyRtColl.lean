/-
  Run-time prelude of the Python -> Lean translator (`harness/translate_py.py`), second part:
  `dict`, `set` and `collections.deque` (used by `Generated/TopoPy.lean`, C19).
  Hand-written, core Lean only; extends `SRVerif/Model/PyRt.lean` (namespace `SR.Py`).

  Representation (see the docstring of translate_py.py, "Dicts, sets, deques"):
  * a `dict` is the association list of its items in INSERTION order (what Python specifies for
    iteration over a dict and its views); `d[k] = v` keeps the place of a key that is present and
    appends a new key; a dict handed in by the caller is assumed to have pairwise different keys;
  * a `set` is the list of its elements in insertion order (`add` appends a new element,
    `remove` / `discard` erase it); the ITERATION order of a set is not specified by Python: the
    generated functions take it as the explicit parameter `ord_` (`Py.SetOrder`), applied to this
    list — except for the sets held by a dict parameter that is never changed, which the caller
    gives as the list of their elements in iteration order;
  * a `deque` is a list (`popleft` takes the head, `append` adds at the end).
-/
import SRVerif.Model.PyRt

namespace SR.Py

variable {κ β α : Type}

/-- `d.keys()` / iteration over a dict: the keys in insertion order. -/
def dictKeys (d : List (κ × β)) : List κ := d.map (·.1)

/-- `d.values()`. -/
def dictValues (d : List (κ × β)) : List β := d.map (·.2)

/-- `d[k]` (`none` = `KeyError`). -/
def dictGet? [DecidableEq κ] : List (κ × β) → κ → Option β
  | [], _ => none
  | (k', v) :: d, k => if k' = k then some v else dictGet? d k

/-- `k in d`. -/
def dictHas [DecidableEq κ] (d : List (κ × β)) (k : κ) : Bool := (dictGet? d k).isSome

/-- `d[k] = v`: a key that is present keeps its place, a new key goes to the end. -/
def dictSet [DecidableEq κ] (d : List (κ × β)) (k : κ) (v : β) : List (κ × β) :=
  if dictHas d k then d.map (fun p => if p.1 = k then (k, v) else p) else d ++ [(k, v)]

/-- `{k: v for ..}`: the items in order, a later item replacing the value of an equal earlier key. -/
def dictOfList [DecidableEq κ] (l : List (κ × β)) : List (κ × β) :=
  l.foldl (fun d p => dictSet d p.1 p.2) []

/-- `set(xs)`: the distinct elements, in order of first insertion. -/
def setOfList [DecidableEq α] (xs : List α) : List α := dedup xs

/-- `s.add(v)`. -/
def setAdd [DecidableEq α] (s : List α) (v : α) : List α := if v ∈ s then s else s ++ [v]

/-- `s.discard(v)`. -/
def discard [DecidableEq α] (s : List α) (v : α) : List α := s.erase v

/-- `s.remove(v)` on a set (`none` = `KeyError`), `d.remove(v)` on a deque / list (first
    occurrence; `none` = `ValueError`). -/
def remove? [DecidableEq α] (s : List α) (v : α) : Option (List α) :=
  if v ∈ s then some (s.erase v) else none

/-- `d.popleft()`: the rest and the first element (`none` = `IndexError`). -/
def popleft? : List α → Option (List α × α)
  | [] => none
  | x :: rest => some (rest, x)

end SR.Py
