/-
  Model of the text-producing parts of the renderer (property C15).
  Core Lean only (no Mathlib): everything here is linked into the driver.

  Python counterparts (in /repo/src/superrec2):
    utils/tex.py        escape
    utils/text.py       _wrap_badness, balanced_wrap  (textwrap.wrap is modelled by `wrap`)
    model/synteny.py    sort_synteny, format_synteny
    render/layout.py    colour propagation of _compute_branches / _add_losses, node labels
    render/tikz.py      get_color, render (assembly over the generated templates)

  Strings are lists of characters (`Str`); `len` of a Python `str` is `List.length`.
-/

namespace SR.Tikz

abbrev Str := List Char

/-! ## Braces -/

/-- Scan with a depth counter; `none` as soon as a closing brace has no partner. -/
def balAux : Nat → Str → Option Nat
  | d, [] => some d
  | d, c :: r =>
    if c = '{' then balAux (d + 1) r
    else if c = '}' then (if d = 0 then none else balAux (d - 1) r)
    else balAux d r

/-- Every `}` closes an earlier `{` and nothing stays open. -/
def isBalanced (s : Str) : Bool := balAux 0 s == some 0

def isBrace (c : Char) : Bool := c == '{' || c == '}'

def braceFree (s : Str) : Bool := s.all (fun c => !isBrace c)

/-- Signed nesting depth (used by the specification side only). -/
def depth : Str → Int
  | [] => 0
  | c :: r => (if c = '{' then 1 else if c = '}' then -1 else 0) + depth r

/-! ## Templates (the values of `Generated/TikzTemplates.lean`) -/

/-- What an interpolated expression of an f-string is. -/
inductive HoleKind where
  | coord                       -- `{pos : {MAX_DIGITS}}`
  | num                         -- numeric field of `DrawParams`
  | unit                        -- string (TeX length) field of `DrawParams`
  | color                       -- `get_color(...)`
  | label                       -- escaped name / synteny label
  | index                       -- integer index of a colour
  | html                        -- HTML colour code
  | kw (choices : List Str)     -- one of finitely many constant strings
  | other                       -- unclassified (makes the generated obligations fail)
  deriving DecidableEq, Repr

inductive Piece where
  | lit (s : Str)
  | hole (k : HoleKind)
  deriving DecidableEq, Repr

abbrev Template := List Piece

/-- The assembly steps of `render`, in source order. -/
inductive Skel where
  | defs                       -- `result = [get_tikz_definitions(params)]`
  | perColor (t : Template)    -- `for i, html in enumerate(colors): result.append(t)`
  | line (t : Template)        -- `result.append(t)`
  | perLayer (t : Template)    -- `for name, layer in layers.items(): result.append(t); result.extend(layer)`
  deriving DecidableEq, Repr

/-- `\begin{tikzpicture}` (spelled out: string literals are slow to unfold in the kernel) -/
def beginPicture : Str :=
  ['\\', 'b', 'e', 'g', 'i', 'n', '{', 't', 'i', 'k', 'z', 'p', 'i', 'c', 't', 'u', 'r', 'e', '}']
/-- `\end{tikzpicture}` (spelled out: string literals are slow to unfold in the kernel) -/
def endPicture : Str :=
  ['\\', 'e', 'n', 'd', '{', 't', 'i', 'k', 'z', 'p', 'i', 'c', 't', 'u', 'r', 'e', '}']
/-- `\definecolor{` (spelled out: string literals are slow to unfold in the kernel) -/
def definecolorHead : Str :=
  ['\\', 'd', 'e', 'f', 'i', 'n', 'e', 'c', 'o', 'l', 'o', 'r', '{']
/-- `}{HTML}{` (spelled out: string literals are slow to unfold in the kernel) -/
def definecolorMid : Str :=
  ['}', '{', 'H', 'T', 'M', 'L', '}', '{']

def isPrefixOf : Str → Str → Bool
  | [], _ => true
  | _ :: _, [] => false
  | a :: p, b :: s => a == b && isPrefixOf p s

/-- Number of positions of `s` at which `pat` starts. -/
def countOcc (pat : Str) : Str → Nat
  | [] => 0
  | c :: r => (if isPrefixOf pat (c :: r) then 1 else 0) + countOcc pat r

namespace Template

/-- Depth scan over the literal pieces only (holes contribute nothing). -/
def balT : Nat → Template → Option Nat
  | d, [] => some d
  | d, .lit s :: r => match balAux d s with
    | none => none
    | some d' => balT d' r
  | d, .hole _ :: r => balT d r

/-- The literal skeleton is brace-balanced as a whole; in particular every hole
    sits at a nesting depth ≥ 0. -/
def litBalanced (t : Template) : Bool := balT 0 t == some 0

def holeOK : HoleKind → Bool
  | .kw cs => !cs.isEmpty && cs.all braceFree
  | .other => false
  | _ => true

def holesOK (t : Template) : Bool :=
  t.all fun
    | .lit _ => true
    | .hole k => holeOK k

/-- The last piece is a literal ending in `;`. -/
def terminated (t : Template) : Bool :=
  match t.getLast? with
  | some (.lit s) => s.getLast? == some ';'
  | _ => false

def noNewline (t : Template) : Bool :=
  t.all fun
    | .lit s => s.all (· != '\n')
    | .hole _ => true

def countLit (pat : Str) (t : Template) : Nat :=
  (t.map fun
    | .lit s => countOcc pat s
    | .hole _ => 0).sum

def startsWith (t : Template) (pre : Str) : Bool :=
  match t with
  | .lit s :: _ => isPrefixOf pre s
  | _ => false

def holes : Template → List HoleKind
  | [] => []
  | .lit _ :: r => holes r
  | .hole k :: r => k :: holes r

/-- Fill the holes from left to right (a missing filling is the empty string). -/
def instantiate : Template → List Str → Str
  | [], _ => []
  | .lit s :: r, fs => s ++ instantiate r fs
  | .hole _ :: r, [] => instantiate r []
  | .hole _ :: r, f :: fs => f ++ instantiate r fs

end Template

def isDigit (c : Char) : Bool := '0' ≤ c && c ≤ '9'
def isAlnum (c : Char) : Bool := isDigit c || ('a' ≤ c && c ≤ 'z') || ('A' ≤ c && c ≤ 'Z')

/-- The fillings a hole of each kind receives (the input space of `C15_balanced`). -/
def fillOK : HoleKind → Str → Bool
  | .coord, s => s.all fun c => isDigit c || c == '.' || c == ',' || c == '-' || c == '+' || c == 'e'
  | .num, s => s.all fun c => isDigit c || c == '.' || c == '-' || c == '+' || c == 'e'
  | .unit, s => braceFree s
  | .color, s => s.all isAlnum
  | .label, s => isBalanced s
  | .index, s => s.all isDigit
  | .html, s => s.all isAlnum
  | .kw cs, s => cs.contains s
  | .other, _ => false

def fillsOK : List HoleKind → List Str → Bool
  | [], [] => true
  | k :: ks, f :: fs => fillOK k f && fillsOK ks fs
  | _, _ => false

/-! ## `tex.escape` -/

/-- `text.replace("\\", "\\\\")`, per character. -/
def escBackslash (c : Char) : Str := if c = '\\' then ['\\', '\\'] else [c]

/-- `text.replace("_", "\\_")`, per character. -/
def escUnderscore (c : Char) : Str := if c = '_' then ['\\', '_'] else [c]

/-- Two sequential `str.replace` calls with one-character patterns. -/
def escape (s : Str) : Str := (s.flatMap escBackslash).flatMap escUnderscore

/-- Reads `\\` as `\` and `\_` as `_`. -/
def unescape : Str → Str
  | [] => []
  | [c] => [c]
  | c :: d :: r =>
    if c = '\\' ∧ (d = '\\' ∨ d = '_') then d :: unescape r else c :: unescape (d :: r)

/-- Tokenising into `\\`, `\_` and other characters leaves no bare `_` and no bare `\`. -/
def wellEscaped : Str → Bool
  | [] => true
  | [c] => c != '\\' && c != '_'
  | c :: d :: r =>
    if c = '\\' then (d == '\\' || d == '_') && wellEscaped r
    else c != '_' && wellEscaped (d :: r)

/-! ## Syntenies -/

/-- One element of the natural sort key: `DIGITS.split` alternates text and digit groups. -/
inductive KeyPart where
  | s (x : Str)
  | n (v : Nat)
  deriving DecidableEq, Repr

def digitsVal (ds : Str) : Nat := ds.foldl (fun a c => 10 * a + (c.toNat - '0'.toNat)) 0

/-- `[int(p) if p.isdigit() else p for p in re.split("([0-9]+)", obj)]`.
    `cur` is the reversed current group, `inDig` whether it is a digit group. -/
def natKeyGo (cur : Str) (inDig : Bool) (acc : List KeyPart) : Str → List KeyPart
  | [] => if inDig then (KeyPart.s [] :: KeyPart.n (digitsVal cur.reverse) :: acc).reverse
          else (KeyPart.s cur.reverse :: acc).reverse
  | c :: r =>
    if isDigit c then
      if inDig then natKeyGo (c :: cur) true acc r
      else natKeyGo [c] true (KeyPart.s cur.reverse :: acc) r
    else
      if inDig then natKeyGo [c] false (KeyPart.n (digitsVal cur.reverse) :: acc) r
      else natKeyGo (c :: cur) false acc r

def natKey (s : Str) : List KeyPart := natKeyGo [] false [] s

/-- Python `str` order: lexicographic by code point. -/
def strLt : Str → Str → Bool
  | [], [] => false
  | [], _ :: _ => true
  | _ :: _, [] => false
  | a :: x, b :: y => if a = b then strLt x y else decide (a.toNat < b.toNat)

def partLt : KeyPart → KeyPart → Bool
  | .s a, .s b => strLt a b
  | .n a, .n b => decide (a < b)
  | .s _, .n _ => true    -- never compared by Python on keys of this shape (TypeError otherwise)
  | .n _, .s _ => false

/-- Python list order on keys. -/
def keyLt : List KeyPart → List KeyPart → Bool
  | [], [] => false
  | [], _ :: _ => true
  | _ :: _, [] => false
  | a :: x, b :: y => if a = b then keyLt x y else partLt a b

def insertBy (le : α → α → Bool) (x : α) : List α → List α
  | [] => [x]
  | y :: ys => if le x y then x :: y :: ys else y :: insertBy le x ys

/-- Stable insertion sort (`sorted` is stable). -/
def sortBy (le : α → α → Bool) (l : List α) : List α := l.foldr (insertBy le) []

/-- `sort_synteny`. -/
def sortSynteny (fams : List Str) : List Str :=
  sortBy (fun a b => !keyLt (natKey b) (natKey a)) fams

/-- `", ".join(...)` -/
def formatSynteny (fams : List Str) : Str := List.intercalate [',', ' '] fams

/-! ## Wrapping -/

abbrev Word := Str
abbrev Line := List Word

/-- `len` of the line once its words are joined by single spaces. -/
def lineLen : Line → Nat
  | [] => 0
  | [w] => w.length
  | w :: r => w.length + 1 + lineLen r

def lineText (l : Line) : Str := List.intercalate [' '] l

/-- `text.split(" ")` -/
def splitSpaces : Str → List Word
  | [] => [[]]
  | c :: r =>
    if c = ' ' then [] :: splitSpaces r
    else match splitSpaces r with
      | [] => [[c]]
      | w :: ws => (c :: w) :: ws

/-- Greedy filling, the behaviour of `textwrap.wrap(text, width, break_long_words=False)` on
    words separated by single spaces: `first :: acc.reverse` is the line being filled and `len`
    its length; the next word joins it when it fits after a space, otherwise the line is closed.
    A word longer than the width therefore stands alone on its line. -/
def wrapFrom (width : Nat) : (first : Word) → (acc : List Word) → (len : Nat) → List Word → List Line
  | first, acc, _, [] => [first :: acc.reverse]
  | first, acc, len, w :: ws =>
    if len + 1 + w.length ≤ width then wrapFrom width first (w :: acc) (len + 1 + w.length) ws
    else (first :: acc.reverse) :: wrapFrom width w [] w.length ws

def wrap (width : Nat) : List Word → List Line
  | [] => []
  | w :: ws => wrapFrom width w [] w.length ws

def maxLen (ls : List Line) : Nat := ls.foldl (fun m l => max m (lineLen l)) 0

/-- `_wrap_badness` -/
def badness (ls : List Line) : Nat :=
  let m := maxLen ls
  (ls.map fun l => (m - lineLen l) ^ 2).sum

/-- The `while width > 1` loop of `balanced_wrap`; the first argument is the current width. -/
def bwLoop (ws : List Word) (count : Nat) : Nat → List Line → Nat → List Line
  | 0, best, _ => best
  | w + 1, best, bad =>
    if w = 0 then best            -- `width > 1` fails
    else
      let next := wrap w ws       -- `width -= 1`
      if next.length ≠ count then best
      else if badness next < bad then bwLoop ws count w next (badness next)
      else bwLoop ws count w best bad

/-- `balanced_wrap` on a non-empty word list; `none` is the `ValueError` of `textwrap` for
    width 0. -/
def balancedWrap (width : Nat) (ws : List Word) : Option (List Line) :=
  if width = 0 then none
  else
    let best := wrap width ws
    some (bwLoop ws best.length width best (badness best))

/-- `balanced_wrap(text, width)` with lines joined by `sep` (`"\n"`; the callers then replace it
    by `\\`).  Texts are single-space separated words. -/
def balancedWrapText (sep : Str) (width : Nat) (text : Str) : Option Str :=
  if text.isEmpty then some []
  else (balancedWrap width (splitSpaces text)).map fun ls => List.intercalate sep (ls.map lineText)

/-- `format_synteny(synteny, width)` for a sequence that is not a `set`. -/
def formatSyntenyW (width : Option Nat) (sep : Str) (fams : List Str) : Option Str :=
  match width with
  | none => some (formatSynteny fams)
  | some w => balancedWrapText sep w (formatSynteny fams)

/-! ## Node labels (`_compute_branches`) -/

/-- `name.rsplit("_", 1)` when `"_" in name`. -/
def rsplitUnderscore (s : Str) : Option (Str × Str) :=
  let r := s.reverse
  if r.contains '_' then
    some ((r.dropWhile (· != '_')).drop 1 |>.reverse, (r.takeWhile (· != '_')).reverse)
  else none

def texLineBreak : Str := ['\\', '\\']

/-- The `synteny` local: formatted escaped families, or `""` when the node has none. -/
def syntenyText (width : Option Nat) (syn : Option (List Str)) : Option Str :=
  match syn with
  | none => some []
  | some fams => formatSyntenyW width texLineBreak (fams.map escape)

/-- The `name` of a leaf branch. -/
def leafLabel (width : Option Nat) (syn : Option (List Str)) (name : Str) : Option Str :=
  (syntenyText width syn).map fun text =>
    if !text.isEmpty then text
    else match rsplitUnderscore name with
      | some (sp, gene) => escape sp ++ "\\textsubscript{".toList ++ escape gene ++ ['}']
      | none => escape name

/-- The `name` of an internal branch: empty when the synteny equals the parent's
    (`syntenies.get(node) == syntenies.get(node.up)`, `None == None` included). -/
def internalLabel (width : Option Nat) (syn parentSyn : Option (List Str)) : Option Str :=
  (syntenyText width syn).map fun text => if syn = parentSyn then [] else text

/-! ## Colours -/

/-- Object tree with the optional `color` feature of each node. -/
inductive CTree where
  | leaf (c : Option Str)
  | node (c : Option Str) (l r : CTree)
  deriving Repr

namespace CTree

def color : CTree → Option Str
  | leaf c => c
  | node c _ _ => c

/-- The pre-order loop at the top of `_compute_branches`: a node without colour takes its
    parent's (already propagated) colour. -/
def propagate (inh : Option Str) : CTree → CTree
  | leaf c => leaf (c.or inh)
  | node c l r =>
    let c' := c.or inh
    node c' (propagate c' l) (propagate c' r)

/-- Subtree at a path (`false` = first child). -/
def sub : CTree → List Bool → Option CTree
  | t, [] => some t
  | leaf _, _ :: _ => none
  | node _ l r, b :: p => if b then sub r p else sub l p

def colorAt (t : CTree) (p : List Bool) : Option Str := (sub t p).bind color

/-- Specification: walk down the path remembering the last colour seen. -/
def nearestFrom (last : Option Str) : CTree → List Bool → Option (Option Str)
  | t, [] => some (t.color.or last)
  | leaf _, _ :: _ => none
  | node c l r, b :: p => nearestFrom (c.or last) (if b then r else l) p

/-- Colours of all nodes in pre-order. -/
def preorder : CTree → List (Option Str)
  | leaf c => [c]
  | node c l r => c :: (preorder l ++ preorder r)

end CTree

/-- `Branch.color` default. -/
def defaultColor : Str := "000000".toList

/-- The colour a branch is drawn with: the `color` key is only set when the node has the
    feature, otherwise the `Branch` default applies. -/
def branchColor (t : CTree) (p : List Bool) : Str :=
  ((t.propagate none).colorAt p).getD defaultColor

/-- `_add_losses`: the `n` pseudo-genes inserted above `gene` all take `getattr(gene, "color", None)`. -/
def lossColors (t : CTree) (gene : List Bool) (n : Nat) : List Str :=
  List.replicate n (branchColor t gene)

/-! ## `get_color` and `render` -/

/-- `get_color`: index of the colour in the list, appended first when absent. -/
def intern (colors : List Str) (h : Str) : List Str × Nat :=
  let i := colors.idxOf h
  if i < colors.length then (colors, i) else (colors ++ [h], colors.length)

def natStr (n : Nat) : Str := (Nat.repr n).toList

def colorName (pre : Str) (i : Nat) : Str := pre ++ natStr i

/-- A hole filling requested by a drawing call. -/
inductive Fill where
  | text (s : Str)
  | color (html : Str)      -- `get_color(html)`
  deriving Repr

/-- A filling after interning. -/
inductive RFill where
  | text (s : Str)
  | color (i : Nat)
  deriving Repr

/-- One `layers[layer].append(template)` call. -/
structure Call where
  layer : Nat
  tmpl : Template
  fills : List Fill

structure RCall where
  layer : Nat
  tmpl : Template
  fills : List RFill

def resolveFills : List Str → List Fill → List Str × List RFill
  | cs, [] => (cs, [])
  | cs, .text s :: r =>
    let (cs', out) := resolveFills cs r
    (cs', .text s :: out)
  | cs, .color h :: r =>
    let (cs1, i) := intern cs h
    let (cs', out) := resolveFills cs1 r
    (cs', .color i :: out)

/-- The drawing calls in the order they are made, threading the colour list. -/
def resolveCalls : List Str → List Call → List Str × List RCall
  | cs, [] => (cs, [])
  | cs, c :: r =>
    let (cs1, fs) := resolveFills cs c.fills
    let (cs', out) := resolveCalls cs1 r
    (cs', { layer := c.layer, tmpl := c.tmpl, fills := fs } :: out)

def RFill.str (pre : Str) : RFill → Str
  | .text s => s
  | .color i => colorName pre i

def RCall.text (pre : Str) (c : RCall) : Str :=
  c.tmpl.instantiate (c.fills.map (RFill.str pre))

def layerLines (pre : Str) (out : List RCall) (n : Nat) : List Str :=
  (out.filter (·.layer == n)).map (RCall.text pre)

def enumFrom (i : Nat) : List α → List (Nat × α)
  | [] => []
  | x :: xs => (i, x) :: enumFrom (i + 1) xs

def skelBlocks (layerNames : List Str) (pre defs : Str) (colors : List Str) (out : List RCall) :
    Skel → List Str
  | .defs => [defs]
  | .perColor t => (enumFrom 0 colors).map fun (i, h) => t.instantiate [natStr i, h]
  | .line t => [t.instantiate []]
  | .perLayer t =>
    (enumFrom 0 layerNames).flatMap fun (n, name) => t.instantiate [name] :: layerLines pre out n

/-- The `result` list of `render`. -/
def renderBlocks (skel : List Skel) (layerNames : List Str) (pre defs : Str) (calls : List Call) :
    List Str :=
  let (colors, out) := resolveCalls [] calls
  skel.flatMap (skelBlocks layerNames pre defs colors out)

/-- `"\n".join(result)` -/
def render (skel : List Skel) (layerNames : List Str) (pre joiner defs : Str) (calls : List Call) :
    Str :=
  List.intercalate joiner (renderBlocks skel layerNames pre defs calls)

end SR.Tikz
