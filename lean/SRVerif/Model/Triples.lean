/-
  Model of the triple routines of `superrec2.utils.trees`:
  `tree_to_triples` (BreakUp), `tree_from_triples` (OneTree / BUILD),
  `all_trees_from_triples` (AllTrees), `trees_to_triples`, `supertree`,
  `all_supertrees`.

  Trees are leaf-labelled (`ete3` trees restricted to topology and leaf
  names; names are natural numbers, the harness uses equal-length strings so
  that `<=` on names is `≤` on numbers).

  Conventions.
  * `leaves` lists are assumed duplicate-free (`leaf_index` is a dict).
  * `leaf_index[left]` raises `KeyError` when a triple's first or second leaf
    is not in `leaves`; this can only happen at the top-level call (recursive
    calls receive triples filtered to the group), so the total functions
    below ignore it and `treeFromTriplesE` adds the guard.
  * The recursion of BUILD is bounded by fuel = number of leaves (each group
    is a proper sub-list because there are at least two groups).
  * `tree_to_triples` pops minimal internal nodes from a Python `set` in an
    address-dependent order; the model fixes one admissible order (contract
    the first child completely, then the second one).  The triple set does
    depend on the order, so the correspondence compares by property.
  Core Lean only.
-/
import SRVerif.Model.DisjointSet

namespace SR.Tri

open SR.DS

inductive LTree where
  | leaf (name : Nat)
  | node (children : List LTree)
  deriving Repr, Inhabited

abbrev Triple := Nat × Nat × Nat

namespace LTree

mutual
  /-- `[leaf.name for leaf in tree.get_leaves()]` (pre-order). -/
  def leaves : LTree → List Nat
    | .leaf a => [a]
    | .node cs => leavesL cs
  def leavesL : List LTree → List Nat
    | [] => []
    | c :: cs => leaves c ++ leavesL cs
end

/-- `is_binary`. -/
def isBinary : LTree → Bool
  | .leaf _ => true
  | .node [a, b] => isBinary a && isBinary b
  | .node _ => false

def isLeaf : LTree → Bool
  | .leaf _ => true
  | .node _ => false

/-- `get_leaves()[0].name` (0 on the degenerate childless node). -/
def firstLeaf (t : LTree) : Nat := t.leaves.headD 0

end LTree

open LTree

/-- `(left, right, leaf)` if `left <= right` else `(right, left, leaf)`. -/
def mkTriple (l r s : Nat) : Triple := if l ≤ r then (l, r, s) else (r, l, s)

/-- Contract a subtree hanging below a parent whose (only) sister currently
    starts with leaf `sis`: returns the leaf that replaces the subtree and the
    triples emitted, in order.  Non-binary nodes are left alone (out of
    scope: the Python code fails to unpack `other.children`). -/
def contract : LTree → Nat → Nat × List Triple
  | .leaf a, _ => (a, [])
  | .node [t1, t2], sis =>
    let c1 := contract t1 t2.firstLeaf
    let c2 := contract t2 c1.1
    -- children are now `[t2', r1]` when `t1` was internal and `[r1, t2']` otherwise
    let left := if t1.isLeaf || !t2.isLeaf then c1.1 else c2.1
    let right := if t1.isLeaf || !t2.isLeaf then c2.1 else c1.1
    (right, c1.2 ++ c2.2 ++ [mkTriple left right sis])
  | .node _, _ => (0, [])

/-- `tree_to_triples` on a binary tree (`none` outside the scope). -/
def treeToTriples (t : LTree) : Option (List Nat × List Triple) :=
  if !t.isBinary then none else
  match t with
  | .leaf a => some ([a], [])
  | .node [t1, t2] =>
    let c1 := contract t1 t2.firstLeaf
    let c2 := contract t2 c1.1
    some (t.leaves, c1.2 ++ c2.2)
  | .node _ => none

/-- `all(leaf in group_leaves for leaf in triple)`. -/
def inside (ls : List Nat) (t : Triple) : Bool :=
  ls.contains t.1 && ls.contains t.2.1 && ls.contains t.2.2

/-- The partition built by BUILD / AllTrees at one level. -/
def partitionOf (leaves : List Nat) (triples : List Triple) : DS :=
  triples.foldl (fun d t => (d.unite (leaves.idxOf t.1) (leaves.idxOf t.2.1)).1)
    (DS.init leaves.length)

/-- `[leaves[item] for item in group]`. -/
def groupLeaves (leaves : List Nat) (g : List Nat) : List Nat := g.map (leaves.getD · 0)

/-- `tree_from_triples`, bounded by fuel. -/
def build : Nat → List Nat → List Triple → Option LTree
  | 0, _, _ => none
  | fuel + 1, leaves, triples =>
    match leaves with
    | [] => none
    | [a] => some (.leaf a)
    | [a, b] => some (.node [.leaf a, .leaf b])
    | _ =>
      let part := partitionOf leaves triples
      if part.groups ≤ 1 then none
      else
        (part.toList.2.mapM (fun g =>
          let gl := groupLeaves leaves g
          build fuel gl (triples.filter (inside gl)))).map .node

def treeFromTriples (leaves : List Nat) (triples : List Triple) : Option LTree :=
  build leaves.length leaves triples

/-- `product(lefts, rights)` turned into two-child roots. -/
def joinAll (ls rs : List LTree) : List LTree :=
  ls.flatMap (fun l => rs.map (fun r => .node [l, r]))

/-- The inner `_all_trees_from_triples`, bounded by fuel. -/
def allTrees : Nat → List Nat → List Triple → List LTree
  | 0, _, _ => []
  | fuel + 1, leaves, triples =>
    match leaves with
    | [] => []
    | [a] => [.leaf a]
    | [a, b] => [.node [.leaf a, .leaf b]]
    | _ =>
      let part := partitionOf leaves triples
      part.binary.flatMap (fun bp =>
        let gs := bp.toList.2
        let gl0 := groupLeaves leaves (gs.getD 0 [])
        let gl1 := groupLeaves leaves (gs.getD 1 [])
        joinAll (allTrees fuel gl0 (triples.filter (inside gl0)))
                (allTrees fuel gl1 (triples.filter (inside gl1))))

def allTreesFromTriples (leaves : List Nat) (triples : List Triple) : List LTree :=
  if (treeFromTriples leaves triples).isNone then []
  else allTrees leaves.length leaves triples

/-- Does the dictionary lookup `leaf_index[...]` of the top-level call fail? -/
def keyError (leaves : List Nat) (triples : List Triple) : Bool :=
  leaves.length ≥ 3 && triples.any (fun t => !(leaves.contains t.1 && leaves.contains t.2.1))

def treeFromTriplesE (leaves : List Nat) (triples : List Triple) : Except String (Option LTree) :=
  if keyError leaves triples then .error "KeyError" else .ok (treeFromTriples leaves triples)

def allTreesFromTriplesE (leaves : List Nat) (triples : List Triple) : Except String (List LTree) :=
  if keyError leaves triples then .error "KeyError" else .ok (allTreesFromTriples leaves triples)

/-- Duplicate-free union, first occurrences kept (Python `set`, order not
    significant). -/
def dedup {α : Type} [BEq α] (l : List α) : List α :=
  l.foldl (fun acc x => if acc.contains x then acc else acc ++ [x]) []

/-- `trees_to_triples`. -/
def treesToTriples (ts : List LTree) : Option (List Nat × List Triple) :=
  (ts.mapM treeToTriples).map (fun rs =>
    (dedup (rs.flatMap (·.1)), dedup (rs.flatMap (·.2))))

/-- `supertree`. -/
def supertree (ts : List LTree) : Option (Option LTree) :=
  (treesToTriples ts).map (fun p => treeFromTriples p.1 p.2)

/-- `all_supertrees`. -/
def allSupertrees (ts : List LTree) : Option (List LTree) :=
  (treesToTriples ts).map (fun p => allTreesFromTriples p.1 p.2)

end SR.Tri
