/-
  Run-time prelude of the Python -> Lean translator (`harness/translate_py.py`).
  Hand-written, core Lean only.  The GENERATED files (`SRVerif/Generated/*Py.lean`)
  use nothing but these definitions and core `Nat` / `Int` / `List` operations.

  Normal form produced by the translator (see the docstring of translate_py.py):
  * every translated function returns `Except Err ρ`  (`.error e` = the Python
    function raises the exception `e`);
  * every loop is a local function `f.loopK` returning `Ctl σ ρ`, where `σ` is
    the tuple of the loop-carried variables and `ρ` the function's result type:
    `.next s` = the loop ended (exhausted or `break`) in state `s`,
    `.ret v`  = `return v` was executed inside the loop,
    `.err e`  = an exception was raised inside the loop;
  * `for` loops recurse structurally on the iterated list, `while` loops on an
    explicit fuel (`.err .Diverged` when the fuel runs out; that this never
    happens is part of the hand-written equivalence proofs).
-/
namespace SR.Py

/-- Python exceptions that the translated subset can raise.  `Diverged` is not
    a Python exception: it marks exhaustion of the generated fuel bound of a
    `while` loop. -/
inductive Err where
  | IndexError
  | ValueError
  | ZeroDivisionError
  | Diverged
  deriving DecidableEq, Repr, Inhabited

/-- Outcome of running a loop. -/
inductive Ctl (σ ρ : Type) where
  | next (s : σ)
  | ret (v : ρ)
  | err (e : Err)
  deriving Repr

/-- `int.bit_length` on non-negative ints. -/
def bitLength (n : Nat) : Nat := if n = 0 then 0 else Nat.log2 n + 1

/-- `list.index` (first position; `none` = `ValueError`). -/
def index? {α : Type} [DecidableEq α] : List α → α → Option Nat
  | [], _ => none
  | x :: xs, v => if x = v then some 0 else (index? xs v).map (· + 1)

/-- Python floor division / modulo on ints with a non-zero divisor
    (the translator only emits them for literal positive divisors). -/
def ifloordiv (a b : Int) : Int := Int.fdiv a b
def ifloormod (a b : Int) : Int := Int.fmod a b

/-- Decidable comparison of results (used by the bounded refutation search of
    the harness; `Except` has no `DecidableEq` instance in core). -/
def sameResult {ρ : Type} [DecidableEq ρ] : Except Err ρ → Except Err ρ → Bool
  | .ok a, .ok b => decide (a = b)
  | .error a, .error b => decide (a = b)
  | _, _ => false

/-- Model-side results: an `Option`-valued model whose `none` stands for the
    exception `e`. -/
def ofOption {ρ : Type} (e : Err) : Option ρ → Except Err ρ
  | some r => .ok r
  | none => .error e

end SR.Py
