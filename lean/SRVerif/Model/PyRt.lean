/-
  Run-time prelude of the Python -> Lean translator (`harness/translate_py.py`).
  Hand-written, core Lean only.  The GENERATED files (`SRVerif/Generated/*Py.lean`)
  use nothing but these definitions and core `Nat` / `Int` / `List` operations.

  Normal form produced by the translator (see the docstring of translate_py.py):
  * every translated function returns `Except Err ρ`  (`.error e` = the Python
    function raises the exception `e`);
  * every loop is a local function `f.loopK` returning `Ctl σ ρ`, where `σ` is
    the tuple of the loop-carried variables and `ρ` the function's result type:
    `.next s` = the loop ended (exhausted or `break`) in state `s`,
    `.ret v`  = `return v` was executed inside the loop,
    `.err e`  = an exception was raised inside the loop;
  * `for` loops recurse structurally on the iterated list, `while` loops on an
    explicit fuel (`.err .Diverged` when the fuel runs out; that this never
    happens is part of the hand-written equivalence proofs).
-/
namespace SR.Py

/-- Python exceptions that the translated subset can raise.  `Diverged` is not
    a Python exception: it marks exhaustion of the generated fuel bound of a
    `while` loop.  `OutOfSubset` is not a Python exception either: it marks a
    run that reaches an operation whose Python result lies outside the
    translated subset (`2 ** e` with `e < 0` is a float); what Python does from
    there on is NOT modelled, and the equivalence proofs show that the marker is
    never returned on the inputs they cover. -/
inductive Err where
  | IndexError
  | ValueError
  | ZeroDivisionError
  | Diverged
  | TypeError
  | AssertionError
  | KeyError
  | OutOfSubset
  deriving DecidableEq, Repr, Inhabited

/-- Outcome of running a loop. -/
inductive Ctl (σ ρ : Type) where
  | next (s : σ)
  | ret (v : ρ)
  | err (e : Err)
  deriving Repr

/-- `int.bit_length` on non-negative ints. -/
def bitLength (n : Nat) : Nat := if n = 0 then 0 else Nat.log2 n + 1

/-- `list.index` (first position; `none` = `ValueError`). -/
def index? {α : Type} [DecidableEq α] : List α → α → Option Nat
  | [], _ => none
  | x :: xs, v => if x = v then some 0 else (index? xs v).map (· + 1)

/-- Python floor division / modulo on ints with a non-zero divisor
    (the translator only emits them for literal positive divisors). -/
def ifloordiv (a b : Int) : Int := Int.fdiv a b
def ifloormod (a b : Int) : Int := Int.fmod a b

/-! ### Integers that may be negative (modules translated with `int` as `Int`) -/

/-- `int.bit_length` on any int (`(-5).bit_length() == 3`). -/
def bitLengthInt (i : Int) : Nat := bitLength i.natAbs

/-- `seq[i]` for a Python int `i`, negative indices wrapping around exactly as
    in Python (`seq[-1]` is the last element); `none` = `IndexError`. -/
def getInt? {α : Type} (l : List α) (i : Int) : Option α :=
  if 0 ≤ i then l[i.toNat]?
  else if (-i).toNat ≤ l.length then l[l.length - (-i).toNat]?
  else none

/-- `seq[i] = v` on a list for a non-negative index; `none` = `IndexError`
    (Python never extends a list by item assignment). -/
def setNat? {α : Type} (l : List α) (i : Nat) (v : α) : Option (List α) :=
  if i < l.length then some (l.set i v) else none

/-- `seq[i] = v` for a Python int `i` (negative indices wrap around). -/
def setInt? {α : Type} (l : List α) (i : Int) (v : α) : Option (List α) :=
  if 0 ≤ i then setNat? l i.toNat v
  else if (-i).toNat ≤ l.length then setNat? l (l.length - (-i).toNat) v
  else none

/-- `b ** e` on ints; `none` when `e < 0` (the Python result is a float, or
    `ZeroDivisionError` for `b = 0`: outside the subset, reported as
    `Err.OutOfSubset`). -/
def powInt? (b e : Int) : Option Int := if 0 ≤ e then some (b ^ e.toNat) else none

/-- `a << k`; `none` = `ValueError` (negative shift count). -/
def shlInt? (a k : Int) : Option Int := if 0 ≤ k then some (a * 2 ^ k.toNat) else none

/-- `a >> k` (floor semantics); `none` = `ValueError` (negative shift count). -/
def shrInt? (a k : Int) : Option Int := if 0 ≤ k then some (a >>> k.toNat) else none

/-! ### Ordering of opaque elements

A module whose element type is only known to support `<` is translated with
an explicit parameter `lt_ : α → α → Except Err Bool` standing for
`Element.__lt__` (it may raise). -/

/-- Python's `min(a, b)` on two elements: evaluates `b < a`, returns `b` when
    it holds and `a` otherwise (CPython `min_max`: the first argument is kept
    unless a later one is strictly smaller). -/
def pyMin {α : Type} (lt : α → α → Except Err Bool) (a b : α) : Except Err α :=
  match lt b a with
  | .ok true => .ok b
  | .ok false => .ok a
  | .error e => .error e

/-- `min(a, b)` on two values that may be `None`: `<` between `None` and
    anything raises `TypeError` (elements are assumed not to accept `None` in
    their `__lt__`). -/
def pyMinOpt {α : Type} (lt : α → α → Except Err Bool) : Option α → Option α → Except Err α
  | some a, some b => pyMin lt a b
  | _, _ => .error .TypeError

/-! ### Sets of small ints

Python does not specify the iteration order of a `set`.  `list(set(xs))` is translated with an
explicit parameter `ord : List Nat → List Nat` standing for that order: it receives the distinct
elements in insertion order (what determines the state of the hash table) and returns them in
iteration order.  Theorems about generated functions that take `ord` assume `SetOrder ord` only. -/

/-- The distinct elements of `xs`, in order of first occurrence. -/
def dedup {α : Type} [DecidableEq α] (xs : List α) : List α :=
  xs.foldl (fun acc x => if x ∈ acc then acc else acc ++ [x]) []

/-- `list(set(xs))` under the iteration order `ord`. -/
def listOfSet (ord : List Nat → List Nat) (xs : List Nat) : List Nat := ord (dedup xs)

/-- All that is assumed of an iteration order: the elements, each once. -/
def SetOrder (ord : List Nat → List Nat) : Prop := ∀ l : List Nat, l.Nodup → (ord l).Perm l

/-- Decidable comparison of results (used by the bounded refutation search of
    the harness; `Except` has no `DecidableEq` instance in core). -/
def sameResult {ρ : Type} [DecidableEq ρ] : Except Err ρ → Except Err ρ → Bool
  | .ok a, .ok b => decide (a = b)
  | .error a, .error b => decide (a = b)
  | _, _ => false

/-- Model-side results: an `Option`-valued model whose `none` stands for the
    exception `e`. -/
def ofOption {ρ : Type} (e : Err) : Option ρ → Except Err ρ
  | some r => .ok r
  | none => .error e

end SR.Py
