/-
  Model of `superrec2.utils.range_min_query.RangeMinQuery` and of
  `superrec2.utils.trees._euler_tour` / `LowestCommonAncestor`.

  The model follows the Python statement by statement:
  * the sparse table is a list of rows of `Option` cells (`None` padding),
    built level by level from the previous row;
  * `min(a, b)` evaluates `b < a` and returns `a` unless that is true;
  * the comparison is a parameter that may *raise* (`Except PyErr Bool`), so
    that the comparison of `(level, node)` tuples can be modelled exactly:
    `TreeNode` has no ordering, and Python's tuple comparison only reaches
    `node < node` when the levels are equal and the nodes are distinct;
  * a node is represented by its path from the root (`SR.Path`).

  Core Lean only; executable (linked into the driver).
-/
import SRVerif.Model.Paths

namespace SR

/-- Exceptions the modelled code can raise. -/
inductive PyErr where
  | typeError
  | indexError
  | assertionError
  | keyError
  deriving DecidableEq, Repr, Inhabited

namespace Lca

/-! ### `_ilog2` -/

/-- `value.bit_length() - 1` for a positive value (fuelled halving). -/
def ilog2Aux : Nat → Nat → Nat
  | 0, _ => 0
  | f + 1, v => if v ≤ 1 then 0 else ilog2Aux f (v / 2) + 1

/-- `_ilog2` on positive integers.  (`_ilog2(0) = -1` in Python; the only use
    with 0 is `RangeMinQuery([])`, handled separately in `build`.) -/
def ilog2 (v : Nat) : Nat := ilog2Aux v v

/-! ### Range-minimum queries -/

/-- A comparison `a < b` that may raise. -/
abbrev Lt (α : Type) := α → α → Except PyErr Bool

/-- Python's `min(a, b)`: evaluates `b < a`; returns `a` unless it holds. -/
def pyMin {α : Type} (lt : Lt α) (a b : α) : Except PyErr α :=
  match lt b a with
  | .ok true => .ok b
  | .ok false => .ok a
  | .error e => .error e

/-- `min(a, b)` on table cells that may be `None` (`None < x` raises). -/
def pyMinCell {α : Type} (lt : Lt α) : Option α → Option α → Except PyErr α
  | some a, some b => pyMin lt a b
  | _, _ => .error .typeError

/-- `xs = [f(x) for x in l]` where `f` may raise. -/
def mapE {α β : Type} (f : α → Except PyErr β) : List α → Except PyErr (List β)
  | [] => .ok []
  | x :: xs =>
    match f x with
    | .error e => .error e
    | .ok y =>
      match mapE f xs with
      | .error e => .error e
      | .ok ys => .ok (y :: ys)

/-- `row[i]` followed by `assert … is not None`. -/
def cell {α : Type} (row : List (Option α)) (i : Nat) : Except PyErr α :=
  match row[i]? with
  | none => .error .indexError
  | some none => .error .assertionError
  | some (some v) => .ok v

/-- `min(prev[i], prev[i + 2**(d-1)])` with the two `assert`s. -/
def rowCell {α : Type} (lt : Lt α) (prev : List (Option α)) (d i : Nat) : Except PyErr α :=
  match cell prev i with
  | .error e => .error e
  | .ok l =>
    match cell prev (i + 2 ^ (d - 1)) with
    | .error e => .error e
    | .ok r => pyMin lt l r

/-- One iteration of the `for depth in range(1, levels)` loop: the row of
    depth `d` from the row `prev` of depth `d - 1`.
    `for i in range(length - 2**d + 1): row[i] = min(prev[i], prev[i + 2**(d-1)])`,
    the other cells stay `None`. -/
def nextRow {α : Type} (lt : Lt α) (length : Nat) (prev : List (Option α)) (d : Nat) :
    Except PyErr (List (Option α)) :=
  match mapE (rowCell lt prev d) (List.range (length + 1 - 2 ^ d)) with
  | .error e => .error e
  | .ok vals => .ok (vals.map some ++ List.replicate (length - vals.length) none)

/-- Rows `d, d+1, …, d+n` given the row of depth `d`. -/
def buildFrom {α : Type} (lt : Lt α) (length : Nat) :
    Nat → Nat → List (Option α) → Except PyErr (List (List (Option α)))
  | 0, _, prev => .ok [prev]
  | n + 1, d, prev =>
    match nextRow lt length prev (d + 1) with
    | .error e => .error e
    | .ok row =>
      match buildFrom lt length n (d + 1) row with
      | .error e => .error e
      | .ok rest => .ok (prev :: rest)

/-- `RangeMinQuery.__init__`: the sparse table.  With empty data Python
    computes `levels = 0` and `self.sparse_table[0] = …` raises `IndexError`. -/
def build {α : Type} (lt : Lt α) (data : List α) : Except PyErr (List (List (Option α))) :=
  if data.length = 0 then .error .indexError
  else buildFrom lt data.length (ilog2 data.length) 0 (data.map some)

/-- `RangeMinQuery.__call__` (non-negative `start`, `stop`). -/
def query {α : Type} (lt : Lt α) (table : List (List (Option α))) (start stop : Nat) :
    Except PyErr (Option α) :=
  if start ≥ stop then .ok none
  else
    let d := ilog2 (stop - start)
    match table[d]? with
    | none => .error .indexError
    | some row =>
      match row[start]?, row[stop - 2 ^ d]? with
      | some a, some b =>
        match pyMinCell lt a b with
        | .error e => .error e
        | .ok m => .ok (some m)
      | _, _ => .error .indexError

/-- Build then query (what a test of `RangeMinQuery` observes). -/
def rmq {α : Type} (lt : Lt α) (data : List α) (start stop : Nat) : Except PyErr (Option α) :=
  match build lt data with
  | .error e => .error e
  | .ok table => query lt table start stop

/-- The comparison of a totally ordered element type never raises. -/
def totalLt {α : Type} (lt : α → α → Bool) : Lt α := fun a b => .ok (lt a b)

/-- Python's `<` on pairs of integers (tuples compare lexicographically). -/
def pairLt : Lt (Int × Int) :=
  totalLt (fun a b => decide (a.1 < b.1) || (a.1 == b.1 && decide (a.2 < b.2)))

/-! ### Euler tour -/

/-- An entry `(level, node)` of the Euler tour. -/
abbrev TourEntry := Nat × Path

mutual
  /-- `_euler_tour(root, level)`; `pre` is the path of `root`.  The leaf
      special case of the Python is kept. -/
  def eulerTourFrom : RTree → Nat → Path → List TourEntry
    | .node [], lvl, pre => [(lvl, pre)]
    | .node (c :: cs), lvl, pre => (lvl, pre) :: eulerTourChildren (c :: cs) lvl pre 0
  /-- The body of `for child in root.children` from the `i`-th child on. -/
  def eulerTourChildren : List RTree → Nat → Path → Nat → List TourEntry
    | [], _, _, _ => []
    | c :: cs, lvl, pre, i =>
      eulerTourFrom c (lvl + 1) (pre ++ [i]) ++ (lvl, pre) :: eulerTourChildren cs lvl pre (i + 1)
end

def eulerTour (t : RTree) : List TourEntry := eulerTourFrom t 0 []

/-- Python's `(level1, node1) < (level2, node2)`: the first differing
    component decides; `TreeNode < TreeNode` raises `TypeError`. -/
def entryLt : Lt TourEntry := fun a b =>
  if a.1 ≠ b.1 then .ok (decide (a.1 < b.1))
  else if a.2 = b.2 then .ok false
  else .error .typeError

/-- `traversal_index`: index of the first tour entry holding the node
    (`KeyError` for a foreign node). -/
def firstIdxFrom (p : Path) : List TourEntry → Nat → Except PyErr Nat
  | [], _ => .error .keyError
  | e :: es, i => if e.2 = p then .ok i else firstIdxFrom p es (i + 1)

def firstIdx (tour : List TourEntry) (p : Path) : Except PyErr Nat := firstIdxFrom p tour 0

/-- The state of a `LowestCommonAncestor` object. -/
structure State where
  tour : List TourEntry
  table : List (List (Option TourEntry))

/-- `LowestCommonAncestor.__init__`. -/
def init (t : RTree) : Except PyErr State :=
  match build entryLt (eulerTour t) with
  | .error e => .error e
  | .ok table => .ok { tour := eulerTour t, table := table }

/-- `LowestCommonAncestor.__call__(*nodes)`. -/
def State.call (s : State) (nodes : List Path) : Except PyErr Path :=
  match nodes with
  | [] => .error .typeError
  | n0 :: rest =>
    match firstIdx s.tour n0 with
    | .error e => .error e
    | .ok i0 =>
      match mapE (firstIdx s.tour) rest with
      | .error e => .error e
      | .ok is =>
        let start := is.foldl min i0
        let stop := is.foldl max i0
        match query entryLt s.table start (stop + 1) with
        | .error e => .error e
        | .ok none => .error .assertionError
        | .ok (some r) => .ok r.2

def State.isAncestorOf (s : State) (a b : Path) : Except PyErr Bool :=
  match s.call [a, b] with
  | .error e => .error e
  | .ok r => .ok (r == a)

def State.isStrictAncestorOf (s : State) (a b : Path) : Except PyErr Bool :=
  match s.call [a, b] with
  | .error e => .error e
  | .ok r => .ok (r == a && a != b)

def State.isComparable (s : State) (a b : Path) : Except PyErr Bool :=
  match s.isAncestorOf a b with
  | .error e => .error e
  | .ok true => .ok true
  | .ok false => s.isAncestorOf b a

def State.level (s : State) (a : Path) : Except PyErr Nat :=
  match firstIdx s.tour a with
  | .error e => .error e
  | .ok i =>
    match s.tour[i]? with
    | none => .error .indexError
    | some e => .ok e.1

/-- `level(a) + level(b) - 2 * level(self(a, b))` on Python integers. -/
def State.distance (s : State) (a b : Path) : Except PyErr Int :=
  match s.level a with
  | .error e => .error e
  | .ok la =>
    match s.level b with
    | .error e => .error e
    | .ok lb =>
      match s.call [a, b] with
      | .error e => .error e
      | .ok r =>
        match s.level r with
        | .error e => .error e
        | .ok lr => .ok ((la : Int) + lb - 2 * lr)

/-! ### One-shot versions (construct the object, then query) -/

def withState {β : Type} (t : RTree) (f : State → Except PyErr β) : Except PyErr β :=
  match init t with
  | .error e => .error e
  | .ok s => f s

def lcaQuery (t : RTree) (nodes : List Path) : Except PyErr Path := withState t (·.call nodes)
def isAncestorOf (t : RTree) (a b : Path) : Except PyErr Bool := withState t (·.isAncestorOf a b)
def isStrictAncestorOf (t : RTree) (a b : Path) : Except PyErr Bool :=
  withState t (·.isStrictAncestorOf a b)
def isComparable (t : RTree) (a b : Path) : Except PyErr Bool := withState t (·.isComparable a b)
def level (t : RTree) (a : Path) : Except PyErr Nat := withState t (·.level a)
def distance (t : RTree) (a b : Path) : Except PyErr Int := withState t (·.distance a b)

end Lca

end SR
