/-
  Models of the seven algorithms of `superrec2.compute`:
  `reconcile_lca`, `generate_all` / `reconcile_exhaustive`, `reconcile_thl`,
  `sreconcile_{base,extended}_spfs`, `usreconcile_{base,extended}_uspfs`.
  Every solver returns the *set* of outputs under the policy `all`
  (duplicate-free list of canonical solutions); the policy `any` returns one
  member of it (the correspondence compares by membership).
-/
import SRVerif.Model.LabelDP

namespace SR

def allSpecies (S : RTree) : List Path := S.preorder

/-! ### `reconcile_lca` -/

/-- Post-order LCA propagation. -/
def lcaSol : OTree → Sol
  | .leaf sp f => .leaf sp f
  | .node l r =>
    let a := lcaSol l
    let b := lcaSol r
    .node (Path.lcp a.sp b.sp) [] a b

/-! ### `generate_all` / `reconcile_exhaustive` -/

/-- `s, s.up, …, root`. -/
def ancestorsInclusive (p : Path) : List Path :=
  (List.range (p.length + 1)).reverse.map (fun k => p.take k)

/-- The walk `t, t.up, …` stopping before `stop` (which is an ancestor of `t`). -/
def walkUpTo (stop : Path) (t : Path) : List Path :=
  (ancestorsInclusive t).takeWhile (fun p => p != stop)

/-- `generate_all(rec_input, node)`. -/
def generateAll : OTree → List Sol
  | .leaf sp f => [.leaf sp f]
  | .node l r =>
    (generateAll l).flatMap fun ml =>
      (generateAll r).flatMap fun mr =>
        let a := ml.sp
        let b := mr.sp
        let lca := Path.lcp a b
        let parents := ancestorsInclusive lca
        let tr1 := if Path.isAnc b a then [] else walkUpTo lca a
        let tr2 := if Path.isAnc a b then [] else walkUpTo lca b
        (parents ++ tr1 ++ tr2).map fun s => Sol.node s [] ml mr

/-- The result `Entry` of every solver: keep the outputs of minimum
    *evaluated* cost (`Candidate(output.cost(), output)` under MIN / ALL). -/
def rankByCost (c : Costs) (mode : LabelMode) (o : OTree) (sols : List Sol) : List Sol :=
  let best := Cost.minList (sols.map (totalCost c mode o))
  dedup (sols.filter (fun s => totalCost c mode o s = best))

def exhaustive (c : Costs) (o : OTree) : List Sol :=
  rankByCost c .plain o (generateAll o)

/-! ### `reconcile_thl` = label DP at unit labels -/

def annPlain (S : RTree) : OTree → ATree (List Path)
  | .leaf sp _ => .leaf (allSpecies S) sp
  | .node l r => .node (allSpecies S) (annPlain S l) (annPlain S r)

def thlAlg : LabelAlg (List Path) Unit :=
  { leafLab := fun _ => (), labs := fun _ => [()], allowed := fun a => a,
    conserv := fun _ _ _ _ => .fin 0, segment := fun _ _ _ _ => .fin 0 }

/-- Re-attach the input's leaf data to a decoded solution. -/
def plainSol : OTree → LSol Unit → Sol
  | .leaf _ f, .leaf s _ => .leaf s f
  | .node ol or, .node s _ l r => .node s [] (plainSol ol l) (plainSol or r)
  | .leaf _ f, .node s _ _ _ => .leaf s f
  | .node _ _, .leaf s _ => .leaf s []

def thlCells (c : Costs) (S : RTree) (keep : Bool) (o : OTree) : List (DCell Unit) :=
  dpTable thlAlg c S keep (annPlain S o)

def thl (c : Costs) (S : RTree) (o : OTree) : List Sol :=
  let cells := thlCells c S true o
  rankByCost c .plain o (cells.flatMap (fun d => d.sols.map (plainSol o)))

/-- The minimum table value at the root (what the optimiser believes). -/
def thlTableMin (c : Costs) (S : RTree) (o : OTree) : Cost :=
  Cost.minList ((thlCells c S false o).map (·.cost))

/-! ### Ordered super-reconciliation (`_spfs`) -/

structure OrdAnn where
  isRoot : Bool
  leafMask : Nat
  allowed : List Path
  nfam : Nat
  deriving Repr

def ordAlg (c : Costs) : LabelAlg OrdAnn Nat :=
  { leafLab := fun a => a.leafMask,
    labs := fun a => if a.isRoot then [2 ^ a.nfam - 1] else List.range (2 ^ a.nfam),
    allowed := fun a => a.allowed,
    conserv := fun _ m _ mc =>
      let d := subseqSegmentDist mc m true
      if d < 0 then .inf else .fin (d.toNat * c.sloss),
    segment := fun _ m _ mc =>
      let d := subseqSegmentDist mc m true
      let d' := subseqSegmentDist mc m false
      -- `d' < 0` only for the empty child mask, whose sub-cost is infinite
      if d < 0 || d' < 0 then .inf else .fin (d'.toNat * c.sloss) }

/-- Annotate for a given root order; `base` restricts the species of every
    internal node to the LCA mapping. -/
def annOrd (S : RTree) (base : Bool) (order : List Nat) : Bool → OTree → ATree OrdAnn
  | isRoot, .leaf sp f =>
    .leaf { isRoot := isRoot, leafMask := maskFromSubseq f order, allowed := [], nfam := order.length } sp
  | isRoot, .node l r =>
    .node { isRoot := isRoot, leafMask := 0,
            allowed := if base then [(lcaSol (.node l r)).sp] else (allSpecies S).reverse,
            nfam := order.length }
      (annOrd S base order false l) (annOrd S base order false r)

def ordSol (order : List Nat) : LSol Nat → Sol
  | .leaf s m => .leaf s ((subseqFromMask m order).getD [])
  | .node s m l r => .node s ((subseqFromMask m order).getD []) (ordSol order l) (ordSol order r)

/-- All permutations of a list. -/
def insertEverywhere {β : Type} (x : β) : List β → List (List β)
  | [] => [[x]]
  | y :: ys => (x :: y :: ys) :: (insertEverywhere x ys).map (y :: ·)

def permutations {β : Type} : List β → List (List β)
  | [] => [[]]
  | x :: xs => (permutations xs).flatMap (insertEverywhere x)

def isSublist : List Nat → List Nat → Bool
  | [], _ => true
  | _ :: _, [] => false
  | a :: as, b :: bs => if a == b then isSublist as bs else isSublist (a :: as) bs

def leafSyntenies : OTree → List (List Nat)
  | .leaf _ f => [f]
  | .node l r => leafSyntenies l ++ leafSyntenies r

def families (o : OTree) : List Nat := dedup (leafSyntenies o).flatten

/-- Root orders: `toposort_all(_make_prec_graph(leaf_syntenies))`, by its
    specification (C19): the orders of the families having every leaf
    synteny as a subsequence.  A prescribed root order replaces them. -/
def rootOrders (o : OTree) (prescribed : Option (List Nat)) : List (List Nat) :=
  match prescribed with
  | some r => [r]
  | none =>
    let syns := leafSyntenies o
    (permutations (families o)).filter (fun p => syns.all (fun s => isSublist s p))

def spfsCellsFor (c : Costs) (S : RTree) (base keep : Bool) (o : OTree) (order : List Nat) :
    List (DCell Nat) :=
  (dpTable (ordAlg c) c S keep (annOrd S base order true o)).filter
    (fun d => d.lab == 2 ^ order.length - 1)

def spfs (c : Costs) (S : RTree) (base : Bool) (o : OTree) (prescribed : Option (List Nat)) :
    List Sol :=
  let sols := (rootOrders o prescribed).flatMap fun order =>
    (spfsCellsFor c S base true o order).flatMap (fun d => d.sols.map (ordSol order))
  rankByCost c .ordered o sols

def spfsTableMin (c : Costs) (S : RTree) (base : Bool) (o : OTree) (prescribed : Option (List Nat)) :
    Cost :=
  Cost.minList ((rootOrders o prescribed).flatMap fun order =>
    (spfsCellsFor c S base false o order).map (·.cost))

/-! ### Unordered super-reconciliation (`_uspfs`) -/

inductive Kind where
  | lca | inh
  deriving Repr, DecidableEq

structure UnAnn where
  lcaSet : List Nat
  gain : List Nat
  allowed : List Path
  deriving Repr

/-- Paths of the object leaves carrying each family. -/
def leafPaths : OTree → List (Path × List Nat)
  | .leaf _ f => [([], f)]
  | .node l r =>
    (leafPaths l).map (fun p => (0 :: p.1, p.2)) ++ (leafPaths r).map (fun p => (1 :: p.1, p.2))

def lcpAll : List Path → Path
  | [] => []
  | p :: rest => rest.foldl Path.lcp p

/-- `_compute_gain_sets`: families gained at the object node `at`. -/
def gainsAt (o : OTree) (at_ : Path) : List Nat :=
  let lp := leafPaths o
  (families o).filter fun f =>
    lcpAll ((lp.filter (fun p => p.2.contains f)).map (·.1)) == at_

def sortNat (l : List Nat) : List Nat :=
  l.foldl (fun acc x => (acc.takeWhile (· < x)) ++ [x] ++ (acc.dropWhile (· < x))) []

/-- `_compute_lca_sets` together with the gain sets and allowed species. -/
def annUn (S : RTree) (base : Bool) (whole : OTree) : Path → OTree → ATree UnAnn
  | p, .leaf sp f =>
    .leaf { lcaSet := sortNat (dedup f), gain := gainsAt whole p, allowed := [] } sp
  | p, .node l r =>
    let al := annUn S base whole (p ++ [0]) l
    let ar := annUn S base whole (p ++ [1]) r
    let union := dedup (al.data.lcaSet ++ ar.data.lcaSet)
    let gained := al.data.gain ++ ar.data.gain
    .node { lcaSet := sortNat (union.filter (fun f => !gained.contains f)),
            gain := gainsAt whole p,
            allowed := if base then [(lcaSol (.node l r)).sp] else (allSpecies S).reverse }
      al ar

def unAlg (c : Costs) : LabelAlg UnAnn Kind :=
  { leafLab := fun _ => .lca,
    labs := fun _ => [.lca, .inh],
    allowed := fun a => a.allowed,
    conserv := fun a k ca kc =>
      let sub := subsetB a.lcaSet ca.lcaSet
      match k, kc with
      | .inh, .lca => .fin c.sloss
      | .inh, .inh => .fin 0
      | .lca, .lca => if sub then .fin 0 else .fin c.sloss
      | .lca, .inh => if sub then .inf else .fin 0,
    segment := fun a k ca kc =>
      let sub := subsetB a.lcaSet ca.lcaSet
      match k, kc with
      | .lca, .inh => if sub then .inf else .fin 0
      | _, _ => .fin 0 }

/-- `_decode_uspfs_table`: materialise the contents top-down. -/
def unSol : ATree UnAnn → List Nat → LSol Kind → Sol
  | .leaf a _, anc, .leaf s k =>
    .leaf s (match k with | .lca => a.lcaSet | .inh => sortNat (dedup (anc ++ a.gain)))
  | .node a tl tr, anc, .node s k l r =>
    let content := match k with
      | .lca => a.lcaSet
      | .inh => sortNat (dedup (anc ++ a.gain))
    .node s content (unSol tl content l) (unSol tr content r)
  | .leaf a _, _, .node s _ _ _ => .leaf s a.lcaSet
  | .node a _ _, _, .leaf s _ => .leaf s a.lcaSet

def uspfsCells (c : Costs) (S : RTree) (base keep : Bool) (o : OTree) : List (DCell Kind) :=
  (dpTable (unAlg c) c S keep (annUn S base o [] o)).filter (fun d => d.lab == .lca)

def uspfs (c : Costs) (S : RTree) (base : Bool) (o : OTree) : List Sol :=
  let ann := annUn S base o [] o
  let sols := (uspfsCells c S base true o).flatMap
    (fun d => d.sols.map (unSol ann ann.data.lcaSet))
  rankByCost c .unordered o sols

def uspfsTableMin (c : Costs) (S : RTree) (base : Bool) (o : OTree) : Cost :=
  Cost.minList ((uspfsCells c S base false o).map (·.cost))

end SR
