/-
  Shared basic definitions for the superrec2 models.
  Core Lean only (no Mathlib): everything here is linked into the driver.
-/

namespace SR

/-- Integers extended with `-∞` and `+∞`: the value domain of DP entries
    (Python: `int` together with `infinity.inf` / `-infinity.inf`). -/
inductive ExtInt where
  | negInf
  | fin (n : Int)
  | posInf
  deriving DecidableEq, Repr, Inhabited

namespace ExtInt

/-- Strict order: `-∞ < n < +∞`. -/
def lt : ExtInt → ExtInt → Bool
  | negInf, negInf => false
  | negInf, _ => true
  | fin _, negInf => false
  | fin a, fin b => decide (a < b)
  | fin _, posInf => true
  | posInf, _ => false

def le (a b : ExtInt) : Bool := !(lt b a)

/-- `is_infinite` of the `infinity` package. -/
def isInfinite : ExtInt → Bool
  | fin _ => false
  | _ => true

/-- Addition as performed by the code on entry values.  `+∞ + (-∞)` never
    occurs in the code (the `infinity` package raises); totalised to `+∞`. -/
def add : ExtInt → ExtInt → ExtInt
  | posInf, _ => posInf
  | _, posInf => posInf
  | negInf, _ => negInf
  | _, negInf => negInf
  | fin a, fin b => fin (a + b)

instance : Add ExtInt := ⟨add⟩

end ExtInt

/-- Non-negative cost or `+∞` (Python: non-negative `int` or `infinity.inf` /
    `float('inf')`). -/
inductive Cost where
  | fin (n : Nat)
  | inf
  deriving DecidableEq, Repr, Inhabited

namespace Cost

def add : Cost → Cost → Cost
  | fin a, fin b => fin (a + b)
  | _, _ => inf

instance : Add Cost := ⟨add⟩

def lt : Cost → Cost → Bool
  | fin a, fin b => decide (a < b)
  | fin _, inf => true
  | inf, _ => false

def le (a b : Cost) : Bool := !(lt b a)

def min (a b : Cost) : Cost := if lt b a then b else a

/-- Scale a natural count by a unit cost.  Python's `inf * 0` raises; the code
    never forms it on inputs in scope (the only possibly infinite unit cost is
    the transfer cost, which is only ever added). -/
def scale (k : Nat) : Cost → Cost
  | fin a => fin (k * a)
  | inf => inf

def isInf : Cost → Bool
  | inf => true
  | _ => false

def minList : List Cost → Cost
  | [] => inf
  | c :: cs => min c (minList cs)

end Cost

end SR
