/-
  Model of the DRAWING CALLS of `superrec2.render.tikz` (properties C15 and C13):
  `_tikz_draw_fork`, `_tikz_draw_branches` and the loop of `render` that walks the layout.
  Core Lean only (no Mathlib): everything here is linked into the driver.

  Input: a layout as produced by the model of `layout.compute` (`Model/Layout.lean`:
  `List SubLayout`, species in any order, looked up by species path), the species tree, the
  species of every object node (`mapping[...]`), and the non-geometric decorations of the
  layout that `Model/Layout.lean` leaves out (`Branch.name`, `Branch.color`, species names).
  Output: the sequence of `layers[...].append(<statement>)` calls in the order in which the
  Python code makes them — which statement template of `Generated/TikzTemplates.lean`
  (index into `Generated.statements`), on behalf of which branch, with which fillings, the
  coordinates as exact rationals — or the exception the code raises.

  `toCall` turns a drawing call into a `Tikz.Call` (coordinates printed by `fmtPos`, the model
  of `format(Position, "4")` on exactly representable values), so that `Tikz.render` — the
  assembly over the generated templates, `get_color` interning included — produces the text.

  Python dicts are association lists (`lookupKey`, `fbLookup`, `slLookup` of `Model/Layout`).
  Exceptions: `KeyError` = `.key`, `AssertionError`/`ValueError` = `.value`.
-/
import SRVerif.Model.Layout
import SRVerif.Generated.TikzTemplates

namespace SR.TikzDraw

open SR SR.Layout SR.Tikz

/-! ## Inputs that `Model/Layout.lean` does not carry -/

/-- The fields of `DrawParams` read by `_tikz_draw_fork` / `_tikz_draw_branches`
    (the orientation is a separate argument). -/
structure DParams where
  leafSpacing : Rat          -- species_leaf_spacing
  geneDiameter : Rat         -- extant_gene_diameter
  rounding : Str             -- species_border_rounding
  labelWidth : Option Nat    -- species_label_width
  deriving Repr, Inhabited

/-- `Branch.name`, `Branch.color` (per species and branch key) and `species_node.name`. -/
structure Deco where
  name : Path → Key → Str
  color : Path → Key → Str
  spName : Path → Str

/-! ## Drawing calls -/

/-- What is interpolated into a hole. -/
inductive DFill where
  | coord (p : Pos)        -- `{pos : {MAX_DIGITS}}`
  | text (s : Str)         -- label, TeX length or keyword
  | color (html : Str)     -- `{get_color(html)}`
  deriving DecidableEq, Repr, Inhabited

/-- One `layers[layer].append(statement)`: `stmt` indexes `Generated.statements` (which gives the
    layer and the template), `sp` is the species being drawn, `owner` the branch of the loop
    iteration that makes the call (`none`: the call of `_tikz_draw_fork`), `target` the gene
    whose anchor a transfer arrow points to (`right_gene`; `none` for every other statement). -/
structure DrawCall where
  stmt : Nat
  sp : Path
  owner : Option Key
  fills : List DFill
  target : Option Key := none
  deriving DecidableEq, Repr, Inhabited

/-- `Position.meet_hv`: horizontal line from `a`, vertical line from `b`. -/
def meetHV (a b : Pos) : Pos := ⟨b.x, a.y⟩

/-- `Position.meet_vh`: vertical line from `a`, horizontal line from `b`. -/
def meetVH (a b : Pos) : Pos := ⟨a.x, b.y⟩

/-- `"|-"`, `"-|"` -/
def linkVH : Str := ['|', '-']
def linkHV : Str := ['-', '|']

/-- `fork_links` -/
def forkLinks : Orientation → Str × Str
  | .vertical => (linkVH, linkHV)
  | .horizontal => (linkHV, linkVH)

/-- `bend_out` -/
def bendRight : Str := "out=0, in=180".toList
def bendLeft : Str := "out=180, in=0".toList
def bendUp : Str := "out=90, in=-90".toList
def bendDown : Str := "out=-90, in=90".toList

/-- `\phantom{-}`: content forced into an empty transfer node. -/
def phantomDash : Str := "\\phantom{-}".toList

/-! ### `_tikz_draw_fork` -/

/-- `species_name`: escaped, then wrapped when `species_label_width` is set
    (`balanced_wrap(...).replace("\n", "\\\\")`; `none` is the `ValueError` of `textwrap`). -/
def speciesLabel (width : Option Nat) (name : Str) : Option Str :=
  match width with
  | none => some (escape name)
  | some w => balancedWrapText texLineBreak w (escape name)

/-- The statement of an internal species (`left_fork`, `right_fork`, `inner_fork`). -/
def forkInner (o : Orientation) (dp : DParams) (lay l r : SubLayout) : DrawCall :=
  let (lf, rf, inf) : (Pos × Pos × Pos × Pos) × (Pos × Pos × Pos × Pos) × (Pos × Pos × Pos × Pos) :=
    match o with
    | .vertical =>
      let join := lay.trunk.bottomLeft.add ⟨0, lay.fork⟩
      ((l.trunk.topLeft, meetVH l.trunk.topLeft lay.trunk.bottomLeft, lay.trunk.bottomLeft,
          lay.trunk.topLeft),
       (r.trunk.topRight, meetVH r.trunk.topRight lay.trunk.bottomRight, lay.trunk.bottomRight,
          lay.trunk.topRight),
       (l.trunk.topRight, meetVH l.trunk.topRight join, meetHV join r.trunk.topLeft,
          r.trunk.topLeft))
    | .horizontal =>
      let join := lay.trunk.bottomRight.add ⟨lay.fork, 0⟩
      ((l.trunk.topLeft, meetHV l.trunk.topLeft lay.trunk.topRight, lay.trunk.topRight,
          lay.trunk.topLeft),
       (r.trunk.bottomLeft, meetHV r.trunk.bottomLeft lay.trunk.bottomRight, lay.trunk.bottomRight,
          lay.trunk.bottomLeft),
       (l.trunk.bottomLeft, meetHV l.trunk.bottomLeft join, meetVH join r.trunk.topLeft,
          r.trunk.topLeft))
  let rd := DFill.text dp.rounding
  { stmt := 0, sp := lay.sp, owner := none,
    fills := [.coord lf.1, rd, .coord lf.2.1, .coord lf.2.2.1, .coord lf.2.2.2,
              .coord rf.2.2.2, rd, .coord rf.2.2.1, .coord rf.2.1, .coord rf.1,
              .coord inf.2.2.2, rd, .coord inf.2.2.1, .coord inf.2.1, .coord inf.1] }

/-- The statement of a leaf species (`path`, species label). -/
def forkLeaf (o : Orientation) (dp : DParams) (deco : Deco) (lay : SubLayout) :
    Except LErr DrawCall :=
  let path : Pos × Pos × Pos × Pos :=
    match o with
    | .vertical =>
      let shift : Pos := ⟨0, dp.leafSpacing⟩
      (lay.trunk.topLeft, lay.trunk.bottomLeft.add shift, lay.trunk.bottomRight.add shift,
        lay.trunk.topRight)
    | .horizontal =>
      let shift : Pos := ⟨dp.leafSpacing, 0⟩
      (lay.trunk.topLeft, lay.trunk.topRight.add shift, lay.trunk.bottomRight.add shift,
        lay.trunk.bottomLeft)
  match speciesLabel dp.labelWidth (deco.spName lay.sp) with
  | none => .error .value
  | some label =>
    .ok { stmt := 1, sp := lay.sp, owner := none,
          fills := [.text dp.rounding, .coord path.1, .coord path.2.1, .text label,
                    .coord path.2.2.1, .coord path.2.2.2] }

/-! ### `_tikz_draw_branches` -/

/-- `X_layout.anchors[k]` for an optional layout (`assert X_layout is not None`) and an optional
    key (`None` is never a key). -/
def anchorPos (l : Option SubLayout) (k : Option Key) : Except LErr Pos :=
  match l, k with
  | some l, some k =>
    match lookupKey l.anchors k with
    | some p => .ok p
    | none => .error .key
  | none, _ => .error .value
  | _, none => .error .key

/-- `layout.branches[k].anchor_parent` -/
def branchParentAnchor (l : SubLayout) (k : Option Key) : Except LErr Pos :=
  match k with
  | some k =>
    match fbLookup l.branches k with
    | some b => .ok b.aParent
    | none => .error .key
  | none => .error .key

/-- The `if root_gene in layout.anchors:` statement. -/
def anchorCall (deco : Deco) (lay : SubLayout) (b : FBranch) : List DrawCall :=
  match lookupKey lay.anchors b.key with
  | some a =>
    [{ stmt := 2, sp := lay.sp, owner := some b.key,
       fills := [.color (deco.color lay.sp b.key), .coord b.aParent, .coord a] }]
  | none => []

/-- One iteration of `for root_gene, branch in layout.branches.items()`.
    `all` is `all_layouts`, `spOf` is `mapping` (object node ↦ species). -/
def drawBranch (o : Orientation) (dp : DParams) (deco : Deco) (all : List SubLayout)
    (spOf : Path → Option Path) (lay : SubLayout) (ll rl : Option SubLayout) (b : FBranch) :
    Except LErr (List DrawCall) :=
  let pos := b.rect.center
  let col := DFill.color (deco.color lay.sp b.key)
  let name := deco.name lay.sp b.key
  let links := forkLinks o
  let call (k : Nat) (fills : List DFill) : DrawCall :=
    { stmt := k, sp := lay.sp, owner := some b.key, fills := fills }
  let pre := anchorCall deco lay b
  match b.kind with
  | .leaf =>
    let leafPos : Pos :=
      match o with
      | .vertical => b.rect.top.add ⟨0, dp.geneDiameter / 2⟩
      | .horizontal => b.rect.left.add ⟨dp.geneDiameter / 2, 0⟩
    .ok (pre ++ [call 3 [col, .text name, .coord leafPos]])
  | .loss =>
    let keep : Except LErr (Pos × Pos) :=
      if b.right.isNone then
        match anchorPos ll b.left with
        | .error e => .error e
        | .ok k =>
          .ok (k, match o with
                  | .vertical => (⟨lay.trunk.right.x, pos.y⟩ : Pos)
                  | .horizontal => ⟨pos.x, lay.trunk.bottom.y⟩)
      else
        match anchorPos rl b.right with
        | .error e => .error e
        | .ok k =>
          .ok (k, match o with
                  | .vertical => (⟨lay.trunk.left.x, pos.y⟩ : Pos)
                  | .horizontal => ⟨pos.x, lay.trunk.top.y⟩)
    match keep with
    | .error e => .error e
    | .ok (keepPos, lossPos) =>
      .ok (pre ++ [call 4 [col, .coord pos, .coord lossPos],
                   call 5 [col, .coord lossPos],
                   call 6 [col, .coord pos, .text links.2, .coord keepPos]])
  | .spec =>
    match anchorPos ll b.left, anchorPos rl b.right with
    | .ok la, .ok ra =>
      .ok (pre ++ [call 7 [col, .coord la, .text links.1, .coord b.aLeft, .coord b.aRight,
                           .text links.2, .coord ra],
                   call 8 [col, .coord pos, .text name]])
    | .error e, _ => .error e
    | _, .error e => .error e
  | .dup =>
    match branchParentAnchor lay b.left, branchParentAnchor lay b.right with
    | .ok la, .ok ra =>
      .ok (pre ++ [call 9 [col, .coord la, .text links.1, .coord b.aLeft, .coord b.aRight,
                           .text links.2, .coord ra],
                   call 10 [col, .coord pos, .text name]])
    | .error e, _ => .error e
    | _, .error e => .error e
  | .hgt =>
    match b.right with
    | some (.gene g) =>
      match spOf g with
      | none => .error .key
      | some s =>
        match slLookup all s with
        | none => .error .key
        | some fl =>
          match lookupKey fl.anchors (.gene g) with
          | none => .error .key
          | some foreign =>
            let (bend, out) : Str × Pos :=
              match o with
              | .vertical =>
                if pos.x < foreign.x then (bendRight, b.aRight) else (bendLeft, b.aLeft)
              | .horizontal =>
                if pos.y > foreign.y then (bendUp, b.aLeft) else (bendDown, b.aRight)
            match branchParentAnchor lay b.left with
            | .error e => .error e
            | .ok la =>
              .ok (pre ++ [call 11 [col, .coord la, .coord b.aChild],
                           { call 12 [col, .coord out, .text bend, .coord foreign] with
                             target := some (.gene g) },
                           call 13 [col, .coord pos,
                                    .text (if name.isEmpty then phantomDash else name)]])
    | _ => .error .key

/-- The loop `for root_gene, branch in layout.branches.items()`. -/
def drawBranches (o : Orientation) (dp : DParams) (deco : Deco) (all : List SubLayout)
    (spOf : Path → Option Path) (lay : SubLayout) (ll rl : Option SubLayout) :
    List FBranch → Except LErr (List DrawCall)
  | [] => .ok []
  | b :: rest =>
    match drawBranch o dp deco all spOf lay ll rl b with
    | .error e => .error e
    | .ok a =>
      match drawBranches o dp deco all spOf lay ll rl rest with
      | .error e => .error e
      | .ok r => .ok (a ++ r)

/-! ### `render`: the loop over the species tree -/

/-- The body of `for species_node in ….traverse("preorder")` for the species at path `s`. -/
def drawSpecies (o : Orientation) (dp : DParams) (deco : Deco) (S : RTree)
    (spOf : Path → Option Path) (all : List SubLayout) (s : Path) : Except LErr (List DrawCall) :=
  match slLookup all s with
  | none => .error .key                                 -- `layout[species_node]`
  | some lay =>
    match (S.sub s).map RTree.children with
    | some [] =>
      match forkLeaf o dp deco lay with
      | .error e => .error e
      | .ok f =>
        match drawBranches o dp deco all spOf lay none none lay.branches with
        | .error e => .error e
        | .ok bs => .ok (f :: bs)
    | some [_, _] =>                                    -- `left, right = species_node.children`
      match slLookup all (s ++ [0]), slLookup all (s ++ [1]) with
      | some l, some r =>
        match drawBranches o dp deco all spOf lay (some l) (some r) lay.branches with
        | .error e => .error e
        | .ok bs => .ok (forkInner o dp lay l r :: bs)
      | _, _ => .error .key                             -- `layout[left]`, `layout[right]`
    | _ => .error .value

def drawSpeciesList (o : Orientation) (dp : DParams) (deco : Deco) (S : RTree)
    (spOf : Path → Option Path) (all : List SubLayout) : List Path → Except LErr (List DrawCall)
  | [] => .ok []
  | s :: rest =>
    match drawSpecies o dp deco S spOf all s with
    | .error e => .error e
    | .ok a =>
      match drawSpeciesList o dp deco S spOf all rest with
      | .error e => .error e
      | .ok r => .ok (a ++ r)

/-- All drawing calls of `tikz.render(rec, layout, params)`, in the order they are made. -/
def drawCalls (o : Orientation) (dp : DParams) (deco : Deco) (S : RTree)
    (spOf : Path → Option Path) (all : List SubLayout) : Except LErr (List DrawCall) :=
  drawSpeciesList o dp deco S spOf all S.preorder

/-! ## From drawing calls to text -/

def digitChar : Nat → Char
  | 0 => '0' | 1 => '1' | 2 => '2' | 3 => '3' | 4 => '4'
  | 5 => '5' | 6 => '6' | 7 => '7' | 8 => '8' | _ => '9'

/-- `round(x, 4) * 10^4` as an integer magnitude: round-half-even of `|q| * 10^4`
    (what CPython's correctly rounded `float.__round__` gives on an exactly representable `x`). -/
def roundMag (q : Rat) : Nat :=
  let a := q.num.natAbs * 10 ^ Generated.maxDigits
  let d := q.den
  let qt := a / d
  let r := a % d
  if 2 * r > d then qt + 1
  else if 2 * r = d then qt + qt % 2
  else qt

/-- `repr(round(x, 4) + 0.0)` for an exactly representable `x` of moderate magnitude: at most
    four decimals, trailing zeros removed but one kept, no negative zero. -/
def fmtCoord (q : Rat) : Str :=
  let m := roundMag q
  let scale := 10 ^ Generated.maxDigits
  let fp := m % scale
  let frac : Str := [digitChar (fp / 1000), digitChar (fp / 100 % 10), digitChar (fp / 10 % 10),
                     digitChar (fp % 10)]
  let frac := (frac.reverse.dropWhile (· == '0')).reverse
  (if q.num < 0 ∧ m ≠ 0 then ['-'] else []) ++ natStr (m / scale) ++ ['.'] ++
    (if frac.isEmpty then ['0'] else frac)

/-- `format(pos, "4")` -/
def fmtPos (p : Pos) : Str := fmtCoord p.x ++ [','] ++ fmtCoord p.y

def DFill.toFill : DFill → Fill
  | .coord p => .text (fmtPos p)
  | .text s => .text s
  | .color h => .color h

/-- The layer and the template of statement `k`. -/
def stmtAt (k : Nat) : Nat × Template := Generated.statements.getD k (0, [])

def DrawCall.toCall (c : DrawCall) : Call :=
  { layer := (stmtAt c.stmt).1, tmpl := (stmtAt c.stmt).2, fills := c.fills.map DFill.toFill }

/-- `get_tikz_definitions(params)` with the parameter values already printed. -/
def defsText (o : Orientation) (fills : List Str) : Str :=
  match o with
  | .vertical => Generated.tmpl_defs_vertical.instantiate fills
  | .horizontal => Generated.tmpl_defs_horizontal.instantiate fills

/-- The text assembled from a sequence of drawing calls. -/
def assemble (defs : Str) (calls : List DrawCall) : Str :=
  Tikz.render Generated.renderSkeleton Generated.layerNames Generated.colorPrefix Generated.joiner
    defs (calls.map DrawCall.toCall)

/-- `tikz.render(rec, layout, params)`. -/
def renderText (o : Orientation) (dp : DParams) (deco : Deco) (defsFills : List Str) (S : RTree)
    (spOf : Path → Option Path) (all : List SubLayout) : Except LErr Str :=
  match drawCalls o dp deco S spOf all with
  | .error e => .error e
  | .ok calls => .ok (assemble (defsText o defsFills) calls)

/-! ## Statement kinds (the view of `Layout.Stmt`, used by C13) -/

/-- The `Layout.Stmt` a drawing call stands for; the fork statements have none. -/
def stmtOf (c : DrawCall) : Option Stmt :=
  match c.owner with
  | none => none
  | some k =>
    if c.stmt = 3 then some (.event k .leaf)
    else if c.stmt = 8 then some (.event k .spec)
    else if c.stmt = 10 then some (.event k .dup)
    else if c.stmt = 13 then some (.event k .hgt)
    else if c.stmt = 5 then some (.lossMarker k)
    else if c.stmt = 12 then c.target.map (Stmt.transfer k)
    else some .path

end SR.TikzDraw
