/-
  C12 — the JSON TEXT layer: `json.dumps` (default options) and `json.loads` of CPython's
  `json` package, on the values that `to_dict()` of `superrec2/model/reconciliation.py`
  produces and `cli/reconcile.py::dump_results` writes (`json.dump(result.to_dict(), out)`).

  * `JVal`: objects (string keys, insertion order), arrays, strings, integers, booleans,
    `null`, and the two infinite floats (`float('inf')` is what an infinite unit cost is;
    Python writes it `Infinity`, and `-Infinity` for its opposite).  Other floats and `NaN`
    are not modelled.  A string is a Lean `String`: a sequence of Unicode SCALAR values
    (a Python `str` may also hold lone surrogates; those are outside the model).
  * `render` = `json.dumps(v)`: separators `", "` and `": "`, `ensure_ascii=True`
    (`json.encoder.py_encode_basestring_ascii`: `\"`, `\\`, `\n`, `\r`, `\t`, `\b`, `\f`,
    every other character outside `' '..'~'` as `\uXXXX` in lower-case hexadecimal, with a
    surrogate pair above U+FFFF), integers in decimal (`int.__repr__`).
  * `parseRaw` = `json.loads(s, object_pairs_hook=<keep the pairs>)`: the scanner of
    `json/scanner.py` + `json/decoder.py` (`py_scanstring` in strict mode, `JSONObject`,
    `JSONArray`, whitespace `[ \t\n\r]*` between tokens, `Infinity` / `-Infinity`, integers
    `-?(0|[1-9][0-9]*)`); a number with a fraction or an exponent (a float), `NaN`, a lone
    surrogate escape are answered `none` (outside the model).
  * `parse` = `json.loads(s)`: `parseRaw`, then every object becomes a Python `dict`
    (`JVal.norm`: a repeated key keeps its first position and its last value — `Dict.ofList`).

  All functions are total: structural recursion, or fuel that decreases with the input
  (`Proofs/Json*.lean`: the fuel given by `parseRaw` suffices on every rendered value).

  The last section converts between `JVal` and the dictionary structure `OutputDict` of
  `Model/Serialize.lean` (`dictToJ` writes the keys in the order of `to_dict`; `dictOfJ` reads
  them as `from_dict` does: by key, optional keys by presence).

  Core Lean only: linked into the driver.
-/
import SRVerif.Model.Serialize

namespace SR.Json

open SR SR.Ser

inductive JVal where
  | null
  | bool (b : Bool)
  | int (n : Int)
  | inf
  | ninf
  | str (s : String)
  | arr (l : List JVal)
  | obj (m : List (String × JVal))
  deriving Repr, Inhabited

/-! ## Rendering (`json.dumps`) -/

def digitChar (d : Nat) : Char := Char.ofNat (48 + d)

/-- Decimal digits of `n`, most significant first (`fuel > n` is more than enough). -/
def natDigitsF : Nat → Nat → List Char
  | 0, _ => []
  | f + 1, n => if n < 10 then [digitChar n] else natDigitsF f (n / 10) ++ [digitChar (n % 10)]

def natDigits (n : Nat) : List Char := natDigitsF (n + 1) n

/-- `int.__repr__`. -/
def renderInt : Int → List Char
  | .ofNat n => natDigits n
  | .negSucc n => '-' :: natDigits (n + 1)

/-- One lower-case hexadecimal digit. -/
def hexDigit (d : Nat) : Char := if d < 10 then Char.ofNat (48 + d) else Char.ofNat (87 + d)

/-- `'{0:04x}'.format(n)` for `n < 65536`. -/
def hex4 (n : Nat) : List Char :=
  [hexDigit (n / 4096 % 16), hexDigit (n / 256 % 16), hexDigit (n / 16 % 16), hexDigit (n % 16)]

def uEsc (n : Nat) : List Char := '\\' :: 'u' :: hex4 n

/-- `ESCAPE_ASCII.sub(replace, s)` of `py_encode_basestring_ascii`, one character. -/
def escChar (c : Char) : List Char :=
  if c = '"' then ['\\', '"']
  else if c = '\\' then ['\\', '\\']
  else if c = '\n' then ['\\', 'n']
  else if c = '\r' then ['\\', 'r']
  else if c = '\t' then ['\\', 't']
  else if c = '\x08' then ['\\', 'b']
  else if c = '\x0c' then ['\\', 'f']
  else if 0x20 ≤ c.toNat ∧ c.toNat ≤ 0x7e then [c]
  else if c.toNat < 0x10000 then uEsc c.toNat
  else uEsc (0xd800 + (c.toNat - 0x10000) / 1024) ++ uEsc (0xdc00 + (c.toNat - 0x10000) % 1024)

def renderStr (s : List Char) : List Char := '"' :: (s.flatMap escChar ++ ['"'])

mutual
  def renderV : JVal → List Char
    | .null => ['n', 'u', 'l', 'l']
    | .bool true => ['t', 'r', 'u', 'e']
    | .bool false => ['f', 'a', 'l', 's', 'e']
    | .int n => renderInt n
    | .inf => ['I', 'n', 'f', 'i', 'n', 'i', 't', 'y']
    | .ninf => ['-', 'I', 'n', 'f', 'i', 'n', 'i', 't', 'y']
    | .str s => renderStr s.toList
    | .arr [] => ['[', ']']
    | .arr (v :: l) => '[' :: (renderV v ++ (renderTail l ++ [']']))
    | .obj [] => ['{', '}']
    | .obj ((k, v) :: m) =>
      '{' :: (renderStr k.toList ++ (':' :: ' ' :: (renderV v ++ (renderMTail m ++ ['}']))))
  /-- The elements after the first, each preceded by `", "`. -/
  def renderTail : List JVal → List Char
    | [] => []
    | v :: l => ',' :: ' ' :: (renderV v ++ renderTail l)
  def renderMTail : List (String × JVal) → List Char
    | [] => []
    | (k, v) :: m =>
      ',' :: ' ' :: (renderStr k.toList ++ (':' :: ' ' :: (renderV v ++ renderMTail m)))
end

/-- `json.dumps(v)`. -/
def render (v : JVal) : String := String.ofList (renderV v)

/-! ## Parsing (`json.loads`) -/

def isWs (c : Char) : Bool := c == ' ' || c == '\t' || c == '\n' || c == '\r'

def skipWs : List Char → List Char
  | [] => []
  | c :: cs => if isWs c then skipWs cs else c :: cs

def dropPrefix? : List Char → List Char → Option (List Char)
  | [], cs => some cs
  | _ :: _, [] => none
  | p :: ps, c :: cs => if p = c then dropPrefix? ps cs else none

def hexVal? (c : Char) : Option Nat :=
  if 48 ≤ c.toNat ∧ c.toNat ≤ 57 then some (c.toNat - 48)
  else if 97 ≤ c.toNat ∧ c.toNat ≤ 102 then some (c.toNat - 87)
  else if 65 ≤ c.toNat ∧ c.toNat ≤ 70 then some (c.toNat - 55)
  else none

/-- Four hexadecimal digits (either case). -/
def hex4? : List Char → Option (Nat × List Char)
  | a :: b :: c :: d :: r =>
    match hexVal? a, hexVal? b, hexVal? c, hexVal? d with
    | some a, some b, some c, some d => some (((a * 16 + b) * 16 + c) * 16 + d, r)
    | _, _, _, _ => none
  | _ => none

/-- A Unicode scalar value; `none` on a surrogate code point or beyond U+10FFFF. -/
def charOfNat? (n : Nat) : Option Char :=
  if n < 0xd800 ∨ (0xdfff < n ∧ n < 0x110000) then some (Char.ofNat n) else none

/-- `0x10000 + (((hi - 0xd800) << 10) | (lo - 0xdc00))`. -/
def joinSurrogates (hi lo : Nat) : Nat := 0x10000 + (hi - 0xd800) * 1024 + (lo - 0xdc00)

/-- After `\u`: four hexadecimal digits; a `\uD800..\uDBFF` must be followed by a
    `\uDC00..\uDFFF` (Python would keep a lone surrogate in the `str`; the model has no such
    strings). -/
def unescapeU (r : List Char) : Option (Char × List Char) :=
  match hex4? r with
  | none => none
  | some (u, r1) =>
    if 0xd800 ≤ u ∧ u ≤ 0xdbff then
      match dropPrefix? ['\\', 'u'] r1 with
      | none => none
      | some r2 =>
        match hex4? r2 with
        | none => none
        | some (u2, r3) =>
          if 0xdc00 ≤ u2 ∧ u2 ≤ 0xdfff then
            (charOfNat? (joinSurrogates u u2)).map (fun c => (c, r3))
          else none
    else (charOfNat? u).map (fun c => (c, r1))

/-- What follows a backslash in a string (`py_scanstring`): the character denoted and the
    rest. -/
def unescape : List Char → Option (Char × List Char)
  | [] => none
  | e :: r =>
    if e = '"' then some ('"', r)
    else if e = '\\' then some ('\\', r)
    else if e = '/' then some ('/', r)
    else if e = 'b' then some ('\x08', r)
    else if e = 'f' then some ('\x0c', r)
    else if e = 'n' then some ('\n', r)
    else if e = 'r' then some ('\r', r)
    else if e = 't' then some ('\t', r)
    else if e = 'u' then unescapeU r
    else none

/-- The body of a string, after the opening quote, up to the closing quote (strict mode: a
    raw control character is an error).  One unit of fuel per character read. -/
def parseStrBody : Nat → List Char → Option (List Char × List Char)
  | 0, _ => none
  | _ + 1, [] => none
  | f + 1, c :: r =>
    if c = '"' then some ([], r)
    else if c = '\\' then
      match unescape r with
      | none => none
      | some (x, r') => (parseStrBody f r').map (fun p => (x :: p.1, p.2))
    else if c.toNat < 0x20 then none
    else (parseStrBody f r).map (fun p => (c :: p.1, p.2))

def parseStr (r : List Char) : Option (String × List Char) :=
  (parseStrBody (r.length + 1) r).map (fun p => (String.ofList p.1, p.2))

/-- A run of decimal digits, accumulated. -/
def readNat : Nat → List Char → Nat × List Char
  | acc, [] => (acc, [])
  | acc, c :: r => if c.isDigit then readNat (acc * 10 + (c.toNat - 48)) r else (acc, c :: r)

/-- After the integer part: a fraction or an exponent would make a float (not modelled). -/
def numTail (n : Nat) : List Char → Option (Nat × List Char)
  | [] => some (n, [])
  | d :: r => if d = '.' ∨ d = 'e' ∨ d = 'E' then none else some (n, d :: r)

/-- `(0|[1-9][0-9]*)`, then no fraction and no exponent. -/
def parseNat : List Char → Option (Nat × List Char)
  | [] => none
  | c :: r =>
    if c = '0' then numTail 0 r
    else if c.isDigit then numTail (readNat 0 (c :: r)).1 (readNat 0 (c :: r)).2
    else none

mutual
  /-- One value at the head of the input (no leading whitespace). -/
  def parseVal : Nat → List Char → Option (JVal × List Char)
    | 0, _ => none
    | _ + 1, [] => none
    | f + 1, c :: r =>
      if c = 'n' then (dropPrefix? ['u', 'l', 'l'] r).map (fun r' => (.null, r'))
      else if c = 't' then (dropPrefix? ['r', 'u', 'e'] r).map (fun r' => (.bool true, r'))
      else if c = 'f' then (dropPrefix? ['a', 'l', 's', 'e'] r).map (fun r' => (.bool false, r'))
      else if c = 'I' then
        (dropPrefix? ['n', 'f', 'i', 'n', 'i', 't', 'y'] r).map (fun r' => (.inf, r'))
      else if c = '"' then (parseStr r).map (fun p => (.str p.1, p.2))
      else if c = '[' then
        if (skipWs r).head? = some ']' then some (.arr [], (skipWs r).tail)
        else
          match parseVal f (skipWs r) with
          | none => none
          | some (v, r') => (parseTail f r').map (fun p => (.arr (v :: p.1), p.2))
      else if c = '{' then
        if (skipWs r).head? = some '}' then some (.obj [], (skipWs r).tail)
        else
          match parseMember f (skipWs r) with
          | none => none
          | some (kv, r') => (parseMTail f r').map (fun p => (.obj (kv :: p.1), p.2))
      else if c = '-' then
        match r with
        | [] => none
        | c' :: r' =>
          if c' = 'I' then
            (dropPrefix? ['n', 'f', 'i', 'n', 'i', 't', 'y'] r').map (fun r'' => (.ninf, r''))
          else (parseNat (c' :: r')).map (fun p => (.int (-(p.1 : Int)), p.2))
      else (parseNat (c :: r)).map (fun p => (.int (p.1 : Int), p.2))
  /-- After an array element: `]`, or `,` and the next element. -/
  def parseTail : Nat → List Char → Option (List JVal × List Char)
    | 0, _ => none
    | f + 1, cs =>
      match skipWs cs with
      | [] => none
      | c :: r =>
        if c = ']' then some ([], r)
        else if c = ',' then
          match parseVal f (skipWs r) with
          | none => none
          | some (v, r') => (parseTail f r').map (fun p => (v :: p.1, p.2))
        else none
  /-- One member `"key" : value` (no leading whitespace). -/
  def parseMember : Nat → List Char → Option ((String × JVal) × List Char)
    | 0, _ => none
    | _ + 1, [] => none
    | f + 1, c :: r =>
      if c = '"' then
        match parseStr r with
        | none => none
        | some (k, r1) =>
          match skipWs r1 with
          | [] => none
          | c1 :: r2 =>
            if c1 = ':' then
              match parseVal f (skipWs r2) with
              | none => none
              | some (v, r3) => some ((k, v), r3)
            else none
      else none
  /-- After an object member: `}`, or `,` and the next member. -/
  def parseMTail : Nat → List Char → Option (List (String × JVal) × List Char)
    | 0, _ => none
    | f + 1, cs =>
      match skipWs cs with
      | [] => none
      | c :: r =>
        if c = '}' then some ([], r)
        else if c = ',' then
          match parseMember f (skipWs r) with
          | none => none
          | some (kv, r') => (parseMTail f r').map (fun p => (kv :: p.1, p.2))
        else none
end

/-- A whole document: whitespace, one value, whitespace, end of input. -/
def parseC (cs : List Char) : Option JVal :=
  match parseVal (cs.length + 1) (skipWs cs) with
  | none => none
  | some (v, r) => if (skipWs r).isEmpty then some v else none

/-- `json.loads(s, object_pairs_hook=…)` keeping every pair of every object in order. -/
def parseRaw (s : String) : Option JVal := parseC s.toList

mutual
  /-- What `dict(pairs)` does to every object, innermost first: a repeated key keeps its
      first position and takes the last value. -/
  def JVal.norm : JVal → JVal
    | .arr l => .arr (normL l)
    | .obj m => .obj (Dict.ofList (normM m))
    | v => v
  def normL : List JVal → List JVal
    | [] => []
    | v :: l => v.norm :: normL l
  def normM : List (String × JVal) → List (String × JVal)
    | [] => []
    | (k, v) :: m => (k, v.norm) :: normM m
end

/-- `json.loads(s)`. -/
def parse (s : String) : Option JVal := (parseRaw s).map JVal.norm

mutual
  /-- No object, at any depth, has a repeated key (true of every value built from Python
      `dict`s). -/
  def JVal.wf : JVal → Bool
    | .arr l => wfL l
    | .obj m => decide ((keysM m).Nodup) && wfM m
    | _ => true
  def wfL : List JVal → Bool
    | [] => true
    | v :: l => v.wf && wfL l
  def wfM : List (String × JVal) → Bool
    | [] => true
    | (_, v) :: m => v.wf && wfM m
  def keysM : List (String × JVal) → List String
    | [] => []
    | (k, _) :: m => k :: keysM m
end

/-- The well-formedness needed by the round trip through `json.loads`: no repeated key. -/
def WFJ (v : JVal) : Prop := v.wf = true

instance (v : JVal) : Decidable (WFJ v) := inferInstanceAs (Decidable (_ = true))

/-! Structural equality (`DecidableEq JVal` is derived from it in `Proofs/Json.lean`). -/
mutual
  def JVal.beq : JVal → JVal → Bool
    | .null, .null => true
    | .bool a, .bool b => a == b
    | .int a, .int b => a == b
    | .inf, .inf => true
    | .ninf, .ninf => true
    | .str a, .str b => a == b
    | .arr a, .arr b => beqL a b
    | .obj a, .obj b => beqM a b
    | _, _ => false
  def beqL : List JVal → List JVal → Bool
    | [], [] => true
    | a :: as, b :: bs => a.beq b && beqL as bs
    | _, _ => false
  def beqM : List (String × JVal) → List (String × JVal) → Bool
    | [], [] => true
    | (k, a) :: as, (k', b) :: bs => k == k' && a.beq b && beqM as bs
    | _, _ => false
end

/-! ## `JVal` ↔ the dictionary structure of `Model/Serialize.lean` -/

def costToJ : Cost → JVal
  | .fin n => .int n
  | .inf => .inf

def strMapToJ (l : List (String × String)) : JVal := .obj (l.map (fun x => (x.1, .str x.2)))

def costMapToJ (l : List (String × Cost)) : JVal := .obj (l.map (fun x => (x.1, costToJ x.2)))

def synMapToJ (l : List (String × List String)) : JVal :=
  .obj (l.map (fun x => (x.1, .arr (x.2.map .str))))

def optField (k : String) : Option JVal → List (String × JVal)
  | some v => [(k, v)]
  | none => []

/-- The dictionary of `ReconciliationInput.to_dict` / `SuperReconciliationInput.to_dict`, keys
    in the order the code writes them. -/
def inputToJ (d : InputDict) : JVal :=
  .obj ([("object_tree", .str d.object_tree), ("species_tree", .str d.species_tree)]
    ++ optField "leaf_object_species" (d.leaf_object_species.map strMapToJ)
    ++ optField "costs" (d.costs.map costMapToJ)
    ++ optField "leaf_syntenies" (d.leaf_syntenies.map synMapToJ))

/-- The dictionary of `ReconciliationOutput.to_dict` / `SuperReconciliationOutput.to_dict`. -/
def dictToJ (d : OutputDict) : JVal :=
  .obj ([("input", inputToJ d.input), ("object_species", strMapToJ d.object_species)]
    ++ optField "syntenies" (d.syntenies.map synMapToJ)
    ++ optField "ordered" (d.ordered.map .bool))

def lookupJ (k : String) : List (String × JVal) → Option JVal
  | [] => none
  | (k', v) :: m => if k' = k then some v else lookupJ k m

def strOfJ : JVal → Option String
  | .str s => some s
  | _ => none

def costOfJ : JVal → Option Cost
  | .int (.ofNat n) => some (.fin n)
  | .inf => some .inf
  | _ => none

def strListOfJ : JVal → Option (List String)
  | .arr l => l.mapM strOfJ
  | _ => none

def mapOfJ {α : Type} (f : JVal → Option α) : JVal → Option (List (String × α))
  | .obj m => m.mapM (fun x => (f x.2).map (fun y => (x.1, y)))
  | _ => none

/-- An optional key: absent → `none`; present → its value must have the expected shape. -/
def optOfJ {α : Type} (f : JVal → Option α) (k : String) (m : List (String × JVal)) :
    Option (Option α) :=
  match lookupJ k m with
  | none => some none
  | some v => (f v).map some

def boolOfJ : JVal → Option Bool
  | .bool b => some b
  | _ => none

def inputOfJ : JVal → Option InputDict
  | .obj m => do
    let ot ← (lookupJ "object_tree" m).bind strOfJ
    let st ← (lookupJ "species_tree" m).bind strOfJ
    let los ← optOfJ (mapOfJ strOfJ) "leaf_object_species" m
    let costs ← optOfJ (mapOfJ costOfJ) "costs" m
    let ls ← optOfJ (mapOfJ strListOfJ) "leaf_syntenies" m
    pure { object_tree := ot, species_tree := st, leaf_object_species := los, costs := costs,
           leaf_syntenies := ls }
  | _ => none

/-- The parsed document as the dictionary structure: `data["input"]`, `data["object_species"]`,
    `"syntenies" in data`, `data.get("ordered")`; `none` when a value has not the shape that
    `OutputDict` can hold (the real `from_dict` would raise or misbehave later). -/
def dictOfJ : JVal → Option OutputDict
  | .obj m => do
    let inp ← (lookupJ "input" m).bind inputOfJ
    let os ← (lookupJ "object_species" m).bind (mapOfJ strOfJ)
    let syn ← optOfJ (mapOfJ strListOfJ) "syntenies" m
    let ord ← optOfJ boolOfJ "ordered" m
    pure { input := inp, object_species := os, syntenies := syn, ordered := ord }
  | _ => none

/-- What `dump_results` writes for one result: `json.dump(result.to_dict(), out)`. -/
def renderDict (d : OutputDict) : String := render (dictToJ d)

/-- What a reader gets from one line: `json.loads(line)` seen as a dictionary structure. -/
def parseDict (s : String) : Option OutputDict := (parse s).bind dictOfJ

end SR.Json
