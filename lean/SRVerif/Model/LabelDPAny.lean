/-
  The retention policy `RetentionPolicy.ANY`, end to end.

  In the Python code the policy given to a solver flows to three places:
    * the table (`Table(…, MergePolicy.MIN, policy)`), hence to every
      `table.entry()` role aggregate of `_compute_*_entry` and to every table
      cell: under ANY `Entry.update` keeps ONE tag — it replaces the tag on a
      strict improvement and adds a tag on a tie only while it has none
      (`Model/Entry.lean`, `update1`; `C16_any`);
    * `Entry.combine`, which forms the product of the retained tags — a single
      pair (or nothing) under ANY;
    * the result entry `Entry(MergePolicy.MIN, policy)` of `reconcile_thl`,
      `_spfs`, `_uspfs`, which receives `Candidate(output.cost(), output)` for
      every decoded output and keeps one of minimum EVALUATED cost.
  The decoders follow `entry.infos()`, so under ANY each finite cell decodes to
  exactly one solution.

  Which optimal candidate is retained depends on the order in which the
  candidates are offered (species traversal order, dict / set iteration order).
  The model is therefore parameterised by selection functions (`Picker`):
  wherever an entry retains tags under ANY, the model applies a selection
  function to the list of tags that the policy ALL would have retained.  The
  code's own choice — the first optimal candidate in offering order — is one such
  function (`Agg.updateAny`, `Picker.first`; `Proofs/LabelDPAny.lean` shows that
  folding `updateAny` is `head?` of the ALL tags); every theorem of
  `Properties/C05Any.lean` holds for all valid selection functions, hence for
  every offering order.

  Core Lean only (may be linked into the driver).
-/
import SRVerif.Model.Solvers

namespace SR

/-- A selection function returns a member and fails only on the empty list. -/
def PickOk {β : Type} (p : List β → Option β) : Prop :=
  (∀ l x, p l = some x → x ∈ l) ∧ (∀ l, p l = none → l = [])

/-- The selection functions of one run under ANY: for the role aggregates
    (tags = child states), for the table cells (tags = pairs of child states)
    and for the result entry (tags = outputs). -/
structure Picker (Lab : Type) where
  tag : List (Path × Lab) → Option (Path × Lab)
  pair : List ((Path × Lab) × (Path × Lab)) → Option ((Path × Lab) × (Path × Lab))
  sol : List Sol → Option Sol

structure Picker.Ok {Lab : Type} (P : Picker Lab) : Prop where
  tag : PickOk P.tag
  pair : PickOk P.pair
  sol : PickOk P.sol

/-- First optimal candidate in the model's enumeration order. -/
def Picker.first (Lab : Type) : Picker Lab :=
  { tag := List.head?, pair := List.head?, sol := List.head? }

/-- Last optimal candidate in the model's enumeration order (another valid choice). -/
def Picker.last (Lab : Type) : Picker Lab :=
  { tag := List.getLast?, pair := List.getLast?, sol := List.getLast? }

namespace Agg

variable {τ : Type} [DecidableEq τ]

/-- `Entry.update(Candidate(v, t))` for MIN / ANY with a tag: the tag is replaced
    on a strict improvement, and added on a tie only if there is none yet. -/
def updateAny (a : Agg τ) (v : Cost) (t : τ) : Agg τ :=
  if v = a.val then (if a.tags.isEmpty then { a with tags := [t] } else a)
  else if Cost.lt v a.val then { val := v, tags := [t] }
  else a

/-- A MIN / ANY aggregate, given the MIN / ALL aggregate of the same candidates:
    same value, one of the tags. -/
def any (p : List τ → Option τ) (a : Agg τ) : Agg τ :=
  { val := a.val, tags := (p a.tags).toList }

end Agg

def Roles.any {τ : Type} (p : List τ → Option τ) (r : Roles τ) : Roles τ :=
  { left := r.left.any p, right := r.right.any p, cons := r.cons.any p,
    seg := r.seg.any p, sep := r.sep.any p }

section

variable {α Lab : Type} [DecidableEq Lab]

/-- Decoding along one tag pair: the product of the decodings of the two child cells. -/
def decodeTag (s : Path) (lab : Lab) (L R : List (DCell Lab))
    (t : (Path × Lab) × (Path × Lab)) : List (LSol Lab) :=
  match findCell L t.1, findCell R t.2 with
  | some cl, some cr => cl.sols.flatMap (fun x => cr.sols.map (fun y => LSol.node s lab x y))
  | _, _ => []

/-- One table cell under ANY: every role aggregate keeps one tag, `combine`
    offers at most one candidate per event combination, the cell keeps one tag
    pair among those of minimum value and decodes along it. -/
def entryAny (P : Picker Lab) (A : LabelAlg α Lab) (c : Costs) (S : RTree) (a : α) (s : Path)
    (lab : Lab) (la ra : α) (L R : List (DCell Lab)) : Option (DCell Lab) :=
  let cands := entryCands c ((roles A c S a s lab la L).any P.tag) ((roles A c S a s lab ra R).any P.tag)
  let best := Cost.minList (cands.map (·.1))
  if best.isInf then none
  else
    let tags := (P.pair (dedup ((cands.filter (fun p => p.1 = best)).map (·.2)))).toList
    some { sp := s, lab := lab, cost := best, sols := tags.flatMap (decodeTag s lab L R) }

/-- The table under ANY: the finite cells of the root of an object subtree, each
    with the (single) solution it decodes to. -/
def dpTableAny (P : Picker Lab) (A : LabelAlg α Lab) (c : Costs) (S : RTree) :
    ATree α → List (DCell Lab)
  | .leaf a sp =>
    [{ sp := sp, lab := A.leafLab a, cost := .fin 0, sols := [LSol.leaf sp (A.leafLab a)] }]
  | .node a l r =>
    let L := dpTableAny P A c S l
    let R := dpTableAny P A c S r
    (A.allowed a).flatMap (fun s =>
      (A.labs a).filterMap (fun lab => entryAny P A c S a s lab l.data r.data L R))

end

/-- The result entry under ANY: one of the offered outputs of minimum evaluated cost. -/
def rankAny (pick : List Sol → Option Sol) (c : Costs) (mode : LabelMode) (o : OTree)
    (sols : List Sol) : List Sol :=
  (pick (rankByCost c mode o sols)).toList

/-! ### The three solver families under ANY -/

def thlCellsAny (P : Picker Unit) (c : Costs) (S : RTree) (o : OTree) : List (DCell Unit) :=
  dpTableAny P thlAlg c S (annPlain S o)

def thlAny (P : Picker Unit) (c : Costs) (S : RTree) (o : OTree) : List Sol :=
  rankAny P.sol c .plain o ((thlCellsAny P c S o).flatMap (fun d => d.sols.map (plainSol o)))

def spfsCellsForAny (P : Picker Nat) (c : Costs) (S : RTree) (base : Bool) (o : OTree)
    (order : List Nat) : List (DCell Nat) :=
  (dpTableAny P (ordAlg c) c S (annOrd S base order true o)).filter
    (fun d => d.lab == 2 ^ order.length - 1)

def spfsAny (P : Picker Nat) (c : Costs) (S : RTree) (base : Bool) (o : OTree)
    (prescribed : Option (List Nat)) : List Sol :=
  let sols := (rootOrders o prescribed).flatMap fun order =>
    (spfsCellsForAny P c S base o order).flatMap (fun d => d.sols.map (ordSol order))
  rankAny P.sol c .ordered o sols

def uspfsCellsAny (P : Picker Kind) (c : Costs) (S : RTree) (base : Bool) (o : OTree) :
    List (DCell Kind) :=
  (dpTableAny P (unAlg c) c S (annUn S base o [] o)).filter (fun d => d.lab == .lca)

def uspfsAny (P : Picker Kind) (c : Costs) (S : RTree) (base : Bool) (o : OTree) : List Sol :=
  let ann := annUn S base o [] o
  let sols := (uspfsCellsAny P c S base o).flatMap
    (fun d => d.sols.map (unSol ann ann.data.lcaSet))
  rankAny P.sol c .unordered o sols

/-! ### The outputs reachable under ANY, over all offering orders

`groups` lists, per finite root cell, the outputs that cell decodes to under ALL.
Under ANY each cell contributes one of them and the result entry keeps one of
minimum evaluated cost among those representatives: an output `s` of a cell can
be returned iff every cell has a member that does not beat it. -/

def reachAny (cost : Sol → Cost) (groups : List (List Sol)) : List Sol :=
  dedup (groups.flatMap (fun g =>
    g.filter (fun s => groups.all (fun g' => g'.any (fun y => Cost.le (cost s) (cost y))))))

def thlGroups (c : Costs) (S : RTree) (o : OTree) : List (List Sol) :=
  (thlCells c S true o).map (fun d => d.sols.map (plainSol o))

def spfsGroups (c : Costs) (S : RTree) (base : Bool) (o : OTree) (prescribed : Option (List Nat)) :
    List (List Sol) :=
  (rootOrders o prescribed).flatMap fun order =>
    (spfsCellsFor c S base true o order).map (fun d => d.sols.map (ordSol order))

def uspfsGroups (c : Costs) (S : RTree) (base : Bool) (o : OTree) : List (List Sol) :=
  let ann := annUn S base o [] o
  (uspfsCells c S base true o).map (fun d => d.sols.map (unSol ann ann.data.lcaSet))

end SR
