/-
  Model of the rest of the public behaviour of
  `superrec2.utils.dynamic_programming` (the part not in `Model/Entry.lean`):

  * `Entry(value, infos, merge, retention)`, `Entry.is_infinite/info/__len__/
    __iter__/__eq__`, `Entry.combine` with a combinator that may return `None`;
  * `Table` with `ListDimension` / `DictDimension` axes, `Table.entry`,
    `Table/TableProxy.__getitem__/__setitem__/keys/__iter__` (hence `in`),
    `EntryProxy` (all of its methods), with the exceptions the code raises.

  State of a table.  Python keeps a nest of lists and `defaultdict`s whose
  leaves are `None` or an `Entry`.  The model keeps the same information flat:

  * `cells`   : the instantiated leaves, keyed by their NORMALISED address
                (list indices taken modulo the length as Python does for negative
                indices);
  * `touched` : the keys that exist in the `defaultdict`s, each as the normalised
                path leading to it, in order of first creation.  A `defaultdict`
                creates a key when it is READ, so walking to a cell (`entry =
                entry[item]` in `_get_real`, `TableProxy.__getitem__`, `keys`,
                `EntryProxy.update`) creates every dictionary key on the way.

  Keys are integers or "symbols" (any hashable that is not an integer, e.g. a
  string or a tree node).  `bool`/`float` keys, slices and unhashable keys are
  out of scope.  Errors are values of `PyErr`, the class of the exception
  raised.  Python sets of tags are duplicate-free lists.
-/
import SRVerif.Model.Entry

namespace SR.DP

/-- The exception classes the module can raise on keys in scope. -/
inductive PyErr where
  | indexError      -- list index out of range
  | typeError       -- non-integer list index, too few / too many indices, `len(proxy)`
  | attributeError  -- entry method on a `TableProxy`, `keys` on an `EntryProxy`, combinator returning `None`
  deriving DecidableEq, Repr

/-- A key: an integer, or any other hashable object. -/
inductive Key where
  | int (i : Int)
  | sym (n : Nat)
  deriving DecidableEq, Repr

/-- `ListDimension(length)` / `DictDimension()`. -/
inductive Dim where
  | list (n : Nat)
  | dict
  deriving DecidableEq, Repr

/-! ### Entries: the remaining methods -/

section entries

variable {τ : Type} [DecidableEq τ]

/-- `Entry(value, infos, merge_policy, retention_policy)`: `set(infos)`; the default policies of
    the constructor are `MIN` and `NONE`. -/
def entryOf (v : ExtInt) (infos : List τ) (m : Merge := .min) (r : Retain := .none) : Entry τ :=
  { value := v, infos := infos.eraseDups, merge := m, retain := r }

/-- `Entry.is_infinite()`. -/
def isInfinite (e : Entry τ) : Bool := e.value.isInfinite

/-- `len(entry)`. -/
def len (e : Entry τ) : Nat := e.infos.length

/-- `Entry.info()`: `min(self._infos)` or `None`. -/
def info [Min τ] (e : Entry τ) : Option τ := e.infos.min?

/-- `iter(entry)`: one `Candidate(self._value, info)` per retained tag. -/
def iter (e : Entry τ) : List (Cand τ) := e.infos.map (fun t => { value := e.value, info := some t })

/-- `entry == other` (where `other` has `value()` and `infos()`): same value, same set of tags. -/
def eqv (a : Entry τ) (v : ExtInt) (infos : List τ) : Bool :=
  decide (a.value = v) && a.infos.all (fun t => decide (t ∈ infos)) && infos.all (fun t => decide (t ∈ a.infos))

end entries

/-- `Entry.combine` with a combinator that may return `None`: `result.update(None)` raises
    `AttributeError` (`None` has no attribute `value`); otherwise as `Entry.combine`.  Only `value()`
    and `infos()` of `other` are used. -/
def combineOpt {τ σ : Type} [DecidableEq σ]
    (a b : Entry τ) (f : ExtInt → τ → ExtInt → τ → Option (Cand σ)) : Except PyErr (Entry σ) :=
  let pairs := a.infos.flatMap (fun x => b.infos.map (fun y => (x, y)))
  if pairs.all (fun p => (f a.value p.1 b.value p.2).isSome) then
    .ok (Entry.update (Entry.init a.merge a.retain) (pairs.filterMap (fun p => f a.value p.1 b.value p.2)))
  else .error .attributeError

/-! ### Tables -/

/-- `Table(dimensions, merge_policy, retention_policy)` and its current content. -/
structure Table (τ : Type) where
  dims : List Dim
  merge : Merge
  retain : Retain
  touched : List (List Key)
  cells : List (List Key × Entry τ)

/-- What a chain of indexing operations `table[k1]…[kn]` denotes: a `TableProxy` with a (raw)
    prefix, or an `EntryProxy` with a (raw) key.  `Table` itself is `proxy []`. -/
inductive Ref where
  | proxy (pre : List Key)
  | entry (key : List Key)
  deriving DecidableEq, Repr

/-- `lst[k]` / `dct[k]`: the key actually addressed, or the exception. -/
def normKey : Dim → Key → Except PyErr Key
  | .list n, .int i =>
    if 0 ≤ i ∧ i < n then .ok (.int i)
    else if -(n : Int) ≤ i ∧ i < 0 then .ok (.int (i + n))
    else .error .indexError
  | .list _, .sym _ => .error .typeError
  | .dict, k => .ok k

/-- The loop `for item in path: entry = entry[item]` started below the normalised prefix `pre`
    with the remaining axes `ds`: the dictionary keys it reads (hence creates), in order, and
    the normalised path it reaches or the exception that stops it.  Indexing a leaf (`None` or an
    `Entry`) is a `TypeError`. -/
def resolveFrom : List Dim → List Key → List Key → List (List Key) × Except PyErr (List Key)
  | _, [], pre => ([], .ok pre)
  | [], _ :: _, _ => ([], .error .typeError)
  | d :: ds, k :: ks, pre =>
    match normKey d k with
    | .error e => ([], .error e)
    | .ok k' =>
      let rest := resolveFrom ds ks (pre ++ [k'])
      (if d = .dict then (pre ++ [k']) :: rest.1 else rest.1, rest.2)

/-- The normalised address denoted by a raw path (pure). -/
def addr (ds : List Dim) (ks : List Key) : Except PyErr (List Key) := (resolveFrom ds ks []).2

/-- `defaultdict.__missing__`: create the key unless it exists. -/
def touch (tch : List (List Key)) (p : List Key) : List (List Key) := if p ∈ tch then tch else tch ++ [p]

/-- Finite map of cells. -/
def getCell {τ : Type} (cells : List (List Key × Entry τ)) (a : List Key) : Cell τ :=
  (cells.find? (fun p => decide (p.1 = a))).map (·.2)

def putCell {τ : Type} (cells : List (List Key × Entry τ)) (a : List Key) (e : Entry τ) :
    List (List Key × Entry τ) :=
  (a, e) :: cells.filter (fun p => !decide (p.1 = a))

namespace Table

variable {τ : Type} [DecidableEq τ]

/-- `Table(dimensions, merge_policy, retention_policy)`. -/
def new (dims : List Dim) (m : Merge := .min) (r : Retain := .none) : Table τ :=
  { dims := dims, merge := m, retain := r, touched := [], cells := [] }

/-- `Table.entry()`. -/
def entry (t : Table τ) : Entry τ := Entry.init t.merge t.retain

/-- `Table.entry(value, infos)`. -/
def entryOf (t : Table τ) (v : ExtInt) (infos : List τ) : Entry τ := DP.entryOf v infos t.merge t.retain

/-- Walk a raw path from the top of the nest. -/
def walk (t : Table τ) (ks : List Key) : Table τ × Except PyErr (List Key) :=
  let r := resolveFrom t.dims ks []
  ({ t with touched := r.1.foldl touch t.touched }, r.2)

/-- `TableProxy.__getitem__` / `Table.__getitem__` (and indexing an `EntryProxy`, which is not
    subscriptable). -/
def getitem (t : Table τ) : Ref → Key → Table τ × Except PyErr Ref
  | .proxy pre, k =>
    if pre.length + 1 = t.dims.length then
      match t.walk pre with
      | (t', .error e) => (t', .error e)
      | (t', .ok _) => (t', .ok (.entry (pre ++ [k])))
    else (t, .ok (.proxy (pre ++ [k])))
  | .entry _, _ => (t, .error .typeError)

/-- `table[k1]…[kn]`. -/
def index (t : Table τ) (ks : List Key) : Table τ × Except PyErr Ref :=
  ks.foldl (fun st k => match st with
    | (t, .ok r) => getitem t r k
    | (t, .error e) => (t, .error e)) (t, .ok (.proxy []))

/-- `EntryProxy._get_real`. -/
def getReal (t : Table τ) (key : List Key) : Table τ × Except PyErr (Cell τ) :=
  match t.walk key with
  | (t', .error e) => (t', .error e)
  | (t', .ok a) => (t', .ok (getCell t'.cells a))

/-- `EntryProxy.update`: a batch without a finite candidate is dropped before anything is
    looked at; otherwise the path is walked, the cell created if needed, and the batch offered. -/
def updateAt (t : Table τ) (key : List Key) (batch : List (Cand τ)) : Table τ × Except PyErr Unit :=
  if batch.any (fun x => !x.value.isInfinite) then
    match t.walk key with
    | (t', .error e) => (t', .error e)
    | (t', .ok a) =>
      let e := Entry.update ((getCell t'.cells a).getD (Entry.init t.merge t.retain)) batch
      ({ t' with cells := putCell t'.cells a e }, .ok ())
  else (t, .ok ())

/-- `TableProxy.__setitem__` / `Table.__setitem__` (and item assignment on an `EntryProxy`). -/
def setitem (t : Table τ) : Ref → Key → Cand τ → Table τ × Except PyErr Unit
  | .proxy pre, k, c =>
    if pre.length + 1 = t.dims.length then t.updateAt (pre ++ [k]) [c]
    else (t, .error .typeError)
  | .entry _, _, _ => (t, .error .typeError)

/-- `list(TableProxy.keys())` / `list(Table.keys())`. -/
def keysAt (t : Table τ) (pre : List Key) : Table τ × Except PyErr (List Key) :=
  match t.walk pre with
  | (t', .error e) => (t', .error e)
  | (t', .ok a) =>
    match t.dims[pre.length]? with
    | none => (t', .error .attributeError)
    | some (.list n) => (t', .ok ((List.range n).map (fun i => Key.int (i : Nat))))
    | some .dict =>
      (t', .ok (t'.touched.filterMap (fun p =>
        if p.length = a.length + 1 ∧ p.take a.length = a then p.getLast? else none)))

end Table

/-! ### Histories of operations on one table -/

/-- One statement / expression evaluated on a table `t` (each is written `t[k1]…[kn]` followed by
    the action; `ks` are the raw keys). -/
inductive Op (τ : Type) where
  | index (ks : List Key)                       -- `t[k1]…[kn]`  (e.g. to keep the proxy for later)
  | set (pre : List Key) (k : Key) (c : Cand τ) -- `t[pre…][k] = c`
  | update (ks : List Key) (b : List (Cand τ))  -- `t[ks…].update(*b)`
  | value (ks : List Key)                       -- `.value()`
  | infos (ks : List Key)                       -- `.infos()`
  | info (ks : List Key)                        -- `.info()`
  | isInf (ks : List Key)                       -- `.is_infinite()`
  | len (ks : List Key)                         -- `len(…)`
  | iter (ks : List Key)                        -- `list(iter(…))`
  | keys (ks : List Key)                        -- `list(….keys())`
  | contains (ks : List Key) (k : Key)          -- `k in …`
  | eqEntry (ks : List Key) (v : ExtInt) (infos : List τ)  -- `… == Entry(v, infos)`
  | eqCell (ks ks' : List Key)                  -- `t[ks…] == t[ks'…]`
  | combine (ks ks' : List Key) (f : ExtInt → τ → ExtInt → τ → Option (Cand τ))
      -- `e = t[ks…].combine(t[ks'…], f); (e.value(), e.infos())`

/-- What an operation returns. -/
inductive Out (τ : Type) where
  | unit
  | ref (isEntry : Bool)
  | value (v : ExtInt)
  | infos (l : List τ)
  | info (o : Option τ)
  | bool (b : Bool)
  | nat (n : Nat)
  | cands (l : List (Cand τ))
  | keys (l : List Key)
  | entry (v : ExtInt) (l : List τ)
  | err (e : PyErr)

namespace Table

variable {τ : Type} [DecidableEq τ]

/-- Evaluate `t[ks…]` and, if it is an `EntryProxy`, fetch the real cell and apply `k`; on a
    `TableProxy` the entry methods do not exist (`onProxy`). -/
def withCell (t : Table τ) (ks : List Key) (onProxy : PyErr) (k : Table τ → Cell τ → Out τ) :
    Table τ × Out τ :=
  match t.index ks with
  | (t1, .error e) => (t1, .err e)
  | (t1, .ok (.proxy _)) => (t1, .err onProxy)
  | (t1, .ok (.entry key)) =>
    match t1.getReal key with
    | (t2, .error e) => (t2, .err e)
    | (t2, .ok c) => (t2, k t2 c)

/-- Operational semantics of one operation. -/
def step [Min τ] (t : Table τ) : Op τ → Table τ × Out τ
  | .index ks =>
    match t.index ks with
    | (t1, .error e) => (t1, .err e)
    | (t1, .ok (.proxy _)) => (t1, .ref false)
    | (t1, .ok (.entry _)) => (t1, .ref true)
  | .set pre k c =>
    match t.index pre with
    | (t1, .error e) => (t1, .err e)
    | (t1, .ok r) =>
      match t1.setitem r k c with
      | (t2, .error e) => (t2, .err e)
      | (t2, .ok _) => (t2, .unit)
  | .update ks b =>
    match t.index ks with
    | (t1, .error e) => (t1, .err e)
    | (t1, .ok (.proxy _)) => (t1, .err .attributeError)
    | (t1, .ok (.entry key)) =>
      match t1.updateAt key b with
      | (t2, .error e) => (t2, .err e)
      | (t2, .ok _) => (t2, .unit)
  | .value ks => t.withCell ks .attributeError (fun t c => .value (Cell.value t.merge c))
  | .infos ks => t.withCell ks .attributeError (fun _ c => .infos (Cell.infos c))
  | .info ks => t.withCell ks .attributeError (fun _ c => .info (match c with | some e => info e | none => none))
  | .isInf ks => t.withCell ks .attributeError (fun _ c => .bool (match c with | some e => isInfinite e | none => true))
  | .len ks => t.withCell ks .typeError (fun _ c => .nat (Cell.infos c).length)
  | .iter ks =>
    match t.index ks with
    | (t1, .error e) => (t1, .err e)
    | (t1, .ok (.proxy pre)) =>
      match t1.keysAt pre with
      | (t2, .error e) => (t2, .err e)
      | (t2, .ok l) => (t2, .keys l)
    | (t1, .ok (.entry key)) =>
      match t1.getReal key with
      | (t2, .error e) => (t2, .err e)
      | (t2, .ok c) => (t2, .cands (match c with | some e => iter e | none => []))
  | .keys ks =>
    match t.index ks with
    | (t1, .error e) => (t1, .err e)
    | (t1, .ok (.proxy pre)) =>
      match t1.keysAt pre with
      | (t2, .error e) => (t2, .err e)
      | (t2, .ok l) => (t2, .keys l)
    | (t1, .ok (.entry _)) => (t1, .err .attributeError)
  | .contains ks k =>
    match t.index ks with
    | (t1, .error e) => (t1, .err e)
    | (t1, .ok (.proxy pre)) =>
      match t1.keysAt pre with
      | (t2, .error e) => (t2, .err e)
      | (t2, .ok l) => (t2, .bool (decide (k ∈ l)))
    | (t1, .ok (.entry key)) =>
      -- `in` iterates the candidates of the entry; a key is never equal to a candidate
      match t1.getReal key with
      | (t2, .error e) => (t2, .err e)
      | (t2, .ok _) => (t2, .bool false)
  | .eqEntry ks v infos =>
    match t.index ks with
    | (t1, .error e) => (t1, .err e)
    | (t1, .ok (.proxy _)) => (t1, .bool false)   -- default object equality
    | (t1, .ok (.entry key)) =>
      match t1.getReal key with
      | (t2, .error e) => (t2, .err e)
      | (t2, .ok c) =>
        (t2, .bool (decide (Cell.value t2.merge c = v) && (Cell.infos c).all (fun x => decide (x ∈ infos))
                    && infos.all (fun x => decide (x ∈ Cell.infos c))))
  | .eqCell ks ks' =>
    match t.index ks with
    | (t1, .error e) => (t1, .err e)
    | (t1, .ok r) =>
      match t1.index ks' with
      | (t2, .error e) => (t2, .err e)
      | (t2, .ok r') =>
        match r, r' with
        | .entry key, .entry key' =>
          match t2.getReal key with
          | (t3, .error e) => (t3, .err e)
          | (t3, .ok c) =>
            match t3.getReal key' with
            | (t4, .error e) => (t4, .err e)
            | (t4, .ok c') =>
              (t4, .bool (decide (Cell.value t4.merge c = Cell.value t4.merge c')
                          && (Cell.infos c).all (fun x => decide (x ∈ Cell.infos c'))
                          && (Cell.infos c').all (fun x => decide (x ∈ Cell.infos c))))
        | .entry _, .proxy _ => (t2, .bool false)          -- `other` has no `value`
        | .proxy pre, .proxy pre' => (t2, .bool (decide (pre = [] ∧ pre' = [])))  -- object identity: only `t == t`
        | .proxy _, .entry _ => (t2, .bool false)          -- reflected `EntryProxy.__eq__`: no `value`
  | .combine ks ks' f =>
    match t.index ks with
    | (t1, .error e) => (t1, .err e)
    | (t1, .ok (.proxy _)) => (t1, .err .attributeError)   -- no attribute `combine`
    | (t1, .ok (.entry key)) =>
      match t1.index ks' with
      | (t2, .error e) => (t2, .err e)
      | (t2, .ok r') =>
        match t2.getReal key with
        | (t3, .error e) => (t3, .err e)
        | (t3, .ok none) => (t3, .entry (Cell.value t3.merge (none : Cell τ)) [])   -- `return self`
        | (t3, .ok (some a)) =>
          match r' with
          | .proxy _ => (t3, .err .attributeError)     -- `other.infos` does not exist
          | .entry key' =>
            match t3.getReal key' with
            | (t4, .error e) => (t4, .err e)
            | (t4, .ok c') =>
              match combineOpt a (c'.getD (Entry.init t4.merge t4.retain)) f with
              | .error e => (t4, .err e)
              | .ok e => (t4, .entry e.value e.infos)

/-- A history of operations: final table and the outputs in order. -/
def run [Min τ] (t : Table τ) : List (Op τ) → Table τ × List (Out τ)
  | [] => (t, [])
  | op :: ops =>
    let s := t.step op
    let r := run s.1 ops
    (r.1, s.2 :: r.2)

end Table

end SR.DP
