/-
  Bridge between the hand-written model of `RangeMinQuery` (`SRVerif/Model/Lca.lean`,
  exceptions `SR.PyErr`) and the functions generated from the source text
  (`SRVerif/Generated/RmqPy.lean`, exceptions `SR.Py.Err` of the translator's
  prelude): the translation of exceptions, of results and of a comparison that
  may raise.  Core Lean only (used by the bounded refutation search of
  `harness/translate_py.py`, which must not depend on any proof).
-/
import SRVerif.Model.PyRt
import SRVerif.Model.Lca

namespace SR.RmqBridge

/-- The model's exception as an exception of the translator's prelude. -/
def toPy : PyErr → Py.Err
  | .typeError => .TypeError
  | .indexError => .IndexError
  | .assertionError => .AssertionError
  | .keyError => .KeyError

/-- A result of the model as a result of a generated function. -/
def conv {ρ : Type} : Except PyErr ρ → Except Py.Err ρ
  | .ok v => .ok v
  | .error e => .error (toPy e)

/-- The model's comparison (`Lca.Lt α`) as the `lt_` parameter of the generated
    functions (`Element.__lt__`, which may raise). -/
def liftLt {α : Type} (lt : Lca.Lt α) : α → α → Except Py.Err Bool := fun a b => conv (lt a b)

/-- `RangeMinQuery(data)(start, stop)` through the model, as a generated result. -/
def modelRmq {α : Type} (lt : Lca.Lt α) (data : List α) (start stop : Nat) : Except Py.Err (Option α) :=
  conv (Lca.rmq lt data start stop)

end SR.RmqBridge
