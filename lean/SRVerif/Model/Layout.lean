/-
  Model of `superrec2.render.layout` (`_add_losses`, `_compute_branches`,
  `_layout_branches`, `_layout_subtrees`, `_finalize_layout`) and of
  `_tikz_draw_branches` at the level of emitted statement kinds.

  * Species and object nodes are paths (`Model/Paths.lean`); a reconciliation
    is a `Sol` (`Model/Rec.lean`), its events are `internalEvent`.
  * Coordinates are exact rationals (`Rat`); Python's `/ 2` is rational
    division.  Node sizes come from a measurer, abstracted as a function
    `Key → Size` (what `measure_nodes` returns for the branch, through
    `overall_size()`).
  * Python dicts are association lists in insertion order; `anchor_nodes`
    (a set) is a duplicate-free list.  `KeyError` etc. are `Except LErr`.
  * A `PseudoGene()` is identified by `(lineage, species)`: the object node
    whose lineage is lost and the species in which the loss marker sits.
    (That these identifiers are pairwise distinct, as fresh Python objects
    are, is a theorem: `SR.C13.C13_keys_nodup`.)
  * The species tree is assumed binary (`children[0]`, `children[1]` exist
    for every internal species): `is_left` / `is_right` are read off the last
    index of the child's path.  Names, colours and synteny labels do not
    influence the branch structure and are not modelled.
-/
import SRVerif.Model.Rec

namespace SR.Layout

open SR

/-! ## Part 1: `_add_losses`, `_compute_branches` -/

/-- A gene anchor: an object-tree node or a pseudo-gene. -/
inductive Key where
  | gene (p : Path)
  | loss (g : Path) (s : Path)
  deriving DecidableEq, Repr, Inhabited

/-- `NodeEvent.{LEAF,SPECIATION,DUPLICATION,HORIZONTAL_TRANSFER}` and
    `EdgeEvent.FULL_LOSS`. -/
inductive BKind where
  | leaf | spec | dup | hgt | loss
  deriving DecidableEq, Repr, Inhabited

structure Branch where
  key : Key
  kind : BKind
  left : Option Key
  right : Option Key
  deriving DecidableEq, Repr, Inhabited

/-- `layout_state[species]` after `_compute_branches`. -/
structure SpState where
  branches : List Branch
  anchors : List Key
  deriving DecidableEq, Repr, Inhabited

inductive LErr where
  | key | attr | value | input
  deriving DecidableEq, Repr, Inhabited

/-- `layout_state`: species → state, in creation order. -/
abbrev LState := List (Path × SpState)

def getSp : LState → Path → Option SpState
  | [], _ => none
  | (k, v) :: rest, s => if k = s then some v else getSp rest s

def modifySp (f : SpState → SpState) : LState → Path → LState
  | [], _ => []
  | (k, v) :: rest, s => if k = s then (k, f v) :: rest else (k, v) :: modifySp f rest s

/-- `set.add`. -/
def setAdd (l : List Key) (k : Key) : List Key := if k ∈ l then l else l ++ [k]

/-- `set.remove`: `KeyError` if absent. -/
def setRemove (l : List Key) (k : Key) : Except LErr (List Key) :=
  if k ∈ l then .ok (l.erase k) else .error .key

/-- What one iteration of the `while` loop of `_add_losses` does to the state
    of species `s`: a new pseudo-gene keeping `prev` on the side it comes from. -/
def lossBranch (g s : Path) (prev : Key) (i : Nat) : Branch :=
  { key := .loss g s, kind := .loss,
    left := if i = 0 then some prev else none,
    right := if i = 1 then some prev else none }

def addLossAt (g s : Path) (prev : Key) (i : Nat) (st : SpState) : SpState :=
  { branches := st.branches ++ [lossBranch g s prev i], anchors := setAdd st.anchors (.loss g s) }

/-- The `while start_species != end_species` loop of `_add_losses`.
    `rp` is the REVERSED path of `prev_species`, so that `start_species =
    prev_species.up` is `rp.tail.reverse` (and `None` when `rp = []`).
    `g` identifies the lineage (the `gene` argument). -/
def addLossesLoop (g : Path) (end_ : Option Path) :
    List Nat → LState → Key → Except LErr (LState × Key)
  | [], st, prev => if end_ = none then .ok (st, prev) else .error .attr
  | i :: rest, st, prev =>
    if some rest.reverse = end_ then .ok (st, prev)
    else
      match getSp st rest.reverse with
      | none => .error .key
      | some _ =>
        addLossesLoop g end_ rest
          (modifySp (addLossAt g rest.reverse prev i) st rest.reverse) (.loss g rest.reverse)

/-- `_add_losses(layout_state, gene, start_species, end_species)`; `g` is the
    object path of `gene`. -/
def addLosses (st : LState) (g : Path) (start : Path) (end_ : Option Path) :
    Except LErr (LState × Key) :=
  addLossesLoop g end_ start.reverse st (.gene g)

/-- Object nodes in post-order with their paths (`gene_tree.traverse("postorder")`). -/
def genesPost : Sol → Path → List (Path × Sol)
  | .leaf s f, p => [(p, .leaf s f)]
  | .node s f l r, p => genesPost l (p ++ [0]) ++ genesPost r (p ++ [1]) ++ [(p, .node s f l r)]

def addBranch (b : Branch) (st : SpState) : SpState :=
  { branches := st.branches ++ [b], anchors := st.anchors }

def addAnchor (k : Key) (st : SpState) : SpState :=
  { branches := st.branches, anchors := setAdd st.anchors k }

/-- `state["anchor_nodes"].remove(k)` on the state of species `s`. -/
def removeAnchor (st : LState) (s : Path) (k : Key) : Except LErr LState :=
  match getSp st s with
  | none => .error .key
  | some sp =>
    match setRemove sp.anchors k with
    | .error e => .error e
    | .ok a => .ok (modifySp (fun x => { x with anchors := a }) st s)

/-- Body of the loop over genes for one gene mapped to `root_species = s`. -/
def processGene (st : LState) (s : Path) (p : Path) : Sol → Except LErr LState
  | .leaf _ _ =>
    .ok (modifySp (addBranch ⟨.gene p, .leaf, none, none⟩)
          (modifySp (addAnchor (.gene p)) st s) s)
  | .node _ _ l r =>
    let pl := p ++ [0]
    let pr := p ++ [1]
    match internalEvent s l.sp r.sp with
    | .spec =>
      -- swap when the right gene lies below the left species
      let sw := Path.isAnc (s ++ [0]) r.sp
      let (g1, s1) := if sw then (pr, r.sp) else (pl, l.sp)
      let (g2, s2) := if sw then (pl, l.sp) else (pr, r.sp)
      match addLosses st g1 s1 (some s) with
      | .error e => .error e
      | .ok (st1, k1) =>
        match addLosses st1 g2 s2 (some s) with
        | .error e => .error e
        | .ok (st2, k2) =>
          .ok (modifySp (addBranch ⟨.gene p, .spec, some k1, some k2⟩)
                (modifySp (addAnchor (.gene p)) st2 s) s)
    | .dup =>
      match addLosses st pl l.sp (Path.up s) with
      | .error e => .error e
      | .ok (st1, k1) =>
        match addLosses st1 pr r.sp (Path.up s) with
        | .error e => .error e
        | .ok (st2, k2) =>
          match removeAnchor (modifySp (addAnchor (.gene p)) st2 s) s k1 with
          | .error e => .error e
          | .ok st3 =>
            match removeAnchor st3 s k2 with
            | .error e => .error e
            | .ok st4 => .ok (modifySp (addBranch ⟨.gene p, .dup, some k1, some k2⟩) st4 s)
    | .hgt =>
      let keepLeft := Path.isAnc s l.sp
      let (gc, sc) := if keepLeft then (pl, l.sp) else (pr, r.sp)
      let gf := if keepLeft then pr else pl
      match addLosses st gc sc (Path.up s) with
      | .error e => .error e
      | .ok (st1, k1) =>
        match removeAnchor (modifySp (addAnchor (.gene p)) st1 s) s k1 with
        | .error e => .error e
        | .ok st2 => .ok (modifySp (addBranch ⟨.gene p, .hgt, some k1, some (.gene gf)⟩) st2 s)
    | _ => .error .value

/-- The inner loop `for root_gene in gene_tree.traverse("postorder")`. -/
def processGenes (s : Path) : List (Path × Sol) → LState → Except LErr LState
  | [], st => .ok st
  | (p, sub) :: rest, st =>
    if sub.sp = s then
      match processGene st s p sub with
      | .error e => .error e
      | .ok st' => processGenes s rest st'
    else processGenes s rest st

/-- The outer loop `for root_species in species_tree.traverse("postorder")`. -/
def processSpecies (sol : Sol) : List Path → LState → Except LErr LState
  | [], st => .ok st
  | s :: rest, st =>
    match processGenes s (genesPost sol []) (st ++ [(s, ⟨[], []⟩)]) with
    | .error e => .error e
    | .ok st' => processSpecies sol rest st'

/-- `_compute_branches`. -/
def computeBranches (S : RTree) (sol : Sol) : Except LErr LState :=
  processSpecies sol S.postorder []

/-- The number of full losses the cost evaluator charges (`_cost_rec`, see
    `localRecCost`): speciation `d1 + d2 - 2`, duplication `d1 + d2`, transfer
    `d_conserved`, summed over the internal nodes. -/
def localLosses (s a b : Path) : Nat :=
  match internalEvent s a b with
  | .spec => Path.dist s a + Path.dist s b - 2
  | .dup => Path.dist s a + Path.dist s b
  | .hgt => if Path.isAnc s a then Path.dist s a else Path.dist s b
  | _ => 0

def evalLossCount : Sol → Nat
  | .leaf _ _ => 0
  | .node s _ l r => localLosses s l.sp r.sp + evalLossCount l + evalLossCount r

/-! ## Part 2: geometry -/

structure Pos where
  x : Rat
  y : Rat
  deriving DecidableEq, Repr, Inhabited

structure Size where
  w : Rat
  h : Rat
  deriving DecidableEq, Repr, Inhabited

structure Rect where
  x : Rat
  y : Rat
  w : Rat
  h : Rat
  deriving DecidableEq, Repr, Inhabited

namespace Pos
def add (a b : Pos) : Pos := ⟨a.x + b.x, a.y + b.y⟩
end Pos

namespace Rect
def makeFrom (p : Pos) (s : Size) : Rect := ⟨p.x, p.y, s.w, s.h⟩
def shift (r : Rect) (p : Pos) : Rect := ⟨r.x + p.x, r.y + p.y, r.w, r.h⟩
def topLeft (r : Rect) : Pos := ⟨r.x, r.y⟩
def top (r : Rect) : Pos := ⟨r.x + r.w / 2, r.y⟩
def topRight (r : Rect) : Pos := ⟨r.x + r.w, r.y⟩
def right (r : Rect) : Pos := ⟨r.x + r.w, r.y + r.h / 2⟩
def bottomRight (r : Rect) : Pos := ⟨r.x + r.w, r.y + r.h⟩
def bottom (r : Rect) : Pos := ⟨r.x + r.w / 2, r.y + r.h⟩
def bottomLeft (r : Rect) : Pos := ⟨r.x, r.y + r.h⟩
def left (r : Rect) : Pos := ⟨r.x, r.y + r.h / 2⟩
def center (r : Rect) : Pos := ⟨r.x + r.w / 2, r.y + r.h / 2⟩
end Rect

inductive Orientation where
  | vertical | horizontal
  deriving DecidableEq, Repr, Inhabited

/-- The numeric fields of `DrawParams` read by the layout. -/
structure Params where
  pad : Rat        -- species_branch_padding
  gsp : Rat        -- gene_branch_spacing
  overhead : Rat   -- trunk_overhead
  minsp : Rat      -- min_subtree_spacing
  level : Rat      -- level_spacing
  deriving DecidableEq, Repr, Inhabited

/-- `min(generator)` / `max(generator)` over a non-empty sequence. -/
def minOf : List Rat → Rat
  | [] => 0
  | a :: t => t.foldl min a

def maxOf : List Rat → Rat
  | [] => 0
  | a :: t => t.foldl max a

def lookupKey {β : Type} : List (Key × β) → Key → Option β
  | [], _ => none
  | (k, v) :: rest, q => if k = q then some v else lookupKey rest q

/-- Loop state of `_layout_branches` within one species. -/
structure BState where
  na : Rat                       -- next_pos_across
  ns : Rat                       -- next_pos_sequence
  rects : List (Key × Rect)      -- branch["rect"] of the branches seen so far
  anchors : List (Key × Pos)     -- layout["anchors"]
  deriving DecidableEq, Repr, Inhabited

/-- `layout["branches"][k]["rect"]` for an optional child key. -/
def rectOf (rects : List (Key × Rect)) : Option Key → Except LErr Rect
  | none => .error .key
  | some k => match lookupKey rects k with
    | none => .error .key
    | some r => .ok r

/-- One iteration of the branch loop, VERTICAL code path. -/
def stepV (P : Params) (sizes : Key → Size) (anchorNodes : List Key) (bs : BState) (b : Branch) :
    Except LErr BState :=
  let size := sizes b.key
  let res : Except LErr (Pos × Rat × Rat) :=
    match b.kind with
    | .leaf =>
      let na := bs.na - size.w
      .ok (⟨na, -size.h⟩, na - P.gsp, bs.ns)
    | .spec | .loss =>
      let na := bs.na - size.w
      .ok (⟨na, bs.ns⟩, na - P.gsp, bs.ns + size.h + P.gsp)
    | .dup =>
      match rectOf bs.rects b.left, rectOf bs.rects b.right with
      | .ok l, .ok r =>
        let across := ((l.center.add r.center).x - size.w) / 2
        let sequence := min (min P.pad l.y) r.y - P.pad - size.h
        .ok (⟨across, sequence⟩, bs.na, bs.ns)
      | _, _ => .error .key
    | .hgt =>
      match rectOf bs.rects b.left with
      | .ok c =>
        let across := c.center.x - size.w / 2
        let sequence := min P.pad c.y - P.pad - size.h
        .ok (⟨across, sequence⟩, bs.na, bs.ns)
      | .error e => .error e
  match res with
  | .error e => .error e
  | .ok (pos, na, ns) =>
    let rect := Rect.makeFrom pos size
    .ok { na := na, ns := ns, rects := bs.rects ++ [(b.key, rect)],
          anchors := if b.key ∈ anchorNodes then bs.anchors ++ [(b.key, ⟨rect.center.x, 0⟩)]
                     else bs.anchors }

/-- One iteration of the branch loop, HORIZONTAL code path. -/
def stepH (P : Params) (sizes : Key → Size) (anchorNodes : List Key) (bs : BState) (b : Branch) :
    Except LErr BState :=
  let size := sizes b.key
  let res : Except LErr (Pos × Rat × Rat) :=
    match b.kind with
    | .leaf =>
      let na := bs.na - size.h
      .ok (⟨-size.w, na⟩, na - P.gsp, bs.ns)
    | .spec | .loss =>
      let na := bs.na - size.h
      .ok (⟨bs.ns, na⟩, na - P.gsp, bs.ns + size.w + P.gsp)
    | .dup =>
      match rectOf bs.rects b.left, rectOf bs.rects b.right with
      | .ok l, .ok r =>
        let across := ((l.center.add r.center).y - size.h) / 2
        let sequence := min (min P.pad l.x) r.x - P.pad - size.w
        .ok (⟨sequence, across⟩, bs.na, bs.ns)
      | _, _ => .error .key
    | .hgt =>
      match rectOf bs.rects b.left with
      | .ok c =>
        let across := c.center.y - size.h / 2
        let sequence := min P.pad c.x - P.pad - size.w
        .ok (⟨sequence, across⟩, bs.na, bs.ns)
      | .error e => .error e
  match res with
  | .error e => .error e
  | .ok (pos, na, ns) =>
    let rect := Rect.makeFrom pos size
    .ok { na := na, ns := ns, rects := bs.rects ++ [(b.key, rect)],
          anchors := if b.key ∈ anchorNodes then bs.anchors ++ [(b.key, ⟨0, rect.center.y⟩)]
                     else bs.anchors }

def foldE {α β : Type} (f : β → α → Except LErr β) : List α → β → Except LErr β
  | [], b => .ok b
  | a :: t, b => match f b a with
    | .error e => .error e
    | .ok b' => foldE f t b'

/-- A species after `_layout_branches`: relative rects (same order as the
    branches) and relative anchors. -/
structure SpLayout where
  branches : List Branch
  rects : List (Key × Rect)
  anchors : List (Key × Pos)
  deriving DecidableEq, Repr, Inhabited

def shiftRects (p : Pos) (l : List (Key × Rect)) : List (Key × Rect) :=
  l.map fun e => (e.1, e.2.shift p)

def shiftAnchors (p : Pos) (l : List (Key × Pos)) : List (Key × Pos) :=
  l.map fun e => (e.1, e.2.add p)

/-- `_layout_branches` for one species, VERTICAL. -/
def layoutBranchesV (P : Params) (sizes : Key → Size) (st : SpState) : Except LErr SpLayout :=
  match foldE (stepV P sizes st.anchors) st.branches ⟨0, P.pad, [], []⟩ with
  | .error e => .error e
  | .ok bs =>
    if st.branches.isEmpty then .ok ⟨st.branches, bs.rects, bs.anchors⟩
    else
      let shift : Pos := ⟨minOf (bs.rects.map fun e => -(e.2.right.x)) - P.pad, 0⟩
      .ok ⟨st.branches, shiftRects shift bs.rects, shiftAnchors shift bs.anchors⟩

/-- `_layout_branches` for one species, HORIZONTAL. -/
def layoutBranchesH (P : Params) (sizes : Key → Size) (st : SpState) : Except LErr SpLayout :=
  match foldE (stepH P sizes st.anchors) st.branches ⟨0, P.pad, [], []⟩ with
  | .error e => .error e
  | .ok bs =>
    if st.branches.isEmpty then .ok ⟨st.branches, bs.rects, bs.anchors⟩
    else
      let shift : Pos := ⟨0, minOf (bs.rects.map fun e => -(e.2.bottom.y)) - P.pad⟩
      .ok ⟨st.branches, shiftRects shift bs.rects, shiftAnchors shift bs.anchors⟩

/-- Binary species tree (what `left_species, right_species = children` accepts). -/
inductive BTree where
  | leaf
  | node (l r : BTree)
  deriving DecidableEq, Repr, Inhabited

def toBTree : RTree → Option BTree
  | .node [] => some .leaf
  | .node [a, b] =>
    match toBTree a, toBTree b with
    | some x, some y => some (.node x y)
    | _, _ => none
  | .node _ => none

/-- Per-species data after the size pass of `_layout_subtrees`. -/
structure Info where
  sp : Path
  lay : SpLayout
  size : Size
  trunk : Rect
  fork : Rat
  leftPos : Pos
  rightPos : Pos
  deriving DecidableEq, Repr, Inhabited

inductive ITree where
  | leaf (i : Info)
  | node (i : Info) (l r : ITree)
  deriving Repr, Inhabited

def ITree.info : ITree → Info
  | .leaf i => i
  | .node i _ _ => i

/-- Trunk width, trunk height, fork thickness: VERTICAL. -/
def trunkDimsV (P : Params) (rects : List (Key × Rect)) : Rat × Rat × Rat :=
  if rects.isEmpty then (0, P.overhead, 0)
  else
    (maxOf (rects.map fun e => -(e.2.topLeft.x)) + P.pad,
     max 0 (maxOf (rects.map fun e => -(e.2.topLeft.y))) + P.overhead,
     max 0 (maxOf (rects.map fun e => e.2.bottomRight.y)) + P.pad)

/-- Trunk width, trunk height, fork thickness: HORIZONTAL. -/
def trunkDimsH (P : Params) (rects : List (Key × Rect)) : Rat × Rat × Rat :=
  if rects.isEmpty then (P.overhead, 0, 0)
  else
    (max 0 (maxOf (rects.map fun e => -(e.2.topLeft.x))) + P.overhead,
     maxOf (rects.map fun e => -(e.2.topLeft.y)) + P.pad,
     max 0 (maxOf (rects.map fun e => e.2.bottomRight.x)) + P.pad)

/-- Size pass of `_layout_subtrees` (post-order), VERTICAL. -/
def sizesV (P : Params) (lays : Path → Option SpLayout) : BTree → Path → Except LErr ITree
  | .leaf, p =>
    match lays p with
    | none => .error .key
    | some lay =>
      let (tw, th, _) := trunkDimsV P lay.rects
      .ok (.leaf { sp := p, lay := lay, size := ⟨tw, th⟩, trunk := Rect.makeFrom ⟨0, 0⟩ ⟨tw, th⟩,
                   fork := 0, leftPos := ⟨0, 0⟩, rightPos := ⟨0, 0⟩ })
  | .node a b, p =>
    match sizesV P lays a (p ++ [0]), sizesV P lays b (p ++ [1]), lays p with
    | .ok lt, .ok rt, some lay =>
      let (tw, th, fork) := trunkDimsV P lay.rects
      let li := lt.info
      let ri := rt.info
      let span := max li.size.h ri.size.h + th + (P.level + fork)
      let ltd := li.size.w - li.trunk.right.x
      let rtd := ri.trunk.left.x
      let spacing := max (tw - (ltd + rtd)) P.minsp
      .ok (.node { sp := p, lay := lay,
                   size := ⟨li.size.w + spacing + ri.size.w, span⟩,
                   trunk := Rect.makeFrom ⟨li.size.w + (spacing + rtd - ltd - tw) / 2, 0⟩ ⟨tw, th⟩,
                   fork := fork,
                   leftPos := ⟨0, span - li.size.h⟩,
                   rightPos := ⟨li.size.w + spacing, span - ri.size.h⟩ } lt rt)
    | .error e, _, _ => .error e
    | _, .error e, _ => .error e
    | _, _, none => .error .key

/-- Size pass of `_layout_subtrees` (post-order), HORIZONTAL. -/
def sizesH (P : Params) (lays : Path → Option SpLayout) : BTree → Path → Except LErr ITree
  | .leaf, p =>
    match lays p with
    | none => .error .key
    | some lay =>
      let (tw, th, _) := trunkDimsH P lay.rects
      .ok (.leaf { sp := p, lay := lay, size := ⟨tw, th⟩, trunk := Rect.makeFrom ⟨0, 0⟩ ⟨tw, th⟩,
                   fork := 0, leftPos := ⟨0, 0⟩, rightPos := ⟨0, 0⟩ })
  | .node a b, p =>
    match sizesH P lays a (p ++ [0]), sizesH P lays b (p ++ [1]), lays p with
    | .ok lt, .ok rt, some lay =>
      let (tw, th, fork) := trunkDimsH P lay.rects
      let li := lt.info
      let ri := rt.info
      let span := max li.size.w ri.size.w + tw + (P.level + fork)
      let ltd := li.size.h - li.trunk.bottom.y
      let rtd := ri.trunk.top.y
      let spacing := max (th - (ltd + rtd)) P.minsp
      .ok (.node { sp := p, lay := lay,
                   size := ⟨span, li.size.h + spacing + ri.size.h⟩,
                   trunk := Rect.makeFrom ⟨0, li.size.h + (spacing + rtd - ltd - th) / 2⟩ ⟨tw, th⟩,
                   fork := fork,
                   leftPos := ⟨span - li.size.w, 0⟩,
                   rightPos := ⟨span - ri.size.w, li.size.h + spacing⟩ } lt rt)
    | .error e, _, _ => .error e
    | _, .error e, _ => .error e
    | _, _, none => .error .key

/-- A finished `Branch` (the geometric fields and the children). -/
structure FBranch where
  key : Key
  kind : BKind
  left : Option Key
  right : Option Key
  rect : Rect
  aParent : Pos
  aLeft : Pos
  aRight : Pos
  aChild : Pos
  deriving DecidableEq, Repr, Inhabited

/-- A finished `SubtreeLayout`. -/
structure SubLayout where
  sp : Path
  rect : Rect
  trunk : Rect
  fork : Rat
  anchors : List (Key × Pos)
  branches : List FBranch
  deriving DecidableEq, Repr, Inhabited

def finishBranchV (off : Pos) (b : Branch) (r : Rect) : FBranch :=
  let rect := r.shift off
  match b.kind with
  | .loss => ⟨b.key, b.kind, b.left, b.right, rect, rect.center, rect.center, rect.center, rect.center⟩
  | _ => ⟨b.key, b.kind, b.left, b.right, rect, rect.top, rect.left, rect.right, rect.bottom⟩

def finishBranchH (off : Pos) (b : Branch) (r : Rect) : FBranch :=
  let rect := r.shift off
  match b.kind with
  | .loss => ⟨b.key, b.kind, b.left, b.right, rect, rect.center, rect.center, rect.center, rect.center⟩
  | _ => ⟨b.key, b.kind, b.left, b.right, rect, rect.left, rect.top, rect.bottom, rect.right⟩

/-- The per-species part of the absolute-position pass, VERTICAL. -/
def finishV (i : Info) (thisRect : Rect) : SubLayout :=
  let trunk := i.trunk.shift thisRect.topLeft
  { sp := i.sp, rect := thisRect, trunk := trunk, fork := i.fork,
    anchors := shiftAnchors trunk.topRight i.lay.anchors,
    branches := (i.lay.branches.zip i.lay.rects).map fun e =>
      finishBranchV trunk.bottomRight e.1 e.2.2 }

/-- The per-species part of the absolute-position pass, HORIZONTAL. -/
def finishH (i : Info) (thisRect : Rect) : SubLayout :=
  let trunk := i.trunk.shift thisRect.topLeft
  { sp := i.sp, rect := thisRect, trunk := trunk, fork := i.fork,
    anchors := shiftAnchors trunk.bottomLeft i.lay.anchors,
    branches := (i.lay.branches.zip i.lay.rects).map fun e =>
      finishBranchH trunk.bottomRight e.1 e.2.2 }

/-- Absolute-position pass of `_layout_subtrees` + `_finalize_layout`
    (pre-order), VERTICAL. -/
def placeV : ITree → Rect → List SubLayout
  | .leaf i, r => [finishV i r]
  | .node i lt rt, r =>
    finishV i r ::
      (placeV lt (Rect.makeFrom (r.topLeft.add i.leftPos) lt.info.size) ++
       placeV rt (Rect.makeFrom (r.topLeft.add i.rightPos) rt.info.size))

/-- Absolute-position pass (pre-order), HORIZONTAL. -/
def placeH : ITree → Rect → List SubLayout
  | .leaf i, r => [finishH i r]
  | .node i lt rt, r =>
    finishH i r ::
      (placeH lt (Rect.makeFrom (r.topLeft.add i.leftPos) lt.info.size) ++
       placeH rt (Rect.makeFrom (r.topLeft.add i.rightPos) rt.info.size))

/-- `_layout_branches` over all species: species ↦ relative layout. -/
def layoutAllV (P : Params) (sizes : Key → Size) : LState → Except LErr (List (Path × SpLayout))
  | [] => .ok []
  | (s, st) :: rest =>
    match layoutBranchesV P sizes st, layoutAllV P sizes rest with
    | .ok l, .ok ls => .ok ((s, l) :: ls)
    | .error e, _ => .error e
    | _, .error e => .error e

def layoutAllH (P : Params) (sizes : Key → Size) : LState → Except LErr (List (Path × SpLayout))
  | [] => .ok []
  | (s, st) :: rest =>
    match layoutBranchesH P sizes st, layoutAllH P sizes rest with
    | .ok l, .ok ls => .ok ((s, l) :: ls)
    | .error e, _ => .error e
    | _, .error e => .error e

def lookupSp {β : Type} : List (Path × β) → Path → Option β
  | [], _ => none
  | (k, v) :: rest, q => if k = q then some v else lookupSp rest q

/-- `layout.compute(rec, params)` with `params.orientation = VERTICAL`:
    the `SubtreeLayout`s in pre-order of the species tree. -/
def computeV (P : Params) (sizes : Key → Size) (S : RTree) (sol : Sol) :
    Except LErr (List SubLayout) :=
  match computeBranches S sol with
  | .error e => .error e
  | .ok st =>
    match layoutAllV P sizes st with
    | .error e => .error e
    | .ok lays =>
      match toBTree S with
      | none => .error .value
      | some B =>
        match sizesV P (lookupSp lays) B [] with
        | .error e => .error e
        | .ok t => .ok (placeV t (Rect.makeFrom ⟨0, 0⟩ t.info.size))

/-- `layout.compute(rec, params)` with `params.orientation = HORIZONTAL`. -/
def computeH (P : Params) (sizes : Key → Size) (S : RTree) (sol : Sol) :
    Except LErr (List SubLayout) :=
  match computeBranches S sol with
  | .error e => .error e
  | .ok st =>
    match layoutAllH P sizes st with
    | .error e => .error e
    | .ok lays =>
      match toBTree S with
      | none => .error .value
      | some B =>
        match sizesH P (lookupSp lays) B [] with
        | .error e => .error e
        | .ok t => .ok (placeH t (Rect.makeFrom ⟨0, 0⟩ t.info.size))

def compute (o : Orientation) (P : Params) (sizes : Key → Size) (S : RTree) (sol : Sol) :
    Except LErr (List SubLayout) :=
  match o with
  | .vertical => computeV P sizes S sol
  | .horizontal => computeH P sizes S sol

/-! ## Part 3: `_tikz_draw_branches`, statement kinds -/

/-- The kinds of TikZ statements `_tikz_draw_branches` appends. -/
inductive Stmt where
  | path                      -- `\path[branch=…]`
  | event (k : Key) (kind : BKind)   -- `\node[extant gene|speciation|duplication|horizontal gene transfer=…]`
  | lossMarker (k : Key)      -- `\node[loss=…]`
  | transfer (src target : Key)  -- `\path[transfer branch=…] … to (anchors[target])`
  deriving DecidableEq, Repr, Inhabited

def hasKey {β : Type} (l : List (Key × β)) (k : Key) : Bool := (lookupKey l k).isSome

def fbLookup : List FBranch → Key → Option FBranch
  | [], _ => none
  | b :: rest, q => if b.key = q then some b else fbLookup rest q

def slLookup : List SubLayout → Path → Option SubLayout
  | [], _ => none
  | l :: rest, q => if l.sp = q then some l else slLookup rest q

/-- `X_layout.anchors[k]` for an optional layout and an optional key. -/
def anchorIn (l : Option SubLayout) (k : Option Key) : Except LErr Unit :=
  match l, k with
  | some l, some k => if hasKey l.anchors k then .ok () else .error .key
  | none, _ => .error .value   -- `assert left_layout is not None`
  | _, none => .error .key

def branchIn (l : SubLayout) (k : Option Key) : Except LErr Unit :=
  match k with
  | some k => if (fbLookup l.branches k).isSome then .ok () else .error .key
  | none => .error .key

/-- Statements emitted for one branch, with every dictionary lookup checked.
    `spOf` is `mapping[…]` for object nodes. -/
def drawBranch (all : List SubLayout) (spOf : Path → Option Path)
    (lay : SubLayout) (ll rl : Option SubLayout) (b : FBranch) : Except LErr (List Stmt) :=
  let pre : List Stmt := if hasKey lay.anchors b.key then [.path] else []
  match b.kind with
  | .leaf => .ok (pre ++ [.event b.key .leaf])
  | .loss =>
    let chk := if b.right.isNone then anchorIn ll b.left else anchorIn rl b.right
    match chk with
    | .error e => .error e
    | .ok _ => .ok (pre ++ [.path, .lossMarker b.key, .path])
  | .spec =>
    match anchorIn ll b.left, anchorIn rl b.right with
    | .ok _, .ok _ => .ok (pre ++ [.path, .event b.key .spec])
    | .error e, _ => .error e
    | _, .error e => .error e
  | .dup =>
    match branchIn lay b.left, branchIn lay b.right with
    | .ok _, .ok _ => .ok (pre ++ [.path, .event b.key .dup])
    | .error e, _ => .error e
    | _, .error e => .error e
  | .hgt =>
    match b.right with
    | some (.gene g) =>
      match spOf g with
      | none => .error .key
      | some s =>
        match slLookup all s with
        | none => .error .key
        | some fl =>
          if hasKey fl.anchors (.gene g) then
            match branchIn lay b.left with
            | .ok _ => .ok (pre ++ [.path, .transfer b.key (.gene g), .event b.key .hgt])
            | .error e => .error e
          else .error .key
    | _ => .error .key

def drawBranches (all : List SubLayout) (spOf : Path → Option Path)
    (lay : SubLayout) (ll rl : Option SubLayout) : List FBranch → Except LErr (List Stmt)
  | [] => .ok []
  | b :: rest =>
    match drawBranch all spOf lay ll rl b, drawBranches all spOf lay ll rl rest with
    | .ok a, .ok r => .ok (a ++ r)
    | .error e, _ => .error e
    | _, .error e => .error e

/-- `mapping[gene]` by object path. -/
def spOfSol : Sol → Path → Option Path
  | sol, [] => some sol.sp
  | .node _ _ l r, i :: p => if i = 0 then spOfSol l p else if i = 1 then spOfSol r p else none
  | .leaf _ _, _ :: _ => none

/-- The statements of `render` that come from `_tikz_draw_branches`, species
    by species in pre-order (the fork statements are not modelled). -/
def drawAll (S : RTree) (sol : Sol) (all : List SubLayout) : List SubLayout → Except LErr (List Stmt)
  | [] => .ok []
  | lay :: rest =>
    let isLeaf := (S.sub lay.sp).any RTree.isLeaf
    let ll := if isLeaf then none else slLookup all (lay.sp ++ [0])
    let rl := if isLeaf then none else slLookup all (lay.sp ++ [1])
    match drawBranches all (spOfSol sol) lay ll rl lay.branches, drawAll S sol all rest with
    | .ok a, .ok r => .ok (a ++ r)
    | .error e, _ => .error e
    | _, .error e => .error e

/-- Statement kinds of `tikz.render(rec, layout.compute(rec, params), params)`. -/
def render (o : Orientation) (P : Params) (sizes : Key → Size) (S : RTree) (sol : Sol) :
    Except LErr (List Stmt) :=
  match compute o P sizes S sol with
  | .error e => .error e
  | .ok all => drawAll S sol all all

end SR.Layout
