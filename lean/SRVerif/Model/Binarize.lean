/-
  Model of `superrec2.utils.trees.{is_binary, graft, arrange_leaves, binarize}`
  (trees.py:370-446) and of the outer loop over refinements of
  `ReconciliationInput.binarize` / `_spfs` / `_uspfs`.

  * `BTree α`: a binary arrangement over opaque *items*.  In `arrange_leaves`
    the items are the (already binarized) children of the node being
    resolved; `graft` recognises them by their topology id (the `ignore` set)
    and does not recurse into them.  In the model an item is a constructor,
    so `graft` cannot look inside: this is what the `ignore` test achieves on
    trees with distinct leaf names (a skeleton node above two or more items
    has a leaf set different from the leaf set of every single item, hence a
    different topology id).  `graftIgn` below is the literal version with an
    explicit ignore test on leaf sets, for comparison (see
    `Proofs/BinarizeUniq.lean: graftIgn_subst`).
  * `NTree`: input tree of arbitrary arity; leaves carry an id, internal
    nodes an optional annotation (a code for the pair name/colour; `none` =
    unnamed, uncoloured — which is also what freshly created nodes carry).
  * `BinT`: binary output tree with the same annotations.
  * `binarize`: post-order; for an internal node the product of the children's
    refinements (`itertools.product`, first factor slowest), each tuple
    arranged in all ways, the node's features copied onto the root of every
    arrangement.

  Scope: every internal node has at least two children (`NTree.WF`).  For a
  unary node the real code overwrites the features of the child's copy with
  those of the unary node (even the name of a leaf child); the model's
  `setAnn` only overwrites an internal child's annotation.  ete3 has no
  internal node without children.

  Core Lean only; executable (linked into the driver).
-/
import SRVerif.Model.Solvers

namespace SR.Bin

/-! ### Arrangements over opaque items -/

inductive BTree (α : Type) where
  | item (a : α)
  | node (l r : BTree α)
  deriving Repr, DecidableEq, Inhabited

namespace BTree

variable {α β : Type}

def items : BTree α → List α
  | item a => [a]
  | node l r => l.items ++ r.items

/-- Number of items. -/
def size : BTree α → Nat
  | item _ => 1
  | node l r => l.size + r.size

def map (f : α → β) : BTree α → BTree β
  | item a => item (f a)
  | node l r => node (l.map f) (r.map f)

end BTree

open BTree

/-- `graft(tree, leaf, ignore)`: first the new root `(leaf, tree)`, then — if
    `tree` is neither a leaf nor one of the ignored nodes, i.e. not an item —
    the grafts into the left child, then into the right child. -/
def graft {α : Type} (x : α) : BTree α → List (BTree α)
  | .item a => [.node (.item x) (.item a)]
  | .node l r =>
    .node (.item x) (.node l r) ::
      ((graft x l).map (fun g => .node g r) ++ (graft x r).map (fun g => .node l g))

/-- `arrange_leaves(leaves)`. -/
def arrange {α : Type} : List α → List (BTree α)
  | [] => []
  | [a] => [.item a]
  | a :: b :: rest => (arrange (b :: rest)).flatMap (graft a)

/-! ### Trees -/

/-- Input tree of arbitrary arity. -/
inductive NTree where
  | leaf (id : Nat)
  | node (ann : Option Nat) (children : List NTree)
  deriving Repr, Inhabited

/-- Binary tree with annotated internal nodes. -/
inductive BinT where
  | leaf (id : Nat)
  | node (ann : Option Nat) (l r : BinT)
  deriving Repr, DecidableEq, Inhabited

namespace NTree

mutual
  /-- Leaf ids, left to right. -/
  def leaves : NTree → List Nat
    | leaf i => [i]
    | node _ cs => leavesList cs
  def leavesList : List NTree → List Nat
    | [] => []
    | c :: cs => leaves c ++ leavesList cs
end

mutual
  /-- `is_binary`. -/
  def isBinary : NTree → Bool
    | leaf _ => true
    | node _ cs => cs.length == 2 && isBinaryList cs
  def isBinaryList : List NTree → Bool
    | [] => true
    | c :: cs => isBinary c && isBinaryList cs
end

mutual
  /-- Every internal node has at least two children. -/
  def WF : NTree → Bool
    | leaf _ => true
    | node _ cs => decide (2 ≤ cs.length) && WFList cs
  def WFList : List NTree → Bool
    | [] => true
    | c :: cs => WF c && WFList cs
end

mutual
  /-- The internal nodes as (leaf ids below, annotation), pre-order. -/
  def inner : NTree → List (List Nat × Option Nat)
    | leaf _ => []
    | node a cs => (leavesList cs, a) :: innerList cs
  def innerList : List NTree → List (List Nat × Option Nat)
    | [] => []
    | c :: cs => inner c ++ innerList cs
end

end NTree

namespace BinT

def leaves : BinT → List Nat
  | leaf i => [i]
  | node _ l r => l.leaves ++ r.leaves

/-- The internal nodes as (leaf ids below, annotation), pre-order. -/
def inner : BinT → List (List Nat × Option Nat)
  | leaf _ => []
  | node a l r => (l.leaves ++ r.leaves, a) :: (l.inner ++ r.inner)

def toN : BinT → NTree
  | leaf i => .leaf i
  | node a l r => .node a [l.toN, r.toN]

/-- `subtree.add_feature(key, getattr(node, key))` on the root of an arrangement. -/
def setAnn (a : Option Nat) : BinT → BinT
  | leaf i => leaf i
  | node _ l r => node a l r

end BinT

/-- An arrangement whose items are trees, as a tree: skeleton nodes are the
    freshly created, unannotated `Tree()` nodes. -/
def subst : BTree BinT → BinT
  | .item d => d
  | .node l r => .node none (subst l) (subst r)

mutual
  /-- `binarize(tree)`. -/
  def binarize : NTree → List BinT
    | .leaf i => [.leaf i]
    | .node a cs =>
      (binarizeChildren cs).flatMap fun descs =>
        (arrange descs).map fun s => (subst s).setAnn a
  /-- `product(*(subtrees[desc] for desc in node.children))`. -/
  def binarizeChildren : List NTree → List (List BinT)
    | [] => [[]]
    | c :: cs => (binarize c).flatMap fun d => (binarizeChildren cs).map (d :: ·)
end

/-! ### The literal `ignore` test, on leaf sets

`get_topology_id()` hashes the sorted list of the bipartitions
(leaves below a node | the other leaves of the subtree) over all nodes of the
subtree, the root contributing (all leaves | ∅): equal ids imply equal leaf
sets.  `graftIgn` stops at a node whose leaf list is, as a set, the leaf list
of a member of `ignore`. -/

def sameSet (a b : List Nat) : Bool := a.all (b.contains ·) && b.all (a.contains ·)

def graftIgn (ignore : List (List Nat)) (x : BinT) : BinT → List BinT
  | .leaf i => [.node none x (.leaf i)]
  | .node a l r =>
    .node none x (.node a l r) ::
      (if ignore.any (sameSet (l.leaves ++ r.leaves)) then []
       else (graftIgn ignore x l).map (fun g => .node none g r) ++
            (graftIgn ignore x r).map (fun g => .node none l g))

/-! ### The outer loop of the extended solvers -/

mutual
  def shape : NTree → RTree
    | .leaf _ => .node []
    | .node _ cs => .node (shapeList cs)
  def shapeList : List NTree → List RTree
    | [] => []
    | c :: cs => shape c :: shapeList cs
end

/-- Path of the leaf `id` in a binary tree. -/
def BinT.pathOf (id : Nat) : BinT → Option Path
  | .leaf i => if i = id then some [] else none
  | .node _ l r =>
    match l.pathOf id with
    | some p => some (0 :: p)
    | none => (r.pathOf id).map (1 :: ·)

/-- Leaf data of the object tree: species leaf id and synteny of each object leaf id. -/
abbrev LeafData := Nat → Nat × List Nat

/-- The binary object tree fed to the solvers for a pair of refinements:
    leaves carry the path of their species in the refined species tree. -/
def toOTree (data : LeafData) (bS : BinT) : BinT → OTree
  | .leaf i => .leaf ((bS.pathOf (data i).1).getD []) (data i).2
  | .node _ l r => .node (toOTree data bS l) (toOTree data bS r)

/-- One solver output: the refined input it refers to (species tree, object
    tree, both binary) and the solution. -/
structure Out where
  sTree : BinT
  oTree : BinT
  sol : Sol
  deriving Repr, DecidableEq

/-- `ReconciliationInput.binarize()`: the product of both trees' refinements
    (object tree slowest).  A binary input yields itself, which is the only
    member of the product up to the annotations. -/
def refinementPairs (tO tS : NTree) : List (BinT × BinT) :=
  (binarize tO).flatMap fun bO => (binarize tS).map fun bS => (bO, bS)

def Out.cost (c : Costs) (mode : LabelMode) (data : LeafData) (x : Out) : Cost :=
  totalCost c mode (toOTree data x.sTree x.oTree) x.sol

/-- The single result `Entry` (MIN, ALL) fed by every refinement. -/
def rankOuts (c : Costs) (mode : LabelMode) (data : LeafData) (outs : List Out) : List Out :=
  let best := Cost.minList (outs.map (Out.cost c mode data))
  dedup (outs.filter (fun x => Out.cost c mode data x = best))

/-- Candidates offered by `_spfs` for one refined input (what `spfs` ranks). -/
def spfsCands (c : Costs) (S : RTree) (base : Bool) (o : OTree) (prescribed : Option (List Nat)) :
    List Sol :=
  (rootOrders o prescribed).flatMap fun order =>
    (spfsCellsFor c S base true o order).flatMap (fun d => d.sols.map (ordSol order))

/-- Candidates offered by `_uspfs` for one refined input (what `uspfs` ranks). -/
def uspfsCands (c : Costs) (S : RTree) (base : Bool) (o : OTree) : List Sol :=
  let ann := annUn S base o [] o
  (uspfsCells c S base true o).flatMap (fun d => d.sols.map (unSol ann ann.data.lcaSet))

def multiCands (tO tS : NTree) (data : LeafData) (cands : RTree → OTree → List Sol) : List Out :=
  (refinementPairs tO tS).flatMap fun p =>
    (cands (shape p.2.toN) (toOTree data p.2 p.1)).map fun s =>
      { sTree := p.2, oTree := p.1, sol := s }

/-- `_spfs` on a possibly multifurcating input. -/
def spfsMulti (c : Costs) (base : Bool) (tO tS : NTree) (data : LeafData)
    (prescribed : Option (List Nat)) : List Out :=
  rankOuts c .ordered data
    (multiCands tO tS data (fun S o => spfsCands c S base o prescribed))

/-- `_uspfs` on a possibly multifurcating input. -/
def uspfsMulti (c : Costs) (base : Bool) (tO tS : NTree) (data : LeafData) : List Out :=
  rankOuts c .unordered data (multiCands tO tS data (fun S o => uspfsCands c S base o))

end SR.Bin
