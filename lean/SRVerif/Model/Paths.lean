/-
  Nodes of a rooted tree as paths from the root (list of child indices).
  Ancestor = prefix, lowest common ancestor = longest common prefix,
  level = length.  These are the *specification-level* tree queries used by
  every solver / evaluator model; `SRVerif/Model/Lca.lean` models what
  `LowestCommonAncestor` actually computes (Euler tour + sparse table) and
  C17 proves the two equal.
-/
import SRVerif.Model.Basic

namespace SR

abbrev Path := List Nat

namespace Path

/-- `p` is an ancestor of (or equal to) `q`: `p` is a prefix of `q`. -/
def isAnc : Path → Path → Bool
  | [], _ => true
  | _ :: _, [] => false
  | a :: p, b :: q => a == b && isAnc p q

def isStrictAnc (p q : Path) : Bool := isAnc p q && p != q

def comparable (p q : Path) : Bool := isAnc p q || isAnc q p

/-- Longest common prefix = lowest common ancestor. -/
def lcp : Path → Path → Path
  | a :: p, b :: q => if a == b then a :: lcp p q else []
  | _, _ => []

def level (p : Path) : Nat := p.length

/-- Number of edges between two nodes. -/
def dist (p q : Path) : Nat := p.length + q.length - 2 * (lcp p q).length

/-- The parent (`node.up`); the root has none. -/
def up : Path → Option Path
  | [] => none
  | p => some p.dropLast

end Path

/-- Shape of a rooted tree of arbitrary arity. -/
inductive RTree where
  | node (children : List RTree)
  deriving Repr, Inhabited

namespace RTree

def children : RTree → List RTree
  | node cs => cs

def isLeaf (t : RTree) : Bool := t.children.isEmpty

mutual
  /-- All node paths in pre-order (`traverse("preorder")`). -/
  def preorder : RTree → List Path
    | node cs => [] :: preorderList cs 0
  def preorderList : List RTree → Nat → List Path
    | [], _ => []
    | c :: cs, i => (preorder c).map (i :: ·) ++ preorderList cs (i + 1)
end

mutual
  /-- All node paths in post-order (`traverse("postorder")`). -/
  def postorder : RTree → List Path
    | node cs => postorderList cs 0 ++ [[]]
  def postorderList : List RTree → Nat → List Path
    | [], _ => []
    | c :: cs, i => (postorder c).map (i :: ·) ++ postorderList cs (i + 1)
end

/-- The subtree at a path, if the path denotes a node. -/
def sub : RTree → Path → Option RTree
  | t, [] => some t
  | node cs, i :: p =>
    match cs[i]? with
    | some c => sub c p
    | none => none

def isNode (t : RTree) (p : Path) : Bool := (t.sub p).isSome

mutual
  def isBinary : RTree → Bool
    | node [] => true
    | node [a, b] => isBinary a && isBinary b
    | node _ => false
end

/-- Leaf paths, left to right. -/
def leaves (t : RTree) : List Path := t.preorder.filter (fun p => (t.sub p).any isLeaf)

end RTree

end SR
