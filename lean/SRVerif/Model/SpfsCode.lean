/-
  Transliteration of `superrec2/compute/super_reconciliation.py`
  (`_compute_spfs_entry`, `_compute_spfs_table`, `_decode_spfs_table`,
  `_make_prec_graph` + `toposort_all`, `_spfs`, `sreconcile_{base,extended}_spfs`)
  for a BINARY input, following the structure of the code rather than the
  recurrences (`Model/Solvers.lean`, `spfs`, follows the recurrences):

  * table cells are `Entry`s of `Model/Entry.lean` (C16) holding a value and the
    TAGS `ChildrenAssignment(left, right)` of the optimal candidates — not decoded
    solutions; cells exist only once a batch with a finite candidate was written
    (`EntryProxy.update`, `Cell.update`);
  * the five role entries of each child (`MappingChoices`) are `table.entry()`s
    updated one candidate at a time while looping over the species tree and the
    child's syntenies; `subseq_segment_dist(child, root, edges=True)` is tested for
    `< 0` BEFORE anything is scaled by the segmental loss cost (the repair of
    F-SPFS-SLOSS0); `segment_dist` is formed without a test, as in the code
    (`-1 * sloss` for an empty child mask);
  * values are Python integers or `inf` (`ExtInt`), distances are `Int`;
  * the six `combine` calls per cell are made in the code's order and their
    candidates written as ONE batch;
  * `_decode_spfs_table` follows the tags;
  * the root orders are `toposort_all(_make_prec_graph(leaf_syntenies))` (the C19
    models), or the prescribed root order / the synteny of a single leaf;
  * the result entry is ranked by `output.cost()` (`totalCost … .ordered`, C06).

  The retention policy is a parameter (it flows to the table, to the role entries,
  to `combine` and to the result entry, as in the code); the refinement theorems
  (`Properties/C02Code.lean`) are about `RetentionPolicy.ALL`.

  Representation choices (not proved, they are what the tie explores):
  * the first table dimension (object node) is the position in a tree `Tab`
    mirroring the object tree: `table[child_object]` is the root cell list of the
    child's `Tab`; the post-order loop of `_compute_spfs_table` is the structural
    recursion.  The dicts `table[obj][species][synteny]` of one object node are one
    association list in insertion order (key present ⇔ entry instantiated);
  * `tree.traverse()` (ete3 default: level order) is `levelorder`;
    `traverse("postorder")` is `RTree.postorder`;
  * species are paths; `is_ancestor_of` / `distance` are the path operations (C17);
    `root_species.children` unpacks into exactly two species (binary species tree):
    `s ++ [0]`, `s ++ [1]`;
  * each `(root_species, root_synteny)` of an object node is visited once (the
    species come from a traversal or are the single LCA species), so every
    `table[…].update(…)` starts from an absent cell;
  * `subseq_from_mask` raises `IndexError` only for masks with bits beyond the
    order, which are never formed (`range(2 ** len(ordering))`): `.getD []` as in
    `ordSol`.

  Core Lean only (linked into the driver).
-/
import SRVerif.Model.Entry
import SRVerif.Model.CostExt
import SRVerif.Model.Toposort
import SRVerif.Model.Solvers

namespace SR


/-- `Entry.__iter__`: one `Candidate(value, info)` per retained tag. -/
def Entry.cands {τ : Type} (e : Entry τ) : List (Cand τ) :=
  e.infos.map (fun t => ⟨e.value, some t⟩)

namespace SpfsCode

/-- `ObjectAssignment(species, synteny)`. -/
abbrev OAsg := Path × Nat

/-- `ChildrenAssignment(left, right)`. -/
abbrev CAsg := OAsg × OAsg

/-- `MappingChoices`: the five role entries of one child. -/
structure Choices where
  left : Entry OAsg
  right : Entry OAsg
  conserved : Entry OAsg
  segment : Entry OAsg
  separate : Entry OAsg
  deriving Repr

/-- `MappingChoices._make(table.entry() for _ in range(5))`. -/
def Choices.init (ret : Retain) : Choices :=
  let e : Entry OAsg := Entry.init .min ret
  { left := e, right := e, conserved := e, segment := e, separate := e }

/-- An instantiated entry `table[obj][sp][syn]` of one object node. -/
structure TCell where
  sp : Path
  syn : Nat
  entry : Entry CAsg
  deriving Repr

/-- The table: per object node, its instantiated entries in insertion order. -/
inductive Tab where
  | leaf (cells : List TCell)
  | node (cells : List TCell) (l r : Tab)
  deriving Repr, Inhabited

def Tab.cells : Tab → List TCell
  | .leaf cs => cs
  | .node cs _ _ => cs

/-- `tree.traverse()` (level order): the nodes of depth 0, then of depth 1, … each
    level left to right. -/
def levelorder (S : RTree) : List Path :=
  let ps := S.preorder
  (List.range (ps.foldl (fun d p => Nat.max d p.length) 0 + 1)).flatMap
    (fun d => ps.filter (fun p => p.length == d))

/-- `for desc_species in species_lca.tree.traverse():
      for child_synteny in table[child_object][desc_species]:` — the cells of the
    child in visiting order. -/
def childCells (S : RTree) (cells : List TCell) : List TCell :=
  (levelorder S).flatMap (fun x => cells.filter (fun d => d.sp == x))

/-- The body of the two inner loops of `_compute_spfs_entry` for one child cell. -/
def visit (c : Costs) (S : RTree) (rootSp : Path) (rootSyn : Nat) (sub : Choices) (cell : TCell) :
    Choices :=
  let conservSegments : Int := subseqSegmentDist cell.syn rootSyn true
  if conservSegments < 0 then sub   -- not a subsequence of the parent synteny: `continue`
  else
    let conservDist : Int := conservSegments * (c.sloss : Int)
    let segmentDist : Int := subseqSegmentDist cell.syn rootSyn false * (c.sloss : Int)
    let subCost : ExtInt := cell.entry.value
    let assignment : OAsg := (cell.sp, cell.syn)
    if Path.isAnc rootSp cell.sp then
      let aboveSpeciesDist : Int := (Path.dist rootSp cell.sp : Int) * (c.floss : Int)
      let sub := { sub with
        conserved := sub.conserved.update
          [⟨.fin aboveSpeciesDist + subCost + .fin conservDist, some assignment⟩],
        segment := sub.segment.update
          [⟨.fin aboveSpeciesDist + subCost + .fin segmentDist, some assignment⟩] }
      if !speciesIsLeaf S rootSp then
        let speciesDist : Int := aboveSpeciesDist - (c.floss : Int)
        if Path.isAnc (rootSp ++ [0]) cell.sp then
          { sub with
            left := sub.left.update
              [⟨.fin speciesDist + subCost + .fin conservDist, some assignment⟩] }
        else if Path.isAnc (rootSp ++ [1]) cell.sp then
          { sub with
            right := sub.right.update
              [⟨.fin speciesDist + subCost + .fin conservDist, some assignment⟩] }
        else sub
      else sub
    else if !Path.isAnc cell.sp rootSp then
      { sub with
        separate := sub.separate.update [⟨subCost + .fin segmentDist, some assignment⟩] }
    else sub

/-- `subprobs[child_index]` after the loops. -/
def choices (c : Costs) (S : RTree) (ret : Retain) (rootSp : Path) (rootSyn : Nat)
    (cells : List TCell) : Choices :=
  (childCells S cells).foldl (visit c S rootSp rootSyn) (Choices.init ret)

/-- `_make_event_combinator(event_cost)`. -/
def eventComb (eventCost : ExtInt) : ExtInt → OAsg → ExtInt → OAsg → Cand CAsg :=
  fun lv li rv ri => ⟨eventCost + lv + rv, some (li, ri)⟩

/-- The batch `*a.combine(b, comb), …` written to `table[obj][sp][syn]`. -/
def batch (c : Costs) (sub0 sub1 : Choices) : List (Cand CAsg) :=
  let spe := eventComb (.fin (c.spe : Int))
  let dup := eventComb (.fin (c.dup : Int))
  let hgt := eventComb c.hgt.toExt
  (sub0.left.combine sub1.right spe).cands ++
  (sub0.right.combine sub1.left spe).cands ++
  (sub0.conserved.combine sub1.segment dup).cands ++
  (sub0.segment.combine sub1.conserved dup).cands ++
  (sub0.conserved.combine sub1.separate hgt).cands ++
  (sub0.separate.combine sub1.conserved hgt).cands

/-- `_compute_spfs_entry`: the cell `table[root_object][root_species][root_synteny]`
    afterwards, given the cells of the two children. -/
def computeEntry (c : Costs) (S : RTree) (ret : Retain) (rootSp : Path) (rootSyn : Nat)
    (L R : List TCell) : Cell CAsg :=
  Cell.update .min ret none
    (batch c (choices c S ret rootSp rootSyn L) (choices c S ret rootSp rootSyn R))

/-- The dict entry created by an update, if any. -/
def mkCells (sp : Path) (syn : Nat) : Cell CAsg → List TCell
  | some e => [{ sp := sp, syn := syn, entry := e }]
  | none => []

/-- `allowed_species(tree, obj)`: the LCA species (`base`) or
    `species.traverse("postorder")`. -/
def allowedSpecies (S : RTree) (base : Bool) (o : OTree) : List Path :=
  if base then [(lcaSol o).sp] else S.postorder

/-- `allowed_syntenies(ordering, obj)`. -/
def allowedSyntenies (order : List Nat) (isRoot : Bool) : List Nat :=
  if isRoot then [subseqComplete order] else List.range (2 ^ order.length)

/-- `_compute_spfs_table` (post-order over the object tree). -/
def computeTable (c : Costs) (S : RTree) (base : Bool) (ret : Retain) (order : List Nat) :
    Bool → OTree → Tab
  | _, .leaf sp f =>
    -- `table[root_object][species][synteny] = Candidate(0)`
    .leaf (mkCells sp (maskFromSubseq f order) (Cell.update .min ret none [⟨.fin 0, none⟩]))
  | isRoot, .node l r =>
    let L := computeTable c S base ret order false l
    let R := computeTable c S base ret order false r
    .node
      ((allowedSpecies S base (.node l r)).flatMap fun rootSp =>
        (allowedSyntenies order isRoot).flatMap fun rootSyn =>
          mkCells rootSp rootSyn (computeEntry c S ret rootSp rootSyn L.cells R.cells))
      L R

/-- `table[obj][sp][syn]` read through an `EntryProxy`. -/
def lookup (cells : List TCell) (sp : Path) (syn : Nat) : Cell CAsg :=
  (cells.find? (fun d => d.sp == sp && d.syn == syn)).map (·.entry)

/-- `_decode_spfs_table`. -/
def decodeTable (order : List Nat) : Tab → Path → Nat → List Sol
  | .leaf cells, sp, syn =>
    let resolv := (subseqFromMask syn order).getD []
    if !(Cell.value .min (lookup cells sp syn)).isInfinite then [.leaf sp resolv]
    else []   -- `infos()` of a leaf entry is empty
  | .node cells l r, sp, syn =>
    let resolv := (subseqFromMask syn order).getD []
    (Cell.infos (lookup cells sp syn)).flatMap fun info =>
      (decodeTable order l info.1.1 info.1.2).flatMap fun mapLeft =>
        (decodeTable order r info.2.1 info.2.2).map fun mapRight =>
          .node sp resolv mapLeft mapRight

/-- The root orderings tried by `_spfs`: the synteny given for the root (a
    prescribed order, or the synteny of a single leaf), else
    `toposort_all(_make_prec_graph(leaf_syntenies))`. -/
def rootOrderings (o : OTree) (prescribed : Option (List Nat)) :
    Except Toposort.Err (List (List Nat)) :=
  match prescribed, o with
  | some r, _ => .ok [r]
  | none, .leaf _ f => .ok [f]
  | none, .node l r =>
    match Toposort.precGraph (leafSyntenies (.node l r)) with
    | .error e => .error e
    | .ok g => Toposort.toposortAll g

/-- The candidates `Candidate(output.cost(), output)` of one root species. -/
def outputs (c : Costs) (o : OTree) (order : List Nat) (table : Tab) (rootSp : Path) :
    List (Cand Sol) :=
  (decodeTable order table rootSp (subseqComplete order)).map
    (fun out => ⟨(totalCost c .ordered o out).toExt, some out⟩)

/-- The loops of `_spfs` over the root orderings and the root species. -/
def results (c : Costs) (S : RTree) (base : Bool) (ret : Retain) (o : OTree)
    (orders : List (List Nat)) : Entry Sol :=
  orders.foldl (fun res order =>
    let table := computeTable c S base ret order true o
    (levelorder S).foldl (fun res rootSp => res.update (outputs c o order table rootSp)) res)
    (Entry.init .min ret)

/-- `_spfs` on a binary input (`base`: `sreconcile_base_spfs`, else
    `sreconcile_extended_spfs`). -/
def spfs (ret : Retain) (c : Costs) (S : RTree) (base : Bool) (o : OTree)
    (prescribed : Option (List Nat)) : Except Toposort.Err (List Sol) :=
  match rootOrderings o prescribed with
  | .error e => .error e
  | .ok orders => .ok (results c S base ret o orders).infos

/-- Preorder index of every object node of a table together with its cells
    (`object_tree.traverse("preorder")` numbering; for the driver). -/
def Tab.flatten : Tab → Nat → List (Nat × List TCell) × Nat
  | .leaf cs, i => ([(i, cs)], i + 1)
  | .node cs l r, i =>
    let (fl, j) := l.flatten (i + 1)
    let (fr, k) := r.flatten j
    ((i, cs) :: fl ++ fr, k)

end SpfsCode

/-- `sreconcile_{extended,base}_spfs(input, RetentionPolicy.ALL)` on a binary input,
    transliterated. -/
def spfsCode (c : Costs) (S : RTree) (base : Bool) (o : OTree) (prescribed : Option (List Nat)) :
    Except Toposort.Err (List Sol) :=
  SpfsCode.spfs .all c S base o prescribed

end SR
