/-
  The table recurrence shared by the three optimisers
  (`_compute_thl_table`, `_compute_spfs_entry`, `_compute_uspfs_entry`) and the
  decoding of the table into solutions (`_decode_*_table`).

  For object node `v`, species `s` and label `lab`, every placement of each
  child is classified into roles relative to `s` (`left` / `right` child
  subtree of `s`, `conserved` / `segment` anywhere below `s`, `separate` =
  incomparable with `s`), each role keeps its minimum and arg-minima, and the
  roles are combined per event kind.  Instead of child-assignment tags the
  model stores the decoded solutions of each cell directly, which is what
  `_decode_*_table` rebuilds from the tags.
-/
import SRVerif.Model.Rec

namespace SR

/-- Input object tree annotated with per-node data. -/
inductive ATree (α : Type) where
  | leaf (a : α) (sp : Path)
  | node (a : α) (l r : ATree α)
  deriving Repr, Inhabited

def ATree.data {α : Type} : ATree α → α
  | .leaf a _ => a
  | .node a _ _ => a

/-- Solution with abstract labels. -/
inductive LSol (Lab : Type) where
  | leaf (sp : Path) (lab : Lab)
  | node (sp : Path) (lab : Lab) (l r : LSol Lab)
  deriving Repr, DecidableEq, Inhabited

/-- What distinguishes the three optimisers. -/
structure LabelAlg (α Lab : Type) where
  /-- label of a leaf -/
  leafLab : α → Lab
  /-- labels tried at an internal node -/
  labs : α → List Lab
  /-- species tried at an internal node -/
  allowed : α → List Path
  /-- cost of the edge to a child that keeps the whole content (end runs counted) -/
  conserv : α → Lab → α → Lab → Cost
  /-- cost of the edge to a child that may be a partial copy (end runs free) -/
  segment : α → Lab → α → Lab → Cost

/-- A finite table cell together with its decoded solutions. -/
structure DCell (Lab : Type) where
  sp : Path
  lab : Lab
  cost : Cost
  sols : List (LSol Lab)
  deriving Repr

/-- A standalone MIN / ALL entry: value and the tags achieving it. -/
structure Agg (τ : Type) where
  val : Cost
  tags : List τ
  deriving Repr

namespace Agg

variable {τ : Type} [DecidableEq τ]

def empty : Agg τ := { val := .inf, tags := [] }

/-- `Entry.update(Candidate(v, t))` for MIN / ALL with a tag. -/
def update (a : Agg τ) (v : Cost) (t : τ) : Agg τ :=
  if v = a.val then (if t ∈ a.tags then a else { a with tags := a.tags ++ [t] })
  else if Cost.lt v a.val then { val := v, tags := [t] }
  else a

/-- `a.combine(b, λ l r. Candidate(e + l.value + r.value, (l.info, r.info)))`
    as the list of candidates it offers. -/
def comb {σ : Type} (e : Cost) (a : Agg τ) (b : Agg σ) : List (Cost × (τ × σ)) :=
  a.tags.flatMap (fun x => b.tags.map (fun y => (e + a.val + b.val, (x, y))))

end Agg

/-- The five role entries of one child (`MappingChoices`). -/
structure Roles (τ : Type) where
  left : Agg τ
  right : Agg τ
  cons : Agg τ
  seg : Agg τ
  sep : Agg τ

def Roles.empty {τ : Type} : Roles τ :=
  { left := Agg.empty, right := Agg.empty, cons := Agg.empty, seg := Agg.empty, sep := Agg.empty }

def speciesIsLeaf (S : RTree) (s : Path) : Bool :=
  match S.sub s with
  | some t => t.isLeaf
  | none => true

section

variable {α Lab : Type} [DecidableEq Lab]

/-- Classify one child cell relative to `(s, lab)` and offer it to the roles
    (the body of the loops over `desc_species` / child labels). -/
def offer (A : LabelAlg α Lab) (c : Costs) (S : RTree) (a : α) (s : Path) (lab : Lab) (ca : α)
    (r : Roles (Path × Lab)) (cell : DCell Lab) : Roles (Path × Lab) :=
  let x := cell.sp
  let tag := (x, cell.lab)
  let cv := A.conserv a lab ca cell.lab
  let sv := A.segment a lab ca cell.lab
  if Path.isAnc s x then
    let d := Path.dist s x
    let above := Cost.fin (c.floss * d)
    let r := { r with cons := r.cons.update (above + cell.cost + cv) tag,
                      seg := r.seg.update (above + cell.cost + sv) tag }
    if speciesIsLeaf S s then r
    else
      let below := Cost.fin (c.floss * (d - 1))
      if Path.isAnc (s ++ [0]) x then
        { r with left := r.left.update (below + cell.cost + cv) tag }
      else if Path.isAnc (s ++ [1]) x then
        { r with right := r.right.update (below + cell.cost + cv) tag }
      else r
  else if !Path.isAnc x s then
    { r with sep := r.sep.update (cell.cost + sv) tag }
  else r

def roles (A : LabelAlg α Lab) (c : Costs) (S : RTree) (a : α) (s : Path) (lab : Lab) (ca : α)
    (cells : List (DCell Lab)) : Roles (Path × Lab) :=
  cells.foldl (offer A c S a s lab ca) Roles.empty

/-- All candidates offered to `table[v][s][lab]`. -/
def entryCands (c : Costs) (r0 r1 : Roles (Path × Lab)) :
    List (Cost × ((Path × Lab) × (Path × Lab))) :=
  Agg.comb (.fin c.spe) r0.left r1.right ++
  Agg.comb (.fin c.spe) r0.right r1.left ++
  Agg.comb (.fin c.dup) r0.cons r1.seg ++
  Agg.comb (.fin c.dup) r0.seg r1.cons ++
  Agg.comb c.hgt r0.cons r1.sep ++
  Agg.comb c.hgt r0.sep r1.cons

def findCell (cells : List (DCell Lab)) (t : Path × Lab) : Option (DCell Lab) :=
  cells.find? (fun d => d.sp == t.1 && d.lab == t.2)

/-- Set insertion on lists. -/
def insertNew {β : Type} [DecidableEq β] (l : List β) (x : β) : List β :=
  if x ∈ l then l else l ++ [x]

def dedup {β : Type} [DecidableEq β] (l : List β) : List β := l.foldl insertNew []

/-- One table cell: minimum over the candidates, the tag pairs achieving it,
    and (when `keep`) the solutions they decode to.  `none` when no finite
    candidate exists (the `EntryProxy` is never instantiated). -/
def entry (A : LabelAlg α Lab) (c : Costs) (S : RTree) (keep : Bool) (a : α) (s : Path) (lab : Lab)
    (la ra : α) (L R : List (DCell Lab)) : Option (DCell Lab) :=
  let cands := entryCands c (roles A c S a s lab la L) (roles A c S a s lab ra R)
  let best := Cost.minList (cands.map (·.1))
  if best.isInf then none
  else
    let tags := dedup ((cands.filter (fun p => p.1 = best)).map (·.2))
    let sols :=
      if keep then
        tags.flatMap (fun t =>
          match findCell L t.1, findCell R t.2 with
          | some cl, some cr =>
            cl.sols.flatMap (fun x => cr.sols.map (fun y => LSol.node s lab x y))
          | _, _ => [])
      else []
    some { sp := s, lab := lab, cost := best, sols := sols }

/-- The whole table of an object subtree: the finite cells of its root. -/
def dpTable (A : LabelAlg α Lab) (c : Costs) (S : RTree) (keep : Bool) : ATree α → List (DCell Lab)
  | .leaf a sp =>
    [{ sp := sp, lab := A.leafLab a, cost := .fin 0,
       sols := if keep then [LSol.leaf sp (A.leafLab a)] else [] }]
  | .node a l r =>
    let L := dpTable A c S keep l
    let R := dpTable A c S keep r
    (A.allowed a).flatMap (fun s =>
      (A.labs a).filterMap (fun lab => entry A c S keep a s lab l.data r.data L R))

end

end SR
