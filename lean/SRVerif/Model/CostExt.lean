/-
  A cost (non-negative integer or `inf`) as a DP-entry value (`int` or `infinity.inf`).
  Shared by the code-structured solver models (`Model/ThlCode.lean`, `Model/SpfsCode.lean`).
-/
import SRVerif.Model.Basic

namespace SR

/-- A Python number that is a non-negative integer or `inf`, as an entry value. -/
def Cost.toExt : Cost → ExtInt
  | .fin n => .fin (n : Int)
  | .inf => .posInf

end SR
