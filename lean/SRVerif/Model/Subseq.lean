/-
  Model of `superrec2.utils.subsequences`: bitmask subsequences on `Nat`
  masks (bit `i` of a mask = position `i` of the parent sequence).
-/
import SRVerif.Model.Basic

namespace SR

/-- `subseq_complete`. -/
def subseqComplete {α : Type} (parent : List α) : Nat := 2 ^ parent.length - 1

/-- `mask_from_subseq(child, parent)`: greedy left-to-right matching.
    The result is built least-significant bit first. -/
def maskFromSubseq {α : Type} [DecidableEq α] : List α → List α → Nat
  | [], _ => 0
  | _ :: _, [] => 0
  | c :: cs, p :: ps =>
    if c = p then 1 + 2 * maskFromSubseq cs ps
    else 2 * maskFromSubseq (c :: cs) ps

/-- `subseq_from_mask(child, parent)`.  Python raises `IndexError` when a set
    bit lies beyond the parent; `none` here. -/
def subseqFromMask {α : Type} : Nat → List α → Option (List α)
  | 0, _ => some []
  | _ + 1, [] => none
  | m + 1, p :: ps =>
    match subseqFromMask ((m + 1) / 2) ps with
    | none => none
    | some r => some (if (m + 1) % 2 = 1 then p :: r else r)
decreasing_by all_goals omega

/-- `int.bit_length`. -/
def bitLength : Nat → Nat
  | 0 => 0
  | n + 1 => 1 + bitLength ((n + 1) / 2)
decreasing_by omega

/-- Loop state of `subseq_segment_dist`. -/
structure SegState where
  child : Nat
  parent : Nat
  inSegm : Bool
  dist : Int

/-- The body of the `for` loop; `none` is the early `return -1`. -/
def segStep (s : SegState) : Option SegState :=
  let bc := s.child % 2 = 1
  let bp := s.parent % 2 = 1
  if bc && !bp then none
  else
    let (dist, inSegm) :=
      if bp then
        if !bc then
          if !s.inSegm then (s.dist + 1, true) else (s.dist, s.inSegm)
        else (s.dist, false)
      else (s.dist, s.inSegm)
    some { child := s.child / 2, parent := s.parent / 2, inSegm := inSegm, dist := dist }

def segLoop : Nat → SegState → Option SegState
  | 0, s => some s
  | n + 1, s =>
    match segStep s with
    | none => none
    | some s' => segLoop n s'

/-- `subseq_segment_dist(child, parent, edges)`. -/
def subseqSegmentDist (child parent : Nat) (edges : Bool) : Int :=
  if bitLength parent < bitLength child then -1
  else
    match segLoop (bitLength parent)
        { child := child, parent := parent, inSegm := !edges, dist := 0 } with
    | none => -1
    | some s => if s.inSegm && !edges then s.dist - 1 else s.dist

end SR
