/-
  C12 — more of the glue of `cli/reconcile.py` and `cli/draw.py`
  (in addition to `Model/Cli.lean`).

  * `evalCost` — `eval_cost(cost) = eval(cost)` on a SMALL expression language:
    decimal integer literals, `+ - * //` (binary), `+ -` (unary), parentheses,
    `float('inf')` / `float("inf")`, spaces, and a fixed list of names known to be
    unbound in the module (`inf`, `infinity`, …: `--cost-hgt inf` is a `NameError`).
    The model answers with a value, `ZeroDivisionError`, `SyntaxError`, `NameError`,
    or `outside` = "not in the modelled language, no claim" (any other character or
    name, strings elsewhere, call syntax, the empty tuple, a result that is a finite
    float such as `5 // float('inf') = 0.0`).  The parser is a shunting-yard loop
    over the token list (structural recursion, no fuel); Python's evaluation order
    (left operand, right operand, operation) is that of `CExpr.eval`.
  * `costArgs` — `args.cost_*`: the options given on the command line, evaluated by
    `eval_cost` in argv order (the last occurrence wins), the others at
    `get_default_cost()`; listed in the order of `cost_events`.
  * `readDoc` — `read_input` from the parsed JSON document: keys read
    (`object_tree`, `species_tree`, `leaf_object_species`, `leaf_syntenies`; the
    `costs` key of the file is OVERWRITTEN, every other key ignored), then
    `Model/Cli.lean: readInput`.
  * `dumpResults`, `reconcileRun` — what is written where, and the status.
  * `drawOutputType`, `drawOrientation`, `drawRun` — the logic of `draw`/`output`.

  Core Lean only.
-/
import SRVerif.Model.Cli

namespace SR.Cli

open SR.Ser

/-! ## `eval_cost` -/

inductive Tok where
  | int (n : Nat)
  /-- a decimal literal with a forbidden leading zero (`01`): `SyntaxError` -/
  | badInt
  /-- `float('inf')` (after `fuseInf`) -/
  | inf
  | name (s : String)
  | str (s : List Char)
  | plus | minus | star | fdiv | lpar | rpar
  /-- anything outside the modelled alphabet -/
  | bad
  deriving DecidableEq, Repr

inductive LexSt where
  | idle
  | num (acc : List Char)
  | ident (acc : List Char)
  | str (q : Char) (acc : List Char)
  | star
  | slash
  deriving DecidableEq, Repr

def isIdentStart (c : Char) : Bool := c.isAlpha || c == '_'
def isIdentChar (c : Char) : Bool := c.isAlphanum || c == '_'

/-- A digit run (reversed): `0`, `00` are zero; other leading zeros are refused by
    Python's tokenizer. -/
def intTok (acc : List Char) : Tok :=
  let ds := acc.reverse
  match ds with
  | '0' :: _ :: _ => if ds.all (· == '0') then .int 0 else .badInt
  | _ => .int (digitsVal ds)

/-- An idle lexer meets `c`: tokens emitted and next state. -/
def idleStep (c : Char) : List Tok × LexSt :=
  if c == ' ' then ([], .idle)
  else if c.isDigit then ([], .num [c])
  else if isIdentStart c then ([], .ident [c])
  else if c == '\'' || c == '"' then ([], .str c [])
  else if c == '+' then ([.plus], .idle)
  else if c == '-' then ([.minus], .idle)
  else if c == '(' then ([.lpar], .idle)
  else if c == ')' then ([.rpar], .idle)
  else if c == '*' then ([], .star)
  else if c == '/' then ([], .slash)
  else ([.bad], .idle)

def lexGo : List Char → LexSt → List Tok
  | [], .idle => []
  | [], .num a => [intTok a]
  | [], .ident a => [.name (String.ofList a.reverse)]
  | [], .str _ _ => [.bad]
  | [], .star => [.star]
  | [], .slash => [.bad]
  | c :: cs, .idle => (idleStep c).1 ++ lexGo cs (idleStep c).2
  | c :: cs, .num a =>
    if c.isDigit then lexGo cs (.num (c :: a))
    else if isIdentChar c || c == '.' then [.bad]       -- `1_0`, `1e3`, `0x1`, `1.5`, `1j`
    else intTok a :: ((idleStep c).1 ++ lexGo cs (idleStep c).2)
  | c :: cs, .ident a =>
    if isIdentChar c then lexGo cs (.ident (c :: a))
    else .name (String.ofList a.reverse) :: ((idleStep c).1 ++ lexGo cs (idleStep c).2)
  | c :: cs, .str q a =>
    if c == q then .str a.reverse :: lexGo cs .idle
    else if c == '\\' || c == '\n' then [.bad]
    else lexGo cs (.str q (c :: a))
  | c :: cs, .star =>
    if c == '*' then [.bad]                              -- `**`
    else .star :: ((idleStep c).1 ++ lexGo cs (idleStep c).2)
  | c :: cs, .slash =>
    if c == '/' then .fdiv :: lexGo cs .idle else [.bad] -- `/` is true division

/-- `float ( 'inf' )` becomes one token. -/
def fuseInf : List Tok → List Tok
  | .name "float" :: .lpar :: .str ['i', 'n', 'f'] :: .rpar :: r => .inf :: fuseInf r
  | t :: r => t :: fuseInf r
  | [] => []

/-- Names that are bound neither in `cli/reconcile.py` nor in `builtins`, and are
    no keywords (the harness asserts this at start-up). -/
def unboundNames : List String := ["inf", "infinity", "Infinity", "nan", "x", "y", "zz"]

/-- Tokens the parser does not know what to do with. -/
def Tok.foreign : Tok → Bool
  | .bad => true
  | .str _ => true
  | .name s => !unboundNames.contains s
  | _ => false

inductive BinOp where
  | add | sub | mul | fdiv
  deriving DecidableEq, Repr

inductive CExpr where
  | lit (n : Nat)
  | inf
  | name (s : String)
  | neg (e : CExpr)
  | pos (e : CExpr)
  | bin (o : BinOp) (a b : CExpr)
  deriving DecidableEq, Repr

/-- Entries of the operator stack. -/
inductive SOp where
  | bin (o : BinOp)
  | neg
  | pos
  | lpar
  deriving DecidableEq, Repr

def BinOp.prec : BinOp → Nat
  | .add => 1
  | .sub => 1
  | .mul => 2
  | .fdiv => 2

def applyOp : SOp → List CExpr → Option (List CExpr)
  | .bin o, b :: a :: r => some (.bin o a b :: r)
  | .neg, a :: r => some (.neg a :: r)
  | .pos, a :: r => some (.pos a :: r)
  | _, _ => none

/-- Reduce while the top of the stack binds at least as tightly as a binary
    operator of precedence `p` (unary operators bind tighter than all; binary
    operators are left-associative). -/
def popWhile (p : Nat) : List SOp → List CExpr → Option (List SOp × List CExpr)
  | [], out => some ([], out)
  | .lpar :: ops, out => some (.lpar :: ops, out)
  | .neg :: ops, out => (applyOp .neg out).bind (popWhile p ops)
  | .pos :: ops, out => (applyOp .pos out).bind (popWhile p ops)
  | .bin o :: ops, out =>
    if p ≤ o.prec then (applyOp (.bin o) out).bind (popWhile p ops) else some (.bin o :: ops, out)

/-- Reduce down to the matching `(`, which is removed; `none` if there is none. -/
def popToParen : List SOp → List CExpr → Option (List SOp × List CExpr)
  | [], _ => none
  | .lpar :: ops, out => some (ops, out)
  | .neg :: ops, out => (applyOp .neg out).bind (popToParen ops)
  | .pos :: ops, out => (applyOp .pos out).bind (popToParen ops)
  | .bin o :: ops, out => (applyOp (.bin o) out).bind (popToParen ops)

/-- Reduce everything; `none` on an unclosed `(`. -/
def popAll : List SOp → List CExpr → Option (List CExpr)
  | [], out => some out
  | .lpar :: _, _ => none
  | .neg :: ops, out => (applyOp .neg out).bind (popAll ops)
  | .pos :: ops, out => (applyOp .pos out).bind (popAll ops)
  | .bin o :: ops, out => (applyOp (.bin o) out).bind (popAll ops)

inductive PRes where
  | ok (e : CExpr)
  | syntaxError
  | outside
  deriving DecidableEq, Repr

def pushBin (o : BinOp) (ops : List SOp) (out : List CExpr) : Option (List SOp × List CExpr) :=
  (popWhile o.prec ops out).map (fun r => (.bin o :: r.1, r.2))

/-- The shunting-yard loop.  `operand = true`: an operand (or a unary sign, or
    `(`) is expected; `false`: a binary operator or `)` is expected. -/
def parseGo : List Tok → List CExpr → List SOp → Bool → PRes
  | [], _, _, true => .syntaxError
  | [], out, ops, false =>
    match popAll ops out with
    | some [e] => .ok e
    | _ => .syntaxError
  | t :: ts, out, ops, true =>
    match t with
    | .int n => parseGo ts (.lit n :: out) ops false
    | .inf => parseGo ts (.inf :: out) ops false
    | .name s => parseGo ts (.name s :: out) ops false
    | .plus => parseGo ts out (.pos :: ops) true
    | .minus => parseGo ts out (.neg :: ops) true
    | .lpar => parseGo ts out (.lpar :: ops) true
    | .rpar =>
      match ops with
      | .lpar :: _ => .outside          -- `()` is the empty tuple
      | _ => .syntaxError
    | _ => .syntaxError
  | t :: ts, out, ops, false =>
    match t with
    | .plus => match pushBin .add ops out with
      | some r => parseGo ts r.2 r.1 true
      | none => .syntaxError
    | .minus => match pushBin .sub ops out with
      | some r => parseGo ts r.2 r.1 true
      | none => .syntaxError
    | .star => match pushBin .mul ops out with
      | some r => parseGo ts r.2 r.1 true
      | none => .syntaxError
    | .fdiv => match pushBin .fdiv ops out with
      | some r => parseGo ts r.2 r.1 true
      | none => .syntaxError
    | .rpar => match popToParen ops out with
      | some r => parseGo ts r.2 r.1 false
      | none => .syntaxError            -- unmatched `)`
    | .lpar => .outside                 -- call syntax `1 (2)`
    | _ => .syntaxError                 -- two operands in a row

/-- Tokens of a string. -/
def tokens (s : String) : List Tok := fuseInf (lexGo s.toList .idle)

/-- Python's tokenizer refuses `01` whatever surrounds it; other foreign material
    makes the string leave the modelled language. -/
def parseCost (s : String) : PRes :=
  let raw := lexGo s.toList .idle
  if raw.contains .bad then .outside
  else if raw.contains .badInt then .syntaxError
  else
    let ts := fuseInf raw
    if ts.any Tok.foreign then .outside else parseGo ts [] [] true

/-- Python `int` and the three non-finite `float`s. -/
inductive Val where
  | int (n : Int)
  | pinf
  | ninf
  | nan
  deriving DecidableEq, Repr

inductive EvalRes where
  | val (v : Val)
  | zeroDivision
  | syntaxError
  | nameError
  | outside
  deriving DecidableEq, Repr

def Val.neg : Val → Val
  | .int n => .int (-n)
  | .pinf => .ninf
  | .ninf => .pinf
  | .nan => .nan

def Val.add : Val → Val → Val
  | .int a, .int b => .int (a + b)
  | .nan, _ => .nan
  | _, .nan => .nan
  | .pinf, .ninf => .nan
  | .ninf, .pinf => .nan
  | .pinf, _ => .pinf
  | _, .pinf => .pinf
  | .ninf, _ => .ninf
  | _, .ninf => .ninf

def Val.sub (a b : Val) : Val := a.add b.neg

/-- Sign of a value as seen by float multiplication (`none` for `nan`). -/
def Val.sign : Val → Option Int
  | .int n => some (if n < 0 then -1 else if n = 0 then 0 else 1)
  | .pinf => some 1
  | .ninf => some (-1)
  | .nan => none

def Val.mul : Val → Val → Val
  | .int a, .int b => .int (a * b)
  | a, b =>
    match a.sign, b.sign with
    | some x, some y => if x * y = 0 then .nan else if x * y < 0 then .ninf else .pinf
    | _, _ => .nan

/-- `a // b`.  Integer floor division rounds towards minus infinity; a float
    operand makes it a float floor division: by integer or float zero it raises, a
    non-finite dividend or a `nan` gives `nan`, an integer divided by an infinity
    gives a finite float (`0.0`, `-1.0`): outside the value domain. -/
def Val.fdiv : Val → Val → EvalRes
  | _, .int 0 => .zeroDivision
  | .int a, .int b => .val (.int (Int.fdiv a b))
  | .int _, .pinf => .outside
  | .int _, .ninf => .outside
  | _, _ => .val .nan

def BinOp.apply : BinOp → Val → Val → EvalRes
  | .add, a, b => .val (a.add b)
  | .sub, a, b => .val (a.sub b)
  | .mul, a, b => .val (a.mul b)
  | .fdiv, a, b => a.fdiv b

/-- Evaluation in Python's order: left operand, right operand, operation. -/
def CExpr.eval : CExpr → EvalRes
  | .lit n => .val (.int n)
  | .inf => .val .pinf
  | .name _ => .nameError
  | .neg e => match e.eval with
    | .val v => .val v.neg
    | r => r
  | .pos e => e.eval
  | .bin o a b =>
    match a.eval with
    | .val x =>
      match b.eval with
      | .val y => o.apply x y
      | r => r
    | r => r

/-- `eval_cost`. -/
def evalCost (s : String) : EvalRes :=
  match parseCost s with
  | .ok e => e.eval
  | .syntaxError => .syntaxError
  | .outside => .outside

/-- A value as a cost of the models (`int ≥ 0` or `inf`); the command line accepts
    any value, the other ones are outside every property. -/
def Val.toCost : Val → Option Cost
  | .int n => if 0 ≤ n then some (.fin n.toNat) else none
  | .pinf => some .inf
  | _ => none

/-! ## The cost options -/

/-- `get_default_cost()[kind]`. -/
def defaultOf (cls member : String) : Nat :=
  match Gen.defaultCost.find? (fun x => x.1 == cls && x.2.1 == member) with
  | some x => x.2.2
  | none => 0

/-- `type=eval_cost` applied to every `--cost-*` occurrence in argv order; the
    first exception propagates (argparse only catches `ArgumentTypeError`,
    `TypeError`, `ValueError`). -/
def evalOpts : List (String × String) → Except EvalRes (List (String × Val))
  | [] => .ok []
  | (k, s) :: r =>
    match evalCost s with
    | .val v =>
      match evalOpts r with
      | .ok l => .ok ((k, v) :: l)
      | .error e => .error e
    | e => .error e

/-- `dict((kind, getattr(args, f"cost_{argname}")) for kind, (argname, _) in
    cost_events.items())` — `opts` are the `--cost-<suffix> <expr>` pairs of argv. -/
def costArgs (opts : List (String × String)) : Except EvalRes (List (Event × Val)) :=
  match evalOpts opts with
  | .error e => .error e
  | .ok ev => .ok (Gen.costEvents.map (fun x =>
      (eventOfClass x.1 x.2.1,
        match ev.reverse.lookup x.2.2 with
        | some v => v
        | none => Val.int (defaultOf x.1 x.2.1))))

/-- The cost vector in the models' domain, when every value is in it. -/
def costValues (l : List (Event × Val)) : Option CostValues :=
  l.mapM (fun x => x.2.toCost.map (fun c => (x.1, c)))

/-! ## `read_input` from the parsed document -/

/-- A JSON value (`json.load`); objects in key order. -/
inductive JV where
  | null
  | bool (b : Bool)
  | num (n : Int)
  | str (s : String)
  | arr (l : List JV)
  | obj (l : List (String × JV))
  deriving Repr, Inhabited

def JV.asStr : JV → Option String
  | .str s => some s
  | _ => none

def JV.asStrMap : JV → Option (List (String × String))
  | .obj l => l.mapM (fun x => x.2.asStr.map (fun s => (x.1, s)))
  | _ => none

def JV.asStrList : JV → Option (List String)
  | .arr l => l.mapM JV.asStr
  | _ => none

def JV.asSynMap : JV → Option (List (String × List String))
  | .obj l => l.mapM (fun x => x.2.asStrList.map (fun s => (x.1, s)))
  | _ => none

inductive DocErr where
  | ser (e : Err)
  /-- a value of another JSON type than the documented one: no claim on the
      exception class -/
  | illTyped
  deriving DecidableEq, Repr

def liftSer {α : Type} : Except Err α → Except DocErr α
  | .ok a => .ok a
  | .error e => .error (.ser e)

/-- `data[key]` for a documented string key. -/
def docStr (doc : List (String × JV)) (k : String) : Except DocErr String :=
  match doc.lookup k with
  | none => .error (.ser .keyError)
  | some v => match v.asStr with
    | some s => .ok s
    | none => .error .illTyped

/-- `data[key] if key in data`. -/
def docOpt {α : Type} (doc : List (String × JV)) (k : String) (conv : JV → Option α) :
    Except DocErr (Option α) :=
  match doc.lookup k with
  | none => .ok none
  | some v => match conv v with
    | some a => .ok (some a)
    | none => .error .illTyped

/-- The dictionary `_from_dict` sees: `object_tree` is looked up and parsed before
    `species_tree` is looked up; `costs` is whatever `read_input` has put there
    (passed separately); every other key is ignored. -/
def docToDict (read : String → Option NT) (doc : List (String × JV)) : Except DocErr InputDict := do
  let ots ← docStr doc "object_tree"
  let _ ← liftSer (readTree read ots)
  let sts ← docStr doc "species_tree"
  let _ ← liftSer (readTree read sts)
  let los ← docOpt doc "leaf_object_species" JV.asStrMap
  let ls ← docOpt doc "leaf_syntenies" JV.asSynMap
  pure { object_tree := ots, species_tree := sts, leaf_object_species := los, costs := none,
         leaf_syntenies := ls }

/-- `read_input(args)` on the parsed document and the evaluated cost options. -/
def readDoc (read : String → Option NT) (doc : List (String × JV)) (argCosts : CostValues) :
    Except DocErr AnyInput := do
  let d ← docToDict read doc
  liftSer (readInput read d argCosts)

/-! ## `call_algorithm`'s messages, `dump_results`, `reconcile` -/

/-- `print(x)` of a cost (`int`, `float('inf')` or `infinity.inf`). -/
def showCost : Cost → String
  | .fin n => toString n
  | .inf => "inf"

def warnText (algo : String) : String :=
  "Warning: '" ++ algo ++ "' is not a super-reconciliation algorithm: declared leaf syntenies will be ignored"

def errorText (algo : String) : String :=
  "Error: '" ++ algo ++ "' is a super-reconciliation algorithm: you need to provide leaf syntenies"

def minCostText (c : Cost) : String := "Minimum cost: " ++ showCost c

/-- `dump_results`: `json.dump(result.to_dict(), out); print(file=out)` per result. -/
def dumpResults {ρ : Type} (enc : ρ → String) (results : List ρ) : String :=
  String.join (results.map (fun r => enc r ++ "\n"))

structure RunOut where
  status : Nat
  stderr : List String
  stdout : String
  deriving DecidableEq, Repr

/-- `reconcile(args)` after `read_input`: `results` is what the algorithm returns
    when it is called (as a list: `None` = `[]`, a single output = one element, a
    set = its iteration order), `cost` is `result.cost()`. -/
def reconcileRun {ρ : Type} (algo : String) (r : CallResult) (results : List ρ) (cost : ρ → Cost)
    (enc : ρ → String) : RunOut :=
  match r with
  | .rejected => ⟨2, [], ""⟩
  | .errorNeedsSyntenies => ⟨1, [errorText algo], ""⟩
  | .unsupportedSignature => ⟨1, [], ""⟩
  | .run warn _ =>
    let w := if warn then [warnText algo] else []
    match results with
    | [] => ⟨1, w, ""⟩
    | x :: _ => ⟨0, w ++ [minCostText (cost x)], dumpResults enc results⟩

/-! ## `draw` -/

/-- `Orientation[args.orientation.upper()]` behind `choices=("vertical", "horizontal")`,
    default `horizontal`; `none` = refused by argparse. -/
def drawOrientation (opt : Option String) : Option String :=
  match opt with
  | none => some "HORIZONTAL"
  | some s => if s == "vertical" || s == "horizontal" then some (upper s) else none

inductive OutType where
  | tikz
  | pdf
  deriving DecidableEq, Repr

/-- `output`: the kind of output.  `given` is the positional `TYPE` argument (argparse
    has checked it against `("tikz", "pdf")`), `name` is `args.output.name` (`"-"` for
    stdout).  `none`: "Error: Unknown file extension…", status 1. -/
def drawOutputType (given : Option OutType) (name : String) : Option OutType :=
  match given with
  | some t => some t
  | none =>
    if name == "-" || name.endsWith ".tex" then some .tikz
    else if name.endsWith ".pdf" then some .pdf
    else none

/-- Status of `draw` once the TikZ code exists: `texOk` tells whether XeLaTeX
    succeeds (only consulted for pdf output). -/
def drawStatus (given : Option OutType) (name : String) (texOk : Bool) : Nat :=
  match drawOutputType given name with
  | none => 1
  | some .tikz => 0
  | some .pdf => if texOk then 0 else 1

end SR.Cli
