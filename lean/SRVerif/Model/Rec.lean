/-
  Model of `superrec2.model.reconciliation`: events and the cost evaluator
  (`node_event`, `_cost_rec`, `_ordered_labeling_cost`,
  `_unordered_labeling_cost`, `cost`).

  Species are paths in the species tree (see `Model/Paths.lean`, C17).
  An input object tree is `OTree`; a (super-)reconciliation is a `Sol`: the
  object tree annotated with a species (and a synteny) at every node.
-/
import SRVerif.Model.Paths
import SRVerif.Model.Subseq

namespace SR

/-- Unit costs.  Only the transfer cost may be infinite. -/
structure Costs where
  spe : Nat
  dup : Nat
  hgt : Cost
  floss : Nat
  sloss : Nat
  deriving Repr, DecidableEq

/-- Binary object tree with the input data of the leaves: species and
    (for super-reconciliation) synteny as a list of family ids. -/
inductive OTree where
  | leaf (sp : Path) (fam : List Nat)
  | node (l r : OTree)
  deriving Repr, DecidableEq, Inhabited

/-- A solution: the object tree annotated with species and syntenies. -/
inductive Sol where
  | leaf (sp : Path) (fam : List Nat)
  | node (sp : Path) (fam : List Nat) (l r : Sol)
  deriving Repr, DecidableEq, Inhabited

namespace Sol

def sp : Sol → Path
  | leaf s _ => s
  | node s _ _ _ => s

def fam : Sol → List Nat
  | leaf _ f => f
  | node _ f _ _ => f

end Sol

inductive Event where
  | leaf | invalid | spec | dup | hgt
  deriving Repr, DecidableEq

/-- `node_event` at an internal node mapped to `s` whose children are mapped
    to `a` and `b`. -/
def internalEvent (s a b : Path) : Event :=
  if Path.isStrictAnc a s || Path.isStrictAnc b s then .invalid
  else if Path.isAnc s a && Path.isAnc s b then
    if s == Path.lcp a b && !Path.comparable a b then .spec else .dup
  else if Path.isAnc s a || Path.isAnc s b then .hgt
  else .invalid

/-- `node_event` of the root of a solution, against the input tree. -/
def nodeEvent : OTree → Sol → Event
  | .leaf given _, .leaf s _ => if s == given then .leaf else .invalid
  | .node _ _, .node s _ l r => internalEvent s l.sp r.sp
  | _, _ => .invalid

/-- The part of `_cost_rec` local to one internal node: event cost plus full
    losses on the (vertical) child branches. -/
def localRecCost (c : Costs) (s a b : Path) : Cost :=
  match internalEvent s a b with
  | .spec => .fin (c.spe + c.floss * (Path.dist s a + Path.dist s b - 2))
  | .dup => .fin (c.dup + c.floss * (Path.dist s a + Path.dist s b))
  | .hgt =>
    c.hgt + .fin (c.floss * (if Path.isAnc s a then Path.dist s a else Path.dist s b))
  | _ => .inf

/-- `ReconciliationOutput.cost()` (`_cost_rec`). -/
def recCost (c : Costs) : OTree → Sol → Cost
  | .leaf given _, .leaf s _ => if s == given then .fin 0 else .inf
  | .node ol or, .node s _ l r =>
    match internalEvent s l.sp r.sp with
    | .invalid => .inf
    | _ => localRecCost c s l.sp r.sp + (recCost c ol l + recCost c or r)
  | _, _ => .inf

/-- Sum of two segment distances, `none` as soon as one of them is negative
    (the child is not a subsequence: the Python value is then meaningless). -/
def addDist (a b : Int) : Option Nat :=
  if a < 0 || b < 0 then none else some (a.toNat + b.toNat)

/-- The number of segmental losses charged at one internal node in the
    ordered model; masks are relative to the root order. -/
def localOrdLosses (ev : Event) (keepLeft : Bool) (m ml mr : Nat) : Option Nat :=
  match ev with
  | .spec => addDist (subseqSegmentDist ml m true) (subseqSegmentDist mr m true)
  | .dup =>
    match addDist (subseqSegmentDist ml m true) (subseqSegmentDist mr m false),
          addDist (subseqSegmentDist ml m false) (subseqSegmentDist mr m true) with
    | some x, some y => some (Nat.min x y)
    | _, _ => none
  | .hgt => addDist (subseqSegmentDist ml m keepLeft) (subseqSegmentDist mr m !keepLeft)
  | _ => none

/-- `_ordered_labeling_cost`, in units of the segmental loss cost: the sum
    over internal nodes in pre-order.  `rootSyn` is the root's synteny,
    `m` the mask of the current node (complete mask for the root). -/
def ordLosses (rootSyn : List Nat) : Nat → Sol → Option Nat
  | _, .leaf _ _ => some 0
  | m, .node s _ l r =>
    let ml := maskFromSubseq l.fam rootSyn
    let mr := maskFromSubseq r.fam rootSyn
    let ev := internalEvent s l.sp r.sp
    match localOrdLosses ev (Path.comparable s l.sp) m ml mr,
          ordLosses rootSyn ml l, ordLosses rootSyn mr r with
    | some a, some b, some d => some (a + b + d)
    | _, _, _ => none

def subsetB (a b : List Nat) : Bool := a.all (fun x => b.contains x)

/-- Losses charged at one internal node in the unordered model. -/
def localUnordLosses (ev : Event) (keepLeft : Bool) (f fl fr : List Nat) : Option Nat :=
  let lc := if subsetB f fl then 0 else 1
  let rc := if subsetB f fr then 0 else 1
  match ev with
  | .spec => some (lc + rc)
  | .dup => some (Nat.min lc rc)
  | .hgt => some (if keepLeft then lc else rc)
  | _ => none

/-- `_unordered_labeling_cost`, in units of the segmental loss cost. -/
def unordLosses : Sol → Option Nat
  | .leaf _ _ => some 0
  | .node s f l r =>
    match localUnordLosses (internalEvent s l.sp r.sp) (Path.comparable s l.sp) f l.fam r.fam,
          unordLosses l, unordLosses r with
    | some a, some b, some d => some (a + b + d)
    | _, _, _ => none

inductive LabelMode where
  | plain | ordered | unordered
  deriving Repr, DecidableEq

/-- `labeling_cost()`: `none` when the Python code asserts or yields a
    meaningless (negative-distance) value, i.e. on invalid labellings. -/
def labelingCost (c : Costs) (mode : LabelMode) (sol : Sol) : Option Nat :=
  match mode with
  | .plain => some 0
  | .ordered => (ordLosses sol.fam (subseqComplete sol.fam) sol).map (· * c.sloss)
  | .unordered => (unordLosses sol).map (· * c.sloss)

/-- `cost()` of a (super-)reconciliation output; invalid labellings map to
    `inf` here (Python raises or returns a meaningless number). -/
def totalCost (c : Costs) (mode : LabelMode) (o : OTree) (sol : Sol) : Cost :=
  match labelingCost c mode sol with
  | some k => recCost c o sol + .fin k
  | none => .inf

end SR
