/-
  Model of `superrec2.utils.dynamic_programming`:
  `Entry.update`, `Entry.combine`, and the lazily instantiated table cells
  (`EntryProxy`).  Python sets of tags are duplicate-free lists.
-/
import SRVerif.Model.Basic

namespace SR

inductive Merge where
  | min | max
  deriving DecidableEq, Repr

inductive Retain where
  | none | any | all
  deriving DecidableEq, Repr

/-- `Candidate(value, info)`; `info = none` is Python's `None` (tags in scope
    are `None` or truthy, so truthiness is `isSome`). -/
structure Cand (τ : Type) where
  value : ExtInt
  info : Option τ
  deriving Repr

structure Entry (τ : Type) where
  value : ExtInt
  infos : List τ
  merge : Merge
  retain : Retain
  deriving Repr

namespace Entry

variable {τ : Type} [DecidableEq τ]

/-- `Entry(merge_policy, retention_policy)`. -/
def init (m : Merge) (r : Retain) : Entry τ :=
  { value := if m = .min then .posInf else .negInf, infos := [], merge := m, retain := r }

/-- Set insertion. -/
def insert (t : τ) (l : List τ) : List τ := if t ∈ l then l else l ++ [t]

/-- Does `v` strictly improve on `cur` under the merge policy? -/
def better (m : Merge) (cur v : ExtInt) : Bool :=
  match m with
  | .min => ExtInt.lt v cur
  | .max => ExtInt.lt cur v

/-- One iteration of the loop of `Entry.update`.  The two `if`s of the Python
    code are mutually exclusive (`==` versus strict comparison). -/
def update1 (e : Entry τ) (c : Cand τ) : Entry τ :=
  if e.value = c.value then
    match c.info with
    | some t =>
      if e.retain = .all || (e.retain = .any && e.infos.isEmpty)
      then { e with infos := insert t e.infos }
      else e
    | none => e
  else if better e.merge e.value c.value then
    match c.info with
    | some t =>
      if e.retain = .all || e.retain = .any
      then { e with value := c.value, infos := [t] }
      else { e with value := c.value, infos := [] }
    | none => { e with value := c.value, infos := [] }
  else e

/-- `Entry.update(*candidates)`. -/
def update (e : Entry τ) (cs : List (Cand τ)) : Entry τ := cs.foldl update1 e

end Entry

/-- `Entry.combine`: the product of the retained tags, each pair turned into a
    candidate by the combinator and offered to a fresh entry. -/
def Entry.combine {τ σ : Type} [DecidableEq σ]
    (a b : Entry τ) (f : ExtInt → τ → ExtInt → τ → Cand σ) : Entry σ :=
  let pairs := a.infos.flatMap (fun x => b.infos.map (fun y => (x, y)))
  Entry.update (Entry.init a.merge a.retain) (pairs.map (fun p => f a.value p.1 b.value p.2))

/-- A table cell behind an `EntryProxy`: `none` until a batch containing a
    finite candidate is written. -/
abbrev Cell (τ : Type) := Option (Entry τ)

namespace Cell

variable {τ : Type} [DecidableEq τ]

/-- `EntryProxy.update`: a batch whose candidates are all infinite is dropped;
    otherwise the cell is instantiated if needed and receives the whole batch. -/
def update (m : Merge) (r : Retain) (c : Cell τ) (batch : List (Cand τ)) : Cell τ :=
  if batch.any (fun x => !x.value.isInfinite) then
    some (Entry.update (c.getD (Entry.init m r)) batch)
  else c

def value (m : Merge) : Cell τ → ExtInt
  | some e => e.value
  | none => if m = .min then .posInf else .negInf

def infos : Cell τ → List τ
  | some e => e.infos
  | none => []

end Cell

end SR
