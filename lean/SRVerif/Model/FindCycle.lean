/-
  Model of `find_cycle` (`superrec2/utils/toposort.py:116-150`), following
  the code that exists (NOT an idealised cycle finder — see
  `Properties/C19Cycle.lean` for what it does and does not guarantee).

      stack = []; parents = {}; cycle_start = None
      initial = next(iter(graph.keys()))          # StopIteration on {}
      stack.append(initial); parents[initial] = initial
      while stack and cycle_start is None:
          current = stack.pop()
          for neighbor in graph[current]:         # KeyError if not a key
              if neighbor in parents:
                  parents[neighbor] = current; cycle_start = neighbor; break
              parents[neighbor] = current; stack.append(neighbor)
      if cycle_start is None: return None
      cycle = [cycle_start]; current = parents[cycle_start]
      while current not in (cycle_start, parents[current]):
          cycle.append(current); current = parents[current]
      return cycle

  Core Lean only.  The `parents` dict is an association list in which the
  most recent assignment comes first (`List.lookup` finds it; the dict is
  never iterated, so insertion order is irrelevant).  The stack is a list
  whose HEAD is the top (`list.append` = cons, `list.pop` = head/tail).  Successor
  collections are iterated in list order (Python: set iteration order; the
  harness passes lists, or sets of small ints whose iteration order is
  ascending, when it compares for equality).
-/
import SRVerif.Model.Toposort

namespace SR.Toposort

/-- What `find_cycle` can raise, plus fuel exhaustion (never happens on
    well-formed graphs: `Proofs/FindCycleAlg.lean`). -/
inductive CErr where
  | stopIteration
  | keyError
  | fuel
  deriving DecidableEq, Repr

/-- The `parents` dict: `(node, parent)`, most recent assignment first. -/
abbrev Parents := List (Nat × Nat)

/-- Outcome of the `for neighbor in graph[current]` loop. -/
structure ScanOut where
  parents : Parents
  stack : List Nat
  /-- `cycle_start` (`some` = the `break` was taken) -/
  found : Option Nat
  deriving DecidableEq, Repr

/-- `for neighbor in graph[current]: …` on the remaining neighbours. -/
def scan (cur : Nat) : List Nat → Parents → List Nat → ScanOut
  | [], P, S => ⟨P, S, none⟩
  | v :: vs, P, S =>
    if (P.lookup v).isSome then ⟨(v, cur) :: P, S, some v⟩
    else scan cur vs ((v, cur) :: P) (v :: S)

/-- `while stack and cycle_start is None:`; returns the final `parents`
    and `cycle_start`.  `fuel` bounds the number of iterations. -/
def dfsLoop (g : Graph) : Nat → Parents → List Nat → Except CErr (Parents × Option Nat)
  | 0, _, _ => .error .fuel
  | fuel + 1, P, S =>
    match S with
    | [] => .ok (P, none)
    | cur :: rest =>
      match g.lookup cur with
      | none => .error .keyError
      | some succs =>
        match scan cur succs P rest with
        | ⟨P', _, some c⟩ => .ok (P', some c)
        | ⟨P', S', none⟩ => dfsLoop g fuel P' S'

/-- `while current not in (cycle_start, parents[current]): cycle.append(current);
    current = parents[current]` (the tuple is built first, so `parents[current]`
    is evaluated even when `current == cycle_start`). -/
def climb (P : Parents) (start : Nat) : Nat → Nat → List Nat → Except CErr (List Nat)
  | 0, _, _ => .error .fuel
  | fuel + 1, cur, acc =>
    match P.lookup cur with
    | none => .error .keyError
    | some p =>
      if cur = start ∨ cur = p then .ok acc
      else climb P start fuel p (acc ++ [cur])

/-- `find_cycle(graph)`. -/
def findCycle (g : Graph) : Except CErr (Option (List Nat)) :=
  match g with
  | [] => .error .stopIteration
  | (i, _) :: _ =>
    match dfsLoop g (g.length + 1) [(i, i)] [i] with
    | .error e => .error e
    | .ok (_, none) => .ok none
    | .ok (P, some c) =>
      match P.lookup c with
      | none => .error .keyError
      | some p =>
        match climb P c (g.length + 1) p [c] with
        | .error e => .error e
        | .ok cyc => .ok (some cyc)

end SR.Toposort
