/-
  C12 — model of the command-line layer (`cli/reconcile.py`, `cli/draw.py`) and of
  `ReconciliationInput.label_internal`.

  * `labelNames` is the loop of `label_internal` over the pre-order sequence of
    node names: the tree is searched LIVE (`f"O{next}" in tree` sees the names
    given earlier in the same pass), and `next` is NOT incremented after a name
    is given — the next unnamed node tests the same index again, finds it taken,
    and moves on.  The `while` loop has fuel `#names + 1` (`Proofs/Cli.lean`:
    the fuel is never exhausted).
  * `callAlgorithm` is the dispatch of `call_algorithm` on the parameter
    annotations of the registered function, over the registry GENERATED from the
    source (`Generated/Registry.lean`).
  * `get_species_mapping` is in `Model/Serialize.lean` (`from_dict` needs it).

  Core Lean only.
-/
import SRVerif.Model.Serialize

namespace SR.Cli

open SR.Ser

/-! ## `label_internal` -/

/-- `not node.name or node.name == "NoName"`. -/
def isUnnamed (s : String) : Bool := s == "" || s == "NoName"

/-- `f"{prefix}{k}"`. -/
def mkName (pfx : String) (k : Nat) : String := pfx ++ toString k

/-- `while f"O{next}" in tree: next += 1` with fuel. -/
def findFree (pfx : String) (names : List String) : Nat → Nat → Nat
  | 0, next => next
  | fuel + 1, next =>
    if names.contains (mkName pfx next) then findFree pfx names fuel (next + 1) else next

/-- The `for node in tree.traverse("preorder")` loop: `done` are the names of the
    nodes already visited (as they are now), `todo` those still to visit. -/
def labelGo (pfx : String) : List String → List String → Nat → List String
  | done, [], _ => done
  | done, nm :: todo, next =>
    if isUnnamed nm then
      let all := done ++ nm :: todo
      let k := findFree pfx all (all.length + 1) next
      labelGo pfx (done ++ [mkName pfx k]) todo k
    else
      labelGo pfx (done ++ [nm]) todo next

/-- Names after the pass, in pre-order. -/
def labelNames (pfx : String) (names : List String) : List String := labelGo pfx [] names 0

mutual
  /-- Rename the nodes in pre-order with the given names; returns the unused names. -/
  def setNames : NT → List String → NT × List String
    | .node n c cs, [] => (.node n c cs, [])
    | .node _ c cs, x :: r =>
      let res := setNamesL cs r
      (.node x c res.1, res.2)
  def setNamesL : List NT → List String → List NT × List String
    | [], l => ([], l)
    | c :: cs, l =>
      let r1 := setNames c l
      let r2 := setNamesL cs r1.2
      (r1.1 :: r2.1, r2.2)
end

/-- One of the two loops of `label_internal` on a tree. -/
def labelTree (pfx : String) (t : NT) : NT := (setNames t (labelNames pfx t.names)).1

/-- `ReconciliationInput.label_internal`: `O#` on the object tree, `S#` on the species tree
    (the mappings are keyed by nodes, which renaming does not move). -/
def labelInternal (x : RecInput) : RecInput :=
  { x with objectTree := labelTree "O" x.objectTree, speciesTree := labelTree "S" x.speciesTree }

def labelInternalAny : AnyInput → AnyInput
  | .plain i => .plain (labelInternal i)
  | .super i => .super { i with base := labelInternal i.base }

/-! ## `read_input` -/

/-- `read_input`: the class is chosen on the presence of `leaf_syntenies`; the costs come
    from the command line (keyed by the enumeration members themselves); then `label_internal`. -/
def readInput (read : String → Option NT) (d : InputDict) (argCosts : CostValues) :
    Except Err AnyInput := do
  let inp ← match d.leaf_syntenies with
    | some _ => do
      let i ← SRecInput.fromDict read { d with costs := none }
      pure (AnyInput.super { i with base := { i.base with costs := Dict.ofList argCosts } })
    | none => do
      let i ← RecInput.fromDict read { d with costs := none }
      pure (AnyInput.plain { i with costs := Dict.ofList argCosts })
  pure (labelInternalAny inp)

/-! ## `call_algorithm` -/

inductive InputKind where
  | plain   -- `type(rec_input) is ReconciliationInput`
  | super   -- `type(rec_input) is SuperReconciliationInput`
  deriving DecidableEq, Repr

def InputKind.className : InputKind → String
  | .plain => "ReconciliationInput"
  | .super => "SuperReconciliationInput"

def AnyInput.kind : AnyInput → InputKind
  | .plain _ => .plain
  | .super _ => .super

inductive CallResult where
  /-- argparse refuses the algorithm name or the policy (exit status 2, nothing runs). -/
  | rejected
  /-- "Error: … is a super-reconciliation algorithm: you need to provide leaf syntenies";
      `call_algorithm` returns `None`. -/
  | errorNeedsSyntenies
  /-- The algorithm is called, after the warning about ignored syntenies if `warn`, with
      `RetentionPolicy.<policy>` if it takes one. -/
  | run (warn : Bool) (policy : Option String)
  /-- The final `else: return None` (a registered function of another arity). -/
  | unsupportedSignature
  deriving DecidableEq, Repr

def upper (s : String) : String := String.ofList (s.toList.map Char.toUpper)

/-- `call_algorithm` up to the call of the algorithm. -/
def callAlgorithm (reg : List (String × String × List String)) (choices policies : List String)
    (algo : String) (kind : InputKind) (solutions : String) : CallResult :=
  match reg.lookup algo with
  | none => .rejected
  | some (ann, rest) =>
    if !choices.contains solutions then .rejected else
    let mismatch := ann != kind.className
    if mismatch && ann != "ReconciliationInput" then .errorNeedsSyntenies else
    match rest with
    | [] => .run mismatch none
    | [p] =>
      if p == "RetentionPolicy" && policies.contains (upper solutions) then
        .run mismatch (some (upper solutions))
      else .unsupportedSignature
    | _ => .unsupportedSignature

/-- The dispatch on the registry of the source. -/
def dispatch (algo : String) (kind : InputKind) (solutions : String) : CallResult :=
  callAlgorithm Gen.algorithms Gen.solutionChoices Gen.retentionPolicies algo kind solutions

/-- What `reconcile` does with the outcome: exit status, whether "Minimum cost:" is printed,
    and the lines written (`dump_results`: one JSON object per result, each followed by a
    newline).  `results` are the solutions the algorithm returns when it is called. -/
def reconcileOutcome {ρ : Type} (r : CallResult) (results : List ρ) (enc : ρ → String) :
    Nat × Bool × List String :=
  match r with
  | .rejected => (2, false, [])
  | .errorNeedsSyntenies => (1, false, [])
  | .unsupportedSignature => (1, false, [])
  | .run _ _ =>
    match results with
    | [] => (1, false, [])                      -- `if not results: return None`
    | _ :: _ => (0, true, results.map enc)      -- `dump_results` returns None: status 0

/-! ## `draw` -/

inductive AnyOutput where
  | plain (o : RecOutput)
  | super (o : SRecOutput)
  deriving DecidableEq, Repr

/-- `generate_tikz`: the class is chosen on the presence of `syntenies`. -/
def drawRead (read : String → Option NT) (d : OutputDict) : Except Err AnyOutput :=
  match d.syntenies with
  | some _ => do pure (.super (← SRecOutput.fromDict read d))
  | none => do pure (.plain (← RecOutput.fromDict read d))

end SR.Cli
