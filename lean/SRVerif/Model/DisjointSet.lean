/-
  Model of `superrec2.utils.disjoint_set.DisjointSet` (union-find with path
  compression and union by rank), following the code line by line.

  * `parent`, `rank` are the two Python lists, `groups` the counter.
  * `find` compresses paths exactly like the recursive Python method and
    therefore returns the updated structure together with the representative.
    The recursion is bounded by fuel = number of elements; that this suffices
    on every structure reachable from `init` is `SR.DS.findAux_rootOf`
    (Proofs/DisjointSet.lean).
  * `unite` = union by rank with the code's tie rule (first root wins and its
    rank is incremented).
  * `toList` = `to_list()`: groups in increasing order of representative,
    members ascending (the finds it performs mutate the structure).
  * `binary` = `binary()`; the Python `list(set(find(i) for i in range(n)))`
    is modelled as the increasing duplicate-free list of representatives
    (CPython iterates a set of small non-negative ints in increasing order as
    long as they are smaller than the hash-table size; see the check module).

  Indices out of range raise `IndexError` in Python; the model is total
  (an out-of-range element is its own root) and the driver guards the range.
  Core Lean only.
-/

namespace SR

structure DS where
  parent : List Nat
  rank : List Nat
  groups : Nat
  deriving Repr, DecidableEq, Inhabited

namespace DS

/-- `DisjointSet(count)`. -/
def init (n : Nat) : DS := ⟨List.range n, List.replicate n 0, n⟩

def size (d : DS) : Nat := d.parent.length

/-- `self.parent[i]` (own root when out of range). -/
def par (d : DS) (i : Nat) : Nat := d.parent.getD i i

/-- `self.rank[i]`. -/
def rk (d : DS) (i : Nat) : Nat := d.rank.getD i 0

/-- `self.parent[e] = r`. -/
def setParent (d : DS) (e r : Nat) : DS := { d with parent := d.parent.set e r }

/-- The recursive `find`, with path compression. -/
def findAux : Nat → DS → Nat → DS × Nat
  | 0, d, e => (d, e)
  | fuel + 1, d, e =>
    if d.par e = e then (d, e)
    else
      let p := findAux fuel d (d.par e)
      (p.1.setParent e p.2, p.2)

/-- `find(element)`: the updated structure and the representative. -/
def find (d : DS) (e : Nat) : DS × Nat := findAux d.size d e

/-- `unite(first, second)`: the updated structure and the returned flag. -/
def unite (d : DS) (a b : Nat) : DS × Bool :=
  let p1 := d.find a
  let p2 := p1.1.find b
  let ra := p1.2
  let rb := p2.2
  let d2 := p2.1
  if ra = rb then (d2, false)
  else
    let d3 : DS :=
      if d2.rk ra = d2.rk rb then
        { parent := d2.parent.set rb ra, rank := d2.rank.set ra (d2.rk ra + 1), groups := d2.groups }
      else if d2.rk ra > d2.rk rb then d2.setParent rb ra
      else d2.setParent ra rb
    ({ d3 with groups := d3.groups - 1 }, true)

/-- One iteration of the loop of `to_list`: `result[find(i)].append(i)`. -/
def toListStep (acc : DS × List (List Nat)) (i : Nat) : DS × List (List Nat) :=
  let p := acc.1.find i
  (p.1, acc.2.modify p.2 (· ++ [i]))

/-- `to_list()`: the updated structure and the list of groups. -/
def toList (d : DS) : DS × List (List Nat) :=
  let p := (List.range d.size).foldl toListStep (d, List.replicate d.size [])
  (p.1, p.2.filter (fun g => !g.isEmpty))

/-- The finds of `set(self.find(i) for i in range(n))`: updated structure and
    the representatives in order of `i`. -/
def repsStep (acc : DS × List Nat) (i : Nat) : DS × List Nat :=
  let p := acc.1.find i
  (p.1, acc.2 ++ [p.2])

def allReps (d : DS) : DS × List Nat :=
  (List.range d.size).foldl repsStep (d, [])

/-- `list(set(...))`: increasing, duplicate-free. -/
def sortedReps (d : DS) : DS × List Nat :=
  let p := allReps d
  (p.1, (List.range d.size).filter (fun r => p.2.contains r))

/-- The inner `_binary(partition, groups, first, second)`. -/
def binGo : List Nat → DS → Option Nat → Option Nat → List DS
  | [], p, some _, some _ => [p]
  | [], _, _, _ => []
  | g :: gs, p, some f, some s =>
      binGo gs (p.unite f g).1 (some f) (some s) ++ binGo gs (p.unite s g).1 (some f) (some s)
  | g :: gs, p, some f, none =>
      binGo gs (p.unite f g).1 (some f) none
        ++ (if g > f then binGo gs p (some f) (some g) else [])
  | g :: gs, p, none, some s =>
      (if g < s then binGo gs p (some g) (some s) else [])
        ++ binGo gs (p.unite s g).1 none (some s)
  | g :: gs, p, none, none =>
      binGo gs p (some g) none ++ binGo gs p none (some g)

/-- `binary()`. -/
def binary (d : DS) : List DS :=
  let p := sortedReps d
  binGo p.2 p.1 none none

/-- A history of public operations. -/
inductive Op where
  | unite (a b : Nat)
  | find (a : Nat)
  deriving Repr, DecidableEq

def step (d : DS) : Op → DS
  | .unite a b => (d.unite a b).1
  | .find a => (d.find a).1

/-- The structure after a history, starting from `DisjointSet(n)`. -/
def run (n : Nat) (ops : List Op) : DS := ops.foldl step (init n)

/-- The unions of a history. -/
def pairsOf : List Op → List (Nat × Nat)
  | [] => []
  | .unite a b :: ops => (a, b) :: pairsOf ops
  | .find _ :: ops => pairsOf ops

end DS

end SR
