/-
  C09 (outgroup) — "The minimum cost is unchanged by adding an outgroup species
  that carries no object."

  Model of the change: the new species tree is `S.withOutgroup = node [S, node []]`
  (new root `[]`, old tree below child 0, empty outgroup leaf `[1]`); every old
  species `p` is renamed `Path.og p = 0 :: p`, so the new input is `o.mapSp Path.og`.
  Helpers: `Proofs/Outgroup.lean` (and the path-embedding theory of `Proofs/SwapSp.lean`).

  * `C09_outgroup_embed`   embedding a solution keeps cost and validity — all modes, all costs;
  * `C09_outgroup_le`      hence new minimum ≤ old minimum — all modes, all costs, no hypothesis;
  * `C09_outgroup_species` a valid solution over the new tree never uses the outgroup leaf:
                           every node sits at the new root or at an old species;
  * `C09_outgroup_project` projecting (`[] ↦ []`, `0 :: q ↦ q`) keeps validity and does not
                           increase the cost, provided `spe + k·sloss ≤ dup + 4·floss`
                           (`k = ogSlack mode` = 0 plain, 2 ordered, 1 unordered);
  * `C09_outgroup`         under that hypothesis: the minimum is unchanged, the embedding maps
                           optimal solutions to optimal solutions and reflects optimality, and
                           the new optimal solutions that avoid the new root are exactly the
                           embedded old optimal ones — all three modes;
  * `C09_outgroup_needs_slack`  the hypothesis cannot be dropped: for `spe > dup + 4·floss`
                           a duplication at the new root beats the forced speciation at the old
                           root (spe = 5, dup = 0, floss = 1, hgt = ∞: old minimum 5, new 4).
                           The hypothesis is implied by the coherent region
                           `spe + k·sloss ≤ dup + 2·floss` to which C09 is confined
                           (`C09_outgroup_coherent`).
  * `C09_outgroup_exh`, `C09_outgroup_thl`, `C09_outgroup_thl_min`  the two plain solvers.

  Not claimed: "the optimal SET is unchanged".  It is false for `floss = 0`
  (`C09_outgroup_extra_optimum`: a duplication at the new root is co-optimal), as
  DESIGN 7/C09 anticipates; what holds is the restriction to solutions avoiding the
  new root (`C09_outgroup`, third clause), and
  * `C09_outgroup_strict`, `C09_outgroup_set`: for `floss > 0` and coherent costs no
    optimal solution (of finite cost) uses the new root or the outgroup, so the optimal
    set of the new input is exactly the embedded optimal set of the old one —
    all three modes.
-/
import SRVerif.Proofs.Outgroup
import SRVerif.Properties.C09Swap

namespace SR.C09

open SR

/-- Embedding a solution below the new root keeps its cost and its validity
    (every mode, every cost vector). -/
theorem C09_outgroup_embed (c : Costs) (mode : LabelMode) (o : OTree) (sol : Sol) :
    totalCost c mode (o.mapSp Path.og) (sol.mapSp Path.og) = totalCost c mode o sol ∧
    Spec.validSol mode (o.mapSp Path.og) (sol.mapSp Path.og) = Spec.validSol mode o sol :=
  ⟨totalCost_mapSp Path.og_emb c mode o sol, validSol_mapSp Path.og_emb mode o sol⟩

/-- **New minimum ≤ old minimum**, with no hypothesis on the costs: every valid
    solution of the old input yields a valid solution of the new one of equal cost. -/
theorem C09_outgroup_le (c : Costs) (mode : LabelMode) (o : OTree) (m m' : Cost)
    (hm : IsMinCost c mode o m) (hm' : IsMinCost c mode (o.mapSp Path.og) m') :
    Cost.le m' m = true := by
  rcases hm.2 with e | ⟨s, hs, e⟩
  · rw [e]; exact Cost.le_inf _
  · rw [← e, ← (C09_outgroup_embed c mode o s).1]
    exact hm'.1 _ (by show Spec.validSol mode _ _ = true
                      rw [(C09_outgroup_embed c mode o s).2]; exact hs)

/-- A valid solution over the tree with an outgroup puts every node at the new
    root or at an old species — never at the outgroup leaf `[1]`. -/
theorem C09_outgroup_species (mode : LabelMode) (o : OTree) (sol : Sol)
    (hv : Spec.validSol mode (o.mapSp Path.og) sol = true) :
    sol.allSp Path.ogOk = true ∧ sol.allSp (fun p => p != [1]) = true := by
  have hr : Spec.validRec (o.mapSp Path.og) sol = true := by
    simp only [Spec.validSol, Bool.and_eq_true] at hv; exact hv.1
  have h := validRec_allSp_ogOk _ sol hr (leafSpecies_og_ok o)
  refine ⟨h, ?_⟩
  clear hv hr
  induction sol with
  | leaf s g =>
    simp only [Sol.allSp, bne_iff_ne] at h ⊢
    exact Path.ogOk_ne_outgroup h
  | node s g l r ihl ihr =>
    simp only [Sol.allSp, Bool.and_eq_true, bne_iff_ne] at h ⊢
    exact ⟨⟨Path.ogOk_ne_outgroup h.1.1, ihl h.1.2⟩, ihr h.2⟩

/-- Projection back to the old tree keeps validity and does not increase the cost,
    when `spe + k·sloss ≤ dup + 4·floss`. -/
theorem C09_outgroup_project (c : Costs) (mode : LabelMode)
    (hc : c.spe + ogSlack mode * c.sloss ≤ c.dup + 4 * c.floss) (o : OTree) (sol : Sol)
    (hv : Spec.validSol mode (o.mapSp Path.og) sol = true) :
    Spec.validSol mode o (sol.mapSp Path.unog) = true ∧
    Cost.le (totalCost c mode o (sol.mapSp Path.unog)) (totalCost c mode (o.mapSp Path.og) sol)
      = true := by
  have hr : Spec.validRec (o.mapSp Path.og) sol = true := by
    simp only [Spec.validSol, Bool.and_eq_true] at hv; exact hv.1
  have h1 := validSol_unog mode _ sol hv (leafSpecies_og_ok o)
  have h2 := totalCost_unog_le c mode hc _ sol hr (leafSpecies_og_ok o)
  rw [OTree.unog_og] at h1 h2
  exact ⟨h1, h2⟩

/-- The coherent region of the properties implies the hypothesis. -/
theorem C09_outgroup_coherent (c : Costs) (mode : LabelMode)
    (hcoh : c.spe + ogSlack mode * c.sloss ≤ c.dup + 2 * c.floss) :
    c.spe + ogSlack mode * c.sloss ≤ c.dup + 4 * c.floss := by omega

/-- **C09, outgroup** (all three modes).  When `spe + k·sloss ≤ dup + 4·floss`:
    1. the minimum cost over valid solutions is unchanged;
    2. `sol` is optimal for the old input iff its embedding is optimal for the new;
    3. an optimal solution of the new input that avoids the new root (and the
       outgroup) is the embedding of an optimal solution of the old input. -/
theorem C09_outgroup (c : Costs) (mode : LabelMode)
    (hc : c.spe + ogSlack mode * c.sloss ≤ c.dup + 4 * c.floss) (o : OTree) :
    (∀ m, IsMinCost c mode o m ↔ IsMinCost c mode (o.mapSp Path.og) m) ∧
    (∀ sol, IsOptimal c mode o sol ↔ IsOptimal c mode (o.mapSp Path.og) (sol.mapSp Path.og)) ∧
    (∀ sol', IsOptimal c mode (o.mapSp Path.og) sol' →
      sol'.allSp (fun p => Path.ogOk p && (p != [])) = true →
      IsOptimal c mode o (sol'.mapSp Path.unog) ∧ (sol'.mapSp Path.unog).mapSp Path.og = sol') := by
  have hv : ∀ s, Spec.validSol mode (o.mapSp Path.og) (s.mapSp Path.og) = true ↔
      Spec.validSol mode o s = true := fun s => by rw [(C09_outgroup_embed c mode o s).2]
  have hcost := fun s => (C09_outgroup_embed c mode o s).1
  have hg := fun s hs => C09_outgroup_project c mode hc o s hs
  have h2 := isOptimalFor_embed (V := fun s => Spec.validSol mode o s = true)
    (V' := fun s => Spec.validSol mode (o.mapSp Path.og) s = true)
    (cost := totalCost c mode o) (cost' := totalCost c mode (o.mapSp Path.og))
    (Sol.mapSp Path.og) (Sol.mapSp Path.unog) hv hcost hg
  refine ⟨?_, h2, ?_⟩
  · exact isMinCostFor_transport (Sol.mapSp Path.og) (Sol.mapSp Path.unog)
      (fun s hs => ⟨(hv s).mpr hs, by rw [hcost]; exact Cost.le_refl _⟩) hg
  · intro sol' hopt havoid
    have e := Sol.og_unog_of_avoid sol' havoid
    refine ⟨?_, e⟩
    rw [IsOptimal, h2, e]
    exact hopt

/-- The hypothesis of `C09_outgroup` is needed: with `spe = 5 > dup + 4·floss = 4`
    and no transfers, two genes in the two species of `(A,B)` must be joined by a
    speciation (cost 5) in the old tree, but by a duplication at the new root
    (cost `0 + 1·4 = 4`) in the tree with an outgroup. -/
theorem C09_outgroup_needs_slack :
    let c : Costs := { spe := 5, dup := 0, hgt := .inf, floss := 1, sloss := 0 }
    let o : OTree := .node (.leaf [0] []) (.leaf [1] [])
    let cheap : Sol := .node [] [] (.leaf [0, 0] []) (.leaf [0, 1] [])
    ¬ (c.spe + ogSlack .plain * c.sloss ≤ c.dup + 4 * c.floss) ∧
    (exhaustive c o).map (totalCost c .plain o) = [.fin 5] ∧
    Spec.validSol .plain (o.mapSp Path.og) cheap = true ∧
    totalCost c .plain (o.mapSp Path.og) cheap = .fin 4 ∧
    (exhaustive c (o.mapSp Path.og)).map (totalCost c .plain (o.mapSp Path.og)) = [.fin 4] := by
  decide +kernel

/-- With `floss = 0` the new input has additional optimal solutions (a
    duplication at the new root), so the optimal SETS differ although the minimum
    does not: here 3 optimal solutions before, 4 after, all of cost 1. -/
theorem C09_outgroup_extra_optimum :
    let c : Costs := { spe := 1, dup := 1, hgt := .fin 1, floss := 0, sloss := 0 }
    let o : OTree := .node (.leaf [0] []) (.leaf [1] [])
    let extra : Sol := .node [] [] (.leaf [0, 0] []) (.leaf [0, 1] [])
    c.spe + ogSlack .plain * c.sloss ≤ c.dup + 2 * c.floss ∧
    (exhaustive c o).map (totalCost c .plain o) = [.fin 1, .fin 1, .fin 1] ∧
    extra ∈ exhaustive c (o.mapSp Path.og) ∧
    (∀ s ∈ exhaustive c o, s.mapSp Path.og ≠ extra) ∧
    (exhaustive c (o.mapSp Path.og)).length = 4 ∧
    (∀ s' ∈ exhaustive c (o.mapSp Path.og), totalCost c .plain (o.mapSp Path.og) s' = .fin 1) := by
  decide +kernel

/-- **For a positive full-loss cost no optimal solution uses the new root**
    (coherent costs, all three modes, optimal cost finite): every optimal solution of
    the new input avoids the new root and the outgroup, hence (by `C09_outgroup`) is
    the embedding of an optimal solution of the old input. -/
theorem C09_outgroup_strict (c : Costs) (mode : LabelMode)
    (hcoh : c.spe + ogSlack mode * c.sloss ≤ c.dup + 2 * c.floss) (hfl : 0 < c.floss)
    (o : OTree) (sol' : Sol) (hopt : IsOptimal c mode (o.mapSp Path.og) sol')
    (hfin : totalCost c mode (o.mapSp Path.og) sol' ≠ .inf) :
    sol'.allSp Path.avoid = true ∧
    IsOptimal c mode o (sol'.mapSp Path.unog) ∧ (sol'.mapSp Path.unog).mapSp Path.og = sol' := by
  have hc : c.spe + ogSlack mode * c.sloss ≤ c.dup + 4 * c.floss := by omega
  have hc' : c.spe + ogSlack mode * c.sloss < c.dup + 4 * c.floss := by omega
  have havoid : sol'.allSp Path.avoid = true := by
    cases hbad : sol'.allSp Path.avoid with
    | true => rfl
    | false =>
      exfalso
      have hr : Spec.validRec (o.mapSp Path.og) sol' = true := by
        have := hopt.1
        simp only [Spec.validSol, Bool.and_eq_true] at this; exact this.1
      have hlt := totalCost_unog_lt c mode hc' hfl _ sol' hr (leafSpecies_og_avoid o) hbad hfin
      rw [OTree.unog_og] at hlt
      obtain ⟨hpv, _⟩ := C09_outgroup_project c mode hc o sol' hopt.1
      have hle := hopt.2 ((sol'.mapSp Path.unog).mapSp Path.og)
        (by show Spec.validSol mode _ _ = true
            rw [(C09_outgroup_embed c mode o _).2]; exact hpv)
      rw [(C09_outgroup_embed c mode o _).1] at hle
      simp only [Cost.le, hlt, Bool.not_true] at hle
      cases hle
  exact ⟨havoid, (C09_outgroup c mode hc o).2.2 sol' hopt havoid⟩

/-- **The optimal set** for `floss > 0` (coherent costs): the optimal solutions of
    finite cost of the new input are exactly the embeddings of the optimal solutions
    of the old input. -/
theorem C09_outgroup_set (c : Costs) (mode : LabelMode)
    (hcoh : c.spe + ogSlack mode * c.sloss ≤ c.dup + 2 * c.floss) (hfl : 0 < c.floss)
    (o : OTree) (sol' : Sol) (hfin : totalCost c mode (o.mapSp Path.og) sol' ≠ .inf) :
    IsOptimal c mode (o.mapSp Path.og) sol' ↔
      ∃ sol, IsOptimal c mode o sol ∧ sol.mapSp Path.og = sol' := by
  have hc : c.spe + ogSlack mode * c.sloss ≤ c.dup + 4 * c.floss := by omega
  constructor
  · intro hopt
    obtain ⟨_, h2, h3⟩ := C09_outgroup_strict c mode hcoh hfl o sol' hopt hfin
    exact ⟨_, h2, h3⟩
  · rintro ⟨sol, hs, rfl⟩
    exact ((C09_outgroup c mode hc o).2.1 sol).mp hs

/-! ### The plain solvers -/

/-- The enlarged species tree: nodes and binarity. -/
theorem C09_outgroup_tree (S : RTree) :
    (∀ q, S.withOutgroup.isNode q = true ↔
      q = [] ∨ q = [1] ∨ ∃ p, q = Path.og p ∧ S.isNode p = true) ∧
    S.withOutgroup.isBinary = S.isBinary :=
  ⟨RTree.isNode_withOutgroup_iff S, RTree.isBinary_withOutgroup S⟩

/-- `reconcile_exhaustive`: a reconciliation is returned for the old input iff its
    embedding is returned for the new one, and all returned costs agree
    (`spe ≤ dup + 4·floss`). -/
theorem C09_outgroup_exh (c : Costs) (hc : c.spe ≤ c.dup + 4 * c.floss) (o : OTree) :
    (∀ sol, sol ∈ exhaustive c o ↔ sol.mapSp Path.og ∈ exhaustive c (o.mapSp Path.og)) ∧
    (∀ s ∈ exhaustive c o, ∀ s' ∈ exhaustive c (o.mapSp Path.og),
      totalCost c .plain (o.mapSp Path.og) s' = totalCost c .plain o s) := by
  have hc' : c.spe + ogSlack .plain * c.sloss ≤ c.dup + 4 * c.floss := by simpa [ogSlack] using hc
  have hv : ∀ s, (Spec.validRec (o.mapSp Path.og) (s.mapSp Path.og) = true ∧
      plainLabels (o.mapSp Path.og) (s.mapSp Path.og) = true) ↔
      (Spec.validRec o s = true ∧ plainLabels o s = true) := fun s => by
    rw [validRec_mapSp Path.og_emb, plainLabels_mapSp]
  have hcost := fun s => (C09_outgroup_embed c .plain o s).1
  have hg : ∀ s, (Spec.validRec (o.mapSp Path.og) s = true ∧ plainLabels (o.mapSp Path.og) s = true) →
      (Spec.validRec o (s.mapSp Path.unog) = true ∧ plainLabels o (s.mapSp Path.unog) = true) ∧
      Cost.le (totalCost c .plain o (s.mapSp Path.unog)) (totalCost c .plain (o.mapSp Path.og) s)
        = true := by
    rintro s ⟨h1, h2⟩
    have a := validRec_unog _ s h1 (leafSpecies_og_ok o)
    have b := totalCost_unog_le c .plain hc' _ s h1 (leafSpecies_og_ok o)
    have d := plainLabels_mapSp Path.unog (o.mapSp Path.og) s
    rw [OTree.unog_og] at a b d
    exact ⟨⟨a, by rw [d]; exact h2⟩, b⟩
  have h2 := fun sol => isOptimalFor_embed
    (V := fun s => Spec.validRec o s = true ∧ plainLabels o s = true)
    (V' := fun s => Spec.validRec (o.mapSp Path.og) s = true ∧ plainLabels (o.mapSp Path.og) s = true)
    (cost := totalCost c .plain o) (cost' := totalCost c .plain (o.mapSp Path.og))
    (Sol.mapSp Path.og) (Sol.mapSp Path.unog) hv hcost hg sol
  refine ⟨fun sol => by rw [mem_exhaustive_iff, mem_exhaustive_iff]; exact h2 sol, ?_⟩
  intro s hs s' hs'
  rw [mem_exhaustive_iff] at hs hs'
  have m1 := ((isMinCostFor_transport (Sol.mapSp Path.og) (Sol.mapSp Path.unog)
    (fun s hs => ⟨(hv s).mpr hs, by rw [hcost]; exact Cost.le_refl _⟩) hg _).mp hs.isMin)
  exact (IsMinCostFor.unique m1 hs'.isMin).symm

/-- `reconcile_thl` over the tree with an outgroup (well-formed input, coherent
    costs): a reconciliation is returned for the old input iff its embedding is
    returned for the new one. -/
theorem C09_outgroup_thl (c : Costs) (S : RTree) (o : OTree) (hb : S.isBinary = true)
    (hS : ∀ q ∈ leafSpecies o, S.isNode q = true) (hcoh : c.spe ≤ c.dup + 2 * c.floss) (sol : Sol) :
    sol ∈ thl c S o ↔ sol.mapSp Path.og ∈ thl c S.withOutgroup (o.mapSp Path.og) := by
  have hb' : S.withOutgroup.isBinary = true := by rw [RTree.isBinary_withOutgroup]; exact hb
  have hS' : ∀ q ∈ leafSpecies (o.mapSp Path.og), S.withOutgroup.isNode q = true := by
    intro q hq
    rw [leafSpecies_mapSp] at hq
    obtain ⟨r, hr, rfl⟩ := List.mem_map.mp hq
    rw [RTree.isNode_withOutgroup_og]; exact hS r hr
  have hc' : c.spe + ogSlack .plain * c.sloss ≤ c.dup + 4 * c.floss := by simp [ogSlack]; omega
  have hup : ∀ s, s ∈ Spec.allMappings S o →
      s.mapSp Path.og ∈ Spec.allMappings S.withOutgroup (o.mapSp Path.og) :=
    mem_allMappings_mapSp Path.og S _ (fun q hq => by rw [RTree.isNode_withOutgroup_og]; exact hq) o
  have hdown : ∀ s, s ∈ Spec.allMappings S.withOutgroup (o.mapSp Path.og) →
      s.mapSp Path.unog ∈ Spec.allMappings S o := by
    intro s hs
    have := mem_allMappings_mapSp Path.unog S.withOutgroup S (fun q hq => by
      rcases (RTree.isNode_withOutgroup_iff S q).mp hq with rfl | rfl | ⟨r, rfl, hr⟩
      · exact RTree.isNode_nil S
      · exact RTree.isNode_nil S
      · exact hr) _ s hs
    rwa [OTree.unog_og] at this
  rw [mem_thl_iff c S o hb hS hcoh, mem_thl_iff c _ _ hb' hS' hcoh]
  refine isOptimalFor_embed (Sol.mapSp Path.og) (Sol.mapSp Path.unog) (fun s => ?_)
    (fun s => (C09_outgroup_embed c .plain o s).1) (fun s hs => ?_) sol
  · rw [validRec_mapSp Path.og_emb]
    constructor
    · rintro ⟨h1, h2⟩
      have := hdown _ h2
      rw [Sol.unog_og] at this
      exact ⟨h1, this⟩
    · rintro ⟨h1, h2⟩
      exact ⟨h1, hup s h2⟩
  · obtain ⟨h1, h2⟩ := hs
    have a := validRec_unog _ s h1 (leafSpecies_og_ok o)
    have b := totalCost_unog_le c .plain hc' _ s h1 (leafSpecies_og_ok o)
    rw [OTree.unog_og] at a b
    exact ⟨⟨a, hdown s h2⟩, b⟩

/-- The optimiser's own minimum (the minimum table value at the root) is
    unchanged by the outgroup. -/
theorem C09_outgroup_thl_min (c : Costs) (S : RTree) (o : OTree) (hb : S.isBinary = true)
    (hS : ∀ q ∈ leafSpecies o, S.isNode q = true) (hcoh : c.spe ≤ c.dup + 2 * c.floss) :
    thlTableMin c S.withOutgroup (o.mapSp Path.og) = thlTableMin c S o := by
  have hb' : S.withOutgroup.isBinary = true := by rw [RTree.isBinary_withOutgroup]; exact hb
  have hS' : ∀ q ∈ leafSpecies (o.mapSp Path.og), S.withOutgroup.isNode q = true := by
    intro q hq
    rw [leafSpecies_mapSp] at hq
    obtain ⟨r, hr, rfl⟩ := List.mem_map.mp hq
    rw [RTree.isNode_withOutgroup_og]; exact hS r hr
  obtain ⟨m, hm⟩ := List.exists_mem_of_ne_nil _ (C01.C01_thl_total c S o hb hS)
  have hm' := (C09_outgroup_thl c S o hb hS hcoh m).mp hm
  rw [← C01.C01_thl_table_min c S o hb hS hcoh m hm,
    ← C01.C01_thl_table_min c _ _ hb' hS' hcoh _ hm']
  exact (C09_outgroup_embed c .plain o m).1

/-! ### Non-vacuity -/

def ogS : RTree := .node [.node [.node [], .node []], .node []]
def ogO : OTree := .node (.node (.leaf [0, 0] [1, 2]) (.leaf [1] [2])) (.leaf [0, 1] [1])
def ogC : Costs := { spe := 1, dup := 1, hgt := .fin 1, floss := 1, sloss := 1 }

-- The hypotheses of `C09_outgroup`, `C09_outgroup_thl` hold on a non-trivial input; the
-- new tree really is larger; minimum and optimal sets correspond.
example :
    (∀ mode, ogC.spe + ogSlack mode * ogC.sloss ≤ ogC.dup + 4 * ogC.floss) ∧
    ogS.isBinary = true ∧ (∀ q ∈ leafSpecies ogO, ogS.isNode q = true) ∧
    ogC.spe ≤ ogC.dup + 2 * ogC.floss ∧
    ogS.withOutgroup.preorder = [[], [0], [0, 0], [0, 0, 0], [0, 0, 1], [0, 1], [1]] ∧
    ogO.mapSp Path.og =
      .node (.node (.leaf [0, 0, 0] [1, 2]) (.leaf [0, 1] [2])) (.leaf [0, 0, 1] [1]) ∧
    (thl ogC ogS ogO).map (totalCost ogC .plain ogO) = [.fin 2, .fin 2, .fin 2, .fin 2, .fin 2] ∧
    (thl ogC ogS.withOutgroup (ogO.mapSp Path.og)) = (thl ogC ogS ogO).map (Sol.mapSp Path.og) ∧
    thlTableMin ogC ogS.withOutgroup (ogO.mapSp Path.og) = .fin 2 := by
  refine ⟨fun mode => by cases mode <;> decide, ?_⟩
  decide +kernel

-- Projection of a solution that uses the new root: valid, and strictly cheaper here.
example :
    let sol' : Sol := .node [] [] (.node [0] [] (.leaf [0, 0, 0] [1, 2]) (.leaf [0, 1] [2]))
      (.leaf [0, 0, 1] [1])
    Spec.validSol .plain (ogO.mapSp Path.og) sol' = true ∧
    totalCost ogC .plain (ogO.mapSp Path.og) sol' = .fin 7 ∧
    Spec.validSol .plain ogO (sol'.mapSp Path.unog) = true ∧
    totalCost ogC .plain ogO (sol'.mapSp Path.unog) = .fin 5 := by
  decide +kernel

-- `floss > 0`: every optimal reconciliation of the new input avoids the new root, and the
-- optimal set is the embedded old one (`C09_outgroup_strict`, `C09_outgroup_set`).
example :
    0 < ogC.floss ∧ (∀ mode, ogC.spe + ogSlack mode * ogC.sloss ≤ ogC.dup + 2 * ogC.floss) ∧
    (∀ s' ∈ exhaustive ogC (ogO.mapSp Path.og), s'.allSp Path.avoid = true) ∧
    exhaustive ogC (ogO.mapSp Path.og) = (exhaustive ogC ogO).map (Sol.mapSp Path.og) := by
  refine ⟨by decide, fun mode => by cases mode <;> decide, ?_⟩
  decide +kernel

-- Ordered mode: a labelled solution using the new root (a duplication there) is valid; its
-- projection (a duplication at the old root, two skipped species fewer) stays valid and is cheaper.
example :
    let sol' : Sol := .node [] [1, 2] (.node [0] [1, 2] (.leaf [0, 0, 0] [1, 2]) (.leaf [0, 1] [2]))
      (.leaf [0, 0, 1] [1])
    Spec.validSol .ordered (ogO.mapSp Path.og) sol' = true ∧
    Spec.validSol .ordered ogO (sol'.mapSp Path.unog) = true ∧
    internalEvent [] [0] [0, 0, 1] = .dup ∧ internalEvent [] [] [0, 1] = .dup ∧
    Cost.lt (totalCost ogC .ordered ogO (sol'.mapSp Path.unog))
      (totalCost ogC .ordered (ogO.mapSp Path.og) sol') = true ∧
    totalCost ogC .ordered (ogO.mapSp Path.og) sol' ≠ .inf := by
  decide +kernel

end SR.C09
