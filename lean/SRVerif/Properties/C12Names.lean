/-
  C12 (bridge, names) — `Naming.Ok` DERIVED from `label_internal`.

  The cost-line theorems (`C12Bridge.lean`, `C12Json.lean`, `C12Colour.lean`) assume `Naming.Ok`:
  names pairwise distinct and safe on the nodes of both trees.  The tool does not take names on
  trust: `reconcile` runs `label_internal` (`Model/Cli.lean: labelInternal`, theorems `C12_label*`
  of `C12.lean`) on the input it read, THEN solves, THEN writes.  Here the link:

  * `C12_label_naming_ok` — for input trees `ot` (object) and `st` (species) whose GIVEN names
    (the non-empty ones other than `NoName`) are pairwise distinct inside each tree and are
    words over `[A-Za-z0-9_]`, the names AFTER `label_internal` — `nm.oname = nameFn (labelTree
    "O" ot)`, `nm.sname = nameFn (labelTree "S" st)` — satisfy `Naming.Ok` on the nodes of the
    two shapes (families: any injective `fname`, untouched by the pass).  No hypothesis that
    given names avoid the generated form `O#` / `S#`: the pass searches the tree live and skips
    taken names (`C12_label`, clause 4), so a given `O0` is simply kept.
  * `C12_label_is_embedding` — the input after `label_internal` IS the coloured embedded input
    `embInputC nm cl …` for that naming and the colours `cl` the file carries (colours are not
    touched by the pass), and `cl.Ok` when the colours are words.
  * `C12_cli_cost_line_text_thl` / `_uspfs` — composition with `C12Colour.lean`: the cost line
    on the written text for what the CLI does (label, solve, write), hypotheses on the FILE only.

  WHICH NAMES ARE COVERED.  Given names and colours must satisfy `NT.safeStr`: non-empty, every
  character an ASCII letter, an ASCII digit, `_`, `.` or `-` (`Char.isAlphanum` is ASCII-only).
  This is the alphabet of C11's `SafeNames` (`RecOutput.WF`), still NARROWER than what the Newick
  codec round-trips (`Newick.safeName`: anything without `:;(),[]=`, TAB, LF, CR and without a
  blank at either end).  So `x_1`, `Ecoli_3`, `O0`, `0000FF`, `E.coli_1`, `sp-1` are covered;
  `é`, `#0000FF`, `a b` are inside the codec's domain but OUTSIDE these theorems (they would need
  C11's `WF` restated with `Newick.safeName`; not done here).  The property's own quantifier
  (`<species>_<id>` leaf names,
  generated `O#`/`S#`) is covered.  A given name `NoName` counts as unnamed (ete3's legacy
  default) and is replaced, as in the code.
-/
import SRVerif.Proofs.LabelNaming
import SRVerif.Properties.C12
import SRVerif.Properties.C12Colour

namespace SR.C12

open SR SR.Ser SR.Cli SR.SolOut SR.C11 SR.Json

/-- What the input FILE must give for one tree: given names pairwise distinct, each a word. -/
structure GivenNamesOk (t : NT) : Prop where
  distinct : (t.names.filter (fun nm => !isUnnamed nm)).Nodup
  safe : ∀ x ∈ t.names, isUnnamed x = false → NT.safeStr x = true

/-- The naming after `label_internal` (`O#` on the object tree, `S#` on the species tree). -/
def labelledNaming (ot st : NT) (fname : Nat → String) : Naming :=
  { sname := nameFn (labelTree "S" st), oname := nameFn (labelTree "O" ot), fname := fname }

/-- The colours of the file (the pass does not touch them). -/
def labelledColouring (ot st : NT) : Colouring :=
  { scol := colFn (labelTree "S" st), ocol := colFn (labelTree "O" ot) }

/-- One tree: after the pass, the tree is uniquely named by words. -/
theorem C12_label_tree_safe (pfx : String) (hp : pfx.toList.all NT.safeChar = true) (t : NT)
    (h : GivenNamesOk t) :
    (labelTree pfx t).UniqueNames ∧ (∀ x ∈ (labelTree pfx t).names, NT.safeStr x = true) ∧
    shapeNT (labelTree pfx t) = shapeNT t := by
  obtain ⟨hn, hu⟩ := C12_label_tree pfx t h.distinct
  refine ⟨hu, fun x hx => ?_, shape_labelTree pfx t⟩
  rw [hn] at hx
  exact labelNames_safe hp _ h.safe x hx

/-- **`C12_label_naming_ok`** — `Naming.Ok` of the names the tool works with, from the file. -/
theorem C12_label_naming_ok (ot st : NT) (S : RTree) (o : OTree) (fname : Nat → String)
    (hso : shapeNT ot = o.shape) (hss : shapeNT st = S) (hgo : GivenNamesOk ot)
    (hgs : GivenNamesOk st) (hf : ∀ a b, fname a = fname b → a = b) :
    (labelledNaming ot st fname).Ok S o := by
  obtain ⟨uo, so, sho⟩ := C12_label_tree_safe "O" (by decide) ot hgo
  obtain ⟨us, ss, shs⟩ := C12_label_tree_safe "S" (by decide) st hgs
  have no := naming_of_tree uo so
  have ns := naming_of_tree us ss
  rw [sho, hso] at no
  rw [shs, hss] at ns
  exact { sInj := ns.1, sSafe := ns.2, oInj := no.1, oSafe := no.2, fInj := hf }

/-- **`C12_label_is_embedding`** — the labelled input is the coloured embedded input: same trees
    (the mappings and the cost table are keyed by node and by event, and are `embInputC`'s by
    construction of the canonical case). -/
theorem C12_label_is_embedding (ot st : NT) (S : RTree) (o : OTree) (fname : Nat → String)
    (c : Costs) (hso : shapeNT ot = o.shape) (hss : shapeNT st = S) :
    let nm := labelledNaming ot st fname
    let cl := labelledColouring ot st
    (embInputC nm cl c S o).objectTree = labelTree "O" ot ∧
    (embInputC nm cl c S o).speciesTree = labelTree "S" st ∧
    ((∀ x ∈ ot.pre, ∀ k, x.2.color = some k → NT.safeStr k = true) →
     (∀ x ∈ st.pre, ∀ k, x.2.color = some k → NT.safeStr k = true) → cl.Ok S o) := by
  intro nm cl
  refine ⟨?_, ?_, fun ho hs => ?_⟩
  · rw [(embInputC_trees nm cl c S o).1, ← hso]; exact (labelTree_self "O" ot).symm
  · rw [(embInputC_trees nm cl c S o).2, ← hss]; exact (labelTree_self "S" st).symm
  · constructor
    · have := colSafe_self (colours_labelTree_safe "S" hs)
      rw [shape_labelTree, hss] at this
      exact this
    · have := colSafe_self (colours_labelTree_safe "O" ho)
      rw [shape_labelTree, hso] at this
      exact this

/-- What the input FILE must give: shapes, given names, colours, family names. -/
structure FileOk (ot st : NT) (S : RTree) (o : OTree) (fname : Nat → String) : Prop where
  oshape : shapeNT ot = o.shape
  sshape : shapeNT st = S
  onames : GivenNamesOk ot
  snames : GivenNamesOk st
  ocolours : ∀ x ∈ ot.pre, ∀ k, x.2.color = some k → NT.safeStr k = true
  scolours : ∀ x ∈ st.pre, ∀ k, x.2.color = some k → NT.safeStr k = true
  fams : ∀ a b, fname a = fname b → a = b

theorem FileOk.naming {ot st : NT} {S : RTree} {o : OTree} {fname : Nat → String}
    (h : FileOk ot st S o fname) : (labelledNaming ot st fname).Ok S o :=
  C12_label_naming_ok ot st S o fname h.oshape h.sshape h.onames h.snames h.fams

theorem FileOk.colouring {ot st : NT} {S : RTree} {o : OTree} {fname : Nat → String}
    (h : FileOk ot st S o fname) : (labelledColouring ot st).Ok S o :=
  (C12_label_is_embedding ot st S o fname ⟨0, 0, .inf, 0, 0⟩ h.oshape h.sshape).2.2
    h.ocolours h.scolours

/-- **`C12_cli_cost_line_text_thl`** — label, solve (`thl`), write: the cost line on the text,
    hypotheses on the file only (plus the solver's guards). -/
theorem C12_cli_cost_line_text_thl {ot st : NT} {S : RTree} {o : OTree} {fname : Nat → String}
    (hfile : FileOk ot st S o fname) (c : Costs) (hb : S.isBinary = true)
    (hS : ∀ p ∈ leafSpecies o, S.isNode p = true) (withSyn : Bool) :
    let emb := embPlainC (labelledNaming ot st fname) (labelledColouring ot st) c S o withSyn
    let cost := fun x : RecOutput => evalPlain x.input.base x.objectSpecies
    let toD := fun x : RecOutput => x.toDict Newick.write
    let enc := fun x : RecOutput => renderDict (toD x)
    TextLineOK toD PlainDictBack c .plain o (thl c S o) ((thl c S o).map emb)
      (reconcileRun "thl" (dispatch "thl" (kindOf withSyn) "all") ((thl c S o).map emb) cost enc) ∧
    ∀ (P : Picker Unit), P.Ok → c.spe ≤ c.dup + 2 * c.floss →
      TextLineOK toD PlainDictBack c .plain o (thl c S o) ((thlAny P c S o).map emb)
        (reconcileRun "thl" (dispatch "thl" (kindOf withSyn) "any") ((thlAny P c S o).map emb)
          cost enc) :=
  C12_col_cost_line_text_thl c hfile.naming hfile.colouring hb hS withSyn

/-- **`C12_cli_cost_line_text_uspfs`** — label, solve (`base_uspfs` / `superdtl`), write. -/
theorem C12_cli_cost_line_text_uspfs {ot st : NT} {S : RTree} {o : OTree} {fname : Nat → String}
    (hfile : FileOk ot st S o fname) (arr : List String → List String)
    (harr : ∀ l, (arr l).Perm l) (c : Costs) (hb : S.isBinary = true)
    (hS : ∀ p ∈ leafSpecies o, S.isNode p = true) (base : Bool) :
    let emb := embSuperC (labelledNaming ot st fname) (labelledColouring ot st) arr c S o false
    let cost := fun x : SRecOutput => evalSuper x.input.base x.objectSpecies x.syntenies x.ordered
    let toD := fun x : SRecOutput => x.toDict Newick.write
    let enc := fun x : SRecOutput => renderDict (toD x)
    let all := uspfs c S base o
    TextLineOK toD SuperDictBack c .unordered o all (all.map emb)
      (reconcileRun (uspfsName base) (dispatch (uspfsName base) .super "all") (all.map emb)
        cost enc) ∧
    ∀ (P : Picker Kind), P.Ok → (∀ f ∈ leafSyntenies o, f ≠ []) →
      c.spe + c.sloss ≤ c.dup + 2 * c.floss →
      TextLineOK toD SuperDictBack c .unordered o all ((uspfsAny P c S base o).map emb)
        (reconcileRun (uspfsName base) (dispatch (uspfsName base) .super "any")
          ((uspfsAny P c S base o).map emb) cost enc) :=
  C12_col_cost_line_text_uspfs arr harr c hfile.naming hfile.colouring hb hS base

/-! ### The alphabet gap, and non-vacuity -/

/-- Names the Newick codec round-trips but these theorems do not cover, and names they do. -/
theorem C12_names_alphabet_gap :
    (Newick.safeName "#0000FF" = true ∧ NT.safeStr "#0000FF" = false) ∧
    (Newick.safeName "a b" = true ∧ NT.safeStr "a b" = false) ∧
    (Newick.safeName "é" = true ∧ NT.safeStr "é" = false) ∧
    (NT.safeStr "x_1" = true ∧ NT.safeStr "O0" = true ∧ NT.safeStr "0000FF" = true) ∧
    (NT.safeStr "E.coli_1" = true ∧ NT.safeStr "sp-1" = true) := by
  decide

/-- The reviewer's file: `((x_1,x_2)[&&NHX:color=0000FF],y_1);` with both ancestors unnamed, on
    the species tree `(x,y);` with an unnamed root. -/
def exFileO : NT :=
  .node "" none [.node "" (some "0000FF") [.node "x_1" none [], .node "x_2" none []],
                 .node "y_1" none []]
def exFileS : NT := .node "" none [.node "x" none [], .node "y" none []]
def exFileShape : OTree := .node (.node (.leaf [0] [1]) (.leaf [0] [1, 2])) (.leaf [1] [2])
def exFname (n : Nat) : String := String.ofList (List.replicate (n + 1) 'g')

theorem exFile_ok : FileOk exFileO exFileS exS exFileShape exFname where
  oshape := rfl
  sshape := rfl
  onames := ⟨by decide, by decide⟩
  snames := ⟨by decide, by decide⟩
  ocolours := by decide
  scolours := by decide
  fams := by
    intro a b h
    have := congrArg (fun s : String => s.toList.length) h
    simpa [exFname, String.toList_ofList] using this

/-- What the tool writes for it (`superdtl`): the generated names `O0`, `O1`, `S0` and the colour
    are in the Newick text — the real code's output quoted in review H, finding 4. -/
example :
    ((uspfs exCosts exS false exFileShape).map (fun s =>
      ((embSuperC (labelledNaming exFileO exFileS exFname) (labelledColouring exFileO exFileS) id
        exCosts exS exFileShape false s).toDict Newick.write).input.object_tree)).head?
      = some "((x_1,x_2)O1[&&NHX:color=0000FF],y_1)O0;" := by
  decide +kernel

example : ∃ k, ∀ x ∈ (uspfs exCosts exS false exFileShape).map
      (embSuperC (labelledNaming exFileO exFileS exFname) (labelledColouring exFileO exFileS) id
        exCosts exS exFileShape false), SuperDictBack (x.toDict Newick.write) k := by
  obtain ⟨k, _, _, _, _, h⟩ := (C12_col_cost_line_uspfs renderDict id (fun _ => List.Perm.refl _)
    exCosts exFile_ok.naming exFile_ok.colouring (by decide) (by decide) false).1
  exact ⟨k, h⟩

end SR.C12
