/-
  C11 — Serialised results read back to the same reconciliation.

  Model: `SRVerif/Model/Serialize.lean`.  A node is its path from the root;
  `tree & name` is the first node in level order with the name; Python dicts
  are association lists with in-place replacement.  ete3's Newick writer and
  reader are parameters `write`/`read`; their round-trip law on uniquely and
  safely named trees (`NewickLaw`) is a HYPOTHESIS of `C11_roundtrip_*`
  (trusted behaviour of ete3, validated by the harness on every generated
  tree), never an axiom.

  What reads back (`norm`): the object itself, except that
  * a synteny stored as a Python `set` comes back as the list sorted by
    `sort_synteny` (`normSyn`; the identity when all syntenies are lists), and
  * the `input` of an output comes back as a plain `ReconciliationInput`
    (`ReconciliationOutput._from_dict` calls `ReconciliationInput.from_dict`),
    so that the key `input.leaf_syntenies` — not one of the fields the property
    lists — is absent from the second dictionary (`dropLeafSyntenies`).
-/
import SRVerif.Proofs.SerializeClasses

namespace SR.C11

open SR.Ser

/-- `tree & name` on a uniquely named tree: the node found is the one carrying
    the name (whatever the traversal order), and a name carried by no node is not found. -/
theorem C11_lookup {t : NT} (hu : t.UniqueNames) (nm : String) (p : Path) :
    t.findPath nm = some p ↔ ∃ s, t.sub p = some s ∧ s.name = nm := by
  constructor
  · exact NT.findPath_some_sub
  · rintro ⟨s, hs, rfl⟩
    exact NT.findPath_name hu hs

/-- Tree mappings: parsing the serialised form gives the mapping back (same
    pairs, same order), and serialising what was parsed reproduces the serialised form. -/
theorem C11_mapping {ft tt : NT} (hf : ft.UniqueNames) (ht : tt.UniqueNames) {m : TreeMapping}
    (hm : TreeMappingWF ft tt m) :
    parseTreeMapping ft tt (serializeTreeMapping ft tt m) = .ok m
    ∧ ∀ m', parseTreeMapping ft tt (serializeTreeMapping ft tt m) = .ok m' →
        serializeTreeMapping ft tt m' = serializeTreeMapping ft tt m := by
  have h := parse_serialize_treeMapping hf ht hm
  refine ⟨h, fun m' hm' => ?_⟩
  rw [h] at hm'
  rw [← Except.ok.inj hm']

/-- The serialised form of a well-formed mapping is, entry by entry, the pair of names. -/
theorem C11_mapping_form {ft tt : NT} (hf : ft.UniqueNames) {m : TreeMapping}
    (hm : TreeMappingWF ft tt m) :
    serializeTreeMapping ft tt m = m.map (fun x => (ft.nameAt x.1, tt.nameAt x.2)) :=
  serializeTreeMapping_eq hf hm.1

/-- Synteny mappings: ordered lists come back verbatim, sets come back as the
    sorted list that was written; serialising again reproduces the serialised form. -/
theorem C11_synteny {t : NT} (hu : t.UniqueNames) {m : SynMapping} (hk : KeysIn t m) :
    parseSynMapping t (serializeSynMapping t m) = .ok (normSyn m)
    ∧ serializeSynMapping t (normSyn m) = serializeSynMapping t m
    ∧ ((∀ x ∈ m, ∃ l, x.2 = Syn.lst l) → normSyn m = m) :=
  ⟨parse_serialize_synMapping hu hk, serialize_normSyn hu hk, normSyn_of_lists⟩

/-- `normSyn` keeps the nodes and their order; each synteny keeps its families:
    a list verbatim, a set up to the order (it is sorted). -/
theorem C11_synteny_content (m : SynMapping) :
    (normSyn m).map (·.1) = m.map (·.1)
    ∧ ∀ i (h : i < m.length),
        ((normSyn m)[i]'(by simpa [normSyn] using h)).2.items.Perm m[i].2.items
        ∧ ∀ l, m[i].2 = Syn.lst l → ((normSyn m)[i]'(by simpa [normSyn] using h)).2 = Syn.lst l := by
  refine ⟨by simp [normSyn, List.map_map, Function.comp_def], fun i h => ?_⟩
  simp only [normSyn, List.getElem_map]
  constructor
  · cases m[i].2 with
    | lst l => exact List.Perm.refl _
    | set l => exact sortSynteny_perm l
  · intro l hl
    rw [hl]; rfl

/-- The cost-name table (generated from `NodeEvent`/`EdgeEvent`): every member is
    found again from its name, in its own enumeration. -/
theorem C11_costs : ∀ e : Event, e.valid = true → eventOfName e.name = .ok e :=
  fun _ h => eventOfName_name h

/-- … which, on the generated table, is the finite statement decided here. -/
theorem C11_costs_table :
    (∀ n ∈ Gen.nodeEventNames, eventOfName n = .ok (.node n))
    ∧ (∀ n ∈ Gen.edgeEventNames, eventOfName n = .ok (.edge n))
    ∧ (∀ x ∈ defaultCost, x.1.valid = true) ∧ (defaultCost.map (·.1)).Nodup := by
  decide

theorem C11_cost_values {c : CostValues} (h : CostsWF c) :
    parseCosts (serializeCosts c) = .ok c := parse_serialize_costs h

section
variable {write : NT → String} {read : String → Option NT}

/-- `ReconciliationInput`: the dictionary form reads back to the same object. -/
theorem C11_roundtrip_input (hN : NewickLaw write read) {x : RecInput} (h : x.WF) :
    RecInput.fromDict read (x.toDict write) = .ok x :=
  RecInput.fromDict_toDict hN h

/-- `SuperReconciliationInput`: same, leaf syntenies up to `normSyn`; the second
    dictionary is the first. -/
theorem C11_roundtrip_super_input (hN : NewickLaw write read) {x : SRecInput} (h : x.WF) :
    SRecInput.fromDict read (x.toDict write) = .ok x.norm
    ∧ x.norm.toDict write = x.toDict write :=
  ⟨SRecInput.fromDict_toDict hN h, SRecInput.toDict_norm h⟩

/-- `ReconciliationOutput`: trees, leaf assignment, costs and species mapping read
    back unchanged; the second dictionary is the first one minus `input.leaf_syntenies`
    (present only when the output was built on a super-reconciliation input). -/
theorem C11_roundtrip_output (hN : NewickLaw write read) {x : RecOutput} (h : x.WF) :
    RecOutput.fromDict read (x.toDict write) = .ok x.norm
    ∧ x.norm.toDict write = (x.toDict write).dropLeafSyntenies :=
  ⟨RecOutput.fromDict_toDict hN h, RecOutput.toDict_norm x⟩

/-- `SuperReconciliationOutput`: moreover the synteny labelling (up to `normSyn`)
    and the ordered flag. -/
theorem C11_roundtrip_super_output (hN : NewickLaw write read) {x : SRecOutput} (h : x.WF) :
    SRecOutput.fromDict read (x.toDict write) = .ok x.norm
    ∧ x.norm.toDict write = (x.toDict write).dropLeafSyntenies :=
  ⟨SRecOutput.fromDict_toDict hN h, SRecOutput.toDict_norm h⟩

/-- The fields the evaluator reads (`node_event`, `cost`) are those of the
    original: both trees, leaf assignment, costs, species mapping, ordered flag are
    equal, and the labelling is `normSyn` of the original (`C11_synteny_content`:
    same nodes, same families; the unordered evaluator only forms `set(…)` of them). -/
theorem C11_same_fields (x : SRecOutput) :
    x.norm.input.base = x.input.base
    ∧ x.norm.objectSpecies = x.objectSpecies
    ∧ x.norm.ordered = x.ordered
    ∧ x.norm.syntenies = normSyn x.syntenies :=
  ⟨rfl, rfl, rfl, rfl⟩

/-- Hence any evaluation that depends on these fields only — and on set-valued
    syntenies only through `normSyn` — gives the same events and cost on the
    object read back. -/
theorem C11_same_evaluation {α : Type} (eval : RecInput → TreeMapping → SynMapping → Bool → α)
    (hset : ∀ i m s o, eval i m (normSyn s) o = eval i m s o)
    (hN : NewickLaw write read) {x : SRecOutput} (h : x.WF) :
    ∃ y, SRecOutput.fromDict read (x.toDict write) = .ok y
      ∧ eval y.input.base y.objectSpecies y.syntenies y.ordered
        = eval x.input.base x.objectSpecies x.syntenies x.ordered :=
  ⟨x.norm, SRecOutput.fromDict_toDict hN h, hset _ _ _ _⟩

/-- `ordered` defaults to `True` when the key is absent. -/
theorem C11_ordered_default (d : OutputDict) (h : d.ordered = none) {y : SRecOutput}
    (hy : SRecOutput.fromDict read d = .ok y) : y.ordered = true := by
  unfold SRecOutput.fromDict at hy
  cases h1 : RecOutput.fromDict read d with
  | error e => simp [h1, bind, Except.bind] at hy
  | ok parent =>
    simp only [h1, bind, Except.bind] at hy
    cases h2 : d.syntenies with
    | none => simp [h2] at hy
    | some l =>
      simp only [h2] at hy
      cases h3 : parseSynMapping parent.input.base.objectTree l with
      | error e => simp [h3] at hy
      | ok syn =>
        simp only [h3, pure, Except.pure, Except.ok.injEq] at hy
        rw [← hy, h]; rfl

end

/-! ### Non-vacuity: the README solution (with the documented colour and an
    unordered labelling stored as sets) is well formed, and the hypotheses of the
    mapping theorems are needed. -/

def exObj : NT :=
  .node "O0" none [.node "O1" (some "0000FF") [.node "x_1" none [], .node "x_2" none []],
                   .node "y_1" none []]
def exSpe : NT := .node "S0" none [.node "X" none [], .node "Y" none []]

def exInput : SRecInput :=
  { base := { objectTree := exObj, speciesTree := exSpe,
              leafObjectSpecies := [([0, 0], [0]), ([0, 1], [0]), ([1], [1])],
              costs := (Event.node "HORIZONTAL_TRANSFER", Cost.inf) :: defaultCost.filter (·.1 != .node "HORIZONTAL_TRANSFER") },
    leafSyntenies := [([0, 0], .lst ["g1", "g2", "g3"]), ([0, 1], .lst ["g1", "g3", "g4"]),
                      ([1], .lst ["g1", "g2", "g3", "g4"])] }

def exOutput : SRecOutput :=
  { input := .super exInput
    objectSpecies := [([], []), ([0], [0]), ([0, 0], [0]), ([0, 1], [0]), ([1], [1])]
    syntenies := [([], .set ["g4", "g10", "g2", "g1"]), ([0], .set ["g1", "g2", "g10", "g4"]),
                  ([0, 0], .lst ["g1", "g2", "g3"]), ([0, 1], .lst ["g1", "g3", "g4"]),
                  ([1], .lst ["g1", "g2", "g3", "g4"])]
    ordered := false }

example : exOutput.WF :=
  ⟨⟨⟨by decide, by decide, by decide, by decide, by decide, by decide⟩, by decide⟩,
   by decide, by decide⟩

example : (normSyn exOutput.syntenies).head? = some ([], .lst ["g1", "g2", "g4", "g10"]) := by decide

/-- Without unique names the round trip fails: two nodes named `a`, the mapping
    of the second one comes back on the first (level order). -/
example :
    let t : NT := .node "r" none [.node "a" none [], .node "a" none []]
    parseTreeMapping t t (serializeTreeMapping t t [([1], [])]) = .ok [([0], [])] := by decide

/-- Level order, not pre-order: the shallow `x` wins. -/
example : (NT.node "r" none [.node "b" none [.node "x" none []], .node "x" none []]).findPath "x"
    = some [1] := by decide

end SR.C11
