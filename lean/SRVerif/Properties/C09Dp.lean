/-
  C09 — the cost clauses for the label-DP solvers at the level of their TABLES,
  through the DP's exactness theorem (`table_exact`: inside the coherent region a
  cell holds the minimum of the generic cost `labCost` over the admissible
  labellings with its root state, and decodes to exactly the minimisers).  This
  reaches the unordered solvers, for which no end-to-end optimality theorem
  against the evaluator exists yet (C03):

  * `C09_scale_uspfs`  (`usreconcile_{base,extended}_uspfs`, coherent region
      `spe + sloss ≤ dup + 2·floss`): scaling by `k > 0` leaves the returned SET
      unchanged, scales the evaluated cost of every returned solution and scales
      the optimiser's table minimum;
  * `C09_mono_uspfs_table`  the optimiser's table minimum is monotone in the unit
      costs (dearer vector coherent);
  * `C09_scale_spfs_table`, `C09_mono_spfs_table`  the same for the table minimum
      of the ordered solvers (their result sets are in `C09Transfer.lean`).
  Monotonicity of the EVALUATED cost of what `uspfs` returns is not derived here:
  it needs the bridge `C03_kinds_faithful_statement` (table cost = evaluated cost
  of the materialised solution), which is open.

  Generic lemmas: `Proofs/DPCostChange.lean`.
-/
import SRVerif.Properties.C09Costs
import SRVerif.Proofs.DPCostChange
import SRVerif.Properties.C03Dp
import SRVerif.Properties.C02Dp

namespace SR.C09

open SR SR.EventLog Cost

/-! ### The three algebras change with the costs only through their edge costs -/

theorem C09_coherent_scale_un (k : Nat) (c : Costs) (h : c.spe + c.sloss ≤ c.dup + 2 * c.floss) :
    (scaleCosts k c).spe + (scaleCosts k c).sloss
      ≤ (scaleCosts k c).dup + 2 * (scaleCosts k c).floss := by
  show k * c.spe + k * c.sloss ≤ k * c.dup + 2 * (k * c.floss)
  have := Nat.mul_le_mul_left k h
  rw [Nat.mul_add, Nat.mul_add, Nat.mul_left_comm] at this
  exact this

theorem C09_un_shape (c₁ c₂ : Costs) : SameShape (unAlg c₁) (unAlg c₂) := ⟨rfl, rfl, rfl⟩
theorem C09_ord_shape (c₁ c₂ : Costs) : SameShape (ordAlg c₁) (ordAlg c₂) := ⟨rfl, rfl, rfl⟩

theorem C09_un_edges_scale (k : Nat) (c : Costs) (a : UnAnn) (lab : Kind) (ca : UnAnn) (lc : Kind) :
    (unAlg (scaleCosts k c)).conserv a lab ca lc = scale k ((unAlg c).conserv a lab ca lc) ∧
    (unAlg (scaleCosts k c)).segment a lab ca lc = scale k ((unAlg c).segment a lab ca lc) := by
  simp only [unAlg, scaleCosts]
  cases lab <;> cases lc <;> simp only [] <;> constructor <;>
    first
      | rfl
      | (split <;> simp [Cost.scale])

theorem C09_un_edges_mono {c d : Costs} (h : leCosts c d) (a : UnAnn) (lab : Kind) (ca : UnAnn)
    (lc : Kind) :
    (unAlg c).conserv a lab ca lc ≼ (unAlg d).conserv a lab ca lc ∧
    (unAlg c).segment a lab ca lc ≼ (unAlg d).segment a lab ca lc := by
  have h5 : Cost.fin c.sloss ≼ Cost.fin d.sloss := (Cost.fin_le_fin _ _).mpr h.2.2.2.2
  simp only [unAlg]
  cases lab <;> cases lc <;> simp only [] <;> constructor <;>
    first
      | exact Cost.le_refl _
      | exact h5
      | (split <;> first | exact Cost.le_refl _ | exact h5)

theorem C09_ord_edges_scale (k : Nat) (c : Costs) (a : OrdAnn) (m : Nat) (ca : OrdAnn) (mc : Nat) :
    (ordAlg (scaleCosts k c)).conserv a m ca mc = scale k ((ordAlg c).conserv a m ca mc) ∧
    (ordAlg (scaleCosts k c)).segment a m ca mc = scale k ((ordAlg c).segment a m ca mc) := by
  simp only [ordAlg, scaleCosts]
  constructor <;> split <;> simp [Cost.scale, Nat.mul_left_comm]

theorem C09_ord_edges_mono {c d : Costs} (h : leCosts c d) (a : OrdAnn) (m : Nat) (ca : OrdAnn)
    (mc : Nat) :
    (ordAlg c).conserv a m ca mc ≼ (ordAlg d).conserv a m ca mc ∧
    (ordAlg c).segment a m ca mc ≼ (ordAlg d).segment a m ca mc := by
  have h5 := h.2.2.2.2
  simp only [ordAlg]
  constructor <;> split <;>
    first
      | exact Cost.le_refl _
      | exact (Cost.fin_le_fin _ _).mpr (Nat.mul_le_mul_left _ h5)

/-! ### The unordered solvers -/

/-- Two coherent cost vectors whose generic costs order the labellings alike offer the
    same decoded candidates to the result entry of `uspfs` (one inclusion). -/
theorem C09_uspfs_cands (c₁ c₂ : Costs) (S : RTree) (base : Bool) (o : OTree)
    (hb : S.isBinary = true) (hS : ∀ p ∈ leafSpecies o, S.isNode p = true)
    (hcoh₁ : c₁.spe + c₁.sloss ≤ c₁.dup + 2 * c₁.floss)
    (hcoh₂ : c₂.spe + c₂.sloss ≤ c₂.dup + 2 * c₂.floss)
    (hle : ∀ ls ls', labCost (unAlg c₁) c₁ (annUn S base o [] o) ls
        ≼ labCost (unAlg c₁) c₁ (annUn S base o [] o) ls' →
      labCost (unAlg c₂) c₂ (annUn S base o [] o) ls
        ≼ labCost (unAlg c₂) c₂ (annUn S base o [] o) ls')
    (hfin : ∀ ls, labCost (unAlg c₁) c₁ (annUn S base o [] o) ls ≠ .inf →
      labCost (unAlg c₂) c₂ (annUn S base o [] o) ls ≠ .inf) (f : LSol Kind → Sol) :
    ∀ s ∈ (uspfsCells c₁ S base true o).flatMap (fun d => d.sols.map f),
      s ∈ (uspfsCells c₂ S base true o).flatMap (fun d => d.sols.map f) := by
  intro s
  simp only [uspfsCells, List.mem_flatMap, List.mem_filter, List.mem_map]
  rintro ⟨d, ⟨hd, hlab⟩, ls, hls, rfl⟩
  obtain ⟨d', hd', _, e2, hls', _, _⟩ :=
    dp_sols_transfer (unAlg c₁) (unAlg c₂) c₁ c₂ S (un_slack c₁) (un_slack c₂) hcoh₁ hcoh₂ hb _
      (C03.spOk_annUn c₁ S base o o hS []) (C09_un_shape c₁ c₂) hle hfin d hd ls hls
  exact ⟨d', ⟨hd', by rw [e2]; exact hlab⟩, ls, hls', rfl⟩

/-- **C09 scaling for the unordered solvers** (base and extended; coherent region
    `spe + sloss ≤ dup + 2·floss`, binary species tree containing the leaf species). -/
theorem C09_scale_uspfs (c : Costs) (S : RTree) (base : Bool) (o : OTree)
    (hb : S.isBinary = true) (hS : ∀ p ∈ leafSpecies o, S.isNode p = true)
    (hcoh : c.spe + c.sloss ≤ c.dup + 2 * c.floss) (k : Nat) (hk : 0 < k) :
    (∀ s, s ∈ uspfs (Costs.scale k c) S base o ↔ s ∈ uspfs c S base o) ∧
    (∀ s ∈ uspfs c S base o,
      totalCost (Costs.scale k c) .unordered o s = Cost.scale k (totalCost c .unordered o s)) ∧
    uspfsTableMin (Costs.scale k c) S base o = Cost.scale k (uspfsTableMin c S base o) := by
  have hcoh' := C09_coherent_scale_un k c hcoh
  have hsc := labCost_scale hk (unAlg c) (unAlg (scaleCosts k c)) c
    (fun a lab ca lc => (C09_un_edges_scale k c a lab ca lc).1)
    (fun a lab ca lc => (C09_un_edges_scale k c a lab ca lc).2) (annUn S base o [] o)
  refine ⟨fun s => ?_, fun s _ => C09_eval_scale k c .unordered o s, ?_⟩
  · -- same candidates, then the arg-min is scale-invariant
    have hcands : ∀ s, s ∈ (uspfsCells (scaleCosts k c) S base true o).flatMap
          (fun d => d.sols.map (unSol (annUn S base o [] o) (annUn S base o [] o).data.lcaSet)) ↔
        s ∈ (uspfsCells c S base true o).flatMap
          (fun d => d.sols.map (unSol (annUn S base o [] o) (annUn S base o [] o).data.lcaSet)) := by
      intro s
      constructor
      · refine C09_uspfs_cands _ c S base o hb hS hcoh' hcoh ?_ ?_ _ s
        · intro ls ls' h; rw [hsc, hsc] at h; exact (scale_LE_iff hk _ _).mp h
        · intro ls h e; rw [hsc, e] at h; exact h rfl
      · refine C09_uspfs_cands c _ S base o hb hS hcoh hcoh' ?_ ?_ _ s
        · intro ls ls' h; rw [hsc, hsc]; exact (scale_LE_iff hk _ _).mpr h
        · intro ls h e
          rw [hsc] at e
          cases h' : labCost (unAlg c) c (annUn S base o [] o) ls with
          | inf => exact h h'
          | fin n => rw [h'] at e; cases e
    rw [C09_scale_eq]
    unfold uspfs
    simp only []
    rw [C09_rank_order_free _ _ _ _ _ hcands s]
    exact (C09_rank_scale k hk c .unordered o _).1 s
  · rw [C09_scale_eq]
    unfold uspfsTableMin uspfsCells
    rw [← Cost.scale_minList hk]
    exact Cost.minList_congr_mem (fun x =>
      dp_costs_scale_mem hk (unAlg c) (unAlg (scaleCosts k c)) c S (un_slack c) (un_slack _)
        hcoh hcoh' hb _ (C03.spOk_annUn c S base o o hS []) (C09_un_shape _ _)
        (fun a lab ca lc => (C09_un_edges_scale k c a lab ca lc).1)
        (fun a lab ca lc => (C09_un_edges_scale k c a lab ca lc).2)
        (fun lab => lab == Kind.lca) false false x)

/-- **C09 monotonicity for the unordered optimiser's own minimum** (dearer vector in
    the coherent region). -/
theorem C09_mono_uspfs_table (c c' : Costs) (hcc : leCosts c c') (S : RTree) (base : Bool)
    (o : OTree) (hb : S.isBinary = true) (hS : ∀ p ∈ leafSpecies o, S.isNode p = true)
    (hcoh' : c'.spe + c'.sloss ≤ c'.dup + 2 * c'.floss) :
    Cost.le (uspfsTableMin c S base o) (uspfsTableMin c' S base o) = true := by
  unfold uspfsTableMin uspfsCells
  apply le_minList
  exact dp_min_mono (unAlg c) (unAlg c') c c' S (un_slack c') hcoh' hb _
    (C03.spOk_annUn c S base o o hS []) (C09_un_shape _ _)
    (labCost_mono (unAlg c) (unAlg c') hcc
      (fun a lab ca lc => (C09_un_edges_mono hcc a lab ca lc).1)
      (fun a lab ca lc => (C09_un_edges_mono hcc a lab ca lc).2) _)
    (fun lab => lab == Kind.lca) false false

/-! ### The ordered optimiser's own minimum -/

theorem C09_scale_spfs_table (c : Costs) (S : RTree) (base : Bool) (o : OTree)
    (pre : Option (List Nat)) (hb : S.isBinary = true)
    (hS : ∀ p ∈ leafSpecies o, S.isNode p = true)
    (hcoh : c.spe + 2 * c.sloss ≤ c.dup + 2 * c.floss) (k : Nat) (hk : 0 < k) :
    spfsTableMin (Costs.scale k c) S base o pre = Cost.scale k (spfsTableMin c S base o pre) := by
  have hcoh' : (scaleCosts k c).spe + 2 * (scaleCosts k c).sloss
      ≤ (scaleCosts k c).dup + 2 * (scaleCosts k c).floss := by
    show k * c.spe + 2 * (k * c.sloss) ≤ k * c.dup + 2 * (k * c.floss)
    have := Nat.mul_le_mul_left k hcoh
    rw [Nat.mul_add, Nat.mul_add, Nat.mul_left_comm, Nat.mul_left_comm k 2] at this
    exact this
  rw [C09_scale_eq]
  unfold spfsTableMin spfsCellsFor
  rw [← Cost.scale_minList hk]
  apply Cost.minList_congr_mem
  intro x
  simp only [List.mem_flatMap, List.map_flatMap]
  constructor
  · rintro ⟨order, ho, hx⟩
    exact ⟨order, ho, (dp_costs_scale_mem hk (ordAlg c) (ordAlg (scaleCosts k c)) c S
      (ord_slack c) (ord_slack _) hcoh hcoh' hb _ (spOk_annOrd c S base order o hS true)
      (C09_ord_shape _ _)
      (fun a lab ca lc => (C09_ord_edges_scale k c a lab ca lc).1)
      (fun a lab ca lc => (C09_ord_edges_scale k c a lab ca lc).2)
      (fun lab => lab == 2 ^ order.length - 1) false false x).mp hx⟩
  · rintro ⟨order, ho, hx⟩
    exact ⟨order, ho, (dp_costs_scale_mem hk (ordAlg c) (ordAlg (scaleCosts k c)) c S
      (ord_slack c) (ord_slack _) hcoh hcoh' hb _ (spOk_annOrd c S base order o hS true)
      (C09_ord_shape _ _)
      (fun a lab ca lc => (C09_ord_edges_scale k c a lab ca lc).1)
      (fun a lab ca lc => (C09_ord_edges_scale k c a lab ca lc).2)
      (fun lab => lab == 2 ^ order.length - 1) false false x).mpr hx⟩

theorem C09_mono_spfs_table (c c' : Costs) (hcc : leCosts c c') (S : RTree) (base : Bool)
    (o : OTree) (pre : Option (List Nat)) (hb : S.isBinary = true)
    (hS : ∀ p ∈ leafSpecies o, S.isNode p = true)
    (hcoh' : c'.spe + 2 * c'.sloss ≤ c'.dup + 2 * c'.floss) :
    Cost.le (spfsTableMin c S base o pre) (spfsTableMin c' S base o pre) = true := by
  unfold spfsTableMin spfsCellsFor
  apply le_minList
  intro x hx
  obtain ⟨order, ho, hx⟩ := List.mem_flatMap.mp hx
  have h1 := dp_min_mono (ordAlg c) (ordAlg c') c c' S (ord_slack c') hcoh' hb _
      (spOk_annOrd c S base order o hS true) (C09_ord_shape _ _)
      (labCost_mono (ordAlg c) (ordAlg c') hcc
        (fun a lab ca lc => (C09_ord_edges_mono hcc a lab ca lc).1)
        (fun a lab ca lc => (C09_ord_edges_mono hcc a lab ca lc).2) _)
      (fun lab => lab == 2 ^ order.length - 1) false false x hx
  rcases minList_mem_or_inf (((dpTable (ordAlg c) c S false (annOrd S base order true o)).filter
      (fun d => d.lab == 2 ^ order.length - 1)).map (·.cost)) with h | h
  · rw [h] at h1
    rw [(inf_le _).mp h1]; exact le_inf _
  · exact Cost.le_trans (minList_le (List.mem_flatMap.mpr ⟨order, ho, h⟩)) h1

/-! ### Non-vacuity -/

example : exS.isBinary = true ∧ (∀ p ∈ leafSpecies exO, exS.isNode p = true) ∧
    exC.spe + exC.sloss ≤ exC.dup + 2 * exC.floss ∧
    (uspfs exC exS false exO).map (totalCost exC .unordered exO) = [.fin 4] ∧
    uspfs (Costs.scale 3 exC) exS false exO = uspfs exC exS false exO ∧
    uspfsTableMin exC exS false exO = .fin 4 ∧
    uspfsTableMin (Costs.scale 3 exC) exS false exO = .fin 12 := by
  decide +kernel

example : leCosts exC exC' ∧ exC'.spe + exC'.sloss ≤ exC'.dup + 2 * exC'.floss ∧
    exC'.spe + 2 * exC'.sloss ≤ exC'.dup + 2 * exC'.floss ∧
    uspfsTableMin exC' exS false exO = .fin 10 ∧
    spfsTableMin exC exS false exO none = .fin 5 ∧
    spfsTableMin (Costs.scale 3 exC) exS false exO none = .fin 15 ∧
    spfsTableMin exC' exS false exO none = .fin 10 := by
  refine ⟨⟨?_, ?_, ?_, ?_, ?_⟩, ?_⟩ <;> decide +kernel

end SR.C09
