/-
  C05, the policy ANY of the CODE-STRUCTURED solver models
  (`Model/ThlCode.lean`: `thlCodeAny`).

  The code-structured models take the retention policy as a parameter, exactly as
  the Python solvers do (it flows to the table, to the aggregate entries, to
  `Entry.combine` and to the result entry).  The theorems below relate the run under
  `RetentionPolicy.ANY` to the run of THE SAME model under `RetentionPolicy.ALL`
  (which `C01_thlCode_refines` ties to the label-DP model `thl`), for all inputs:

  * `C05_code_any_table_thl`   at every (object node, species) the two tables are
        instantiated together, hold the SAME VALUE (the value of an `Entry` does not
        depend on the retention policy, `AnyCode.Inv.anySub`), the ANY entry keeps at
        most one tag, which is one of the ALL tags, and keeps one when ALL does;
  * `C05_code_any_decode_thl`  every mapping decoded from the ANY table is decoded
        from the ALL table (same object node, same species), and an ALL cell that
        decodes to something has an ANY decoding;
  * `C05_code_any_card_thl`, `C05_code_any_empty_iff_thl`, `C05_code_any_total_thl`
        at most one solution; none iff the ALL result is empty; exactly one
        otherwise (no hypothesis on the costs, on `S` or on the leaf species);
  * `C05_code_any_mem_thl_of_uniform`   the ANY solution is one of the ALL solutions
        and the two result entries have the same value, PROVIDED the evaluated cost
        is constant on the decodings of each root cell of the ALL table;
  * `C05_code_any_mem_thl`, `C05_code_any_same_cost_thl`, `C05_code_any_opt_thl`
        inside the coherent region `spe ≤ dup + 2·floss`, on a well-formed input (the
        hypotheses of `C05_any_mem_thl`): member of `thlCode`, hence of `thl`; same
        cost as every ALL solution; a minimum-cost valid reconciliation;
  * `C05_code_any_incoherent_witness_thl`   outside the coherent region the
        hypothesis is needed, for the code-structured model too.
-/
import SRVerif.Proofs.AnyCodeThl
import SRVerif.Properties.C01Code

namespace SR.C05

open SR Cost AnyCode

section thl

open ThlCode

variable (c : Costs) (S : RTree) (o : OTree)

/-- The rows of the subtree hanging at a node of `o` are rows of `o`. -/
theorem postorderNodes_sub : ∀ (t : OTree) (v : Path) (q : Path × OTree), q ∈ postorderNodes t v →
    ∀ q' ∈ postorderNodes q.2 q.1, q' ∈ postorderNodes t v := by
  intro t
  induction t with
  | leaf sp f =>
    intro v q hq q' hq'
    simp only [postorderNodes, List.mem_singleton] at hq
    subst hq; exact hq'
  | node l r ihl ihr =>
    intro v q hq q' hq'
    simp only [postorderNodes, List.mem_append, List.mem_singleton] at hq
    rcases hq with (hq | hq) | hq
    · simp only [postorderNodes, List.mem_append]
      exact Or.inl (Or.inl (ihl _ q hq q' hq'))
    · simp only [postorderNodes, List.mem_append]
      exact Or.inl (Or.inr (ihr _ q hq q' hq'))
    · subst hq; exact hq'

theorem rows_sub (r : Retain) : ∀ p ∈ postorderNodes o [],
    Rows r c S (computeTable r c S o) p.2 p.1 :=
  fun p hp q hq => computeTable_rec r c S o q (postorderNodes_sub o [] p hp q hq)

/-- **The two tables.**  At every object node `p.1` and species `s`: instantiated
    together, same value, at most one ANY tag, which is one of the ALL tags, and
    there is one as soon as ALL has one. -/
theorem C05_code_any_table_thl : ∀ p ∈ postorderNodes o [], ∀ s,
    ((computeTable .any c S o).get (p.1, s) = none ↔ (computeTable .all c S o).get (p.1, s) = none) ∧
    (computeTable .any c S o).value (p.1, s) = (computeTable .all c S o).value (p.1, s) ∧
    ((computeTable .any c S o).infos (p.1, s)).length ≤ 1 ∧
    (∀ t ∈ (computeTable .any c S o).infos (p.1, s), t ∈ (computeTable .all c S o).infos (p.1, s)) ∧
    ((computeTable .all c S o).infos (p.1, s) ≠ [] → (computeTable .any c S o).infos (p.1, s) ≠ []) := by
  intro p hp s
  have h := cellRel_rows c S _ _ p.2 p.1 (rows_sub c S o .any p hp) (rows_sub c S o .all p hp) s
  refine ⟨h.isNone, h.value, ?_, h.infos_sub, ?_⟩
  · simp only [Table.infos]
    generalize (computeTable .any c S o).get (p.1, s) = cA at h
    generalize (computeTable .all c S o).get (p.1, s) = cL at h
    cases h with
    | none => simp [Cell.infos]
    | some iA iL hr => exact (Inv.anySub iA iL hr).le1
  · simp only [Table.infos]
    generalize (computeTable .any c S o).get (p.1, s) = cA at h
    generalize (computeTable .all c S o).get (p.1, s) = cL at h
    cases h with
    | none => exact id
    | some iA iL hr => exact (Inv.anySub iA iL hr).nonempty

/-- **Decoding.**  What `_decode_thl_table` generates from the ANY table at (object
    node, species) is generated from the ALL table, and something is generated as
    soon as the ALL table generates something. -/
theorem C05_code_any_decode_thl : ∀ p ∈ postorderNodes o [], ∀ s,
    (∀ sol ∈ decode (computeTable .any c S o) p.2 p.1 s,
      sol ∈ decode (computeTable .all c S o) p.2 p.1 s) ∧
    (decode (computeTable .all c S o) p.2 p.1 s ≠ [] →
      decode (computeTable .any c S o) p.2 p.1 s ≠ []) := by
  intro p hp s
  have hA := rows_sub c S o .any p hp
  have hL := rows_sub c S o .all p hp
  refine ⟨decode_sub c S _ _ p.2 p.1 hA hL s, fun h => ?_⟩
  apply decode_ne_nil .any (by simp) c S _ p.2 p.1 hA s
  intro hn
  exact get_ne_none_of_decode _ p.2 p.1 s h ((cellRel_rows c S _ _ p.2 p.1 hA hL s).isNone.mp hn)

/-- **At most one solution** (all inputs). -/
theorem C05_code_any_card_thl : (thlCodeAny c S o).length ≤ 1 := (reconcile_rel c S o).1

/-- **Empty results coincide** (all inputs, all unit costs). -/
theorem C05_code_any_empty_iff_thl : thlCodeAny c S o = [] ↔ thlCode c S o = [] :=
  (reconcile_rel c S o).2.1

/-- **Exactly one solution** whenever the ALL result is not empty. -/
theorem C05_code_any_total_thl (hne : thlCode c S o ≠ []) : (thlCodeAny c S o).length = 1 := by
  have h1 : thlCodeAny c S o ≠ [] := fun h => hne ((C05_code_any_empty_iff_thl c S o).mp h)
  have h2 := C05_code_any_card_thl c S o
  cases hl : thlCodeAny c S o with
  | nil => exact absurd hl h1
  | cons x xs => rw [hl] at h2; simp at h2; simp [h2]

/-- The evaluated cost is constant on the decodings of each root cell of the ALL table. -/
def UniformThl (c : Costs) (S : RTree) (o : OTree) : Prop :=
  ∀ s ∈ S.levelorder, ∀ x ∈ decode (computeTable .all c S o) o [] s,
    ∀ y ∈ decode (computeTable .all c S o) o [] s, recCost c o x = recCost c o y

/-- Membership and equal values, under the exact hypothesis. -/
theorem C05_code_any_mem_thl_of_uniform (hu : UniformThl c S o) :
    (reconcile .any c S o).value = (reconcile .all c S o).value ∧
    ∀ sol ∈ thlCodeAny c S o, sol ∈ thlCode c S o :=
  (reconcile_rel c S o).2.2 hu

/-- Inside the coherent region the table value is the evaluated cost of every
    decoding (`C01_thlCode_decode`, `C01_thl_cell_exact`). -/
theorem uniformThl (hb : S.isBinary = true) (hS : ∀ p ∈ leafSpecies o, S.isNode p = true)
    (hcoh : c.spe ≤ c.dup + 2 * c.floss) : UniformThl c S o := by
  intro s _ x hx y hy
  have hdec := C01.C01_thlCode_decode c S o hS ([], o) (root_mem_postorderNodes o []) s
  obtain ⟨d, hd, hsp, lx, hlx, rfl⟩ := (hdec x).mp hx
  obtain ⟨d', hd', hsp', ly, hly, rfl⟩ := (hdec y).mp hy
  have hdd : d' = d := dp_functional thlAlg c S true _ hd' hd (by rw [hsp', hsp]) rfl
  subst hdd
  obtain ⟨hex, _, _⟩ := C01.C01_thl_cell_exact c S o hb hS hcoh d' hd
  rw [hex lx hlx, hex ly hly]

/-- **C05 (`any` ∈ `all`) for the code-structured `reconcile_thl`**: inside the
    coherent region, on a well-formed input, the solution returned under ANY is one
    of those returned under ALL by the same code — hence by the label-DP model. -/
theorem C05_code_any_mem_thl (hb : S.isBinary = true) (hS : ∀ p ∈ leafSpecies o, S.isNode p = true)
    (hcoh : c.spe ≤ c.dup + 2 * c.floss) :
    ∀ sol ∈ thlCodeAny c S o, sol ∈ thlCode c S o ∧ sol ∈ thl c S o := by
  intro sol hsol
  have h := (C05_code_any_mem_thl_of_uniform c S o (uniformThl c S o hb hS hcoh)).2 sol hsol
  exact ⟨h, ((C01.C01_thlCode_refines c S o hS).1 sol).mp h⟩

/-- Both policies agree on the cost: the two result entries have the same value,
    which is the evaluated cost of the ANY solution and of every ALL solution. -/
theorem C05_code_any_same_cost_thl (hb : S.isBinary = true)
    (hS : ∀ p ∈ leafSpecies o, S.isNode p = true) (hcoh : c.spe ≤ c.dup + 2 * c.floss) :
    (reconcile .any c S o).value = (reconcile .all c S o).value ∧
    ∀ sol ∈ thlCodeAny c S o, ∀ sol' ∈ thlCode c S o,
      totalCost c .plain o sol = totalCost c .plain o sol' := by
  refine ⟨(C05_code_any_mem_thl_of_uniform c S o (uniformThl c S o hb hS hcoh)).1, ?_⟩
  intro sol hsol sol' hsol'
  have h := (C05_code_any_mem_thl c S o hb hS hcoh sol hsol).1
  have e1 := (C01.C01_thlCode_refines c S o hS).2.2 sol h
  have e2 := (C01.C01_thlCode_refines c S o hS).2.2 sol' hsol'
  exact toExt_inj (e1.symm.trans e2)

/-- Hence the single ANY solution is a minimum-cost valid reconciliation. -/
theorem C05_code_any_opt_thl (hb : S.isBinary = true) (hS : ∀ p ∈ leafSpecies o, S.isNode p = true)
    (hcoh : c.spe ≤ c.dup + 2 * c.floss) :
    (thlCodeAny c S o).length = 1 ∧ ∀ sol ∈ thlCodeAny c S o,
      Spec.validRec o sol = true ∧
      ∀ sol', Spec.validRec o sol' = true → sol' ∈ Spec.allMappings S o →
        Cost.le (totalCost c .plain o sol) (totalCost c .plain o sol') = true :=
  ⟨C05_code_any_total_thl c S o (C01.C01_thlCode_total c S o hb hS),
    fun sol h => C01.C01_thlCode_optimal c S o hb hS hcoh sol
      (C05_code_any_mem_thl c S o hb hS hcoh sol h).1⟩

/-- Outside the coherent region `any ∈ all` FAILS for the code-structured model:
    the ANY solution costs 7, the eight ALL solutions cost 6 (the witness of
    `C05_any_incoherent_witness`; the real `reconcile_thl(…, ANY)` returns exactly
    this solution on this input). -/
theorem C05_code_any_incoherent_witness_thl :
    let c : Costs := { spe := 3, dup := 0, hgt := .fin 2, floss := 1, sloss := 0 }
    let S : RTree := .node [.node [.node [], .node []], .node [.node [], .node []]]
    let o : OTree := .node (.node (.leaf [0, 1] []) (.leaf [0, 0] []))
      (.node (.leaf [1, 1] []) (.leaf [1, 0] []))
    let any : Sol := .node [0, 0] [] (.node [0, 0] [] (.leaf [0, 1] []) (.leaf [0, 0] []))
      (.node [1] [] (.leaf [1, 1] []) (.leaf [1, 0] []))
    S.isBinary = true ∧ (∀ p ∈ leafSpecies o, S.isNode p = true) ∧
    ¬ c.spe ≤ c.dup + 2 * c.floss ∧
    thlCodeAny c S o = [any] ∧ any ∉ thlCode c S o ∧
    (reconcile .any c S o).value = .fin 7 ∧ (reconcile .all c S o).value = .fin 6 ∧
    (thlCode c S o).length = 8 := by
  decide +kernel

/-! ### Non-vacuity -/

/-- A coherent well-formed input with five co-optimal reconciliations: the ANY run
    returns one of the five, of the same cost; the root cell of the ALL table keeps
    several tags where the ANY table keeps one. -/
example :
    let c : Costs := { spe := 1, dup := 1, hgt := .fin 1, floss := 1, sloss := 1 }
    let S : RTree := .node [.node [.node [], .node []], .node []]
    let o : OTree := .node (.node (.leaf [0, 0] []) (.leaf [1] [])) (.leaf [0, 1] [])
    S.isBinary = true ∧ (∀ p ∈ leafSpecies o, S.isNode p = true) ∧
    c.spe ≤ c.dup + 2 * c.floss ∧ (thlCode c S o).length = 5 ∧
    (thlCodeAny c S o).length = 1 ∧ (∀ s ∈ thlCodeAny c S o, s ∈ thlCode c S o) ∧
    (reconcile .any c S o).value = .fin 2 ∧ (reconcile .all c S o).value = .fin 2 ∧
    2 ≤ ((computeTable .all c S o).infos ([], [0, 1])).length ∧
    ((computeTable .any c S o).infos ([], [0, 1])).length = 1 := by
  decide +kernel

/-- Transfers forbidden and a leaf species outside `S`: both results are empty. -/
example :
    let c : Costs := { spe := 0, dup := 1, hgt := .inf, floss := 1, sloss := 1 }
    let S : RTree := .node [.node [], .node []]
    let o : OTree := .node (.leaf [0] []) (.leaf [2] [])
    thlCode c S o = [] ∧ thlCodeAny c S o = [] := by
  decide +kernel

end thl

end SR.C05
