/-
  C13 — a diagram shows exactly the events the cost model counts:
  the clauses left open by `Properties/C13.lean`.

  * `C13_nodes`  : `C13_nodes_statement` in full (existence, kind, converse and
    UNIQUENESS: all branch keys over all species are pairwise distinct).
  * `C13_keys_nodup` : the uniqueness part alone, with no validity hypothesis
    (this is the theorem `Model/Layout.lean` refers to: pseudo-gene identifiers
    `(lineage, species)` are as distinct as fresh Python objects).
  * `C13_losses` : `C13_losses_statement` in full (the COUNT of `FULL_LOSS`
    pseudo-genes is `evalLossCount`), from the stronger `C13_losses_multiset`
    (the multiset of `(lineage, species)` of the pseudo-genes is the multiset
    of full-loss records of the specification, whose species are the `floss`
    records of C06's `eventLog`); `C13_losses_cost` ties the number of markers
    to `recCost`.

  Proof route (`Proofs/BranchesPlan|Nodup|Loss.lean`): a successful run of
  `_compute_branches` applied exactly the state-free plan `fullPlan`
  (`computeBranches_plan`, no validity needed); uniqueness and the loss
  multiset are properties of that plan.
-/
import SRVerif.Properties.C13
import SRVerif.Properties.C06
import SRVerif.Proofs.BranchesLoss

namespace SR.C13

open SR SR.Layout SR.EventLog

/-- **C13, keys**: whenever `_compute_branches` succeeds (valid input or
    not), the keys of all branches of all species are pairwise distinct: no
    object node and no pseudo-gene `(lineage, species)` gets a second branch. -/
theorem C13_keys_nodup (S : RTree) (sol : Sol) (st : LState)
    (hst : computeBranches S sol = .ok st) :
    (S.postorder.flatMap fun t => keysOf (brs st t)).Nodup :=
  computeBranches_keys_nodup hst

/-- **C13, nodes** (full): exactly one event branch per object node, in the
    species it is mapped to, of the evaluator's kind; every non-loss branch is
    the branch of an object node; and no key occurs twice. -/
theorem C13_nodes (S : RTree) (o : OTree) (sol : Sol) (st : LState)
    (hv : Spec.validRec o sol = true) (hin : inTree S sol = true)
    (hst : computeBranches S sol = .ok st) : C13_nodes_statement S sol st :=
  ⟨(C13_nodes_partial S o sol st hv hin hst).1, (C13_nodes_partial S o sol st hv hin hst).2,
    C13_keys_nodup S sol st hst⟩

/-- Spelled out: the branch of an object node is unique over ALL species. -/
theorem C13_nodes_unique (S : RTree) (o : OTree) (sol : Sol) (st : LState)
    (hv : Spec.validRec o sol = true) (hin : inTree S sol = true)
    (hst : computeBranches S sol = .ok st) (p : Path) (sub : Sol) (hp : subAt sol p = some sub) :
    (S.postorder.flatMap fun t => (brs st t).filter fun b => b.key = .gene p).length = 1 := by
  obtain ⟨hex, _, hnd⟩ := C13_nodes S o sol st hv hin hst
  obtain ⟨b, hb, hkey, _⟩ := hex p sub hp
  obtain ⟨st', ok, hk, _⟩ := computeBranches_ok (good_of_valid hv hin)
  rw [hst] at ok; cases ok
  have hsp : sub.sp ∈ S.postorder := by
    rw [← hk]
    cases hx : getSp st sub.sp with
    | none => simp [brs, hx] at hb
    | some x => exact (getSp_isSome_iff st sub.sp).1 (by simp [hx])
  have hcount : (S.postorder.flatMap fun t => keysOf (brs st t)).count (.gene p) = 1 := by
    apply List.count_eq_one_of_mem hnd
    simp only [List.mem_flatMap, keysOf, List.mem_map]
    exact ⟨sub.sp, hsp, b, hb, hkey⟩
  rw [← hcount, List.count_eq_countP, List.countP_eq_length_filter]
  simp only [keysOf, ← List.map_flatMap, List.filter_map, List.length_map]
  congr 1
  rw [List.filter_flatMap]
  congr 1

example : (computeBranches exS exSol).toOption.isSome = true := by decide

/-! ### Losses -/

/-- The `(lineage, species)` of the `FULL_LOSS` pseudo-genes of a state: for
    every species `t` of the tree, the lineages of the loss branches sitting
    in `t`. -/
def lossMarkers (S : RTree) (st : LState) : List (Path × Path) :=
  S.postorder.flatMap fun t => ((brs st t).filter fun b => b.kind == .loss).map fun b => (b.key.lin, t)

/-- **C13, losses, as multisets** (the strong form of DESIGN §7): the
    `(lineage, species)` pairs of the `FULL_LOSS` pseudo-genes are, up to order,
    the full-loss records of the specification (`lossRecs`: for every internal
    node and each of its two child lineages, the species crossed by the
    vertical branch, `EventLog.vertical`, the node's own species excepted at a
    speciation) — and the species components of these records are exactly,
    in order, the `floss` records of C06's event log. -/
theorem C13_losses_multiset (S : RTree) (o : OTree) (sol : Sol) (st : LState)
    (hv : Spec.validRec o sol = true) (hin : inTree S sol = true)
    (hst : computeBranches S sol = .ok st) :
    (lossMarkers S st).Perm (lossRecs sol []) ∧
      (lossRecs sol []).map (·.2) = lossSpecies (recLog sol) := by
  refine ⟨?_, lossRecs_species sol []⟩
  have hp := computeBranches_lossKeys (good_of_valid hv hin) hst
  have hloc := C13_losses_partial S o sol st hv hin hst
  let un : Key → Path × Path := fun k => match k with
    | .loss g t => (g, t)
    | .gene p => (p, p)
  have h1 := hp.map un
  have e2 : ((lossRecs sol []).map toKey).map un = lossRecs sol [] := by
    rw [List.map_map]
    conv => rhs; rw [← List.map_id (lossRecs sol [])]
    apply List.map_congr_left
    intro x _; rfl
  rw [e2] at h1
  refine List.Perm.trans (List.Perm.of_eq ?_) h1
  unfold lossMarkers
  rw [List.map_flatMap]
  apply List.flatMap_congr
  intro t _
  rw [List.map_map]
  apply List.map_congr_left
  intro b hb
  simp only [List.mem_filter, beq_iff_eq] at hb
  obtain ⟨q, sp, f, l, r, i, a, _, _, hkey, _⟩ := hloc t b hb.1 hb.2
  simp [Function.comp, hkey, un, Key.lin]

/-- The species in which the loss markers sit are, as a multiset, the species
    of the `floss` records of the evaluator's event log. -/
theorem C13_losses_species (S : RTree) (o : OTree) (sol : Sol) (st : LState)
    (hv : Spec.validRec o sol = true) (hin : inTree S sol = true)
    (hst : computeBranches S sol = .ok st) :
    ((lossMarkers S st).map (·.2)).Perm (lossSpecies (recLog sol)) := by
  obtain ⟨h1, h2⟩ := C13_losses_multiset S o sol st hv hin hst
  rw [← h2]
  exact h1.map _

theorem length_lossMarkers (S : RTree) (st : LState) :
    (lossMarkers S st).length =
      (S.postorder.map fun t => ((brs st t).filter fun b => b.kind == .loss).length).sum := by
  simp [lossMarkers, List.length_flatMap]

/-- **C13, losses** (full): the number of `FULL_LOSS` pseudo-genes is the
    evaluator's full-loss count, and each of them sits where C13_losses_partial
    says. -/
theorem C13_losses (S : RTree) (o : OTree) (sol : Sol) (st : LState)
    (hv : Spec.validRec o sol = true) (hin : inTree S sol = true)
    (hst : computeBranches S sol = .ok st) : C13_losses_statement S sol st := by
  refine ⟨?_, C13_losses_partial S o sol st hv hin hst⟩
  rw [← length_lossMarkers, (C13_losses_multiset S o sol st hv hin hst).1.length_eq]
  exact length_lossRecs sol [] (allEvents_of_validRec o sol hv)

/-- The evaluator's count `evalLossCount` (distances) is the number of `floss`
    records of C06's event log. -/
theorem evalLossCount_eq_nFloss (o : OTree) (sol : Sol) (hv : Spec.validRec o sol = true) :
    evalLossCount sol = nFloss (recLog sol) := by
  rw [nFloss_eq_length, ← lossRecs_species sol [], List.length_map,
    length_lossRecs sol [] (allEvents_of_validRec o sol hv)]

/-- **C13, losses and the cost**: the reconciliation cost of the drawn
    reconciliation is `spe·#S + dup·#D + floss·(number of loss markers) + hgt·#T`. -/
theorem C13_losses_cost (c : Costs) (S : RTree) (o : OTree) (sol : Sol) (st : LState)
    (hv : Spec.validRec o sol = true) (hin : inTree S sol = true)
    (hst : computeBranches S sol = .ok st) :
    recCost c o sol =
      .fin (c.spe * nSpec (recLog sol) + c.dup * nDup (recLog sol)
            + c.floss * (lossMarkers S st).length)
        + times (nHgt (recLog sol)) c.hgt := by
  rw [length_lossMarkers, (C13_losses S o sol st hv hin hst).1, evalLossCount_eq_nFloss o sol hv]
  exact SR.C06.C06_rec_counts c o sol hv

/-- Non-vacuity: in the running example the duplication in species `[0]` sends
    its left copy (lineage `[0,0]`) down to `[0,0]`: one full loss, in `[0]`. -/
example : evalLossCount exSol = 1 ∧ lossRecs exSol [] = [([0, 0], [0])] := by decide

example : (match computeBranches exS exSol with
    | .ok st => lossMarkers exS st
    | .error _ => []) = [([0, 0], [0])] := by decide

/-- A duplication at the root whose two copies both end up in `[0,0]`: four
    full losses (each lineage crosses `[]` and `[0]`). -/
def exSol4 : Sol := .node [] [] (.leaf [0, 0] []) (.leaf [0, 0] [])

example : Spec.validRec (.node (.leaf [0, 0] []) (.leaf [0, 0] [])) exSol4 = true ∧
    inTree exS exSol4 = true ∧ evalLossCount exSol4 = 4 ∧
    (match computeBranches exS exSol4 with
      | .ok st => lossMarkers exS st
      | .error _ => []) = [([0], [0]), ([1], [0]), ([0], []), ([1], [])] := by decide

end SR.C13
