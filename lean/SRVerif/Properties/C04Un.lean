/-
  C04 for the UNORDERED solvers (`uspfs`: `usreconcile_base_uspfs` /
  `usreconcile_extended_uspfs`): the family-placement clause and finiteness of the
  evaluated cost — `C04_unord_statement` of `Properties/C04Dp.lean`, for ALL inputs
  and ALL cost vectors (no well-formedness, no coherence, `sloss = 0` included).

  * `C04_unord_labels`  every returned solution satisfies `Spec.validUnLabels`: leaf
      sets are the input's (as sorted sets); every internal node holds only families
      whose gain node (LCA of the leaves carrying the family) is an ancestor-or-self of
      it (`Spec.allowedContent`); every family of a child is a family of its parent or
      is gained at the child (`Spec.edgeOk .unordered`).
  * `C04_unord_finite`  its evaluated cost is finite.
  * `C04_unord`         = `C04_unord_statement`.
  * `C04_unord_decoded` the same for EVERY solution decoded from a root cell, before
      the result entry ranks them (what the policy `any` may pick from).
  * `C04_unord_required` moreover every node holds at least its required content
      (`Spec.requiredContent`: the families carried below it that are not gained
      strictly below it), i.e. the returned labelling lies between required and
      allowed content — the solution space of C03's full statement.

  Route (DESIGN §7 C04): `annUn`'s `lcaSet` at path `p` is `Spec.requiredContent whole p`
  as a set (`mem_lcaSet`, Proofs/UnContent.lean); induction on `unSol` with the
  invariants `anc ⊆ allowed p`, `required p ⊆ anc ∪ gains p`
  (`validUn_unSol`, Proofs/UnContentDecode.lean).  A leaf is never INHERIT
  (`leafLab = .lca`), so a decoded leaf always gets its own set.
-/
import SRVerif.Properties.C04Dp
import SRVerif.Properties.C03Kinds

namespace SR.C04

open SR Cost

/-- Every solution decoded from a root cell of kind LCA: labels valid, cost finite. -/
theorem C04_unord_decoded (c : Costs) (S : RTree) (base : Bool) (o : OTree) :
    let t := annUn S base o [] o
    ∀ d ∈ uspfsCells c S base true o, ∀ ls ∈ d.sols,
      Spec.validUnLabels o [] o (unSol t t.data.lcaSet ls) = true ∧
      totalCost c .unordered o (unSol t t.data.lcaSet ls) ≠ .inf := by
  intro t d hd ls hls
  obtain ⟨adm, hlab, hfin⟩ := C03.decoded_facts c S base o d hd ls hls
  constructor
  · refine validUn_unSol c S base o o [] _ ls (isSub_root o) adm ?_ ?_
    · intro x hx
      exact required_sub_allowed ((mem_lcaSet S base o o [] (isSub_root o) x).mp hx)
    · intro x hx
      exact Or.inl ((mem_lcaSet S base o o [] (isSub_root o) x).mpr hx)
  · rw [C03.C03_kinds_faithful_adm c S base o ls adm hlab hfin]
    exact hfin

theorem mem_uspfs_decoded {c : Costs} {S : RTree} {base : Bool} {o : OTree} {sol : Sol}
    (h : sol ∈ uspfs c S base o) :
    ∃ d ∈ uspfsCells c S base true o, ∃ ls ∈ d.sols,
      sol = unSol (annUn S base o [] o) (annUn S base o [] o).data.lcaSet ls := by
  have := ((mem_rankByCost c .unordered o _ sol).mp h).1
  simp only [List.mem_flatMap, List.mem_map] at this
  obtain ⟨d, hd, ls, hls, rfl⟩ := this
  exact ⟨d, hd, ls, hls, rfl⟩

/-- Family placement of every returned solution. -/
theorem C04_unord_labels (c : Costs) (S : RTree) (base : Bool) (o : OTree) :
    ∀ sol ∈ uspfs c S base o, Spec.validUnLabels o [] o sol = true := by
  intro sol h
  obtain ⟨d, hd, ls, hls, rfl⟩ := mem_uspfs_decoded h
  exact (C04_unord_decoded c S base o d hd ls hls).1

/-- The evaluated cost of every returned solution is finite. -/
theorem C04_unord_finite (c : Costs) (S : RTree) (base : Bool) (o : OTree) :
    ∀ sol ∈ uspfs c S base o, totalCost c .unordered o sol ≠ .inf := by
  intro sol h
  obtain ⟨d, hd, ls, hls, rfl⟩ := mem_uspfs_decoded h
  exact (C04_unord_decoded c S base o d hd ls hls).2

/-- **C04 for the unordered solvers**: every input, every cost vector, both variants. -/
theorem C04_unord : C04_unord_statement := by
  intro c S base o sol h
  refine ⟨?_, C04_unord_finite c S base o sol h⟩
  simp only [Spec.validSol, Bool.and_eq_true]
  exact ⟨C04_rec_uspfs c S base o sol h, C04_unord_labels c S base o sol h⟩

/-- Every node of a labelled solution holds its required content. -/
def holdsRequired (whole : OTree) : Path → Sol → Prop
  | p, .leaf _ f => ∀ x ∈ Spec.requiredContent whole p, x ∈ f
  | p, .node _ f l r =>
    (∀ x ∈ Spec.requiredContent whole p, x ∈ f) ∧
      holdsRequired whole (p ++ [0]) l ∧ holdsRequired whole (p ++ [1]) r

theorem holdsRequired_unSol (c : Costs) (S : RTree) (base : Bool) (whole : OTree) :
    ∀ (sub : OTree) (p : Path) (anc : List Nat) (ls : LSol Kind),
      IsSub whole p sub → Adm (unAlg c) (annUn S base whole p sub) ls →
      (∀ x ∈ Spec.requiredContent whole p, x ∈ anc ∨ x ∈ gainsAt whole p) →
      holdsRequired whole p (unSol (annUn S base whole p sub) anc ls) := by
  intro sub
  induction sub with
  | leaf sp f0 =>
    intro p anc ls hsub hadm _
    cases ls with
    | node => simp [annUn, Adm] at hadm
    | leaf s k =>
      simp only [annUn, Adm, unAlg] at hadm
      obtain ⟨_, rfl⟩ := hadm
      intro x hx
      exact (mem_lcaSet S base whole (.leaf sp f0) p hsub x).mpr hx
  | node l r ihl ihr =>
    intro p anc ls hsub hadm hreq
    obtain ⟨hl, hr⟩ := isSub_child hsub
    have ha := annAt_annUn S base whole _ p hsub
    rw [annUn_node] at hadm ⊢
    cases ls with
    | leaf => simp [Adm] at hadm
    | node s k x y =>
      simp only [Adm] at hadm
      obtain ⟨_, _, ax, ay⟩ := hadm
      rw [unSol_node]
      have hfr := content_required ha hreq k
      exact ⟨hfr, ihl _ _ x hl ax (child_required hfr), ihr _ _ y hr ay (child_required hfr)⟩

/-- Every returned solution lies between required and allowed content. -/
theorem C04_unord_required (c : Costs) (S : RTree) (base : Bool) (o : OTree) :
    ∀ sol ∈ uspfs c S base o, holdsRequired o [] sol := by
  intro sol h
  obtain ⟨d, hd, ls, hls, rfl⟩ := mem_uspfs_decoded h
  obtain ⟨adm, _, _⟩ := C03.decoded_facts c S base o d hd ls hls
  refine holdsRequired_unSol c S base o o [] _ ls (isSub_root o) adm ?_
  intro x hx
  exact Or.inl ((mem_lcaSet S base o o [] (isSub_root o) x).mpr hx)

/-! Non-vacuity: an input with `sloss = 0` (where the pinned tree's validity test was
    disabled) on which the extended solver returns two solutions, one of them with an
    INHERIT node holding `{1, 2}` above leaves holding `{1}`; the base solver returns
    solutions too. -/
example :
    let c : Costs := { spe := 0, dup := 1, hgt := .fin 1, floss := 1, sloss := 0 }
    let S : RTree := .node [.node [], .node []]
    let o : OTree :=
      .node (.node (.leaf [0] [1, 2]) (.node (.leaf [0] [1]) (.leaf [0] [1]))) (.leaf [1] [1, 2])
    (uspfs c S false o).length = 2 ∧ uspfs c S true o ≠ [] ∧
    (uspfs c S false o).any (fun sol => match sol with
      | .node _ _ (.node _ _ _ (.node _ f _ _)) _ => f == [1, 2] | _ => false) = true := by
  decide +kernel

/-- The specification is not trivially true: a labelling that places family 2 outside
    the subtree of its gain node is rejected. -/
example :
    let o : OTree := .node (.node (.leaf [0] [1, 2]) (.leaf [0] [1, 2])) (.leaf [1] [1])
    Spec.validUnLabels o [] o
      (.node [] [1, 2] (.node [0] [1, 2] (.leaf [0] [1, 2]) (.leaf [0] [1, 2])) (.leaf [1] [1])) = false ∧
    Spec.validUnLabels o [] o
      (.node [] [1] (.node [0] [1, 2] (.leaf [0] [1, 2]) (.leaf [0] [1, 2])) (.leaf [1] [1])) = true := by
  decide +kernel

end SR.C04
