/-
  C18 — Subsequence masks and segment distances are exact.

  Model: `SRVerif/Model/Subseq.lean` (`maskFromSubseq`, `subseqFromMask`,
  `subseqComplete`, `subseqSegmentDist` = the four functions of
  `superrec2/utils/subsequences.py`, masks as `Nat`, `IndexError` as `none`).
  Specification: `SRVerif/Spec/Subseq.lean` (`Contained` by `Nat.testBit`,
  `keptPattern` = the child's bits at the positions of the parent's set bits,
  `lostRuns edges` = number of maximal runs of lost positions, the runs
  touching either end being dropped when `edges = false`).

  All statements are for arbitrary masks / sequences (no size bound).
-/
import SRVerif.Proofs.SubseqSeq
import SRVerif.Proofs.SubseqRuns

namespace SR.C18

open SR.SubseqSpec SR.SubseqProofs

variable {α : Type} [DecidableEq α]

/-! ### Round trips -/

/-- Subsequence → mask → subsequence is the identity.  (Holds for every
    subsequence of every parent; distinctness of the parent's elements is not
    even needed in this direction because the matching is greedy.) -/
theorem C18_roundtrip_seq (child parent : List α) (h : child.Sublist parent) :
    subseqFromMask (maskFromSubseq child parent) parent = some child :=
  roundtrip_seq parent child h

example : subseqFromMask (maskFromSubseq [2, 3, 6] [1, 2, 3, 4, 5, 6]) [1, 2, 3, 4, 5, 6]
    = some [2, 3, 6] := C18_roundtrip_seq _ _ (by decide)

/-- Mask → subsequence → mask is the identity: every mask that fits the
    parent (elements distinct) decodes, without error, to a subsequence of the
    parent whose mask is the original one. -/
theorem C18_roundtrip_mask (mask : Nat) (parent : List α) (hnd : parent.Nodup)
    (h : mask < 2 ^ parent.length) :
    ∃ child, subseqFromMask mask parent = some child ∧ child.Sublist parent ∧
      maskFromSubseq child parent = mask :=
  roundtrip_mask parent hnd mask h

example : ∃ child, subseqFromMask 0b100110 [1, 2, 3, 4, 5, 6] = some child ∧
    child.Sublist [1, 2, 3, 4, 5, 6] ∧ maskFromSubseq child [1, 2, 3, 4, 5, 6] = 0b100110 :=
  C18_roundtrip_mask _ _ (by decide) (by decide)

/-- Distinctness is necessary for `C18_roundtrip_mask`: with a repeated
    element the mask `0b10` decodes to `[7]`, whose mask is `0b01`. -/
example : maskFromSubseq [7] [7, 7] = 1 := by decide

omit [DecidableEq α] in
/-- `subseq_from_mask` fails (Python: `IndexError`) exactly on the masks that
    have a set bit beyond the parent. -/
theorem C18_from_mask_defined (mask : Nat) (parent : List α) :
    (subseqFromMask mask parent).isSome = true ↔ mask < 2 ^ parent.length :=
  subseqFromMask_isSome_iff parent mask

example : (subseqFromMask 4 [1, 2]).isSome = false := by
  have := C18_from_mask_defined 4 [1, 2]
  cases h : (subseqFromMask 4 [1, 2]).isSome
  · rfl
  · exact absurd (this.1 h) (by decide)

/-- Masks fit the parent: they are below `2 ^ |parent|`, i.e. at most the
    complete mask. -/
theorem C18_mask_lt (child parent : List α) :
    maskFromSubseq child parent < 2 ^ parent.length ∧
    maskFromSubseq child parent ≤ subseqComplete parent := by
  have := mask_lt parent child
  refine ⟨this, ?_⟩
  unfold subseqComplete
  omega

example : maskFromSubseq [2, 3] [1, 2, 3] = 6 ∧ subseqComplete [1, 2, 3] = 7 := by decide

/-- `subseq_complete` is the mask of the whole sequence. -/
theorem C18_complete (parent : List α) :
    maskFromSubseq parent parent = subseqComplete parent :=
  mask_self parent

example : maskFromSubseq [1, 2, 3] [1, 2, 3] = 7 ∧ subseqComplete [1, 2, 3] = 7 := by decide

/-- The bits of a mask (parent elements distinct): bit `i` is set exactly when
    the `i`-th parent element belongs to the subsequence. -/
theorem C18_mask_bits (child parent : List α) (hnd : parent.Nodup) (h : child.Sublist parent)
    (i : Nat) :
    (maskFromSubseq child parent).testBit i = true ↔ ∃ x, parent[i]? = some x ∧ x ∈ child :=
  mask_testBit parent hnd child h i

example : (maskFromSubseq [2, 3] [1, 2, 3]).testBit 1 = true :=
  (C18_mask_bits [2, 3] [1, 2, 3] (by decide) (by decide) 1).2 ⟨2, by decide, by decide⟩

/-! ### Segment distance -/

/-- The specification's containment is the usual bit formula. -/
theorem C18_contained_iff_land (child parent : Nat) :
    Contained child parent ↔ child &&& parent = child := by
  constructor
  · intro h
    apply Nat.eq_of_testBit_eq
    intro i
    rw [Nat.testBit_and]
    cases hc : child.testBit i
    · rfl
    · simp [h i hc]
  · intro h i hi
    rw [← h, Nat.testBit_and] at hi
    simp only [Bool.and_eq_true] at hi
    exact hi.2

example : Contained 0b0100_0010 0b1100_0010 := (C18_contained_iff_land _ _).2 (by decide)
example : ¬ Contained 0b111 0b110 := fun h => absurd ((C18_contained_iff_land _ _).1 h) (by decide)

/-- For a non-empty child mask the distance is `-1` exactly when the child is
    not contained in the parent. -/
theorem C18_dist_neg (child parent : Nat) (edges : Bool) (hc : child ≠ 0) :
    subseqSegmentDist child parent edges = -1 ↔ ¬ Contained child parent := by
  rw [subseqSegmentDist_eq]
  by_cases h : Contained child parent
  · simp only [h, if_true, not_true_eq_false, iff_false]
    rw [walkResult_eq edges _ (mem_keptPattern_of_contained hc h)]
    omega
  · simp [h]

example : subseqSegmentDist 0b111 0b110 true = -1 :=
  (C18_dist_neg _ _ _ (by decide)).2
    (fun h => absurd ((C18_contained_iff_land _ _).1 h) (by decide))

/-- For a non-empty child mask contained in the parent the distance is the
    number of maximal runs of parent positions missing from the child; runs
    touching either end are ignored when `edges = false`. -/
theorem C18_dist_runs (child parent : Nat) (edges : Bool) (hc : child ≠ 0)
    (h : Contained child parent) :
    subseqSegmentDist child parent edges = (lostRuns edges (keptPattern child parent) : Nat) := by
  rw [subseqSegmentDist_eq, if_pos h, walkResult_eq edges _ (mem_keptPattern_of_contained hc h)]

example : subseqSegmentDist 0b1100_0010 0b1110_0011 true
    = (lostRuns true (keptPattern 0b1100_0010 0b1110_0011) : Nat) :=
  C18_dist_runs _ _ _ (by decide) ((C18_contained_iff_land _ _).2 (by decide))

/-- A pattern with an inner and an outer lost run: 2 runs with the ends,
    1 without (the specification itself is not trivial). -/
example : lostRuns true [false, true, false, true] = 2
    ∧ lostRuns false [false, true, false, true] = 1
    ∧ lostRuns false [false, true, false] = 0
    ∧ lostRuns true [false, false, true, false, false, true, true, false] = 3 := by decide

/-- The specification's run count is the literal one: the number of maximal
    constant groups of lost positions (`List.splitBy`), taken after stripping
    the lost positions at both ends when the ends are excluded. -/
theorem C18_runs_groups (edges : Bool) (l : List Bool) :
    lostRuns edges l = lostGroups (if edges then l else trimLost l) :=
  lostRuns_eq_groups edges l

example : trimLost [false, false, true, false, true, false] = [true, false, true]
    ∧ lostGroups [false, false, true, false, true, false] = 3
    ∧ lostGroups (trimLost [false, false, true, false, true, false]) = 1 := by decide

/-- Both clauses at once, against the executable specification. -/
theorem C18_dist (child parent : Nat) (edges : Bool) (hc : child ≠ 0) :
    subseqSegmentDist child parent edges = SubseqSpec.segmentDist child parent edges := by
  unfold SubseqSpec.segmentDist
  by_cases h : Contained child parent
  · rw [if_pos ((containedB_iff _ _).2 h)]
    exact C18_dist_runs child parent edges hc h
  · have hb : containedB child parent = false := by
      cases hb : containedB child parent
      · rfl
      · exact absurd ((containedB_iff _ _).1 hb) h
    rw [hb]
    exact (C18_dist_neg child parent edges hc).2 h

/-- The specification evaluates to the values of the upstream unit tests
    (`tests/utils/test_subsequences.py`), hence so does the model. -/
example : subseqSegmentDist 0b1100_0010 0b1110_0011 true = 2
    ∧ subseqSegmentDist 0b1100_0010 0b1110_0011 false = 1
    ∧ subseqSegmentDist 0b0100_0010 0b1100_0010 false = 0
    ∧ subseqSegmentDist 0b1010_1010 0b0101_0101 true = -1 := by
  refine ⟨?_, ?_, ?_, ?_⟩ <;> rw [C18_dist _ _ _ (by decide)] <;> decide

example : keptPattern 0b1100_0010 0b1110_0011 = [false, true, false, true, true] := by decide

/-- Recorded behaviour on the empty child mask (outside the property's
    scope): with the ends excluded the code answers `-1` for every parent —
    although the empty mask is contained in every parent —, with the ends
    included it answers the number of runs (`0` for the empty parent, else `1`). -/
theorem C18_dist_zero (parent : Nat) :
    subseqSegmentDist 0 parent false = -1 ∧
    subseqSegmentDist 0 parent true = (if parent = 0 then 0 else 1) ∧
    Contained 0 parent := by
  have hc : Contained 0 parent := by intro i hi; simp at hi
  refine ⟨?_, ?_, hc⟩
  · rw [subseqSegmentDist_eq, if_pos hc]
    exact walkResult_all_lost_inner _ (not_mem_keptPattern_zero parent)
  · rw [subseqSegmentDist_eq, if_pos hc,
      walkResult_all_lost_edges _ (not_mem_keptPattern_zero parent)]
    by_cases hp : parent = 0
    · subst hp
      simp [(keptPattern_zero_eq_nil_iff 0).2 rfl]
    · have : keptPattern 0 parent ≠ [] := fun h => hp ((keptPattern_zero_eq_nil_iff parent).1 h)
      simp [hp, this]

example : subseqSegmentDist 0 0b1011 false = -1 ∧ subseqSegmentDist 0 0b1011 true = 1
    ∧ subseqSegmentDist 0 0 true = 0 :=
  ⟨(C18_dist_zero _).1, (C18_dist_zero _).2.1, (C18_dist_zero _).2.1⟩

/-! ### Bridge to sequences (used by the synteny cost properties) -/

/-- For `child <+ parent <+ root` with a duplicate-free root order and a
    non-empty child, the segment distance between the masks taken with respect
    to `root` is the number of maximal runs of consecutive parent elements
    absent from the child (end runs dropped when `edges = false`). -/
theorem C18_bridge (child parent root : List α) (edges : Bool) (hnd : root.Nodup)
    (hcp : child.Sublist parent) (hpr : parent.Sublist root) (hne : child ≠ []) :
    subseqSegmentDist (maskFromSubseq child root) (maskFromSubseq parent root) edges
      = (lostRunsSeq edges child parent : Nat) := by
  have hc : maskFromSubseq child root ≠ 0 := mask_ne_zero root child hne (hcp.trans hpr)
  rw [C18_dist_runs _ _ _ hc (contained_of_sublist hnd hcp hpr), keptPattern_masks hnd hcp hpr]
  rfl

example : subseqSegmentDist (maskFromSubseq [2, 6] [1, 2, 3, 4, 5, 6, 7])
      (maskFromSubseq [2, 3, 5, 6, 7] [1, 2, 3, 4, 5, 6, 7]) false
    = (lostRunsSeq false [2, 6] [2, 3, 5, 6, 7] : Nat) :=
  C18_bridge _ _ _ _ (by decide) (by decide) (by decide) (by decide)

example : lostRunsSeq false [2, 6] [2, 3, 5, 6, 7] = 1
    ∧ lostRunsSeq true [2, 6] [2, 3, 5, 6, 7] = 2 := by decide

end SR.C18
