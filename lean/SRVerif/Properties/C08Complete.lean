/-
  C08 (continued) — `binarize` produces EVERY binary refinement, for trees of
  arbitrary arity and arbitrary nesting of polytomies; hence each refinement
  is listed exactly once and their number is Π (2k−3)‼.

  This closes `C08_binarize_complete_statement` of `Properties/C08.lean`
  (there only proved for a star tree, `C08_binarize_complete_partial`).

  Model: `SRVerif/Model/Binarize.lean` (`binarize`), specification:
  `SRVerif/Spec/Refine.lean` (`Spec.IsRefinement`, `BinT.Equiv`,
  `Spec.refCount`), unchanged.  Proofs: `Proofs/BinarizeComplete.lean` (the
  laminarity argument `decomp`), `Proofs/BinarizeCompleteTree.lean` (induction
  over the tree), `Proofs/BinarizeCompleteEquiv.lean` (child order vs clades).

  Hypotheses, as in `C08.lean`: `t.WF` (every internal node has at least two
  children) and distinct leaves.  No restriction on the nesting.

  * `C08_binarize_complete`        every refinement is produced (up to child order);
  * `C08_refinement_equiv`         "refinement of `t`" is invariant under child order,
                                   so the refinements modulo child order are well defined;
  * `C08_equiv_iff_clades`         child-order equality = same leaves and same clades
                                   (what `Spec.canon` / the harness compares);
  * `C08_binarize_exactly_once`    members of `binarize t` ↔ refinements modulo child
                                   order, one to one;
  * `C08_refinement_count`         ANY irredundant complete list of refinements of `t`
                                   has `refCount t` = Π (2k−3)‼ members.
-/
import SRVerif.Properties.C08
import SRVerif.Proofs.BinarizeCompleteEquiv

namespace SR.C08

open SR SR.Bin

/-- Every binary refinement of `t` — every binary tree with the leaves of `t`
    in which every clade of `t` is a clade — is, up to child order, a member
    of `binarize t`; polytomies may be nested to any depth. -/
theorem C08_binarize_complete : C08_binarize_complete_statement :=
  fun t hwf hnd b hb => binarize_complete t hwf hnd b (ref_of_isRefinement hb)

/-- Nested polytomies: a ternary node inside a ternary node inside the root. -/
def nestedTree : NTree :=
  .node none [.node (some 1) [.leaf 0, .leaf 1, .node (some 2) [.leaf 2, .leaf 3, .leaf 4]],
    .leaf 5, .leaf 6]

/-- One of its 3 · 3 · 3 = 27 refinements, children in another order. -/
def nestedRef : BinT :=
  .node none (.leaf 6)
    (.node none
      (.node none (.node none (.leaf 4) (.node none (.leaf 3) (.leaf 2))) (.node none (.leaf 1) (.leaf 0)))
      (.leaf 5))

example : nestedTree.WF = true ∧ nestedTree.leaves.Nodup ∧ Spec.refCount nestedTree = 27 := by decide

example : Spec.IsRefinement nestedRef.toN nestedTree := by
  refine ⟨by decide, by decide, ?_⟩
  decide

example : ∃ u ∈ binarize nestedTree, BinT.Equiv u nestedRef :=
  C08_binarize_complete nestedTree (by decide) (by decide) nestedRef
    ⟨by decide, by decide, by decide⟩

/-- Being a refinement of `t` does not depend on the order of children: the
    set of refinements modulo child order is well defined. -/
theorem C08_refinement_equiv (t : NTree) (b b' : BinT) (he : BinT.Equiv b b') :
    Spec.IsRefinement b.toN t ↔ Spec.IsRefinement b'.toN t :=
  ⟨fun h => isRefinement_of_ref ((ref_of_isRefinement h).of_equiv he),
   fun h => isRefinement_of_ref ((ref_of_isRefinement h).of_equiv he.symm)⟩

/-- Equality up to child order is equality of the leaf set and of the clade
    sets (the canonical form `Spec.canon`): for distinct leaves, `b'` equals
    `b` up to child order iff `b'` is a refinement of the (binary) tree `b`. -/
theorem C08_equiv_iff_clades (b b' : BinT) (hnd : b.leaves.Nodup) :
    BinT.Equiv b b' ↔ Spec.IsRefinement b'.toN b.toN :=
  ⟨fun h => isRefinement_of_ref ((ref_toN_iff_equiv hnd).mpr h),
   fun h => (ref_toN_iff_equiv hnd).mp (ref_of_isRefinement h)⟩

example : BinT.Equiv (.node none (.node none (.leaf 3) (.leaf 1)) (.leaf 2))
    (.node (some 7) (.leaf 2) (.node none (.leaf 1) (.leaf 3))) :=
  (C08_equiv_iff_clades _ _ (by decide)).mpr ⟨by decide, by decide, by decide⟩

/-- `binarize t` lists the binary refinements of `t` modulo child order
    exactly once each:
    (1) every member is a refinement (and keeps names and colours);
    (2) every refinement is equal up to child order to exactly one member;
    (3) no two members (at different positions) are equal up to child order —
        in particular the list has no duplicates.
    So `u ↦ class of u` is a bijection from the positions of `binarize t` onto
    the refinements of `t` modulo child order. -/
theorem C08_binarize_exactly_once (t : NTree) (hwf : t.WF = true) (hnd : t.leaves.Nodup) :
    (∀ u ∈ binarize t, Spec.IsRefinement u.toN t ∧ Spec.KeepsAnn u.toN t) ∧
    (∀ b : BinT, Spec.IsRefinement b.toN t →
      ∃ u ∈ binarize t, BinT.Equiv u b ∧ ∀ u' ∈ binarize t, BinT.Equiv u' b → u' = u) ∧
    (binarize t).Pairwise (fun u u' => ¬ BinT.Equiv u u') ∧
    (binarize t).Nodup := by
  have hpw := C08_binarize_nodup t hwf hnd
  refine ⟨fun u hu => C08_binarize_sound t hwf u hu, ?_, hpw, ?_⟩
  · intro b hb
    obtain ⟨u, hu, he⟩ := C08_binarize_complete t hwf hnd b hb
    refine ⟨u, hu, he, fun u' hu' he' => ?_⟩
    -- equal topologies at two positions of a pairwise inequivalent list: same position
    have key : ∀ (l : List BinT), l.Pairwise (fun u u' => ¬ BinT.Equiv u u') →
        ∀ x ∈ l, ∀ y ∈ l, BinT.Equiv x y → x = y := by
      intro l hl
      induction l with
      | nil => intro x hx; cases hx
      | cons z zs ih =>
        rw [List.pairwise_cons] at hl
        intro x hx y hy hxy
        rcases List.mem_cons.mp hx with rfl | hx1 <;> rcases List.mem_cons.mp hy with rfl | hy1
        · rfl
        · exact absurd hxy (hl.1 _ hy1)
        · exact absurd hxy.symm (hl.1 _ hx1)
        · exact ih hl.2 x hx1 y hy1 hxy
    exact key _ hpw u' hu' u hu (he'.trans he.symm)
  · refine hpw.imp ?_
    intro u u' hne h
    subst h
    exact hne (BTree.Equiv.refl _)

example : (binarize nestedTree).length = 27 ∧
    (binarize nestedTree).Pairwise (fun u u' => ¬ BinT.Equiv u u') :=
  ⟨by decide, (C08_binarize_exactly_once nestedTree (by decide) (by decide)).2.2.1⟩

/-- The number of binary refinements of `t` modulo child order is
    Π over the internal nodes of (2k−3)‼, independently of `binarize`: every
    list of refinements of `t` that is irredundant (pairwise different up to
    child order) and complete (every refinement is equal up to child order to
    a member) has exactly `Spec.refCount t` members. -/
theorem C08_refinement_count (t : NTree) (hwf : t.WF = true) (hnd : t.leaves.Nodup)
    (L : List BinT) (hsound : ∀ x ∈ L, Spec.IsRefinement x.toN t)
    (hirr : L.Pairwise (fun x y => ¬ BinT.Equiv x y))
    (hcomplete : ∀ b : BinT, Spec.IsRefinement b.toN t → ∃ x ∈ L, BinT.Equiv x b) :
    L.length = Spec.refCount t := by
  rw [← C08_binarize_count t hwf]
  have hs : ∀ x y : BinT, BinT.Equiv x y → BinT.Equiv y x := fun _ _ h => h.symm
  have ht : ∀ x y z : BinT, BinT.Equiv x y → BinT.Equiv y z → BinT.Equiv x z :=
    fun _ _ _ h1 h2 => h1.trans h2
  apply Nat.le_antisymm
  · refine length_le_of_representatives hs ht L (binarize t) hirr fun x hx => ?_
    obtain ⟨u, hu, he⟩ := C08_binarize_complete t hwf hnd x (hsound x hx)
    exact ⟨u, hu, he.symm⟩
  · refine length_le_of_representatives hs ht (binarize t) L (C08_binarize_nodup t hwf hnd)
      fun u hu => ?_
    obtain ⟨x, hx, he⟩ := hcomplete u (C08_binarize_sound t hwf u hu).1
    exact ⟨x, hx, he.symm⟩

/-- `binarize t` itself is such a list (the hypotheses of
    `C08_refinement_count` are satisfiable for every well-formed `t`). -/
theorem C08_refinement_count_witness (t : NTree) (hwf : t.WF = true) (hnd : t.leaves.Nodup) :
    (∀ x ∈ binarize t, Spec.IsRefinement x.toN t) ∧
    (binarize t).Pairwise (fun x y => ¬ BinT.Equiv x y) ∧
    (∀ b : BinT, Spec.IsRefinement b.toN t → ∃ x ∈ binarize t, BinT.Equiv x b) :=
  ⟨fun x hx => (C08_binarize_sound t hwf x hx).1, C08_binarize_nodup t hwf hnd,
   C08_binarize_complete t hwf hnd⟩

/-- The three refinements of a trichotomy, listed by hand (not by `binarize`). -/
example : ([.node none (.node none (.leaf 0) (.leaf 1)) (.leaf 2),
            .node none (.node none (.leaf 0) (.leaf 2)) (.leaf 1),
            .node none (.node none (.leaf 1) (.leaf 2)) (.leaf 0)] : List BinT).length =
    Spec.refCount (.node none [.leaf 0, .leaf 1, .leaf 2]) := by decide

end SR.C08
