/-
  C09 — the child swaps and the outgroup at the level of the executable oracle
  `Spec.optimum` (plain mode): bridge between `Properties/C09Swap.lean` /
  `Properties/C09Outgroup.lean` (statements about valid solutions and the evaluator)
  and the oracle-adequacy theorems of package C02Spec
  (`Proofs/OptAdequacyPlain.lean`: `optimum_plain_le`, `optimum_plain_attained`).

  DEPENDS ON package C02Spec (`Proofs/OptAdequacy*.lean`), which is not part of
  /verif/lean at the time of writing: integrate this file only together with it.
-/
import SRVerif.Proofs.OptAdequacyPlain
import SRVerif.Properties.C09Outgroup

namespace SR.C09

open SR

/-- The plain oracle value is the minimum evaluated cost over the valid
    reconciliations (input leaf species in `S`). -/
theorem optimum_plain_isMinCost (c : Costs) (S : RTree) (o : OTree) (keep : Bool)
    (pre : Option (List Nat)) (hS : ∀ p ∈ leafSpecies o, S.isNode p = true) :
    IsMinCost c .plain o (Spec.optimum c S .plain false keep o pre).1 := by
  constructor
  · intro sol hv
    have hv' : Spec.validRec o sol = true := by simpa [Spec.validSol] using hv
    exact Spec.optimum_plain_le c S o keep pre hS sol hv'
  · by_cases h : (Spec.optimum c S .plain false keep o pre).1 = .inf
    · exact Or.inl h
    · obtain ⟨sol, hv, _, hc⟩ := Spec.optimum_plain_attained c S o false keep pre h
      exact Or.inr ⟨sol, by simpa [Spec.validSol] using hv, hc⟩

/-- Object-child swap: the oracle's optimum is unchanged. -/
theorem C09_swap_obj_optimum (c : Costs) (S : RTree) (p : Path) (o : OTree) (keep : Bool)
    (pre : Option (List Nat)) (hS : ∀ q ∈ leafSpecies o, S.isNode q = true) :
    (Spec.optimum c S .plain false keep (o.swapAt p) pre).1 =
      (Spec.optimum c S .plain false keep o pre).1 := by
  have hS' : ∀ q ∈ leafSpecies (o.swapAt p), S.isNode q = true := by
    intro q hq
    rw [OTree.swapAt_eq_flip] at hq
    exact hS q ((leafSpecies_flip_perm o _).mem_iff.mp hq)
  exact IsMinCostFor.unique (optimum_plain_isMinCost c S _ keep pre hS')
    (((C09_swap_obj c .plain p o).2 _).mp (optimum_plain_isMinCost c S o keep pre hS))

theorem C09_mirror_obj_optimum (c : Costs) (S : RTree) (o : OTree) (keep : Bool)
    (pre : Option (List Nat)) (hS : ∀ q ∈ leafSpecies o, S.isNode q = true) :
    (Spec.optimum c S .plain false keep o.mirror pre).1 =
      (Spec.optimum c S .plain false keep o pre).1 := by
  have hS' : ∀ q ∈ leafSpecies o.mirror, S.isNode q = true := by
    intro q hq
    rw [OTree.mirror_eq_flip] at hq
    exact hS q ((leafSpecies_flip_perm o _).mem_iff.mp hq)
  exact IsMinCostFor.unique (optimum_plain_isMinCost c S _ keep pre hS')
    (((C09_mirror_obj c .plain o).2 _).mp (optimum_plain_isMinCost c S o keep pre hS))

/-- Species-child swap: the oracle's optimum over the swapped species tree on the
    relabelled input is unchanged. -/
theorem C09_swap_sp_optimum (c : Costs) (S : RTree) (p : Path) (i j : Nat) (o : OTree)
    (keep : Bool) (pre : Option (List Nat)) (hi : i < S.arityAt p) (hj : j < S.arityAt p)
    (hS : ∀ q ∈ leafSpecies o, S.isNode q = true) :
    (Spec.optimum c (S.swapAt p i j) .plain false keep (o.mapSp (Path.swapAt p i j)) pre).1 =
      (Spec.optimum c S .plain false keep o pre).1 := by
  have hS' : ∀ q ∈ leafSpecies (o.mapSp (Path.swapAt p i j)), (S.swapAt p i j).isNode q = true := by
    intro q hq
    rw [leafSpecies_mapSp] at hq
    obtain ⟨r, hr, rfl⟩ := List.mem_map.mp hq
    rw [RTree.isNode_swapAt p S i j hi hj]; exact hS r hr
  exact IsMinCostFor.unique (optimum_plain_isMinCost c _ _ keep pre hS')
    (((C09_swap_sp c .plain p i j o).2 _).mp (optimum_plain_isMinCost c S o keep pre hS))

/-- Outgroup: the oracle's optimum over the enlarged species tree is unchanged
    (`spe ≤ dup + 4·floss`). -/
theorem C09_outgroup_optimum (c : Costs) (hc : c.spe ≤ c.dup + 4 * c.floss) (S : RTree) (o : OTree)
    (keep : Bool) (pre : Option (List Nat)) (hS : ∀ q ∈ leafSpecies o, S.isNode q = true) :
    (Spec.optimum c S.withOutgroup .plain false keep (o.mapSp Path.og) pre).1 =
      (Spec.optimum c S .plain false keep o pre).1 := by
  have hS' : ∀ q ∈ leafSpecies (o.mapSp Path.og), S.withOutgroup.isNode q = true := by
    intro q hq
    rw [leafSpecies_mapSp] at hq
    obtain ⟨r, hr, rfl⟩ := List.mem_map.mp hq
    rw [RTree.isNode_withOutgroup_og]; exact hS r hr
  have hc' : c.spe + ogSlack .plain * c.sloss ≤ c.dup + 4 * c.floss := by simpa [ogSlack] using hc
  exact IsMinCostFor.unique (optimum_plain_isMinCost c _ _ keep pre hS')
    (((C09_outgroup c .plain hc' o).1 _).mp (optimum_plain_isMinCost c S o keep pre hS))

-- Non-vacuity: the oracle on the test input of `C09Outgroup.lean`.
example :
    (Spec.optimum ogC ogS .plain false false ogO none).1 = .fin 2 ∧
    (Spec.optimum ogC ogS.withOutgroup .plain false false (ogO.mapSp Path.og) none).1 = .fin 2 ∧
    (Spec.optimum ogC (ogS.swapAt [0] 0 1) .plain false false (ogO.mapSp (Path.swapAt [0] 0 1)) none).1
      = .fin 2 ∧
    (Spec.optimum ogC ogS .plain false false (ogO.swapAt [0]) none).1 = .fin 2 := by
  decide +kernel

end SR.C09
