/-
  C02 / C05 — "When no gene order is compatible with all leaves the result is empty"
  (C02) and "the result is empty ONLY IF the input has no valid solution" (C05), for the
  ordered solvers `spfs` (`sreconcile_extended_spfs`, `sreconcile_base_spfs`).

  `Properties/C02.lean` proves one direction (`C02_empty`: no root order ⇒ empty result).
  This file proves the converse, which no other theorem states: as soon as ONE root order
  exists the result is non-empty — for every cost vector (no coherence, `sloss = 0` and an
  infinite transfer cost included), both variants.

  Witness: the LCA species mapping with the COMPLETE root order at every internal node
  (`fullLab`).  It is admissible for both variants, every child mask is non-empty and
  contained in the complete mask, and the event at the LCA of the children is a speciation
  or a duplication, so its generic cost is finite (`fullLab_finite`); `dp_lower` then gives a
  finite table cell with the complete root mask (`C10.spfs_ne_nil_of_adm`).

  * `C02_nonempty`            a root order exists ⇒ `spfs … none ≠ []`;
  * `C02_empty_iff`           `spfs … none = [] ↔ rootOrders o none = []`;
  * `C02_empty_iff_no_valid`  `spfs … none = [] ↔` no valid ordered super-reconciliation of the
                              input exists (the C05 clause, for the ordered solvers);
  * `C02_nonempty_prescribed` with a prescribed root order `r` (`PreOk o r`) on an input that
                              is not a single leaf the result is never empty.
  Guards: binary species tree containing the leaf species, non-empty leaf syntenies.
-/
import SRVerif.Properties.C02Pre
import SRVerif.Properties.C10Single

namespace SR.C02

open SR Cost Path SubseqSpec SubseqProofs

/-- LCA species mapping, complete root mask at every internal node, leaf masks at the leaves. -/
def fullLab (order : List Nat) : OTree → LSol Nat
  | .leaf sp f => .leaf sp (maskFromSubseq f order)
  | .node l r =>
    .node (lcaSol (.node l r)).sp (2 ^ order.length - 1) (fullLab order l) (fullLab order r)

theorem fullLab_sp (order : List Nat) (o : OTree) : (fullLab order o).sp = (lcaSol o).sp := by
  cases o <;> rfl

theorem contained_full {m n : Nat} (h : m < 2 ^ n) : Contained m (2 ^ n - 1) := by
  intro i hi
  rw [Nat.testBit_two_pow_sub_one]
  by_cases hlt : i < n
  · simp [hlt]
  · exfalso
    have hle : 2 ^ n ≤ 2 ^ i := Nat.pow_le_pow_right (by omega) (by omega)
    have : m < 2 ^ i := Nat.lt_of_lt_of_le h hle
    rw [Nat.testBit_lt_two_pow this] at hi
    cases hi

theorem fullLab_lab_ok (order : List Nat) (hne : order ≠ []) (o : OTree) (hlv : LeavesOk order o) :
    (fullLab order o).lab ≠ 0 ∧ (fullLab order o).lab < 2 ^ order.length := by
  have hpos : 0 < order.length := List.length_pos_iff.mpr hne
  have h2 : 2 ≤ 2 ^ order.length := by
    calc 2 = 2 ^ 1 := rfl
      _ ≤ 2 ^ order.length := Nat.pow_le_pow_right (by omega) hpos
  cases o with
  | leaf sp f => exact ⟨mask_ne_zero order f hlv.1 hlv.2, mask_lt order f⟩
  | node l r =>
    simp only [fullLab, LSol.lab]
    omega

/-- The event of a node placed at the LCA of its children is a speciation or a duplication. -/
theorem event_lcp (a b : Path) :
    internalEvent (Path.lcp a b) a b = .spec ∨ internalEvent (Path.lcp a b) a b = .dup := by
  have ha := Path.lcp_isAnc_left a b
  have hb := Path.lcp_isAnc_right a b
  have hsa : Path.isStrictAnc a (Path.lcp a b) = false := by
    cases h : Path.isStrictAnc a (Path.lcp a b)
    · rfl
    · rw [Path.isStrictAnc_iff] at h
      exact absurd (Path.isAnc_antisymm h.1 ha) h.2
  have hsb : Path.isStrictAnc b (Path.lcp a b) = false := by
    cases h : Path.isStrictAnc b (Path.lcp a b)
    · rfl
    · rw [Path.isStrictAnc_iff] at h
      exact absurd (Path.isAnc_antisymm h.1 hb) h.2
  simp only [internalEvent, hsa, hsb, ha, hb, Bool.or_self, Bool.false_eq_true, if_false,
    Bool.and_self, if_true]
  split <;> simp

/-- With finite edge costs the generic local cost at the LCA of the children is finite. -/
theorem gl_lcp_fin (c : Costs) (a b : Path) (p q p' q' : Nat) :
    gl c (Path.lcp a b) a (.fin p) (.fin q) b (.fin p') (.fin q') ≠ .inf := by
  unfold gl
  rcases event_lcp a b with h | h <;> rw [h]
  · simp [fin_add_fin_eq]
  · simp only [fin_add_fin_eq, min_fin]
    simp

theorem add_ne_inf_of {a b : Cost} (ha : a ≠ .inf) (hb : b ≠ .inf) : a + b ≠ .inf := by
  obtain ⟨x, rfl⟩ := ne_inf_iff.mp ha
  obtain ⟨y, rfl⟩ := ne_inf_iff.mp hb
  simp [fin_add_fin_eq]

/-- The generic local cost of the ordered algebra at the LCA of the children is finite as soon
    as both child masks are non-empty and contained in the node's mask. -/
theorem genLocal_lcp_fin (c : Costs) (a la ra : OrdAnn) (s x y : Path) (m ml mr : Nat)
    (hs : s = Path.lcp x y) (hl : ml ≠ 0) (hr : mr ≠ 0) (cl : Contained ml m) (cr : Contained mr m) :
    genLocal (ordAlg c) c a s m la x ml ra y mr ≠ .inf := by
  subst hs
  unfold genLocal
  rcases ord_costs (c := c) (a := a) (ca := la) (m := m) hl with ⟨_, e1, e2, _, _⟩ | ⟨hnc, _⟩
  · rcases ord_costs (c := c) (a := a) (ca := ra) (m := m) hr with ⟨_, f1, f2, _, _⟩ | ⟨hnc, _⟩
    · rw [e1, e2, f1, f2]
      exact gl_lcp_fin c x y _ _ _ _
    · exact absurd cr hnc
  · exact absurd cl hnc

variable (c : Costs) (S : RTree) (base : Bool)

theorem fullLab_adm (order : List Nat) (o : OTree)
    (hS : ∀ p ∈ leafSpecies o, S.isNode p = true) :
    ∀ isRoot : Bool, Adm (ordAlg c) (annOrd S base order isRoot o) (fullLab order o) := by
  induction o with
  | leaf sp f => intro isRoot; simp [fullLab, annOrd, Adm, ordAlg]
  | node l r ihl ihr =>
    intro isRoot
    have hSl : ∀ p ∈ leafSpecies l, S.isNode p = true :=
      fun p hp => hS p (by simp [leafSpecies, hp])
    have hSr : ∀ p ∈ leafSpecies r, S.isNode p = true :=
      fun p hp => hS p (by simp [leafSpecies, hp])
    simp only [fullLab, annOrd, Adm]
    refine ⟨?_, ?_, ihl hSl false, ihr hSr false⟩
    · cases base with
      | true => simp [ordAlg]
      | false =>
        simp only [ordAlg, Bool.false_eq_true, if_false]
        exact C10.lcaSol_sp_mem_allSpecies S (.node l r) hS
    · have hpos : 0 < 2 ^ order.length := Nat.pos_of_ne_zero (by simp)
      cases isRoot with
      | true => simp [ordAlg]
      | false =>
        simp only [ordAlg, Bool.false_eq_true, if_false, List.mem_range]
        omega

theorem fullLab_finite (order : List Nat) (hne : order ≠ []) (o : OTree)
    (hlv : LeavesOk order o) :
    ∀ isRoot : Bool,
      labCost (ordAlg c) c (annOrd S base order isRoot o) (fullLab order o) ≠ .inf := by
  induction o with
  | leaf sp f => intro isRoot; simp [fullLab, annOrd, labCost]
  | node l r ihl ihr =>
    intro isRoot
    obtain ⟨hl0, hllt⟩ := fullLab_lab_ok order hne l hlv.1
    obtain ⟨hr0, hrlt⟩ := fullLab_lab_ok order hne r hlv.2
    simp only [fullLab, annOrd, labCost]
    refine add_ne_inf_of ?_ (add_ne_inf_of (ihl hlv.1 false) (ihr hlv.2 false))
    exact genLocal_lcp_fin c _ _ _ _ _ _ _ _ _ (by rw [fullLab_sp, fullLab_sp]; rfl) hl0 hr0
      (contained_full hllt) (contained_full hrlt)

variable (o : OTree)

/-- The witness makes the solver return something, for any root order it tries. -/
theorem spfs_ne_nil_of_order (pre : Option (List Nat)) (hb : S.isBinary = true)
    (hS : ∀ p ∈ leafSpecies o, S.isNode p = true) {order : List Nat}
    (ho : order ∈ rootOrders o pre) (hlv : LeavesOk order o) (hne : order ≠ [])
    (hroot : (fullLab order o).lab = 2 ^ order.length - 1) :
    spfs c S base o pre ≠ [] :=
  C10.spfs_ne_nil_of_adm c S o base pre hb hS ho (fullLab order o)
    (fullLab_adm c S base order o hS true) hroot (fullLab_finite c S base order hne o hlv true)

theorem order_ne_nil_of_leavesOk {order : List Nat} : ∀ o : OTree, LeavesOk order o → order ≠ []
  | .leaf _ f, h => by
    rintro rfl
    exact h.1 (List.sublist_nil.mp h.2)
  | .node l _, h => order_ne_nil_of_leavesOk l h.1

/-- **Converse of `C02_empty`**: as soon as one gene order is compatible with all leaves the
    ordered solvers return something — every cost vector, both variants. -/
theorem C02_nonempty (hne : ∀ f ∈ leafSyntenies o, f ≠ [])
    (hb : S.isBinary = true) (hS : ∀ p ∈ leafSpecies o, S.isNode p = true)
    (h : rootOrders o none ≠ []) : spfs c S base o none ≠ [] := by
  obtain ⟨order, ho⟩ := List.exists_mem_of_ne_nil _ h
  obtain ⟨_, hlv⟩ := C02_orders_ok o hne order ho
  refine spfs_ne_nil_of_order c S base o none hb hS ho hlv (order_ne_nil_of_leavesOk o hlv) ?_
  cases o with
  | node l r => rfl
  | leaf sp f =>
    have := Spec.rootOrders_leaf ho
    subst this
    simp only [fullLab, LSol.lab]
    rw [mask_self]; rfl

/-- **C02, the emptiness clause as an equivalence**: the result is empty exactly when no gene
    order is compatible with all leaves. -/
theorem C02_empty_iff (hne : ∀ f ∈ leafSyntenies o, f ≠ [])
    (hb : S.isBinary = true) (hS : ∀ p ∈ leafSpecies o, S.isNode p = true) :
    spfs c S base o none = [] ↔ rootOrders o none = [] := by
  constructor
  · intro he
    by_cases h : rootOrders o none = []
    · exact h
    · exact absurd he (C02_nonempty c S base o hne hb hS h)
  · exact C02_empty c S base o

/-- **C05, "the result is empty only if the input has no valid solution"**, ordered solvers:
    the result is empty exactly when the input has no valid ordered super-reconciliation at all
    (for the base solver too: when a valid solution exists, an LCA-mapped one exists). -/
theorem C02_empty_iff_no_valid (hne : ∀ f ∈ leafSyntenies o, f ≠ [])
    (hb : S.isBinary = true) (hS : ∀ p ∈ leafSpecies o, S.isNode p = true) :
    spfs c S base o none = [] ↔ ∀ sol, Spec.validSol .ordered o sol = false := by
  rw [C02_empty_iff c S base o hne hb hS]
  constructor
  · intro h sol
    cases hv : Spec.validSol .ordered o sol with
    | false => rfl
    | true =>
      have := ((C02_valid_iff_rootOrder o sol).mp hv).2.2
      rw [h] at this; cases this
  · intro h
    by_cases he : rootOrders o none = []
    · exact he
    · exfalso
      obtain ⟨m, hm⟩ := List.exists_mem_of_ne_nil _ (C02_nonempty c S base o hne hb hS he)
      have hv := (C02_spfs_valid c S base o none (C02_orders_ok o hne) (C02_orders_perm o) m hm).1
      rw [h m] at hv; cases hv

/-- With a prescribed root order (any duplicate-free common supersequence of the non-empty leaf
    syntenies) the result is never empty on an input that is not a single leaf. -/
theorem C02_nonempty_prescribed (r : List Nat) (hr : PreOk o r)
    (hb : S.isBinary = true) (hS : ∀ p ∈ leafSpecies o, S.isNode p = true)
    (hnl : ∀ sp f, o ≠ .leaf sp f) : spfs c S base o (some r) ≠ [] := by
  have ho : r ∈ rootOrders o (some r) := by simp [rootOrders]
  obtain ⟨_, hlv⟩ := hr.ordersOk r ho
  refine spfs_ne_nil_of_order c S base o (some r) hb hS ho hlv (order_ne_nil_of_leavesOk o hlv) ?_
  cases o with
  | node l r' => rfl
  | leaf sp f => exact absurd rfl (hnl sp f)

/-! ### Non-vacuity -/

/-- Leaves `ab`, `b` admit the root order `ab`; with an INFINITE transfer cost and `sloss = 0`
    (no coherence assumed: `spe + 2·sloss > dup + 2·floss` here) both variants return something. -/
example :
    let c : Costs := { spe := 5, dup := 0, hgt := .inf, floss := 1, sloss := 0 }
    let S : RTree := .node [.node [], .node []]
    let o : OTree := .node (.leaf [0] [1, 2]) (.leaf [1] [2])
    S.isBinary = true ∧ (∀ p ∈ leafSpecies o, S.isNode p = true) ∧
    (∀ f ∈ leafSyntenies o, f ≠ []) ∧ rootOrders o none ≠ [] ∧
    ¬ (c.spe + 2 * c.sloss ≤ c.dup + 2 * c.floss) ∧
    spfs c S false o none ≠ [] ∧ spfs c S true o none ≠ [] := by
  decide +kernel

/-- Inconsistent leaf orders: no root order, no valid solution, empty result. -/
example :
    let c : Costs := { spe := 0, dup := 1, hgt := .fin 1, floss := 1, sloss := 1 }
    let S : RTree := .node [.node [], .node []]
    let o : OTree := .node (.leaf [0] [0, 1]) (.leaf [1] [1, 0])
    rootOrders o none = [] ∧ spfs c S false o none = [] := by
  decide +kernel

end SR.C02
