/-
  C15 (and the drawing clause of C13) over LAYOUTS instead of over arbitrary call sequences.

  Model: `SRVerif/Model/TikzDraw.lean` — `drawCalls` maps a layout (the `List SubLayout` of the
  model of `layout.compute`, plus the labels, colours and species names the layout model leaves
  out) to the sequence of drawing calls of `_tikz_draw_fork` / `_tikz_draw_branches` in the order
  `render` makes them; `renderText` assembles the text over the GENERATED templates.

  * `C15_draw_admissible`: every drawing call is a call of a generated statement template with
    fillings from C15's filling spaces — so the generated balance / termination obligations apply.
  * `C15_draw_balanced`, `C15_draw_structure`: `C15_balanced` and `C15_structure` for the text of a
    layout (any layout on which the drawing code does not raise).
  * `C15_draw_counts`: exactly one event node per branch that is not a loss (of the statement of
    its kind), one loss marker per `FULL_LOSS` branch, one transfer arrow per transfer branch, in
    the order of the layout; nothing else besides plain paths.
  * `C15_draw_faithful`: every statement of a branch is drawn in the branch's colour and shows the
    branch's label; a transfer arrow ends at the anchor of the transferred child.
  * `C15_draw_kinds`: the statement kinds of the drawing calls are exactly the statements of the
    statement-kind model `Layout.render` (C13), errors included — for `layout.compute` layouts.
-/
import SRVerif.Properties.C15
import SRVerif.Proofs.TikzDrawOK
import SRVerif.Proofs.TikzDrawCount
import SRVerif.Proofs.TikzDrawFacts
import SRVerif.Proofs.LayoutGeom
import SRVerif.Properties.C14

namespace SR.C15

open SR SR.Layout SR.Tikz SR.TikzDraw

/-! ## Admissible calls, balance, structure -/

/-- **Every statement instance comes from a generated template.**  Whatever the layout, the
    orientation and the parameters: if the drawing code does not raise, every call it makes is a
    statement template of the source (`Generated.statements`) with one admissible filling per hole
    (printed coordinates, interned colours, balanced labels, brace-free lengths, the template's
    own keywords). -/
theorem C15_draw_admissible (o : Orientation) (dp : DParams) (deco : Deco) (S : RTree)
    (spOf : Path → Option Path) (all : List SubLayout) (calls : List DrawCall)
    (hok : DecoOK dp deco) (h : drawCalls o dp deco S spOf all = .ok calls) :
    ∀ c ∈ calls.map DrawCall.toCall, CallOK c := by
  intro c hc
  obtain ⟨d, hd, rfl⟩ := List.mem_map.1 hc
  exact drawCalls_callOK hok h d hd

/-- The definitions block of `renderText` is admissible when the printed parameters are. -/
theorem C15_draw_defsOK (o : Orientation) (fills : List Str)
    (hv : o = .vertical → fillsOK Generated.tmpl_defs_vertical.holes fills = true)
    (hh : o = .horizontal → fillsOK Generated.tmpl_defs_horizontal.holes fills = true) :
    DefsOK (defsText o fills) := by
  cases o
  · exact ⟨_, fills, Or.inl rfl, hv rfl, rfl⟩
  · exact ⟨_, fills, Or.inr rfl, hh rfl, rfl⟩

/-- **Balanced braces, for every layout.**  The text `tikz.render` produces from a layout (model
    `renderText`: `_tikz_draw_fork`, `_tikz_draw_branches`, the species loop and the assembly of
    `render`) has balanced braces. -/
theorem C15_draw_balanced (o : Orientation) (dp : DParams) (deco : Deco) (defsFills : List Str)
    (S : RTree) (spOf : Path → Option Path) (all : List SubLayout) (text : Str)
    (hok : DecoOK dp deco) (hd : DefsOK (defsText o defsFills))
    (h : renderText o dp deco defsFills S spOf all = .ok text) : isBalanced text = true := by
  unfold renderText at h
  cases hc : drawCalls o dp deco S spOf all with
  | error e => simp [hc] at h
  | ok calls =>
    simp only [hc, Except.ok.injEq] at h
    subst h
    exact C15_balanced _ _ hd (C15_draw_admissible o dp deco S spOf all calls hok hc)

/-- **Structure, for every layout**: the blocks `render` joins are the definitions, one
    `\definecolor` line per interned colour, `\begin{tikzpicture}`, a body of layer comments and
    statements ending in `;`, `\end{tikzpicture}`, `""`; no other block equals a delimiter; every
    colour index used in a statement is defined. -/
theorem C15_draw_structure (o : Orientation) (dp : DParams) (deco : Deco) (defs : Str)
    (S : RTree) (spOf : Path → Option Path) (all : List SubLayout) (calls : List DrawCall)
    (hok : DecoOK dp deco) (hd : DefsOK defs) (h : drawCalls o dp deco S spOf all = .ok calls) :
    let tcalls := calls.map DrawCall.toCall
    let colors := (resolveCalls [] tcalls).1
    let out := (resolveCalls [] tcalls).2
    let body := bodyBlocks Generated.layerNames Generated.colorPrefix out
    let head := [defs] ++ (enumFrom 0 colors).map (colorDefLine Generated.colorPrefix)
    renderBlocks Generated.renderSkeleton Generated.layerNames Generated.colorPrefix defs tcalls
        = head ++ [beginPicture] ++ body ++ [endPicture, []]
    ∧ (∀ b ∈ body, (∃ name ∈ Generated.layerNames, b = commentLine name) ∨ b.getLast? = some ';')
    ∧ (∀ b ∈ head ++ body, b ≠ beginPicture ∧ b ≠ endPicture)
    ∧ (∀ o ∈ out, ∀ i, RFill.color i ∈ o.fills → i < colors.length) :=
  C15_structure defs _ hd (C15_draw_admissible o dp deco S spOf all calls hok h)

/-- The drawing code raises on a leaf species only for label width 0 (`textwrap`). -/
theorem C15_draw_label_total (w : Option Nat) (hw : w ≠ some 0) (name : Str) :
    (speciesLabel w name).isSome = true :=
  speciesLabel_isSome hw name

/-! ## Census -/

/-- Reading of `stmtOf` by template: the event-node statements are `\node[extant gene=` (3),
    `\node[speciation=` (8), `\node[duplication=` (10), `\node[horizontal gene transfer=` (13);
    the loss marker is `\node[loss=` (5); the arrow is `\path[transfer branch=` (12). -/
theorem C15_draw_stmtOf (c : DrawCall) (k : Key) :
    (stmtOf c = some (.event k .leaf) ↔ c.owner = some k ∧ c.stmt = 3) ∧
    (stmtOf c = some (.event k .spec) ↔ c.owner = some k ∧ c.stmt = 8) ∧
    (stmtOf c = some (.event k .dup) ↔ c.owner = some k ∧ c.stmt = 10) ∧
    (stmtOf c = some (.event k .hgt) ↔ c.owner = some k ∧ c.stmt = 13) ∧
    (stmtOf c = some (.lossMarker k) ↔ c.owner = some k ∧ c.stmt = 5) ∧
    (∀ t, stmtOf c = some (.transfer k t) ↔ c.owner = some k ∧ c.stmt = 12 ∧ c.target = some t) := by
  unfold stmtOf
  cases ho : c.owner with
  | none => simp
  | some k' =>
    simp only [Option.some.injEq]
    refine ⟨?_, ?_, ?_, ?_, ?_, ?_⟩
    all_goals (try intro t)
    all_goals
      (split
       · simp_all
       · split
         · simp_all
         · split
           · simp_all
           · split
             · simp_all
             · split
               · simp_all
               · split
                 · cases c.target <;> simp_all
                 · simp_all)

/-- **Exactly one statement per branch.**  If the drawing code does not raise on the layout,
    then — `kinds calls` being the statement kinds of the calls in the order they are made, `marks`
    dropping the plain `\path[branch=…]` statements — what remains is, species by species in
    pre-order and branch by branch in the layout's order, exactly: the event node of each branch
    that is not a loss (of its own kind), the loss marker of each `FULL_LOSS` branch, and for each
    transfer branch the arrow to its `right` child followed by its event node.  In particular the
    numbers of event nodes, loss markers and arrows are the numbers of such branches. -/
theorem C15_draw_counts (o : Orientation) (dp : DParams) (deco : Deco) (S : RTree)
    (spOf : Path → Option Path) (all : List SubLayout) (calls : List DrawCall)
    (h : drawCalls o dp deco S spOf all = .ok calls) :
    marks (kinds calls) = S.preorder.flatMap (fun s => (branchesAt all s).flatMap expected) ∧
    (kinds calls).countP isEvent = nEvents (S.preorder.flatMap (branchesAt all)) ∧
    (kinds calls).countP isLossMarker = nLosses (S.preorder.flatMap (branchesAt all)) ∧
    (kinds calls).countP isTransfer = nTransfers (S.preorder.flatMap (branchesAt all)) :=
  drawSpeciesList_census h

/-- The same for a layout computed by `layout.compute` (model `Layout.compute`): the branches
    walked are all the branches of the layout, in its own order. -/
theorem C15_draw_counts_compute (o : Orientation) (P : Params) (sizes : Key → Size) (dp : DParams)
    (deco : Deco) (S : RTree) (sol : Sol) (all : List SubLayout) (calls : List DrawCall)
    (hc : compute o P sizes S sol = .ok all)
    (h : drawCalls o dp deco S (spOfSol sol) all = .ok calls) :
    marks (kinds calls) = all.flatMap (fun lay => lay.branches.flatMap expected) ∧
    (kinds calls).countP isEvent = nEvents (all.flatMap (·.branches)) ∧
    (kinds calls).countP isLossMarker = nLosses (all.flatMap (·.branches)) ∧
    (kinds calls).countP isTransfer = nTransfers (all.flatMap (·.branches)) := by
  have hsp : all.map (·.sp) = S.preorder := by
    cases o
    · exact computeV_species hc
    · exact computeH_species hc
  obtain ⟨h1, h2, h3, h4⟩ := C15_draw_counts o dp deco S (spOfSol sol) all calls h
  rw [flatMap_branchesAt hsp] at h2 h3 h4
  refine ⟨?_, h2, h3, h4⟩
  rw [h1, ← List.flatMap_assoc, flatMap_branchesAt hsp, List.flatMap_assoc]

/-! ## Faithful colours, labels and arrow targets -/

/-- **Every call is either the fork statement of a species or belongs to a branch of the layout**,
    and in the latter case (`BranchCall`) it is drawn in that branch's colour, shows that branch's
    label (`\phantom{-}` for an unlabelled transfer), is one of the statements of the branch's
    kind, and — for a transfer arrow — ends at the anchor of the transferred child `right`,
    looked up in the layout of the species that child is mapped to. -/
theorem C15_draw_faithful (o : Orientation) (dp : DParams) (deco : Deco) (S : RTree)
    (spOf : Path → Option Path) (all : List SubLayout) (calls : List DrawCall)
    (h : drawCalls o dp deco S spOf all = .ok calls) :
    ∀ c ∈ calls,
      (c.owner = none ∧ (c.stmt = 0 ∨ c.stmt = 1) ∧ c.sp ∈ S.preorder) ∨
      (∃ lay b, slLookup all c.sp = some lay ∧ c.sp ∈ S.preorder ∧ b ∈ lay.branches ∧
        BranchCall deco all spOf lay b c) := by
  intro c hc
  cases origin_of_mem h c hc with
  | leafFork lay hs hl hf =>
    obtain ⟨h1, h2, h3⟩ := forkLeaf_owner hf
    exact Or.inl ⟨h1, Or.inr h2, by rw [h3]; exact hs⟩
  | innerFork lay l r hs hl h0 h1 hc' =>
    subst hc'
    exact Or.inl ⟨rfl, Or.inl rfl, hs⟩
  | branch lay ll rl b cs hs hl hb hd hc' =>
    have bc := drawBranch_branchCall hd c hc'
    exact Or.inr ⟨lay, b, by rw [bc.sp]; exact hl, by rw [bc.sp]; exact hs, hb, bc⟩

/-! ## The statement-kind model of C13 -/

/-- **Bridge to C13.**  For a binary species tree and a label width other than 0, the statement
    kinds of the drawing calls on the layout computed by `layout.compute` are exactly what the
    statement-kind model `Layout.render` (the model `C13_tikz_statement` speaks about) emits:
    same statements, same order, and the same exception when a dictionary look-up fails. -/
theorem C15_draw_kinds (o : Orientation) (P : Params) (sizes : Key → Size) (dp : DParams)
    (deco : Deco) (S : RTree) (sol : Sol) (hb : S.isBinary = true)
    (hw : dp.labelWidth ≠ some 0) :
    Layout.render o P sizes S sol =
      match compute o P sizes S sol with
      | .error e => .error e
      | .ok all => mapE kinds (drawCalls o dp deco S (spOfSol sol) all) := by
  unfold Layout.render
  cases hc : compute o P sizes S sol with
  | error e => rfl
  | ok all =>
    simp only
    have hsp : all.map (·.sp) = S.preorder := by
      cases o
      · exact computeV_species hc
      · exact computeH_species hc
    exact (drawCalls_stmts o dp deco S sol all hb hsp
      (fun s => speciesLabel_isSome hw _)).symm

/-! ## Valid reconciliations, end to end -/

/-- **Everything together, for the layout of a valid reconciliation.**  The only ingredient that
    is not a theorem of this file is named explicitly: `C14_anchors_statement` — every dictionary
    look-up of `layout.compute` and of the drawing code succeeds on a valid reconciliation (stated
    in `Properties/C14.lean`, decided by the checks of C13/C14 on every generated input).  Given
    it, for a valid reconciliation in a binary species tree, a label width other than 0 and
    admissible decorations: `layout.compute` returns a layout, the drawing code makes its calls
    without raising, the calls contain — besides plain paths — exactly one event node per
    non-loss branch of that layout, one loss marker per `FULL_LOSS` branch and one arrow per
    transfer branch (in the layout's order), every call instantiates a generated statement template
    admissibly, and the assembled text has balanced braces. -/
theorem C15_draw_valid (o : Orientation) (P : Params) (sizes : Key → Size) (dp : DParams)
    (deco : Deco) (defs : Str) (S : RTree) (ot : OTree) (sol : Sol)
    (hlook : SR.C14.C14_anchors_statement o P sizes S ot sol)
    (hv : Spec.validRec ot sol = true) (hin : SR.C13.inTree S sol = true)
    (hb : S.isBinary = true) (hw : dp.labelWidth ≠ some 0) (hok : DecoOK dp deco)
    (hd : DefsOK defs) :
    ∃ all calls, compute o P sizes S sol = .ok all ∧
      drawCalls o dp deco S (spOfSol sol) all = .ok calls ∧
      marks (kinds calls) = all.flatMap (fun lay => lay.branches.flatMap expected) ∧
      (kinds calls).countP isEvent = nEvents (all.flatMap (·.branches)) ∧
      (kinds calls).countP isLossMarker = nLosses (all.flatMap (·.branches)) ∧
      (kinds calls).countP isTransfer = nTransfers (all.flatMap (·.branches)) ∧
      (∀ c ∈ calls.map DrawCall.toCall, CallOK c) ∧
      isBalanced (assemble defs calls) = true := by
  obtain ⟨ss, hr⟩ := hlook hv hin hb
  rw [C15_draw_kinds o P sizes dp deco S sol hb hw] at hr
  cases hc : compute o P sizes S sol with
  | error e => simp [hc] at hr
  | ok all =>
    simp only [hc] at hr
    cases hdc : drawCalls o dp deco S (spOfSol sol) all with
    | error e => simp [hdc] at hr
    | ok calls =>
      obtain ⟨h1, h2, h3, h4⟩ := C15_draw_counts_compute o P sizes dp deco S sol all calls hc hdc
      have hadm := C15_draw_admissible o dp deco S (spOfSol sol) all calls hok hdc
      exact ⟨all, calls, rfl, hdc, h1, h2, h3, h4, hadm, C15_balanced _ _ hd hadm⟩

/-! ## Non-vacuity: a species tree `((A,B),C)` drawn with a speciation, a loss, a transfer -/

namespace Example

def S : RTree := .node [.node [.node [], .node []], .node []]

/-- object tree `((a_A, c_C), b_B)`: the root is a speciation of the root species, its left child
    a transfer from `A` (species `00`) into `C` (species `1`), leaving a loss in species `0`. -/
def sol : Sol := .node [] [] (.node [0, 0] [] (.leaf [0, 0] []) (.leaf [1] [])) (.leaf [1] [])

def P : Params := { pad := 4, gsp := 5, overhead := 10, minsp := 12, level := 4 }
def dp : DParams := { leafSpacing := 1, geneDiameter := 3, rounding := "4pt".toList,
                      labelWidth := some 21 }
def deco : Deco :=
  { name := fun _ k => match k with | .gene [0, 0] => "a\\_A".toList | _ => [],
    color := fun _ k => match k with | .gene (0 :: _) => "ff0000".toList | _ => "000000".toList,
    spName := fun s => match s with | [0, 0] => "Homo sapiens".toList | _ => "x_1".toList }

def all : List SubLayout :=
  match compute .vertical P (fun _ => ⟨8, 8⟩) S sol with
  | .ok l => l
  | .error _ => []

def calls : List DrawCall :=
  match drawCalls .vertical dp deco S (spOfSol sol) all with
  | .ok l => l
  | .error _ => []

end Example

open Example in
/-- the layout has 5 species; drawing it makes 5 fork calls and 16 branch calls, among them
    5 event nodes (3 extant genes, the speciation, the transfer), 1 loss marker and 1 arrow -/
example :
    all.length = 5 ∧
    drawCalls .vertical dp deco S (spOfSol sol) all = .ok calls ∧
    calls.length = 21 ∧
    (kinds calls).countP isEvent = 5 ∧ (kinds calls).countP isLossMarker = 1 ∧
    (kinds calls).countP isTransfer = 1 := by decide +kernel

/-- the hypotheses of `C15_draw_kinds` and of `C15_draw_balanced` hold on the example, the text is
    produced, and it has balanced braces -/
example : Example.S.isBinary = true ∧ Example.dp.labelWidth ≠ some 0 ∧
    (match renderText .vertical Example.dp Example.deco
        ["1pt".toList, "1pt".toList, "1pt".toList, "10".toList, "0.5pt".toList, "0.5pt".toList,
         "3".toList, "3".toList, "3".toList, "0.5pt".toList, "8".toList, "8".toList, "8".toList,
         "8".toList, "8".toList, "8".toList, "8".toList]
        Example.S (spOfSol Example.sol) Example.all with
      | .ok text => isBalanced text && decide (2000 < text.length)
      | .error _ => false) = true := by decide +kernel

/-- the example is a valid reconciliation (hypotheses of `C15_draw_valid`), and the look-ups do
    succeed on it -/
example :
    Spec.validRec (.node (.node (.leaf [0, 0] []) (.leaf [1] [])) (.leaf [1] [])) Example.sol = true ∧
    SR.C13.inTree Example.S Example.sol = true ∧
    (match Layout.render .vertical Example.P (fun _ => ⟨8, 8⟩) Example.S Example.sol with
      | .ok ss => ss.length | .error _ => 0) = 16 := by decide +kernel

example : DecoOK Example.dp Example.deco :=
  ⟨by intro s k; simp only [Example.deco]; split <;> decide,
   by intro s k; simp only [Example.deco]; split <;> decide,
   by intro s; simp only [Example.deco]; split <;> decide,
   by decide⟩

example : fmtCoord (-(3 : Rat) / 32) = "-0.0938".toList ∧ fmtCoord (1 / 32) = "0.0312".toList ∧
    fmtCoord 12 = "12.0".toList ∧ fmtCoord (-1 / 65536) = "0.0".toList := by decide +kernel

end SR.C15
