/-
  C01 (THL half), C04 and C05 for `reconcile_thl` — the optimiser's table
  recurrence computes the minimum, over all valid reconciliations, of the cost the
  EVALUATOR assigns, inside the coherent region `spe ≤ dup + 2·floss`.

  Well-formedness of an input `(S, o)`: the species tree is binary
  (`S.isBinary`) and every leaf species is a node of it
  (`∀ p ∈ leafSpecies o, S.isNode p`).  Both are needed (`C01_thl_wf_needed`).

  Cell level (`thlCells`, the table of the root object node):
  * `C01_thl_cell_sound`  every decoded solution is a valid reconciliation of the
      input with the cell's root species and a FINITE evaluated cost (any costs);
      inside the coherent region its evaluated cost is at most the cell value;
  * `C01_thl_cell_lower`  for every valid reconciliation there is a cell at its
      root species whose value is at most its evaluated cost (no coherence): the
      table never over-estimates, in particular
      `cell value ≤ evaluated cost of what it decodes to` (`C01_thl_cell_le_decoded`);
  * `C01_thl_cell_exact`  coherent: cell value = evaluated cost of every decoded solution
      = minimum over the valid reconciliations with that root species.
  Outside the coherent region the table value can be strictly LOWER than the
  evaluated cost (`C01_incoherent_witness` in `C01.lean`: table 4, evaluated 8),
  never higher.

  Result level (`thl`): `C01_thl` (valid + optimal), `C01_thl_total` (non-empty),
  `C01_thl_all` (exactly the optimal valid reconciliations, each once — C05),
  `C01_thl_finite` (C04), `C01_thl_eq_exhaustive` (same set as `reconcile_exhaustive`),
  `C01_thl_table_min` / `C01_thl_table_opt` (`thlTableMin` = cost of every returned
  solution = minimum of the evaluator over `Spec.allValid`).
-/
import SRVerif.Proofs.LabelDPThl
import SRVerif.Proofs.LabelDPKeep

namespace SR.C01

open SR Cost

variable (c : Costs) (S : RTree) (o : OTree)

/-- **C04 for `thl`, and the soundness half of C01.**  Every solution decoded
    from a table cell is a valid reconciliation of the input over the species of
    `S`, rooted at the cell's species, of finite evaluated cost — for all unit
    costs; inside the coherent region the evaluator charges at most the cell value. -/
theorem C01_thl_cell_sound :
    ∀ d ∈ thlCells c S true o, ∀ ls ∈ d.sols,
      (plainSol o ls).sp = d.sp ∧
      Spec.validRec o (plainSol o ls) = true ∧
      plainSol o ls ∈ Spec.allMappings S o ∧
      recCost c o (plainSol o ls) ≠ .inf ∧
      (c.spe ≤ c.dup + 2 * c.floss → Cost.le (recCost c o (plainSol o ls)) d.cost = true) := by
  intro d hd ls hls
  have hX : c.spe + 0 ≤ c.dup + 2 * c.floss + c.spe := by omega
  obtain ⟨adm, hsp, _, hval, hle⟩ := dp_sound thlAlg c S thl_slack hX (annPlain S o) d hd ls hls
  refine ⟨by rw [plainSol_sp, hsp], validRec_plainSol S o ls adm hval,
    plainSol_mem_allMappings S o ls adm, ?_, ?_⟩
  · rw [← labCost_thl c S o ls adm]
    obtain ⟨n, hn⟩ := ne_inf_iff.mp (dp_finite thlAlg c S true _ hd)
    rw [hn] at hle
    intro e; rw [e] at hle; simp at hle
  · intro hcoh
    have hX0 : c.spe + 0 ≤ c.dup + 2 * c.floss + 0 := by omega
    obtain ⟨_, _, _, _, hle0⟩ := dp_sound thlAlg c S thl_slack hX0 (annPlain S o) d hd ls hls
    rw [← labCost_thl c S o ls adm]
    simpa using hle0

/-- **The table never over-estimates** (no coherence needed): every valid
    reconciliation of finite cost has a table cell at its root species whose value
    is at most its evaluated cost. -/
theorem C01_thl_cell_lower (keep : Bool) (hb : S.isBinary = true)
    (hS : ∀ p ∈ leafSpecies o, S.isNode p = true) :
    ∀ sol ∈ Spec.allMappings S o, recCost c o sol ≠ .inf →
      ∃ d ∈ thlCells c S keep o, d.sp = sol.sp ∧ Cost.le d.cost (recCost c o sol) = true := by
  intro sol hsol hfin
  obtain ⟨adm, e⟩ := adm_toLSol S o sol hsol
  have hc := labCost_thl c S o _ adm
  rw [e] at hc
  obtain ⟨d, hd, hsp, _, hle⟩ := dp_lower thlAlg c S keep hb (annPlain S o)
    (annPlain_internal_spOk S o hS) _ adm (by rw [hc]; exact hfin)
  exact ⟨d, hd, by rw [hsp, toLSol_sp], by rw [← hc]; exact hle⟩

/-- A cell value is at most the evaluated cost of each solution it decodes to. -/
theorem C01_thl_cell_le_decoded (hb : S.isBinary = true)
    (hS : ∀ p ∈ leafSpecies o, S.isNode p = true) :
    ∀ d ∈ thlCells c S true o, ∀ ls ∈ d.sols,
      Cost.le d.cost (recCost c o (plainSol o ls)) = true := by
  intro d hd ls hls
  obtain ⟨hsp, _, hmem, hfin, _⟩ := C01_thl_cell_sound c S o d hd ls hls
  obtain ⟨d', hd', hsp', hle⟩ := C01_thl_cell_lower c S o true hb hS _ hmem hfin
  have : d' = d := dp_functional thlAlg c S true _ hd' hd (by rw [hsp', hsp]) rfl
  rw [← this]; exact hle

/-- **Table value = evaluated cost = optimum per root species** (coherent region). -/
theorem C01_thl_cell_exact (hb : S.isBinary = true)
    (hS : ∀ p ∈ leafSpecies o, S.isNode p = true) (hcoh : c.spe ≤ c.dup + 2 * c.floss) :
    ∀ d ∈ thlCells c S true o,
      (∀ ls ∈ d.sols, recCost c o (plainSol o ls) = d.cost) ∧
      (∃ ls, ls ∈ d.sols) ∧
      (∀ sol ∈ Spec.allMappings S o, Spec.validRec o sol = true → sol.sp = d.sp →
        Cost.le d.cost (recCost c o sol) = true) := by
  intro d hd
  refine ⟨?_, dp_nonempty thlAlg c S _ d hd, ?_⟩
  · intro ls hls
    exact le_antisymm ((C01_thl_cell_sound c S o d hd ls hls).2.2.2.2 hcoh)
      (C01_thl_cell_le_decoded c S o hb hS d hd ls hls)
  · intro sol hsol _ hsp
    by_cases hfin : recCost c o sol = .inf
    · rw [hfin]; exact le_inf _
    · obtain ⟨d', hd', hsp', hle⟩ := C01_thl_cell_lower c S o true hb hS sol hsol hfin
      have : d' = d := dp_functional thlAlg c S true _ hd' hd (by rw [hsp', hsp]) rfl
      rw [← this]; exact hle

/-- What `thl` offers to its result entry. -/
theorem mem_thl (sol : Sol) :
    sol ∈ thl c S o ↔
      (∃ d ∈ thlCells c S true o, ∃ ls ∈ d.sols, plainSol o ls = sol) ∧
      ∀ d' ∈ thlCells c S true o, ∀ ls' ∈ d'.sols,
        Cost.le (recCost c o sol) (recCost c o (plainSol o ls')) = true := by
  unfold thl
  simp only [mem_rankByCost, totalCost_plain, List.mem_flatMap, List.mem_map]
  constructor
  · rintro ⟨⟨d, hd, ls, hls, rfl⟩, hmin⟩
    exact ⟨⟨d, hd, ls, hls, rfl⟩, fun d' hd' ls' hls' => hmin _ ⟨d', hd', ls', hls', rfl⟩⟩
  · rintro ⟨⟨d, hd, ls, hls, rfl⟩, hmin⟩
    refine ⟨⟨d, hd, ls, hls, rfl⟩, ?_⟩
    rintro s' ⟨d', hd', ls', hls', rfl⟩
    exact hmin d' hd' ls' hls'

/-- **C04 for `thl`** (all unit costs, no coherence): every returned solution maps
    every node, keeps the leaves in their species, has no INVALID event and a
    finite cost. -/
theorem C01_thl_finite : ∀ sol ∈ thl c S o,
    Spec.validSol .plain o sol = true ∧ sol ∈ Spec.allMappings S o ∧
      totalCost c .plain o sol ≠ .inf := by
  intro sol hsol
  obtain ⟨⟨d, hd, ls, hls, rfl⟩, _⟩ := (mem_thl c S o sol).mp hsol
  obtain ⟨_, hv, hm, hf, _⟩ := C01_thl_cell_sound c S o d hd ls hls
  exact ⟨by simp [Spec.validSol, hv], hm, by rw [totalCost_plain]; exact hf⟩

/-- **C01 for `thl`** = `C01_thl_statement` with the well-formedness guard: inside
    the coherent region every returned solution is a valid reconciliation and no
    valid reconciliation is cheaper. -/
theorem C01_thl (hb : S.isBinary = true) (hS : ∀ p ∈ leafSpecies o, S.isNode p = true)
    (hcoh : c.spe ≤ c.dup + 2 * c.floss) : ∀ sol ∈ thl c S o,
    Spec.validRec o sol = true ∧
    ∀ sol', Spec.validRec o sol' = true → sol' ∈ Spec.allMappings S o →
      Cost.le (totalCost c .plain o sol) (totalCost c .plain o sol') = true := by
  intro sol hsol
  obtain ⟨⟨d, hd, ls, hls, rfl⟩, hmin⟩ := (mem_thl c S o sol).mp hsol
  refine ⟨(C01_thl_cell_sound c S o d hd ls hls).2.1, ?_⟩
  intro sol' _ hsol'
  simp only [totalCost_plain]
  by_cases hfin : recCost c o sol' = .inf
  · rw [hfin]; exact le_inf _
  · obtain ⟨d', hd', _, hle⟩ := C01_thl_cell_lower c S o true hb hS sol' hsol' hfin
    obtain ⟨ls', hls'⟩ := dp_nonempty thlAlg c S _ d' hd'
    exact le_trans (hmin d' hd' ls' hls')
      (le_trans ((C01_thl_cell_sound c S o d' hd' ls' hls').2.2.2.2 hcoh) hle)

/-- **Totality**: `thl` returns at least one solution on every well-formed input
    (the LCA reconciliation is valid and finite, so a finite cell exists, and every
    finite cell decodes).  No coherence needed. -/
theorem C01_thl_total (hb : S.isBinary = true) (hS : ∀ p ∈ leafSpecies o, S.isNode p = true) :
    thl c S o ≠ [] := by
  have hgen := (mem_generateAll o (lcaSol o)).mp (lcaSol_mem_generateAll o)
  have hmem := mem_allMappings_of_valid S o (lcaSol o) hS hgen.1 hgen.2
  obtain ⟨n, hn⟩ := totalCost_lcaSol_fin c o
  rw [totalCost_plain] at hn
  obtain ⟨d, hd, _, _⟩ := C01_thl_cell_lower c S o true hb hS _ hmem (by rw [hn]; simp)
  obtain ⟨ls, hls⟩ := dp_nonempty thlAlg c S _ d hd
  unfold thl
  apply rankByCost_ne_nil
  intro e
  have : plainSol o ls ∈ (thlCells c S true o).flatMap (fun d => d.sols.map (plainSol o)) :=
    List.mem_flatMap.mpr ⟨d, hd, List.mem_map.mpr ⟨ls, hls, rfl⟩⟩
  rw [e] at this; cases this

/-- **The optimiser's belief is right** (coherent region): the minimum table value
    at the root equals the evaluated cost of every returned solution … -/
theorem C01_thl_table_min (hb : S.isBinary = true) (hS : ∀ p ∈ leafSpecies o, S.isNode p = true)
    (hcoh : c.spe ≤ c.dup + 2 * c.floss) :
    ∀ sol ∈ thl c S o, totalCost c .plain o sol = thlTableMin c S o := by
  intro sol hsol
  obtain ⟨⟨d, hd, ls, hls, rfl⟩, hmin⟩ := (mem_thl c S o _).mp hsol
  rw [totalCost_plain]
  unfold thlTableMin thlCells
  rw [dpTable_costs]
  symm
  apply minList_eq
  · intro x hx
    obtain ⟨d', hd', rfl⟩ := List.mem_map.mp hx
    obtain ⟨hex, ⟨ls', hls'⟩, _⟩ := C01_thl_cell_exact c S o hb hS hcoh d' hd'
    rw [← hex ls' hls']
    exact hmin d' hd' ls' hls'
  · right
    refine List.mem_map.mpr ⟨d, hd, ?_⟩
    exact ((C01_thl_cell_exact c S o hb hS hcoh d hd).1 ls hls).symm

/-- … and it is the minimum of the evaluated cost over ALL valid reconciliations
    (the specification `Spec.allValid`, which shares nothing with the optimiser). -/
theorem C01_thl_table_opt (hb : S.isBinary = true) (hS : ∀ p ∈ leafSpecies o, S.isNode p = true)
    (hcoh : c.spe ≤ c.dup + 2 * c.floss) :
    thlTableMin c S o = Cost.minList ((Spec.allValid S o).map (totalCost c .plain o)) := by
  obtain ⟨m, hm⟩ := List.exists_mem_of_ne_nil _ (C01_thl_total c S o hb hS)
  rw [← C01_thl_table_min c S o hb hS hcoh m hm]
  symm
  obtain ⟨hv, hmem, _⟩ := C01_thl_finite c S o m hm
  have h := C01_thl c S o hb hS hcoh m hm
  apply minList_eq
  · intro x hx
    obtain ⟨s', hs', rfl⟩ := List.mem_map.mp hx
    simp only [Spec.allValid, List.mem_filter] at hs'
    exact h.2 s' hs'.2 hs'.1
  · right
    refine List.mem_map.mpr ⟨m, ?_, rfl⟩
    simp only [Spec.allValid, List.mem_filter]
    exact ⟨hmem, h.1⟩

/-- **C05 for `thl`**: inside the coherent region the result is exactly the set of
    ALL valid reconciliations of minimum cost, each once (`C05_all_statement` with
    `Valid sol := validRec o sol ∧ sol ∈ allMappings S o`). -/
theorem C01_thl_all (hb : S.isBinary = true) (hS : ∀ p ∈ leafSpecies o, S.isNode p = true)
    (hcoh : c.spe ≤ c.dup + 2 * c.floss) :
    (∀ sol, sol ∈ thl c S o ↔
      (Spec.validRec o sol = true ∧ sol ∈ Spec.allMappings S o) ∧
      ∀ sol', (Spec.validRec o sol' = true ∧ sol' ∈ Spec.allMappings S o) →
        Cost.le (totalCost c .plain o sol) (totalCost c .plain o sol') = true) ∧
    (thl c S o).Nodup := by
  refine ⟨fun sol => ⟨?_, ?_⟩, nodup_rankByCost _ _ _ _⟩
  · intro hsol
    obtain ⟨hv, hm, _⟩ := C01_thl_finite c S o sol hsol
    have h := C01_thl c S o hb hS hcoh sol hsol
    exact ⟨⟨h.1, hm⟩, fun sol' h' => h.2 sol' h'.1 h'.2⟩
  · rintro ⟨⟨hv, hm⟩, hmin⟩
    -- some returned solution exists and is finite, so `sol` is finite
    obtain ⟨m, hmthl⟩ := List.exists_mem_of_ne_nil _ (C01_thl_total c S o hb hS)
    obtain ⟨mv, mm, mfin⟩ := C01_thl_finite c S o m hmthl
    have hmv : Spec.validRec o m = true := (C01_thl c S o hb hS hcoh m hmthl).1
    have hle := hmin m ⟨hmv, mm⟩
    simp only [totalCost_plain] at hle mfin hmin
    have hfin : recCost c o sol ≠ .inf := by
      intro e; rw [e] at hle; exact mfin ((inf_le _).mp hle)
    -- the cell at the root species of `sol`
    obtain ⟨adm, e⟩ := adm_toLSol S o sol hm
    obtain ⟨d, hd, hsp, hle'⟩ := C01_thl_cell_lower c S o true hb hS sol hm hfin
    obtain ⟨hex, ⟨ls0, hls0⟩, _⟩ := C01_thl_cell_exact c S o hb hS hcoh d hd
    obtain ⟨_, v0, m0, _, _⟩ := C01_thl_cell_sound c S o d hd ls0 hls0
    have h0 := hmin _ ⟨v0, m0⟩
    rw [hex ls0 hls0] at h0
    have hcost : labCost thlAlg c (annPlain S o) (toLSol sol) = d.cost := by
      rw [labCost_thl c S o _ adm, e]; exact le_antisymm h0 hle'
    have hin : toLSol sol ∈ d.sols :=
      dp_all thlAlg c S hb (annPlain S o) (annPlain_internal_spOk S o hS) _ adm d hd
        (by rw [hsp, toLSol_sp]) rfl hcost
    refine (mem_thl c S o sol).mpr ⟨⟨d, hd, _, hin, e⟩, ?_⟩
    intro d' hd' ls' hls'
    obtain ⟨_, v', m', _, _⟩ := C01_thl_cell_sound c S o d' hd' ls' hls'
    exact hmin _ ⟨v', m'⟩

/-- Inside the coherent region `reconcile_thl` and `reconcile_exhaustive` return the
    same set of reconciliations (C10 for this pair). -/
theorem C01_thl_eq_exhaustive (hb : S.isBinary = true)
    (hS : ∀ p ∈ leafSpecies o, S.isNode p = true) (hcoh : c.spe ≤ c.dup + 2 * c.floss) :
    ∀ sol, sol ∈ thl c S o ↔ sol ∈ exhaustive c o := by
  intro sol
  rw [(C01_thl_all c S o hb hS hcoh).1 sol]
  unfold exhaustive
  rw [mem_rankByCost]
  have key : ∀ s, (Spec.validRec o s = true ∧ s ∈ Spec.allMappings S o) ↔ s ∈ generateAll o := by
    intro s
    rw [mem_generateAll]
    constructor
    · rintro ⟨h1, h2⟩; exact ⟨h1, plainLabels_of_mem_allMappings S o s h2⟩
    · rintro ⟨h1, h2⟩; exact ⟨h1, mem_allMappings_of_valid S o s hS h1 h2⟩
  constructor
  · rintro ⟨h1, h2⟩; exact ⟨(key sol).mp h1, fun s' hs' => h2 s' ((key s').mpr hs')⟩
  · rintro ⟨h1, h2⟩; exact ⟨(key sol).mpr h1, fun s' hs' => h2 s' ((key s').mp hs')⟩

/-- The binarity guard cannot be dropped from `C01_thl` (so `C01_thl_statement`
    as written in `C01.lean`, without well-formedness, is false): over the
    ternary star `(A,B,C)` with `((a_A, c_C), b_B)`, spe = dup = 0, floss = 2,
    hgt = 3 (coherent), the optimiser has no speciation role for the third child,
    prices `(a,c)` at the root as a duplication (table 4, evaluated 0) and therefore
    prefers a transfer; it returns cost 3 while a valid reconciliation of cost 2 exists. -/
theorem C01_thl_wf_needed :
    let c : Costs := { spe := 0, dup := 0, hgt := .fin 3, floss := 2, sloss := 1 }
    let S : RTree := .node [.node [], .node [], .node []]
    let o : OTree := .node (.node (.leaf [0] []) (.leaf [2] [])) (.leaf [1] [])
    let better : Sol := .node [] [] (.node [] [] (.leaf [0] []) (.leaf [2] [])) (.leaf [1] [])
    c.spe ≤ c.dup + 2 * c.floss ∧ (∀ p ∈ leafSpecies o, S.isNode p = true) ∧ S.isBinary = false ∧
    (thl c S o).map (totalCost c .plain o) = [.fin 3] ∧
    Spec.validRec o better = true ∧ better ∈ Spec.allMappings S o ∧
    totalCost c .plain o better = .fin 2 := by
  decide +kernel

/-! ### Non-vacuity -/

/-- A well-formed coherent input with five co-optimal reconciliations: all
    hypotheses of `C01_thl`, `C01_thl_total`, `C01_thl_all` hold, and `thl` returns
    all five. -/
example :
    let c : Costs := { spe := 1, dup := 1, hgt := .fin 1, floss := 1, sloss := 1 }
    let S : RTree := .node [.node [.node [], .node []], .node []]
    let o : OTree := .node (.node (.leaf [0, 0] []) (.leaf [1] [])) (.leaf [0, 1] [])
    S.isBinary = true ∧ (∀ p ∈ leafSpecies o, S.isNode p = true) ∧
    c.spe ≤ c.dup + 2 * c.floss ∧
    (thl c S o).map (totalCost c .plain o) = [.fin 2, .fin 2, .fin 2, .fin 2, .fin 2] := by
  decide +kernel

/-- Cells of a small table: the cell values are the evaluated costs of what they decode to. -/
example :
    let c : Costs := { spe := 0, dup := 1, hgt := .fin 1, floss := 1, sloss := 1 }
    let S : RTree := .node [.node [], .node []]
    let o : OTree := .node (.leaf [0] []) (.leaf [1] [])
    (thlCells c S true o).map (fun d => (d.sp, d.cost, d.sols.map (fun ls => recCost c o (plainSol o ls)))) =
      [([], .fin 0, [.fin 0]), ([0], .fin 1, [.fin 1]), ([1], .fin 1, [.fin 1])] := by
  decide +kernel

end SR.C01
