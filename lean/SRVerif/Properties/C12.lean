/-
  C12 — The command-line tool names nodes, reports the true cost, writes
  readable output.

  Model: `SRVerif/Model/Cli.lean`.  `label_internal` is a loop over the
  pre-order sequence of node names (`labelNames`); `labelTree` installs the
  result on the tree.  The dispatch of `call_algorithm` is decided on the
  registry generated from the source (`Generated/Registry.lean`).

  `C12_cost` / `C12_superset` (each object reads back with the printed cost;
  `all` ⊇ `any`) are compositions of C06, C11 and C05 and are checked on the
  real runs by the harness (`harness/checks/c12.py`); they have no separate
  statement here.
-/
import SRVerif.Proofs.CliTree
import SRVerif.Proofs.CliSpecies

namespace SR.C12

open SR.Ser SR.Cli

/-- `label_internal` on the pre-order name sequence `l` with prefix `pfx`
    (`"O"` / `"S"`).  `labelTrace` pairs every final name with the index it
    received (`none` for a given name), `idxs` lists the indices in pre-order.

    1. the result has one name per node and is the first component of the trace;
    2. a given name (non-empty, not `"NoName"`) is untouched; an unnamed node
       receives `pfx ++ k`;
    3. the indices are strictly increasing in pre-order;
    4. a new name is none of the given names;
    5. no index is skipped without reason: every smaller index is the name of a node
       of the input or was assigned earlier (the tree is searched live). -/
theorem C12_label (pfx : String) (l : List String) :
    labelNames pfx l = (labelTrace pfx l).map (·.1)
    ∧ Aligned (Rel pfx) l (labelTrace pfx l)
    ∧ (idxs (labelTrace pfx l)).Pairwise (· < ·)
    ∧ (∀ k ∈ idxs (labelTrace pfx l), ∀ nm ∈ l, isUnnamed nm = false → nm ≠ mkName pfx k)
    ∧ (∀ k ∈ idxs (labelTrace pfx l), ∀ j, j < k →
        mkName pfx j ∈ l ∨ j ∈ idxs (labelTrace pfx l)) := by
  refine ⟨labelNames_eq pfx l, labelGoI_rel pfx l [] 0, labelGoI_pairwise pfx l [] 0, ?_, ?_⟩
  · intro k hk
    exact (labelGoI_idx pfx l [] 0 k hk).2.2.1
  · intro k hk j hj
    have := (labelGoI_idx pfx l [] 0 k hk).2.2.2 j (Nat.zero_le _) hj
    simpa only [List.nil_append, labelTrace] using this

/-- Position by position: `Aligned` says that the `i`-th final name is the given name
    when there was one, and `pfx ++ k` for some `k` otherwise. -/
theorem C12_label_pointwise (pfx : String) (l : List String) (i : Nat) (h : i < l.length) :
    ∃ h' : i < (labelNames pfx l).length,
      (isUnnamed l[i] = false → (labelNames pfx l)[i] = l[i])
      ∧ (isUnnamed l[i] = true → ∃ k ∈ idxs (labelTrace pfx l), (labelNames pfx l)[i] = mkName pfx k) := by
  have hlen := labelNames_length pfx l
  refine ⟨by omega, ?_⟩
  have hR := labelGoI_rel pfx l [] 0
  have key : ∀ (l : List String) (out : List (String × Option Nat)), Aligned (Rel pfx) l out →
      ∀ i (h : i < l.length) (h' : i < (out.map (·.1)).length),
        (isUnnamed l[i] = false → (out.map (·.1))[i] = l[i])
        ∧ (isUnnamed l[i] = true → ∃ k ∈ idxs out, (out.map (·.1))[i] = mkName pfx k) := by
    intro l out hA
    induction hA with
    | nil => intro i h; simp at h
    | @cons nm y l' out' hr _ ih =>
      intro i h h'
      cases i with
      | zero =>
        simp only [List.getElem_cons_zero, List.map_cons]
        unfold Rel at hr
        constructor
        · intro hu
          rw [hu] at hr
          simp only [Bool.false_eq_true, if_false] at hr
          rw [hr]
        · intro hu
          simp only [hu, if_true] at hr
          obtain ⟨k, rfl⟩ := hr
          exact ⟨k, by simp, rfl⟩
      | succ i =>
        simp only [List.getElem_cons_succ, List.map_cons]
        have := ih i (by simpa using h) (by simpa using h')
        refine ⟨this.1, fun hu => ?_⟩
        obtain ⟨k, hk, he⟩ := this.2 hu
        refine ⟨k, ?_, he⟩
        obtain ⟨a, o⟩ := y
        cases o with
        | none => simpa using hk
        | some k' => simp [hk]
  have := key l (labelTrace pfx l) hR i h (by rw [← labelNames_eq]; omega)
  simpa only [← labelNames_eq] using this

/-- If the given names are pairwise distinct, all names are pairwise distinct and
    non-empty after the pass; with the prefixes of the tool none is `"NoName"` either. -/
theorem C12_label_distinct (pfx : String) (l : List String)
    (hg : (l.filter (fun nm => !isUnnamed nm)).Nodup) :
    (labelNames pfx l).Nodup ∧ (∀ x ∈ labelNames pfx l, x ≠ "")
    ∧ (∀ c cs, pfx.toList = c :: cs → c ≠ 'N' → ∀ x ∈ labelNames pfx l, isUnnamed x = false) := by
  obtain ⟨h1, h2, h3, h4, _⟩ := C12_label pfx l
  have hnd : (idxs (labelTrace pfx l)).Nodup :=
    h3.imp (fun h => Nat.ne_of_lt h)
  refine ⟨h1 ▸ nodup_of_rel h2 hg hnd h4, ?_, ?_⟩
  · intro x hx
    rw [h1] at hx
    rcases mem_of_rel h2 hx with ⟨_, hu⟩ | ⟨k, _, rfl⟩
    · intro he; subst he; simp [isUnnamed] at hu
    · exact mkName_ne_empty pfx k
  · intro c cs hp hc x hx
    rw [h1] at hx
    rcases mem_of_rel h2 hx with ⟨_, hu⟩ | ⟨k, _, rfl⟩
    · exact hu
    · exact isUnnamed_mkName hp hc k

/-- On trees: the names of the relabelled tree (pre-order) are the relabelled names, so
    with distinct given names the tree written by `reconcile` is uniquely named — the
    hypothesis of C11. -/
theorem C12_label_tree (pfx : String) (t : NT)
    (hg : (t.names.filter (fun nm => !isUnnamed nm)).Nodup) :
    (labelTree pfx t).names = labelNames pfx t.names ∧ (labelTree pfx t).UniqueNames := by
  have h := names_labelTree pfx t
  exact ⟨h, by unfold NT.UniqueNames; rw [h]; exact (C12_label_distinct pfx _ hg).1⟩

/-- The `while` loop of `label_internal` always finds a free name within its fuel. -/
theorem C12_label_fuel (pfx : String) (names : List String) (next : Nat) :
    mkName pfx (findFree pfx names (names.length + 1) next) ∉ names :=
  findFree_free (Nat.lt_succ_self _) next

/-- Dispatch of `call_algorithm`, decided on the registry generated from the source:
    * a super-reconciliation algorithm on an input without syntenies: error message,
      exit status 1, nothing written — whatever the policy and whatever results exist;
    * a plain algorithm on an input with syntenies: warning, and it runs;
    * matching kinds run without warning;
    * the policy passed is `RetentionPolicy.<SOLUTIONS.upper()>` exactly when the function
      takes two parameters; every registered signature has one parameter or two with
      `RetentionPolicy`, so the final `return None` is dead;
    * names outside the registry and policies outside the choices are refused by argparse. -/
theorem C12_dispatch :
    (∀ e ∈ Gen.algorithms, ∀ s ∈ Gen.solutionChoices,
      (e.2.1 = "SuperReconciliationInput" →
        dispatch e.1 .plain s = .errorNeedsSyntenies
        ∧ dispatch e.1 .super s = .run false (some (upper s)))
      ∧ (e.2.1 = "ReconciliationInput" →
        dispatch e.1 .super s = .run true (if e.2.2 = [] then none else some (upper s))
        ∧ dispatch e.1 .plain s = .run false (if e.2.2 = [] then none else some (upper s)))
      ∧ (e.2.1 = "SuperReconciliationInput" ∨ e.2.1 = "ReconciliationInput")
      ∧ (e.2.2 = [] ∨ e.2.2 = ["RetentionPolicy"])
      ∧ upper s ∈ Gen.retentionPolicies)
    ∧ (Gen.algorithms.map (·.1)).Nodup
    ∧ Gen.algorithms.map (·.1) = ["exh", "lca", "thl", "base_spfs", "ext_spfs", "base_uspfs", "superdtl"]
    ∧ dispatch "nosuch" .plain "any" = .rejected
    ∧ dispatch "lca" .plain "some" = .rejected := by
  decide

/-- What `reconcile` makes of it: status 1 and no output for the error and for an empty
    result list; otherwise status 0, the minimum cost line, one line per result in order. -/
theorem C12_outcome {ρ : Type} (enc : ρ → String) (results : List ρ) :
    reconcileOutcome .errorNeedsSyntenies results enc = (1, false, [])
    ∧ (∀ w p, reconcileOutcome (.run w p) ([] : List ρ) enc = (1, false, []))
    ∧ (∀ w p, results ≠ [] →
        reconcileOutcome (.run w p) results enc = (0, true, results.map enc)) := by
  refine ⟨rfl, fun _ _ => rfl, fun w p h => ?_⟩
  cases results with
  | nil => exact absurd rfl h
  | cons a r => rfl

/-- `get_species_mapping`: the prefixes tried for a leaf name are, in order of increasing
    length, exactly the prefixes that are followed by an underscore (lower-cased); the
    species is the first of them that is the lower-cased name of a leaf of the species tree. -/
theorem C12_species_mapping (nm : List Char) :
    prefixCands nm = (underscorePrefixes nm).map lowerChars
    ∧ (∀ p, p ∈ underscorePrefixes nm ↔ ∃ rest, nm = p ++ '_' :: rest)
    ∧ (underscorePrefixes nm).Pairwise (fun a b => a.length < b.length) :=
  ⟨prefixCands_eq nm, mem_underscorePrefixes nm, underscorePrefixes_sorted nm⟩

/-! ### Non-vacuity and the documented corner cases -/

/-- The README example: both ancestors unnamed. -/
example : labelNames "O" ["", "", "x_1", "x_2", "y_1"] = ["O0", "O1", "x_1", "x_2", "y_1"] := by decide

/-- Given names that look like generated ones are skipped, also when they come later in
    pre-order; `next` is not incremented after an assignment (the second unnamed node
    re-tests index 1, now taken). -/
example : labelNames "O" ["", "O0", "a", "NoName", "", "O3"] = ["O1", "O0", "a", "O2", "O4", "O3"] := by
  decide

example : idxs (labelTrace "O" ["", "O0", "a", "NoName", "", "O3"]) = [1, 2, 4] := by decide

/-- Species names containing underscores: the first matching prefix wins. -/
example :
    let st : NT := .node "" none [.node "a" none [], .node "a_B" none [], .node "c_d" none []]
    let ot : NT := .node "" none [.node "A_b_1" none [], .node "C_D_2" none [], .node "c" none [],
                                  .node "c_e_1" none []]
    getSpeciesMapping ot st = [([0], [0]), ([1], [2])] := by decide

end SR.C12
