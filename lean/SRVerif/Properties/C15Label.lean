/-
  C15 — the labels the layout computes are admissible fillings of the `label` holes.

  `C15_balanced` / `C15_draw_balanced` / `C15_draw_valid_all` take the labels as a parameter
  (`Deco.name`) with the hypothesis `DecoOK.name : isBalanced (deco.name s k)`;
  `C15_leafLabel_balanced` discharges it for a leaf WITHOUT synteny and without wrapping only.
  Here: for brace-free node names and family names (the property's alphabet has no brace), EVERY
  label produced by the model of `_compute_branches` — leaf or internal, with or without synteny,
  wrapped at any width or not — is brace-free up to the one `\textsubscript{…}` group, hence
  balanced.  So the balance clause holds for the labels of the property's input space, not only
  for labels assumed balanced.
-/
import SRVerif.Properties.C15

namespace SR.C15

open SR.Tikz

theorem mem_intercalate_elim {α : Type} (sep : List α) (c : α) : ∀ ls : List (List α),
    c ∈ List.intercalate sep ls → c ∈ sep ∨ ∃ l ∈ ls, c ∈ l
  | [], h => by simp [List.intercalate] at h
  | [x], h => by
    have : List.intercalate sep [x] = x := by simp [List.intercalate]
    rw [this] at h
    exact Or.inr ⟨x, by simp, h⟩
  | x :: y :: ys, h => by
    have e : List.intercalate sep (x :: y :: ys) = x ++ (sep ++ List.intercalate sep (y :: ys)) := by
      simp [List.intercalate, List.intersperse]
    rw [e] at h
    rcases List.mem_append.1 h with h | h
    · exact Or.inr ⟨x, by simp, h⟩
    · rcases List.mem_append.1 h with h | h
      · exact Or.inl h
      · rcases mem_intercalate_elim sep c (y :: ys) h with h | ⟨l, hl, hc⟩
        · exact Or.inl h
        · exact Or.inr ⟨l, List.mem_cons_of_mem _ hl, hc⟩

theorem mem_intercalate_intro {α : Type} (sep : List α) (c : α) : ∀ (ls : List (List α)) (l : List α),
    l ∈ ls → c ∈ l → c ∈ List.intercalate sep ls
  | [], l, h, _ => by cases h
  | [x], l, h, hc => by
    have : List.intercalate sep [x] = x := by simp [List.intercalate]
    rw [this]
    simp only [List.mem_singleton] at h
    rw [← h]; exact hc
  | x :: y :: ys, l, h, hc => by
    have e : List.intercalate sep (x :: y :: ys) = x ++ (sep ++ List.intercalate sep (y :: ys)) := by
      simp [List.intercalate, List.intersperse]
    rw [e]
    rcases List.mem_cons.1 h with h | h
    · rw [h] at hc; exact List.mem_append_left _ hc
    · exact List.mem_append_right _ (List.mem_append_right _ (mem_intercalate_intro sep c (y :: ys) l h hc))

theorem braceFree_iff (s : Str) : braceFree s = true ↔ ∀ c ∈ s, isBrace c = false := by
  simp [braceFree]

/-- The synteny text of a node (escaped families joined by `", "`, wrapped at any width with the
    TeX line break between the lines) contains no brace when the family names contain none. -/
theorem C15_syntenyText_braceFree (w : Option Nat) (fams : List Str)
    (hf : ∀ f ∈ fams, braceFree f = true) (text : Str)
    (h : syntenyText w (some fams) = some text) : braceFree text = true := by
  have hflat : braceFree (formatSynteny (fams.map escape)) = true := by
    rw [braceFree_iff]
    intro c hc
    rcases mem_intercalate_elim _ c _ hc with h | ⟨l, hl, hcl⟩
    · simp only [List.mem_cons, List.not_mem_nil, or_false] at h
      rcases h with rfl | rfl <;> decide
    · obtain ⟨f, hfm, rfl⟩ := List.mem_map.1 hl
      exact (braceFree_iff _).1 (C15_escape_braceFree f (hf f hfm)) c hcl
  cases w with
  | none =>
    have := (C15_label fams).1
    rw [this] at h
    cases h
    exact hflat
  | some w =>
    by_cases hne : text = []
    · subst hne; rfl
    · obtain ⟨ls, h1, h2, _, _⟩ := (C15_label fams).2.1 w text h hne
      rw [braceFree_iff]
      intro c hc
      rw [h1] at hc
      rcases mem_intercalate_elim _ c _ hc with h | ⟨l, hl, hcl⟩
      · simp only [texLineBreak, List.mem_cons, List.not_mem_nil, or_false] at h
        rcases h with rfl | rfl <;> decide
      · have : c ∈ formatSynteny (fams.map escape) := by
          rw [← h2]
          exact mem_intercalate_intro _ c _ l hl hcl
        exact (braceFree_iff _).1 hflat c this

/-- **Every label of the layout is balanced.**  For a brace-free node name and brace-free family
    names, whatever the wrap width and whatever the parent's synteny: the label `_compute_branches`
    gives a leaf (`leafLabel`) and the label it gives an internal node (`internalLabel`) have
    balanced braces — the hypothesis `DecoOK.name` of the drawing theorems. -/
theorem C15_labels_balanced (w : Option Nat) (syn par : Option (List Str)) (name : Str)
    (hn : braceFree name = true) (hs : ∀ fams, syn = some fams → ∀ f ∈ fams, braceFree f = true)
    (l : Str) :
    (leafLabel w syn name = some l → isBalanced l = true) ∧
    (internalLabel w syn par = some l → isBalanced l = true) := by
  have hnone : ∀ w', syntenyText w' none = some [] := fun _ => rfl
  have hleafname : ∀ x, leafLabel none none name = some x → isBalanced x = true :=
    fun x hx => C15_leafLabel_balanced name hn x hx
  constructor
  · intro h
    simp only [leafLabel, Option.map_eq_some_iff] at h
    obtain ⟨text, ht, rfl⟩ := h
    by_cases he : text.isEmpty = true
    · simp only [he, Bool.not_true, Bool.false_eq_true, if_false]
      apply hleafname
      simp [leafLabel, syntenyText]
    · simp only [he, Bool.not_false, if_true]
      cases syn with
      | none => rw [hnone] at ht; cases ht; simp at he
      | some fams =>
        exact isBalanced_of_braceFree _ (C15_syntenyText_braceFree w fams (hs fams rfl) text ht)
  · intro h
    simp only [internalLabel, Option.map_eq_some_iff] at h
    obtain ⟨text, ht, rfl⟩ := h
    split
    · rfl
    · cases syn with
      | none => rw [hnone] at ht; cases ht; rfl
      | some fams =>
        exact isBalanced_of_braceFree _ (C15_syntenyText_braceFree w fams (hs fams rfl) text ht)

/-- Non-vacuity: a wrapped label of three families with underscores, and a subscripted leaf name. -/
example : syntenyText (some 6) (some ["a_1".toList, "b".toList, "c_d".toList])
    = some "a\\_1,\\\\b,\\\\c\\_d".toList := by decide
example : leafLabel (some 6) none "E_coli_3".toList = some "E\\_coli\\textsubscript{3}".toList := by decide

end SR.C15
