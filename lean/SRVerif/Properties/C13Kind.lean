/-
  C13 — the KIND of the event node in the drawing.

  `C13_tikz_statement` (Properties/C13.lean) counts the event statements of an object node
  whatever their kind (`.event k _`), and `C13_nodes` speaks about the branches of the layout
  state, not about the drawing.  The property says that the DRAWING contains, per object node,
  one event node "of the kind the evaluator assigns".  This file states and proves that clause
  for the statement-kind model `Layout.render` and for the drawing calls `drawCalls`.
-/
import SRVerif.Properties.C13Tikz
import SRVerif.Properties.C13Draw

namespace SR.C13

open SR SR.Layout SR.TikzDraw

/-- An event statement occurs among the core statements of a branch only as the event of that
    branch, with that branch's kind. -/
theorem event_mem_coreStmts {b : Branch} {k : Key} {kind : BKind}
    (h : Stmt.event k kind ∈ coreStmts b) : b.key = k ∧ b.kind = kind ∧ b.kind ≠ .loss := by
  obtain ⟨key, bk, left, right⟩ := b
  cases bk
  case hgt =>
    cases right with
    | none => simp [coreStmts] at h
    | some t =>
      simp only [coreStmts, List.mem_cons, List.mem_nil_iff, or_false] at h
      rcases h with h | h | h
      · cases h
      · cases h
      · cases h; exact ⟨rfl, rfl, by simp⟩
  all_goals
    simp only [coreStmts, List.mem_cons, List.mem_nil_iff, or_false] at h
    first
      | (rcases h with h | h | h <;> cases h)
      | (rcases h with h | h
         · cases h
         · cases h; exact ⟨rfl, rfl, by simp⟩)
      | (cases h; exact ⟨rfl, rfl, by simp⟩)

/-- **C13, drawing, kind** (full): on a valid reconciliation in a binary species tree the drawing
    succeeds, and every event statement it contains for an object node `p` is of the kind the
    evaluator assigns to `p` (`LEAF`, `SPECIATION`, `DUPLICATION`, `HORIZONTAL_TRANSFER`).  With
    `C13_tikz` (exactly one event statement per object node) the drawing therefore contains, for
    every object node, exactly one event node, and it is of the evaluator's kind. -/
theorem C13_tikz_kind (o : Orientation) (P : Params) (sizes : Key → Size) (S : RTree) (ot : OTree)
    (sol : Sol) (hv : Spec.validRec ot sol = true) (hin : inTree S sol = true)
    (hbin : S.isBinary = true) :
    ∃ ss, render o P sizes S sol = .ok ss ∧
      ∀ p sub, subAt sol p = some sub → ∀ kind, Stmt.event (.gene p) kind ∈ ss →
        some kind = kindOfEvent (solEvent sub) := by
  obtain ⟨st, hst, _⟩ := C13_no_keyerror S ot sol hv hin
  obtain ⟨ss, hr, hperm⟩ := render_succeeds o P sizes (good_of_valid hv hin) hbin hst
  refine ⟨ss, hr, ?_⟩
  intro p sub hp kind hmem
  -- the statement is a core statement of some branch of the state
  have hq := hperm (fun x => x == Stmt.event (.gene p) kind) (by simp)
  have h1 : Stmt.event (.gene p) kind ∈ ss.filter (fun x => x == Stmt.event (.gene p) kind) := by
    simp [List.mem_filter, hmem]
  have h2 := hq.mem_iff.1 h1
  simp only [List.mem_flatMap, List.mem_filter] at h2
  obtain ⟨b, hb, hbm, _⟩ := h2
  obtain ⟨hkey, hkind, hnl⟩ := event_mem_coreStmts hbm
  obtain ⟨t, _, hbt⟩ := mem_allBranches.1 hb
  -- a non-loss branch is the branch of an object node, of the evaluator's kind
  obtain ⟨p', sub', hsub', _, hkey', hk'⟩ :=
    (C13_nodes_partial S ot sol st hv hin hst).2 t b hbt hnl
  rw [hkey] at hkey'
  cases hkey'
  rw [hp] at hsub'
  cases hsub'
  rw [← hkind]; exact hk'

/-- The same for the drawing calls of `drawCalls` (the model that names the generated
    TikZ statement template of every call): among the statement kinds of the calls, an event
    node owned by object node `p` is the statement of the evaluator's kind — template 3
    (`\node[extant gene=`), 8 (`\node[speciation=`), 10 (`\node[duplication=`) or 13
    (`\node[horizontal gene transfer=`), see `C15_draw_stmtOf`. -/
theorem C13_tikz_draw_kind (o : Orientation) (P : Params) (sizes : Key → Size)
    (dp : DParams) (deco : Deco) (S : RTree) (ot : OTree) (sol : Sol)
    (hv : Spec.validRec ot sol = true) (hin : inTree S sol = true) (hbin : S.isBinary = true)
    (hw : dp.labelWidth ≠ some 0) :
    ∃ all calls, compute o P sizes S sol = .ok all ∧
      drawCalls o dp deco S (spOfSol sol) all = .ok calls ∧
      ∀ p sub, subAt sol p = some sub → ∀ kind, Stmt.event (.gene p) kind ∈ kinds calls →
        some kind = kindOfEvent (solEvent sub) := by
  obtain ⟨ss, hr, hk⟩ := C13_tikz_kind o P sizes S ot sol hv hin hbin
  rw [SR.C15.C15_draw_kinds o P sizes dp deco S sol hbin hw] at hr
  cases hc : compute o P sizes S sol with
  | error e => simp [hc] at hr
  | ok all =>
    simp only [hc] at hr
    cases hd : drawCalls o dp deco S (spOfSol sol) all with
    | error e => simp [hd] at hr
    | ok calls =>
      simp only [hd, mapE_ok, Except.ok.injEq] at hr
      subst hr
      exact ⟨all, calls, rfl, hd, hk⟩

/-- Non-vacuity: in the running example the events drawn are those of the evaluator. -/
example : (match render .vertical exP exSizes exS exSol with
    | .ok ss => ss.filterMap fun x => match x with | .event (.gene p) k => some (p, k) | _ => none
    | .error _ => []) =
    [([], .spec), ([0, 1], .leaf), ([0], .dup), ([0, 0], .leaf), ([1, 1], .leaf), ([1, 0], .leaf),
     ([1], .hgt)] := by decide +kernel

end SR.C13
