/-
  C13 — WHERE the drawing puts the event nodes and the loss markers.

  `C13_tikz_draw_valid` / `C13_tikz_draw_kind` count the event statements and give their kind, and
  `C15_draw_faithful` (`BranchCall`) gives colour, label and the end of a transfer arrow; none of them
  says at which coordinates an event node or a loss marker is drawn (a drawing model that puts every
  `\node` at `(0,0)` satisfies all of them).  The property says "placed in the species that node is
  mapped to" and "located in the species where the loss occurs".  Here:

  * `C13_draw_place`: every call made on behalf of a branch `b` of the species layout `lay` that is an
    event node is drawn at the centre of `b.rect` (speciation, duplication, transfer) or on the first
    edge of `b.rect`, half a gene diameter inside (extant gene); a loss marker is drawn level with the
    centre of `b.rect`, on an edge of `lay.trunk`; and these are the ONLY coordinates of the statement.
  * `C13_draw_place_valid`: with `C14_branches_inside`, for a valid reconciliation the event node of a
    speciation / duplication / transfer is an interior-or-boundary point of the box of ITS species
    (`lay.rect`, `slLookup all c.sp = some lay`), across inside the trunk.
-/
import SRVerif.Properties.C13DrawValid
import SRVerif.Properties.C14Inside

namespace SR.C13

open SR SR.Layout SR.TikzDraw

/-- The coordinates that occur in a call. -/
def coordsOf (c : DrawCall) : List Pos :=
  c.fills.filterMap fun f => match f with | .coord p => some p | _ => none

/-- `leaf_pos` -/
def leafPos (o : Orientation) (dp : DParams) (b : FBranch) : Pos :=
  match o with
  | .vertical => b.rect.top.add ⟨0, dp.geneDiameter / 2⟩
  | .horizontal => b.rect.left.add ⟨dp.geneDiameter / 2, 0⟩

/-- `loss_pos` is level with the branch and on an edge of the species' trunk. -/
def onTrunkEdge (o : Orientation) (lay : SubLayout) (b : FBranch) (p : Pos) : Prop :=
  match o with
  | .vertical => p.y = b.rect.center.y ∧ (p.x = lay.trunk.right.x ∨ p.x = lay.trunk.left.x)
  | .horizontal => p.x = b.rect.center.x ∧ (p.y = lay.trunk.bottom.y ∨ p.y = lay.trunk.top.y)

/-- Where the marks of branch `b` of `lay` are drawn. -/
structure PlacedCall (o : Orientation) (dp : DParams) (lay : SubLayout) (b : FBranch)
    (c : DrawCall) : Prop where
  sp : c.sp = lay.sp
  owner : c.owner = some b.key
  node : c.stmt = 8 ∨ c.stmt = 10 ∨ c.stmt = 13 → coordsOf c = [b.rect.center]
  leaf : c.stmt = 3 → coordsOf c = [leafPos o dp b]
  loss : c.stmt = 5 → ∃ p, coordsOf c = [p] ∧ onTrunkEdge o lay b p

theorem anchorCall_placed (o : Orientation) (dp : DParams) (deco : Deco) (lay : SubLayout)
    (b : FBranch) : ∀ c ∈ anchorCall deco lay b, PlacedCall o dp lay b c := by
  intro c hc
  unfold anchorCall at hc
  split at hc
  · simp only [List.mem_singleton] at hc
    subst hc
    exact ⟨rfl, rfl, by simp, by simp, by simp⟩
  · cases hc

theorem drawBranch_placed {o : Orientation} {dp : DParams} {deco : Deco}
    {all : List SubLayout} {spOf : Path → Option Path} {lay : SubLayout}
    {ll rl : Option SubLayout} {b : FBranch} {cs : List DrawCall}
    (h : TikzDraw.drawBranch o dp deco all spOf lay ll rl b = .ok cs) :
    ∀ c ∈ cs, PlacedCall o dp lay b c := by
  have hpre := anchorCall_placed o dp deco lay b
  unfold TikzDraw.drawBranch at h
  cases hk : b.kind with
  | leaf =>
    simp only [hk, Except.ok.injEq] at h
    subst h
    intro c hc
    rcases List.mem_append.1 hc with hc | hc
    · exact hpre c hc
    · simp only [List.mem_singleton] at hc
      subst hc
      refine ⟨rfl, rfl, by simp, ?_, by simp⟩
      intro _
      cases o <;> simp [coordsOf, leafPos]
  | loss =>
    simp only [hk] at h
    split at h
    · cases h
    · rename_i keepPos lossPos hkeep
      simp only [Except.ok.injEq] at h
      subst h
      intro c hc
      rcases List.mem_append.1 hc with hc | hc
      · exact hpre c hc
      · simp only [List.mem_cons, List.not_mem_nil, or_false] at hc
        rcases hc with rfl | rfl | rfl
        · exact ⟨rfl, rfl, by simp, by simp, by simp⟩
        · refine ⟨rfl, rfl, by simp, by simp, ?_⟩
          intro _
          refine ⟨lossPos, by simp [coordsOf], ?_⟩
          -- `lossPos` comes out of the `keep` computation
          split at hkeep
          · split at hkeep
            · cases hkeep
            · simp only [Except.ok.injEq, Prod.mk.injEq] at hkeep
              obtain ⟨_, rfl⟩ := hkeep
              cases o <;> simp [onTrunkEdge]
          · split at hkeep
            · cases hkeep
            · simp only [Except.ok.injEq, Prod.mk.injEq] at hkeep
              obtain ⟨_, rfl⟩ := hkeep
              cases o <;> simp [onTrunkEdge]
        · exact ⟨rfl, rfl, by simp, by simp, by simp⟩
  | spec =>
    simp only [hk] at h
    split at h
    · simp only [Except.ok.injEq] at h
      subst h
      intro c hc
      rcases List.mem_append.1 hc with hc | hc
      · exact hpre c hc
      · simp only [List.mem_cons, List.not_mem_nil, or_false] at hc
        rcases hc with rfl | rfl
        · exact ⟨rfl, rfl, by simp, by simp, by simp⟩
        · exact ⟨rfl, rfl, by simp [coordsOf], by simp, by simp⟩
    · cases h
    · cases h
  | dup =>
    simp only [hk] at h
    split at h
    · simp only [Except.ok.injEq] at h
      subst h
      intro c hc
      rcases List.mem_append.1 hc with hc | hc
      · exact hpre c hc
      · simp only [List.mem_cons, List.not_mem_nil, or_false] at hc
        rcases hc with rfl | rfl
        · exact ⟨rfl, rfl, by simp, by simp, by simp⟩
        · exact ⟨rfl, rfl, by simp [coordsOf], by simp, by simp⟩
    · cases h
    · cases h
  | hgt =>
    simp only [hk] at h
    cases hr : b.right with
    | none => simp [hr] at h
    | some k =>
      cases k with
      | loss g s => simp [hr] at h
      | gene g =>
        simp only [hr] at h
        cases hs : spOf g with
        | none => simp [hs] at h
        | some s =>
          simp only [hs] at h
          cases hfl : slLookup all s with
          | none => simp [hfl] at h
          | some fl =>
            simp only [hfl] at h
            cases hfo : lookupKey fl.anchors (.gene g) with
            | none => simp [hfo] at h
            | some foreign =>
              simp only [hfo] at h
              cases hla : branchParentAnchor lay b.left with
              | error e => simp [hla] at h
              | ok la =>
                simp only [hla, Except.ok.injEq] at h
                subst h
                intro c hc
                rcases List.mem_append.1 hc with hc | hc
                · exact hpre c hc
                · simp only [List.mem_cons, List.not_mem_nil, or_false] at hc
                  rcases hc with rfl | rfl | rfl
                  · exact ⟨rfl, rfl, by simp, by simp, by simp⟩
                  · exact ⟨rfl, rfl, by simp, by simp, by simp⟩
                  · exact ⟨rfl, rfl, by simp [coordsOf], by simp, by simp⟩

/-- **Placement of every mark.**  Whatever the layout: a drawing call owned by a branch is made for a
    branch `b` of the layout `lay` of the species `c.sp` being drawn, and its event node / loss marker
    is drawn at the coordinates determined by `b.rect` and `lay.trunk` (`PlacedCall`). -/
theorem C13_draw_place (o : Orientation) (dp : DParams) (deco : Deco) (S : RTree)
    (spOf : Path → Option Path) (all : List SubLayout) (calls : List DrawCall)
    (h : drawCalls o dp deco S spOf all = .ok calls) :
    ∀ c ∈ calls, c.owner ≠ none →
      ∃ lay b, slLookup all c.sp = some lay ∧ c.sp ∈ S.preorder ∧ b ∈ lay.branches ∧
        PlacedCall o dp lay b c := by
  intro c hc hown
  cases origin_of_mem h c hc with
  | leafFork lay hs hl hf =>
    exact absurd (forkLeaf_owner hf).1 hown
  | innerFork lay l r hs hl h0 h1 hc' =>
    subst hc'
    exact absurd rfl hown
  | branch lay ll rl b cs hs hl hb hd hc' =>
    have pc := drawBranch_placed hd c hc'
    exact ⟨lay, b, by rw [pc.sp]; exact hl, by rw [pc.sp]; exact hs, hb, pc⟩

/-- The centre of a rectangle with non-negative extents is one of its points. -/
theorem center_hasPoint (r : Rect) (hw : 0 ≤ r.w) (hh : 0 ≤ r.h) :
    SR.C14.hasPoint r r.center.x r.center.y := by
  simp only [SR.C14.hasPoint, Rect.center]
  refine ⟨by linarith, by linarith, by linarith, by linarith⟩

/-- **For a valid reconciliation** (numeric hypotheses of C14): the node of a speciation, duplication
    or transfer is drawn at a point of the box of the species whose layout holds its branch — the
    species being drawn, `c.sp` — and, across, inside that species' trunk. -/
theorem C13_draw_place_valid (o : Orientation) (P : Params) (sizes : Key → Size) (dp : DParams)
    (deco : Deco) (S : RTree) (ot : OTree) (sol : Sol) (hn : SR.C14.NumHyps P sizes)
    (hv : Spec.validRec ot sol = true) (hin : inTree S sol = true)
    (hb : S.isBinary = true) (hw : dp.labelWidth ≠ some 0) :
    ∃ all calls, compute o P sizes S sol = .ok all ∧
      drawCalls o dp deco S (spOfSol sol) all = .ok calls ∧
      ∀ c ∈ calls, c.stmt = 8 ∨ c.stmt = 10 ∨ c.stmt = 13 →
        ∃ lay p, slLookup all c.sp = some lay ∧ coordsOf c = [p] ∧
          SR.C14.hasPoint lay.rect p.x p.y ∧
          (match o with
           | .vertical => lay.trunk.x ≤ p.x ∧ p.x ≤ lay.trunk.x + lay.trunk.w
           | .horizontal => lay.trunk.y ≤ p.y ∧ p.y ≤ lay.trunk.y + lay.trunk.h) := by
  obtain ⟨all, calls, hc, hd, _⟩ := C13_tikz_draw_valid o P sizes dp deco S ot sol hv hin hb hw
  obtain ⟨all', hc', hgeom⟩ := SR.C14.C14_branches_inside o P sizes S ot sol hn hv hin hb
  rw [hc] at hc'
  cases hc'
  refine ⟨all, calls, hc, hd, ?_⟩
  intro c hcm hst
  have hown : c.owner ≠ none := by
    cases origin_of_mem hd c hcm with
    | leafFork lay hs hl hf =>
      have := (forkLeaf_owner hf).2.1
      omega
    | innerFork lay l r hs hl h0 h1 hc' =>
      subst hc'
      simp [forkInner] at hst
    | branch lay ll rl b cs hs hl hb' hdb hc' =>
      have := (drawBranch_placed hdb c hc').owner
      simp [this]
  obtain ⟨lay, b, hl, _, hbm, pc⟩ := C13_draw_place o dp deco S (spOfSol sol) all calls hd c hcm hown
  have hlay : lay ∈ all := slLookup_mem hl
  obtain ⟨hin', hacross, _, hw0, hh0, _⟩ := (hgeom lay hlay).1 b hbm
  have hcen := center_hasPoint b.rect (le_of_lt hw0) (le_of_lt hh0)
  refine ⟨lay, b.rect.center, hl, pc.node hst, ?_, ?_⟩
  · simp only [SR.C14.hasPoint, SR.C14.inside] at *
    obtain ⟨a1, a2, a3, a4⟩ := hin'
    obtain ⟨c1, c2, c3, c4⟩ := hcen
    exact ⟨by linarith, by linarith, by linarith, by linarith⟩
  · have hpad := hn.hyps.pad
    cases o with
    | vertical =>
      simp only [SR.C14.acrossWithin] at hacross
      simp only [SR.C14.hasPoint] at hcen
      exact ⟨by linarith [hcen.1], by linarith [hcen.2.1]⟩
    | horizontal =>
      simp only [SR.C14.acrossWithin] at hacross
      simp only [SR.C14.hasPoint] at hcen
      exact ⟨by linarith [hcen.2.2.1], by linarith [hcen.2.2.2]⟩

/-- Non-vacuity: in the running example the speciation of the root is drawn at the centre of its
    branch box, inside the root species. -/
example :
    (match compute .vertical ⟨4, 5, 10, 12, 4⟩ (fun _ => ⟨8, 8⟩) exS exSol with
     | .ok all =>
       match drawCalls .vertical ⟨1, 3, "4pt".toList, some 21⟩
           ⟨fun _ _ => [], fun _ _ => "000000".toList, fun _ => "A_b".toList⟩ exS (spOfSol exSol) all with
       | .ok calls => ((calls.filter fun c => c.stmt = 8 ∨ c.stmt = 10 ∨ c.stmt = 13).map coordsOf).length
       | .error _ => 0
     | .error _ => 0) = 3 := by decide +kernel

end SR.C13
